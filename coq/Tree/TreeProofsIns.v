(** Insertion: [ins_fix] (rebalance_after_insert) keeps the in-order bindings and re-establishes the
    colour / black-height invariant; [locate] (the BST descent) finds the binding or the unique hole
    where the key belongs, with at most [height t] comparator calls. *)
From Coq Require Import Sorted.
From CC Require Import Base.Prelude Base.ListMem Base.Alloc Base.AllocProofs.
From CC Require Import Generated.Status Generated.Guards Tree.TreeModel Tree.TreeProofsInv.
Local Open Scope nat_scope.

Lemma list_pair_ind {A} (P : list A -> Prop) :
  P [] -> (forall a, P [a]) -> (forall a b l, P l -> P (a :: b :: l)) -> forall l, P l.
Proof.
  intros H0 H1 H2 l. assert (H : P l /\ forall a, P (a :: l)); [|tauto].
  induction l as [|x l [IH1 IH2]]; split; auto.
Qed.

Ltac el_tac :=
  rewrite ?elems_blacken; cbn [elems plug1 blacken]; rewrite ?elems_blacken;
  repeat (rewrite <- ?app_assoc; cbn [app]); reflexivity.

(** ** ins_fix keeps the in-order sequence *)
Lemma ins_fix_elems cx : forall z t', ins_fix z cx = Ok t' -> elems t' = elems (plug z cx).
Proof.
  induction cx as [| f | f g rest IH] using list_pair_ind; intros z t' H.
  - cbn in H. now inversion H.
  - destruct f as [pd pc pk pv ps]. cbn [ins_fix] in H. destruct pc; [discriminate|]. now inversion H.
  - destruct f as [pd pc pk pv ps], g as [gd gc gk gv u]. cbn [ins_fix] in H.
    destruct pc; [|now inversion H].
    rewrite !plug_cons.
    destruct gd.
    + destruct (col u) eqn:Eu.
      * apply IH in H. rewrite H. apply elems_plug_congr. destruct pd; el_tac.
      * destruct pd.
        -- inversion H; subst. apply elems_plug_congr. el_tac.
        -- destruct z as [|zc zl zk zv zr]; [discriminate|]. inversion H; subst.
           apply elems_plug_congr. el_tac.
    + destruct (col u) eqn:Eu.
      * apply IH in H. rewrite H. apply elems_plug_congr. destruct pd; el_tac.
      * destruct pd.
        -- destruct z as [|zc zl zk zv zr]; [discriminate|]. inversion H; subst.
           apply elems_plug_congr. el_tac.
        -- inversion H; subst. apply elems_plug_congr. el_tac.
Qed.

(** ** ins_fix re-establishes the colour / black-height invariant.
    z is a red node whose only possible violation is a red parent. *)
Ltac rbt_pre :=
  cbn [rbt bh cb col blacken plug1] in *;
  repeat match goal with
         | H : ?x = ?x -> _ |- _ => specialize (H eq_refl)
         | H : _ /\ _ |- _ => destruct H
         end.
Ltac rbt_tac :=
  rbt_pre; repeat split; intros; subst; try discriminate; auto; try lia; try congruence.

Lemma ins_fix_rbt cx : forall z,
  rbt z -> col z = R -> cx_rbt cx (bh z) -> root_col cx B = B ->
  exists t', ins_fix z cx = Ok t' /\ rbt t'.
Proof.
  induction cx as [| f | f g rest IH] using list_pair_ind; intros z Hz Hcz Hcx Hroot.
  - eexists; split; [reflexivity|exact Hz].
  - destruct f as [pd pc pk pv ps]. cbn [ins_fix]. cbn in Hroot. subst pc.
    eexists; split; [reflexivity|]. eapply plug_rbt; eauto.
  - destruct f as [pd pc pk pv ps], g as [gd gc gk gv u]. cbn [ins_fix].
    destruct pc.
    2:{ eexists; split; [reflexivity|]. eapply plug_rbt; eauto. }
    cbn [cx_rbt] in Hcx. destruct Hcx as (Hps & Hbps & Hred & Hu & Hbu & Hgred & Hrest).
    destruct (Hred eq_refl) as (Hcps & Hgc). cbn [top_col] in Hgc. subst gc.
    cbn [cb] in *. rewrite Nat.add_0_r in Hbu.
    cbn [root_col] in Hroot.
    apply col_R_inv in Hcz as (zl & zk & zv & zr & ->).
    cbn [rbt] in Hz. destruct Hz as (Hzl & Hzr & Hbz & Hzc). destruct (Hzc eq_refl) as (Hczl & Hczr).
    cbn [bh] in *.
    destruct gd.
    + destruct (col u) eqn:Eu.
      * apply IH; auto.
        -- apply col_R_inv in Eu as (ul & uk & uv & ur & ->). destruct pd; rbt_tac.
        -- destruct pd; cbn [plug1 bh]; [|rewrite Hbps]; (replace (S (bh zl)) with (bh zl + 0 + 1) by lia); exact Hrest.
      * destruct pd; (eexists; split; [reflexivity|]);
          (eapply plug_rbt; [exact Hrest| | |discriminate]); rbt_tac.
    + destruct (col u) eqn:Eu.
      * apply IH; auto.
        -- apply col_R_inv in Eu as (ul & uk & uv & ur & ->). destruct pd; rbt_tac.
        -- apply col_R_inv in Eu as (ul & uk & uv & ur & ->). cbn [blacken bh]. cbn [bh] in Hbu. rewrite Hbu.
           (replace (S (bh zl)) with (bh zl + 0 + 1) by lia); exact Hrest.
      * destruct pd; (eexists; split; [reflexivity|]);
          (eapply plug_rbt; [exact Hrest| | |discriminate]); rbt_tac.
Qed.

(** * The BST descent *)
Section Cmp.
Variable cmp : N -> N -> comparison.
Hypothesis cmp_refl : forall x, cmp x x = Eq.
Hypothesis cmp_anti : forall x y, cmp y x = CompOpp (cmp x y).
Hypothesis cmp_trans : forall x y z, cmp x y = Lt -> cmp y z = Lt -> cmp x z = Lt.
Hypothesis cmp_eq_l : forall x y z, cmp x y = Eq -> cmp x z = cmp y z.

Notation lt := (lt cmp).
Notation ksorted := (ksorted cmp).

(** every key before the hole is below k, every key after it is above k *)
Definition bounded (k : N) (cx : ctx) : Prop :=
  (forall x, In x (map fst (below cx)) -> lt x k) /\ (forall x, In x (map fst (above cx)) -> lt k x).

Lemma bounded_nil k : bounded k [].
Proof. split; intros x []. Qed.

Lemma keys_T c l k v r : keys (T c l k v r) = keys l ++ k :: keys r.
Proof. unfold keys. cbn [elems]. now rewrite map_app. Qed.

Lemma locate_found t : forall k cx c l k' v r cx' n,
  locate cmp t k cx = (Found c l k' v r cx', n) ->
  plug (T c l k' v r) cx' = plug t cx /\ cmp k k' = Eq.
Proof.
  induction t as [|tc tl IHl tk tv tr IHr]; intros k cx c l k' v r cx' n H; cbn [locate] in H; [discriminate|].
  destruct (cmp k tk) eqn:E.
  - inversion H; subst. auto.
  - destruct (locate cmp tl k (F DL tc tk tv tr :: cx)) as [lo m] eqn:E2. inversion H; subst.
    apply IHl in E2. destruct E2 as (E2 & E3). split; [|exact E3]. rewrite E2. reflexivity.
  - destruct (locate cmp tr k (F DR tc tk tv tl :: cx)) as [lo m] eqn:E2. inversion H; subst.
    apply IHr in E2. destruct E2 as (E2 & E3). split; [|exact E3]. rewrite E2. reflexivity.
Qed.

Lemma locate_hole t : forall k cx cx' n,
  locate cmp t k cx = (Hole cx', n) -> ksorted (keys t) -> bounded k cx ->
  plug L cx' = plug t cx /\ bounded k cx'.
Proof.
  induction t as [|tc tl IHl tk tv tr IHr]; intros k cx cx' n H Hs Hb; cbn [locate] in H.
  - inversion H; subst. auto.
  - rewrite keys_T in Hs. apply ksorted_app in Hs. destruct Hs as (Hsl & Hsr & Hlr).
    apply ksorted_cons in Hsr. destruct Hsr as (Hsr & Hkr).
    destruct (cmp k tk) eqn:E; [discriminate| |].
    + destruct (locate cmp tl k (F DL tc tk tv tr :: cx)) as [lo m] eqn:E2. inversion H; subst.
      assert (Hb' : bounded k (F DL tc tk tv tr :: cx)).
      { unfold bounded in *. destruct Hb as (Hb1 & Hb2). split; cbn [below above]; [exact Hb1|].
        intros x Hx. cbn [map fst] in Hx. destruct Hx as [<-|Hx]; [exact E|].
        rewrite map_app, in_app_iff in Hx. destruct Hx as [Hx|Hx]; [|auto].
        eapply cmp_trans; [exact E|]. apply Hkr. exact Hx. }
      destruct (IHl _ _ _ _ E2 Hsl Hb') as (E3 & E4). split; [|exact E4]. rewrite E3. reflexivity.
    + destruct (locate cmp tr k (F DR tc tk tv tl :: cx)) as [lo m] eqn:E2. inversion H; subst.
      assert (Hb' : bounded k (F DR tc tk tv tl :: cx)).
      { unfold bounded in *. destruct Hb as (Hb1 & Hb2). split; cbn [below above]; [|exact Hb2].
        intros x Hx. rewrite !map_app, !in_app_iff in Hx. cbn [map fst In] in Hx.
        assert (Hk : lt tk k) by (apply (cmp_gt_lt cmp cmp_anti); exact E).
        destruct Hx as [Hx|[Hx|[<-|[]]]]; [auto| |exact Hk].
        eapply cmp_trans; [|exact Hk]. apply Hlr; [exact Hx|]. left; reflexivity. }
      destruct (IHr _ _ _ _ E2 Hsr Hb') as (E3 & E4). split; [|exact E4]. rewrite E3. reflexivity.
Qed.

Lemma locate_count t : forall k cx, N.to_nat (snd (locate cmp t k cx)) <= height t.
Proof.
  induction t as [|tc tl IHl tk tv tr IHr]; intros k cx; cbn [locate height]; [cbn; lia|].
  destruct (cmp k tk).
  - cbn. lia.
  - specialize (IHl k (F DL tc tk tv tr :: cx)). destruct (locate cmp tl k _) as [lo m]. cbn [snd] in *. lia.
  - specialize (IHr k (F DR tc tk tv tl :: cx)). destruct (locate cmp tr k _) as [lo m]. cbn [snd] in *. lia.
Qed.

End Cmp.
