(** Granting allocators (exact statuses), iterator enumeration and removal, and the tree set. *)
From Coq Require Import Sorted.
From CC Require Import Base.Prelude Base.ListMem Base.Alloc Base.AllocProofs.
From CC Require Import Generated.Status Generated.Guards Tree.TreeModel.
From CC Require Import Tree.TreeProofsInv Tree.TreeProofsIns Tree.TreeProofsDel Tree.TreeProofsMap Tree.TreeProofsTable
  Tree.TreeProofsRun.
Local Open Scope nat_scope.

Lemma release_plan m id a a' : release m id a = Ok a' -> plan a' = plan a /\ limit a' = limit a.
Proof.
  unfold release. destruct (remove_block id (live a)) as [[b r]|]; [|discriminate].
  destruct (tag_eqb (b_tag b) m); [|discriminate]. intros [= <-]. auto.
Qed.
Lemma release_all_plan m ids : forall a a', release_all m ids a = Ok a' -> plan a' = plan a /\ limit a' = limit a.
Proof.
  induction ids as [|i ids IH]; intros a a' H; cbn [release_all] in H.
  - injection H as <-. auto.
  - destruct (release m i a) as [a1|] eqn:E; [|discriminate]. cbn [bind] in H.
    apply release_plan in E. apply IH in H. destruct E, H. split; congruence.
Qed.

Ltac crunch H :=
  repeat (cbn [bind] in H;
          match type of H with
          | context [match ?x with _ => _ end] => destruct x eqn:?
          | context [bind ?x _] => destruct x eqn:?
          end);
  cbn [bind] in H; try discriminate.

Ltac plans :=
  repeat match goal with
         | H : release _ _ _ = Ok _ |- _ => apply release_plan in H; destruct H
         | H : release_all _ _ _ = Ok _ |- _ => apply release_all_plan in H; destruct H
         end.

Section Cmp.
Variable cmp : N -> N -> comparison.
Hypothesis cmp_refl : forall x, cmp x x = Eq.
Hypothesis cmp_anti : forall x y, cmp y x = CompOpp (cmp x y).
Hypothesis cmp_trans : forall x y z, cmp x y = Lt -> cmp y z = Lt -> cmp x z = Lt.
Hypothesis cmp_eq_l : forall x y z, cmp x y = Eq -> cmp x z = cmp y z.

Notation tt_inv := (tt_inv cmp).
Notation rb_inv := (rb_inv cmp).
Notation refines_step := (refines_step cmp).
Notation sorted := (sorted cmp).

(** * Granting allocator: statuses are exactly the ideal map's *)
Lemma tt_remove_at_plan s c l r cx it a s' a' :
  tt_remove_at s c l r cx it a = Ok (s', a') -> plan a' = plan a /\ limit a' = limit a.
Proof. unfold tt_remove_at. intros H. crunch H. injection H as <- <-. plans. auto. Qed.

Lemma tt_step_grant s a o out s' a' :
  plan a = [] -> (SIZEOF_RBNODE <= limit a)%N -> tt_step cmp s a o = Ok (out, s', a') ->
  o_st out <> CC_ERR_ALLOC /\ plan a' = [] /\ limit a' = limit a.
Proof.
  intros Hp Hl. destruct o; cbn [tt_step]; intros H.
  1:{ unfold tt_add in H. destruct (alloc_grants (tt_mem s) SIZEOF_RBNODE a Hp Hl) as (a1 & Ea & Hp1).
      pose proof (alloc_cases (tt_mem s) SIZEOF_RBNODE a) as C. rewrite Ea in C. destruct C as (_ & _ & _ & Hl1 & _).
      destruct (locate cmp (tt_tree s) k []) as [[c l k' v0 r cx|cx] n].
      - injection H as <- <- <-. cbn. repeat split; auto. discriminate.
      - rewrite Ea in H. crunch H; injection H as <- <- <-; cbn; repeat split; auto; discriminate. }
  all: crunch H; injection H as <- <- <-; cbn [o_st mk_out];
    repeat match goal with H : tt_remove_at _ _ _ _ _ _ _ = Ok _ |- _ => apply tt_remove_at_plan in H; destruct H end;
    plans; (split; [discriminate|]); split; congruence.
Qed.

Theorem tt_run_refines_grant ops : forall s a outs s' a',
  tt_inv s a -> (N.of_nat (tsize (tt_tree s)) + N.of_nat (length ops) < W)%N ->
  plan a = [] -> (SIZEOF_RBNODE <= limit a)%N ->
  tt_run cmp s a ops = Ok (outs, s', a') ->
  tt_inv s' a' /\ (map (fun o => (o_st o, o_vals o)) outs, abs s') = spec_run cmp (abs s) ops.
Proof.
  induction ops as [|o r IH]; intros s a outs s' a' I Hsm Hp Hl H; cbn [tt_run] in H.
  - injection H as <- <- <-. auto.
  - destruct (tt_step cmp s a o) as [[[out s1] a1]|] eqn:E; [|discriminate]. cbn [bind] in H.
    destruct (tt_run cmp s1 a1 r) as [[[outs1 s2] a2]|] eqn:E2; [|discriminate]. cbn [bind] in H.
    injection H as <- <- <-. cbn [length] in Hsm.
    destruct (tt_step_inv cmp cmp_refl cmp_anti cmp_trans cmp_eq_l _ _ _ _ _ _ I ltac:(lia) E) as (I1 & R1).
    pose proof R1 as Hsz. apply refines_size in Hsz; auto.
    destruct (tt_step_grant _ _ _ _ _ _ Hp Hl E) as (Hst & Hp1 & Hl1).
    destruct (IH _ _ _ _ _ I1 ltac:(lia) Hp1 ltac:(lia) E2) as (I2 & R2). split; [exact I2|].
    cbn [map spec_run]. destruct R1 as [(Est & _)|(_ & Ea)]; [congruence|].
    rewrite <- Ea, <- R2. reflexivity.
Qed.

(** * Iterator *)
Lemma tt_run_app o1 : forall s a o2 outs1 s1 a1 outs2 s2 a2,
  tt_run cmp s a o1 = Ok (outs1, s1, a1) -> tt_run cmp s1 a1 o2 = Ok (outs2, s2, a2) ->
  tt_run cmp s a (o1 ++ o2) = Ok (outs1 ++ outs2, s2, a2).
Proof.
  induction o1 as [|o o1 IH]; intros s a o2 outs1 s1 a1 outs2 s2 a2 H1 H2; cbn [tt_run app] in *.
  - injection H1 as <- <- <-. exact H2.
  - destruct (tt_step cmp s a o) as [[[out s0] a0]|]; [|discriminate]. cbn [bind] in *.
    destruct (tt_run cmp s0 a0 o1) as [[[outs0 s3] a3]|] eqn:E; [|discriminate]. cbn [bind] in H1.
    injection H1 as <- <- <-. rewrite (IH _ _ _ _ _ _ _ _ _ E H2). reflexivity.
Qed.

Lemma sorted_notin_l l1 k v l2 : sorted (l1 ++ (k, v) :: l2) -> ~ In k (map fst l1).
Proof.
  intros Hso Hi. destruct (sorted_mid cmp _ _ _ _ Hso) as (H1 & _). apply H1 in Hi.
  exact (lt_irrefl cmp cmp_refl _ Hi).
Qed.

(** the step of a positioned cursor, computed *)
Lemma iter_next_at s a l1 k v l2 cur :
  tt_inv s a -> elems (tt_tree s) = l1 ++ (k, v) :: l2 ->
  tt_iter s = Some {| it_cur := cur; it_next := Some k |} ->
  exists out s1 a1, tt_step cmp s a OIterNext = Ok (out, s1, a1) /\ tt_inv s1 a1 /\
    o_st out = CC_OK /\ o_vals out = [k; v] /\ elems (tt_tree s1) = l1 ++ (k, v) :: l2 /\
    tt_iter s1 = Some {| it_cur := CNode k; it_next := hd_key l2 |}.
Proof.
  intros I He Hi.
  assert (Hok : op_ok s OIterNext) by (cbn; congruence).
  assert (S1 : step_ok cmp s a OIterNext) by (apply step_iter_next; auto).
  destruct S1 as (out & s1 & a1 & E & I1 & R).
  exists out, s1, a1. split; [exact E|]. split; [exact I1|].
  destruct R as [(_ & _ & _ & k0 & v0 & Eo)|(_ & R)]; [discriminate|].
  unfold abs in R. rewrite Hi, He in R. cbn [spec_step] in R.
  pose proof (rb_sorted cmp _ (inv_rb _ _ _ I)) as Hso. rewrite He in Hso.
  pose proof (sorted_notin_l _ _ _ _ Hso) as Hn.
  rewrite (assoc_eqb_mid _ _ _ _ Hn), (after_eqb_mid _ _ _ _ Hn) in R.
  injection R as -> -> -> ->. auto.
Qed.

Lemma iter_drain l2 : forall l1 s a cur,
  tt_inv s a -> elems (tt_tree s) = l1 ++ l2 ->
  tt_iter s = Some {| it_cur := cur; it_next := hd_key l2 |} ->
  exists outs s' a', tt_run cmp s a (repeat OIterNext (length l2)) = Ok (outs, s', a') /\
    map (fun o => (o_st o, o_vals o)) outs = map (fun b => (CC_OK, [fst b; snd b])) l2 /\
    tt_inv s' a' /\ elems (tt_tree s') = l1 ++ l2 /\
    exists cur', tt_iter s' = Some {| it_cur := cur'; it_next := None |}.
Proof.
  induction l2 as [|[k v] l2 IH]; intros l1 s a cur I He Hi.
  - cbn [length repeat tt_run]. do 3 eexists. split; [reflexivity|]. split; [reflexivity|]. eauto.
  - cbn [hd_key] in Hi. destruct (iter_next_at s a l1 k v l2 cur I He Hi) as (out & s1 & a1 & E & I1 & Est & Ev & He1 & Hi1).
    destruct (IH (l1 ++ [(k, v)]) s1 a1 (CNode k) I1) as (outs & s' & a' & Er & Eo & I' & He' & Hc');
      [now rewrite <- app_assoc|exact Hi1|].
    cbn [length repeat tt_run]. rewrite E. cbn [bind]. rewrite Er. cbn [bind].
    do 3 eexists. split; [reflexivity|]. split; [|split; [exact I'|split; [now rewrite <- app_assoc in He'|exact Hc']]].
    cbn [map fst snd]. rewrite Est, Ev, Eo. reflexivity.
Qed.

(** C03_inorder: a fresh iterator yields every binding once, in strictly ascending key order, then ITER_END;
    foreach_key / foreach_value hand over the same sequence *)
Theorem tt_iter_enumerates s a :
  tt_inv s a ->
  let l := elems (tt_tree s) in
  sorted l /\
  tt_step cmp s a OForeachKey = Ok (mk_out CC_OK (map fst l) 0, s, a) /\
  tt_step cmp s a OForeachValue = Ok (mk_out CC_OK (map snd l) 0, s, a) /\
  exists outs s' a',
    tt_run cmp s a (OIterInit :: repeat OIterNext (length l) ++ [OIterNext]) = Ok (outs, s', a') /\
    map (fun o => (o_st o, o_vals o)) outs =
      (CC_OK, []) :: map (fun b => (CC_OK, [fst b; snd b])) l ++ [(CC_ITER_END, [])] /\
    tt_inv s' a' /\ elems (tt_tree s') = l.
Proof.
  intros I l. split; [exact (rb_sorted cmp _ (inv_rb _ _ _ I))|]. split; [reflexivity|]. split; [reflexivity|].
  assert (S0 : step_ok cmp s a OIterInit) by (apply step_iter_init; auto).
  destruct S0 as (out0 & s0 & a0 & E0 & I0 & R0).
  destruct R0 as [(_ & _ & _ & k0 & v0 & Eo)|(_ & R0)]; [discriminate|].
  unfold abs in R0. cbn [spec_step] in R0. injection R0 as Est0 Ev0 He0 Hi0.
  destruct (iter_drain l [] s0 a0 CSent I0 He0 Hi0) as (outs & s1 & a1 & Er & Eo & I1 & He1 & cur' & Hc1).
  assert (Hok : op_ok s1 OIterNext) by (cbn; congruence).
  assert (S2 : step_ok cmp s1 a1 OIterNext) by (apply step_iter_next; auto).
  destruct S2 as (out2 & s2 & a2 & E2 & I2 & R2).
  destruct R2 as [(_ & _ & _ & k0 & v0 & Eo2)|(_ & R2)]; [discriminate|].
  unfold abs in R2. rewrite Hc1 in R2. cbn [spec_step] in R2. injection R2 as Est2 Ev2 He2 Hi2.
  assert (Erun : tt_run cmp s1 a1 [OIterNext] = Ok ([out2], s2, a2)) by (cbn [tt_run]; rewrite E2; reflexivity).
  pose proof (tt_run_app _ _ _ _ _ _ _ _ _ _ Er Erun) as Eall.
  cbn [tt_run]. rewrite E0. cbn [bind]. fold l in Eall. rewrite Eall. cbn [bind].
  do 3 eexists. split; [reflexivity|]. split; [|split; [exact I2|]].
  - cbn [map]. rewrite map_app, Eo. cbn [map]. rewrite Est0, Ev0, Est2, Ev2. reflexivity.
  - rewrite He2, He1. reflexivity.
Qed.

Lemma assoc_eqb_in k l : In k (map fst l) -> exists v, assoc_eqb k l = Some (k, v).
Proof.
  induction l as [|[k1 v1] l IH]; cbn [map fst In assoc_eqb]; [intros []|].
  destruct (N.eqb_spec k1 k) as [->|Hne]; [eauto|]. intros [E|Hi]; [congruence|auto].
Qed.

(** C03_iter_remove: removal through the iterator deletes exactly the entry yielded last, reports its value,
    keeps the pending successor, and a second removal reports KEY_NOT_FOUND without touching anything *)
Theorem tt_iter_remove_exact s a k nx :
  tt_inv s a -> (N.of_nat (tsize (tt_tree s)) + 1 < W)%N ->
  tt_iter s = Some {| it_cur := CNode k; it_next := nx |} ->
  exists v s' a',
    assoc_eqb k (elems (tt_tree s)) = Some (k, v) /\
    tt_step cmp s a OIterRemove = Ok (mk_out CC_OK [v] 0, s', a') /\ tt_inv s' a' /\
    elems (tt_tree s') = remove_eqb k (elems (tt_tree s)) /\
    tt_iter s' = Some {| it_cur := CNull; it_next := nx |} /\
    tt_step cmp s' a' OIterRemove = Ok (mk_out CC_ERR_KEY_NOT_FOUND [] 0, s', a').
Proof.
  intros I Hsm Hi.
  assert (Hok : op_ok s OIterRemove) by (cbn; eexists; split; [exact Hi|discriminate]).
  assert (S1 : step_ok cmp s a OIterRemove) by (apply step_iter_remove; auto).
  destruct S1 as (out & s' & a' & E & I' & R).
  destruct R as [(_ & _ & _ & k0 & v0 & Eo)|(_ & R)]; [discriminate|].
  pose proof (inv_iter _ _ _ I) as Hit. rewrite Hi in Hit. cbn in Hit. destruct Hit as (_ & Hc).
  destruct (Hc k eq_refl) as (Hin & _). destruct (assoc_eqb_in _ _ Hin) as (v & Ea).
  unfold abs in R. rewrite Hi in R. cbn [spec_step] in R. rewrite Ea in R.
  injection R as Est Ev He' Hi'.
  assert (Hcm : o_cmps out = 0%N).
  { cbn [tt_step] in E. rewrite Hi in E. cbn [it_cur] in E. crunch E. injection E as <- _ _. reflexivity. }
  exists v, s', a'. split; [exact Ea|]. split.
  - rewrite E. destruct out as [st vals n]. cbn in *. subst. reflexivity.
  - split; [exact I'|]. split; [exact He'|]. split; [exact Hi'|].
    cbn [tt_step]. rewrite Hi'. reflexivity.
Qed.

(** * CC_TreeSet *)
Definition ones (l : list (N * N)) : Prop := Forall (fun b => snd b = 1%N) l.
Definition ts_inv (s : tset) (a : alloc_st) : Prop := tt_inv (ts_tab s) a /\ ones (elems (tt_tree (ts_tab s))).

Lemma ones_add k l : ones l -> ones (spec_add cmp k 1 l).
Proof.
  unfold ones. induction l as [|[k1 v1] l IH]; intros H; cbn [spec_add].
  - constructor; auto.
  - inversion H; subst. destruct (cmp k k1); constructor; auto.
Qed.
Lemma ones_remove k l : ones l -> ones (spec_remove cmp k l).
Proof.
  unfold ones. induction l as [|[k1 v1] l IH]; intros H; cbn [spec_remove]; [constructor|].
  inversion H; subst. destruct (cmp k k1); auto.
Qed.
Lemma ones_remove_eqb k l : ones l -> ones (remove_eqb k l).
Proof.
  unfold ones. induction l as [|[k1 v1] l IH]; intros H; cbn [remove_eqb]; [constructor|].
  inversion H; subst. destruct (k1 =? k)%N; auto.
Qed.

Lemma ts_spec_ones st o : ones (fst st) -> ones (fst (snd (spec_step cmp st (ts_to_tt o)))).
Proof.
  destruct st as [l it]. cbn [fst]. intros H.
  pose proof (ones_add) as A. pose proof ones_remove as Rm. pose proof ones_remove_eqb as Re.
  destruct o; cbn [ts_to_tt spec_step];
    repeat match goal with |- context [match ?x with _ => _ end] => destruct x end;
    cbn [fst snd]; auto; constructor.
Qed.

Definition ts_refines (s : tset) (o : ts_op) (out : tt_out) (s' : tset) : Prop :=
  (o_st out = CC_ERR_ALLOC /\ o_vals out = [] /\ abs (ts_tab s') = abs (ts_tab s) /\ exists k, o = SAdd k) \/
  (o_st out <> CC_ERR_ALLOC /\ ((o_st out, o_vals out), abs (ts_tab s')) = ts_spec_step cmp (abs (ts_tab s)) o).

Theorem ts_step_refines s a o :
  ts_inv s a -> (N.of_nat (tsize (tt_tree (ts_tab s))) + 1 < W)%N -> op_ok (ts_tab s) (ts_to_tt o) ->
  exists out s' a', ts_step cmp s a o = Ok (out, s', a') /\ ts_inv s' a' /\ ts_hdr s' = ts_hdr s /\
                    ts_refines s o out s'.
Proof.
  intros (I & Hon) Hsm Hok.
  destruct (tt_step_refines cmp cmp_refl cmp_anti cmp_trans cmp_eq_l _ a _ I Hsm Hok) as (out & t' & a' & E & I' & R).
  unfold ts_step. rewrite E. cbn [bind]. do 3 eexists. split; [reflexivity|].
  cbn [ts_tab ts_hdr]. split; [|split; [reflexivity|]].
  - split; [exact I'|]. cbn [ts_tab]. destruct R as [(_ & _ & Ea & _)|(_ & Ea)].
    + unfold abs in Ea. injection Ea as -> _. exact Hon.
    + pose proof (ts_spec_ones (abs (ts_tab s)) o Hon) as H. rewrite <- Ea in H. exact H.
  - unfold ts_refines. cbn [o_st o_vals mk_out ts_tab]. destruct R as [(Est & Ev & Ea & k & v & Eo)|(Est & Ea)].
    + left. rewrite Est, Ev. destruct o; try discriminate. cbn. eauto.
    + right. split.
      * destruct o, (o_st out); cbn; congruence.
      * unfold ts_spec_step. rewrite <- Ea. reflexivity.
Qed.

Lemma ts_ok_op_ok s a o x : ts_step cmp s a o = Ok x -> op_ok (ts_tab s) (ts_to_tt o).
Proof.
  unfold ts_step. destruct (tt_step cmp (ts_tab s) a (ts_to_tt o)) as [[[out t'] a']|] eqn:E; [|discriminate].
  intros _. eapply ok_op_ok; eauto.
Qed.

Theorem ts_run_refines ops : forall s a outs s' a',
  ts_inv s a -> (N.of_nat (tsize (tt_tree (ts_tab s))) + N.of_nat (length ops) < W)%N ->
  ts_run cmp s a ops = Ok (outs, s', a') ->
  ts_inv s' a' /\ ts_hdr s' = ts_hdr s /\
  (map (fun o => (o_st o, o_vals o)) outs, abs (ts_tab s')) = ts_spec_run_d cmp (abs (ts_tab s)) ops (map o_st outs).
Proof.
  induction ops as [|o r IH]; intros s a outs s' a' I Hsm H; cbn [ts_run] in H.
  - injection H as <- <- <-. auto.
  - destruct (ts_step cmp s a o) as [[[out s1] a1]|] eqn:E; [|discriminate]. cbn [bind] in H.
    destruct (ts_run cmp s1 a1 r) as [[[outs1 s2] a2]|] eqn:E2; [|discriminate]. cbn [bind] in H.
    injection H as <- <- <-. cbn [length] in Hsm.
    destruct (ts_step_refines s a o I ltac:(lia) (ts_ok_op_ok _ _ _ _ E)) as (out' & s1' & a1' & E' & I1 & Hh & R1).
    rewrite E in E'. injection E' as <- <- <-.
    assert (Hsz : tsize (tt_tree (ts_tab s1)) <= S (tsize (tt_tree (ts_tab s)))).
    { rewrite !tsize_elems. destruct R1 as [(_ & _ & Ea & _)|(_ & Ea)].
      - unfold abs in Ea. injection Ea as -> _. lia.
      - pose proof (spec_step_length cmp cmp_refl cmp_anti cmp_trans cmp_eq_l (abs (ts_tab s)) (ts_to_tt o)) as Hl. unfold ts_spec_step in Ea.
        destruct (spec_step cmp (abs (ts_tab s)) (ts_to_tt o)) as [[st0 v0] st1]. injection Ea as _ _ <-. exact Hl. }
    destruct (IH _ _ _ _ _ I1 ltac:(lia) E2) as (I2 & Hh2 & R2). split; [exact I2|]. split; [congruence|].
    cbn [map ts_spec_run_d].
    destruct R1 as [(Est & Ev & Ea & _)|(Est & Ea)].
    + rewrite Est. cbn [is_alloc_err]. rewrite <- Ea, <- R2, Ev. reflexivity.
    + assert (is_alloc_err (o_st out) = false) as -> by (destruct (o_st out); try reflexivity; congruence).
      rewrite <- Ea, <- R2. reflexivity.
Qed.

Lemma ts_new_inv mem a0 st s a :
  ledger_ok a0 -> (0 < next_id a0)%N -> ts_new mem a0 = Ok (st, Some s, a) ->
  st = CC_OK /\ ts_inv s a /\ abs (ts_tab s) = ([], None).
Proof.
  intros Hok Hpos. unfold ts_new.
  destruct (alloc mem SIZEOF_TREESET a0) as [[h|] a1] eqn:E1; [|discriminate].
  destruct (alloc_ledger_ok _ _ _ _ _ Hok Hpos E1) as (Hok1 & Hpos1).
  destruct (tt_new mem a1) as [[[st1 ot] a2]|] eqn:E2; [|discriminate]. cbn [bind].
  destruct ot as [t|].
  - intros [= <- <- <-]. pose proof E2 as E3. apply (tt_new_inv cmp) in E3; auto. destruct E3 as (_ & I & Ea & Et).
    split; [reflexivity|]. split; [|exact Ea]. split; [exact I|]. cbn [ts_tab]. rewrite Et. constructor.
  - destruct (release mem h a2); cbn; discriminate.
Qed.

End Cmp.
