(** Extraction of the slist engine model. ExtrOcamlBasic only; N / positive / nat stay Coq inductives. *)
From Coq Require Import Extraction ExtrOcamlBasic.
From CC Require Import Base.Prelude Base.Alloc Generated.Status Generated.Constants Generated.Macros Generated.Guards.
From CC Require Import List_.ListModel SList.SListModel.
Extraction Language OCaml.
Extraction "model.ml"
  N.add N.mul N.sub N.div N.modulo N.eqb N.ltb N.leb N.of_nat N.to_nat N.land N.shiftl N.shiftr N.compare
  alloc_init alloc release count_tag is_live stat_code wadd wsub wmul
  sl_new sl_destroy sl_destroy_cb sl_step sl_run sspec_step sspec_run
  sl_sublist sl_copy_shallow sl_copy_deep sl_filter sl_sort
  sl_get_at sl_get_first sl_get_last sl_get_size
  siter_init siter_next siter_remove siter_add siter_replace siter_index
  szip_init szip_next szip_add szip_remove szip_replace szip_index
  cmp_val cmp_key pred_even cp_1000 isort sl_abs.
