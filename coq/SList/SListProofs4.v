(** Singly linked list: both handles, histories, and the theorems exported to Properties/C04.v. *)
From Coq Require Import Permutation.
From CC Require Import Base.Prelude Base.ListMem Base.Alloc Base.AllocProofs.
From CC Require Import Generated.Status Generated.Guards List_.ListModel List_.ListHeap List_.ListProofs1 List_.ListProofs4.
From CC Require Import SList.SListModel SList.SListHeap SList.SListProofs1 SList.SListProofs2 SList.SListProofs3.
Local Open Scope N_scope.

Section SRun.
Variable cmp : N -> N -> comparison.
Variable pred : N -> bool.

Lemma swabs_swap w : swabs (swswap w) = pswap (swabs w).
Proof. reflexivity. Qed.
Lemma swswap_invol w : swswap (swswap w) = w.
Proof. destruct w; reflexivity. Qed.

(** One step, either handle. The allocator families of the two lists never change. *)
Theorem slist_step_refines w hd o : swinv w -> smem_ok w o ->
  exists out w' fl, sl_step cmp pred w hd o = Ok (out, w') /\ swinv w' /\
    (out, swabs w') = sspec_step cmp pred (swabs w) hd o fl /\ aframe (swal w) (swal w') /\
    (fl = true -> plan (swal w) <> [] \/ limit (swal w) < sreq_bytes (spsel (swabs w) hd) o) /\
    (sl_mem (swa w') = sl_mem (swa w) /\ sl_mem (swb w') = sl_mem (swb w)).
Proof.
  intros Hw Hsp.
  assert (Hwt : swinv_t (sl_mem (swa w)) (sl_mem (swb w)) w) by (split; [exact Hw|split; reflexivity]).
  destruct hd.
  - destruct (sstep_refines_HA cmp pred _ _ w o Hwt Hsp) as (out & w1 & fl & E & (Hw1 & Hm1) & Hs & Hf & Hfl).
    exists out, w1, fl. auto 10.
  - destruct (sstep_refines_HA cmp pred _ _ (swswap w) o (swinv_t_swap _ _ _ Hwt) (smem_ok_swap _ _ Hsp))
      as (out & w1 & fl & E & (Hw1 & Hma & Hmb) & Hs & Hf & Hfl).
    exists out, (swswap w1), fl. rewrite sstep_swap, E. cbn [bind]. split; [reflexivity|]. split; [apply swinv_swap; exact Hw1|].
    split; [|split; [exact Hf|split; [exact Hfl|cbn [swswap swa swb]; auto]]].
    rewrite sspec_swap, <- swabs_swap, <- Hs. reflexivity.
Qed.

(** A refusal under an exhausted plan can only be a request above the limit. *)
Fixpoint sfls_ok (lim : N) (p : list N * list N) (ops : list (shnd * sop)) (fls : list bool) : Prop :=
  match ops with
  | [] => True
  | (hd, o) :: r =>
      let fl := match fls with f :: _ => f | [] => false end in
      (fl = true -> lim < sreq_bytes (spsel p hd) o) /\ sfls_ok lim (snd (sspec_step cmp pred p hd o fl)) r (tl fls)
  end.

(** Does a history use splice / splice_at (the only operations that need both lists in one allocator family)? *)
Definition sis_splice (o : sop) : bool := match o with SSplice | SSpliceAt _ => true | _ => false end.
Definition shas_splice (ops : list (shnd * sop)) : bool := existsb (fun p => sis_splice (snd p)) ops.

Lemma smem_ok_of_eq w o : (sis_splice o = true -> sl_mem (swa w) = sl_mem (swb w)) -> smem_ok w o.
Proof. destruct o; cbn; auto. Qed.

Theorem slist_run_refines ops : forall w, swinv w -> (shas_splice ops = true -> sl_mem (swa w) = sl_mem (swb w)) ->
  exists outs w' fls, sl_run cmp pred w ops = Ok (outs, w') /\ swinv w' /\ length fls = length ops /\
    (outs, swabs w') = sspec_run cmp pred (swabs w) ops fls /\ aframe (swal w) (swal w') /\
    (plan (swal w) = [] -> sfls_ok (limit (swal w)) (swabs w) ops fls).
Proof.
  induction ops as [|[hd o] r IH]; intros w Hw Hm.
  - exists [], w, []. cbn. auto 10 using aframe_refl.
  - cbn [shas_splice existsb snd] in Hm.
    assert (Hsp : smem_ok w o) by (apply smem_ok_of_eq; intros H; apply Hm; rewrite H; reflexivity).
    destruct (slist_step_refines w hd o Hw Hsp) as (out & w1 & fl & E & Hw1 & Hs & Hf & Hfl & Hma & Hmb).
    destruct (IH w1 Hw1) as (outs & w2 & fls & E2 & Hw2 & Hlen & Hs2 & Hf2 & Hfl2).
    { intros H. rewrite Hma, Hmb. apply Hm. fold (shas_splice r). rewrite H. apply orb_true_r. }
    exists (out :: outs), w2, (fl :: fls). cbn [sl_run]. rewrite E. cbn [bind]. rewrite E2. cbn [bind].
    split; [reflexivity|]. split; [exact Hw2|]. split; [cbn; lia|]. split; [|split; [eapply aframe_trans; eassumption|]].
    + cbn [sspec_run tl]. rewrite <- Hs, <- Hs2. reflexivity.
    + intros Hp. cbn [sfls_ok tl]. split.
      * intros ->. destruct (Hfl eq_refl) as [H|H]; [contradiction|exact H].
      * rewrite <- Hs. cbn [snd]. rewrite <- (af_limit _ _ Hf). apply Hfl2. apply (af_plan _ _ Hf Hp).
Qed.

(** Two fresh lists from the constructor, each with its own allocator family. *)
Lemma snew_winv mema memb a0 sa a1 sb a2 :
  lok a0 -> live a0 = [] -> sl_new mema a0 = (CC_OK, Some sa, a1) -> sl_new memb a1 = (CC_OK, Some sb, a2) ->
  swinv {| swa := sa; swb := sb; swal := a2 |} /\ swabs {| swa := sa; swb := sb; swal := a2 |} = ([], []) /\ aframe a0 a2 /\
  sl_mem sa = mema /\ sl_mem sb = memb.
Proof.
  intros Hk Hl0 E1 E2. unfold sl_new in *.
  destruct (alloc mema SHDR_BYTES a0) as [[h1|] a1'] eqn:Ea1; [|discriminate]. inversion E1; subst; clear E1.
  destruct (alloc memb SHDR_BYTES a1) as [[h2|] a2'] eqn:Ea2; [|discriminate]. inversion E2; subst; clear E2.
  destruct (alloc_some _ _ _ _ _ Ea1 Hk) as (_ & Hl1 & Hk1 & Hf1 & Hh1 & _).
  destruct (alloc_some _ _ _ _ _ Ea2 Hk1) as (_ & Hl2 & Hk2 & Hf2 & Hh2 & _).
  assert (Rn : forall h mem, h <> 0 -> srep {| sl_size := 0; sl_head := 0; sl_tail := 0; sl_heap := []; sl_hdr := h; sl_mem := mem |} []).
  { intros h mem Hh. constructor; cbn; auto; try constructor; try (intros y Hy; congruence). }
  split; [|split; [|split; [eapply aframe_trans; eassumption|split; reflexivity]]].
  - constructor; cbn [swa swb swal sl_mem]; [assumption|]. exists [], []. split; [apply Rn; assumption|].
    split; [apply Rn; assumption|]. rewrite Hl2, Hl1, Hl0. unfold sblocks, shblk. cbn. apply perm_swap.
  - unfold swabs, sl_abs, sl_chain. reflexivity.
Qed.

Theorem slist_new_run_refines mema memb a0 sa a1 sb a2 ops :
  lok a0 -> live a0 = [] -> sl_new mema a0 = (CC_OK, Some sa, a1) -> sl_new memb a1 = (CC_OK, Some sb, a2) ->
  (shas_splice ops = true -> mema = memb) ->
  exists outs w' fls, sl_run cmp pred {| swa := sa; swb := sb; swal := a2 |} ops = Ok (outs, w') /\ swinv w' /\
    length fls = length ops /\ (outs, swabs w') = sspec_run cmp pred ([], []) ops fls /\
    (plan a0 = [] -> sfls_ok (limit a0) ([], []) ops fls).
Proof.
  intros Hk Hl0 E1 E2 Hm. destruct (snew_winv mema memb a0 sa a1 sb a2 Hk Hl0 E1 E2) as (Hw & Ha & Hf & Hma & Hmb).
  destruct (slist_run_refines ops _ Hw) as (outs & w' & fls & E & Hw' & Hlen & Hs & _ & Hfl).
  { cbn [swa swb]. intros H. rewrite Hma, Hmb. apply Hm, H. }
  exists outs, w', fls. rewrite Ha in Hs, Hfl. cbn [swal] in Hfl. split; [exact E|]. split; [exact Hw'|]. split; [exact Hlen|].
  split; [exact Hs|]. intros Hp. rewrite <- (af_limit _ _ Hf). apply Hfl. apply (af_plan _ _ Hf Hp).
Qed.

(** Preservation alone. *)
Theorem slist_wf_preserved w hd o : swinv w -> smem_ok w o -> exists out w', sl_step cmp pred w hd o = Ok (out, w') /\ swinv w'.
Proof. intros Hw Hsp. destruct (slist_step_refines w hd o Hw Hsp) as (out & w' & fl & E & Hw' & _). eauto. Qed.
End SRun.

(** What the invariant says about each of the two lists, spelled out. *)
Definition slist_wf (s : slist) : Prop :=
  exists l : list (N * N),
    NoDup (map fst l) /\ ~ In 0 (map fst l) /\
    sl_head s = first_id l 0 /\ sl_tail s = last_id l 0 /\ sl_size s = lenN l /\
    sseg (sl_heap s) l 0 /\ (forall x, shget (sl_heap s) x <> None <-> In x (map fst l)) /\
    sl_abs s = map snd l.

Theorem swinv_slist_wf w : swinv w -> slist_wf (swa w) /\ slist_wf (swb w).
Proof.
  intros [_ (la & lb & R1 & R2 & _)].
  assert (H : forall s l, srep s l -> slist_wf s).
  { intros s l R. exists l. split; [apply R|]. split; [apply R|]. split; [apply R|]. split; [apply R|]. split; [apply R|].
    split; [apply R|]. split; [|apply srep_abs; exact R].
    intros x. split; [apply (sr_dom _ _ R)|]. intros Hin. destruct (sseg_in _ _ _ _ (sr_seg _ _ R) Hin) as [nd ->]. discriminate. }
  split; eapply H; eassumption.
Qed.

(** Bulk operations: the copy operations leave the source list's whole state untouched; the move operations
    leave it empty (or untouched when nothing was moved). Contents are given by [slist_step_refines]. *)
Section SBulk.
Variable cmp : N -> N -> comparison.
Variable pred : N -> bool.

Lemma ssplice_src l1 l2 st l1' l2' : sl_splice l1 l2 = Ok (st, l1', l2') -> l2' = l2 \/ l2' = semptied l2.
Proof.
  unfold sl_splice.
  repeat match goal with |- context [if ?c then _ else _] => destruct c end; try (intros E; inversion E; auto; fail).
  destruct (sset_next _ _ _) as [h1|]; cbn [bind]; [|discriminate].
  intros E; inversion E; auto.
Qed.
Lemma ssplice_at_src l1 l2 i st l1' l2' : sl_splice_at l1 l2 i = Ok (st, l1', l2') -> l2' = l2 \/ l2' = semptied l2.
Proof.
  unfold sl_splice_at.
  destruct (sl_size l2 =? 0); [intros E; inversion E; auto|].
  destruct (g_slist_splice_at_range i (sl_size l1)); [intros E; inversion E; auto|].
  destruct (sl_get_node_at l1 i) as [[[st0 nd] pv]|]; cbn [bind]; [|discriminate].
  destruct (negb (is_ok st0)); [intros E; inversion E; auto|].
  destruct (sl_splice_between l1 l2 _ pv nd) as [[l1'' l2'']|] eqn:Eb; cbn [bind]; [|discriminate].
  intros E; inversion E; subst. unfold sl_splice_between in Eb.
  match type of Eb with bind ?x _ = _ => destruct x as [[[hd tl] h']|] end; cbn [bind] in Eb; [|discriminate].
  inversion Eb; auto.
Qed.

Theorem slist_bulk w hd o : swinv w -> smem_ok w o ->
  exists out w' fl, sl_step cmp pred w hd o = Ok (out, w') /\ swinv w' /\
    (out, swabs w') = sspec_step cmp pred (swabs w) hd o fl /\
    match o with
    | SAddAll | SAddAllAt _ => swget w' (swother hd) = swget w (swother hd)
    | SSplice | SSpliceAt _ =>
        swget w' (swother hd) = swget w (swother hd) \/
        (swget w' (swother hd) = semptied (swget w (swother hd)) /\ sl_abs (swget w' (swother hd)) = [] /\
         sl_get_size (swget w' (swother hd)) = 0)
    | _ => True
    end.
Proof.
  intros Hw Hsp. destruct (slist_step_refines cmp pred w hd o Hw Hsp) as (out & w' & fl & E & Hw' & Hs & _).
  exists out, w', fl. split; [exact E|]. split; [exact Hw'|]. split; [exact Hs|].
  destruct w as [sa sb a]. destruct o; try exact I; destruct hd; unfold sl_step in E; cbn [swget swother swset swset2 swa swb swal] in *.
  all: try (match type of E with (do _ <- ?x; _) = _ => destruct x as [[[st l'] a']|]; cbn [bind] in E; [|discriminate] end;
            inversion E; subst; reflexivity).
  all: match type of E with (do _ <- ?x; _) = _ => destruct x as [[[st l'] s']|] eqn:Es; cbn [bind] in E; [|discriminate] end;
       inversion E; subst; cbn [swa swb];
       first [apply ssplice_src in Es | apply ssplice_at_src in Es]; destruct Es as [->| ->]; [left; reflexivity|right; auto].
Qed.
End SBulk.
