(** Singly linked list: the state machine refines the ideal pair of sequences (handle A). *)
From Coq Require Import Permutation.
From CC Require Import Base.Prelude Base.ListMem Base.Alloc Base.AllocProofs.
From CC Require Import Generated.Status Generated.Guards List_.ListModel List_.ListHeap List_.ListProofs1 List_.ListProofs2
  List_.ListProofs3 List_.ListProofs4.
From CC Require Import SList.SListModel SList.SListHeap SList.SListProofs1 SList.SListProofs2.
Local Open Scope N_scope.

Lemma sto_array_ok s l a : srep s l ->
  sl_to_array s a = match alloc (sl_mem s) (wmul (sl_size s) 8) a with
                    | (Some blk, a1) => Ok (CC_OK, map snd l, blk, a1)
                    | (None, a1) => Ok (CC_ERR_ALLOC, [], 0, a1) end.
Proof.
  intros R. unfold sl_to_array.
  destruct (alloc (sl_mem s) (wmul (sl_size s) 8) a) as [[blk|] a1]; [|reflexivity].
  rewrite (sr_size _ _ R), lenN_length, (sr_head _ _ R).
  pose proof (sread_n_seg (sl_heap s) l [] 0) as H. rewrite app_nil_r in H. rewrite (H (sr_seg _ _ R) (sr_nz _ _ R)). reflexivity.
Qed.

(* ------------------------------------------------------------------------------------------ the world invariant *)
(** Both lists well formed and the ledger holds exactly their headers and nodes. The two lists may use different
    allocator families; only splice / splice_at need them to agree ([smem_ok]). *)
Record swinv (w : sworld) : Prop := {
  swi_lok : lok (swal w);
  swi_rep : exists la lb, srep (swa w) la /\ srep (swb w) lb /\ Permutation (live (swal w)) (sblocks (swa w) la ++ sblocks (swb w) lb);
}.
Definition swabs (w : sworld) : list N * list N := (sl_abs (swa w), sl_abs (swb w)).
Definition swswap (w : sworld) : sworld := {| swa := swb w; swb := swa w; swal := swal w |}.

Lemma swinv_swap w : swinv w -> swinv (swswap w).
Proof.
  intros [Hk (la & lb & R1 & R2 & HP)]. constructor; cbn [swswap swa swb swal]; [assumption|].
  exists lb, la. split; [assumption|]. split; [assumption|]. eapply Permutation_trans; [exact HP|apply Permutation_app_comm].
Qed.

(** The largest request an operation makes (what a refusal under an exhausted plan is measured against).
    to_array asks for size times the pointer width computed in size_t, i.e. [wmul size 8]. *)
Definition sreq_bytes (l : list N) (o : sop) : N :=
  match o with SToArray => wmul (lenN l) 8 | _ => SNODE_BYTES end.

Definition spsel {A} (p : A * A) (hd : shnd) : A := match hd with SHA => fst p | SHB => snd p end.

(** splice / splice_at hand the source's nodes to the destination: the two lists must use the same family. *)
Definition smem_ok (w : sworld) (o : sop) : Prop :=
  match o with SSplice | SSpliceAt _ => sl_mem (swa w) = sl_mem (swb w) | _ => True end.
Lemma smem_ok_swap w o : smem_ok w o -> smem_ok (swswap w) o.
Proof. destruct o; cbn; auto. Qed.

(** The invariant together with the (never changing) allocator families of the two lists. *)
Definition swinv_t (ma mb : tag) (w : sworld) : Prop := swinv w /\ sl_mem (swa w) = ma /\ sl_mem (swb w) = mb.
Lemma swinv_t_swap ma mb w : swinv_t ma mb w -> swinv_t mb ma (swswap w).
Proof. intros (H & H1 & H2). split; [apply swinv_swap; exact H|]. cbn [swswap swa swb]. auto. Qed.

Section SRefine.
Variable cmp : N -> N -> comparison.
Variable pred : N -> bool.

Lemma sstep_swap w o : sl_step cmp pred w SHB o = do (out, w') <- sl_step cmp pred (swswap w) SHA o; Ok (out, swswap w').
Proof.
  destruct w as [sa sb a]. unfold sl_step, swswap. cbn [swget swother swset swset2 swa swb swal].
  destruct o; cbn [bind];
  repeat (match goal with
  | |- context [bind ?x _] =>
      lazymatch x with
      | Ok _ => fail
      | bind _ _ => fail
      | _ => let r := fresh "r" in destruct x as [r|]; cbn [bind]; [repeat (let q := fresh "q" in destruct r as [r q])|reflexivity]
      end
  | |- context [if ?c then _ else _] => destruct c
  end; cbn [bind]); reflexivity.
Qed.

Definition sstep_ok (ma mb : tag) (w : sworld) (hd : shnd) (o : sop) : Prop :=
  exists out w' fl, sl_step cmp pred w hd o = Ok (out, w') /\ swinv_t ma mb w' /\
    (out, swabs w') = sspec_step cmp pred (swabs w) hd o fl /\ aframe (swal w) (swal w') /\
    (fl = true -> plan (swal w) <> [] \/ limit (swal w) < sreq_bytes (spsel (swabs w) hd) o).

Lemma swinv_set ma mb s1 s2 s1' a' la' lb :
  lok a' -> sl_mem s1 = ma /\ sl_mem s2 = mb -> ssame_hdr s1 s1' -> srep s1' la' -> srep s2 lb -> sowns a' s1' la' (sblocks s2 lb) ->
  swinv_t ma mb {| swa := s1'; swb := s2; swal := a' |} /\ swabs {| swa := s1'; swb := s2; swal := a' |} = (map snd la', map snd lb).
Proof.
  intros Hk [Hma Hmb] [_ Hh] R1 R2 Ho. split.
  - split; [|cbn [swa swb]; split; congruence]. constructor; cbn [swa swb swal]; [assumption|]. exists la', lb. auto.
  - unfold swabs. cbn [swa swb]. rewrite (srep_abs _ _ R1), (srep_abs _ _ R2). reflexivity.
Qed.

Lemma sspec_swap p o fl : sspec_step cmp pred p SHB o fl = (let '(out, p') := sspec_step cmp pred (pswap p) SHA o fl in (out, pswap p')).
Proof.
  destruct p as [x y]. unfold sspec_step, pswap. cbn [fst snd].
  destruct (sspec_one cmp pred y x o fl) as [[out l] s]. reflexivity.
Qed.

(** Outcome of an allocating single-element insertion, shared by add_first / add_last / add / add_at. *)
Lemma sstep_insert ma mb s1 s2 a la lb (f : res (stat * slist * alloc_st)) (mk : N -> list (N * N)) :
  lok a -> sl_mem s1 = ma /\ sl_mem s2 = mb -> srep s2 lb ->
  match alloc (sl_mem s1) SNODE_BYTES a with
  | (Some id, a1) => exists s', f = Ok (CC_OK, s', a1) /\ srep s' (mk id) /\ slown a1 s' (mk id) (sblocks s2 lb) /\ ssame_hdr s1 s' /\ aframe a a1
  | (None, a1) => f = Ok (CC_ERR_ALLOC, s1, a1) /\ slown a1 s1 la (sblocks s2 lb) /\ live a1 = live a /\ aframe a a1 /\
                  (plan a <> [] \/ limit a < SNODE_BYTES)
  end ->
  srep s1 la ->
  exists st s1' a' (fl : bool), f = Ok (st, s1', a') /\ swinv_t ma mb {| swa := s1'; swb := s2; swal := a' |} /\ aframe a a' /\
    (fl = true -> plan a <> [] \/ limit a < SNODE_BYTES) /\
    ((fl = false /\ st = CC_OK /\ exists id, swabs {| swa := s1'; swb := s2; swal := a' |} = (map snd (mk id), map snd lb)) \/
     (fl = true /\ st = CC_ERR_ALLOC /\ swabs {| swa := s1'; swb := s2; swal := a' |} = (map snd la, map snd lb))).
Proof.
  intros Hk Hm R2 H R1. destruct (alloc (sl_mem s1) SNODE_BYTES a) as [[id|] a1].
  - destruct H as (s' & E & R' & [Hk' Ho'] & Hh & Hf).
    destruct (swinv_set ma mb s1 s2 s' a1 (mk id) lb Hk' Hm Hh R' R2 Ho') as [Hw Ha].
    exists CC_OK, s', a1, false. split; [exact E|]. split; [exact Hw|]. split; [exact Hf|]. split; [discriminate|].
    left. eauto.
  - destruct H as (E & [Hk' Ho'] & Hl & Hf & Hw).
    destruct (swinv_set ma mb s1 s2 s1 a1 la lb Hk' Hm (ssame_hdr_refl _) R1 R2 Ho') as [Hw' Ha].
    exists CC_ERR_ALLOC, s1, a1, true. split; [exact E|]. split; [exact Hw'|]. split; [exact Hf|]. split; [auto|].
    right. auto.
Qed.

Lemma sblocks_disjoint a s1 la s2 lb :
  lok a -> Permutation (live a) (sblocks s1 la ++ sblocks s2 lb) -> forall y, In y (ids la) -> ~ In y (ids lb).
Proof.
  intros [[Hnd _] _] HP y H1 H2.
  assert (Hnd2 : NoDup (map b_id (sblocks s1 la ++ sblocks s2 lb))).
  { eapply Permutation_NoDup; [apply Permutation_map; exact HP|exact Hnd]. }
  rewrite map_app, !sblocks_ids in Hnd2. apply nodup_app in Hnd2. destruct Hnd2 as (_ & _ & Hd).
  apply (Hd y); right; assumption.
Qed.

Lemma sowns_splice a s1 s1' la la' s2 lb :
  sl_mem s1 = sl_mem s2 -> ssame_hdr s1 s1' -> Permutation (ids la') (ids la ++ ids lb) ->
  Permutation (live a) (sblocks s1 la ++ sblocks s2 lb) -> sowns a s1' la' (sblocks (semptied s2) []).
Proof.
  intros Hm Hs Hp HP. unfold sowns. rewrite (sblocks_same _ _ _ Hs). eapply Permutation_trans; [exact HP|].
  unfold sblocks. cbn [app map ids semptied supd shblk sl_hdr sl_mem]. apply perm_skip.
  eapply Permutation_trans; [apply Permutation_sym, Permutation_middle|].
  eapply Permutation_trans; [|apply Permutation_cons_append]. apply perm_skip.
  rewrite <- Hm, <- map_app. apply Permutation_map, Permutation_sym, Hp.
Qed.

Ltac sfin := repeat (split; [try reflexivity; try assumption|]); cbn [swal]; try reflexivity; try assumption; try discriminate;
             try apply aframe_refl; auto.

Theorem sstep_refines_HA ma mb w o : swinv_t ma mb w -> smem_ok w o -> sstep_ok ma mb w SHA o.
Proof.
  intros ([Hk (la & lb & R1 & R2 & HP)] & Hma & Hmb) Hsp. destruct w as [s1 s2 a]. cbn [swa swb swal] in *.
  assert (Hm : sl_mem s1 = ma /\ sl_mem s2 = mb) by (split; assumption).
  unfold sstep_ok. cbn [swal spsel].
  assert (Hown : slown a s1 la (sblocks s2 lb)) by (split; assumption).
  assert (Habs : swabs {| swa := s1; swb := s2; swal := a |} = (map snd la, map snd lb)).
  { unfold swabs. cbn [swa swb]. rewrite (srep_abs _ _ R1), (srep_abs _ _ R2). reflexivity. }
  assert (Hw0 : swinv_t ma mb {| swa := s1; swb := s2; swal := a |}).
  { split; [constructor; cbn [swa swb swal]; eauto|exact Hm]. }
  rewrite Habs. unfold sspec_step. cbn [fst snd sl_step swget swother swset swset2 swa swb swal].
  (* read-only operations answer from the current state *)
  assert (Hro : forall out,
            exists (out' : sout) (w' : sworld) (fl : bool),
              Ok (out, {| swa := s1; swb := s2; swal := a |}) = Ok (out', w') /\ swinv_t ma mb w' /\
              (out', swabs w') = (out, (map snd la, map snd lb)) /\ aframe a (swal w') /\
              (fl = true -> plan a <> [] \/ limit a < SNODE_BYTES)).
  { intros out. exists out, {| swa := s1; swb := s2; swal := a |}, false. rewrite Habs.
    split; [reflexivity|]. split; [exact Hw0|]. split; [reflexivity|]. split; [apply aframe_refl|discriminate]. }
  destruct o; cbn [sspec_one sreq_bytes sl_step swget swother swset swset2 swa swb swal].
  - (* add_first *)
    destruct (sstep_insert ma mb s1 s2 a la lb (sl_add_first s1 x a) (fun id => (id, x) :: la) Hk Hm R2 (sadd_first_spec s1 la a _ x R1 Hown) R1)
      as (st & s1' & a' & fl & E & Hw & Hf & Hfl & Hc).
    rewrite E. cbn [bind]. exists (SOut st []), {| swa := s1'; swb := s2; swal := a' |}, fl. split; [reflexivity|]. split; [exact Hw|].
    split; [|split; [exact Hf|exact Hfl]].
    destruct Hc as [(-> & -> & id & ->)|(-> & -> & ->)]; reflexivity.
  - (* add_last *)
    destruct (sstep_insert ma mb s1 s2 a la lb (sl_add_last s1 x a) (fun id => la ++ [(id, x)]) Hk Hm R2 (sadd_last_spec s1 la a _ x R1 Hown) R1)
      as (st & s1' & a' & fl & E & Hw & Hf & Hfl & Hc).
    rewrite E. cbn [bind]. exists (SOut st []), {| swa := s1'; swb := s2; swal := a' |}, fl. split; [reflexivity|]. split; [exact Hw|].
    split; [|split; [exact Hf|exact Hfl]].
    destruct Hc as [(-> & -> & id & ->)|(-> & -> & ->)]; [rewrite map_app|]; reflexivity.
  - (* add *)
    destruct (sstep_insert ma mb s1 s2 a la lb (sl_add s1 x a) (fun id => la ++ [(id, x)]) Hk Hm R2 (sadd_last_spec s1 la a _ x R1 Hown) R1)
      as (st & s1' & a' & fl & E & Hw & Hf & Hfl & Hc).
    rewrite E. cbn [bind]. exists (SOut st []), {| swa := s1'; swb := s2; swal := a' |}, fl. split; [reflexivity|]. split; [exact Hw|].
    split; [|split; [exact Hf|exact Hfl]].
    destruct Hc as [(-> & -> & id & ->)|(-> & -> & ->)]; [rewrite map_app|]; reflexivity.
  - (* add_at *)
    rewrite lenN_map. destruct (lenN la <=? i) eqn:Ei.
    + unfold sl_add_at. rewrite (sget_node_at_out _ _ _ R1) by lia. cbn [bind is_ok negb].
      apply (Hro (SOut CC_ERR_OUT_OF_RANGE [])).
    + destruct (split_at la i ltac:(lia)) as (l1 & [b db] & l2 & -> & <-).
      destruct (sstep_insert ma mb s1 s2 a (l1 ++ (b, db) :: l2) lb (sl_add_at s1 x (lenN l1) a) (fun id => l1 ++ (id, x) :: (b, db) :: l2)
                  Hk Hm R2 (sadd_at_spec s1 l1 b db l2 a _ x R1 Hown) R1) as (st & s1' & a' & fl & E & Hw & Hf & Hfl & Hc).
      rewrite E. cbn [bind]. exists (SOut st []), {| swa := s1'; swb := s2; swal := a' |}, fl. split; [reflexivity|]. split; [exact Hw|].
      split; [|split; [exact Hf|exact Hfl]].
      destruct Hc as [(-> & -> & id & ->)|(-> & -> & ->)]; [|reflexivity].
      unfold insert_at. rewrite !map_app. cbn [map snd]. rewrite <- (lenN_map snd l1), firstnN_app, skipnN_app. reflexivity.
  - (* remove *)
    unfold sl_remove, sl_get_node. rewrite (sr_head _ _ R1).
    rewrite (sget_node_loop_seg _ _ la x 0 (sr_seg _ _ R1) (sr_nz _ _ R1) (sfuel_of_gt _ _ R1)). cbn [bind].
    pose proof (sfind_split x la 0 (sr_nz _ _ R1)) as Hfs.
    destruct (remove_first_eq x (map snd la)) as [r|]; cbn [is_ok negb].
    + destruct Hfs as (Hn0 & l1 & l2 & El & -> & Ep). rewrite Ep.
      set (y := find_id x la) in *. rewrite El in R1, Hown.
      destruct (sunlinkn_spec s1 l1 y x l2 a _ R1 Hown) as (s1' & a' & E & R' & [Hk' Ho'] & Hh & Hf & _).
      rewrite E. cbn [bind svals1 is_ok].
      destruct (swinv_set ma mb s1 s2 s1' a' (l1 ++ l2) lb Hk' Hm Hh R' R2 Ho') as [Hw Ha].
      exists (SOut CC_OK [x]), {| swa := s1'; swb := s2; swal := a' |}, false. rewrite Ha. sfin.
    + cbn [svals1 is_ok]. apply (Hro (SOut CC_ERR_VALUE_NOT_FOUND [])).
  - (* remove_at *)
    unfold nth_in. rewrite lenN_map. destruct (lenN la <=? i) eqn:Ei.
    + unfold sl_remove_at. rewrite (sget_node_at_out _ _ _ R1) by lia. cbn [bind is_ok negb svals1].
      apply (Hro (SOut CC_ERR_OUT_OF_RANGE [])).
    + destruct (split_at la i ltac:(lia)) as (l1 & [y d] & l2 & -> & <-).
      unfold sl_remove_at. rewrite (sget_node_at_in _ _ _ _ _ R1). cbn [bind is_ok negb].
      destruct (sunlinkn_spec s1 l1 y d l2 a _ R1 Hown) as (s1' & a' & E & R' & [Hk' Ho'] & Hh & Hf & _).
      rewrite E. cbn [bind svals1 is_ok].
      destruct (swinv_set ma mb s1 s2 s1' a' (l1 ++ l2) lb Hk' Hm Hh R' R2 Ho') as [Hw Ha].
      exists (SOut CC_OK [d]), {| swa := s1'; swb := s2; swal := a' |}, false. rewrite Ha.
      rewrite !map_app. cbn [map snd]. rewrite <- (lenN_map snd l1), getN_app_mid. unfold remove_nth.
      rewrite firstnN_app, skipnN_app1. rewrite <- map_app. sfin.
  - (* remove_first *)
    unfold sl_remove_first. destruct la as [|[y d] t].
    + rewrite (sr_size _ _ R1). cbn [lenN length N.of_nat N.eqb bind svals1 is_ok map].
      apply (Hro (SOut CC_ERR_VALUE_NOT_FOUND [])).
    + rewrite (sr_size _ _ R1), lenN_cons. replace (lenN t + 1 =? 0) with false by lia.
      rewrite (sr_head _ _ R1). cbn [first_id].
      destruct (sunlinkn_spec s1 [] y d t a _ R1 Hown) as (s1' & a' & E & R' & [Hk' Ho'] & Hh & Hf & _).
      cbn [last_id] in E. rewrite E. cbn [bind svals1 is_ok app] in *.
      destruct (swinv_set ma mb s1 s2 s1' a' t lb Hk' Hm Hh R' R2 Ho') as [Hw Ha].
      exists (SOut CC_OK [d]), {| swa := s1'; swb := s2; swal := a' |}, false. rewrite Ha. cbn [map snd]. sfin.
  - (* remove_last *)
    unfold sl_remove_last. destruct (list_eq_dec (fun p q : N * N => ltac:(decide equality; apply N.eq_dec)) la []) as [->|Hne].
    + rewrite (sr_size _ _ R1). cbn [lenN length N.of_nat N.eqb bind svals1 is_ok map rev].
      apply (Hro (SOut CC_ERR_VALUE_NOT_FOUND [])).
    + destruct (exists_last Hne) as (t & [y d] & ->).
      rewrite (sr_size _ _ R1), lenN_app, lenN_cons. replace (lenN t + (lenN [] + 1) =? 0) with false by lia.
      replace (lenN t + (lenN [] + 1) - 1) with (lenN t) by (cbn; lia).
      rewrite (sget_node_at_in _ _ _ _ _ R1). cbn [bind is_ok negb].
      destruct (sunlinkn_spec s1 t y d [] a _ R1 Hown) as (s1' & a' & E & R' & [Hk' Ho'] & Hh & Hf & _).
      rewrite E. cbn [bind svals1 is_ok]. rewrite app_nil_r in R', Ho'.
      destruct (swinv_set ma mb s1 s2 s1' a' t lb Hk' Hm Hh R' R2 Ho') as [Hw Ha].
      exists (SOut CC_OK [d]), {| swa := s1'; swb := s2; swal := a' |}, false. rewrite Ha.
      rewrite map_app, rev_app_distr. cbn [map snd rev app]. rewrite rev_involutive. sfin.
  - (* remove_all *)
    unfold sl_remove_all. destruct la as [|p t].
    + unfold sl_remove_all_cb, sl_unlinkn_all. rewrite (sr_size _ _ R1). cbn [lenN length N.of_nat N.eqb bind map].
      apply (Hro (SOut CC_ERR_VALUE_NOT_FOUND [])).
    + destruct (sremove_all_cb_spec false s1 (p :: t) a _ R1 Hown ltac:(discriminate)) as (s1' & a' & E & R' & [Hk' Ho'] & Hh & Hf & _).
      rewrite E. cbn [bind].
      destruct (swinv_set ma mb s1 s2 s1' a' [] lb Hk' Hm Hh R' R2 Ho') as [Hw Ha].
      exists (SOut CC_OK []), {| swa := s1'; swb := s2; swal := a' |}, false. rewrite Ha.
      cbn [map]. sfin.
  - (* remove_all_cb *)
    destruct la as [|p t].
    + unfold sl_remove_all_cb, sl_unlinkn_all. rewrite (sr_size _ _ R1). cbn [lenN length N.of_nat N.eqb bind map].
      apply (Hro (SOut CC_ERR_VALUE_NOT_FOUND [])).
    + destruct (sremove_all_cb_spec true s1 (p :: t) a _ R1 Hown ltac:(discriminate)) as (s1' & a' & E & R' & [Hk' Ho'] & Hh & Hf & _).
      rewrite E. cbn [bind].
      destruct (swinv_set ma mb s1 s2 s1' a' [] lb Hk' Hm Hh R' R2 Ho') as [Hw Ha].
      exists (SOut CC_OK (map snd (p :: t))), {| swa := s1'; swb := s2; swal := a' |}, false. rewrite Ha.
      cbn [map]. sfin.
  - (* replace_at *)
    unfold nth_in. rewrite lenN_map. destruct (lenN la <=? i) eqn:Ei.
    + unfold sl_replace_at. rewrite (sget_node_at_out _ _ _ R1) by lia. cbn [bind is_ok svals1].
      apply (Hro (SOut CC_ERR_OUT_OF_RANGE [])).
    + destruct (split_at la i ltac:(lia)) as (l1 & [y d] & l2 & -> & <-).
      destruct (sreplace_at_spec s1 l1 y d l2 x R1) as (s1' & E & R' & Hh). rewrite E. cbn [bind svals1 is_ok].
      assert (Ho' : sowns a s1' (l1 ++ (y, x) :: l2) (sblocks s2 lb)).
      { eapply sowns_perm; [exact HP|exact Hh|]. rewrite !ids_app. reflexivity. }
      destruct (swinv_set ma mb s1 s2 s1' a _ lb Hk Hm Hh R' R2 Ho') as [Hw Ha].
      exists (SOut CC_OK [d]), {| swa := s1'; swb := s2; swal := a |}, false. rewrite Ha.
      rewrite !map_app. cbn [map snd]. rewrite <- (lenN_map snd l1), getN_app_mid. unfold replace_nth.
      rewrite firstnN_app, skipnN_app1. sfin.
  - (* get_first *)
    destruct la as [|[y d] t].
    + unfold sl_get_first. rewrite (sr_size _ _ R1). cbn [lenN length N.of_nat N.eqb bind svals1 is_ok map].
      apply (Hro (SOut CC_ERR_VALUE_NOT_FOUND [])).
    + rewrite (sget_first_spec _ _ _ _ R1). cbn [bind svals1 is_ok map snd]. apply (Hro (SOut CC_OK [d])).
  - (* get_last *)
    destruct (list_eq_dec (fun p q : N * N => ltac:(decide equality; apply N.eq_dec)) la []) as [->|Hne].
    + unfold sl_get_last. rewrite (sr_size _ _ R1). cbn [lenN length N.of_nat N.eqb bind svals1 is_ok map rev].
      apply (Hro (SOut CC_ERR_VALUE_NOT_FOUND [])).
    + destruct (exists_last Hne) as (t & [y d] & ->). rewrite (sget_last_spec _ _ _ _ R1). cbn [bind svals1 is_ok].
      assert (Er : rev (map snd (t ++ [(y, d)])) = d :: rev (map snd t)) by (rewrite map_app, rev_app_distr; reflexivity).
      rewrite Er. apply (Hro (SOut CC_OK [d])).
  - (* get_at *)
    unfold nth_in. rewrite lenN_map. destruct (lenN la <=? i) eqn:Ei.
    + unfold sl_get_at. rewrite (sget_node_at_out _ _ _ R1) by lia. cbn [bind is_ok svals1].
      apply (Hro (SOut CC_ERR_OUT_OF_RANGE [])).
    + destruct (split_at la i ltac:(lia)) as (l1 & [y d] & l2 & -> & <-).
      rewrite (sget_at_spec _ _ _ _ _ R1). cbn [bind svals1 is_ok].
      assert (Eg : getN (map snd (l1 ++ (y, d) :: l2)) (lenN l1) = Some d).
      { rewrite map_app. cbn [map snd]. rewrite <- (lenN_map snd l1). apply getN_app_mid. }
      rewrite Eg. apply (Hro (SOut CC_OK [d])).
  - (* index_of *)
    unfold sl_index_of. rewrite (sr_head _ _ R1).
    rewrite (sindex_of_loop_seg _ _ la x 0 (sr_seg _ _ R1) (sr_nz _ _ R1) (sfuel_of_gt _ _ R1)). cbn [bind].
    destruct (find_index _ (map snd la) 0) as [k|]; cbn [svals1 is_ok].
    + apply (Hro (SOut CC_OK [k])).
    + apply (Hro (SOut CC_ERR_OUT_OF_RANGE [])).
  - (* contains *)
    unfold sl_contains. rewrite (sr_head _ _ R1).
    rewrite (swalk_data_seg _ _ la (sr_seg _ _ R1) (sr_nz _ _ R1) (sfuel_of_gt _ _ R1)). cbn [bind].
    apply (Hro (SOut CC_OK [_])).
  - (* contains_value *)
    unfold sl_contains_value. rewrite (sr_head _ _ R1).
    rewrite (swalk_data_seg _ _ la (sr_seg _ _ R1) (sr_nz _ _ R1) (sfuel_of_gt _ _ R1)). cbn [bind].
    apply (Hro (SOut CC_OK [_])).
  - (* size *)
    unfold sl_get_size. rewrite (sr_size _ _ R1), lenN_map. apply (Hro (SOut CC_OK [_])).
  - (* to_array *)
    rewrite (sto_array_ok s1 la a R1).
    destruct (alloc (sl_mem s1) (wmul (sl_size s1) 8) a) as [[blk|] a1] eqn:Ea; cbn [bind is_ok].
    + destruct (alloc_some _ _ _ _ _ Ea Hk) as (_ & Hl & Hk1 & Hf1 & Hb0 & Hfr).
      destruct (release_split (sl_mem s1) blk a1 [] _ (live a) Hl ltac:(intros []) Hk1) as (a2 & Er & Hl2 & Hk2 & Hf2 & _).
      rewrite Er. cbn [bind app] in *.
      assert (Ho2 : sowns a2 s1 la (sblocks s2 lb)) by (unfold sowns; rewrite Hl2; exact HP).
      destruct (swinv_set ma mb s1 s2 s1 a2 _ lb Hk2 Hm (ssame_hdr_refl _) R1 R2 Ho2) as [Hw Ha].
      exists (SOut CC_OK (map snd la)), {| swa := s1; swb := s2; swal := a2 |}, false. rewrite Ha.
      split; [reflexivity|]. split; [exact Hw|]. split; [reflexivity|]. split; [eapply aframe_trans; eassumption|discriminate].
    + destruct (alloc_none _ _ _ _ Ea Hk) as (Hl & Hk1 & Hf1 & Hw1).
      assert (Ho2 : sowns a1 s1 la (sblocks s2 lb)) by (unfold sowns; rewrite Hl; exact HP).
      destruct (swinv_set ma mb s1 s2 s1 a1 _ lb Hk1 Hm (ssame_hdr_refl _) R1 R2 Ho2) as [Hw Ha].
      exists (SOut CC_ERR_ALLOC []), {| swa := s1; swb := s2; swal := a1 |}, true. rewrite Ha.
      split; [reflexivity|]. split; [exact Hw|]. split; [reflexivity|]. split; [exact Hf1|].
      intros _. rewrite lenN_map, <- (sr_size _ _ R1). exact Hw1.
  - (* foreach *)
    unfold sl_foreach. rewrite (sr_head _ _ R1).
    rewrite (swalk_data_seg _ _ la (sr_seg _ _ R1) (sr_nz _ _ R1) (sfuel_of_gt _ _ R1)). cbn [bind].
    apply (Hro (SOut CC_OK _)).
  - (* reverse *)
    destruct (sreverse_spec s1 la R1) as (s1' & E & R' & Hh). rewrite E. cbn [bind].
    assert (Ho' : sowns a s1' (rev la) (sblocks s2 lb)).
    { eapply sowns_perm; [exact HP|exact Hh|]. unfold ids. rewrite map_rev. apply Permutation_sym, Permutation_rev. }
    destruct (swinv_set ma mb s1 s2 s1' a _ lb Hk Hm Hh R' R2 Ho') as [Hw Ha].
    exists (SOut CC_OK []), {| swa := s1'; swb := s2; swal := a |}, false. rewrite Ha, map_rev. sfin.
  - (* filter_mut *)
    unfold sl_filter_mut, sl_get_size. destruct la as [|p t].
    + rewrite (sr_size _ _ R1). cbn [lenN length N.of_nat N.eqb bind map].
      apply (Hro (SOut CC_ERR_OUT_OF_RANGE [])).
    + rewrite (sr_size _ _ R1), lenN_cons. replace (lenN t + 1 =? 0) with false by lia. rewrite (sr_head _ _ R1).
      destruct (sfilter_mut_loop_spec pred (p :: t) (sfuel_of s1) [] s1 a _ R1 Hown (sfuel_of_gt _ _ R1))
        as (s1' & a' & E & R' & [Hk' Ho'] & Hh & Hf & _).
      cbn [last_id] in E. rewrite E. cbn [bind app] in *.
      destruct (swinv_set ma mb s1 s2 s1' a' _ lb Hk' Hm Hh R' R2 Ho') as [Hw Ha].
      exists (SOut CC_OK []), {| swa := s1'; swb := s2; swal := a' |}, false. rewrite Ha, filter_snd.
      cbn [map]. sfin.
  - (* add_all *)
    destruct lb as [|q tb].
    + rewrite (sadd_all_empty_src _ _ _ R2). cbn [bind map]. apply (Hro (SOut CC_OK [])).
    + destruct (sadd_all_spec s1 la s2 (q :: tb) a _ R1 R2 Hown ltac:(discriminate)) as (st & s1' & a' & E & Hf & Hh & Hc).
      rewrite E. cbn [bind].
      destruct Hc as [(-> & cp & Hcp & R' & [Hk' Ho'])|(-> & -> & Hl & Hk' & Hw1)].
      * rewrite app_nil_r in R', Ho'. destruct (swinv_set ma mb s1 s2 s1' a' _ _ Hk' Hm Hh R' R2 Ho') as [Hw Ha].
        exists (SOut CC_OK []), {| swa := s1'; swb := s2; swal := a' |}, false. rewrite Ha, map_app, Hcp. cbn [map]. sfin.
      * assert (Ho2 : sowns a' s1 la (sblocks s2 (q :: tb))) by (unfold sowns; rewrite Hl; exact HP).
        destruct (swinv_set ma mb s1 s2 s1 a' _ _ Hk' Hm (ssame_hdr_refl _) R1 R2 Ho2) as [Hw Ha].
        exists (SOut CC_ERR_ALLOC []), {| swa := s1; swb := s2; swal := a' |}, true. rewrite Ha. cbn [map]. sfin.
  - (* add_all_at *)
    destruct lb as [|q tb].
    + rewrite (sadd_all_at_empty_src _ _ _ _ R2). cbn [bind map]. apply (Hro (SOut CC_OK [])).
    + cbn [map]. rewrite lenN_map. destruct (lenN la <=? i) eqn:Ei.
      * assert (Hi : lenN la <= i) by lia. rewrite (sadd_all_at_out s1 la s2 (q :: tb) a i R1 R2 ltac:(discriminate) Hi). cbn [bind].
        apply (Hro (SOut CC_ERR_OUT_OF_RANGE [])).
      * destruct (split_at la i ltac:(lia)) as (A & [b db] & B' & -> & <-).
        destruct (sadd_all_at_spec s1 A b db B' s2 (q :: tb) a _ R1 R2 Hown ltac:(discriminate)) as (st & s1' & a' & E & Hf & Hh & Hc).
        rewrite E. cbn [bind].
        destruct Hc as [(-> & cp & Hcp & R' & [Hk' Ho'])|(-> & -> & Hl & Hk' & Hw1)].
        -- destruct (swinv_set ma mb s1 s2 s1' a' _ _ Hk' Hm Hh R' R2 Ho') as [Hw Ha].
           exists (SOut CC_OK []), {| swa := s1'; swb := s2; swal := a' |}, false. rewrite Ha.
           unfold insert_at. rewrite !map_app, Hcp. rewrite <- (lenN_map snd A), firstnN_app, skipnN_app. cbn [map]. sfin.
        -- assert (Ho2 : sowns a' s1 (A ++ (b, db) :: B') (sblocks s2 (q :: tb))) by (unfold sowns; rewrite Hl; exact HP).
           destruct (swinv_set ma mb s1 s2 s1 a' _ _ Hk' Hm (ssame_hdr_refl _) R1 R2 Ho2) as [Hw Ha].
           exists (SOut CC_ERR_ALLOC []), {| swa := s1; swb := s2; swal := a' |}, true. rewrite Ha. cbn [map]. sfin.
  - (* splice *)
    destruct lb as [|q tb].
    + rewrite (ssplice_empty_src _ _ R2). cbn [bind map]. apply (Hro (SOut CC_OK [])).
    + destruct (ssplice_spec s1 la s2 (q :: tb) R1 R2 ltac:(discriminate)) as (s1' & E & R' & Hh).
      { eapply sblocks_disjoint; [exact Hk|exact HP]. }
      rewrite E. cbn [bind].
      assert (Ho' : sowns a s1' (la ++ q :: tb) (sblocks (semptied s2) [])).
      { eapply sowns_splice; [exact Hsp|exact Hh| |exact HP]. rewrite ids_app. reflexivity. }
      destruct (swinv_set ma mb s1 (semptied s2) s1' a _ [] Hk Hm Hh R' (srep_emptied _ _ R2) Ho') as [Hw Ha].
      exists (SOut CC_OK []), {| swa := s1'; swb := semptied s2; swal := a |}, false. rewrite Ha, map_app.
      cbn [map]. sfin.
  - (* splice_at *)
    destruct lb as [|q tb].
    + rewrite (ssplice_at_empty_src _ _ _ R2). cbn [bind map]. apply (Hro (SOut CC_OK [])).
    + cbn [map]. rewrite lenN_map. destruct (lenN la <=? i) eqn:Ei.
      * assert (Hi : lenN la <= i) by lia. rewrite (ssplice_at_out s1 la s2 (q :: tb) i R1 R2 ltac:(discriminate) Hi). cbn [bind].
        apply (Hro (SOut CC_ERR_OUT_OF_RANGE [])).
      * destruct (split_at la i ltac:(lia)) as (A & [b db] & B' & -> & <-).
        destruct (ssplice_at_spec s1 A b db B' s2 (q :: tb) R1 R2 ltac:(discriminate)) as (s1' & E & R' & Hh).
        { eapply sblocks_disjoint; [exact Hk|exact HP]. }
        rewrite E. cbn [bind].
        assert (Ho' : sowns a s1' (A ++ (q :: tb) ++ (b, db) :: B') (sblocks (semptied s2) [])).
        { eapply sowns_splice; [exact Hsp|exact Hh| |exact HP]. rewrite !ids_app. rewrite <- app_assoc.
          apply Permutation_app_head, Permutation_app_comm. }
        destruct (swinv_set ma mb s1 (semptied s2) s1' a _ [] Hk Hm Hh R' (srep_emptied _ _ R2) Ho') as [Hw Ha].
        exists (SOut CC_OK []), {| swa := s1'; swb := semptied s2; swal := a |}, false. rewrite Ha.
        unfold insert_at. rewrite !map_app. rewrite <- (lenN_map snd A), firstnN_app, skipnN_app.
        cbn [map]. sfin.
Qed.

End SRefine.
