(** Singly linked list: zip-iterator replace - both yielded elements are overwritten in place, nothing else moves. *)
From CC Require Import Base.Prelude Base.ListMem Base.Alloc Base.AllocProofs.
From CC Require Import Generated.Status Generated.Guards List_.ListModel List_.ListHeap List_.ListProofs1.
From CC Require Import SList.SListModel SList.SListHeap SList.SListProofs1 SList.SListProofs6.
Local Open Scope N_scope.

Lemma siter_replace_parts s done x d rest v :
  srep s (done ++ (x, d) :: rest) ->
  exists n h, sload (sl_heap s) x = Ok n /\ sn_data n = d /\ sset_data (sl_heap s) x v = Ok h /\
              srep (supd s (sl_size s) (sl_head s) (sl_tail s) h) (done ++ (x, v) :: rest) /\
              ssame_hdr s (supd s (sl_size s) (sl_head s) (sl_tail s) h).
Proof.
  intros R.
  destruct (siter_replace_spec s {| si_index := 0; si_next := 0; si_current := x; si_prev := 0 |} done x d rest v R eq_refl)
    as (s' & E & R' & Hh).
  unfold siter_replace in E. cbn [si_current] in E.
  assert (Hx0 : x <> 0) by (intros ->; apply (sr_nz _ _ R); rewrite ids_app; apply in_or_app; right; left; reflexivity).
  replace (x =? 0) with false in E by lia.
  destruct (sload (sl_heap s) x) as [n|]; [|discriminate]. cbn [bind] in E.
  destruct (sset_data (sl_heap s) x v) as [h|]; [|discriminate]. cbn [bind] in E.
  inversion E; subst. exists n, h. auto.
Qed.

Theorem szip_replace_spec s1 s2 z done1 x1 d1 rest1 done2 x2 d2 rest2 e1 e2 :
  srep s1 (done1 ++ (x1, d1) :: rest1) -> srep s2 (done2 ++ (x2, d2) :: rest2) ->
  sz1_current z = x1 -> sz2_current z = x2 ->
  exists s1' s2', szip_replace s1 s2 z e1 e2 = Ok (CC_OK, d1, d2, s1', s2') /\
    srep s1' (done1 ++ (x1, e1) :: rest1) /\ srep s2' (done2 ++ (x2, e2) :: rest2) /\
    ssame_hdr s1 s1' /\ ssame_hdr s2 s2'.
Proof.
  intros R1 R2 H1 H2. unfold szip_replace. rewrite H1, H2.
  assert (Hx1 : x1 <> 0) by (intros ->; apply (sr_nz _ _ R1); rewrite ids_app; apply in_or_app; right; left; reflexivity).
  assert (Hx2 : x2 <> 0) by (intros ->; apply (sr_nz _ _ R2); rewrite ids_app; apply in_or_app; right; left; reflexivity).
  replace (x1 =? 0) with false by lia. replace (x2 =? 0) with false by lia. cbn [orb].
  destruct (siter_replace_parts s1 done1 x1 d1 rest1 e1 R1) as (n1 & h1 & L1 & D1 & S1 & R1' & Hh1).
  destruct (siter_replace_parts s2 done2 x2 d2 rest2 e2 R2) as (n2 & h2 & L2 & D2 & S2 & R2' & Hh2).
  rewrite L1, L2, S1, S2. cbn [bind]. rewrite D1, D2.
  do 2 eexists. split; [reflexivity|]. auto.
Qed.

Lemma szip_replace_none s1 s2 z e1 e2 : sz1_current z = 0 \/ sz2_current z = 0 ->
  szip_replace s1 s2 z e1 e2 = Ok (CC_ERR_VALUE_NOT_FOUND, 0, 0, s1, s2).
Proof. intros [H|H]; unfold szip_replace; rewrite H; cbn [N.eqb orb]; [reflexivity|rewrite orb_true_r; reflexivity]. Qed.
Lemma szip_remove_none s1 s2 z a : sz1_current z = 0 \/ sz2_current z = 0 ->
  szip_remove s1 s2 z a = Ok (CC_ERR_VALUE_NOT_FOUND, 0, 0, s1, s2, z, a).
Proof. intros [H|H]; unfold szip_remove; rewrite H; cbn [N.eqb orb]; [reflexivity|rewrite orb_true_r; reflexivity]. Qed.

(** zip remove directly after a yield (the iterator holds the yielded nodes [x1], [x2] and, as [szip_next_yield]
    establishes, their predecessors): exactly those two nodes leave their lists and the ledger, each released once
    through its own list's allocator; everything else, [F] included, stays; no current pair remains. *)
From Coq Require Import Permutation.
Theorem szip_remove_spec s1 s2 z done1 x1 d1 rest1 done2 x2 d2 rest2 a F :
  srep s1 (done1 ++ (x1, d1) :: rest1) -> srep s2 (done2 ++ (x2, d2) :: rest2) -> lok a ->
  Permutation (live a) (sblocks s1 (done1 ++ (x1, d1) :: rest1) ++ sblocks s2 (done2 ++ (x2, d2) :: rest2) ++ F) ->
  sz1_current z = x1 -> sz2_current z = x2 -> sz1_prev z = last_id done1 0 -> sz2_prev z = last_id done2 0 ->
  exists s1' s2' z' a', szip_remove s1 s2 z a = Ok (CC_OK, d1, d2, s1', s2', z', a') /\
    srep s1' (done1 ++ rest1) /\ srep s2' (done2 ++ rest2) /\ lok a' /\
    Permutation (live a') (sblocks s1' (done1 ++ rest1) ++ sblocks s2' (done2 ++ rest2) ++ F) /\
    ssame_hdr s1 s1' /\ ssame_hdr s2 s2' /\ plan a' = plan a /\
    sz1_current z' = 0 /\ sz2_current z' = 0 /\ sz1_next z' = sz1_next z /\ sz2_next z' = sz2_next z /\
    sz_index z' = wsub (sz_index z) 1.
Proof.
  intros R1 R2 Hk Hp H1 H2 P1 P2. unfold szip_remove. rewrite H1, H2, P1, P2.
  assert (Hx1 : x1 <> 0) by (intros ->; apply (sr_nz _ _ R1); rewrite ids_app; apply in_or_app; right; left; reflexivity).
  assert (Hx2 : x2 <> 0) by (intros ->; apply (sr_nz _ _ R2); rewrite ids_app; apply in_or_app; right; left; reflexivity).
  replace (x1 =? 0) with false by lia. replace (x2 =? 0) with false by lia. cbn [orb].
  destruct (sunlinkn_spec s1 done1 x1 d1 rest1 a _ R1 (conj Hk Hp)) as (s1' & a1 & E1 & R1' & [Hk1 Ho1] & Hh1 & Hf1 & Hpl1).
  rewrite E1. cbn [bind].
  assert (Ho2 : sowns a1 s2 (done2 ++ (x2, d2) :: rest2) (sblocks s1' (done1 ++ rest1) ++ F)).
  { unfold sowns in *. eapply Permutation_trans; [exact Ho1|]. apply Permutation_app_swap_app. }
  destruct (sunlinkn_spec s2 done2 x2 d2 rest2 a1 _ R2 (conj Hk1 Ho2)) as (s2' & a2 & E2 & R2' & [Hk2 Ho2'] & Hh2 & Hf2 & Hpl2).
  rewrite E2. cbn [bind].
  do 4 eexists. split; [reflexivity|]. cbn [sz1_current sz2_current sz1_next sz2_next sz_index].
  split; [exact R1'|]. split; [exact R2'|]. split; [exact Hk2|]. split.
  { unfold sowns in Ho2'. eapply Permutation_trans; [exact Ho2'|]. apply Permutation_app_swap_app. }
  split; [exact Hh1|]. split; [exact Hh2|]. split; [congruence|]. auto 10.
Qed.
