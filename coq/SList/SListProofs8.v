(** Singly linked list: zip-iterator replace - both yielded elements are overwritten in place, nothing else moves. *)
From CC Require Import Base.Prelude Base.ListMem Base.Alloc Base.AllocProofs.
From CC Require Import Generated.Status Generated.Guards List_.ListModel List_.ListHeap List_.ListProofs1.
From CC Require Import SList.SListModel SList.SListHeap SList.SListProofs1 SList.SListProofs6.
Local Open Scope N_scope.

Lemma siter_replace_parts s done x d rest v :
  srep s (done ++ (x, d) :: rest) ->
  exists n h, sload (sl_heap s) x = Ok n /\ sn_data n = d /\ sset_data (sl_heap s) x v = Ok h /\
              srep (supd s (sl_size s) (sl_head s) (sl_tail s) h) (done ++ (x, v) :: rest) /\
              ssame_hdr s (supd s (sl_size s) (sl_head s) (sl_tail s) h).
Proof.
  intros R.
  destruct (siter_replace_spec s {| si_index := 0; si_next := 0; si_current := x; si_prev := 0 |} done x d rest v R eq_refl)
    as (s' & E & R' & Hh).
  unfold siter_replace in E. cbn [si_current] in E.
  assert (Hx0 : x <> 0) by (intros ->; apply (sr_nz _ _ R); rewrite ids_app; apply in_or_app; right; left; reflexivity).
  replace (x =? 0) with false in E by lia.
  destruct (sload (sl_heap s) x) as [n|]; [|discriminate]. cbn [bind] in E.
  destruct (sset_data (sl_heap s) x v) as [h|]; [|discriminate]. cbn [bind] in E.
  inversion E; subst. exists n, h. auto.
Qed.

Theorem szip_replace_spec s1 s2 z done1 x1 d1 rest1 done2 x2 d2 rest2 e1 e2 :
  srep s1 (done1 ++ (x1, d1) :: rest1) -> srep s2 (done2 ++ (x2, d2) :: rest2) ->
  sz1_current z = x1 -> sz2_current z = x2 ->
  exists s1' s2', szip_replace s1 s2 z e1 e2 = Ok (CC_OK, d1, d2, s1', s2') /\
    srep s1' (done1 ++ (x1, e1) :: rest1) /\ srep s2' (done2 ++ (x2, e2) :: rest2) /\
    ssame_hdr s1 s1' /\ ssame_hdr s2 s2'.
Proof.
  intros R1 R2 H1 H2. unfold szip_replace. rewrite H1, H2.
  assert (Hx1 : x1 <> 0) by (intros ->; apply (sr_nz _ _ R1); rewrite ids_app; apply in_or_app; right; left; reflexivity).
  assert (Hx2 : x2 <> 0) by (intros ->; apply (sr_nz _ _ R2); rewrite ids_app; apply in_or_app; right; left; reflexivity).
  replace (x1 =? 0) with false by lia. replace (x2 =? 0) with false by lia. cbn [orb].
  destruct (siter_replace_parts s1 done1 x1 d1 rest1 e1 R1) as (n1 & h1 & L1 & D1 & S1 & R1' & Hh1).
  destruct (siter_replace_parts s2 done2 x2 d2 rest2 e2 R2) as (n2 & h2 & L2 & D2 & S2 & R2' & Hh2).
  rewrite L1, L2, S1, S2. cbn [bind]. rewrite D1, D2.
  do 2 eexists. split; [reflexivity|]. auto.
Qed.

Lemma szip_replace_none s1 s2 z e1 e2 : sz1_current z = 0 \/ sz2_current z = 0 ->
  szip_replace s1 s2 z e1 e2 = Ok (CC_ERR_VALUE_NOT_FOUND, 0, 0, s1, s2).
Proof. intros [H|H]; unfold szip_replace; rewrite H; cbn [N.eqb orb]; [reflexivity|rewrite orb_true_r; reflexivity]. Qed.
Lemma szip_remove_none s1 s2 z a : sz1_current z = 0 \/ sz2_current z = 0 ->
  szip_remove s1 s2 z a = Ok (CC_ERR_VALUE_NOT_FOUND, 0, 0, s1, s2, z, a).
Proof. intros [H|H]; unfold szip_remove; rewrite H; cbn [N.eqb orb]; [reflexivity|rewrite orb_true_r; reflexivity]. Qed.

(** zip remove directly after a yield (the iterator holds the yielded nodes [x1], [x2] and, as [szip_next_yield]
    establishes, their predecessors): exactly those two nodes leave their lists and the ledger, each released once
    through its own list's allocator; everything else, [F] included, stays; no current pair remains. *)
From Coq Require Import Permutation.
Theorem szip_remove_spec s1 s2 z done1 x1 d1 rest1 done2 x2 d2 rest2 a F :
  srep s1 (done1 ++ (x1, d1) :: rest1) -> srep s2 (done2 ++ (x2, d2) :: rest2) -> lok a ->
  Permutation (live a) (sblocks s1 (done1 ++ (x1, d1) :: rest1) ++ sblocks s2 (done2 ++ (x2, d2) :: rest2) ++ F) ->
  sz1_current z = x1 -> sz2_current z = x2 -> sz1_prev z = last_id done1 0 -> sz2_prev z = last_id done2 0 ->
  exists s1' s2' z' a', szip_remove s1 s2 z a = Ok (CC_OK, d1, d2, s1', s2', z', a') /\
    srep s1' (done1 ++ rest1) /\ srep s2' (done2 ++ rest2) /\ lok a' /\
    Permutation (live a') (sblocks s1' (done1 ++ rest1) ++ sblocks s2' (done2 ++ rest2) ++ F) /\
    ssame_hdr s1 s1' /\ ssame_hdr s2 s2' /\ plan a' = plan a /\
    sz1_current z' = 0 /\ sz2_current z' = 0 /\ sz1_next z' = sz1_next z /\ sz2_next z' = sz2_next z /\
    sz_index z' = wsub (sz_index z) 1.
Proof.
  intros R1 R2 Hk Hp H1 H2 P1 P2. unfold szip_remove. rewrite H1, H2, P1, P2.
  assert (Hx1 : x1 <> 0) by (intros ->; apply (sr_nz _ _ R1); rewrite ids_app; apply in_or_app; right; left; reflexivity).
  assert (Hx2 : x2 <> 0) by (intros ->; apply (sr_nz _ _ R2); rewrite ids_app; apply in_or_app; right; left; reflexivity).
  replace (x1 =? 0) with false by lia. replace (x2 =? 0) with false by lia. cbn [orb].
  destruct (sunlinkn_spec s1 done1 x1 d1 rest1 a _ R1 (conj Hk Hp)) as (s1' & a1 & E1 & R1' & [Hk1 Ho1] & Hh1 & Hf1 & Hpl1).
  rewrite E1. cbn [bind].
  assert (Ho2 : sowns a1 s2 (done2 ++ (x2, d2) :: rest2) (sblocks s1' (done1 ++ rest1) ++ F)).
  { unfold sowns in *. eapply Permutation_trans; [exact Ho1|]. apply Permutation_app_swap_app. }
  destruct (sunlinkn_spec s2 done2 x2 d2 rest2 a1 _ R2 (conj Hk1 Ho2)) as (s2' & a2 & E2 & R2' & [Hk2 Ho2'] & Hh2 & Hf2 & Hpl2).
  rewrite E2. cbn [bind].
  do 4 eexists. split; [reflexivity|]. cbn [sz1_current sz2_current sz1_next sz2_next sz_index].
  split; [exact R1'|]. split; [exact R2'|]. split; [exact Hk2|]. split.
  { unfold sowns in Ho2'. eapply Permutation_trans; [exact Ho2'|]. apply Permutation_app_swap_app. }
  split; [exact Hh1|]. split; [exact Hh2|]. split; [congruence|]. auto 10.
Qed.

(** * zip add *)
Lemma siter_add_parts s D x d Added rest a F v id a1 :
  srep s (D ++ (x, d) :: Added ++ rest) -> slown a s (D ++ (x, d) :: Added ++ rest) F ->
  alloc (sl_mem s) SNODE_BYTES a = (Some id, a1) ->
  exists nc h, sload (sl_heap s) x = Ok nc /\
    sset_next (shset (sl_heap s) id {| sn_data := v; sn_next := sn_next nc |}) x id = Ok h /\
    let s' := supd s (sl_size s + 1) (sl_head s) (if sn_next nc =? 0 then id else sl_tail s) h in
    srep s' (D ++ (x, d) :: (id, v) :: Added ++ rest) /\ slown a1 s' (D ++ (x, d) :: (id, v) :: Added ++ rest) F /\
    ssame_hdr s s'.
Proof.
  intros R Ho Ea.
  pose (it := {| si_index := lenN (D ++ (x, d) :: Added); si_next := first_id rest 0; si_current := x; si_prev := last_id D 0 |}).
  assert (Hp : sit_pos it (D ++ (x, d) :: Added) rest).
  { constructor; try reflexivity. right. exists D, d, Added. split; reflexivity. }
  pose proof (siter_add_spec s it D x d Added rest a F v R Ho Hp eq_refl) as S. rewrite Ea in S.
  destruct S as (s' & it' & E & R' & Ho' & _ & _ & _ & Hh & _).
  unfold siter_add in E. rewrite Ea in E. cbn [si_current it] in E.
  destruct (sload (sl_heap s) x) as [nc|] eqn:EL; [|discriminate]. cbn [bind] in E.
  destruct (sset_next (shset (sl_heap s) id {| sn_data := v; sn_next := sn_next nc |}) x id) as [h|] eqn:ES; [|discriminate].
  cbn [bind] in E. inversion E; subst. exists nc, h. cbv zeta. auto.
Qed.

(** zip add after a yield of the pair at nodes [x1], [x2]: each list receives its element in a fresh node of its
    own allocator family directly behind the yielded node; if either node is refused nothing at all has changed. *)
Theorem szip_add_spec s1 s2 z D1 x1 d1 A1 rest1 D2 x2 d2 A2 rest2 a F e1 e2 :
  srep s1 (D1 ++ (x1, d1) :: A1 ++ rest1) -> srep s2 (D2 ++ (x2, d2) :: A2 ++ rest2) -> lok a ->
  Permutation (live a) (sblocks s1 (D1 ++ (x1, d1) :: A1 ++ rest1) ++ sblocks s2 (D2 ++ (x2, d2) :: A2 ++ rest2) ++ F) ->
  sz1_current z = x1 -> sz2_current z = x2 ->
  exists st s1' s2' z' a', szip_add s1 s2 z e1 e2 a = Ok (st, s1', s2', z', a') /\
    ((st = CC_OK /\ exists id1 id2,
        srep s1' (D1 ++ (x1, d1) :: (id1, e1) :: A1 ++ rest1) /\
        srep s2' (D2 ++ (x2, d2) :: (id2, e2) :: A2 ++ rest2) /\ lok a' /\
        Permutation (live a') (sblocks s1' (D1 ++ (x1, d1) :: (id1, e1) :: A1 ++ rest1) ++
                               sblocks s2' (D2 ++ (x2, d2) :: (id2, e2) :: A2 ++ rest2) ++ F) /\
        ssame_hdr s1 s1' /\ ssame_hdr s2 s2' /\
        sz_index z' = sz_index z + 1 /\ sz1_current z' = x1 /\ sz2_current z' = x2 /\
        sz1_next z' = sz1_next z /\ sz2_next z' = sz2_next z /\ sz1_prev z' = sz1_prev z /\ sz2_prev z' = sz2_prev z) \/
     (st = CC_ERR_ALLOC /\ s1' = s1 /\ s2' = s2 /\ z' = z /\ live a' = live a)).
Proof.
  intros R1 R2 Hk Hp H1 H2. unfold szip_add. rewrite H1, H2.
  destruct (alloc (sl_mem s1) SNODE_BYTES a) as [[id1|] a1] eqn:E1.
  2:{ destruct (alloc_none _ _ _ _ E1 Hk) as (Hl1 & _). do 5 eexists. split; [reflexivity|]. right. auto. }
  destruct (alloc_some _ _ _ _ _ E1 Hk) as (Hid1 & Hl1 & Hk1 & _).
  destruct (alloc (sl_mem s2) SNODE_BYTES a1) as [[id2|] a2] eqn:E2.
  2:{ destruct (alloc_none _ _ _ _ E2 Hk1) as (Hl2 & _). rewrite Hl1 in Hl2.
      destruct (release_head _ _ _ _ _ Hl2) as (a3 & -> & Hl3 & _). cbn [bind].
      do 5 eexists. split; [reflexivity|]. right. auto. }
  destruct (siter_add_parts s1 D1 x1 d1 A1 rest1 a _ e1 id1 a1 R1 (conj Hk Hp) E1) as (c1 & h1 & L1 & S1 & R1' & [Hk1' Ho1] & Hh1).
  assert (Ho2 : sowns a1 s2 (D2 ++ (x2, d2) :: A2 ++ rest2)
                  (sblocks (supd s1 (sl_size s1 + 1) (sl_head s1) (if sn_next c1 =? 0 then id1 else sl_tail s1) h1)
                           (D1 ++ (x1, d1) :: (id1, e1) :: A1 ++ rest1) ++ F)).
  { unfold sowns in *. eapply Permutation_trans; [exact Ho1|]. apply Permutation_app_swap_app. }
  destruct (siter_add_parts s2 D2 x2 d2 A2 rest2 a1 _ e2 id2 a2 R2 (conj Hk1 Ho2) E2) as (c2 & h2 & L2 & S2 & R2' & [Hk2' Ho2'] & Hh2).
  rewrite L1. cbn [bind]. rewrite L2. cbn [bind]. rewrite S1. cbn [bind]. rewrite S2. cbn [bind].
  do 5 eexists. split; [reflexivity|]. left. split; [reflexivity|]. exists id1, id2.
  cbn [sz_index sz1_current sz2_current sz1_next sz2_next sz1_prev sz2_prev].
  split; [exact R1'|]. split; [exact R2'|]. split; [exact Hk2'|]. split.
  { unfold sowns in Ho2'. eapply Permutation_trans; [exact Ho2'|]. apply Permutation_app_swap_app. }
  split; [exact Hh1|]. split; [exact Hh2|]. auto 12.
Qed.
