(** Singly linked list: destroy (C06), derived containers (C15/C14), failure atomicity of the copies (C08).

    Proved here:
      sremove_all_cb_empty   remove_all(_cb) on an empty list: CC_ERR_VALUE_NOT_FOUND, nothing changes
      sdestroy_spec          destroy releases every node and the header exactly once; what stays live is the frame
      sdestroy_cb_spec       the same with the callback: it sees every element once, in list order
      sderived_ok            outcome of building a derived list (well formed copy owning its own blocks / CC_ERR_ALLOC with
                             everything released again)
      scopy_loop_w_spec, snew_list_spec, scopy_with_spec   copy_shallow / copy_deep / filter share [sl_copy_with]
      sfilter_spec, sfilter_empty_spec
      scopy_loop_n_spec, ssublist_range_guard, ssublist_out, ssublist_spec
    ([sremove_all_cb_spec] is in SListProofs1.v.) *)
From Coq Require Import Permutation.
From CC Require Import Base.Prelude Base.ListMem Base.Alloc Base.AllocProofs.
From CC Require Import Generated.Status Generated.Guards List_.ListModel List_.ListHeap List_.ListProofs1.
From CC Require Import SList.SListModel SList.SListHeap SList.SListProofs1.
Local Open Scope N_scope.

(* ------------------------------------------------------------------------------------------ destroy *)
Lemma sremove_all_cb_empty cb s a : srep s [] -> sl_remove_all_cb cb s a = Ok (CC_ERR_VALUE_NOT_FOUND, s, a, []).
Proof. intros R. unfold sl_remove_all_cb, sl_unlinkn_all. rewrite (sr_size _ _ R). reflexivity. Qed.

Lemma srelease_hdr s1 a1 F :
  slown a1 s1 [] F ->
  exists a', release (sl_mem s1) (sl_hdr s1) a1 = Ok a' /\ Permutation (live a') F /\ lok a' /\ aframe a1 a' /\ plan a' = plan a1.
Proof.
  intros [Hk1 Ho1]. unfold sowns, sblocks in Ho1. cbn [ids map app] in Ho1.
  destruct (release_perm _ _ _ _ _ Ho1 Hk1) as (a' & Er & HP & Hk' & Hf' & _ & Hp').
  exists a'. auto.
Qed.

(** destroy: afterwards the ledger holds none of this list's blocks (each was released exactly once: a second
    release of the same id would be a [BadFree] fault). cc_slist_destroy calls remove_all unconditionally. *)
Lemma sdestroy_spec s l a F :
  srep s l -> slown a s l F ->
  exists a', sl_destroy s a = Ok a' /\ Permutation (live a') F /\ lok a' /\ aframe a a' /\ plan a' = plan a.
Proof.
  intros R Hown. unfold sl_destroy, sl_remove_all. destruct l as [|p t].
  - rewrite (sremove_all_cb_empty _ _ _ R). cbn [bind].
    destruct (srelease_hdr s a F Hown) as (a' & Er & HP & Hk' & Hf' & Hp'). eauto 10.
  - destruct (sremove_all_cb_spec false s (p :: t) a F R Hown ltac:(discriminate)) as (s1 & a1 & E & R1 & Hown1 & Hh & Hf & Hp).
    rewrite E. cbn [bind].
    destruct (srelease_hdr s1 a1 F Hown1) as (a' & Er & HP & Hk' & Hf' & Hp').
    exists a'. split; [exact Er|]. split; [exact HP|]. split; [exact Hk'|]. split; [eapply aframe_trans; eassumption|congruence].
Qed.

Lemma sdestroy_cb_spec s l a F :
  srep s l -> slown a s l F ->
  exists a', sl_destroy_cb s a = Ok (a', map snd l) /\ Permutation (live a') F /\ lok a' /\ aframe a a' /\ plan a' = plan a.
Proof.
  intros R Hown. unfold sl_destroy_cb. destruct l as [|p t].
  - rewrite (sremove_all_cb_empty _ _ _ R). cbn [bind].
    destruct (srelease_hdr s a F Hown) as (a' & Er & HP & Hk' & Hf' & Hp'). rewrite Er. cbn [bind map]. eauto 10.
  - destruct (sremove_all_cb_spec true s (p :: t) a F R Hown ltac:(discriminate)) as (s1 & a1 & E & R1 & Hown1 & Hh & Hf & Hp).
    rewrite E. cbn [bind].
    destruct (srelease_hdr s1 a1 F Hown1) as (a' & Er & HP & Hk' & Hf' & Hp'). rewrite Er. cbn [bind].
    exists a'. split; [reflexivity|]. split; [exact HP|]. split; [exact Hk'|]. split; [eapply aframe_trans; eassumption|congruence].
Qed.

(* ------------------------------------------------------------------------------------------ derived containers *)
(** Outcome of building a derived list [cp] on top of the ledger frame [F]: either the list with the wanted contents,
    well formed, owning exactly its own blocks (of its own allocator family); or CC_ERR_ALLOC with every block of
    the partial copy released again. The source is an argument that is not returned: it cannot change. *)
Definition sderived_ok (want : list N) (mem : tag) (a : alloc_st) (F : list block)
  (r : stat * option slist * alloc_st) : Prop :=
  let '(st, o, a') := r in
  aframe a a' /\ lok a' /\
  match o with
  | Some cp => st = CC_OK /\ sl_mem cp = mem /\ exists lc, srep cp lc /\ map snd lc = want /\ sowns a' cp lc F
  | None => st = CC_ERR_ALLOC /\ Permutation (live a') F /\ (plan a <> [] \/ limit a < SHDR_BYTES)
  end.

Lemma scopy_loop_w_spec f keep src rest : forall fuel cp lc a F a0,
  sseg src rest 0 -> ~ In 0 (ids rest) -> (length rest < fuel)%nat ->
  srep cp lc -> slown a cp lc F -> aframe a0 a ->
  exists r, scopy_loop_w fuel f keep src (first_id rest 0) cp a = Ok r /\
            sderived_ok (map snd lc ++ map f (filter keep (map snd rest))) (sl_mem cp) a0 F r.
Proof.
  induction rest as [|[x d] t IH]; intros fuel cp lc a F a0 Hs Hnz Hfu R Hown Hf0.
  - cbn [first_id]. destruct fuel; cbn [scopy_loop_w N.eqb]; eexists; (split; [reflexivity|]); cbn [sderived_ok map filter];
      (split; [assumption|]); (split; [apply Hown|]); (split; [reflexivity|]); (split; [reflexivity|]);
      exists lc; rewrite app_nil_r; (split; [assumption|]); (split; [reflexivity|apply Hown]).
  - destruct fuel as [|fu]; [cbn in Hfu; lia|]. cbn [scopy_loop_w first_id].
    destruct (nz_tail _ _ _ Hnz) as [Hx0 Hnz']. replace (x =? 0) with false by lia.
    destruct Hs as [Hx Ht]. rewrite (sload_ok _ _ _ Hx0 Hx). cbn [bind sn_data sn_next map filter snd].
    destruct (keep d) eqn:Ek; cbn [map].
    + pose proof (sadd_last_spec cp lc a F (f d) R Hown) as Hadd. unfold sl_add.
      destruct (alloc (sl_mem cp) SNODE_BYTES a) as [[id|] a1] eqn:Ea.
      * destruct Hadd as (cp' & E & R' & Hown' & Hh & Hf). rewrite E. cbn [bind is_ok].
        destruct (IH fu cp' (lc ++ [(id, f d)]) a1 F a0 Ht Hnz' ltac:(cbn in Hfu; lia) R' Hown' (aframe_trans _ _ _ Hf0 Hf)) as (r & Er & Hr).
        rewrite Er. exists r. split; [reflexivity|]. rewrite map_app in Hr. cbn [map snd] in Hr. rewrite <- app_assoc in Hr. cbn [app] in Hr.
        destruct Hh as [_ Hm]. rewrite Hm in Hr. exact Hr.
      * destruct Hadd as (E & Hown' & Hl & Hf & Hw). rewrite E. cbn [bind is_ok].
        destruct (sdestroy_spec cp lc a1 F R Hown') as (a2 & Ed & HP & Hk2 & Hf2 & _). rewrite Ed. cbn [bind].
        eexists. split; [reflexivity|]. cbn [sderived_ok]. split; [eapply aframe_trans; [exact Hf0|eapply aframe_trans; eassumption]|].
        split; [exact Hk2|]. split; [reflexivity|]. split; [exact HP|].
        destruct Hw as [Hw|Hw]; [left; intros Hp; apply Hw, (af_plan _ _ Hf0), Hp|right; rewrite (af_limit _ _ Hf0) in Hw; unfold SNODE_BYTES, SHDR_BYTES in *; lia].
    + apply (IH fu cp lc a F a0 Ht Hnz' ltac:(cbn in Hfu; lia) R Hown Hf0).
Qed.

Lemma snew_list_spec mem a :
  lok a ->
  match sl_new mem a with
  | (st, Some cp, a1) => st = CC_OK /\ sl_mem cp = mem /\ srep cp [] /\ slown a1 cp [] (live a) /\ aframe a a1
  | (st, None, a1) => st = CC_ERR_ALLOC /\ live a1 = live a /\ lok a1 /\ aframe a a1 /\ (plan a <> [] \/ limit a < SHDR_BYTES)
  end.
Proof.
  intros Hk. unfold sl_new. destruct (alloc mem SHDR_BYTES a) as [[h|] a1] eqn:Ea.
  - destruct (alloc_some _ _ _ _ _ Ea Hk) as (_ & Hl & Hk1 & Hf & Hh0 & _).
    split; [reflexivity|]. split; [reflexivity|]. split.
    + constructor; cbn; auto; try constructor; try (intros y Hy; congruence).
    + split; [|exact Hf]. split; [exact Hk1|]. unfold sowns, sblocks, shblk. cbn. rewrite Hl. reflexivity.
  - destruct (alloc_none _ _ _ _ Ea Hk) as (Hl & Hk1 & Hf & Hw). auto.
Qed.

(** copy_shallow / copy_deep / filter (the non-empty case): contents [map f (filter keep abs)]. *)
Lemma scopy_with_spec f keep s l a :
  srep s l -> lok a ->
  exists r, sl_copy_with f keep s a = Ok r /\ sderived_ok (map f (filter keep (map snd l))) (sl_mem s) a (live a) r.
Proof.
  intros R Hk. unfold sl_copy_with. pose proof (snew_list_spec (sl_mem s) a Hk) as Hn.
  destruct (sl_new (sl_mem s) a) as [[st [cp|]] a1].
  - destruct Hn as (-> & Hm & Rc & Hown & Hf). rewrite (sr_head _ _ R).
    destruct (scopy_loop_w_spec f keep (sl_heap s) l (sfuel_of s) cp [] a1 (live a) a (sr_seg _ _ R) (sr_nz _ _ R) (sfuel_of_gt _ _ R) Rc Hown Hf)
      as (r & Er & Hr). rewrite Er. exists r. split; [reflexivity|]. rewrite Hm in Hr. exact Hr.
  - destruct Hn as (-> & Hl & Hk1 & Hf & Hw). eexists. split; [reflexivity|]. cbn [sderived_ok].
    split; [exact Hf|]. split; [exact Hk1|]. split; [reflexivity|]. split; [rewrite Hl; reflexivity|exact Hw].
Qed.

Lemma scopy_shallow_spec s l a :
  srep s l -> lok a -> exists r, sl_copy_shallow s a = Ok r /\ sderived_ok (map snd l) (sl_mem s) a (live a) r.
Proof.
  intros R Hk. destruct (scopy_with_spec (fun x => x) (fun _ => true) s l a R Hk) as (r & E & Hr).
  exists r. split; [exact E|]. rewrite map_id in Hr.
  replace (filter (fun _ : N => true) (map snd l)) with (map snd l) in Hr; [exact Hr|].
  clear. induction (map snd l) as [|v t IH]; cbn; [reflexivity|]. rewrite <- IH. reflexivity.
Qed.
Lemma scopy_deep_spec cpf s l a :
  srep s l -> lok a -> exists r, sl_copy_deep cpf s a = Ok r /\ sderived_ok (map cpf (map snd l)) (sl_mem s) a (live a) r.
Proof.
  intros R Hk. destruct (scopy_with_spec cpf (fun _ => true) s l a R Hk) as (r & E & Hr).
  exists r. split; [exact E|].
  replace (filter (fun _ : N => true) (map snd l)) with (map snd l) in Hr; [exact Hr|].
  clear. induction (map snd l) as [|v t IH]; cbn; [reflexivity|]. rewrite <- IH. reflexivity.
Qed.

Lemma sfilter_empty_spec pred s a : srep s [] -> sl_filter pred s a = Ok (CC_ERR_OUT_OF_RANGE, None, a).
Proof. intros R. unfold sl_filter, sl_get_size. rewrite (sr_size _ _ R). reflexivity. Qed.
Lemma sfilter_spec pred s l a :
  srep s l -> lok a -> l <> [] ->
  exists r, sl_filter pred s a = Ok r /\ sderived_ok (filter pred (map snd l)) (sl_mem s) a (live a) r.
Proof.
  intros R Hk Hl. unfold sl_filter, sl_get_size. rewrite (srep_size_ne _ _ R Hl).
  destruct (scopy_with_spec (fun x => x) pred s l a R Hk) as (r & E & Hr). rewrite map_id in Hr. eauto.
Qed.

(** sublist(b, e): the elements b..e inclusive. *)
Lemma scopy_loop_n_spec src mid : forall rest cp lc a F a0,
  sseg src (mid ++ rest) 0 -> ~ In 0 (ids mid) -> srep cp lc -> slown a cp lc F -> aframe a0 a ->
  exists r, scopy_loop_n (length mid) src (first_id (mid ++ rest) 0) cp a = Ok r /\
            sderived_ok (map snd lc ++ map snd mid) (sl_mem cp) a0 F r.
Proof.
  induction mid as [|[x d] t IH]; intros rest cp lc a F a0 Hs Hnz R Hown Hf0.
  - cbn [length scopy_loop_n]. eexists; split; [reflexivity|]. cbn [sderived_ok map]. split; [assumption|]. split; [apply Hown|].
    split; [reflexivity|]. split; [reflexivity|]. exists lc. rewrite app_nil_r. split; [assumption|]. split; [reflexivity|apply Hown].
  - cbn [length scopy_loop_n app first_id]. destruct (nz_tail _ _ _ Hnz) as [Hx0 Hnz'].
    cbn [app sseg] in Hs. destruct Hs as [Hx Ht]. rewrite (sload_ok _ _ _ Hx0 Hx). cbn [bind sn_data sn_next map snd].
    pose proof (sadd_last_spec cp lc a F d R Hown) as Hadd. unfold sl_add.
    destruct (alloc (sl_mem cp) SNODE_BYTES a) as [[id|] a1] eqn:Ea.
    + destruct Hadd as (cp' & E & R' & Hown' & Hh & Hf). rewrite E. cbn [bind is_ok].
      destruct (IH rest cp' (lc ++ [(id, d)]) a1 F a0 Ht Hnz' R' Hown' (aframe_trans _ _ _ Hf0 Hf)) as (r & Er & Hr).
      rewrite Er. exists r. split; [reflexivity|]. rewrite map_app in Hr. cbn [map snd] in Hr. rewrite <- app_assoc in Hr. cbn [app] in Hr.
      destruct Hh as [_ Hm]. rewrite Hm in Hr. exact Hr.
    + destruct Hadd as (E & Hown' & Hl & Hf & Hw). rewrite E. cbn [bind is_ok].
      destruct (sdestroy_spec cp lc a1 F R Hown') as (a2 & Ed & HP & Hk2 & Hf2 & _). rewrite Ed. cbn [bind].
      eexists. split; [reflexivity|]. cbn [sderived_ok]. split; [eapply aframe_trans; [exact Hf0|eapply aframe_trans; eassumption]|].
      split; [exact Hk2|]. split; [reflexivity|]. split; [exact HP|].
      destruct Hw as [Hw|Hw]; [left; intros Hp; apply Hw, (af_plan _ _ Hf0), Hp|right; rewrite (af_limit _ _ Hf0) in Hw; unfold SNODE_BYTES, SHDR_BYTES in *; lia].
Qed.

(** About the GENERATED guard of cc_slist_sublist. *)
Lemma ssublist_range_guard b e size : g_slist_sublist_range b e size = true <-> (e < b \/ size <= e).
Proof. unfold g_slist_sublist_range. lia. Qed.

Lemma ssublist_out s l b e a : srep s l -> (e < b \/ lenN l <= e) -> sl_sublist s b e a = Ok (CC_ERR_INVALID_RANGE, None, a).
Proof.
  intros R H. unfold sl_sublist. replace (g_slist_sublist_range b e (sl_size s)) with true; [reflexivity|].
  symmetry. apply ssublist_range_guard. rewrite (sr_size _ _ R). exact H.
Qed.
Lemma ssublist_spec s l1 mid l3 a :
  srep s (l1 ++ mid ++ l3) -> lok a -> mid <> [] ->
  exists r, sl_sublist s (lenN l1) (lenN l1 + lenN mid - 1) a = Ok r /\ sderived_ok (map snd mid) (sl_mem s) a (live a) r.
Proof.
  intros R Hk Hmid. unfold sl_sublist.
  assert (Hlm : 0 < lenN mid) by (destruct mid; [congruence|rewrite lenN_cons; lia]).
  replace (g_slist_sublist_range (lenN l1) (lenN l1 + lenN mid - 1) (sl_size s)) with false.
  2:{ symmetry. apply not_true_iff_false. rewrite ssublist_range_guard, (sr_size _ _ R), !lenN_app. lia. }
  pose proof (snew_list_spec (sl_mem s) a Hk) as Hn.
  destruct (sl_new (sl_mem s) a) as [[st [sub|]] a1].
  - destruct Hn as (-> & Hm & Rc & Hown & Hf).
    destruct mid as [|[x d] mt]; [congruence|].
    rewrite (sget_node_at_in s l1 x d (mt ++ l3)) by exact R. cbn [bind is_ok negb].
    replace (N.to_nat (lenN l1 + lenN ((x, d) :: mt) - 1 - lenN l1 + 1)) with (length ((x, d) :: mt)) by (unfold lenN; cbn [length]; lia).
    pose proof (sr_seg _ _ R) as Hs. apply sseg_app in Hs. destruct Hs as [_ Hs].
    assert (Hnzm : ~ In 0 (ids ((x, d) :: mt))).
    { intros H0. apply (sr_nz _ _ R). rewrite !ids_app. apply in_or_app. right. apply in_or_app. left. exact H0. }
    destruct (scopy_loop_n_spec (sl_heap s) ((x, d) :: mt) l3 sub [] a1 (live a) a Hs Hnzm Rc Hown Hf) as (r & Er & Hr).
    cbn [app first_id] in Er. rewrite Er. exists r. split; [reflexivity|]. rewrite Hm in Hr. exact Hr.
  - destruct Hn as (-> & Hl & Hk1 & Hf & Hw). eexists. split; [reflexivity|]. cbn [sderived_ok].
    split; [exact Hf|]. split; [exact Hk1|]. split; [reflexivity|]. split; [rewrite Hl; reflexivity|exact Hw].
Qed.
