(** Singly linked list: iterators (forward, zip) - lemma family for C07.

    Proved here:
      sit_pos                position invariant of the forward iterator: [done] have been yielded, [rest] is still to come;
                             either there is no current node and prev is the last node of [done], or current is the last
                             node of [done] and prev is its predecessor (what unlinkn needs)
      siter_init_pos, siter_next_end, siter_next_yield
      siter_drain, siter_drain_spec, siter_fresh_complete   a fresh iterator yields the list in order, then CC_ITER_END
      siter_index_spec, siter_replace_spec/_none, siter_remove_spec/_none, siter_add_spec   after a yield
      szip_pos, szip_init_pos, szip_next_end, szip_next_yield, szip_drain, szip_drain_spec, szip_fresh_complete *)
From Coq Require Import Permutation.
From CC Require Import Base.Prelude Base.ListMem Base.Alloc Base.AllocProofs.
From CC Require Import Generated.Status Generated.Guards List_.ListModel List_.ListHeap List_.ListProofs1.
From CC Require Import SList.SListModel SList.SListHeap SList.SListProofs1.
Local Open Scope N_scope.

Lemma swsub1 a : 0 < a -> a < W -> wsub a 1 = a - 1.
Proof.
  intros H0 HW. unfold wsub. change (1 mod W) with 1. replace (a + W - 1) with ((a - 1) + 1 * W) by lia.
  rewrite N.mod_add by (unfold W; lia). apply N.mod_small. lia.
Qed.

(* ------------------------------------------------------------------------------------------ forward iterator *)
Record sit_pos (it : siter) (done rest : list (N * N)) : Prop := {
  sip_next : si_next it = first_id rest 0;
  sip_index : si_index it = lenN done;
  sip_cur : (si_current it = 0 /\ si_prev it = last_id done 0) \/
            (exists done' d, done = done' ++ [(si_current it, d)] /\ si_prev it = last_id done' 0);
}.

Lemma siter_init_pos s l : srep s l -> sit_pos (siter_init s) [] l.
Proof. intros R. constructor; cbn; [apply R|reflexivity|left; auto]. Qed.

Lemma siter_next_end s it done : sit_pos it done [] -> siter_next s it = Ok (CC_ITER_END, 0, it).
Proof. intros [Hn _ _]. unfold siter_next. rewrite Hn. reflexivity. Qed.

(** The predecessor the next yield will record. *)
Lemma sit_pos_prev it done rest :
  ~ In 0 (ids done) -> sit_pos it done rest ->
  (if negb (si_current it =? 0) then si_current it else si_prev it) = last_id done 0.
Proof.
  intros Hnz [_ _ [[Hc Hp]|(done' & d & Ed & Hp)]].
  - rewrite Hc. cbn. exact Hp.
  - assert (Hc0 : si_current it <> 0).
    { intros E0. apply Hnz. rewrite Ed, ids_app. apply in_or_app. right. left. cbn. congruence. }
    replace (si_current it =? 0) with false by lia. cbn [negb]. rewrite Ed, last_id_snoc. reflexivity.
Qed.

(** After a yield the current node is [x] and prev is its predecessor in the list. *)
Lemma siter_next_yield s it done x d t :
  srep s (done ++ (x, d) :: t) -> sit_pos it done ((x, d) :: t) ->
  exists it', siter_next s it = Ok (CC_OK, d, it') /\ sit_pos it' (done ++ [(x, d)]) t /\
              si_current it' = x /\ si_prev it' = last_id done 0.
Proof.
  intros R Hp. pose proof Hp as [Hn Hi _]. unfold siter_next. rewrite Hn. cbn [first_id].
  assert (Hx0 : x <> 0) by (intros ->; apply (sr_nz _ _ R); rewrite ids_app; apply in_or_app; right; left; reflexivity).
  assert (Hnzd : ~ In 0 (ids done)) by (intros H0; apply (sr_nz _ _ R); rewrite ids_app; apply in_or_app; left; exact H0).
  replace (x =? 0) with false by lia.
  rewrite (sload_ok _ _ _ Hx0 (sseg_mid _ _ _ _ _ _ (sr_seg _ _ R))). cbn [bind sn_data sn_next].
  rewrite (sit_pos_prev it done _ Hnzd Hp).
  eexists. split; [reflexivity|]. split; [|split; reflexivity].
  constructor; cbn [si_next si_index si_current si_prev]; [reflexivity| |].
  - rewrite Hi, lenN_app. reflexivity.
  - right. exists done, d. split; reflexivity.
Qed.

(** Calling next [k] times: the values yielded and the status of the last call that did not yield (CC_OK if all did). *)
Fixpoint siter_drain (k : nat) (s : slist) (it : siter) : res (list N * stat) :=
  match k with
  | O => Ok ([], CC_OK)
  | S k' => do (st, v, it') <- siter_next s it;
            if is_ok st then do (r, st') <- siter_drain k' s it'; Ok (v :: r, st') else Ok ([], st)
  end.

Lemma siter_drain_spec s rest : forall done it, srep s (done ++ rest) -> sit_pos it done rest ->
  siter_drain (S (length rest)) s it = Ok (map snd rest, CC_ITER_END).
Proof.
  induction rest as [|[x d] t IH]; intros done it R Hp.
  - cbn [length siter_drain]. rewrite (siter_next_end s it done Hp). reflexivity.
  - cbn [length]. change (siter_drain (S (S (length t))) s it) with
      (do (st, v, it') <- siter_next s it; if is_ok st then do (r, st') <- siter_drain (S (length t)) s it'; Ok (v :: r, st') else Ok ([], st)).
    destruct (siter_next_yield s it done x d t R Hp) as (it' & E & Hp' & _). rewrite E. cbn [bind is_ok].
    change (done ++ (x, d) :: t) with (done ++ [(x, d)] ++ t) in R. rewrite app_assoc in R.
    rewrite (IH _ it' R Hp'). reflexivity.
Qed.

(** A fresh iterator yields exactly the list, in order, then CC_ITER_END. *)
Theorem siter_fresh_complete s l : srep s l -> siter_drain (S (length l)) s (siter_init s) = Ok (map snd l, CC_ITER_END).
Proof. intros R. apply (siter_drain_spec s l [] _ R). apply siter_init_pos. exact R. Qed.

(** After a yield of [x]: index, replace, remove, add. *)
Lemma siter_index_spec it done x d rest : sit_pos it (done ++ [(x, d)]) rest -> lenN (done ++ [(x, d)]) < W -> siter_index it = lenN done.
Proof.
  intros [_ Hi _] HW. unfold siter_index. rewrite Hi. rewrite lenN_app, lenN_cons in *. cbn [lenN length N.of_nat] in *.
  rewrite swsub1 by lia. lia.
Qed.

(** The invariant pins down prev once current is known. *)
Lemma sit_pos_cur it done x d rest :
  x <> 0 -> sit_pos it (done ++ [(x, d)]) rest -> si_current it = x -> si_prev it = last_id done 0.
Proof.
  intros Hx0 [_ _ [[Hc _]|(done' & d' & Ed & Hp)]] Hcx; [congruence|].
  apply app_inj_tail in Ed. destruct Ed as [-> _]. exact Hp.
Qed.

Lemma siter_replace_spec s it done x d rest v :
  srep s (done ++ (x, d) :: rest) -> si_current it = x ->
  exists s', siter_replace s it v = Ok (CC_OK, d, s') /\ srep s' (done ++ (x, v) :: rest) /\ ssame_hdr s s'.
Proof.
  intros R Hl. unfold siter_replace. rewrite Hl.
  assert (Hx0 : x <> 0) by (intros ->; apply (sr_nz _ _ R); rewrite ids_app; apply in_or_app; right; left; reflexivity).
  replace (x =? 0) with false by lia.
  destruct (sreplace_at_spec s done x d rest v R) as (s' & E & R' & Hh).
  unfold sl_replace_at in E. rewrite (sget_node_at_in _ _ _ _ _ R) in E. cbn [bind is_ok] in E.
  destruct (sload (sl_heap s) x) as [n|]; [|discriminate]. cbn [bind] in E |- *.
  destruct (sset_data (sl_heap s) x v) as [h|]; [|discriminate]. cbn [bind] in E |- *.
  inversion E; subst. eauto.
Qed.
Lemma siter_replace_none s it v : si_current it = 0 -> siter_replace s it v = Ok (CC_ERR_VALUE_NOT_FOUND, 0, s).
Proof. intros H. unfold siter_replace. rewrite H. reflexivity. Qed.

(** remove: the yielded node is unlinked through the recorded predecessor; afterwards there is no current node, prev
    is the last node before the gap, and next() continues with the old successor. *)
Lemma siter_remove_spec s it done x d rest a F :
  srep s (done ++ (x, d) :: rest) -> slown a s (done ++ (x, d) :: rest) F ->
  sit_pos it (done ++ [(x, d)]) rest -> si_current it = x -> lenN (done ++ [(x, d)]) < W ->
  exists s' it' a', siter_remove s it a = Ok (CC_OK, d, s', it', a') /\ srep s' (done ++ rest) /\ slown a' s' (done ++ rest) F /\
                    sit_pos it' done rest /\ si_current it' = 0 /\ ssame_hdr s s' /\ aframe a a'.
Proof.
  intros R Hown Hp Hl HW.
  assert (Hx0 : x <> 0) by (intros ->; apply (sr_nz _ _ R); rewrite ids_app; apply in_or_app; right; left; reflexivity).
  pose proof (sit_pos_cur _ _ _ _ _ Hx0 Hp Hl) as Hpv. destruct Hp as [Hn Hi _].
  unfold siter_remove. rewrite Hl, Hpv.
  replace (x =? 0) with false by lia.
  destruct (sunlinkn_spec s done x d rest a F R Hown) as (s' & a' & E & R' & Hown' & Hh & Hf & _).
  rewrite E. cbn [bind]. do 3 eexists. split; [reflexivity|]. split; [exact R'|]. split; [exact Hown'|].
  split; [|auto]. constructor; cbn [si_next si_index si_current si_prev]; [exact Hn| |left; auto].
  rewrite Hi. rewrite lenN_app, lenN_cons in *. cbn [lenN length N.of_nat] in *. rewrite swsub1 by lia. lia.
Qed.
Lemma siter_remove_none s it a : si_current it = 0 -> siter_remove s it a = Ok (CC_ERR_VALUE_NOT_FOUND, 0, s, it, a).
Proof. intros H. unfold siter_remove. rewrite H. reflexivity. Qed.

(** add: the new node follows the yielded one, next() continues with the old successor, the inserted node becomes
    current and the yielded one its prev (so a following remove removes the INSERTED node). *)
Lemma siter_add_spec s it done x d rest a F v :
  srep s (done ++ (x, d) :: rest) -> slown a s (done ++ (x, d) :: rest) F ->
  sit_pos it (done ++ [(x, d)]) rest -> si_current it = x ->
  match alloc (sl_mem s) SNODE_BYTES a with
  | (Some id, a1) => exists s' it', siter_add s it v a = Ok (CC_OK, s', it', a1) /\
        srep s' (done ++ (x, d) :: (id, v) :: rest) /\ slown a1 s' (done ++ (x, d) :: (id, v) :: rest) F /\
        sit_pos it' (done ++ [(x, d); (id, v)]) rest /\ si_current it' = id /\ si_prev it' = x /\ ssame_hdr s s' /\ aframe a a1
  | (None, a1) => siter_add s it v a = Ok (CC_ERR_ALLOC, s, it, a1) /\ slown a1 s (done ++ (x, d) :: rest) F /\ live a1 = live a /\
                  aframe a a1 /\ (plan a <> [] \/ limit a < SNODE_BYTES)
  end.
Proof.
  intros R [Hk Ho] [Hn Hi _] Hl. unfold siter_add.
  destruct (alloc (sl_mem s) SNODE_BYTES a) as [[id|] a1] eqn:E.
  2:{ destruct (alloc_none _ _ _ _ E Hk) as (Hl1 & Hk1 & Hf & Hw). split; [reflexivity|].
      split; [split; [assumption|unfold sowns; rewrite Hl1; exact Ho]|auto]. }
  destruct (alloc_some _ _ _ _ _ E Hk) as (_ & Hl1 & Hk1 & Hf & Hid0 & Hfr).
  destruct (sfresh_facts _ _ _ _ _ (conj Hk Ho) Hfr) as [Hni Hnh].
  destruct (nodup_mid _ _ _ _ (sr_nodup _ _ R)) as (Hnd1 & Hnd2 & Hx1 & Hx2 & Hdis & _).
  pose proof (sr_nz _ _ R) as Hnz.
  assert (Hx0 : x <> 0) by (intros ->; apply Hnz; rewrite ids_app; apply in_or_app; right; left; reflexivity).
  assert (Hxid : x <> id) by (intros ->; apply Hni; rewrite ids_app; apply in_or_app; right; left; reflexivity).
  assert (Hni1 : ~ In id (ids done)) by (intros H0; apply Hni; rewrite ids_app; apply in_or_app; left; exact H0).
  assert (Hni2 : ~ In id (ids rest)) by (intros H0; apply Hni; rewrite ids_app; apply in_or_app; right; right; exact H0).
  rewrite Hn, Hl.
  set (h0 := shset (sl_heap s) id {| sn_data := v; sn_next := first_id rest 0 |}).
  pose proof (sseg_mid _ _ _ _ _ _ (sr_seg _ _ R)) as Hx.
  assert (Hx0' : shget h0 x = Some {| sn_data := d; sn_next := first_id rest 0 |}).
  { unfold h0. rewrite shget_shset_other by congruence. exact Hx. }
  rewrite (sset_next_ok _ _ _ id Hx0 Hx0'). cbn [bind sn_data].
  set (h1 := shset h0 x _).
  pose proof (sr_seg _ _ R) as Hs. apply sseg_app in Hs. cbn [sseg first_id] in Hs. destruct Hs as (Hs1 & _ & Hs2).
  do 2 eexists. split; [reflexivity|].
  assert (Hperm : Permutation (ids (done ++ (x, d) :: (id, v) :: rest)) (id :: ids (done ++ (x, d) :: rest))).
  { rewrite !ids_app. cbn [ids map fst].
    change (ids done ++ x :: id :: map fst rest) with (ids done ++ [x] ++ id :: map fst rest). rewrite app_assoc.
    eapply Permutation_trans; [apply Permutation_sym, Permutation_middle|]. rewrite <- app_assoc. reflexivity. }
  split; [|split; [split; [assumption|eapply sowns_insert; eauto]|]].
  - constructor; cbn [supd sl_heap sl_head sl_tail sl_size sl_hdr].
    + eapply Permutation_NoDup; [apply Permutation_sym, Hperm|]. constructor; [exact Hni|apply R].
    + intros H0. eapply Permutation_in in H0; [|exact Hperm]. destruct H0 as [H0|H0]; [congruence|exact (Hnz H0)].
    + apply sseg_app. cbn [sseg first_id]. split; [|split; [|split]].
      * eapply sseg_ext; [|exact Hs1]. intros y Hy. unfold h1, h0.
        rewrite !shget_shset_other; [reflexivity| |]; intros ->; contradiction.
      * unfold h1. apply shget_shset_same.
      * unfold h1. rewrite shget_shset_other by congruence. unfold h0. apply shget_shset_same.
      * eapply sseg_ext; [|exact Hs2]. intros y Hy. unfold h1, h0.
        rewrite !shget_shset_other; [reflexivity| |]; intros ->; contradiction.
    + rewrite (sr_head _ _ R), !first_id_app. reflexivity.
    + rewrite !last_id_app. cbn [last_id]. rewrite Hi, (sr_size _ _ R), !lenN_app, !lenN_cons. cbn [lenN length N.of_nat].
      destruct rest as [|[y dy] rt].
      * cbn [lenN length N.of_nat last_id]. rewrite N.eqb_refl. reflexivity.
      * replace (lenN done + (0 + 1) =? lenN done + (lenN ((y, dy) :: rt) + 1)) with false by (rewrite lenN_cons; lia).
        rewrite (sr_tail _ _ R), !last_id_app. reflexivity.
    + rewrite (sr_size _ _ R), !lenN_app, !lenN_cons. lia.
    + intros y Hy. unfold h1, h0 in Hy.
      eapply Permutation_in; [apply Permutation_sym, Hperm|].
      destruct (N.eq_dec id y) as [<-|Hne2]; [left; reflexivity|]. right.
      destruct (N.eq_dec x y) as [<-|Hne3]; [rewrite ids_app; apply in_or_app; right; left; reflexivity|].
      rewrite !shget_shset_other in Hy by assumption. apply (sr_dom _ _ R). exact Hy.
    + apply (sr_hdr _ _ R).
  - split; [|auto 6]. constructor; cbn [si_next si_index si_current si_prev]; [reflexivity| |].
    + rewrite Hi, !lenN_app, !lenN_cons. cbn [lenN length N.of_nat]. lia.
    + right. exists (done ++ [(x, d)]), v. split; [rewrite <- app_assoc; reflexivity|rewrite last_id_snoc; reflexivity].
Qed.

(* ------------------------------------------------------------------------------------------ zip iterator *)
Record szip_pos (z : sziter) (done1 rest1 done2 rest2 : list (N * N)) : Prop := {
  szp_next1 : sz1_next z = first_id rest1 0;
  szp_next2 : sz2_next z = first_id rest2 0;
  szp_index1 : sz_index z = lenN done1;
  szp_index2 : sz_index z = lenN done2;
}.

Lemma szip_init_pos s1 l1 s2 l2 : srep s1 l1 -> srep s2 l2 -> szip_pos (szip_init s1 s2) [] l1 [] l2.
Proof. intros R1 R2. constructor; cbn; try reflexivity; [apply R1|apply R2]. Qed.

Lemma szip_next_end s1 s2 z done1 rest1 done2 rest2 :
  szip_pos z done1 rest1 done2 rest2 -> rest1 = [] \/ rest2 = [] ->
  szip_next s1 s2 z = Ok (CC_ITER_END, 0, 0, z).
Proof.
  intros [H1 H2 _ _] He. unfold szip_next. rewrite H1, H2. destruct He as [-> | ->]; cbn [first_id N.eqb orb]; [reflexivity|].
  rewrite orb_true_r. reflexivity.
Qed.

Lemma szip_next_yield s1 s2 z done1 x1 d1 t1 done2 x2 d2 t2 :
  srep s1 (done1 ++ (x1, d1) :: t1) -> srep s2 (done2 ++ (x2, d2) :: t2) ->
  szip_pos z done1 ((x1, d1) :: t1) done2 ((x2, d2) :: t2) ->
  exists z', szip_next s1 s2 z = Ok (CC_OK, d1, d2, z') /\ szip_pos z' (done1 ++ [(x1, d1)]) t1 (done2 ++ [(x2, d2)]) t2 /\
             sz1_current z' = x1 /\ sz2_current z' = x2.
Proof.
  intros R1 R2 [H1 H2 H3 H4]. unfold szip_next. rewrite H1, H2. cbn [first_id].
  assert (Hx1 : x1 <> 0) by (intros ->; apply (sr_nz _ _ R1); rewrite ids_app; apply in_or_app; right; left; reflexivity).
  assert (Hx2 : x2 <> 0) by (intros ->; apply (sr_nz _ _ R2); rewrite ids_app; apply in_or_app; right; left; reflexivity).
  replace (x1 =? 0) with false by lia. replace (x2 =? 0) with false by lia. cbn [orb].
  rewrite (sload_ok _ _ _ Hx1 (sseg_mid _ _ _ _ _ _ (sr_seg _ _ R1))), (sload_ok _ _ _ Hx2 (sseg_mid _ _ _ _ _ _ (sr_seg _ _ R2))).
  cbn [bind sn_data sn_next]. eexists. split; [reflexivity|]. split; [|auto].
  constructor; cbn [sz1_next sz2_next sz_index]; try reflexivity.
  - rewrite H3, lenN_app. reflexivity.
  - rewrite H4, lenN_app. reflexivity.
Qed.

Fixpoint szip_drain (k : nat) (s1 s2 : slist) (z : sziter) : res (list (N * N) * stat) :=
  match k with
  | O => Ok ([], CC_OK)
  | S k' => do (st, v1, v2, z') <- szip_next s1 s2 z;
            if is_ok st then do (r, st') <- szip_drain k' s1 s2 z'; Ok ((v1, v2) :: r, st') else Ok ([], st)
  end.

Lemma szip_drain_spec s1 s2 : forall rest1 rest2 done1 done2 z,
  srep s1 (done1 ++ rest1) -> srep s2 (done2 ++ rest2) -> szip_pos z done1 rest1 done2 rest2 ->
  szip_drain (S (Nat.min (length rest1) (length rest2))) s1 s2 z = Ok (combine (map snd rest1) (map snd rest2), CC_ITER_END).
Proof.
  induction rest1 as [|[x1 d1] t1 IH]; intros rest2 done1 done2 z R1 R2 Hp.
  - cbn [length Nat.min szip_drain]. rewrite (szip_next_end s1 s2 z _ _ _ _ Hp) by auto. reflexivity.
  - destruct rest2 as [|[x2 d2] t2].
    + cbn [length Nat.min szip_drain]. rewrite (szip_next_end s1 s2 z _ _ _ _ Hp) by auto. reflexivity.
    + cbn [length Nat.min].
      change (szip_drain (S (S (Nat.min (length t1) (length t2)))) s1 s2 z) with
        (do (st, v1, v2, z') <- szip_next s1 s2 z;
         if is_ok st then do (r, st') <- szip_drain (S (Nat.min (length t1) (length t2))) s1 s2 z'; Ok ((v1, v2) :: r, st') else Ok ([], st)).
      destruct (szip_next_yield s1 s2 z done1 x1 d1 t1 done2 x2 d2 t2 R1 R2 Hp) as (z' & E & Hp' & _). rewrite E. cbn [bind is_ok].
      change (done1 ++ (x1, d1) :: t1) with (done1 ++ [(x1, d1)] ++ t1) in R1. rewrite app_assoc in R1.
      change (done2 ++ (x2, d2) :: t2) with (done2 ++ [(x2, d2)] ++ t2) in R2. rewrite app_assoc in R2.
      rewrite (IH t2 _ _ z' R1 R2 Hp'). reflexivity.
Qed.

(** The zip iterator walks both lists in lockstep and stops at the shorter one. *)
Theorem szip_fresh_complete s1 l1 s2 l2 : srep s1 l1 -> srep s2 l2 ->
  szip_drain (S (Nat.min (length l1) (length l2))) s1 s2 (szip_init s1 s2) = Ok (combine (map snd l1) (map snd l2), CC_ITER_END).
Proof. intros R1 R2. apply (szip_drain_spec s1 s2 l1 l2 [] []); try assumption. apply szip_init_pos; assumption. Qed.
