(** Singly linked list: iterators (forward, zip) - lemma family for C07.

    cc_slist_iter_add leaves current / prev alone; cc_slist_iter_next re-establishes prev by walking from current over
    whatever was added through the iterator until it meets next ([sprev_walk]).

    Proved here:
      scur_ok                what the iterator knows about its current node: either there is none and prev is the last node
                             of [done]; or current is a node of [done], followed only by nodes added through the iterator
                             ([Added]), and prev is the predecessor of current
      sprev_walk_seg, sprev_of_spec   the walk of next() ends on the last node of [done]
      sit_pos                position invariant of the forward iterator: [done] lies before the cursor, [rest] is still to come
      siter_init_pos, siter_next_end, siter_next_yield
      siter_drain, siter_drain_spec, siter_fresh_complete   a fresh iterator yields the list in order, then CC_ITER_END
      siter_index_spec, siter_replace_spec/_none, siter_remove_spec/_none, siter_add_spec   after a yield
      szip_pos, szip_init_pos, szip_next_end, szip_next_yield, szip_drain, szip_drain_spec, szip_fresh_complete

    Contract: [siter_remove_spec] is stated for an iterator whose current node is the LAST node of [done] (nothing added
    since the yield): a remove after an add would leave prev stale. [siter_add_spec] holds after any number of earlier adds
    behind the same yielded element: every new node is linked directly behind the yielded one, no node is lost. *)
From Coq Require Import Permutation.
From CC Require Import Base.Prelude Base.ListMem Base.Alloc Base.AllocProofs.
From CC Require Import Generated.Status Generated.Guards List_.ListModel List_.ListHeap List_.ListProofs1.
From CC Require Import SList.SListModel SList.SListHeap SList.SListProofs1.
Local Open Scope N_scope.

Lemma swsub1 a : 0 < a -> a < W -> wsub a 1 = a - 1.
Proof.
  intros H0 HW. unfold wsub. change (1 mod W) with 1. replace (a + W - 1) with ((a - 1) + 1 * W) by lia.
  rewrite N.mod_add by (unfold W; lia). apply N.mod_small. lia.
Qed.

(* ------------------------------------------------------------------------------------------ current / prev *)
Definition scur_ok (cur pv : N) (done : list (N * N)) : Prop :=
  (cur = 0 /\ pv = last_id done 0) \/
  (exists D d Added, done = D ++ (cur, d) :: Added /\ pv = last_id D 0).

Lemma scur_ok_yield x d done : scur_ok x (last_id done 0) (done ++ [(x, d)]).
Proof. right. exists done, d, []. split; reflexivity. Qed.

(** prev = current; while (prev->next != next) prev = prev->next; on a segment that ends in [nxt]. *)
Lemma sprev_walk_seg h nxt L : forall fuel c dc,
  sseg h ((c, dc) :: L) nxt -> ~ In nxt (ids L) -> ~ In 0 (ids ((c, dc) :: L)) -> (length L <= fuel)%nat ->
  sprev_walk fuel h c nxt = Ok (last_id ((c, dc) :: L) 0).
Proof.
  induction L as [|[c' d'] L' IH]; intros fuel c dc Hs Hni Hnz Hf.
  - destruct (nz_tail _ _ _ Hnz) as [Hc0 _]. destruct Hs as [Hc _]. cbn [first_id] in Hc.
    destruct fuel; cbn [sprev_walk]; rewrite (sload_ok _ _ _ Hc0 Hc); cbn [bind sn_next]; rewrite N.eqb_refl; reflexivity.
  - destruct (nz_tail _ _ _ Hnz) as [Hc0 Hnz']. destruct Hs as [Hc Hs']. cbn [first_id] in Hc.
    destruct fuel as [|f]; [cbn in Hf; lia|]. cbn [sprev_walk]. rewrite (sload_ok _ _ _ Hc0 Hc). cbn [bind sn_next].
    replace (c' =? nxt) with false by (symmetry; apply N.eqb_neq; intros ->; apply Hni; left; reflexivity).
    rewrite (IH f c' d' Hs'); [reflexivity| |exact Hnz'|cbn in Hf; lia].
    intros Hin. apply Hni. right. exact Hin.
Qed.

(** The predecessor recorded by next(): the last node before the one being yielded. *)
Lemma sprev_of_spec s done x d t cur pv :
  srep s (done ++ (x, d) :: t) -> scur_ok cur pv done -> sprev_of s cur pv x = Ok (last_id done 0).
Proof.
  intros R [[-> ->]|(D & dc & Added & -> & _)]; unfold sprev_of; [reflexivity|].
  pose proof (sr_nz _ _ R) as Hnz. pose proof (sr_nodup _ _ R) as Hnd. pose proof (sr_seg _ _ R) as Hs.
  rewrite <- app_assoc in Hnz, Hnd, Hs. cbn [app] in Hnz, Hnd, Hs.
  assert (Hc0 : cur <> 0) by (intros ->; apply Hnz; rewrite ids_app; apply in_or_app; right; left; reflexivity).
  replace (cur =? 0) with false by lia. cbn [negb].
  (* the segment cur :: Added ends in x *)
  apply sseg_app in Hs. destruct Hs as [_ Hs].
  change ((cur, dc) :: Added ++ (x, d) :: t) with (((cur, dc) :: Added) ++ (x, d) :: t) in Hs.
  apply sseg_app in Hs. destruct Hs as [Hs _]. cbn [first_id] in Hs.
  rewrite last_id_app.
  assert (Hlast : last_id ((cur, dc) :: Added) (last_id D 0) = last_id ((cur, dc) :: Added) 0) by reflexivity.
  rewrite Hlast.
  apply sprev_walk_seg; [exact Hs| | |].
  - destruct (nodup_mid _ _ _ _ Hnd) as (_ & Hnd2 & _ & _ & _ & _).
    change (ids (Added ++ (x, d) :: t)) with (ids (Added ++ (x, d) :: t)) in Hnd2.
    destruct (nodup_mid _ _ _ _ Hnd2) as (_ & _ & Hx & _). exact Hx.
  - intros H0. apply Hnz. rewrite ids_app. apply in_or_app. right.
    change ((cur, dc) :: Added ++ (x, d) :: t) with (((cur, dc) :: Added) ++ (x, d) :: t). rewrite ids_app. apply in_or_app. left. exact H0.
  - unfold sfuel_of. rewrite (sr_size _ _ R), lenN_length. repeat (rewrite ?app_length; cbn [length]). lia.
Qed.

(** With duplicate-free ids the position of a node is unique. *)
Lemma snoc_split_unique (A D Added : list (N * N)) x d d' :
  NoDup (ids (A ++ [(x, d)])) -> A ++ [(x, d)] = D ++ (x, d') :: Added -> D = A /\ Added = [].
Proof.
  intros Hnd E. destruct (list_eq_dec (fun p q : N * N => ltac:(decide equality; apply N.eq_dec)) Added []) as [->|Hne].
  - apply app_inj_tail in E. destruct E as [-> _]. auto.
  - exfalso. destruct (exists_last Hne) as (Ad & lst & ->).
    change (D ++ (x, d') :: Ad ++ [lst]) with (D ++ ((x, d') :: Ad) ++ [lst]) in E. rewrite app_assoc in E.
    apply app_inj_tail in E. destruct E as [EA _]. subst A.
    rewrite <- app_assoc in Hnd. cbn [app] in Hnd. apply nodup_mid in Hnd. destruct Hnd as (_ & _ & _ & Hx & _).
    apply Hx. rewrite ids_app. apply in_or_app. right. left. reflexivity.
Qed.

(* ------------------------------------------------------------------------------------------ forward iterator *)
Record sit_pos (it : siter) (done rest : list (N * N)) : Prop := {
  sip_next : si_next it = first_id rest 0;
  sip_index : si_index it = lenN done;
  sip_cur : scur_ok (si_current it) (si_prev it) done;
}.

Lemma siter_init_pos s l : srep s l -> sit_pos (siter_init s) [] l.
Proof. intros R. constructor; cbn; [apply R|reflexivity|left; auto]. Qed.

Lemma siter_next_end s it done : sit_pos it done [] -> siter_next s it = Ok (CC_ITER_END, 0, it).
Proof. intros [Hn _ _]. unfold siter_next. rewrite Hn. reflexivity. Qed.

(** After a yield the current node is [x] and prev is its predecessor in the list (found by walking over the nodes
    that were added through the iterator since the previous yield). *)
Lemma siter_next_yield s it done x d t :
  srep s (done ++ (x, d) :: t) -> sit_pos it done ((x, d) :: t) ->
  exists it', siter_next s it = Ok (CC_OK, d, it') /\ sit_pos it' (done ++ [(x, d)]) t /\
              si_current it' = x /\ si_prev it' = last_id done 0.
Proof.
  intros R [Hn Hi Hc]. unfold siter_next. rewrite Hn. cbn [first_id].
  assert (Hx0 : x <> 0) by (intros ->; apply (sr_nz _ _ R); rewrite ids_app; apply in_or_app; right; left; reflexivity).
  replace (x =? 0) with false by lia.
  rewrite (sload_ok _ _ _ Hx0 (sseg_mid _ _ _ _ _ _ (sr_seg _ _ R))). cbn [bind sn_data sn_next].
  rewrite (sprev_of_spec s done x d t _ _ R Hc). cbn [bind].
  eexists. split; [reflexivity|]. split; [|split; reflexivity].
  constructor; cbn [si_next si_index si_current si_prev]; [reflexivity| |apply scur_ok_yield].
  rewrite Hi, lenN_app. reflexivity.
Qed.

(** Calling next [k] times: the values yielded and the status of the last call that did not yield (CC_OK if all did). *)
Fixpoint siter_drain (k : nat) (s : slist) (it : siter) : res (list N * stat) :=
  match k with
  | O => Ok ([], CC_OK)
  | S k' => do (st, v, it') <- siter_next s it;
            if is_ok st then do (r, st') <- siter_drain k' s it'; Ok (v :: r, st') else Ok ([], st)
  end.

Lemma siter_drain_spec s rest : forall done it, srep s (done ++ rest) -> sit_pos it done rest ->
  siter_drain (S (length rest)) s it = Ok (map snd rest, CC_ITER_END).
Proof.
  induction rest as [|[x d] t IH]; intros done it R Hp.
  - cbn [length siter_drain]. rewrite (siter_next_end s it done Hp). reflexivity.
  - cbn [length]. change (siter_drain (S (S (length t))) s it) with
      (do (st, v, it') <- siter_next s it; if is_ok st then do (r, st') <- siter_drain (S (length t)) s it'; Ok (v :: r, st') else Ok ([], st)).
    destruct (siter_next_yield s it done x d t R Hp) as (it' & E & Hp' & _). rewrite E. cbn [bind is_ok].
    change (done ++ (x, d) :: t) with (done ++ [(x, d)] ++ t) in R. rewrite app_assoc in R.
    rewrite (IH _ it' R Hp'). reflexivity.
Qed.

(** A fresh iterator yields exactly the list, in order, then CC_ITER_END. *)
Theorem siter_fresh_complete s l : srep s l -> siter_drain (S (length l)) s (siter_init s) = Ok (map snd l, CC_ITER_END).
Proof. intros R. apply (siter_drain_spec s l [] _ R). apply siter_init_pos. exact R. Qed.

(** After a yield of [x]: index, replace, remove, add. *)
Lemma siter_index_spec it done x d rest : sit_pos it (done ++ [(x, d)]) rest -> lenN (done ++ [(x, d)]) < W -> siter_index it = lenN done.
Proof.
  intros [_ Hi _] HW. unfold siter_index. rewrite Hi. rewrite lenN_app, lenN_cons in *. cbn [lenN length N.of_nat] in *.
  rewrite swsub1 by lia. lia.
Qed.

(** When the current node is the last node of [done] (nothing added since the yield), prev is its predecessor. *)
Lemma sit_pos_cur it done x d rest :
  x <> 0 -> NoDup (ids (done ++ [(x, d)])) -> sit_pos it (done ++ [(x, d)]) rest -> si_current it = x -> si_prev it = last_id done 0.
Proof.
  intros Hx0 Hnd [_ _ [[Hc _]|(D & d' & Added & Ed & Hp)]] Hcx; [congruence|].
  rewrite Hcx in Ed. destruct (snoc_split_unique _ _ _ _ _ _ Hnd Ed) as [-> _]. exact Hp.
Qed.

(** replace acts on the element last returned by next, wherever the cursor has moved since (also after an add). *)
Lemma siter_replace_spec s it done x d rest v :
  srep s (done ++ (x, d) :: rest) -> si_current it = x ->
  exists s', siter_replace s it v = Ok (CC_OK, d, s') /\ srep s' (done ++ (x, v) :: rest) /\ ssame_hdr s s'.
Proof.
  intros R Hl. unfold siter_replace. rewrite Hl.
  assert (Hx0 : x <> 0) by (intros ->; apply (sr_nz _ _ R); rewrite ids_app; apply in_or_app; right; left; reflexivity).
  replace (x =? 0) with false by lia.
  destruct (sreplace_at_spec s done x d rest v R) as (s' & E & R' & Hh).
  unfold sl_replace_at in E. rewrite (sget_node_at_in _ _ _ _ _ R) in E. cbn [bind is_ok] in E.
  destruct (sload (sl_heap s) x) as [n|]; [|discriminate]. cbn [bind] in E |- *.
  destruct (sset_data (sl_heap s) x v) as [h|]; [|discriminate]. cbn [bind] in E |- *.
  inversion E; subst. eauto.
Qed.
Lemma siter_replace_none s it v : si_current it = 0 -> siter_replace s it v = Ok (CC_ERR_VALUE_NOT_FOUND, 0, s).
Proof. intros H. unfold siter_replace. rewrite H. reflexivity. Qed.

Lemma nodup_snoc_of_mid done (x d : N) rest : NoDup (ids (done ++ (x, d) :: rest)) -> NoDup (ids (done ++ [(x, d)])).
Proof.
  change (done ++ (x, d) :: rest) with (done ++ [(x, d)] ++ rest). rewrite app_assoc, (ids_app (done ++ [(x, d)])).
  intros H. apply nodup_app in H. tauto.
Qed.

(** remove (directly after the yield, i.e. the yielded node is still the last node of [done]): the yielded node is
    unlinked through the recorded predecessor; afterwards there is no current node, prev is the last node before the
    gap, and next() continues with the old successor. *)
Lemma siter_remove_spec s it done x d rest a F :
  srep s (done ++ (x, d) :: rest) -> slown a s (done ++ (x, d) :: rest) F ->
  sit_pos it (done ++ [(x, d)]) rest -> si_current it = x -> lenN (done ++ [(x, d)]) < W ->
  exists s' it' a', siter_remove s it a = Ok (CC_OK, d, s', it', a') /\ srep s' (done ++ rest) /\ slown a' s' (done ++ rest) F /\
                    sit_pos it' done rest /\ si_current it' = 0 /\ ssame_hdr s s' /\ aframe a a'.
Proof.
  intros R Hown Hp Hl HW.
  assert (Hx0 : x <> 0) by (intros ->; apply (sr_nz _ _ R); rewrite ids_app; apply in_or_app; right; left; reflexivity).
  pose proof (sit_pos_cur _ _ _ _ _ Hx0 (nodup_snoc_of_mid _ _ _ _ (sr_nodup _ _ R)) Hp Hl) as Hpv. destruct Hp as [Hn Hi _].
  unfold siter_remove. rewrite Hl, Hpv.
  replace (x =? 0) with false by lia.
  destruct (sunlinkn_spec s done x d rest a F R Hown) as (s' & a' & E & R' & Hown' & Hh & Hf & _).
  rewrite E. cbn [bind]. do 3 eexists. split; [reflexivity|]. split; [exact R'|]. split; [exact Hown'|].
  split; [|auto]. constructor; cbn [si_next si_index si_current si_prev]; [exact Hn| |left; auto].
  rewrite Hi. rewrite lenN_app, lenN_cons in *. cbn [lenN length N.of_nat] in *. rewrite swsub1 by lia. lia.
Qed.
Lemma siter_remove_none s it a : si_current it = 0 -> siter_remove s it a = Ok (CC_ERR_VALUE_NOT_FOUND, 0, s, it, a).
Proof. intros H. unfold siter_remove. rewrite H. reflexivity. Qed.

(** With duplicate-free ids a node occurs at one position only. *)
Lemma mid_split_unique (D : list (N * N)) : forall D' A A' x d d',
  NoDup (ids (D ++ (x, d) :: A)) -> D ++ (x, d) :: A = D' ++ (x, d') :: A' -> D = D' /\ d = d' /\ A = A'.
Proof.
  induction D as [|p D0 IH]; intros D' A A' x d d' Hnd E.
  - destruct D' as [|p' D'']; cbn [app] in E.
    + inversion E; auto.
    + exfalso. inversion E; subst. cbn [app ids map fst] in Hnd. apply NoDup_cons_iff in Hnd. destruct Hnd as [Hx _].
      apply Hx. change (map fst (D'' ++ (x, d') :: A')) with (ids (D'' ++ (x, d') :: A')). rewrite ids_app. apply in_or_app. right. left. reflexivity.
  - destruct D' as [|p' D'']; cbn [app] in E.
    + exfalso. inversion E; subst. cbn [app ids map fst] in Hnd. apply NoDup_cons_iff in Hnd. destruct Hnd as [Hx _].
      apply Hx. change (map fst (D0 ++ (x, d) :: A)) with (ids (D0 ++ (x, d) :: A)). rewrite ids_app. apply in_or_app. right. left. reflexivity.
    + inversion E; subst. cbn [app ids map fst] in Hnd. apply NoDup_cons_iff in Hnd. destruct Hnd as [_ Hnd].
      destruct (IH D'' A A' x d d' Hnd H1) as (-> & -> & ->). auto.
Qed.

(** add, after a yield of [x] and any number of earlier adds [Added] behind it: the new node is linked DIRECTLY behind the
    yielded one (in front of what was added before), next() continues with the old successor; current and prev are not
    touched, so replace / remove keep acting on the yielded element (documented semantics), and the next call of next()
    steps prev over all added nodes. The new node becomes the tail exactly when nothing follows it.
    ([Added = []] is the position directly after the yield: [D ++ [(x, d)]].) *)
Lemma siter_add_spec s it D x d Added rest a F v :
  srep s (D ++ (x, d) :: Added ++ rest) -> slown a s (D ++ (x, d) :: Added ++ rest) F ->
  sit_pos it (D ++ (x, d) :: Added) rest -> si_current it = x ->
  match alloc (sl_mem s) SNODE_BYTES a with
  | (Some id, a1) => exists s' it', siter_add s it v a = Ok (CC_OK, s', it', a1) /\
        srep s' (D ++ (x, d) :: (id, v) :: Added ++ rest) /\ slown a1 s' (D ++ (x, d) :: (id, v) :: Added ++ rest) F /\
        sit_pos it' (D ++ (x, d) :: (id, v) :: Added) rest /\ si_current it' = x /\ si_prev it' = si_prev it /\ ssame_hdr s s' /\ aframe a a1
  | (None, a1) => siter_add s it v a = Ok (CC_ERR_ALLOC, s, it, a1) /\ slown a1 s (D ++ (x, d) :: Added ++ rest) F /\ live a1 = live a /\
                  aframe a a1 /\ (plan a <> [] \/ limit a < SNODE_BYTES)
  end.
Proof.
  intros R [Hk Ho] Hp Hl. unfold siter_add. set (rest0 := Added ++ rest) in *.
  destruct (alloc (sl_mem s) SNODE_BYTES a) as [[id|] a1] eqn:E.
  2:{ destruct (alloc_none _ _ _ _ E Hk) as (Hl1 & Hk1 & Hf & Hw). split; [reflexivity|].
      split; [split; [assumption|unfold sowns; rewrite Hl1; exact Ho]|auto]. }
  destruct (alloc_some _ _ _ _ _ E Hk) as (_ & Hl1 & Hk1 & Hf & Hid0 & Hfr).
  destruct (sfresh_facts _ _ _ _ _ (conj Hk Ho) Hfr) as [Hni Hnh].
  destruct (nodup_mid _ _ _ _ (sr_nodup _ _ R)) as (Hnd1 & Hnd2 & Hx1 & Hx2 & Hdis & _).
  pose proof (sr_nz _ _ R) as Hnz.
  assert (Hx0 : x <> 0) by (intros ->; apply Hnz; rewrite ids_app; apply in_or_app; right; left; reflexivity).
  (* the predecessor recorded in the iterator *)
  assert (Hpv : si_prev it = last_id D 0).
  { destruct Hp as [_ _ [[Hc _]|(D' & d' & A' & Ed & Hpv)]]; [congruence|]. rewrite Hl in Ed.
    assert (HndD : NoDup (ids (D ++ (x, d) :: Added))).
    { pose proof (sr_nodup _ _ R) as H. unfold rest0 in H.
      change (D ++ (x, d) :: Added ++ rest) with (D ++ ((x, d) :: Added) ++ rest) in H. rewrite app_assoc, ids_app in H.
      apply nodup_app in H. tauto. }
    destruct (mid_split_unique _ _ _ _ _ _ _ HndD Ed) as (-> & _ & _). exact Hpv. }
  destruct Hp as [Hn Hi _].
  assert (Hxid : x <> id) by (intros ->; apply Hni; rewrite ids_app; apply in_or_app; right; left; reflexivity).
  assert (Hni1 : ~ In id (ids D)) by (intros H0; apply Hni; rewrite ids_app; apply in_or_app; left; exact H0).
  assert (Hni2 : ~ In id (ids rest0)) by (intros H0; apply Hni; rewrite ids_app; apply in_or_app; right; right; exact H0).
  rewrite Hl.
  pose proof (sseg_mid _ _ _ _ _ _ (sr_seg _ _ R)) as Hx.
  rewrite (sload_ok _ _ _ Hx0 Hx). cbn [bind sn_next].
  set (h0 := shset (sl_heap s) id {| sn_data := v; sn_next := first_id rest0 0 |}).
  assert (Hx0' : shget h0 x = Some {| sn_data := d; sn_next := first_id rest0 0 |}).
  { unfold h0. rewrite shget_shset_other by congruence. exact Hx. }
  rewrite (sset_next_ok _ _ _ id Hx0 Hx0'). cbn [bind sn_data].
  set (h1 := shset h0 x _).
  pose proof (sr_seg _ _ R) as Hs. apply sseg_app in Hs. cbn [sseg first_id] in Hs. destruct Hs as (Hs1 & _ & Hs2).
  do 2 eexists. split; [reflexivity|].
  assert (Hperm : Permutation (ids (D ++ (x, d) :: (id, v) :: rest0)) (id :: ids (D ++ (x, d) :: rest0))).
  { rewrite !ids_app. cbn [ids map fst].
    change (ids D ++ x :: id :: map fst rest0) with (ids D ++ [x] ++ id :: map fst rest0). rewrite app_assoc.
    eapply Permutation_trans; [apply Permutation_sym, Permutation_middle|]. rewrite <- app_assoc. reflexivity. }
  assert (Hnz2 : ~ In 0 (ids rest0)) by (intros H0; apply Hnz; rewrite ids_app; apply in_or_app; right; right; exact H0).
  split; [|split; [split; [assumption|eapply sowns_insert; eauto]|]].
  - constructor; cbn [supd sl_heap sl_head sl_tail sl_size sl_hdr].
    + eapply Permutation_NoDup; [apply Permutation_sym, Hperm|]. constructor; [exact Hni|apply R].
    + intros H0. eapply Permutation_in in H0; [|exact Hperm]. destruct H0 as [H0|H0]; [congruence|exact (Hnz H0)].
    + apply sseg_app. cbn [sseg first_id]. split; [|split; [|split]].
      * eapply sseg_ext; [|exact Hs1]. intros y Hy. unfold h1, h0.
        rewrite !shget_shset_other; [reflexivity| |]; intros ->; contradiction.
      * unfold h1. apply shget_shset_same.
      * unfold h1. rewrite shget_shset_other by congruence. unfold h0. apply shget_shset_same.
      * eapply sseg_ext; [|exact Hs2]. intros y Hy. unfold h1, h0.
        rewrite !shget_shset_other; [reflexivity| |]; intros ->; contradiction.
    + rewrite (sr_head _ _ R), !first_id_app. reflexivity.
    + rewrite !last_id_app. cbn [last_id]. rewrite (first_nz_b rest0 Hnz2).
      destruct rest0 as [|[y dy] rt]; [reflexivity|].
      rewrite (sr_tail _ _ R), !last_id_app. reflexivity.
    + rewrite (sr_size _ _ R), !lenN_app, !lenN_cons. lia.
    + intros y Hy. unfold h1, h0 in Hy.
      eapply Permutation_in; [apply Permutation_sym, Hperm|].
      destruct (N.eq_dec id y) as [<-|Hne2]; [left; reflexivity|]. right.
      destruct (N.eq_dec x y) as [<-|Hne3]; [rewrite ids_app; apply in_or_app; right; left; reflexivity|].
      rewrite !shget_shset_other in Hy by assumption. apply (sr_dom _ _ R). exact Hy.
    + apply (sr_hdr _ _ R).
  - split; [|auto 6]. constructor; cbn [si_next si_index si_current si_prev]; [exact Hn| |].
    + rewrite Hi, !lenN_app, !lenN_cons. lia.
    + right. exists D, d, ((id, v) :: Added). split; [reflexivity|exact Hpv].
Qed.

(* ------------------------------------------------------------------------------------------ zip iterator *)
Record szip_pos (z : sziter) (done1 rest1 done2 rest2 : list (N * N)) : Prop := {
  szp_next1 : sz1_next z = first_id rest1 0;
  szp_next2 : sz2_next z = first_id rest2 0;
  szp_index1 : sz_index z = lenN done1;
  szp_index2 : sz_index z = lenN done2;
  szp_cur1 : scur_ok (sz1_current z) (sz1_prev z) done1;
  szp_cur2 : scur_ok (sz2_current z) (sz2_prev z) done2;
}.

Lemma szip_init_pos s1 l1 s2 l2 : srep s1 l1 -> srep s2 l2 -> szip_pos (szip_init s1 s2) [] l1 [] l2.
Proof. intros R1 R2. constructor; cbn; try reflexivity; [apply R1|apply R2|left; auto|left; auto]. Qed.

Lemma szip_next_end s1 s2 z done1 rest1 done2 rest2 :
  szip_pos z done1 rest1 done2 rest2 -> rest1 = [] \/ rest2 = [] ->
  szip_next s1 s2 z = Ok (CC_ITER_END, 0, 0, z).
Proof.
  intros [H1 H2 _ _ _ _] He. unfold szip_next. rewrite H1, H2. destruct He as [-> | ->]; cbn [first_id N.eqb orb]; [reflexivity|].
  rewrite orb_true_r. reflexivity.
Qed.

Lemma szip_next_yield s1 s2 z done1 x1 d1 t1 done2 x2 d2 t2 :
  srep s1 (done1 ++ (x1, d1) :: t1) -> srep s2 (done2 ++ (x2, d2) :: t2) ->
  szip_pos z done1 ((x1, d1) :: t1) done2 ((x2, d2) :: t2) ->
  exists z', szip_next s1 s2 z = Ok (CC_OK, d1, d2, z') /\ szip_pos z' (done1 ++ [(x1, d1)]) t1 (done2 ++ [(x2, d2)]) t2 /\
             sz1_current z' = x1 /\ sz2_current z' = x2 /\ sz1_prev z' = last_id done1 0 /\ sz2_prev z' = last_id done2 0.
Proof.
  intros R1 R2 [H1 H2 H3 H4 H5 H6]. unfold szip_next. rewrite H1, H2. cbn [first_id].
  assert (Hx1 : x1 <> 0) by (intros ->; apply (sr_nz _ _ R1); rewrite ids_app; apply in_or_app; right; left; reflexivity).
  assert (Hx2 : x2 <> 0) by (intros ->; apply (sr_nz _ _ R2); rewrite ids_app; apply in_or_app; right; left; reflexivity).
  replace (x1 =? 0) with false by lia. replace (x2 =? 0) with false by lia. cbn [orb].
  rewrite (sload_ok _ _ _ Hx1 (sseg_mid _ _ _ _ _ _ (sr_seg _ _ R1))), (sload_ok _ _ _ Hx2 (sseg_mid _ _ _ _ _ _ (sr_seg _ _ R2))).
  cbn [bind sn_data sn_next].
  rewrite (sprev_of_spec s1 done1 x1 d1 t1 _ _ R1 H5), (sprev_of_spec s2 done2 x2 d2 t2 _ _ R2 H6). cbn [bind].
  eexists. split; [reflexivity|]. split; [|auto].
  constructor; cbn [sz1_next sz2_next sz_index sz1_current sz2_current sz1_prev sz2_prev]; try reflexivity; try apply scur_ok_yield.
  - rewrite H3, lenN_app. reflexivity.
  - rewrite H4, lenN_app. reflexivity.
Qed.

Fixpoint szip_drain (k : nat) (s1 s2 : slist) (z : sziter) : res (list (N * N) * stat) :=
  match k with
  | O => Ok ([], CC_OK)
  | S k' => do (st, v1, v2, z') <- szip_next s1 s2 z;
            if is_ok st then do (r, st') <- szip_drain k' s1 s2 z'; Ok ((v1, v2) :: r, st') else Ok ([], st)
  end.

Lemma szip_drain_spec s1 s2 : forall rest1 rest2 done1 done2 z,
  srep s1 (done1 ++ rest1) -> srep s2 (done2 ++ rest2) -> szip_pos z done1 rest1 done2 rest2 ->
  szip_drain (S (Nat.min (length rest1) (length rest2))) s1 s2 z = Ok (combine (map snd rest1) (map snd rest2), CC_ITER_END).
Proof.
  induction rest1 as [|[x1 d1] t1 IH]; intros rest2 done1 done2 z R1 R2 Hp.
  - cbn [length Nat.min szip_drain]. rewrite (szip_next_end s1 s2 z _ _ _ _ Hp) by auto. reflexivity.
  - destruct rest2 as [|[x2 d2] t2].
    + cbn [length Nat.min szip_drain]. rewrite (szip_next_end s1 s2 z _ _ _ _ Hp) by auto. reflexivity.
    + cbn [length Nat.min].
      change (szip_drain (S (S (Nat.min (length t1) (length t2)))) s1 s2 z) with
        (do (st, v1, v2, z') <- szip_next s1 s2 z;
         if is_ok st then do (r, st') <- szip_drain (S (Nat.min (length t1) (length t2))) s1 s2 z'; Ok ((v1, v2) :: r, st') else Ok ([], st)).
      destruct (szip_next_yield s1 s2 z done1 x1 d1 t1 done2 x2 d2 t2 R1 R2 Hp) as (z' & E & Hp' & _). rewrite E. cbn [bind is_ok].
      change (done1 ++ (x1, d1) :: t1) with (done1 ++ [(x1, d1)] ++ t1) in R1. rewrite app_assoc in R1.
      change (done2 ++ (x2, d2) :: t2) with (done2 ++ [(x2, d2)] ++ t2) in R2. rewrite app_assoc in R2.
      rewrite (IH t2 _ _ z' R1 R2 Hp'). reflexivity.
Qed.

(** The zip iterator walks both lists in lockstep and stops at the shorter one. *)
Theorem szip_fresh_complete s1 l1 s2 l2 : srep s1 l1 -> srep s2 l2 ->
  szip_drain (S (Nat.min (length l1) (length l2))) s1 s2 (szip_init s1 s2) = Ok (combine (map snd l1) (map snd l2), CC_ITER_END).
Proof. intros R1 R2. apply (szip_drain_spec s1 s2 l1 l2 [] []); try assumption. apply szip_init_pos; assumption. Qed.
