(** Singly linked list: bulk operations (add_all, add_all_at, splice, splice_at) and reverse. *)
From Coq Require Import Permutation.
From CC Require Import Base.Prelude Base.ListMem Base.Alloc Base.AllocProofs.
From CC Require Import Generated.Status Generated.Guards List_.ListModel List_.ListHeap List_.ListProofs1 List_.ListProofs2 List_.ListProofs3.
From CC Require Import SList.SListModel SList.SListHeap SList.SListProofs1.
Local Open Scope N_scope.

(* ------------------------------------------------------------------------------------------ the copy chain *)
Definition snblks (mem : tag) (l : list (N * N)) : list block := map (snblk mem) (rev (ids l)).

Lemma snblks_ids mem l : map b_id (snblks mem l) = rev (ids l).
Proof. unfold snblks. rewrite map_map. cbn [snblk b_id]. apply map_id. Qed.

Lemma sfree_chain_spec mem nl : forall fuel hx a L0,
  sseg hx nl 0 -> NoDup (ids nl) -> ~ In 0 (ids nl) -> live a = snblks mem nl ++ L0 -> lok a -> (length nl <= fuel)%nat ->
  exists a', sfree_chain fuel hx (first_id nl 0) mem a = Ok a' /\ live a' = L0 /\ lok a' /\ aframe a a' /\ plan a' = plan a.
Proof.
  induction nl as [|[x d] t IH]; intros fuel hx a L0 Hs Hnd Hnz Hl Hk Hf.
  - exists a. cbn [first_id]. destruct fuel; cbn [sfree_chain N.eqb]; auto 10 using aframe_refl.
  - destruct fuel as [|f]; [cbn in Hf; lia|]. cbn [sfree_chain first_id].
    destruct (nz_tail _ _ _ Hnz) as [Hx0 Hnz']. replace (x =? 0) with false by lia.
    destruct Hs as [Hx Ht]. rewrite (sload_ok _ _ _ Hx0 Hx). cbn [bind sn_next].
    cbn [ids map fst] in Hnd. apply NoDup_cons_iff in Hnd. destruct Hnd as [Hxt Hnd'].
    unfold snblks in Hl. cbn [ids map fst rev] in Hl. rewrite map_app in Hl. cbn [map] in Hl. rewrite <- app_assoc in Hl. cbn [app] in Hl.
    destruct (release_split mem x a _ SNODE_BYTES L0 Hl) as (a1 & E1 & Hl1 & Hk1 & Hf1 & _ & Hp1); [|assumption|].
    { change (map (snblk mem) (rev (map fst t))) with (snblks mem t). rewrite snblks_ids. rewrite <- in_rev. exact Hxt. }
    rewrite E1. cbn [bind].
    destruct (IH f (shdel hx x) a1 L0) as (a2 & E2 & Hl2 & Hk2 & Hf2 & Hp2); try assumption.
    + eapply sseg_ext; [|exact Ht]. intros y Hy. apply shget_shdel_other. intros ->; contradiction.
    + cbn in Hf; lia.
    + rewrite E2. exists a2. split; [reflexivity|]. split; [assumption|]. split; [assumption|].
      split; [eapply aframe_trans; eassumption|congruence].
Qed.

(** The state of the copy loop: [nl] has been built in [hx]. *)
Record schain_ok (mem : tag) (hx : sheap) (nl : list (N * N)) (a : alloc_st) (L0 : list block) : Prop := {
  sck_seg : sseg hx nl 0;
  sck_nodup : NoDup (ids nl);
  sck_nz : ~ In 0 (ids nl);
  sck_dom : forall y, shget hx y <> None -> In y (ids nl);
  sck_live : live a = snblks mem nl ++ L0;
  sck_lok : lok a;
}.

Lemma slae_loop_spec mem src rest : forall fuel nl hx a L0,
  sseg src rest 0 -> ~ In 0 (ids rest) -> schain_ok mem hx nl a L0 -> (length nl + length rest = fuel)%nat ->
  exists r a', slae_loop (length rest) fuel src mem (first_id rest 0) (first_id nl 0) (last_id nl 0) hx a = Ok (r, a') /\
    aframe a a' /\
    match r with
    | Some (hd, tl, hx') => exists cp, map snd cp = map snd rest /\ length cp = length rest /\
        hd = first_id (nl ++ cp) 0 /\ tl = last_id (nl ++ cp) 0 /\ schain_ok mem hx' (nl ++ cp) a' L0
    | None => live a' = L0 /\ lok a' /\ (plan a <> [] \/ limit a < SNODE_BYTES)
    end.
Proof.
  induction rest as [|[x d] t IH]; intros fuel nl hx a L0 Hsrc Hnzr Hc Hfu.
  - cbn [length slae_loop]. eexists _, a. split; [reflexivity|]. split; [apply aframe_refl|].
    exists []. rewrite app_nil_r. auto.
  - cbn [length slae_loop first_id].
    destruct (nz_tail _ _ _ Hnzr) as [Hx0 Hnzr']. destruct Hsrc as [Hx Ht].
    destruct Hc as [Hs Hnd Hnz Hdom Hl Hk].
    destruct (alloc mem SNODE_BYTES a) as [[id|] a1] eqn:E.
    + destruct (alloc_some _ _ _ _ _ E Hk) as (_ & Hl1 & Hk1 & Hf1 & Hid0 & Hfr).
      assert (Hni : ~ In id (ids nl)).
      { intros Hin. apply Hfr. rewrite Hl, map_app, snblks_ids. apply in_or_app. left. apply -> in_rev. exact Hin. }
      rewrite (sload_ok _ _ _ Hx0 Hx). cbn [bind sn_data sn_next].
      assert (Hnone : shget hx id = None).
      { destruct (shget hx id) eqn:Eg; [|reflexivity]. exfalso. apply Hni, Hdom. congruence. }
      set (hx0 := shset hx id (sfresh d)).
      assert (Hstep : exists hx1,
        (if first_id nl 0 =? 0 then Ok hx0 else sset_next hx0 (last_id nl 0) id) = Ok hx1 /\
        sseg hx1 (nl ++ [(id, d)]) 0 /\ (forall y, shget hx1 y <> None -> In y (ids (nl ++ [(id, d)])))).
      { destruct (first_id nl 0 =? 0) eqn:Eh.
        - assert (nl = []) by (apply first_id_nil_iff; [assumption|lia]). subst nl.
          exists hx0. split; [reflexivity|]. cbn [app sseg first_id ids map fst]. split.
          + split; [|exact I]. unfold hx0. rewrite shget_shset_same. reflexivity.
          + intros y Hy. unfold hx0 in Hy. rewrite shget_shset in Hy. destruct (id =? y) eqn:Ey; [left; lia|].
            exfalso. apply Hdom in Hy. destruct Hy.
        - assert (Hne : nl <> []) by (intros ->; cbn in Eh; discriminate).
          assert (Hs0 : sseg hx0 nl 0).
          { eapply sseg_ext; [|exact Hs]. intros y Hy. unfold hx0. apply shget_shset_other. intros ->; contradiction. }
          destruct (sset_next_last hx0 nl 0 id Hne Hnd Hnz Hs0) as (h1 & E1 & Hs1 & Hfr1 & Hdom1).
          rewrite E1.
          assert (Htid : last_id nl 0 <> id) by (intros E2; apply Hni; rewrite <- E2; apply last_id_in; assumption).
          assert (H1id : shget h1 id = Some (sfresh d)) by (rewrite Hfr1 by congruence; unfold hx0; apply shget_shset_same).
          eexists; split; [reflexivity|]. split.
          + apply sseg_app. cbn [first_id sseg]. split; [exact Hs1|]. split; [exact H1id|exact I].
          + intros y Hy. rewrite ids_app. apply in_or_app. apply Hdom1 in Hy. unfold hx0 in Hy. rewrite shget_shset in Hy.
            destruct (id =? y) eqn:Ey; [right; cbn; lia|]. left. apply Hdom. exact Hy. }
      destruct Hstep as (hx1 & Est & Hs1 & Hdom1). rewrite Est. cbn [bind].
      assert (Hc1 : schain_ok mem hx1 (nl ++ [(id, d)]) a1 L0).
      { constructor; try assumption.
        - rewrite ids_app. apply nodup_app. split; [assumption|]. split; [constructor; [intros []|constructor]|].
          intros y Hy [<-|[]]. contradiction.
        - rewrite ids_app. intros H0. apply in_app_or in H0. destruct H0 as [H0|[H0|[]]]; [contradiction|]. cbn in H0; congruence.
        - rewrite Hl1, Hl. unfold snblks. rewrite ids_app, rev_app_distr. cbn [ids map fst rev app]. reflexivity. }
      assert (Hfi : first_id (nl ++ [(id, d)]) 0 = (if first_id nl 0 =? 0 then id else first_id nl 0)).
      { rewrite first_id_app. cbn [first_id]. destruct nl as [|[y dy] nl']; [reflexivity|]. cbn [first_id].
        replace (y =? 0) with false; [reflexivity|]. symmetry. apply N.eqb_neq. intros ->. apply Hnz. left; reflexivity. }
      destruct (IH fuel (nl ++ [(id, d)]) hx1 a1 L0 Ht Hnzr' Hc1) as (r & a2 & E2 & Hf2 & Hr).
      { rewrite app_length. cbn [length] in *. lia. }
      rewrite Hfi, last_id_snoc in E2.
      rewrite E2. exists r, a2. split; [reflexivity|]. split; [eapply aframe_trans; eassumption|].
      destruct r as [[[hd tl] hx']|].
      * destruct Hr as (cp & Hcp & Hlen & Hhd & Htl & Hc2). exists ((id, d) :: cp).
        cbn [map snd length]. rewrite Hcp, Hlen. split; [reflexivity|]. split; [reflexivity|].
        change (nl ++ (id, d) :: cp) with (nl ++ [(id, d)] ++ cp). rewrite app_assoc. auto.
      * destruct Hr as (Hl2 & Hk2 & Hw). split; [assumption|]. split; [assumption|].
        destruct Hw as [Hw|Hw]; [left; intros Hp; apply Hw, (af_plan _ _ Hf1), Hp|right; rewrite (af_limit _ _ Hf1) in Hw; exact Hw].
    + destruct (alloc_none _ _ _ _ E Hk) as (Hl1 & Hk1 & Hf1 & Hw).
      destruct (sfree_chain_spec mem nl fuel hx a1 L0 Hs Hnd Hnz ltac:(congruence) Hk1 ltac:(lia)) as (a2 & E2 & Hl2 & Hk2 & Hf2 & _).
      rewrite E2. cbn [bind]. exists None, a2. split; [reflexivity|]. split; [eapply aframe_trans; eassumption|]. auto.
Qed.

Lemma schain_ok_nil mem a : lok a -> schain_ok mem [] [] a (live a).
Proof.
  intros Hk. constructor; cbn; auto; try constructor; try (intros y Hy; congruence).
Qed.

(** The chain is requested from (and on failure given back to) the DESTINATION's allocator family. *)
Lemma slink_all_externally_spec s1 s2 l2 a :
  srep s2 l2 -> lok a ->
  exists r a', sl_link_all_externally s1 s2 a = Ok (r, a') /\ aframe a a' /\
    match r with
    | Some (hd, tl, hx) => exists cp, map snd cp = map snd l2 /\ length cp = length l2 /\
        hd = first_id cp 0 /\ tl = last_id cp 0 /\ schain_ok (sl_mem s1) hx cp a' (live a)
    | None => live a' = live a /\ lok a' /\ (plan a <> [] \/ limit a < SNODE_BYTES)
    end.
Proof.
  intros R Hk. unfold sl_link_all_externally. rewrite (sr_size _ _ R), lenN_length, (sr_head _ _ R).
  exact (slae_loop_spec (sl_mem s1) (sl_heap s2) l2 (length l2) [] [] a (live a) (sr_seg _ _ R) (sr_nz _ _ R)
           (schain_ok_nil _ _ Hk) eq_refl).
Qed.

(* ------------------------------------------------------------------------------------------ joining two segments *)
(** last(A)->next = first(M) *)
Lemma slink_two h A nA M nM :
  A <> [] -> M <> [] -> NoDup (ids (A ++ M)) -> ~ In 0 (ids (A ++ M)) -> sseg h A nA -> sseg h M nM ->
  exists h', sset_next h (last_id A 0) (first_id M 0) = Ok h' /\
             sseg h' (A ++ M) nM /\ sdom_eq h h' /\ (forall j, ~ In j (ids A) -> shget h' j = shget h j).
Proof.
  intros HA HM Hnd Hnz HsA HsM.
  destruct (nodup_app_ids _ _ Hnd) as (HndA & HndM & Hdis). destruct (nz_app _ _ Hnz) as [HnzA HnzM].
  pose proof (last_id_in A 0 HA) as HlA.
  destruct (sset_next_last h A nA (first_id M 0) HA HndA HnzA HsA) as (h1 & E1 & Hs1 & Hfr1 & Hd1).
  exists h1. split; [exact E1|]. split; [|split; [exact Hd1|]].
  - apply sseg_app. split.
    + rewrite (first_id_d_irrel M nM 0 HM). exact Hs1.
    + eapply sseg_frame; [exact Hfr1| |exact HsM]. intros Hin; exact (Hdis _ HlA Hin).
  - intros j Hj. apply Hfr1. intros ->. contradiction.
Qed.

(** Inserting the chain [M] between [A] and [B = (b, db) :: B'] (index < size, so [B] is never empty). *)
Lemma sattach_spec h A M b db B' :
  M <> [] -> NoDup (ids (A ++ M ++ (b, db) :: B')) -> ~ In 0 (ids (A ++ M ++ (b, db) :: B')) ->
  sseg h (A ++ (b, db) :: B') 0 -> sseg h M 0 ->
  exists h', (if last_id A 0 =? 0 then sset_next h (last_id M 0) b
              else do h1 <- sset_next h (last_id A 0) (first_id M 0); sset_next h1 (last_id M 0) b) = Ok h' /\
             sseg h' (A ++ M ++ (b, db) :: B') 0 /\ sdom_eq h h'.
Proof.
  intros HM Hnd Hnz HsAB HsM. set (B := (b, db) :: B') in *.
  assert (HB : B <> []) by discriminate.
  destruct (attach_facts A M B Hnd Hnz) as (HndAM & HndMB & HnzAM & HnzMB & HdisB & HnzA & HnzB & Hnd3).
  rewrite (last_nz_b A HnzA).
  change b with (first_id B 0).
  destruct A as [|pa ta].
  - cbn [app] in *.
    destruct (slink_two h M 0 B 0 HM HB HndMB HnzMB HsM HsAB) as (h' & E & Hs & Hd & _).
    exists h'. auto.
  - set (A0 := pa :: ta) in *. assert (HA : A0 <> []) by discriminate.
    apply sseg_app in HsAB. destruct HsAB as [HsA HsB].
    destruct (slink_two h A0 (first_id B 0) M 0 HA HM HndAM HnzAM HsA HsM) as (h1 & E1 & Hs1 & Hd1 & Hfr1).
    rewrite E1. cbn [bind].
    assert (HsB1 : sseg h1 B 0).
    { eapply sseg_ext; [|exact HsB]. intros y Hy. apply Hfr1. intros Hin. apply (HdisB y Hy). rewrite ids_app. apply in_or_app. left; exact Hin. }
    assert (HAM : A0 ++ M <> []) by (intros E0; apply app_eq_nil in E0; tauto).
    destruct (slink_two h1 (A0 ++ M) 0 B 0 HAM HB Hnd3 ltac:(rewrite <- app_assoc; exact Hnz) Hs1 HsB1) as (h2 & E2 & Hs2 & Hd2 & _).
    rewrite last_id_app, (last_id_d_irrel M _ 0 HM) in E2.
    exists h2. split; [exact E2|]. split; [rewrite <- app_assoc in Hs2; exact Hs2|eapply sdom_eq_trans; eassumption].
Qed.

(* ------------------------------------------------------------------------------------------ union heaps, ledger *)
Lemma sunion_heap hx h1 cp l1 :
  sseg hx cp 0 -> (forall y, shget hx y <> None -> In y (ids cp)) -> sseg h1 l1 0 ->
  (forall y, In y (ids l1) -> ~ In y (ids cp)) ->
  sseg (hx ++ h1) cp 0 /\ sseg (hx ++ h1) l1 0 /\
  (forall y, shget (hx ++ h1) y <> None -> In y (ids cp) \/ shget h1 y <> None).
Proof.
  intros Hc Hdom H1 Hdis. split; [|split].
  - eapply sseg_ext; [|exact Hc]. intros y Hy. rewrite shget_app.
    destruct (sseg_in _ _ _ _ Hc Hy) as [nd ->]. reflexivity.
  - eapply sseg_ext; [|exact H1]. intros y Hy. rewrite shget_app.
    destruct (shget hx y) eqn:E; [|reflexivity]. exfalso. apply (Hdis y Hy), Hdom. congruence.
  - intros y Hy. rewrite shget_app in Hy. destruct (shget hx y) eqn:E; [left; apply Hdom; congruence|right; exact Hy].
Qed.

Lemma sowns_insert_many a a' s s' l l' F cp :
  sowns a s l F -> live a' = snblks (sl_mem s) cp ++ live a -> ssame_hdr s s' -> Permutation (ids l') (ids cp ++ ids l) ->
  sowns a' s' l' F.
Proof.
  unfold sowns. intros Ho Hl Hs Hp. rewrite (sblocks_same _ _ _ Hs), Hl. unfold sblocks, snblks in *.
  eapply Permutation_trans; [apply Permutation_app_head; exact Ho|]. cbn [app].
  eapply Permutation_trans; [apply Permutation_sym, Permutation_middle|]. apply perm_skip.
  rewrite app_assoc. apply Permutation_app_tail. rewrite <- map_app. apply Permutation_map.
  eapply Permutation_trans; [|apply Permutation_sym; exact Hp]. apply Permutation_app_tail, Permutation_sym, Permutation_rev.
Qed.

(** The ids of a freshly built chain are disjoint from everything that was live before. *)
Lemma schain_fresh mem hx cp a' L0 y : schain_ok mem hx cp a' L0 -> In y (ids cp) -> ~ In y (map b_id L0).
Proof.
  intros C Hy Hin. pose proof (proj1 (proj1 (sck_lok _ _ _ _ _ C))) as Hnd.
  rewrite (sck_live _ _ _ _ _ C), map_app, snblks_ids in Hnd. apply nodup_app in Hnd. destruct Hnd as (_ & _ & Hd).
  apply (Hd y); [apply -> in_rev; exact Hy|exact Hin].
Qed.
Lemma sowns_ids_live a s l F y : sowns a s l F -> In y (ids l) -> In y (map b_id (live a)).
Proof.
  intros Ho Hy. eapply Permutation_in; [apply Permutation_map, Permutation_sym, Ho|].
  rewrite map_app, sblocks_ids. apply in_or_app. left. right. exact Hy.
Qed.

Lemma nodup3 A M B :
  NoDup (ids (A ++ B)) -> NoDup (ids M) -> (forall y, In y (ids (A ++ B)) -> ~ In y (ids M)) -> NoDup (ids (A ++ M ++ B)).
Proof.
  intros HndAB HndM Hdis. rewrite !ids_app in *. apply nodup_app in HndAB. destruct HndAB as (HA & HB & HdAB).
  apply nodup_app. split; [exact HA|]. split; [apply nodup_app; split; [exact HndM|split; [exact HB|]]|].
  - intros y Hy Hin. apply (Hdis y); [apply in_or_app; right; exact Hin|exact Hy].
  - intros y Hy Hin. apply in_app_or in Hin. destruct Hin as [Hin|Hin]; [|exact (HdAB _ Hy Hin)].
    apply (Hdis y); [apply in_or_app; left; exact Hy|exact Hin].
Qed.

(* ------------------------------------------------------------------------------------------ add_all / add_all_at *)
(** Outcome of a bulk copy into position [lenN A] of the list [A ++ B]. *)
Definition sbulk_ok (s1 : slist) (A B l2 : list (N * N)) (a : alloc_st) (F : list block) (st : stat) (s1' : slist) (a' : alloc_st) : Prop :=
  aframe a a' /\ ssame_hdr s1 s1' /\
  ((st = CC_OK /\ exists cp, map snd cp = map snd l2 /\ srep s1' (A ++ cp ++ B) /\ slown a' s1' (A ++ cp ++ B) F) \/
   (st = CC_ERR_ALLOC /\ s1' = s1 /\ live a' = live a /\ lok a' /\ (plan a <> [] \/ limit a < SNODE_BYTES))).

(** Facts shared by the two copy operations once the chain [cp] exists. *)
Lemma scopy_facts s1 l1 mem (l2 : list (N * N)) a F hx (cp : list (N * N)) a1 :
  srep s1 l1 -> l2 <> [] -> slown a s1 l1 F ->
  map snd cp = map snd l2 -> length cp = length l2 -> schain_ok mem hx cp a1 (live a) ->
  cp <> [] /\ (forall y, In y (ids l1) -> ~ In y (ids cp)) /\
  sseg (hx ++ sl_heap s1) cp 0 /\ sseg (hx ++ sl_heap s1) l1 0 /\
  (forall y, shget (hx ++ sl_heap s1) y <> None -> In y (ids cp) \/ In y (ids l1)).
Proof.
  intros R Hl2 [Hk Ho] Hcp Hlen C.
  assert (Hcpne : cp <> []) by (intros ->; destruct l2; [congruence|discriminate]).
  assert (Hdis : forall y, In y (ids l1) -> ~ In y (ids cp)).
  { intros y Hy Hin. eapply schain_fresh; [exact C|exact Hin|]. eapply sowns_ids_live; eassumption. }
  destruct (sunion_heap hx (sl_heap s1) cp l1 (sck_seg _ _ _ _ _ C) (sck_dom _ _ _ _ _ C) (sr_seg _ _ R) Hdis) as (Hsc & Hs1 & Hdom).
  split; [exact Hcpne|]. split; [exact Hdis|]. split; [exact Hsc|]. split; [exact Hs1|].
  intros y Hy. apply Hdom in Hy. destruct Hy as [Hy|Hy]; [left; exact Hy|right; apply (sr_dom _ _ R); exact Hy].
Qed.

Lemma sadd_all_spec s1 l1 s2 l2 a F :
  srep s1 l1 -> srep s2 l2 -> slown a s1 l1 F -> l2 <> [] ->
  exists st s1' a', sl_add_all s1 s2 a = Ok (st, s1', a') /\ sbulk_ok s1 l1 [] l2 a F st s1' a'.
Proof.
  intros R1 R2 Hown Hl2. unfold sl_add_all. rewrite (srep_size_ne _ _ R2 Hl2).
  destruct Hown as [Hk Ho].
  destruct (slink_all_externally_spec s1 s2 l2 a R2 Hk) as (r & a1 & E & Hf & Hr). rewrite E. cbn [bind].
  destruct r as [[[hd tl] hx]|].
  2:{ destruct Hr as (Hl & Hk1 & Hw). do 3 eexists. split; [reflexivity|]. split; [assumption|]. split; [auto|]. right. auto. }
  destruct Hr as (cp & Hcp & Hlen & -> & -> & C).
  destruct (scopy_facts s1 l1 (sl_mem s1) l2 a F hx cp a1 R1 Hl2 (conj Hk Ho) Hcp Hlen C) as (Hcpne & Hdis & Hsc & Hs1 & Hdom).
  assert (Hnd3 : NoDup (ids (l1 ++ cp))).
  { pose proof (nodup3 l1 cp [] ltac:(rewrite app_nil_r; apply R1) (sck_nodup _ _ _ _ _ C) ltac:(rewrite app_nil_r; exact Hdis)) as H.
    rewrite app_nil_r in H. exact H. }
  assert (Hnz3 : ~ In 0 (ids (l1 ++ cp))).
  { pose proof (sr_nz _ _ R1) as H0. pose proof (sck_nz _ _ _ _ _ C) as H1. rewrite !ids_app, !in_app_iff in *. tauto. }
  assert (Hsz : sl_size s1 + sl_size s2 = lenN (l1 ++ cp)).
  { rewrite (sr_size _ _ R1), (sr_size _ _ R2), lenN_app. unfold lenN. rewrite Hlen. reflexivity. }
  assert (Hown' : forall s', ssame_hdr s1 s' -> slown a1 s' (l1 ++ cp ++ []) F).
  { intros s' Hs'. split; [apply C|]. eapply sowns_insert_many; [exact Ho| |exact Hs'|].
    - apply C.
    - rewrite app_nil_r, ids_app. apply Permutation_app_comm. }
  destruct (sl_size s1 =? 0) eqn:Ez.
  - pose proof (srep_nil_size _ _ R1 Ez) as ->. cbn [app] in *.
    do 3 eexists. split; [reflexivity|]. split; [assumption|]. split; [apply ssame_hdr_supd|]. left. split; [reflexivity|].
    exists cp. split; [assumption|]. split; [|apply Hown'; apply ssame_hdr_supd]. rewrite app_nil_r.
    constructor; cbn [supd sl_heap sl_head sl_tail sl_size sl_hdr]; try apply C; try reflexivity; try assumption.
    + intros y Hy. apply Hdom in Hy. destruct Hy as [Hy|[]]. exact Hy.
    + apply R1.
  - pose proof (srep_size_pos _ _ R1 Ez) as Hne.
    rewrite (sr_tail _ _ R1).
    destruct (slink_two (hx ++ sl_heap s1) l1 0 cp 0 Hne Hcpne Hnd3 Hnz3 Hs1 Hsc) as (h' & E2 & Hs' & Hd' & _).
    rewrite E2. cbn [bind].
    do 3 eexists. split; [reflexivity|]. split; [assumption|]. split; [apply ssame_hdr_supd|]. left. split; [reflexivity|].
    exists cp. split; [assumption|]. split; [|apply Hown'; apply ssame_hdr_supd]. rewrite app_nil_r.
    constructor; cbn [supd sl_heap sl_head sl_tail sl_size sl_hdr]; try assumption.
    + rewrite (sr_head _ _ R1), first_id_app. apply first_id_d_irrel. assumption.
    + rewrite last_id_app. apply last_id_d_irrel. assumption.
    + intros y Hy. apply Hd', Hdom in Hy. rewrite ids_app, in_app_iff. tauto.
    + apply R1.
Qed.
Lemma sadd_all_empty_src s1 s2 a : srep s2 [] -> sl_add_all s1 s2 a = Ok (CC_OK, s1, a).
Proof. intros R. unfold sl_add_all. rewrite (sr_size _ _ R). reflexivity. Qed.

Lemma sadd_all_at_spec s1 A b db B' s2 l2 a F :
  srep s1 (A ++ (b, db) :: B') -> srep s2 l2 -> slown a s1 (A ++ (b, db) :: B') F -> l2 <> [] ->
  exists st s1' a', sl_add_all_at s1 s2 (lenN A) a = Ok (st, s1', a') /\ sbulk_ok s1 A ((b, db) :: B') l2 a F st s1' a'.
Proof.
  intros R1 R2 Hown Hl2. unfold sl_add_all_at. rewrite (srep_size_ne _ _ R2 Hl2).
  rewrite (sget_node_at_in _ _ _ _ _ R1). cbn [bind is_ok negb].
  destruct Hown as [Hk Ho].
  destruct (slink_all_externally_spec s1 s2 l2 a R2 Hk) as (r & a1 & E & Hf & Hr). rewrite E. cbn [bind].
  destruct r as [[[hd tl] hx]|].
  2:{ destruct Hr as (Hl & Hk1 & Hw). do 3 eexists. split; [reflexivity|]. split; [assumption|]. split; [auto|]. right. auto. }
  destruct Hr as (cp & Hcp & Hlen & -> & -> & C).
  set (B := (b, db) :: B') in *.
  destruct (scopy_facts s1 (A ++ B) (sl_mem s1) l2 a F hx cp a1 R1 Hl2 (conj Hk Ho) Hcp Hlen C) as (Hcpne & Hdis & Hsc & Hs1 & Hdom).
  pose proof (nodup3 A cp B (sr_nodup _ _ R1) (sck_nodup _ _ _ _ _ C) Hdis) as Hnd3.
  assert (Hnz3 : ~ In 0 (ids (A ++ cp ++ B))).
  { pose proof (sr_nz _ _ R1) as H0. pose proof (sck_nz _ _ _ _ _ C) as H1. rewrite !ids_app, !in_app_iff in *. tauto. }
  assert (HnzA : ~ In 0 (ids A)) by (rewrite !ids_app, !in_app_iff in Hnz3; tauto).
  assert (Hsz : sl_size s1 + sl_size s2 = lenN (A ++ cp ++ B)).
  { rewrite (sr_size _ _ R1), (sr_size _ _ R2), !lenN_app. unfold lenN. rewrite Hlen. lia. }
  assert (Hown' : forall s', ssame_hdr s1 s' -> slown a1 s' (A ++ cp ++ B) F).
  { intros s' Hs'. split; [apply C|]. eapply sowns_insert_many; [exact Ho| |exact Hs'|].
    - apply C.
    - rewrite !ids_app. rewrite app_assoc. eapply Permutation_trans; [apply Permutation_app_tail, Permutation_app_comm|].
      rewrite <- app_assoc. reflexivity. }
  destruct (sattach_spec (hx ++ sl_heap s1) A cp b db B' Hcpne Hnd3 Hnz3 Hs1 Hsc) as (h' & E2 & Hs' & Hd').
  assert (Hdom' : forall y, shget h' y <> None -> In y (ids (A ++ cp ++ B))).
  { intros y Hy. apply Hd', Hdom in Hy. rewrite !ids_app, !in_app_iff in *. tauto. }
  rewrite (last_nz_b A HnzA) in E2 |- *.
  destruct A as [|pa ta].
  - rewrite E2. cbn [bind].
    do 3 eexists. split; [reflexivity|]. split; [assumption|]. split; [apply ssame_hdr_supd|]. left. split; [reflexivity|].
    exists cp. split; [assumption|]. split; [|apply Hown'; apply ssame_hdr_supd].
    constructor; cbn [supd sl_heap sl_head sl_tail sl_size sl_hdr]; try assumption.
    + cbn [app]. rewrite first_id_app. apply first_id_d_irrel. assumption.
    + rewrite (sr_tail _ _ R1). cbn [app]. rewrite last_id_app. reflexivity.
    + apply R1.
  - destruct (sset_next (hx ++ sl_heap s1) (last_id (pa :: ta) 0) (first_id cp 0)) as [h1|]; cbn [bind] in E2 |- *; [|discriminate].
    rewrite E2. cbn [bind].
    do 3 eexists. split; [reflexivity|]. split; [assumption|]. split; [apply ssame_hdr_supd|]. left. split; [reflexivity|].
    exists cp. split; [assumption|]. split; [|apply Hown'; apply ssame_hdr_supd].
    constructor; cbn [supd sl_heap sl_head sl_tail sl_size sl_hdr]; try assumption.
    + rewrite (sr_head _ _ R1). reflexivity.
    + rewrite (sr_tail _ _ R1), !last_id_app. reflexivity.
    + apply R1.
Qed.
Lemma sadd_all_at_empty_src s1 s2 a i : srep s2 [] -> sl_add_all_at s1 s2 i a = Ok (CC_OK, s1, a).
Proof. intros R. unfold sl_add_all_at. rewrite (sr_size _ _ R). reflexivity. Qed.
Lemma sadd_all_at_out s1 l1 s2 l2 a i :
  srep s1 l1 -> srep s2 l2 -> l2 <> [] -> lenN l1 <= i -> sl_add_all_at s1 s2 i a = Ok (CC_ERR_OUT_OF_RANGE, s1, a).
Proof.
  intros R1 R2 Hl2 Hi. unfold sl_add_all_at. rewrite (srep_size_ne _ _ R2 Hl2), (sget_node_at_out _ _ _ R1 Hi). reflexivity.
Qed.

(* ------------------------------------------------------------------------------------------ splice *)
Lemma srep_emptied s l : srep s l -> srep (semptied s) [].
Proof.
  intros R. constructor; cbn; auto; try constructor; try (intros y Hy; congruence). apply R.
Qed.

Lemma ssplice_spec s1 l1 s2 l2 :
  srep s1 l1 -> srep s2 l2 -> l2 <> [] -> (forall y, In y (ids l1) -> ~ In y (ids l2)) ->
  exists s1', sl_splice s1 s2 = Ok (CC_OK, s1', semptied s2) /\ srep s1' (l1 ++ l2) /\ ssame_hdr s1 s1'.
Proof.
  intros R1 R2 Hl2 Hdis. unfold sl_splice. rewrite (srep_size_ne _ _ R2 Hl2).
  destruct (sunion_heap (sl_heap s2) (sl_heap s1) l2 l1 (sr_seg _ _ R2) (sr_dom _ _ R2) (sr_seg _ _ R1) Hdis) as (Hs2 & Hs1 & Hdom).
  assert (Hnd3 : NoDup (ids (l1 ++ l2))).
  { pose proof (nodup3 l1 l2 [] ltac:(rewrite app_nil_r; apply R1) (sr_nodup _ _ R2) ltac:(rewrite app_nil_r; exact Hdis)) as H.
    rewrite app_nil_r in H. exact H. }
  assert (Hnz3 : ~ In 0 (ids (l1 ++ l2))).
  { pose proof (sr_nz _ _ R1) as H0. pose proof (sr_nz _ _ R2) as H1. rewrite !ids_app, !in_app_iff in *. tauto. }
  assert (Hsz : sl_size s1 + sl_size s2 = lenN (l1 ++ l2)) by (rewrite (sr_size _ _ R1), (sr_size _ _ R2), lenN_app; reflexivity).
  destruct (sl_size s1 =? 0) eqn:Ez.
  - pose proof (srep_nil_size _ _ R1 Ez) as ->. cbn [app] in *.
    eexists. split; [reflexivity|]. split; [|apply ssame_hdr_supd].
    constructor; cbn [supd sl_heap sl_head sl_tail sl_size sl_hdr]; try apply R2; try assumption.
    + intros y Hy. apply Hdom in Hy. destruct Hy as [Hy|Hy]; [exact Hy|]. apply (sr_dom _ _ R1) in Hy. destruct Hy.
    + apply R1.
  - pose proof (srep_size_pos _ _ R1 Ez) as Hne.
    rewrite (sr_tail _ _ R1), (sr_head _ _ R2).
    destruct (slink_two (sl_heap s2 ++ sl_heap s1) l1 0 l2 0 Hne Hl2 Hnd3 Hnz3 Hs1 Hs2) as (h' & E2 & Hs' & Hd' & _).
    rewrite E2. cbn [bind]. eexists. split; [reflexivity|]. split; [|apply ssame_hdr_supd].
    constructor; cbn [supd sl_heap sl_head sl_tail sl_size sl_hdr]; try assumption.
    + rewrite (sr_head _ _ R1), first_id_app. apply first_id_d_irrel. assumption.
    + rewrite (sr_tail _ _ R2), last_id_app. apply last_id_d_irrel. assumption.
    + intros y Hy. apply Hd', Hdom in Hy. rewrite ids_app, in_app_iff. destruct Hy as [Hy|Hy]; [tauto|].
      left. apply (sr_dom _ _ R1). exact Hy.
    + apply R1.
Qed.
Lemma ssplice_empty_src s1 s2 : srep s2 [] -> sl_splice s1 s2 = Ok (CC_OK, s1, s2).
Proof. intros R. unfold sl_splice. rewrite (sr_size _ _ R). reflexivity. Qed.

Lemma ssplice_at_spec s1 A b db B' s2 l2 :
  srep s1 (A ++ (b, db) :: B') -> srep s2 l2 -> l2 <> [] -> (forall y, In y (ids (A ++ (b, db) :: B')) -> ~ In y (ids l2)) ->
  exists s1', sl_splice_at s1 s2 (lenN A) = Ok (CC_OK, s1', semptied s2) /\ srep s1' (A ++ l2 ++ (b, db) :: B') /\ ssame_hdr s1 s1'.
Proof.
  intros R1 R2 Hl2 Hdis. unfold sl_splice_at, g_slist_splice_at_range. rewrite (srep_size_ne _ _ R2 Hl2).
  pose proof (sr_size _ _ R1) as Hsz1. rewrite lenN_app, lenN_cons in Hsz1.
  replace (sl_size s1 <=? lenN A) with false by lia.
  rewrite (sget_node_at_in _ _ _ _ _ R1). cbn [bind is_ok negb].
  set (B := (b, db) :: B') in *.
  destruct (sunion_heap (sl_heap s2) (sl_heap s1) l2 (A ++ B) (sr_seg _ _ R2) (sr_dom _ _ R2) (sr_seg _ _ R1) Hdis) as (Hs2 & Hs1 & Hdom).
  pose proof (nodup3 A l2 B (sr_nodup _ _ R1) (sr_nodup _ _ R2) Hdis) as Hnd3.
  assert (Hnz3 : ~ In 0 (ids (A ++ l2 ++ B))).
  { pose proof (sr_nz _ _ R1) as H0. pose proof (sr_nz _ _ R2) as H1. rewrite !ids_app, !in_app_iff in *. tauto. }
  assert (HnzA : ~ In 0 (ids A)) by (rewrite !ids_app, !in_app_iff in Hnz3; tauto).
  assert (Hsz : sl_size s1 + sl_size s2 = lenN (A ++ l2 ++ B)).
  { rewrite (sr_size _ _ R1), (sr_size _ _ R2), !lenN_app. lia. }
  destruct (sattach_spec (sl_heap s2 ++ sl_heap s1) A l2 b db B' Hl2 Hnd3 Hnz3 Hs1 Hs2) as (h' & E2 & Hs' & Hd').
  assert (Hdom' : forall y, shget h' y <> None -> In y (ids (A ++ l2 ++ B))).
  { intros y Hy. apply Hd', Hdom in Hy. destruct Hy as [Hy|Hy]; [rewrite !ids_app, !in_app_iff; tauto|].
    apply (sr_dom _ _ R1) in Hy. rewrite !ids_app, !in_app_iff in *. tauto. }
  unfold sl_splice_between. rewrite (sr_tail _ _ R2), (sr_head _ _ R2).
  rewrite (last_nz_b A HnzA) in E2 |- *.
  destruct A as [|pa ta].
  - rewrite (sr_head _ _ R1). unfold B at 1. cbn [app first_id]. cbn [app] in E2. rewrite E2. cbn [bind].
    eexists. split; [reflexivity|]. split; [|apply ssame_hdr_supd].
    constructor; cbn [supd sl_heap sl_head sl_tail sl_size sl_hdr]; try assumption.
    + rewrite first_id_app. apply first_id_d_irrel. assumption.
    + rewrite (sr_tail _ _ R1). cbn [app]. rewrite last_id_app. reflexivity.
    + apply R1.
  - replace (b =? 0) with false.
    2:{ symmetry. apply N.eqb_neq. intros ->. apply Hnz3. rewrite !ids_app, !in_app_iff. right; right. left; reflexivity. }
    destruct (sset_next (sl_heap s2 ++ sl_heap s1) (last_id (pa :: ta) 0) (first_id l2 0)) as [h1|]; cbn [bind] in E2 |- *; [|discriminate].
    rewrite E2. cbn [bind].
    eexists. split; [reflexivity|]. split; [|apply ssame_hdr_supd].
    constructor; cbn [supd sl_heap sl_head sl_tail sl_size sl_hdr]; try assumption.
    + rewrite (sr_head _ _ R1). reflexivity.
    + rewrite (sr_tail _ _ R1), !last_id_app. reflexivity.
    + apply R1.
Qed.
Lemma ssplice_at_empty_src s1 s2 i : srep s2 [] -> sl_splice_at s1 s2 i = Ok (CC_OK, s1, s2).
Proof. intros R. unfold sl_splice_at. rewrite (sr_size _ _ R). reflexivity. Qed.
Lemma ssplice_at_out s1 l1 s2 l2 i :
  srep s1 l1 -> srep s2 l2 -> l2 <> [] -> lenN l1 <= i -> sl_splice_at s1 s2 i = Ok (CC_ERR_OUT_OF_RANGE, s1, s2).
Proof.
  intros R1 R2 Hl2 Hi. unfold sl_splice_at, g_slist_splice_at_range. rewrite (srep_size_ne _ _ R2 Hl2), (sr_size _ _ R1).
  replace (lenN l1 <=? i) with true by lia. reflexivity.
Qed.

(* ------------------------------------------------------------------------------------------ reverse *)
(** The pointer-flipping loop: [P] is already flipped (reached from [prev]), [R] is still to do (reached from [flip]). *)
Lemma srev_loop_spec R : forall fuel h P,
  NoDup (ids (P ++ R)) -> ~ In 0 (ids (P ++ R)) -> sseg h (rev P) 0 -> sseg h R 0 -> (length R < fuel)%nat ->
  exists h', srev_loop fuel h (last_id P 0) (first_id R 0) = Ok (last_id (P ++ R) 0, h') /\
             sseg h' (rev (P ++ R)) 0 /\ sdom_eq h h'.
Proof.
  induction R as [|[x d] t IH]; intros fuel h P Hnd Hnz HsP HsR Hf.
  - rewrite app_nil_r. cbn [first_id]. exists h. destruct fuel; cbn [srev_loop N.eqb]; auto using sdom_eq_refl.
  - destruct fuel as [|f]; [cbn in Hf; lia|]. cbn [srev_loop first_id].
    destruct (nodup_mid _ _ _ _ Hnd) as (_ & _ & HxP & Hxt & _ & _).
    assert (Hx0 : x <> 0) by (intros ->; apply Hnz; rewrite ids_app; apply in_or_app; right; left; reflexivity).
    replace (x =? 0) with false by lia.
    destruct HsR as [Hx Ht]. rewrite (sload_ok _ _ _ Hx0 Hx), (sset_next_ok _ _ _ _ Hx0 Hx). cbn [bind sn_next sn_data].
    set (h1 := shset h x _).
    change (P ++ (x, d) :: t) with (P ++ [(x, d)] ++ t) in *. rewrite app_assoc in *.
    destruct (IH f h1 (P ++ [(x, d)]) Hnd Hnz) as (h' & E & Hs' & Hd').
    + rewrite rev_app_distr. cbn [rev app sseg]. split.
      * unfold h1. rewrite shget_shset_same, first_id_rev. reflexivity.
      * eapply sseg_ext; [|exact HsP]. intros y Hy. unfold h1. apply shget_shset_other. intros ->.
        apply HxP. unfold ids in *. rewrite map_rev in Hy. apply in_rev in Hy. exact Hy.
    + eapply sseg_ext; [|exact Ht]. intros y Hy. unfold h1. apply shget_shset_other. intros ->; contradiction.
    + cbn in Hf; lia.
    + rewrite last_id_snoc in E. exists h'. split; [exact E|]. split; [exact Hs'|].
      eapply sdom_eq_trans; [|exact Hd']. eapply sdom_eq_shset. exact Hx.
Qed.

Lemma sreverse_spec s l : srep s l -> exists s', sl_reverse s = Ok s' /\ srep s' (rev l) /\ ssame_hdr s s'.
Proof.
  intros R. unfold sl_reverse, g_slist_reverse_trivial.
  destruct ((sl_size s =? 0) || (sl_size s =? 1)) eqn:Et.
  - exists s. split; [reflexivity|]. split; [|auto]. rewrite rev_small; [exact R|].
    pose proof (sr_size _ _ R) as Hs. unfold lenN in Hs. lia.
  - rewrite (sr_head _ _ R).
    destruct (srev_loop_spec l (sfuel_of s) (sl_heap s) []) as (h' & E & Hs' & Hd').
    + apply R.
    + apply R.
    + exact I.
    + apply R.
    + apply (sfuel_of_gt _ _ R).
    + cbn [last_id app] in E, Hs'. rewrite E. cbn [bind]. eexists. split; [reflexivity|]. split; [|apply ssame_hdr_supd].
      assert (Hp : Permutation (ids (rev l)) (ids l)).
      { unfold ids. rewrite map_rev. apply Permutation_sym, Permutation_rev. }
      constructor; cbn [supd sl_heap sl_head sl_tail sl_size sl_hdr].
      * eapply Permutation_NoDup; [apply Permutation_sym, Hp|apply R].
      * intros H0. apply (sr_nz _ _ R). eapply Permutation_in; [exact Hp|exact H0].
      * exact Hs'.
      * symmetry. apply first_id_rev.
      * symmetry. apply last_id_rev.
      * rewrite (sr_size _ _ R). unfold lenN. rewrite rev_length. reflexivity.
      * intros z Hz. apply Hd' in Hz. apply (sr_dom _ _ R) in Hz. eapply Permutation_in; [apply Permutation_sym, Hp|exact Hz].
      * apply R.
Qed.
