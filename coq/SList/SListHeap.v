(** Heap, segment and ledger toolkit for the singly linked list proofs.
    Everything that does not mention the node type (id sequences, [aframe], [lok], the allocator lemmas) is
    reused from List_/ListHeap.v. *)
From Coq Require Import Permutation.
From CC Require Import Base.Prelude Base.ListMem Base.Alloc Base.AllocProofs.
From CC Require Import Generated.Status Generated.Guards List_.ListModel List_.ListHeap SList.SListModel.
Local Open Scope N_scope.

(* ------------------------------------------------------------------------------------------ heap *)
Lemma shget_shdel h i j : shget (shdel h i) j = if i =? j then None else shget h j.
Proof.
  induction h as [|[k n] t IH]; cbn [shdel shget].
  - destruct (i =? j); reflexivity.
  - destruct (k =? i) eqn:E1.
    + rewrite IH. destruct (i =? j) eqn:E2; [reflexivity|].
      replace (k =? j) with false by lia. reflexivity.
    + cbn [shget]. rewrite IH. destruct (k =? j) eqn:E3; [|reflexivity].
      replace (i =? j) with false by lia. reflexivity.
Qed.
Lemma shget_shset h i n j : shget (shset h i n) j = if i =? j then Some n else shget h j.
Proof.
  unfold shset. cbn [shget]. destruct (i =? j) eqn:E; [reflexivity|].
  rewrite shget_shdel, E. reflexivity.
Qed.
Lemma shget_shset_same h i n : shget (shset h i n) i = Some n.
Proof. rewrite shget_shset, N.eqb_refl. reflexivity. Qed.
Lemma shget_shset_other h i n j : i <> j -> shget (shset h i n) j = shget h j.
Proof. intros H. rewrite shget_shset. replace (i =? j) with false by lia. reflexivity. Qed.
Lemma shget_shdel_same h i : shget (shdel h i) i = None.
Proof. rewrite shget_shdel, N.eqb_refl. reflexivity. Qed.
Lemma shget_shdel_other h i j : i <> j -> shget (shdel h i) j = shget h j.
Proof. intros H. rewrite shget_shdel. replace (i =? j) with false by lia. reflexivity. Qed.
Lemma shget_app h1 h2 j : shget (h1 ++ h2) j = match shget h1 j with Some n => Some n | None => shget h2 j end.
Proof.
  induction h1 as [|[k n] t IH]; cbn [app shget]; [reflexivity|].
  destruct (k =? j); [reflexivity|apply IH].
Qed.

Lemma sload_ok h i n : i <> 0 -> shget h i = Some n -> sload h i = Ok n.
Proof. intros Hi Hg. unfold sload. replace (i =? 0) with false by lia. rewrite Hg. reflexivity. Qed.
Lemma sload_inv h i n : sload h i = Ok n -> i <> 0 /\ shget h i = Some n.
Proof.
  unfold sload. destruct (i =? 0) eqn:E; [discriminate|].
  destruct (shget h i); cbn; [intros H; inversion H; subst; split; [lia|reflexivity] | discriminate].
Qed.

Lemma sset_next_ok h i n v : i <> 0 -> shget h i = Some n ->
  sset_next h i v = Ok (shset h i {| sn_data := sn_data n; sn_next := v |}).
Proof. intros Hi Hg. unfold sset_next. rewrite (sload_ok _ _ _ Hi Hg). reflexivity. Qed.
Lemma sset_data_ok h i n v : i <> 0 -> shget h i = Some n ->
  sset_data h i v = Ok (shset h i {| sn_data := v; sn_next := sn_next n |}).
Proof. intros Hi Hg. unfold sset_data. rewrite (sload_ok _ _ _ Hi Hg). reflexivity. Qed.

Definition sdom_eq (h h' : sheap) : Prop := forall j, shget h' j <> None <-> shget h j <> None.
Lemma sdom_eq_refl h : sdom_eq h h. Proof. intros j; tauto. Qed.
Lemma sdom_eq_trans h1 h2 h3 : sdom_eq h1 h2 -> sdom_eq h2 h3 -> sdom_eq h1 h3.
Proof. intros A B j. specialize (A j). specialize (B j). tauto. Qed.
Lemma sdom_eq_shset h i n nd : shget h i = Some nd -> sdom_eq h (shset h i n).
Proof.
  intros Hi j. rewrite shget_shset. destruct (i =? j) eqn:E; [|tauto].
  assert (i = j) by lia; subst j. rewrite Hi. split; discriminate.
Qed.

(* ------------------------------------------------------------------------------------------ segments *)
(** [sseg h l n]: the nodes of [l] are linked in this order through [next]; the last one's next is [n]. *)
Fixpoint sseg (h : sheap) (l : list (N * N)) (n : N) : Prop :=
  match l with
  | [] => True
  | (x, d) :: t => shget h x = Some {| sn_data := d; sn_next := first_id t n |} /\ sseg h t n
  end.

Lemma sseg_app h l1 l2 n : sseg h (l1 ++ l2) n <-> sseg h l1 (first_id l2 n) /\ sseg h l2 n.
Proof.
  induction l1 as [|[x d] t IH]; cbn [app sseg].
  - tauto.
  - rewrite IH, first_id_app. tauto.
Qed.

Lemma sseg_ext h h' l n : (forall x, In x (ids l) -> shget h' x = shget h x) -> sseg h l n -> sseg h' l n.
Proof.
  induction l as [|[x d] t IH]; intros He; cbn [sseg]; [tauto|].
  intros [H1 H2]. split.
  - rewrite He; [assumption|left; reflexivity].
  - apply IH; [|assumption]. intros y Hy; apply He; right; assumption.
Qed.

Lemma sseg_frame h h' k l n :
  (forall j, j <> k -> shget h' j = shget h j) -> ~ In k (ids l) -> sseg h l n -> sseg h' l n.
Proof. intros Hf Hk. apply sseg_ext. intros x Hx. apply Hf. intros ->; contradiction. Qed.

Lemma sseg_in h l n x : sseg h l n -> In x (ids l) -> exists nd, shget h x = Some nd.
Proof.
  induction l as [|[y d] t IH]; cbn [sseg ids map In]; [tauto|].
  intros [H1 H2] [<-|Hin]; [eauto|]. eapply IH; eauto.
Qed.

(** The node in the middle of a segment. *)
Lemma sseg_mid h l1 x d l2 n :
  sseg h (l1 ++ (x, d) :: l2) n -> shget h x = Some {| sn_data := d; sn_next := first_id l2 n |}.
Proof. rewrite sseg_app. cbn [sseg]. tauto. Qed.

(** Changing the boundary link: a guarded write exactly as the C code does it ([if (x) x->next = v]);
    when the segment is empty nothing is written. *)
Lemma scond_set_next_last h l n v :
  NoDup (ids l) -> ~ In 0 (ids l) -> sseg h l n ->
  exists h', (if negb (last_id l 0 =? 0) then sset_next h (last_id l 0) v else Ok h) = Ok h' /\
             sseg h' l v /\ (forall j, j <> last_id l 0 -> shget h' j = shget h j) /\
             (l = [] -> h' = h) /\ sdom_eq h h'.
Proof.
  intros Hnd Hnz Hs.
  destruct (list_eq_dec (fun a b : N * N => ltac:(decide equality; apply N.eq_dec)) l []) as [->|Hne].
  - exists h. cbn. intuition. apply sdom_eq_refl.
  - assert (Hl : last_id l 0 <> 0) by (rewrite last_id_nil_iff; assumption).
    replace (last_id l 0 =? 0) with false by lia. cbn [negb].
    destruct (exists_last Hne) as (l0 & [x d] & ->).
    rewrite last_id_snoc in *.
    pose proof (sseg_mid h l0 x d [] n Hs) as Hx. cbn [first_id] in Hx.
    rewrite (sset_next_ok _ _ _ _ Hl Hx). cbn [sn_data].
    eexists; split; [reflexivity|]. split; [|split; [|split]].
    + apply sseg_app in Hs. destruct Hs as [H1 H2]. apply sseg_app. cbn [first_id sseg] in *. split; [|split; [|exact I]].
      * eapply sseg_ext; [|exact H1]. intros y Hy. apply shget_shset_other.
        intros ->. rewrite ids_app in Hnd. apply NoDup_remove_2 in Hnd. apply Hnd. rewrite app_nil_r. exact Hy.
      * apply shget_shset_same.
    + intros j Hj. apply shget_shset_other. congruence.
    + intros E. destruct l0; discriminate.
    + eapply sdom_eq_shset. exact Hx.
Qed.

Lemma sset_next_last h l n v :
  l <> [] -> NoDup (ids l) -> ~ In 0 (ids l) -> sseg h l n ->
  exists h', sset_next h (last_id l 0) v = Ok h' /\ sseg h' l v /\
             (forall j, j <> last_id l 0 -> shget h' j = shget h j) /\ sdom_eq h h'.
Proof.
  intros Hne Hnd Hnz Hs. destruct (scond_set_next_last h l n v Hnd Hnz Hs) as (h' & E & H1 & H2 & _ & H4).
  assert (Hl : last_id l 0 <> 0) by (rewrite last_id_nil_iff; assumption).
  replace (last_id l 0 =? 0) with false in E by lia. cbn [negb] in E. eauto.
Qed.

Lemma sseg_last h l n : l <> [] -> sseg h l n -> exists d, shget h (last_id l 0) = Some {| sn_data := d; sn_next := n |}.
Proof.
  intros Hne Hs. destruct (exists_last Hne) as (l0 & [x d] & ->). rewrite last_id_snoc.
  exists d. exact (sseg_mid h l0 x d [] n Hs).
Qed.

(** Walking: [k] steps forward, remembering the predecessor. *)
Lemma swalk_seg h l1 l2 n pv :
  ~ In 0 (ids l1) -> sseg h (l1 ++ l2) n ->
  swalk h (first_id (l1 ++ l2) n) pv (length l1) = Ok (first_id l2 n, last_id l1 pv).
Proof.
  revert pv; induction l1 as [|[x d] t IH]; intros pv Hnz Hs; cbn [app length swalk last_id]; [reflexivity|].
  cbn [app sseg first_id] in *. destruct Hs as [Hx Ht].
  assert (Hx0 : x <> 0) by (intros ->; apply Hnz; left; reflexivity).
  rewrite (sload_ok _ _ _ Hx0 Hx). cbn [bind sn_next].
  eapply IH; [|exact Ht]. intros H0; apply Hnz; right; exact H0.
Qed.

(** Total traversal used by the abstraction. *)
Lemma schain_next_seg h l n : sseg h l n -> schain_next (length l) h (first_id l n) = l.
Proof.
  induction l as [|[x d] t IH]; cbn [length schain_next sseg first_id]; [reflexivity|].
  intros [Hx Ht]. rewrite Hx. cbn [sn_data sn_next]. f_equal. apply IH; exact Ht.
Qed.

(* ------------------------------------------------------------------------------------------ representation *)
Record srep (s : slist) (l : list (N * N)) : Prop := {
  sr_nodup : NoDup (ids l);
  sr_nz : ~ In 0 (ids l);
  sr_seg : sseg (sl_heap s) l 0;
  sr_head : sl_head s = first_id l 0;
  sr_tail : sl_tail s = last_id l 0;
  sr_size : sl_size s = lenN l;
  sr_dom : forall x, shget (sl_heap s) x <> None -> In x (ids l);
  sr_hdr : sl_hdr s <> 0;
}.

Lemma srep_chain s l : srep s l -> sl_chain s = l.
Proof.
  intros R. unfold sl_chain. rewrite (sr_size _ _ R), (sr_head _ _ R), lenN_length.
  apply schain_next_seg. exact (sr_seg _ _ R).
Qed.
Lemma srep_abs s l : srep s l -> sl_abs s = map snd l.
Proof. intros R. unfold sl_abs. rewrite (srep_chain _ _ R). reflexivity. Qed.

Lemma srep_hget s l x : srep s l -> In x (ids l) -> x <> 0 /\ exists nd, shget (sl_heap s) x = Some nd.
Proof.
  intros R Hin. split; [intros ->; exact (sr_nz _ _ R Hin)|]. eapply sseg_in; [exact (sr_seg _ _ R)|exact Hin].
Qed.

(** What get_node_at needs (the heap may hold other nodes as well). *)
Record sshape (s : slist) (l : list (N * N)) : Prop := {
  ssh_nz : ~ In 0 (ids l);
  ssh_seg : sseg (sl_heap s) l 0;
  ssh_head : sl_head s = first_id l 0;
  ssh_size : sl_size s = lenN l;
}.
Lemma srep_shape s l : srep s l -> sshape s l.
Proof. intros R. constructor; apply R. Qed.

(* ------------------------------------------------------------------------------------------ ledger *)
Definition snblk (mem : tag) (x : N) : block := {| b_id := x; b_tag := mem; b_bytes := SNODE_BYTES |}.
Definition shblk (s : slist) : block := {| b_id := sl_hdr s; b_tag := sl_mem s; b_bytes := SHDR_BYTES |}.
Definition sblocks (s : slist) (l : list (N * N)) : list block := shblk s :: map (snblk (sl_mem s)) (ids l).

(** Ownership: the ledger is exactly the blocks of this list plus a frame [F] (the other list). *)
Definition sowns (a : alloc_st) (s : slist) (l : list (N * N)) (F : list block) : Prop :=
  Permutation (live a) (sblocks s l ++ F).

Lemma sblocks_ids s l : map b_id (sblocks s l) = sl_hdr s :: ids l.
Proof. unfold sblocks. cbn [map shblk b_id]. rewrite map_map. cbn [snblk b_id]. rewrite map_id. reflexivity. Qed.

Lemma sowns_fresh a s l F id : sowns a s l F -> ~ In id (map b_id (live a)) -> ~ In id (ids l) /\ id <> sl_hdr s.
Proof.
  intros Ho Hni. assert (Hs : forall x, In x (map b_id (sblocks s l ++ F)) -> In x (map b_id (live a))).
  { intros x. apply Permutation_in. apply Permutation_map, Permutation_sym, Ho. }
  split.
  - intros Hin. apply Hni, Hs. rewrite map_app, sblocks_ids. apply in_or_app. left. right. exact Hin.
  - intros ->. apply Hni, Hs. rewrite map_app, sblocks_ids. left. reflexivity.
Qed.
