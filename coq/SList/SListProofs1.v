(** Singly linked list: the core single-element operations on the representation invariant. *)
From Coq Require Import Permutation.
From CC Require Import Base.Prelude Base.ListMem Base.Alloc Base.AllocProofs.
From CC Require Import Generated.Status Generated.Guards List_.ListModel List_.ListHeap List_.ListProofs1.
From CC Require Import SList.SListModel SList.SListHeap.
Local Open Scope N_scope.

Definition ssame_hdr (s s' : slist) : Prop := sl_hdr s' = sl_hdr s /\ sl_mem s' = sl_mem s.
Lemma ssame_hdr_refl s : ssame_hdr s s. Proof. split; reflexivity. Qed.
Lemma ssame_hdr_supd s a b c d : ssame_hdr s (supd s a b c d). Proof. split; reflexivity. Qed.
Lemma ssame_hdr_trans s1 s2 s3 : ssame_hdr s1 s2 -> ssame_hdr s2 s3 -> ssame_hdr s1 s3.
Proof. intros [A B] [C D]. split; congruence. Qed.
Global Hint Resolve ssame_hdr_refl ssame_hdr_supd : core.

Definition slown (a : alloc_st) (s : slist) (l : list (N * N)) (F : list block) : Prop := lok a /\ sowns a s l F.

Lemma sblocks_same s s' l : ssame_hdr s s' -> sblocks s' l = sblocks s l.
Proof. intros [H1 H2]. unfold sblocks, shblk. rewrite H1, H2. reflexivity. Qed.

Lemma sowns_perm a s s' l l' F : sowns a s l F -> ssame_hdr s s' -> Permutation (ids l') (ids l) -> sowns a s' l' F.
Proof.
  unfold sowns. intros Ho Hs Hp. rewrite (sblocks_same _ _ _ Hs). eapply Permutation_trans; [exact Ho|].
  apply Permutation_app_tail. unfold sblocks. constructor. apply Permutation_map, Permutation_sym, Hp.
Qed.

Lemma sowns_insert a a1 s s' l l' F id :
  sowns a s l F -> live a1 = snblk (sl_mem s) id :: live a -> ssame_hdr s s' -> Permutation (ids l') (id :: ids l) ->
  sowns a1 s' l' F.
Proof.
  unfold sowns. intros Ho Hl Hs Hp. rewrite (sblocks_same _ _ _ Hs), Hl. unfold sblocks in *.
  eapply Permutation_trans; [apply perm_skip; exact Ho|]. cbn [app].
  eapply Permutation_trans; [apply perm_swap|]. apply perm_skip.
  change (snblk (sl_mem s) id :: map (snblk (sl_mem s)) (ids l) ++ F) with (map (snblk (sl_mem s)) (id :: ids l) ++ F).
  apply Permutation_app_tail, Permutation_map, Permutation_sym, Hp.
Qed.

Lemma sowns_release a s s' l l' F id :
  lok a -> sowns a s l F -> ssame_hdr s s' -> Permutation (ids l) (id :: ids l') ->
  exists a', release (sl_mem s) id a = Ok a' /\ lok a' /\ sowns a' s' l' F /\ aframe a a' /\ plan a' = plan a.
Proof.
  unfold sowns. intros Hk Ho Hs Hp.
  assert (HP : Permutation (live a) (snblk (sl_mem s) id :: (sblocks s l' ++ F))).
  { eapply Permutation_trans; [exact Ho|]. unfold sblocks. cbn [app].
    eapply Permutation_trans; [|apply perm_swap]. apply perm_skip.
    change (snblk (sl_mem s) id :: map (snblk (sl_mem s)) (ids l') ++ F) with (map (snblk (sl_mem s)) (id :: ids l') ++ F).
    apply Permutation_app_tail, Permutation_map, Hp. }
  destruct (release_perm _ _ _ _ _ HP Hk) as (a' & Hr & Hl & Hk' & Hf & _ & Hpl).
  exists a'. rewrite (sblocks_same _ _ _ Hs). auto.
Qed.

(** Facts about a fresh id. *)
Lemma sfresh_facts a s l F id :
  slown a s l F -> ~ In id (map b_id (live a)) -> ~ In id (ids l) /\ id <> sl_hdr s.
Proof. intros [_ Ho]. apply (sowns_fresh a s l F id Ho). Qed.

Lemma srep_dom_fresh s l id : srep s l -> ~ In id (ids l) -> shget (sl_heap s) id = None.
Proof.
  intros R Hni. destruct (shget (sl_heap s) id) eqn:E; [|reflexivity].
  exfalso. apply Hni, (sr_dom _ _ R). congruence.
Qed.

Lemma srep_nil_size s l : srep s l -> (sl_size s =? 0) = true -> l = [].
Proof.
  intros R H. pose proof (sr_size _ _ R) as Hs. destruct l; [reflexivity|]. rewrite lenN_cons in Hs. lia.
Qed.
Lemma srep_size_pos s l : srep s l -> (sl_size s =? 0) = false -> l <> [].
Proof. intros R H ->. pose proof (sr_size _ _ R) as Hs. cbn in Hs. lia. Qed.
Lemma srep_size_ne s l : srep s l -> l <> [] -> (sl_size s =? 0) = false.
Proof.
  intros R Hl. apply N.eqb_neq. rewrite (sr_size _ _ R). destruct l; [congruence|rewrite lenN_cons; lia].
Qed.

(* ------------------------------------------------------------------------------------------ add_last / add_first *)
Lemma sadd_last_spec s l a F x :
  srep s l -> slown a s l F ->
  match alloc (sl_mem s) SNODE_BYTES a with
  | (Some id, a1) => exists s', sl_add_last s x a = Ok (CC_OK, s', a1) /\ srep s' (l ++ [(id, x)]) /\
                                slown a1 s' (l ++ [(id, x)]) F /\ ssame_hdr s s' /\ aframe a a1
  | (None, a1) => sl_add_last s x a = Ok (CC_ERR_ALLOC, s, a1) /\ slown a1 s l F /\ live a1 = live a /\ aframe a a1 /\
                  (plan a <> [] \/ limit a < SNODE_BYTES)
  end.
Proof.
  intros R [Hk Ho]. unfold sl_add_last.
  destruct (alloc (sl_mem s) SNODE_BYTES a) as [[id|] a1] eqn:E.
  2:{ destruct (alloc_none _ _ _ _ E Hk) as (Hl & Hk1 & Hf & Hw). split; [reflexivity|].
      split; [split; [assumption|unfold sowns; rewrite Hl; exact Ho]|auto]. }
  destruct (alloc_some _ _ _ _ _ E Hk) as (_ & Hl & Hk1 & Hf & Hid0 & Hfr).
  destruct (sfresh_facts _ _ _ _ _ (conj Hk Ho) Hfr) as [Hni Hnh].
  pose proof (srep_dom_fresh _ _ _ R Hni) as Hnone.
  assert (Hown : forall s', ssame_hdr s s' -> slown a1 s' (l ++ [(id, x)]) F).
  { intros s' Hs'. split; [assumption|]. eapply sowns_insert; eauto. rewrite ids_app. cbn [ids map fst].
    apply Permutation_sym, Permutation_cons_append. }
  destruct (sl_size s =? 0) eqn:Esz.
  - (* empty list *)
    pose proof (srep_nil_size _ _ R Esz) as ->. cbn [app] in *.
    eexists; split; [reflexivity|]. split; [|split; [apply Hown|]; auto].
    constructor; cbn [supd sl_heap sl_head sl_tail sl_size sl_hdr ids map fst first_id last_id sseg].
    + constructor; [intros []|constructor].
    + intros [H|[]]. congruence.
    + split; [|exact I]. rewrite shget_shset_same. reflexivity.
    + reflexivity.
    + reflexivity.
    + rewrite (sr_size _ _ R). reflexivity.
    + intros y Hy. rewrite shget_shset in Hy. destruct (id =? y) eqn:Ey; [left; lia|].
      exfalso. apply (sr_dom _ _ R) in Hy. destruct Hy.
    + apply (sr_hdr _ _ R).
  - (* non-empty: link after the tail *)
    pose proof (srep_size_pos _ _ R Esz) as Hne.
    set (h0 := shset (sl_heap s) id (sfresh x)).
    assert (Ht : sl_tail s = last_id l 0) by apply R.
    assert (Htin : In (last_id l 0) (ids l)) by (apply last_id_in; assumption).
    assert (Htid : last_id l 0 <> id) by (intros E2; apply Hni; rewrite <- E2; exact Htin).
    assert (Hs0 : sseg h0 l 0).
    { eapply sseg_ext; [|exact (sr_seg _ _ R)]. intros y Hy. unfold h0.
      rewrite shget_shset_other; [reflexivity|]. intros ->; contradiction. }
    rewrite Ht.
    destruct (sset_next_last h0 l 0 id Hne (sr_nodup _ _ R) (sr_nz _ _ R) Hs0) as (h1 & E1 & Hs1 & Hfr1 & Hdom1).
    rewrite E1. cbn [bind].
    eexists; split; [reflexivity|]. split; [|split; [apply Hown|]; auto].
    constructor; cbn [supd sl_heap sl_head sl_tail sl_size sl_hdr].
    + rewrite ids_app. apply nodup_app. split; [apply R|]. split; [constructor; [intros []|constructor]|].
      intros y Hy [<-|[]]. contradiction.
    + rewrite ids_app. intros H0. apply in_app_or in H0. destruct H0 as [H0|[H0|[]]]; [exact (sr_nz _ _ R H0)|]. cbn in H0. congruence.
    + apply sseg_app. cbn [first_id sseg]. split; [exact Hs1|]. split; [|exact I].
      rewrite Hfr1 by congruence. unfold h0. rewrite shget_shset_same. reflexivity.
    + rewrite first_id_app, (sr_head _ _ R). apply first_id_d_irrel. assumption.
    + rewrite last_id_snoc. reflexivity.
    + rewrite lenN_app, (sr_size _ _ R). reflexivity.
    + intros y Hy. rewrite ids_app. apply in_or_app. apply Hdom1 in Hy. unfold h0 in Hy.
      destruct (N.eq_dec id y) as [<-|Hne2]; [right; left; reflexivity|].
      rewrite shget_shset_other in Hy by assumption. left. apply (sr_dom _ _ R). exact Hy.
    + apply (sr_hdr _ _ R).
Qed.

Lemma sadd_first_spec s l a F x :
  srep s l -> slown a s l F ->
  match alloc (sl_mem s) SNODE_BYTES a with
  | (Some id, a1) => exists s', sl_add_first s x a = Ok (CC_OK, s', a1) /\ srep s' ((id, x) :: l) /\
                                slown a1 s' ((id, x) :: l) F /\ ssame_hdr s s' /\ aframe a a1
  | (None, a1) => sl_add_first s x a = Ok (CC_ERR_ALLOC, s, a1) /\ slown a1 s l F /\ live a1 = live a /\ aframe a a1 /\
                  (plan a <> [] \/ limit a < SNODE_BYTES)
  end.
Proof.
  intros R [Hk Ho]. unfold sl_add_first.
  destruct (alloc (sl_mem s) SNODE_BYTES a) as [[id|] a1] eqn:E.
  2:{ destruct (alloc_none _ _ _ _ E Hk) as (Hl & Hk1 & Hf & Hw). split; [reflexivity|].
      split; [split; [assumption|unfold sowns; rewrite Hl; exact Ho]|auto]. }
  destruct (alloc_some _ _ _ _ _ E Hk) as (_ & Hl & Hk1 & Hf & Hid0 & Hfr).
  destruct (sfresh_facts _ _ _ _ _ (conj Hk Ho) Hfr) as [Hni Hnh].
  pose proof (srep_dom_fresh _ _ _ R Hni) as Hnone.
  assert (Hown : forall s', ssame_hdr s s' -> slown a1 s' ((id, x) :: l) F).
  { intros s' Hs'. split; [assumption|]. eapply sowns_insert; eauto. }
  destruct (sl_size s =? 0) eqn:Esz.
  - pose proof (srep_nil_size _ _ R Esz) as ->.
    eexists; split; [reflexivity|]. split; [|split; [|auto]]; [|apply Hown; auto].
    constructor; cbn [supd sl_heap sl_head sl_tail sl_size sl_hdr ids map fst first_id last_id sseg].
    + constructor; [intros []|constructor].
    + intros [H|[]]. congruence.
    + split; [|exact I]. rewrite shget_shset_same. reflexivity.
    + reflexivity.
    + reflexivity.
    + rewrite (sr_size _ _ R). reflexivity.
    + intros y Hy. rewrite shget_shset in Hy. destruct (id =? y) eqn:Ey; [left; lia|].
      exfalso. apply (sr_dom _ _ R) in Hy. destruct Hy.
    + apply (sr_hdr _ _ R).
  - pose proof (srep_size_pos _ _ R Esz) as Hne.
    set (h0 := shset (sl_heap s) id (sfresh x)).
    assert (Hh : sl_head s = first_id l 0) by apply R.
    rewrite (sset_next_ok h0 id (sfresh x)) by (try assumption; apply shget_shset_same).
    cbn [bind sfresh sn_data sn_next].
    set (h1 := shset h0 id _).
    assert (Hs1 : sseg h1 l 0).
    { eapply sseg_ext; [|exact (sr_seg _ _ R)]. intros y Hy. unfold h1, h0.
      rewrite !shget_shset_other; [reflexivity| |]; intros ->; contradiction. }
    eexists; split; [reflexivity|]. split; [|split; [|auto]]; [|apply Hown; auto].
    constructor; cbn [supd sl_heap sl_head sl_tail sl_size sl_hdr ids map fst first_id last_id sseg].
    + constructor; [exact Hni|apply R].
    + intros [H0|H0]; [congruence|exact (sr_nz _ _ R H0)].
    + split; [|exact Hs1]. unfold h1. rewrite shget_shset_same, Hh. reflexivity.
    + reflexivity.
    + rewrite (sr_tail _ _ R). apply last_id_d_irrel. assumption.
    + rewrite lenN_cons, (sr_size _ _ R). reflexivity.
    + intros y Hy. unfold h1, h0 in Hy.
      destruct (N.eq_dec id y) as [<-|Hne2]; [left; reflexivity|].
      rewrite !shget_shset_other in Hy by assumption. right. apply (sr_dom _ _ R). exact Hy.
    + apply (sr_hdr _ _ R).
Qed.

(* ------------------------------------------------------------------------------------------ get_node_at *)
Lemma sget_node_at_shape s l1 x d l2 :
  sshape s (l1 ++ (x, d) :: l2) -> sl_get_node_at s (lenN l1) = Ok (CC_OK, x, last_id l1 0).
Proof.
  intros R. unfold sl_get_node_at, g_slist_get_node_at_range.
  pose proof (ssh_size _ _ R) as Hsz. rewrite lenN_app, lenN_cons in Hsz.
  replace (sl_size s <=? lenN l1) with false by lia.
  pose proof (ssh_nz _ _ R) as Hnz. rewrite ids_app in Hnz.
  rewrite lenN_length, (ssh_head _ _ R).
  rewrite (swalk_seg _ l1 ((x, d) :: l2) 0 0); [reflexivity| |exact (ssh_seg _ _ R)].
  intros H0; apply Hnz, in_or_app; left; exact H0.
Qed.
Lemma sget_node_at_in s l1 x d l2 :
  srep s (l1 ++ (x, d) :: l2) -> sl_get_node_at s (lenN l1) = Ok (CC_OK, x, last_id l1 0).
Proof. intros R. apply sget_node_at_shape with (d := d) (l2 := l2). apply srep_shape, R. Qed.
Lemma sget_node_at_out s l i : srep s l -> lenN l <= i -> sl_get_node_at s i = Ok (CC_ERR_OUT_OF_RANGE, 0, 0).
Proof.
  intros R Hi. unfold sl_get_node_at, g_slist_get_node_at_range. rewrite (sr_size _ _ R).
  replace (lenN l <=? i) with true by lia. reflexivity.
Qed.

Lemma last_nz_b l : ~ In 0 (ids l) -> (last_id l 0 =? 0) = match l with [] => true | _ => false end.
Proof.
  intros H. destruct l as [|p t]; [reflexivity|]. apply N.eqb_neq. rewrite last_id_nil_iff by assumption. discriminate.
Qed.
Lemma first_nz_b l : ~ In 0 (ids l) -> (first_id l 0 =? 0) = match l with [] => true | _ => false end.
Proof.
  intros H. destruct l as [|[x d] t]; [reflexivity|]. cbn [first_id]. apply N.eqb_neq. intros ->. apply H. left; reflexivity.
Qed.

(* ------------------------------------------------------------------------------------------ add_at *)
Lemma sadd_at_spec s l1 b db l2 a F x :
  srep s (l1 ++ (b, db) :: l2) -> slown a s (l1 ++ (b, db) :: l2) F ->
  match alloc (sl_mem s) SNODE_BYTES a with
  | (Some id, a1) => exists s', sl_add_at s x (lenN l1) a = Ok (CC_OK, s', a1) /\ srep s' (l1 ++ (id, x) :: (b, db) :: l2) /\
                                slown a1 s' (l1 ++ (id, x) :: (b, db) :: l2) F /\ ssame_hdr s s' /\ aframe a a1
  | (None, a1) => sl_add_at s x (lenN l1) a = Ok (CC_ERR_ALLOC, s, a1) /\ slown a1 s (l1 ++ (b, db) :: l2) F /\ live a1 = live a /\
                  aframe a a1 /\ (plan a <> [] \/ limit a < SNODE_BYTES)
  end.
Proof.
  intros R [Hk Ho]. unfold sl_add_at. rewrite (sget_node_at_in _ _ _ _ _ R). cbn [bind is_ok negb].
  destruct (alloc (sl_mem s) SNODE_BYTES a) as [[id|] a1] eqn:E.
  2:{ destruct (alloc_none _ _ _ _ E Hk) as (Hl & Hk1 & Hf & Hw). split; [reflexivity|].
      split; [split; [assumption|unfold sowns; rewrite Hl; exact Ho]|auto]. }
  destruct (alloc_some _ _ _ _ _ E Hk) as (_ & Hl & Hk1 & Hf & Hid0 & Hfr).
  destruct (sfresh_facts _ _ _ _ _ (conj Hk Ho) Hfr) as [Hni Hnh].
  pose proof (srep_dom_fresh _ _ _ R Hni) as Hnone.
  destruct (nodup_mid _ _ _ _ (sr_nodup _ _ R)) as (Hnd1 & Hnd2 & Hb1 & Hb2 & Hdis & _).
  pose proof (sr_nz _ _ R) as Hnz.
  assert (Hb0 : b <> 0) by (intros ->; apply Hnz; rewrite ids_app; apply in_or_app; right; left; reflexivity).
  assert (Hbid : b <> id) by (intros ->; apply Hni; rewrite ids_app; apply in_or_app; right; left; reflexivity).
  assert (Hnz1 : ~ In 0 (ids l1)) by (intros H0; apply Hnz; rewrite ids_app; apply in_or_app; left; exact H0).
  assert (Hni1 : ~ In id (ids l1)) by (intros H0; apply Hni; rewrite ids_app; apply in_or_app; left; exact H0).
  assert (Hni2 : ~ In id (ids l2)) by (intros H0; apply Hni; rewrite ids_app; apply in_or_app; right; right; exact H0).
  set (h0 := shset (sl_heap s) id (sfresh x)).
  assert (Hs0 : sseg h0 (l1 ++ (b, db) :: l2) 0).
  { eapply sseg_ext; [|exact (sr_seg _ _ R)]. intros y Hy. unfold h0. apply shget_shset_other. intros ->; contradiction. }
  pose proof (sseg_mid _ _ _ _ _ _ Hs0) as Hb.
  apply sseg_app in Hs0. cbn [sseg first_id] in Hs0. destruct Hs0 as (Hs1 & _ & Hs2).
  assert (Hperm : Permutation (ids (l1 ++ (id, x) :: (b, db) :: l2)) (id :: ids (l1 ++ (b, db) :: l2))).
  { rewrite !ids_app. cbn [ids map fst]. apply Permutation_sym, Permutation_middle. }
  assert (Hown : forall s', ssame_hdr s s' -> slown a1 s' (l1 ++ (id, x) :: (b, db) :: l2) F).
  { intros s' Hs'. split; [assumption|]. eapply sowns_insert; eauto. }
  rewrite (last_nz_b l1 Hnz1).
  destruct l1 as [|p1 t1].
  - (* insert in front *)
    cbn [app last_id lenN length] in *.
    rewrite (sset_next_ok h0 id (sfresh x)) by (try assumption; apply shget_shset_same).
    cbn [bind sfresh sn_data sn_next].
    eexists; split; [reflexivity|]. split; [|split; [apply Hown|]; auto].
    constructor; cbn [supd sl_heap sl_head sl_tail sl_size sl_hdr ids map fst first_id last_id sseg].
    + constructor; [exact Hni|apply R].
    + intros [H0|H0]; [congruence|exact (Hnz H0)].
    + rewrite (sr_head _ _ R). cbn [first_id]. split; [apply shget_shset_same|]. split.
      * rewrite shget_shset_other by congruence. exact Hb.
      * eapply sseg_ext; [|exact Hs2]. intros y Hy. apply shget_shset_other. intros ->; contradiction.
    + reflexivity.
    + rewrite (sr_tail _ _ R). reflexivity.
    + rewrite (sr_size _ _ R), !lenN_cons. reflexivity.
    + intros y Hy. destruct (N.eq_dec id y) as [<-|Hne2]; [left; reflexivity|]. right.
      unfold h0 in Hy. rewrite !shget_shset_other in Hy by assumption. apply (sr_dom _ _ R) in Hy. exact Hy.
    + apply (sr_hdr _ _ R).
  - (* insert after a predecessor *)
    set (l1 := p1 :: t1) in *.
    assert (Hne1 : l1 <> []) by discriminate.
    assert (Hpin : In (last_id l1 0) (ids l1)) by (apply last_id_in; assumption).
    assert (Hp0 : last_id l1 0 <> 0) by (rewrite last_id_nil_iff; assumption).
    assert (Hpid : last_id l1 0 <> id) by (intros E2; apply Hni1; rewrite <- E2; exact Hpin).
    assert (Hpb : last_id l1 0 <> b) by (intros E2; apply Hb1; rewrite <- E2; exact Hpin).
    destruct (sseg_last _ _ _ Hne1 Hs1) as (dp & Hp).
    rewrite (sload_ok _ _ _ Hp0 Hp). cbn [bind sn_next].
    destruct (sset_next_last h0 l1 b id Hne1 Hnd1 Hnz1 Hs1) as (h1 & E1 & Hs1' & Hfr1 & Hdom1).
    rewrite E1. cbn [bind].
    assert (H1id : shget h1 id = Some (sfresh x)) by (rewrite Hfr1 by congruence; unfold h0; apply shget_shset_same).
    rewrite (sset_next_ok _ _ _ b Hid0 H1id). cbn [bind sfresh sn_data].
    eexists; split; [reflexivity|]. split; [|split; [apply Hown|]; auto].
    constructor; cbn [supd sl_heap sl_head sl_tail sl_size sl_hdr].
    + eapply Permutation_NoDup; [apply Permutation_sym, Hperm|]. constructor; [exact Hni|apply R].
    + intros H0. apply in_ids_app_mid in H0. destruct H0 as [H0|H0]; [congruence|].
      apply Hnz. exact H0.
    + apply sseg_app. cbn [sseg first_id]. split; [|split; [|split]].
      * eapply sseg_ext; [|exact Hs1']. intros y Hy. apply shget_shset_other. intros ->; contradiction.
      * apply shget_shset_same.
      * rewrite shget_shset_other by congruence. rewrite Hfr1 by congruence. exact Hb.
      * eapply sseg_ext; [|exact Hs2]. intros y Hy.
        rewrite shget_shset_other by (intros ->; contradiction).
        apply Hfr1. intros ->. exact (Hdis _ Hpin Hy).
    + rewrite (sr_head _ _ R), !first_id_app. reflexivity.
    + rewrite (sr_tail _ _ R), !last_id_app. reflexivity.
    + rewrite (sr_size _ _ R), !lenN_app, !lenN_cons. lia.
    + intros y Hy. apply in_ids_app_mid.
      destruct (N.eq_dec id y) as [<-|Hne2]; [left; reflexivity|]. right.
      rewrite shget_shset_other in Hy by assumption. apply Hdom1 in Hy. unfold h0 in Hy.
      rewrite shget_shset_other in Hy by assumption. apply (sr_dom _ _ R) in Hy. exact Hy.
    + apply (sr_hdr _ _ R).
Qed.

(* ------------------------------------------------------------------------------------------ unlinkn *)
Lemma sunlinkn_spec s l1 x d l2 a F :
  srep s (l1 ++ (x, d) :: l2) -> slown a s (l1 ++ (x, d) :: l2) F ->
  exists s' a', sl_unlinkn s x (last_id l1 0) a = Ok (d, s', a') /\ srep s' (l1 ++ l2) /\ slown a' s' (l1 ++ l2) F /\
                ssame_hdr s s' /\ aframe a a' /\ plan a' = plan a.
Proof.
  intros R [Hk Ho].
  destruct (nodup_mid _ _ _ _ (sr_nodup _ _ R)) as (Hnd1 & Hnd2 & Hx1 & Hx2 & Hdis & Hnd12).
  pose proof (sr_nz _ _ R) as Hnz.
  assert (Hx0 : x <> 0) by (intros ->; apply Hnz; rewrite ids_app; apply in_or_app; right; left; reflexivity).
  assert (Hnz1 : ~ In 0 (ids l1)) by (intros H0; apply Hnz; rewrite ids_app; apply in_or_app; left; exact H0).
  assert (Hnz2 : ~ In 0 (ids l2)) by (intros H0; apply Hnz; rewrite ids_app; apply in_or_app; right; right; exact H0).
  pose proof (sseg_mid _ _ _ _ _ _ (sr_seg _ _ R)) as Hx.
  pose proof (sr_seg _ _ R) as Hs. apply sseg_app in Hs. cbn [sseg first_id] in Hs. destruct Hs as (Hs1 & _ & Hs2).
  assert (Hxp : x <> last_id l1 0).
  { destruct l1 as [|p1 t1]; [cbn; congruence|]. intros E. apply Hx1. rewrite E. apply last_id_in. discriminate. }
  unfold sl_unlinkn. rewrite (sload_ok _ _ _ Hx0 Hx). cbn [bind sn_next sn_data].
  destruct (scond_set_next_last (sl_heap s) l1 x (first_id l2 0) Hnd1 Hnz1 Hs1) as (h1 & E1 & Hs1' & Hfr1 & _ & Hdom1).
  rewrite E1. cbn [bind].
  assert (Hx' : shget h1 x = Some {| sn_data := d; sn_next := first_id l2 0 |}).
  { rewrite Hfr1 by exact Hxp. exact Hx. }
  rewrite (sload_ok _ _ _ Hx0 Hx'). cbn [bind sn_next sn_data].
  assert (Hs2' : sseg h1 l2 0).
  { eapply sseg_ext; [|exact Hs2]. intros y Hy. apply Hfr1. intros ->.
    destruct l1 as [|p1 t1]; [cbn in Hy; exact (Hnz2 Hy)|].
    eapply Hdis; [|exact Hy]. apply last_id_in. discriminate. }
  assert (Hperm : Permutation (ids (l1 ++ (x, d) :: l2)) (x :: ids (l1 ++ l2))).
  { rewrite !ids_app. cbn [ids map fst]. apply Permutation_sym, Permutation_middle. }
  set (s' := supd s (sl_size s - 1) (if negb (last_id l1 0 =? 0) then sl_head s else first_id l2 0)
                 (if first_id l2 0 =? 0 then last_id l1 0 else sl_tail s) (shdel h1 x)).
  destruct (sowns_release a s s' _ (l1 ++ l2) F x Hk Ho (ssame_hdr_supd _ _ _ _ _) Hperm) as (a' & Hr & Hk' & Ho' & Hf & Hpl).
  rewrite Hr. cbn [bind].
  exists s', a'. split; [reflexivity|]. split; [|split; [split; assumption|unfold s'; auto]].
  constructor; unfold s'; cbn [supd sl_heap sl_head sl_tail sl_size sl_hdr].
  - exact Hnd12.
  - rewrite ids_app. intros H0. apply in_app_or in H0. tauto.
  - apply sseg_app. split.
    + eapply sseg_ext; [|exact Hs1']. intros y Hy. apply shget_shdel_other. intros ->; contradiction.
    + eapply sseg_ext; [|exact Hs2']. intros y Hy. apply shget_shdel_other. intros ->; contradiction.
  - rewrite first_id_app, (last_nz_b l1 Hnz1). destruct l1 as [|[p1 d1] t1]; [reflexivity|].
    cbn [first_id negb]. rewrite (sr_head _ _ R). reflexivity.
  - rewrite last_id_app, (first_nz_b l2 Hnz2). destruct l2 as [|[p2 d2] t2]; [reflexivity|].
    rewrite (sr_tail _ _ R), last_id_app. reflexivity.
  - rewrite (sr_size _ _ R), !lenN_app, lenN_cons. lia.
  - intros y Hy. rewrite shget_shdel in Hy. destruct (x =? y) eqn:Exy; [congruence|].
    apply Hdom1, (sr_dom _ _ R), in_ids_app_mid in Hy. destruct Hy as [->|Hy]; [lia|exact Hy].
  - apply (sr_hdr _ _ R).
Qed.

(* ------------------------------------------------------------------------------------------ replace / get *)
Lemma sreplace_at_spec s l1 y d l2 x :
  srep s (l1 ++ (y, d) :: l2) ->
  exists s', sl_replace_at s x (lenN l1) = Ok (CC_OK, d, s') /\ srep s' (l1 ++ (y, x) :: l2) /\ ssame_hdr s s'.
Proof.
  intros R. unfold sl_replace_at. rewrite (sget_node_at_in _ _ _ _ _ R). cbn [bind is_ok].
  pose proof (sseg_mid _ _ _ _ _ _ (sr_seg _ _ R)) as Hy.
  destruct (nodup_mid _ _ _ _ (sr_nodup _ _ R)) as (_ & _ & Hy1 & Hy2 & _ & _).
  assert (Hy0 : y <> 0) by (intros ->; apply (sr_nz _ _ R); rewrite ids_app; apply in_or_app; right; left; reflexivity).
  rewrite (sload_ok _ _ _ Hy0 Hy), (sset_data_ok _ _ _ _ Hy0 Hy). cbn [bind sn_data sn_next].
  eexists. split; [reflexivity|]. split; [|apply ssame_hdr_supd].
  assert (Eids : ids (l1 ++ (y, x) :: l2) = ids (l1 ++ (y, d) :: l2)) by (rewrite !ids_app; reflexivity).
  pose proof (sr_seg _ _ R) as Hs. apply sseg_app in Hs. cbn [sseg first_id] in Hs. destruct Hs as (Hs1 & _ & Hs2).
  constructor; cbn [supd sl_heap sl_head sl_tail sl_size sl_hdr].
  - rewrite Eids. apply R.
  - rewrite Eids. apply R.
  - apply sseg_app. cbn [sseg first_id]. split; [|split].
    + eapply sseg_ext; [|exact Hs1]. intros z Hz. apply shget_shset_other. intros ->; contradiction.
    + apply shget_shset_same.
    + eapply sseg_ext; [|exact Hs2]. intros z Hz. apply shget_shset_other. intros ->; contradiction.
  - rewrite (sr_head _ _ R), !first_id_app. reflexivity.
  - rewrite (sr_tail _ _ R), !last_id_app. reflexivity.
  - rewrite (sr_size _ _ R), !lenN_app, !lenN_cons. reflexivity.
  - intros z Hz. rewrite Eids. apply (sr_dom _ _ R). rewrite shget_shset in Hz.
    destruct (y =? z) eqn:E; [assert (y = z) by lia; subst z; rewrite Hy; discriminate|exact Hz].
  - apply R.
Qed.

Lemma sget_at_spec s l1 y d l2 : srep s (l1 ++ (y, d) :: l2) -> sl_get_at s (lenN l1) = Ok (CC_OK, d).
Proof.
  intros R. unfold sl_get_at. rewrite (sget_node_at_in _ _ _ _ _ R). cbn [bind is_ok].
  assert (Hy0 : y <> 0) by (intros ->; apply (sr_nz _ _ R); rewrite ids_app; apply in_or_app; right; left; reflexivity).
  rewrite (sload_ok _ _ _ Hy0 (sseg_mid _ _ _ _ _ _ (sr_seg _ _ R))). reflexivity.
Qed.
Lemma sget_first_spec s y d t : srep s ((y, d) :: t) -> sl_get_first s = Ok (CC_OK, d).
Proof.
  intros R. unfold sl_get_first. rewrite (sr_size _ _ R), lenN_cons. replace (lenN t + 1 =? 0) with false by lia.
  rewrite (sr_head _ _ R). cbn [first_id]. destruct (nz_tail _ _ _ (sr_nz _ _ R)) as [Hy0 _].
  rewrite (sload_ok _ _ _ Hy0 (proj1 (sr_seg _ _ R))). reflexivity.
Qed.
Lemma sget_last_spec s t y d : srep s (t ++ [(y, d)]) -> sl_get_last s = Ok (CC_OK, d).
Proof.
  intros R. unfold sl_get_last. rewrite (sr_size _ _ R), lenN_app, lenN_cons. replace (lenN t + (lenN [] + 1) =? 0) with false by lia.
  rewrite (sr_tail _ _ R), last_id_snoc.
  assert (Hy0 : y <> 0) by (intros ->; apply (sr_nz _ _ R); rewrite ids_app; apply in_or_app; right; left; reflexivity).
  rewrite (sload_ok _ _ _ Hy0 (sseg_mid _ _ _ _ _ _ (sr_seg _ _ R))). reflexivity.
Qed.

(* ------------------------------------------------------------------------------------------ read-only walks *)
Lemma swalk_data_seg fuel h l : sseg h l 0 -> ~ In 0 (ids l) -> (length l < fuel)%nat ->
  swalk_data fuel h (first_id l 0) = Ok (map snd l).
Proof.
  revert fuel; induction l as [|[x d] t IH]; intros fuel Hs Hnz Hf.
  - destruct fuel; reflexivity.
  - destruct fuel as [|f]; [cbn in Hf; lia|]. cbn [swalk_data first_id]. destruct (nz_tail _ _ _ Hnz) as [Hx0 Hnz'].
    replace (x =? 0) with false by lia. destruct Hs as [Hx Ht]. rewrite (sload_ok _ _ _ Hx0 Hx). cbn [bind sn_next sn_data].
    rewrite (IH f Ht Hnz') by (cbn in Hf; lia). reflexivity.
Qed.

Lemma sread_n_seg h l1 l2 n : sseg h (l1 ++ l2) n -> ~ In 0 (ids l1) ->
  sread_n (length l1) h (first_id (l1 ++ l2) n) = Ok (map snd l1).
Proof.
  induction l1 as [|[x d] t IH]; intros Hs Hnz; [reflexivity|].
  cbn [length sread_n app first_id]. destruct (nz_tail _ _ _ Hnz) as [Hx0 Hnz'].
  destruct Hs as [Hx Ht]. rewrite (sload_ok _ _ _ Hx0 Hx). cbn [bind sn_next sn_data].
  rewrite (IH Ht Hnz'). reflexivity.
Qed.

(** get_node: the first node holding [x] and its predecessor. *)
Fixpoint sfind_prev (x : N) (l : list (N * N)) (p : N) : N :=
  match l with [] => p | (y, d) :: t => if d =? x then p else sfind_prev x t y end.

Lemma sget_node_loop_seg fuel h l x p : sseg h l 0 -> ~ In 0 (ids l) -> (length l < fuel)%nat ->
  sget_node_loop fuel h (first_id l 0) p x =
  Ok (match remove_first_eq x (map snd l) with Some _ => CC_OK | None => CC_ERR_VALUE_NOT_FOUND end, find_id x l, sfind_prev x l p).
Proof.
  revert fuel p; induction l as [|[y d] t IH]; intros fuel p Hs Hnz Hf.
  - destruct fuel; reflexivity.
  - destruct fuel as [|f]; [cbn in Hf; lia|]. cbn [sget_node_loop first_id find_id sfind_prev map snd remove_first_eq].
    destruct (nz_tail _ _ _ Hnz) as [Hy0 Hnz'].
    replace (y =? 0) with false by lia. destruct Hs as [Hy Ht]. rewrite (sload_ok _ _ _ Hy0 Hy). cbn [bind sn_next sn_data].
    destruct (d =? x); [reflexivity|]. rewrite (IH f y Ht Hnz') by (cbn in Hf; lia).
    destruct (remove_first_eq x (map snd t)); reflexivity.
Qed.

Lemma sfind_split x l p : ~ In 0 (ids l) ->
  match remove_first_eq x (map snd l) with
  | None => True
  | Some r => find_id x l <> 0 /\ exists l1 l2, l = l1 ++ (find_id x l, x) :: l2 /\ r = map snd (l1 ++ l2) /\
                                               sfind_prev x l p = last_id l1 p
  end.
Proof.
  revert p; induction l as [|[y d] t IH]; intros p Hnz; cbn [map snd remove_first_eq find_id sfind_prev]; [exact I|].
  destruct (nz_tail _ _ _ Hnz) as [Hy0 Hnz'].
  destruct (d =? x) eqn:E.
  - assert (d = x) by lia; subst d. split; [assumption|]. exists [], t. split; [reflexivity|]. split; reflexivity.
  - specialize (IH y Hnz'). destruct (remove_first_eq x (map snd t)) as [r|]; [|exact I].
    destruct IH as (Hn0 & l1 & l2 & E1 & E2 & E3). split; [assumption|].
    exists ((y, d) :: l1), l2. cbn [app map snd last_id]. rewrite <- E1, E2. split; [reflexivity|]. split; [reflexivity|exact E3].
Qed.

Lemma sindex_of_loop_seg fuel h l x i : sseg h l 0 -> ~ In 0 (ids l) -> (length l < fuel)%nat ->
  sindex_of_loop fuel h (first_id l 0) x i =
  Ok (match find_index (fun y => y =? x) (map snd l) i with Some k => (CC_OK, k) | None => (CC_ERR_OUT_OF_RANGE, 0) end).
Proof.
  revert fuel i; induction l as [|[y d] t IH]; intros fuel i Hs Hnz Hf.
  - destruct fuel; reflexivity.
  - destruct fuel as [|f]; [cbn in Hf; lia|]. cbn [sindex_of_loop first_id find_index map snd]. destruct (nz_tail _ _ _ Hnz) as [Hy0 Hnz'].
    replace (y =? 0) with false by lia. destruct Hs as [Hy Ht]. rewrite (sload_ok _ _ _ Hy0 Hy). cbn [bind sn_next sn_data].
    destruct (d =? x); [reflexivity|]. apply (IH f (i + 1) Ht Hnz'). cbn in Hf; lia.
Qed.

Lemma sfuel_of_gt s l : srep s l -> (length l < sfuel_of s)%nat.
Proof. intros R. unfold sfuel_of. rewrite (sr_size _ _ R), lenN_length. lia. Qed.

(* ------------------------------------------------------------------------------------------ unlinkn_all *)
(** The loop frees the nodes directly and leaves head / tail stale: the invariant is on the heap only. *)
Lemma sunlink_all_loop_spec cb l : forall fuel s a F log,
  NoDup (ids l) -> ~ In 0 (ids l) -> sseg (sl_heap s) l 0 -> sl_size s = lenN l ->
  (forall y, shget (sl_heap s) y <> None -> In y (ids l)) ->
  slown a s l F -> (length l < fuel)%nat ->
  exists s' a', sunlink_all_loop fuel cb s (first_id l 0) a log = Ok (s', a', log ++ (if cb then map snd l else [])) /\
                sl_size s' = 0 /\ (forall y, shget (sl_heap s') y = None) /\
                slown a' s' [] F /\ ssame_hdr s s' /\ aframe a a' /\ plan a' = plan a.
Proof.
  induction l as [|[x d] t IH]; intros fuel s a F log Hnd Hnz Hs Hsz Hdom Hown Hf.
  - cbn [first_id].
    assert (Hnone : forall y, shget (sl_heap s) y = None).
    { intros y. destruct (shget (sl_heap s) y) eqn:E; [|reflexivity]. exfalso. apply (Hdom y). congruence. }
    exists s, a. destruct fuel; cbn [sunlink_all_loop N.eqb]; (split; [destruct cb; cbn [map]; rewrite app_nil_r; reflexivity|]);
      auto 10 using aframe_refl.
  - destruct fuel as [|f]; [cbn in Hf; lia|]. cbn [sunlink_all_loop first_id].
    destruct (nz_tail _ _ _ Hnz) as [Hx0 Hnz'].
    replace (x =? 0) with false by lia.
    destruct Hs as [Hx Ht]. rewrite (sload_ok _ _ _ Hx0 Hx). cbn [bind sn_next sn_data].
    cbn [ids map fst] in Hnd. apply NoDup_cons_iff in Hnd. destruct Hnd as [Hxt Hnd'].
    destruct Hown as [Hk Ho].
    set (s1 := supd s (sl_size s - 1) (sl_head s) (sl_tail s) (shdel (sl_heap s) x)).
    destruct (sowns_release a s s1 ((x, d) :: t) t F x Hk Ho (ssame_hdr_supd _ _ _ _ _) (Permutation_refl _))
      as (a1 & Hr & Hk1 & Ho1 & Hf1 & Hp1).
    rewrite Hr. cbn [bind]. fold s1.
    destruct (IH f s1 a1 F (if cb then log ++ [d] else log)) as (s2 & a2 & E2 & Hsz2 & Hn2 & Hown2 & Hh2 & Hf2 & Hp2).
    + exact Hnd'.
    + exact Hnz'.
    + unfold s1. cbn [supd sl_heap]. eapply sseg_ext; [|exact Ht]. intros y Hy. apply shget_shdel_other. intros ->; contradiction.
    + unfold s1. cbn [supd sl_size]. rewrite Hsz, lenN_cons. lia.
    + unfold s1. cbn [supd sl_heap]. intros y Hy. rewrite shget_shdel in Hy. destruct (x =? y) eqn:E; [congruence|].
      apply Hdom in Hy. destruct Hy as [Hy|Hy]; [cbn in Hy; lia|exact Hy].
    + split; assumption.
    + cbn in Hf; lia.
    + rewrite E2. exists s2, a2. split.
      * destruct cb; cbn [map snd]; rewrite <- ?app_assoc; reflexivity.
      * split; [assumption|]. split; [assumption|]. split; [assumption|].
        split; [eapply ssame_hdr_trans; [apply ssame_hdr_supd|exact Hh2]|].
        split; [eapply aframe_trans; eassumption|congruence].
Qed.

Lemma sremove_all_cb_spec cb s l a F :
  srep s l -> slown a s l F -> l <> [] ->
  exists s' a', sl_remove_all_cb cb s a = Ok (CC_OK, s', a', if cb then map snd l else []) /\
                srep s' [] /\ slown a' s' [] F /\ ssame_hdr s s' /\ aframe a a' /\ plan a' = plan a.
Proof.
  intros R Hown Hl. unfold sl_remove_all_cb, sl_unlinkn_all. rewrite (srep_size_ne _ _ R Hl), (sr_head _ _ R).
  destruct (sunlink_all_loop_spec cb l (sfuel_of s) s a F [] (sr_nodup _ _ R) (sr_nz _ _ R) (sr_seg _ _ R) (sr_size _ _ R)
              (sr_dom _ _ R) Hown (sfuel_of_gt _ _ R)) as (s1 & a1 & E & Hsz & Hn & Hown1 & Hh & Hf & Hp).
  rewrite E. cbn [bind app].
  exists (supd s1 (sl_size s1) 0 0 (sl_heap s1)), a1. split; [reflexivity|].
  split; [|split; [|split; [eapply ssame_hdr_trans; [exact Hh|apply ssame_hdr_supd]|auto]]].
  - constructor; cbn [supd sl_heap sl_head sl_tail sl_size sl_hdr ids map first_id last_id sseg lenN length N.of_nat]; auto.
    + constructor.
    + intros y Hy. rewrite Hn in Hy. congruence.
    + destruct Hh as [Hh _]. rewrite Hh. apply R.
  - destruct Hown1 as [Hk1 Ho1]. split; [assumption|]. eapply sowns_perm; [exact Ho1|apply ssame_hdr_supd|reflexivity].
Qed.

(* ------------------------------------------------------------------------------------------ filter_mut *)
Lemma sfilter_mut_loop_spec pred rest : forall fuel done s a F,
  srep s (done ++ rest) -> slown a s (done ++ rest) F -> (length rest < fuel)%nat ->
  exists s' a', sfilter_mut_loop fuel pred s (first_id rest 0) (last_id done 0) a = Ok (s', a') /\
                srep s' (done ++ filter (fun p => pred (snd p)) rest) /\
                slown a' s' (done ++ filter (fun p => pred (snd p)) rest) F /\ ssame_hdr s s' /\ aframe a a' /\ plan a' = plan a.
Proof.
  induction rest as [|[x d] t IH]; intros fuel done s a F R Hown Hf.
  - cbn [first_id filter]. destruct fuel; cbn [sfilter_mut_loop N.eqb]; exists s, a; auto 10 using aframe_refl.
  - destruct fuel as [|f]; [cbn in Hf; lia|]. cbn [sfilter_mut_loop first_id filter snd].
    pose proof (sr_nz _ _ R) as Hnz.
    assert (Hx0 : x <> 0) by (intros ->; apply Hnz; rewrite ids_app; apply in_or_app; right; left; reflexivity).
    replace (x =? 0) with false by lia.
    pose proof (sseg_mid _ _ _ _ _ _ (sr_seg _ _ R)) as Hx. rewrite (sload_ok _ _ _ Hx0 Hx). cbn [bind sn_next sn_data].
    destruct (pred d) eqn:Ep; cbn [negb].
    + change (done ++ (x, d) :: t) with (done ++ [(x, d)] ++ t) in R, Hown. rewrite app_assoc in R, Hown.
      destruct (IH f (done ++ [(x, d)]) s a F R Hown ltac:(cbn in Hf; lia)) as (s2 & a2 & E2 & R2 & Hown2 & Hrest).
      rewrite last_id_snoc in E2. rewrite E2. exists s2, a2. rewrite <- app_assoc in R2, Hown2. auto.
    + destruct (sunlinkn_spec s done x d t a F R Hown) as (s1 & a1 & E1 & R1 & Hown1 & Hh1 & Hf1 & Hp1).
      rewrite E1. cbn [bind].
      destruct (IH f done s1 a1 F R1 Hown1 ltac:(cbn in Hf; lia)) as (s2 & a2 & E2 & R2 & Hown2 & Hh2 & Hf2 & Hp2).
      rewrite E2. exists s2, a2. split; [reflexivity|]. split; [assumption|]. split; [assumption|].
      split; [eapply ssame_hdr_trans; eassumption|]. split; [eapply aframe_trans; eassumption|congruence].
Qed.
