(** Executable model of src/cc_slist.c (definitions only).

    Memory: every node is one ledger block whose id IS the node id (0 = NULL). A list owns a node heap
    [sl_heap] (association list keyed by node id); every dereference goes through [sload], which
    faults on NULL and on an id that is not in the heap. Where the C text reads a field again after
    a write, the model loads again. Sizes: [size++] is [+ 1], [size--]/[x - 1] are [- 1] at places
    the C guards against 0, [wsub] where the wrap is observable (iterator index).

    The two lists of a trace own disjoint heaps; the bulk operations work on the union of the
    heaps involved (memory is one), [splice] hands the whole heap of the source to the destination.

    Every identifier is prefixed with [s] so that this file and List_/ListModel.v can be imported
    together. The concrete callbacks and the ideal-list helpers are those of ListModel.v. *)
From CC Require Import Base.Prelude Base.Alloc Generated.Status Generated.Constants Generated.Guards.
From CC Require Import List_.ListModel.
Local Open Scope N_scope.

(* ------------------------------------------------------------------------------------------ heap *)
Record snode := { sn_data : N; sn_next : N }.
Definition sheap := list (N * snode).

Fixpoint shget (h : sheap) (i : N) : option snode :=
  match h with [] => None | (j, n) :: t => if j =? i then Some n else shget t i end.
Fixpoint shdel (h : sheap) (i : N) : sheap :=
  match h with [] => [] | (j, n) :: t => if j =? i then shdel t i else (j, n) :: shdel t i end.
Definition shset (h : sheap) (i : N) (n : snode) : sheap := (i, n) :: shdel h i.

(** The checked dereference. *)
Definition sload (h : sheap) (i : N) : res snode :=
  if i =? 0 then Fault NullDeref else of_opt Dangling (shget h i).
Definition sset_data (h : sheap) (i v : N) : res sheap :=
  do n <- sload h i; Ok (shset h i {| sn_data := v; sn_next := sn_next n |}).
Definition sset_next (h : sheap) (i v : N) : res sheap :=
  do n <- sload h i; Ok (shset h i {| sn_data := sn_data n; sn_next := v |}).

Definition SNODE_BYTES : N := 16.   (* sizeof(SNode) *)
Definition SHDR_BYTES : N := 48.    (* sizeof(CC_SList) *)

Record slist := { sl_size : N; sl_head : N; sl_tail : N; sl_heap : sheap; sl_hdr : N; sl_mem : tag }.
Definition supd (l : slist) (size head tail : N) (h : sheap) : slist :=
  {| sl_size := size; sl_head := head; sl_tail := tail; sl_heap := h; sl_hdr := sl_hdr l; sl_mem := sl_mem l |}.

(* --------------------------------------------------------------------------- static helpers *)

(** unlinkn(list, node, prev): returns the data. *)
Definition sl_unlinkn (l : slist) (nd prev : N) (a : alloc_st) : res (N * slist * alloc_st) :=
  let h := sl_heap l in
  do n0 <- sload h nd;
  do h1 <- (if negb (prev =? 0) then sset_next h prev (sn_next n0) else Ok h);
  let head' := if negb (prev =? 0) then sl_head l else sn_next n0 in
  do n1 <- sload h1 nd;
  let tail' := if sn_next n1 =? 0 then prev else sl_tail l in
  do a' <- release (sl_mem l) nd a;
  Ok (sn_data n0, supd l (sl_size l - 1) head' tail' (shdel h1 nd), a').

(** get_node_at: node = head, prev = NULL; for (i = 0; i < index; i++) { prev = node; node = node->next; } *)
Fixpoint swalk (h : sheap) (nd prev : N) (k : nat) : res (N * N) :=
  match k with O => Ok (nd, prev) | S k' => do n <- sload h nd; swalk h (sn_next n) nd k' end.

(** get_node_at; the out parameters are reported as 0 when they are not written. Result: status, node, prev. *)
Definition sl_get_node_at (l : slist) (index : N) : res (stat * N * N) :=
  if g_slist_get_node_at_range index (sl_size l) then Ok (CC_ERR_OUT_OF_RANGE, 0, 0) else
  do (nd, pv) <- swalk (sl_heap l) (sl_head l) 0 (N.to_nat index); Ok (CC_OK, nd, pv).

(** get_node: first node whose data is pointer-equal to the element. [while (node)] loops run on
    fuel [S size]. Result: status, node, prev (node = 0 when not found; prev is then the last node). *)
Fixpoint sget_node_loop (fuel : nat) (h : sheap) (nd prev x : N) : res (stat * N * N) :=
  if nd =? 0 then Ok (CC_ERR_VALUE_NOT_FOUND, nd, prev) else
  match fuel with O => Fault OutOfFuel | S f =>
    do n <- sload h nd;
    if sn_data n =? x then Ok (CC_OK, nd, prev) else sget_node_loop f h (sn_next n) nd x
  end.
Definition sfuel_of (l : slist) : nat := S (N.to_nat (sl_size l)).
Definition sl_get_node (l : slist) (x : N) : res (stat * N * N) :=
  sget_node_loop (sfuel_of l) (sl_heap l) (sl_head l) 0 x.

(** The data along [next] until NULL (foreach / contains / contains_value / copy loops read it). *)
Fixpoint swalk_data (fuel : nat) (h : sheap) (nd : N) : res (list N) :=
  if nd =? 0 then Ok [] else
  match fuel with O => Fault OutOfFuel | S f =>
    do n <- sload h nd; do r <- swalk_data f h (sn_next n); Ok (sn_data n :: r)
  end.

(* --------------------------------------------------------------------------- constructor, add *)
Definition sl_new (mem : tag) (a : alloc_st) : stat * option slist * alloc_st :=
  match alloc mem SHDR_BYTES a with
  | (None, a1) => (CC_ERR_ALLOC, None, a1)
  | (Some hd, a1) => (CC_OK, Some {| sl_size := 0; sl_head := 0; sl_tail := 0; sl_heap := []; sl_hdr := hd; sl_mem := mem |}, a1)
  end.

Definition sfresh (x : N) : snode := {| sn_data := x; sn_next := 0 |}.

Definition sl_add_first (l : slist) (x : N) (a : alloc_st) : res (stat * slist * alloc_st) :=
  match alloc (sl_mem l) SNODE_BYTES a with
  | (None, a1) => Ok (CC_ERR_ALLOC, l, a1)
  | (Some id, a1) =>
      let h0 := shset (sl_heap l) id (sfresh x) in
      if sl_size l =? 0 then Ok (CC_OK, supd l (sl_size l + 1) id id h0, a1)
      else
        do h1 <- sset_next h0 id (sl_head l);
        Ok (CC_OK, supd l (sl_size l + 1) id (sl_tail l) h1, a1)
  end.

Definition sl_add_last (l : slist) (x : N) (a : alloc_st) : res (stat * slist * alloc_st) :=
  match alloc (sl_mem l) SNODE_BYTES a with
  | (None, a1) => Ok (CC_ERR_ALLOC, l, a1)
  | (Some id, a1) =>
      let h0 := shset (sl_heap l) id (sfresh x) in
      if sl_size l =? 0 then Ok (CC_OK, supd l (sl_size l + 1) id id h0, a1)
      else
        do h1 <- sset_next h0 (sl_tail l) id;
        Ok (CC_OK, supd l (sl_size l + 1) (sl_head l) id h1, a1)
  end.

Definition sl_add := sl_add_last.

Definition sl_add_at (l : slist) (x index : N) (a : alloc_st) : res (stat * slist * alloc_st) :=
  do (st, nd, pv) <- sl_get_node_at l index;
  if negb (is_ok st) then Ok (st, l, a) else
  match alloc (sl_mem l) SNODE_BYTES a with
  | (None, a1) => Ok (CC_ERR_ALLOC, l, a1)
  | (Some id, a1) =>
      let h0 := shset (sl_heap l) id (sfresh x) in
      if pv =? 0 then
        do h1 <- sset_next h0 id (sl_head l);
        Ok (CC_OK, supd l (sl_size l + 1) id (sl_tail l) h1, a1)
      else
        do np <- sload h0 pv;
        do h1 <- sset_next h0 pv id;
        do h2 <- sset_next h1 id (sn_next np);
        Ok (CC_OK, supd l (sl_size l + 1) (sl_head l) (sl_tail l) h2, a1)
  end.

(* --------------------------------------------------------------------------- bulk copies *)

(** The cleanup loop of link_all_externally. *)
Fixpoint sfree_chain (fuel : nat) (hx : sheap) (hd : N) (mem : tag) (a : alloc_st) : res alloc_st :=
  if hd =? 0 then Ok a else
  match fuel with O => Fault OutOfFuel | S f =>
    do n <- sload hx hd; do a1 <- release mem hd a; sfree_chain f (shdel hx hd) (sn_next n) mem a1
  end.

(** link_all_externally(dest, list, &h, &t): [src] is the source's heap, [mem] the DESTINATION's allocator
    (dest->mem_calloc / dest->mem_free); the copy chain is built in its own heap [hx].
    [k] = remaining iterations, [fuel] bounds the cleanup. *)
Fixpoint slae_loop (k fuel : nat) (src : sheap) (mem : tag) (ins hd tl : N) (hx : sheap) (a : alloc_st)
  : res (option (N * N * sheap) * alloc_st) :=
  match k with
  | O => Ok (Some (hd, tl, hx), a)
  | S k' =>
      match alloc mem SNODE_BYTES a with
      | (None, a1) => do a2 <- sfree_chain fuel hx hd mem a1; Ok (None, a2)
      | (Some id, a1) =>
          do ni <- sload src ins;
          let hx0 := shset hx id (sfresh (sn_data ni)) in
          do hx1 <- (if hd =? 0 then Ok hx0 else sset_next hx0 tl id);
          slae_loop k' fuel src mem (sn_next ni) (if hd =? 0 then id else hd) id hx1 a1
      end
  end.
Definition sl_link_all_externally (l1 l2 : slist) (a : alloc_st) : res (option (N * N * sheap) * alloc_st) :=
  slae_loop (N.to_nat (sl_size l2)) (N.to_nat (sl_size l2)) (sl_heap l2) (sl_mem l1) (sl_head l2) 0 0 [] a.

Definition sl_add_all (l1 l2 : slist) (a : alloc_st) : res (stat * slist * alloc_st) :=
  if sl_size l2 =? 0 then Ok (CC_OK, l1, a) else
  do (r, a1) <- sl_link_all_externally l1 l2 a;
  match r with
  | None => Ok (CC_ERR_ALLOC, l1, a1)
  | Some (hd, tl, hx) =>
      let h := hx ++ sl_heap l1 in
      if sl_size l1 =? 0 then Ok (CC_OK, supd l1 (sl_size l1 + sl_size l2) hd tl h, a1)
      else
        do h1 <- sset_next h (sl_tail l1) hd;
        Ok (CC_OK, supd l1 (sl_size l1 + sl_size l2) (sl_head l1) tl h1, a1)
  end.

Definition sl_add_all_at (l1 l2 : slist) (index : N) (a : alloc_st) : res (stat * slist * alloc_st) :=
  if sl_size l2 =? 0 then Ok (CC_OK, l1, a) else
  do (st, nd, pv) <- sl_get_node_at l1 index;
  if negb (is_ok st) then Ok (st, l1, a) else
  do (r, a1) <- sl_link_all_externally l1 l2 a;
  match r with
  | None => Ok (CC_ERR_ALLOC, l1, a1)
  | Some (hd, tl, hx) =>
      let h := hx ++ sl_heap l1 in
      if pv =? 0 then
        do h1 <- sset_next h tl nd;
        Ok (CC_OK, supd l1 (sl_size l1 + sl_size l2) hd (sl_tail l1) h1, a1)
      else
        do h1 <- sset_next h pv hd;
        do h2 <- sset_next h1 tl nd;
        Ok (CC_OK, supd l1 (sl_size l1 + sl_size l2) (sl_head l1) (sl_tail l1) h2, a1)
  end.

(* --------------------------------------------------------------------------- splice *)
Definition semptied (l : slist) : slist := supd l 0 0 0 [].

Definition sl_splice (l1 l2 : slist) : res (stat * slist * slist) :=
  if sl_size l2 =? 0 then Ok (CC_OK, l1, l2) else
  let h := sl_heap l2 ++ sl_heap l1 in
  if sl_size l1 =? 0 then
    Ok (CC_OK, supd l1 (sl_size l1 + sl_size l2) (sl_head l2) (sl_tail l2) h, semptied l2)
  else
    do h1 <- sset_next h (sl_tail l1) (sl_head l2);
    Ok (CC_OK, supd l1 (sl_size l1 + sl_size l2) (sl_head l1) (sl_tail l2) h1, semptied l2).

(** splice_between on the union heap [h]. *)
Definition sl_splice_between (l1 l2 : slist) (h : sheap) (base end_ : N) : res (slist * slist) :=
  do r <- (if base =? 0 then
      do h1 <- sset_next h (sl_tail l2) (sl_head l1);
      Ok (sl_head l2, sl_tail l1, h1)
    else if end_ =? 0 then
      do h1 <- sset_next h (sl_tail l1) (sl_head l2);
      Ok (sl_head l1, sl_tail l2, h1)
    else
      do h1 <- sset_next h base (sl_head l2);
      do h2 <- sset_next h1 (sl_tail l2) end_;
      Ok (sl_head l1, sl_tail l1, h2));
  let '(hd, tl, h') := r in
  Ok (supd l1 (sl_size l1 + sl_size l2) hd tl h', semptied l2).

Definition sl_splice_at (l1 l2 : slist) (index : N) : res (stat * slist * slist) :=
  if sl_size l2 =? 0 then Ok (CC_OK, l1, l2) else
  if g_slist_splice_at_range index (sl_size l1) then Ok (CC_ERR_OUT_OF_RANGE, l1, l2) else
  do (st, nd, pv) <- sl_get_node_at l1 index;
  if negb (is_ok st) then Ok (st, l1, l2) else
  do (l1', l2') <- sl_splice_between l1 l2 (sl_heap l2 ++ sl_heap l1) pv nd;
  Ok (CC_OK, l1', l2').

(* --------------------------------------------------------------------------- removal *)
Definition sl_remove (l : slist) (x : N) (a : alloc_st) : res (stat * N * slist * alloc_st) :=
  do (st, nd, pv) <- sl_get_node l x;
  if negb (is_ok st) then Ok (st, 0, l, a) else
  do (e, l', a') <- sl_unlinkn l nd pv a;
  Ok (CC_OK, e, l', a').

Definition sl_remove_at (l : slist) (index : N) (a : alloc_st) : res (stat * N * slist * alloc_st) :=
  do (st, nd, pv) <- sl_get_node_at l index;
  if negb (is_ok st) then Ok (st, 0, l, a) else
  do (e, l', a') <- sl_unlinkn l nd pv a;
  Ok (CC_OK, e, l', a').

Definition sl_remove_first (l : slist) (a : alloc_st) : res (stat * N * slist * alloc_st) :=
  if sl_size l =? 0 then Ok (CC_ERR_VALUE_NOT_FOUND, 0, l, a) else
  do (e, l', a') <- sl_unlinkn l (sl_head l) 0 a; Ok (CC_OK, e, l', a').

Definition sl_remove_last (l : slist) (a : alloc_st) : res (stat * N * slist * alloc_st) :=
  if sl_size l =? 0 then Ok (CC_ERR_VALUE_NOT_FOUND, 0, l, a) else
  do (st, nd, pv) <- sl_get_node_at l (sl_size l - 1);
  if negb (is_ok st) then Ok (st, 0, l, a) else
  do (e, l', a') <- sl_unlinkn l nd pv a;
  Ok (CC_OK, e, l', a').

(** unlinkn_all(list, cb): frees the nodes directly ([size--] per node, head / tail are left to the
    caller); the log is the sequence of arguments passed to [cb] (empty without cb). *)
Fixpoint sunlink_all_loop (fuel : nat) (cb : bool) (l : slist) (nd : N) (a : alloc_st) (log : list N)
  : res (slist * alloc_st * list N) :=
  if nd =? 0 then Ok (l, a, log) else
  match fuel with O => Fault OutOfFuel | S f =>
    do n <- sload (sl_heap l) nd;
    let log' := if cb then log ++ [sn_data n] else log in
    do a' <- release (sl_mem l) nd a;
    sunlink_all_loop f cb (supd l (sl_size l - 1) (sl_head l) (sl_tail l) (shdel (sl_heap l) nd)) (sn_next n) a' log'
  end.
Definition sl_unlinkn_all (cb : bool) (l : slist) (a : alloc_st) : res (bool * slist * alloc_st * list N) :=
  if sl_size l =? 0 then Ok (false, l, a, []) else
  do (l', a', log) <- sunlink_all_loop (sfuel_of l) cb l (sl_head l) a [];
  Ok (true, l', a', log).

Definition sl_remove_all_cb (cb : bool) (l : slist) (a : alloc_st) : res (stat * slist * alloc_st * list N) :=
  do (u, l', a', log) <- sl_unlinkn_all cb l a;
  if u then Ok (CC_OK, supd l' (sl_size l') 0 0 (sl_heap l'), a', log)
  else Ok (CC_ERR_VALUE_NOT_FOUND, l', a', log).
Definition sl_remove_all := sl_remove_all_cb false.

(** cc_slist_destroy always calls remove_all (no size test). *)
Definition sl_destroy (l : slist) (a : alloc_st) : res alloc_st :=
  do (_, l', a1, _) <- sl_remove_all l a;
  release (sl_mem l') (sl_hdr l') a1.
Definition sl_destroy_cb (l : slist) (a : alloc_st) : res (alloc_st * list N) :=
  do (_, l', a1, log) <- sl_remove_all_cb true l a;
  do a2 <- release (sl_mem l') (sl_hdr l') a1; Ok (a2, log).

(* --------------------------------------------------------------------------- access *)
Definition sl_replace_at (l : slist) (x index : N) : res (stat * N * slist) :=
  do (st, nd, _) <- sl_get_node_at l index;
  if is_ok st then
    do n <- sload (sl_heap l) nd;
    do h <- sset_data (sl_heap l) nd x;
    Ok (st, sn_data n, supd l (sl_size l) (sl_head l) (sl_tail l) h)
  else Ok (st, 0, l).

Definition sl_get_first (l : slist) : res (stat * N) :=
  if sl_size l =? 0 then Ok (CC_ERR_VALUE_NOT_FOUND, 0) else
  do n <- sload (sl_heap l) (sl_head l); Ok (CC_OK, sn_data n).
Definition sl_get_last (l : slist) : res (stat * N) :=
  if sl_size l =? 0 then Ok (CC_ERR_VALUE_NOT_FOUND, 0) else
  do n <- sload (sl_heap l) (sl_tail l); Ok (CC_OK, sn_data n).
Definition sl_get_at (l : slist) (index : N) : res (stat * N) :=
  do (st, nd, _) <- sl_get_node_at l index;
  if is_ok st then do n <- sload (sl_heap l) nd; Ok (st, sn_data n) else Ok (st, 0).

Definition sl_get_size (l : slist) : N := sl_size l.

(* --------------------------------------------------------------------------- reverse *)
(** while (flip) { next = flip->next; flip->next = prev; prev = flip; flip = next; }  returns prev. *)
Fixpoint srev_loop (fuel : nat) (h : sheap) (prev flip : N) : res (N * sheap) :=
  if flip =? 0 then Ok (prev, h) else
  match fuel with O => Fault OutOfFuel | S f =>
    do n <- sload h flip;
    do h1 <- sset_next h flip prev;
    srev_loop f h1 flip (sn_next n)
  end.
Definition sl_reverse (l : slist) : res slist :=
  if g_slist_reverse_trivial (sl_size l) then Ok l else
  do (pv, h) <- srev_loop (sfuel_of l) (sl_heap l) 0 (sl_head l);
  Ok (supd l (sl_size l) pv (sl_head l) h).

(* --------------------------------------------------------------------------- derived lists *)

(** for (i = from; i <= to; i++) { add(sub, node->data); node = node->next; } *)
Fixpoint scopy_loop_n (k : nat) (src : sheap) (nd : N) (sub : slist) (a : alloc_st) : res (stat * option slist * alloc_st) :=
  match k with
  | O => Ok (CC_OK, Some sub, a)
  | S k' =>
      do n <- sload src nd;
      do (st, sub', a1) <- sl_add sub (sn_data n) a;
      if is_ok st then scopy_loop_n k' src (sn_next n) sub' a1
      else do a2 <- sl_destroy sub' a1; Ok (st, None, a2)
  end.

Definition sl_sublist (l : slist) (b e : N) (a : alloc_st) : res (stat * option slist * alloc_st) :=
  if g_slist_sublist_range b e (sl_size l) then Ok (CC_ERR_INVALID_RANGE, None, a) else
  match sl_new (sl_mem l) a with
  | (st, None, a1) => Ok (st, None, a1)
  | (_, Some sub, a1) =>
      do (st, nd, _) <- sl_get_node_at l b;
      if negb (is_ok st) then do a2 <- sl_destroy sub a1; Ok (st, None, a2) else
      scopy_loop_n (N.to_nat (e - b + 1)) (sl_heap l) nd sub a1
  end.

(** while (node) { if (keep(node->data)) add(copy, f(node->data)); node = node->next; } *)
Fixpoint scopy_loop_w (fuel : nat) (f : N -> N) (keep : N -> bool) (src : sheap) (nd : N) (cp : slist) (a : alloc_st)
  : res (stat * option slist * alloc_st) :=
  if nd =? 0 then Ok (CC_OK, Some cp, a) else
  match fuel with O => Fault OutOfFuel | S fu =>
    do n <- sload src nd;
    if keep (sn_data n) then
      do (st, cp', a1) <- sl_add cp (f (sn_data n)) a;
      if is_ok st then scopy_loop_w fu f keep src (sn_next n) cp' a1
      else do a2 <- sl_destroy cp' a1; Ok (st, None, a2)
    else scopy_loop_w fu f keep src (sn_next n) cp a
  end.

Definition sl_copy_with (f : N -> N) (keep : N -> bool) (l : slist) (a : alloc_st) : res (stat * option slist * alloc_st) :=
  match sl_new (sl_mem l) a with
  | (st, None, a1) => Ok (st, None, a1)
  | (_, Some cp, a1) => scopy_loop_w (sfuel_of l) f keep (sl_heap l) (sl_head l) cp a1
  end.
Definition sl_copy_shallow := sl_copy_with (fun x => x) (fun _ => true).
Definition sl_copy_deep (cp : N -> N) := sl_copy_with cp (fun _ => true).
Definition sl_filter (pred : N -> bool) (l : slist) (a : alloc_st) : res (stat * option slist * alloc_st) :=
  if sl_get_size l =? 0 then Ok (CC_ERR_OUT_OF_RANGE, None, a) else sl_copy_with (fun x => x) pred l a.

(* --------------------------------------------------------------------------- array, search, sort *)

(** for (i = 0; i < size; i++) { array[i] = node->data; node = node->next; } *)
Fixpoint sread_n (k : nat) (h : sheap) (nd : N) : res (list N) :=
  match k with O => Ok [] | S k' => do n <- sload h nd; do r <- sread_n k' h (sn_next n); Ok (sn_data n :: r) end.

(** The array is returned as its contents and its ledger block. There is no test for an empty list:
    [mem_alloc(0)] is a request like any other. *)
Definition sl_to_array (l : slist) (a : alloc_st) : res (stat * list N * N * alloc_st) :=
  match alloc (sl_mem l) (wmul (sl_size l) 8) a with
  | (None, a1) => Ok (CC_ERR_ALLOC, [], 0, a1)
  | (Some blk, a1) => do arr <- sread_n (N.to_nat (sl_size l)) (sl_heap l) (sl_head l); Ok (CC_OK, arr, blk, a1)
  end.

Definition sl_contains (l : slist) (x : N) : res N :=
  do d <- swalk_data (sfuel_of l) (sl_heap l) (sl_head l); Ok (lenN (filter (fun y => y =? x) d)).
Definition sl_contains_value (cmp : N -> N -> comparison) (l : slist) (x : N) : res N :=
  do d <- swalk_data (sfuel_of l) (sl_heap l) (sl_head l); Ok (lenN (filter (fun y => is_eq (cmp y x)) d)).

(** index_of compares the element pointers (no comparator). *)
Fixpoint sindex_of_loop (fuel : nat) (h : sheap) (nd x i : N) : res (stat * N) :=
  if nd =? 0 then Ok (CC_ERR_OUT_OF_RANGE, 0) else
  match fuel with O => Fault OutOfFuel | S f =>
    do n <- sload h nd;
    if sn_data n =? x then Ok (CC_OK, i) else sindex_of_loop f h (sn_next n) x (i + 1)
  end.
Definition sl_index_of (l : slist) (x : N) : res (stat * N) :=
  sindex_of_loop (sfuel_of l) (sl_heap l) (sl_head l) x 0.

(** for (i = 0; i < size; i++) { node->data = elements[i]; node = node->next; } *)
Fixpoint swrite_back (k : nat) (i : N) (arr : list N) (h : sheap) (nd : N) : res sheap :=
  match k with O => Ok h | S k' =>
    do v <- of_opt OutOfBounds (getN arr i);
    do n <- sload h nd;
    do h1 <- sset_data h nd v;
    swrite_back k' (i + 1) arr h1 (sn_next n)
  end.

(** cc_slist_sort; [sorter] stands for qsort with the caller's comparator. *)
Definition sl_sort (sorter : list N -> list N) (l : slist) (a : alloc_st) : res (stat * slist * alloc_st) :=
  if g_slist_sort_single (sl_size l) then Ok (CC_OK, l, a) else
  do (st, arr, blk, a1) <- sl_to_array l a;
  if negb (is_ok st) then Ok (st, l, a1) else
  do h <- swrite_back (N.to_nat (sl_size l)) 0 (sorter arr) (sl_heap l) (sl_head l);
  do a2 <- release (sl_mem l) blk a1;
  Ok (CC_OK, supd l (sl_size l) (sl_head l) (sl_tail l) h, a2).

(* --------------------------------------------------------------------------- foreach, filter_mut *)
Definition sl_foreach (l : slist) : res (list N) := swalk_data (sfuel_of l) (sl_heap l) (sl_head l).

(** while (curr) { next = curr->next; if (!pred(curr->data)) unlinkn(list, curr, prev); else prev = curr; curr = next; } *)
Fixpoint sfilter_mut_loop (fuel : nat) (pred : N -> bool) (l : slist) (curr prev : N) (a : alloc_st) : res (slist * alloc_st) :=
  if curr =? 0 then Ok (l, a) else
  match fuel with O => Fault OutOfFuel | S f =>
    do n <- sload (sl_heap l) curr;
    if negb (pred (sn_data n)) then
      do (_, l', a') <- sl_unlinkn l curr prev a;
      sfilter_mut_loop f pred l' (sn_next n) prev a'
    else sfilter_mut_loop f pred l (sn_next n) curr a
  end.
Definition sl_filter_mut (pred : N -> bool) (l : slist) (a : alloc_st) : res (stat * slist * alloc_st) :=
  if sl_get_size l =? 0 then Ok (CC_ERR_OUT_OF_RANGE, l, a) else
  do (l', a') <- sfilter_mut_loop (sfuel_of l) pred l (sl_head l) 0 a; Ok (CC_OK, l', a').

(* --------------------------------------------------------------------------- iterators *)
Record siter := { si_index : N; si_next : N; si_current : N; si_prev : N }.

Definition siter_init (l : slist) : siter := {| si_index := 0; si_next := sl_head l; si_current := 0; si_prev := 0 |}.

(** prev = current; while (prev->next != next) prev = prev->next;   (prev is dereferenced on every test) *)
Fixpoint sprev_walk (fuel : nat) (h : sheap) (pv nxt : N) : res N :=
  do n <- sload h pv;
  if sn_next n =? nxt then Ok pv else
  match fuel with O => Fault OutOfFuel | S f => sprev_walk f h (sn_next n) nxt end.

(** if (current) { prev = current; while (prev->next != next) prev = prev->next; } *)
Definition sprev_of (l : slist) (current prev next : N) : res N :=
  if negb (current =? 0) then sprev_walk (sfuel_of l) (sl_heap l) current next else Ok prev.

Definition siter_next (l : slist) (it : siter) : res (stat * N * siter) :=
  if si_next it =? 0 then Ok (CC_ITER_END, 0, it) else
  do n <- sload (sl_heap l) (si_next it);
  do pv <- sprev_of l (si_current it) (si_prev it) (si_next it);
  Ok (CC_OK, sn_data n,
      {| si_index := si_index it + 1; si_next := sn_next n; si_current := si_next it; si_prev := pv |}).

Definition siter_remove (l : slist) (it : siter) (a : alloc_st) : res (stat * N * slist * siter * alloc_st) :=
  if si_current it =? 0 then Ok (CC_ERR_VALUE_NOT_FOUND, 0, l, it, a) else
  do (e, l', a') <- sl_unlinkn l (si_current it) (si_prev it) a;
  Ok (CC_OK, e, l', {| si_index := wsub (si_index it) 1; si_next := si_next it; si_current := 0; si_prev := si_prev it |}, a').

(** new->next = iter->current->next; iter->current->next = new;
    if (!new->next) tail = new; index++; size++.   (current / prev are not touched) *)
Definition siter_add (l : slist) (it : siter) (x : N) (a : alloc_st) : res (stat * slist * siter * alloc_st) :=
  match alloc (sl_mem l) SNODE_BYTES a with
  | (None, a1) => Ok (CC_ERR_ALLOC, l, it, a1)
  | (Some id, a1) =>
      do nc <- sload (sl_heap l) (si_current it);
      let h0 := shset (sl_heap l) id {| sn_data := x; sn_next := sn_next nc |} in
      do h1 <- sset_next h0 (si_current it) id;
      let tail' := if sn_next nc =? 0 then id else sl_tail l in
      Ok (CC_OK, supd l (sl_size l + 1) (sl_head l) tail' h1,
          {| si_index := si_index it + 1; si_next := si_next it; si_current := si_current it; si_prev := si_prev it |}, a1)
  end.

Definition siter_replace (l : slist) (it : siter) (x : N) : res (stat * N * slist) :=
  if si_current it =? 0 then Ok (CC_ERR_VALUE_NOT_FOUND, 0, l) else
  do n <- sload (sl_heap l) (si_current it);
  do h <- sset_data (sl_heap l) (si_current it) x;
  Ok (CC_OK, sn_data n, supd l (sl_size l) (sl_head l) (sl_tail l) h).

Definition siter_index (it : siter) : N := wsub (si_index it) 1.

(** Zip iterator. *)
Record sziter := { sz_index : N; sz1_next : N; sz2_next : N; sz1_current : N; sz2_current : N; sz1_prev : N; sz2_prev : N }.
Definition szip_init (l1 l2 : slist) : sziter :=
  {| sz_index := 0; sz1_next := sl_head l1; sz2_next := sl_head l2; sz1_current := 0; sz2_current := 0; sz1_prev := 0; sz2_prev := 0 |}.
Definition szip_next (l1 l2 : slist) (z : sziter) : res (stat * N * N * sziter) :=
  if (sz1_next z =? 0) || (sz2_next z =? 0) then Ok (CC_ITER_END, 0, 0, z) else
  do n1 <- sload (sl_heap l1) (sz1_next z);
  do n2 <- sload (sl_heap l2) (sz2_next z);
  do p1 <- sprev_of l1 (sz1_current z) (sz1_prev z) (sz1_next z);
  do p2 <- sprev_of l2 (sz2_current z) (sz2_prev z) (sz2_next z);
  Ok (CC_OK, sn_data n1, sn_data n2,
      {| sz_index := sz_index z + 1; sz1_next := sn_next n1; sz2_next := sn_next n2;
         sz1_current := sz1_next z; sz2_current := sz2_next z; sz1_prev := p1; sz2_prev := p2 |}).
Definition szip_add (l1 l2 : slist) (z : sziter) (e1 e2 : N) (a : alloc_st) : res (stat * slist * slist * sziter * alloc_st) :=
  match alloc (sl_mem l1) SNODE_BYTES a with
  | (None, a1) => Ok (CC_ERR_ALLOC, l1, l2, z, a1)
  | (Some id1, a1) =>
      match alloc (sl_mem l2) SNODE_BYTES a1 with
      | (None, a2) => do a3 <- release (sl_mem l1) id1 a2; Ok (CC_ERR_ALLOC, l1, l2, z, a3)
      | (Some id2, a2) =>
          do c1 <- sload (sl_heap l1) (sz1_current z);
          do c2 <- sload (sl_heap l2) (sz2_current z);
          do h1 <- sset_next (shset (sl_heap l1) id1 {| sn_data := e1; sn_next := sn_next c1 |}) (sz1_current z) id1;
          do h2 <- sset_next (shset (sl_heap l2) id2 {| sn_data := e2; sn_next := sn_next c2 |}) (sz2_current z) id2;
          let t1 := if sn_next c1 =? 0 then id1 else sl_tail l1 in
          let t2 := if sn_next c2 =? 0 then id2 else sl_tail l2 in
          Ok (CC_OK, supd l1 (sl_size l1 + 1) (sl_head l1) t1 h1, supd l2 (sl_size l2 + 1) (sl_head l2) t2 h2,
              {| sz_index := sz_index z + 1; sz1_next := sz1_next z; sz2_next := sz2_next z;
                 sz1_current := sz1_current z; sz2_current := sz2_current z; sz1_prev := sz1_prev z; sz2_prev := sz2_prev z |}, a2)
      end
  end.
Definition szip_remove (l1 l2 : slist) (z : sziter) (a : alloc_st) : res (stat * N * N * slist * slist * sziter * alloc_st) :=
  if (sz1_current z =? 0) || (sz2_current z =? 0) then Ok (CC_ERR_VALUE_NOT_FOUND, 0, 0, l1, l2, z, a) else
  do (e1, l1', a1) <- sl_unlinkn l1 (sz1_current z) (sz1_prev z) a;
  do (e2, l2', a2) <- sl_unlinkn l2 (sz2_current z) (sz2_prev z) a1;
  Ok (CC_OK, e1, e2, l1', l2',
      {| sz_index := wsub (sz_index z) 1; sz1_next := sz1_next z; sz2_next := sz2_next z;
         sz1_current := 0; sz2_current := 0; sz1_prev := sz1_prev z; sz2_prev := sz2_prev z |}, a2).
Definition szip_replace (l1 l2 : slist) (z : sziter) (e1 e2 : N) : res (stat * N * N * slist * slist) :=
  if (sz1_current z =? 0) || (sz2_current z =? 0) then Ok (CC_ERR_VALUE_NOT_FOUND, 0, 0, l1, l2) else
  do n1 <- sload (sl_heap l1) (sz1_current z);
  do n2 <- sload (sl_heap l2) (sz2_current z);
  do h1 <- sset_data (sl_heap l1) (sz1_current z) e1;
  do h2 <- sset_data (sl_heap l2) (sz2_current z) e2;
  Ok (CC_OK, sn_data n1, sn_data n2, supd l1 (sl_size l1) (sl_head l1) (sl_tail l1) h1, supd l2 (sl_size l2) (sl_head l2) (sl_tail l2) h2).
Definition szip_index (z : sziter) : N := wsub (sz_index z) 1.

(* --------------------------------------------------------------------------- state machine *)
(** Two lists [swa], [swb] and the ledger. An operation names its destination handle; the bulk
    operations take the other list as the source. *)
Record sworld := { swa : slist; swb : slist; swal : alloc_st }.
Inductive shnd := SHA | SHB.
Definition swget (w : sworld) (h : shnd) : slist := match h with SHA => swa w | SHB => swb w end.
Definition swother (h : shnd) : shnd := match h with SHA => SHB | SHB => SHA end.
Definition swset (w : sworld) (h : shnd) (l : slist) (a : alloc_st) : sworld :=
  match h with SHA => {| swa := l; swb := swb w; swal := a |} | SHB => {| swa := swa w; swb := l; swal := a |} end.
Definition swset2 (w : sworld) (h : shnd) (l src : slist) (a : alloc_st) : sworld :=
  match h with SHA => {| swa := l; swb := src; swal := a |} | SHB => {| swa := src; swb := l; swal := a |} end.

Inductive sop :=
  | SAddFirst (x : N) | SAddLast (x : N) | SAdd (x : N) | SAddAt (x i : N)
  | SRemove (x : N) | SRemoveAt (i : N) | SRemoveFirst | SRemoveLast | SRemoveAll | SRemoveAllCb
  | SReplaceAt (x i : N) | SGetFirst | SGetLast | SGetAt (i : N)
  | SIndexOf (x : N) | SContains (x : N) | SContainsValue (x : N) | SSize | SToArray | SForeach
  | SReverse | SFilterMut
  | SAddAll | SAddAllAt (i : N) | SSplice | SSpliceAt (i : N).

(** Status and out-values (a removed/replaced/read element, an index, a count, the array, the
    callback arguments in call order). *)
Inductive sout := SOut (st : stat) (vals : list N).

Definition svals1 (st : stat) (v : N) : list N := if is_ok st then [v] else [].

Section SStep.
Variable cmp : N -> N -> comparison.
Variable pred : N -> bool.

Definition sl_step (w : sworld) (hd : shnd) (o : sop) : res (sout * sworld) :=
  let l := swget w hd in
  let a := swal w in
  match o with
  | SAddFirst x => do (st, l', a') <- sl_add_first l x a; Ok (SOut st [], swset w hd l' a')
  | SAddLast x => do (st, l', a') <- sl_add_last l x a; Ok (SOut st [], swset w hd l' a')
  | SAdd x => do (st, l', a') <- sl_add l x a; Ok (SOut st [], swset w hd l' a')
  | SAddAt x i => do (st, l', a') <- sl_add_at l x i a; Ok (SOut st [], swset w hd l' a')
  | SRemove x => do (st, v, l', a') <- sl_remove l x a; Ok (SOut st (svals1 st v), swset w hd l' a')
  | SRemoveAt i => do (st, v, l', a') <- sl_remove_at l i a; Ok (SOut st (svals1 st v), swset w hd l' a')
  | SRemoveFirst => do (st, v, l', a') <- sl_remove_first l a; Ok (SOut st (svals1 st v), swset w hd l' a')
  | SRemoveLast => do (st, v, l', a') <- sl_remove_last l a; Ok (SOut st (svals1 st v), swset w hd l' a')
  | SRemoveAll => do (st, l', a', _) <- sl_remove_all l a; Ok (SOut st [], swset w hd l' a')
  | SRemoveAllCb => do (st, l', a', log) <- sl_remove_all_cb true l a; Ok (SOut st log, swset w hd l' a')
  | SReplaceAt x i => do (st, v, l') <- sl_replace_at l x i; Ok (SOut st (svals1 st v), swset w hd l' a)
  | SGetFirst => do (st, v) <- sl_get_first l; Ok (SOut st (svals1 st v), w)
  | SGetLast => do (st, v) <- sl_get_last l; Ok (SOut st (svals1 st v), w)
  | SGetAt i => do (st, v) <- sl_get_at l i; Ok (SOut st (svals1 st v), w)
  | SIndexOf x => do (st, v) <- sl_index_of l x; Ok (SOut st (svals1 st v), w)
  | SContains x => do c <- sl_contains l x; Ok (SOut CC_OK [c], w)
  | SContainsValue x => do c <- sl_contains_value cmp l x; Ok (SOut CC_OK [c], w)
  | SSize => Ok (SOut CC_OK [sl_get_size l], w)
  | SToArray =>
      do (st, arr, blk, a1) <- sl_to_array l a;
      if is_ok st then do a2 <- release (sl_mem l) blk a1; Ok (SOut st arr, swset w hd l a2)
      else Ok (SOut st [], swset w hd l a1)
  | SForeach => do d <- sl_foreach l; Ok (SOut CC_OK d, w)
  | SReverse => do l' <- sl_reverse l; Ok (SOut CC_OK [], swset w hd l' a)
  | SFilterMut => do (st, l', a') <- sl_filter_mut pred l a; Ok (SOut st [], swset w hd l' a')
  | SAddAll => do (st, l', a') <- sl_add_all l (swget w (swother hd)) a; Ok (SOut st [], swset w hd l' a')
  | SAddAllAt i => do (st, l', a') <- sl_add_all_at l (swget w (swother hd)) i a; Ok (SOut st [], swset w hd l' a')
  | SSplice => do (st, l', s') <- sl_splice l (swget w (swother hd)); Ok (SOut st [], swset2 w hd l' s' a)
  | SSpliceAt i => do (st, l', s') <- sl_splice_at l (swget w (swother hd)) i; Ok (SOut st [], swset2 w hd l' s' a)
  end.

Fixpoint sl_run (w : sworld) (ops : list (shnd * sop)) : res (list sout * sworld) :=
  match ops with
  | [] => Ok ([], w)
  | (hd, o) :: r => do (out, w1) <- sl_step w hd o; do (outs, w2) <- sl_run w1 r; Ok (out :: outs, w2)
  end.

(* --------------------------------------------------------------------------- the ideal object *)
(** A pair of plain lists. [fl] says that the allocator refuses inside this operation: an
    allocating operation then reports CC_ERR_ALLOC and changes nothing. The indexed bulk operations
    need [index < size]; to_array of an empty list is an empty array; index_of compares pointers. *)
Definition sspec_one (l src : list N) (o : sop) (fl : bool) : sout * list N * list N :=
  let err st := (SOut st [], l, src) in
  match o with
  | SAddFirst x => if fl then err CC_ERR_ALLOC else (SOut CC_OK [], x :: l, src)
  | SAddLast x | SAdd x => if fl then err CC_ERR_ALLOC else (SOut CC_OK [], l ++ [x], src)
  | SAddAt x i => if lenN l <=? i then err CC_ERR_OUT_OF_RANGE else
                  if fl then err CC_ERR_ALLOC else (SOut CC_OK [], insert_at i [x] l, src)
  | SRemove x => match remove_first_eq x l with
                 | Some l' => (SOut CC_OK [x], l', src) | None => err CC_ERR_VALUE_NOT_FOUND end
  | SRemoveAt i => match nth_in l i with
                   | Some v => (SOut CC_OK [v], remove_nth i l, src) | None => err CC_ERR_OUT_OF_RANGE end
  | SRemoveFirst => match l with v :: t => (SOut CC_OK [v], t, src) | [] => err CC_ERR_VALUE_NOT_FOUND end
  | SRemoveLast => match rev l with v :: t => (SOut CC_OK [v], rev t, src) | [] => err CC_ERR_VALUE_NOT_FOUND end
  | SRemoveAll => match l with [] => err CC_ERR_VALUE_NOT_FOUND | _ => (SOut CC_OK [], [], src) end
  | SRemoveAllCb => match l with [] => err CC_ERR_VALUE_NOT_FOUND | _ => (SOut CC_OK l, [], src) end
  | SReplaceAt x i => match nth_in l i with
                      | Some v => (SOut CC_OK [v], replace_nth i x l, src) | None => err CC_ERR_OUT_OF_RANGE end
  | SGetFirst => match l with v :: _ => (SOut CC_OK [v], l, src) | [] => err CC_ERR_VALUE_NOT_FOUND end
  | SGetLast => match rev l with v :: _ => (SOut CC_OK [v], l, src) | [] => err CC_ERR_VALUE_NOT_FOUND end
  | SGetAt i => match nth_in l i with Some v => (SOut CC_OK [v], l, src) | None => err CC_ERR_OUT_OF_RANGE end
  | SIndexOf x => match find_index (fun y => y =? x) l 0 with
                  | Some i => (SOut CC_OK [i], l, src) | None => err CC_ERR_OUT_OF_RANGE end
  | SContains x => (SOut CC_OK [lenN (filter (fun y => y =? x) l)], l, src)
  | SContainsValue x => (SOut CC_OK [lenN (filter (fun y => is_eq (cmp y x)) l)], l, src)
  | SSize => (SOut CC_OK [lenN l], l, src)
  | SToArray => if fl then err CC_ERR_ALLOC else (SOut CC_OK l, l, src)
  | SForeach => (SOut CC_OK l, l, src)
  | SReverse => (SOut CC_OK [], rev l, src)
  | SFilterMut => match l with [] => err CC_ERR_OUT_OF_RANGE | _ => (SOut CC_OK [], filter pred l, src) end
  | SAddAll => match src with [] => err CC_OK | _ => if fl then err CC_ERR_ALLOC else (SOut CC_OK [], l ++ src, src) end
  | SAddAllAt i => match src with [] => err CC_OK | _ =>
                     if lenN l <=? i then err CC_ERR_OUT_OF_RANGE else
                     if fl then err CC_ERR_ALLOC else (SOut CC_OK [], insert_at i src l, src) end
  | SSplice => match src with [] => err CC_OK | _ => (SOut CC_OK [], l ++ src, []) end
  | SSpliceAt i => match src with [] => err CC_OK | _ =>
                     if lenN l <=? i then err CC_ERR_OUT_OF_RANGE else (SOut CC_OK [], insert_at i src l, []) end
  end.

Definition sspec_step (p : list N * list N) (hd : shnd) (o : sop) (fl : bool) : sout * (list N * list N) :=
  match hd with
  | SHA => let '(out, l, s) := sspec_one (fst p) (snd p) o fl in (out, (l, s))
  | SHB => let '(out, l, s) := sspec_one (snd p) (fst p) o fl in (out, (s, l))
  end.

Fixpoint sspec_run (p : list N * list N) (ops : list (shnd * sop)) (fls : list bool) : list sout * (list N * list N) :=
  match ops with
  | [] => ([], p)
  | (hd, o) :: r =>
      let fl := match fls with f :: _ => f | [] => false end in
      let '(out, p1) := sspec_step p hd o fl in
      let '(outs, p2) := sspec_run p1 r (tl fls) in (out :: outs, p2)
  end.
End SStep.

(** Forward traversal (total version used by the abstraction): [k] nodes from [nd] along next, as
    (id, data) pairs. *)
Fixpoint schain_next (k : nat) (h : sheap) (nd : N) : list (N * N) :=
  match k with O => [] | S k' =>
    match shget h nd with Some n => (nd, sn_data n) :: schain_next k' h (sn_next n) | None => [] end end.
Definition sl_chain (l : slist) : list (N * N) := schain_next (N.to_nat (sl_size l)) (sl_heap l) (sl_head l).
Definition sl_abs (l : slist) : list N := map snd (sl_chain l).
