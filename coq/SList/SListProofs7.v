(** Singly linked list: cc_slist_sort (C18), inertness of rejected operations (C16) and atomicity of refused
    allocations (C08) for the operations of the state machine, and the generated guards.

    Proved here:
      swrite_back_spec       the write-back loop of sort stores the array into the nodes, in list order
      ssort_spec             (Section with [sorter], [sorter_perm]) size <> 1: same node ids, data = sorter (old data), the
                             array block is released again (live ledger back to where it was); a refused array leaves
                             everything unchanged. An EMPTY list takes the same path (request of 0 bytes), as in the C code.
      ssort_single           size = 1 returns CC_OK at once: no request, nothing changes (and sorter [d] = [d])
      ssort_sorted_perm, ssort_ok_sorted   with a sorter that sorts: result sorted, a permutation, well formed
      sframe_ok, sstep_frame_HA, sstep_frame   a status other than CC_OK leaves both lists (as records) and [live] unchanged
      g_slist_*_iff          each generated guard is true exactly when the documented range is violated *)
From Coq Require Import Permutation Sorted.
From CC Require Import Base.Prelude Base.ListMem Base.Alloc Base.AllocProofs.
From CC Require Import Generated.Status Generated.Guards List_.ListModel List_.ListHeap List_.ListProofs1 List_.ListProofs4 List_.ListProofs8.
From CC Require Import SList.SListModel SList.SListHeap SList.SListProofs1 SList.SListProofs2 SList.SListProofs3 SList.SListProofs4.
Local Open Scope N_scope.

(* ------------------------------------------------------------------------------------------ write-back loop of sort *)
Lemma swrite_back_spec rest : forall pre vs h n,
  length vs = length rest -> sseg h rest n -> NoDup (ids rest) -> ~ In 0 (ids rest) ->
  exists h', swrite_back (length rest) (lenN pre) (pre ++ vs) h (first_id rest n) = Ok h' /\
             sseg h' (combine (ids rest) vs) n /\ (forall j, ~ In j (ids rest) -> shget h' j = shget h j) /\ sdom_eq h h'.
Proof.
  induction rest as [|[x d] t IH]; intros pre vs h n Hlen Hs Hnd Hnz.
  - exists h. cbn. auto using sdom_eq_refl.
  - destruct vs as [|v vs]; [discriminate|]. destruct (nz_tail _ _ _ Hnz) as [Hx0 Hnz'].
    cbn [length swrite_back first_id ids map fst combine sseg] in Hlen, Hs, Hnd |- *.
    apply NoDup_cons_iff in Hnd. destruct Hnd as [Hxt Hnd'].
    rewrite getN_app_mid. cbn [of_opt bind]. destruct Hs as [Hx Ht].
    rewrite (sload_ok _ _ _ Hx0 Hx), (sset_data_ok _ _ _ _ Hx0 Hx). cbn [bind sn_next sn_data].
    set (h1 := shset h x _).
    assert (Ht1 : sseg h1 t n) by (eapply sseg_ext; [|exact Ht]; intros y Hy; unfold h1; apply shget_shset_other; intros ->; contradiction).
    replace (lenN pre + 1) with (lenN (pre ++ [v])) by (rewrite lenN_app; reflexivity).
    change (pre ++ v :: vs) with (pre ++ [v] ++ vs). rewrite app_assoc.
    destruct (IH (pre ++ [v]) vs h1 n ltac:(lia) Ht1 Hnd' Hnz') as (h' & E & Hs' & Hfr & Hd).
    rewrite E. exists h'. split; [reflexivity|]. split; [|split].
    + split; [|exact Hs']. rewrite Hfr by exact Hxt. unfold h1. rewrite shget_shset_same.
      rewrite first_id_combine by lia. reflexivity.
    + intros j Hj. rewrite Hfr by (intros Hin; apply Hj; right; exact Hin). unfold h1. apply shget_shset_other. intros ->; apply Hj; left; reflexivity.
    + eapply sdom_eq_trans; [eapply sdom_eq_shset; exact Hx|exact Hd].
Qed.

Section SSort.
Variable sorter : list N -> list N.
Hypothesis sorter_perm : forall l, Permutation (sorter l) l.

Lemma ssort_spec s l a F :
  srep s l -> slown a s l F -> lenN l <> 1 ->
  match alloc (sl_mem s) (wmul (sl_size s) 8) a with
  | (Some blk, a1) => exists s' a', sl_sort sorter s a = Ok (CC_OK, s', a') /\
        srep s' (combine (ids l) (sorter (map snd l))) /\ sl_abs s' = sorter (map snd l) /\
        slown a' s' (combine (ids l) (sorter (map snd l))) F /\ live a' = live a /\ ssame_hdr s s' /\ aframe a a'
  | (None, a1) => sl_sort sorter s a = Ok (CC_ERR_ALLOC, s, a1) /\ slown a1 s l F /\ live a1 = live a /\ aframe a a1
  end.
Proof.
  intros R [Hk Ho] Hl1. unfold sl_sort, g_slist_sort_single.
  replace (sl_size s =? 1) with false by (rewrite (sr_size _ _ R); lia).
  rewrite (sto_array_ok s l a R).
  destruct (alloc (sl_mem s) (wmul (sl_size s) 8) a) as [[blk|] a1] eqn:Ea; cbn [bind is_ok negb].
  - destruct (alloc_some _ _ _ _ _ Ea Hk) as (_ & Hl1' & Hk1 & Hf1 & Hb0 & Hfr).
    assert (Hlen : length (sorter (map snd l)) = length l).
    { rewrite (Permutation_length (sorter_perm (map snd l))). apply map_length. }
    rewrite (sr_size _ _ R), lenN_length, (sr_head _ _ R).
    destruct (swrite_back_spec l [] (sorter (map snd l)) (sl_heap s) 0 Hlen (sr_seg _ _ R) (sr_nodup _ _ R) (sr_nz _ _ R))
      as (h' & E & Hs' & Hfr' & Hd).
    cbn [app lenN length N.of_nat] in E. rewrite E. cbn [bind].
    destruct (release_split (sl_mem s) blk a1 [] _ (live a) Hl1' ltac:(intros []) Hk1) as (a2 & Er & Hl2 & Hk2 & Hf2 & _).
    rewrite Er. cbn [bind app] in *.
    assert (R' : srep (supd s (lenN l) (first_id l 0) (sl_tail s) h') (combine (ids l) (sorter (map snd l)))).
    { constructor; cbn [supd sl_heap sl_head sl_tail sl_size sl_hdr].
      - rewrite ids_combine by exact Hlen. apply R.
      - rewrite ids_combine by exact Hlen. apply R.
      - exact Hs'.
      - rewrite first_id_combine by exact Hlen. reflexivity.
      - rewrite last_id_combine by exact Hlen. apply R.
      - unfold lenN. rewrite combine_length. unfold ids. rewrite map_length, Hlen, Nat.min_id. reflexivity.
      - intros y Hy. rewrite ids_combine by exact Hlen. apply (sr_dom _ _ R), Hd, Hy.
      - apply R. }
    do 2 eexists. split; [reflexivity|]. split; [exact R'|]. split; [rewrite (srep_abs _ _ R'); apply snd_combine; exact Hlen|].
    split; [|split; [exact Hl2|split; [split; reflexivity|eapply aframe_trans; eassumption]]].
    split; [exact Hk2|]. unfold sowns. rewrite Hl2. eapply Permutation_trans; [exact Ho|].
    unfold sblocks, shblk. cbn [supd sl_hdr sl_mem]. rewrite ids_combine by exact Hlen. reflexivity.
  - destruct (alloc_none _ _ _ _ Ea Hk) as (Hl1' & Hk1 & Hf1 & _).
    split; [reflexivity|]. split; [split; [assumption|unfold sowns; rewrite Hl1'; exact Ho]|auto].
Qed.

(** A single element: the early return. *)
Lemma ssort_single s x d a : srep s [(x, d)] -> sl_sort sorter s a = Ok (CC_OK, s, a) /\ sorter [d] = [d].
Proof.
  intros R. split.
  - unfold sl_sort, g_slist_sort_single. rewrite (sr_size _ _ R). reflexivity.
  - apply Permutation_length_1_inv, Permutation_sym, sorter_perm.
Qed.

(** With a sorter that sorts (the libc assumption), the list ends up sorted and is a permutation of what it was. *)
Corollary ssort_sorted_perm (le : N -> N -> Prop) s l a F :
  (forall v, Sorted le (sorter v)) -> srep s l -> slown a s l F -> lenN l <> 1 ->
  forall blk a1, alloc (sl_mem s) (wmul (sl_size s) 8) a = (Some blk, a1) ->
  exists s' a', sl_sort sorter s a = Ok (CC_OK, s', a') /\ Sorted le (sl_abs s') /\ Permutation (sl_abs s') (sl_abs s) /\
                (exists l', srep s' l').
Proof.
  intros Hsorted R Hown Hl blk a1 Ea. pose proof (ssort_spec s l a F R Hown Hl) as H. rewrite Ea in H.
  destruct H as (s' & a' & E & R' & Ha & _). exists s', a'. split; [exact E|]. rewrite Ha, (srep_abs _ _ R).
  split; [apply Hsorted|]. split; [apply sorter_perm|]. eauto.
Qed.

(** Whatever path was taken (early return, empty list, ordinary): a CC_OK result is sorted, a permutation of the
    old contents, well formed; any other result is CC_ERR_ALLOC with the list unchanged. *)
Corollary ssort_ok_sorted (le : N -> N -> Prop) s l a F :
  (forall v, Sorted le (sorter v)) -> srep s l -> slown a s l F ->
  exists st s' a', sl_sort sorter s a = Ok (st, s', a') /\ live a' = live a /\
    ((st = CC_OK /\ Sorted le (sl_abs s') /\ Permutation (sl_abs s') (sl_abs s) /\ exists l', srep s' l') \/
     (st = CC_ERR_ALLOC /\ s' = s)).
Proof.
  intros Hsorted R Hown. destruct (N.eq_dec (lenN l) 1) as [H1|H1].
  - destruct l as [|[x d] t]; [cbn in H1; lia|]. destruct t as [|q t]; [|rewrite !lenN_cons in H1; lia].
    destruct (ssort_single s x d a R) as [E Es]. exists CC_OK, s, a. split; [exact E|]. split; [reflexivity|]. left.
    split; [reflexivity|]. rewrite (srep_abs _ _ R). cbn [map snd]. split; [rewrite <- Es; apply Hsorted|]. split; [reflexivity|eauto].
  - pose proof (ssort_spec s l a F R Hown H1) as H.
    destruct (alloc (sl_mem s) (wmul (sl_size s) 8) a) as [[blk|] a1].
    + destruct H as (s' & a' & E & R' & Ha & _ & Hl & _). exists CC_OK, s', a'. split; [exact E|]. split; [exact Hl|]. left.
      split; [reflexivity|]. rewrite Ha, (srep_abs _ _ R). split; [apply Hsorted|]. split; [apply sorter_perm|eauto].
    + destruct H as (E & _ & Hl & _). exists CC_ERR_ALLOC, s, a1. split; [exact E|]. split; [exact Hl|]. right. auto.
Qed.
End SSort.

(* ------------------------------------------------------------------------------------------ rejected operations are inert *)
Section SFrame.
Variable cmp : N -> N -> comparison.
Variable pred : N -> bool.

(** A status other than CC_OK leaves both lists exactly as they were (all fields, the whole heap) and the ledger's
    live blocks unchanged; only the allocator's request counter / plan position may have moved. *)
Definition sframe_ok (w w' : sworld) (out : sout) : Prop :=
  match out with SOut st _ => st <> CC_OK -> swa w' = swa w /\ swb w' = swb w /\ live (swal w') = live (swal w) end.

Ltac sframe_step E :=
  repeat (first
    [ rewrite bind_assoc in E
    | rewrite bind_if in E
    | match type of E with
      | context [match alloc ?t ?n ?a with _ => _ end] => let Ea := fresh "Ea" in destruct (alloc t n a) as [[?id|] ?a1] eqn:Ea
      | context [if ?c then _ else _] => destruct c eqn:?
      | (do _ <- ?x; _) = _ => let r := fresh "r" in destruct x as [r|] eqn:?; cbn [bind] in E; [repeat (let q := fresh "q" in destruct r as [r q])|discriminate]
      end ]; cbn [bind] in E).

Lemma sbulk_frame s1 A B l2 a F st s1' a' : sbulk_ok s1 A B l2 a F st s1' a' -> st <> CC_OK -> s1' = s1 /\ live a' = live a.
Proof. intros (_ & _ & [(-> & _)|(_ & -> & Hl & _)]) Hne; [congruence|auto]. Qed.

Theorem sstep_frame_HA w o out w' : swinv w -> sl_step cmp pred w SHA o = Ok (out, w') -> sframe_ok w w' out.
Proof.
  intros [Hk (la & lb & R1 & R2 & HP)] E. destruct w as [s1 s2 a]. cbn [swa swb swal] in *.
  assert (Hown : slown a s1 la (sblocks s2 lb)) by (split; assumption).
  destruct o; cbn [sl_step swget swother swset swset2 swa swb swal] in E.
  (* the bulk copies need the invariant (cleanup of the external chain) *)
  23:{ destruct lb as [|q tb].
       - rewrite (sadd_all_empty_src _ _ _ R2) in E. cbn [bind] in E. inversion E; subst. intros H; congruence.
       - destruct (sadd_all_spec s1 la s2 (q :: tb) a _ R1 R2 Hown ltac:(discriminate)) as (st & s1' & a' & E1 & Hb).
         rewrite E1 in E. cbn [bind] in E. inversion E; subst. intros Hne. destruct (sbulk_frame _ _ _ _ _ _ _ _ _ Hb Hne) as [-> Hl]. auto. }
  23:{ destruct lb as [|q tb].
       - rewrite (sadd_all_at_empty_src _ _ _ _ R2) in E. cbn [bind] in E. inversion E; subst. intros H; congruence.
       - destruct (N.leb_spec (lenN la) i) as [Hi|Hi].
         + rewrite (sadd_all_at_out s1 la s2 (q :: tb) a i R1 R2 ltac:(discriminate) Hi) in E. cbn [bind] in E. inversion E; subst. intros _; auto.
         + destruct (split_at la i Hi) as (A & [b db] & B' & -> & <-).
           destruct (sadd_all_at_spec s1 A b db B' s2 (q :: tb) a _ R1 R2 Hown ltac:(discriminate)) as (st & s1' & a' & E1 & Hb).
           rewrite E1 in E. cbn [bind] in E. inversion E; subst. intros Hne. destruct (sbulk_frame _ _ _ _ _ _ _ _ _ Hb Hne) as [-> Hl]. auto. }
  (* everything else: by inspection of the code, every non-OK return hands back the unchanged list *)
  all: unfold sl_add, sl_add_first, sl_add_last, sl_add_at, sl_remove, sl_remove_at, sl_remove_first, sl_remove_last,
         sl_remove_all, sl_remove_all_cb, sl_unlinkn_all, sl_replace_at, sl_get_first, sl_get_last, sl_get_at, sl_index_of,
         sl_contains, sl_contains_value, sl_to_array, sl_foreach, sl_reverse, sl_filter_mut, sl_splice, sl_splice_at, sl_splice_between in E.
  all: sframe_step E.
  all: try discriminate.
  all: try (inversion E; subst; cbn [sframe_ok swa swb swal]; intros Hne; try congruence;
            repeat split; try reflexivity; try (eapply alloc_none_live; eassumption); fail).
  all: try (inversion E; subst; cbn [sframe_ok swa swb swal svals1 is_ok]; intros Hne; exfalso; apply Hne; reflexivity).
  all: inversion E; subst; cbn [sframe_ok]; intros Hne;
       match goal with H : is_ok ?r = true |- _ => destruct r; try discriminate H; congruence end.
Qed.

(** The same for handle B. *)
Theorem sstep_frame w hd o out w' : swinv w -> sl_step cmp pred w hd o = Ok (out, w') -> sframe_ok w w' out.
Proof.
  intros Hw E. destruct hd; [eapply sstep_frame_HA; eassumption|].
  rewrite sstep_swap in E. destruct (sl_step cmp pred (swswap w) SHA o) as [[out1 w1]|] eqn:E1; cbn [bind] in E; [|discriminate].
  inversion E; subst. pose proof (sstep_frame_HA _ _ _ _ (swinv_swap _ Hw) E1) as H.
  destruct out as [st vals]. cbn [sframe_ok swswap swa swb swal] in *. intros Hne. destruct (H Hne) as (H1 & H2 & H3). auto.
Qed.
End SFrame.

(* ------------------------------------------------------------------------------------------ the generated guards (C16) *)
(** The range guards are regenerated from cc_slist.c on every run; these lemmas say that each of them is true exactly
    when the documented range is violated (they stop checking if the condition in the C source changes). *)
Lemma g_slist_get_node_at_range_iff index size : g_slist_get_node_at_range index size = true <-> size <= index.
Proof. unfold g_slist_get_node_at_range. lia. Qed.
Lemma g_slist_splice_at_range_iff index size : g_slist_splice_at_range index size = true <-> size <= index.
Proof. unfold g_slist_splice_at_range. lia. Qed.
Lemma g_slist_sublist_range_iff b e size : g_slist_sublist_range b e size = true <-> (e < b \/ size <= e).
Proof. unfold g_slist_sublist_range. lia. Qed.
Lemma g_slist_reverse_trivial_iff size : g_slist_reverse_trivial size = true <-> size < 2.
Proof. unfold g_slist_reverse_trivial. lia. Qed.
Lemma g_slist_sort_single_iff size : g_slist_sort_single size = true <-> size = 1.
Proof. unfold g_slist_sort_single. lia. Qed.
