(** Shared definitions of every engine model: results, word arithmetic, checked list memory. *)
From Coq Require Export List NArith ZArith Lia Bool.
From Coq Require Import ZifyBool ZifyNat ZifyN.
Export ListNotations.
Ltac Zify.zify_post_hook ::= Z.div_mod_to_equations.
Local Open Scope N_scope.

(** Why a model operation could not be executed as C would execute it. Each constructor stands
    for undefined behaviour (or a sanitizer abort) in the implementation. *)
Inductive fault := OutOfBounds | Uninit | NullDeref | Dangling | BadFree | DivZero | OutOfFuel | Leak.

Inductive res (A : Type) := Ok (a : A) | Fault (f : fault).
Arguments Ok {A} a.
Arguments Fault {A} f.

Definition bind {A B} (r : res A) (k : A -> res B) : res B :=
  match r with Ok a => k a | Fault f => Fault f end.
Notation "'do' x <- r ; k" := (bind r (fun x => k)) (at level 200, x pattern, r at level 100, k at level 200).

Definition of_opt {A} (f : fault) (o : option A) : res A :=
  match o with Some a => Ok a | None => Fault f end.

(** 2^64 kept as a numeral so that [lia] can use it. *)
Definition W : N := 18446744073709551616.
Lemma W_eq : W = 2 ^ 64. Proof. reflexivity. Qed.
Definition wadd (a b : N) : N := (a + b) mod W.
Definition wsub (a b : N) : N := (a + W - b mod W) mod W.
Definition wmul (a b : N) : N := (a * b) mod W.

(** Lists indexed by [N]. *)
Definition lenN {A} (l : list A) : N := N.of_nat (length l).
Definition getN {A} (l : list A) (i : N) : option A := nth_error l (N.to_nat i).
Fixpoint upd_nat {A} (l : list A) (i : nat) (v : A) : option (list A) :=
  match l, i with
  | [], _ => None
  | _ :: t, O => Some (v :: t)
  | h :: t, S j => match upd_nat t j v with Some t' => Some (h :: t') | None => None end
  end.
Definition updN {A} (l : list A) (i : N) (v : A) : option (list A) := upd_nat l (N.to_nat i) v.
Definition repeatN {A} (a : A) (n : N) : list A := repeat a (N.to_nat n).
Definition seqN (start len : N) : list N := map N.of_nat (seq (N.to_nat start) (N.to_nat len)).
Definition firstnN {A} (n : N) (l : list A) := firstn (N.to_nat n) l.
Definition skipnN {A} (n : N) (l : list A) := skipn (N.to_nat n) l.
