(** Support for the translator tie.  The models use the REFERENCE guard terms of [Generated.Guards]
    (translated from the pinned source and committed as gen/ref_guards.json).  On every run the
    translator re-reads the current source; a guard whose fresh term is not textually the reference
    term gets a lemma in Generated/SrcEq_<engine>.v stating that the two agree on every machine-word
    argument (inside the guard's declared domain, if it has one), proved by [src_eq_tac].  A lemma that
    does not prove is a broken obligation; [find_cex] then looks for arguments on which the two differ. *)
From Coq Require Import ZifyBool ZifyN.
From CC Require Import Base.Prelude.
Local Open Scope N_scope.

Ltac Zify.zify_post_hook ::= Z.div_mod_to_equations.

Ltac src_eq_tac :=
  intros;
  first [ reflexivity
        | unfold wsub, wadd, wmul in *; cbv delta [W] in *; first [ reflexivity | timeout 60 lia ] ].

(** whole functions (type N): bit operations are outside lia, so anything but a syntactic identity (after
    unfolding the wrap-around operators) is left unproved and goes to the counterexample search *)
Ltac src_eq_fun_tac :=
  intros;
  first [ reflexivity
        | unfold wsub, wadd, wmul in *; cbv delta [W] in *; first [ reflexivity | timeout 60 lia ] ].

(** all [n]-tuples over [grid], first one on which [f] is false *)
Fixpoint find_cex (n : nat) (grid : list N) (f : list N -> bool) : option (list N) :=
  match n with
  | O => if f [] then None else Some []
  | S k => (fix go (g : list N) : option (list N) :=
              match g with
              | [] => None
              | x :: g' => match find_cex k grid (fun l => f (x :: l)) with
                           | Some l => Some (x :: l)
                           | None => go g'
                           end
              end) grid
  end.

Definition cex_grid : list N :=
  [0; 1; 2; 3; 4; 5; 7; 8; 9; 15; 16; 17; 64; 255; 257; 1000; 65535; 65537; 1048577; 16777217; 1073741825; 2147483647;
   2147483648; 2147483649; 4294967295; 4294967296; 4294967297; 281474976710657; 9223372036854775807; 9223372036854775808;
   18446744073709551614; 18446744073709551615].
Definition cex_grid_small : list N := [0; 1; 2; 3; 8; 9223372036854775808; 18446744073709551614; 18446744073709551615].
