(** The allocation ledger shared by every engine model.
    One [alloc] / [release] per C call site [mem_alloc / mem_calloc / malloc / calloc] and
    [mem_free / free]; the tag records which of the two families the C text names. *)
From CC Require Import Base.Prelude.
Local Open Scope N_scope.

Inductive tag := Conf | Libc.
Definition tag_eqb (a b : tag) : bool :=
  match a, b with Conf, Conf | Libc, Libc => true | _, _ => false end.

Record block := { b_id : N; b_tag : tag; b_bytes : N }.

(** [plan]: answers for the coming requests, [true] = grant; exhausted = grant.
    [limit]: a request for more bytes than this is refused whatever the plan says (it still
    consumes a plan element). *)
Record alloc_st := {
  plan : list bool;
  limit : N;
  next_id : N;
  live : list block;
  nreq : N;          (* requests made so far, granted or not *)
}.

Definition alloc_init (p : list bool) (lim : N) : alloc_st :=
  {| plan := p; limit := lim; next_id := 1; live := []; nreq := 0 |}.

(** Result: [Some id] (ids are never 0, never reused) or [None] when refused. *)
Definition alloc (t : tag) (bytes : N) (a : alloc_st) : option N * alloc_st :=
  let '(grant, p') := match plan a with [] => (true, []) | g :: p => (g, p) end in
  if grant && (bytes <=? limit a) then
    (Some (next_id a),
     {| plan := p'; limit := limit a; next_id := next_id a + 1;
        live := {| b_id := next_id a; b_tag := t; b_bytes := bytes |} :: live a;
        nreq := nreq a + 1 |})
  else
    (None, {| plan := p'; limit := limit a; next_id := next_id a; live := live a; nreq := nreq a + 1 |}).

Fixpoint remove_block (id : N) (l : list block) : option (block * list block) :=
  match l with
  | [] => None
  | b :: r => if b_id b =? id then Some (b, r)
              else match remove_block id r with Some (x, r') => Some (x, b :: r') | None => None end
  end.

(** Releasing a block that is not live, or through the other family, is a fault. *)
Definition release (t : tag) (id : N) (a : alloc_st) : res alloc_st :=
  match remove_block id (live a) with
  | Some (b, r) =>
      if tag_eqb (b_tag b) t then
        Ok {| plan := plan a; limit := limit a; next_id := next_id a; live := r; nreq := nreq a |}
      else Fault BadFree
  | None => Fault BadFree
  end.

Definition count_tag (t : tag) (a : alloc_st) : N :=
  lenN (filter (fun b => tag_eqb (b_tag b) t) (live a)).

Definition is_live (id : N) (a : alloc_st) : bool :=
  existsb (fun b => b_id b =? id) (live a).
