(** Lemmas about the checked list memory of [Prelude]. *)
From CC Require Import Base.Prelude.
Local Open Scope N_scope.

Section ListMem.
Context {A : Type}.
Implicit Types (l : list A) (i j : N) (v : A).

Lemma lenN_nil : lenN (@nil A) = 0. Proof. reflexivity. Qed.
Lemma lenN_cons (a : A) l : lenN (a :: l) = lenN l + 1.
Proof. unfold lenN; cbn [length]; lia. Qed.
Lemma lenN_app l1 l2 : lenN (l1 ++ l2) = lenN l1 + lenN l2.
Proof. unfold lenN; rewrite app_length; lia. Qed.
Lemma lenN_repeatN (a : A) n : lenN (repeatN a n) = n.
Proof. unfold lenN, repeatN; rewrite repeat_length; lia. Qed.

Lemma getN_Some_lt l i v : getN l i = Some v -> i < lenN l.
Proof.
  unfold getN, lenN; intros H.
  assert (N.to_nat i < length l)%nat by (apply nth_error_Some; congruence). lia.
Qed.
Lemma getN_lt l i : i < lenN l -> exists v, getN l i = Some v.
Proof.
  unfold getN, lenN; intros H.
  destruct (nth_error l (N.to_nat i)) eqn:E; [eauto|].
  apply nth_error_None in E; lia.
Qed.
Lemma getN_None_ge l i : getN l i = None <-> lenN l <= i.
Proof. unfold getN, lenN; rewrite nth_error_None; lia. Qed.

Lemma upd_nat_length l n v l' : upd_nat l n v = Some l' -> length l' = length l.
Proof.
  revert n l'; induction l as [|h t IH]; intros [|n] l' H; cbn in H; try discriminate.
  - inversion H; reflexivity.
  - destruct (upd_nat t n v) eqn:E; [|discriminate]. inversion H; cbn; f_equal; eauto.
Qed.
Lemma upd_nat_lt l n v : (n < length l)%nat -> exists l', upd_nat l n v = Some l'.
Proof.
  revert n; induction l as [|h t IH]; intros [|n] H; cbn in *; try lia; eauto.
  destruct (IH n) as [t' Ht']; [lia|]. rewrite Ht'; eauto.
Qed.
Lemma upd_nat_None l n v : upd_nat l n v = None <-> (length l <= n)%nat.
Proof.
  revert n; induction l as [|h t IH]; intros [|n]; cbn; try (split; [intros; lia|reflexivity]).
  - split; [discriminate|lia].
  - destruct (upd_nat t n v) eqn:E.
    + split; [discriminate|]. intros H. assert (length t <= n)%nat by lia.
      apply IH in H0; congruence.
    + split; [|reflexivity]. intros _. apply IH in E. lia.
Qed.
Lemma upd_nat_same l n v l' : upd_nat l n v = Some l' -> nth_error l' n = Some v.
Proof.
  revert n l'; induction l as [|h t IH]; intros [|n] l' H; cbn in H; try discriminate.
  - inversion H; reflexivity.
  - destruct (upd_nat t n v) eqn:E; [|discriminate]. inversion H; cbn; eauto.
Qed.
Lemma upd_nat_other l n m v l' : upd_nat l n v = Some l' -> n <> m -> nth_error l' m = nth_error l m.
Proof.
  revert n m l'; induction l as [|h t IH]; intros [|n] m l' H Hne; cbn in H; try discriminate.
  - inversion H; subst. destruct m; [congruence|reflexivity].
  - destruct (upd_nat t n v) eqn:E; [|discriminate]. inversion H; subst.
    destruct m; [reflexivity|]. cbn. eapply IH; eauto.
Qed.

Lemma lenN_updN l i v l' : updN l i v = Some l' -> lenN l' = lenN l.
Proof. unfold updN, lenN; intros H; apply upd_nat_length in H; lia. Qed.
Lemma updN_lt l i v : i < lenN l -> exists l', updN l i v = Some l'.
Proof. unfold updN, lenN; intros H; apply upd_nat_lt; lia. Qed.
Lemma updN_None l i v : updN l i v = None <-> lenN l <= i.
Proof. unfold updN, lenN; rewrite upd_nat_None; lia. Qed.
Lemma getN_updN_same l i v l' : updN l i v = Some l' -> getN l' i = Some v.
Proof. unfold updN, getN; apply upd_nat_same. Qed.
Lemma getN_updN_other l i j v l' : updN l i v = Some l' -> i <> j -> getN l' j = getN l j.
Proof. unfold updN, getN; intros H Hne; eapply upd_nat_other; eauto; lia. Qed.

Lemma getN_app1 l1 l2 i : i < lenN l1 -> getN (l1 ++ l2) i = getN l1 i.
Proof. unfold getN, lenN; intros; apply nth_error_app1; lia. Qed.
Lemma getN_app2 l1 l2 i : lenN l1 <= i -> getN (l1 ++ l2) i = getN l2 (i - lenN l1).
Proof.
  unfold getN, lenN; intros. rewrite nth_error_app2 by lia. f_equal; lia.
Qed.
Lemma getN_repeatN (a : A) n i : i < n -> getN (repeatN a n) i = Some a.
Proof.
  unfold getN, repeatN; intros H.
  destruct (nth_error (repeat a (N.to_nat n)) (N.to_nat i)) eqn:E.
  - apply nth_error_In, repeat_spec in E; congruence.
  - apply nth_error_None in E; rewrite repeat_length in E; lia.
Qed.
End ListMem.

Lemma seqN_length s n : lenN (seqN s n) = n.
Proof. unfold lenN, seqN; rewrite map_length, seq_length; lia. Qed.
Lemma seqN_S s n : seqN s (n + 1) = seqN s n ++ [s + n].
Proof.
  unfold seqN. replace (N.to_nat (n + 1)) with (S (N.to_nat n)) by lia.
  rewrite seq_S, map_app; cbn. do 2 f_equal. lia.
Qed.
Lemma seqN_0 s : seqN s 0 = []. Proof. reflexivity. Qed.
Lemma seqN_cons s n : seqN s (n + 1) = s :: seqN (s + 1) n.
Proof.
  unfold seqN. replace (N.to_nat (n + 1)) with (S (N.to_nat n)) by lia.
  cbn [seq map]. f_equal; [lia|]. f_equal. f_equal. lia.
Qed.
Lemma in_seqN s n x : In x (seqN s n) <-> s <= x < s + n.
Proof.
  unfold seqN; rewrite in_map_iff; split.
  - intros (k & <- & Hk); apply in_seq in Hk; lia.
  - intros H; exists (N.to_nat x); split; [lia|]. apply in_seq; lia.
Qed.
