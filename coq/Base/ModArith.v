(** Modular-index facts used by the ring-shaped containers (ring buffer, deque). *)
From CC Require Import Base.Prelude.
Local Open Scope N_scope.

Lemma mod_small_iff a c : 0 < c -> (a mod c = a <-> a < c).
Proof.
  intros Hc; split; intros H.
  - rewrite <- H; apply N.mod_lt; lia.
  - apply N.mod_small; assumption.
Qed.

(** Offsets less than a period apart land on different slots. *)
Lemma ring_inj t i j c : 0 < c -> i < c -> j < c -> (t + i) mod c = (t + j) mod c -> i = j.
Proof.
  intros Hc Hi Hj H.
  assert (Hd : forall a b, a <= b -> b < c -> (t + a) mod c = (t + b) mod c -> a = b).
  { clear. intros a b Hab Hb H.
    assert (E : (b - a) mod c = 0).
    { replace (t + b) with ((t + a) + (b - a)) in H by lia.
      rewrite (N.add_mod (t + a) (b - a)) in H by lia.
      remember ((t + a) mod c) as r. remember ((b - a) mod c) as d.
      assert (r < c) by (subst r; apply N.mod_lt; lia).
      assert (d < c) by (subst d; apply N.mod_lt; lia).
      destruct (N.lt_ge_cases (r + d) c) as [L|G].
      - rewrite N.mod_small in H by assumption. lia.
      - replace (r + d) with ((r + d - c) + 1 * c) in H by lia.
        rewrite N.mod_add in H by lia. rewrite N.mod_small in H by lia. lia. }
    rewrite N.mod_small in E by lia. lia. }
  destruct (N.le_ge_cases i j); [apply Hd; auto | symmetry; apply Hd; auto].
Qed.

Lemma ring_succ t i c : 0 < c -> ((t + 1) mod c + i) mod c = (t + (i + 1)) mod c.
Proof.
  intros Hc. rewrite N.add_mod_idemp_l by lia. f_equal; lia.
Qed.

Lemma ring_full t c : 0 < c -> t < c -> (t + c) mod c = t.
Proof.
  intros Hc Ht. replace (t + c) with (t + 1 * c) by lia.
  rewrite N.mod_add by lia. apply N.mod_small; assumption.
Qed.
