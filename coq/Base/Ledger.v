(** Ownership reasoning over the allocation ledger: well-formed ledgers, owned blocks, frame lemmas. *)
From CC Require Import Base.Prelude Base.ListMem Base.Alloc Base.AllocProofs.
Local Open Scope N_scope.

Definition ids_nodup (a : alloc_st) : Prop := NoDup (map b_id (live a)).
Definition ids_bounded (a : alloc_st) : Prop := forall b, In b (live a) -> b_id b < next_id a.
Definition ledger_wf (a : alloc_st) : Prop := ids_nodup a /\ ids_bounded a.
Definition owned (t : tag) (id : N) (a : alloc_st) : Prop := exists b, In b (live a) /\ b_id b = id /\ b_tag b = t.

Lemma ledger_wf_init p lim : ledger_wf (alloc_init p lim).
Proof. split; [constructor|intros b []]. Qed.

(** One allocation request. *)
Lemma alloc_wf t n a r a' :
  ledger_wf a -> alloc t n a = (r, a') ->
  ledger_wf a' /\ limit a' = limit a /\ nreq a' = nreq a + 1 /\
  match r with
  | Some id => id = next_id a /\ live a' = {| b_id := id; b_tag := t; b_bytes := n |} :: live a /\
               next_id a' = next_id a + 1 /\ n <= limit a
  | None => live a' = live a /\ next_id a' = next_id a
  end.
Proof.
  intros [Hnd Hbd] E. pose proof (alloc_cases t n a) as C. rewrite E in C.
  destruct r as [id|].
  - destruct C as (-> & Hl & Hn & Hlim & Hq & _).
    assert (Hle : n <= limit a).
    { unfold alloc in E. destruct (plan a) as [|g p]; cbn [andb] in E.
      - destruct (n <=? limit a) eqn:E2; [lia|inversion E].
      - destruct (g && (n <=? limit a)) eqn:E2; [|inversion E]. apply andb_true_iff in E2. lia. }
    repeat apply conj; auto.
    + unfold ids_nodup. rewrite Hl. cbn. constructor; [|exact Hnd].
      intros Hin. apply in_map_iff in Hin. destruct Hin as (b & Eb & Hb). apply Hbd in Hb. lia.
    + intros b. rewrite Hl, Hn. intros [<-|Hb]; cbn; [lia|]. apply Hbd in Hb. lia.
  - destruct C as (Hl & Hn & Hlim & Hq & _). repeat apply conj; auto.
    + unfold ids_nodup. rewrite Hl. exact Hnd.
    + intros b. rewrite Hl, Hn. apply Hbd.
Qed.

(** Releasing an owned block: succeeds, removes exactly that block. *)
Lemma release_owned t id a :
  ledger_wf a -> owned t id a ->
  exists a', release t id a = Ok a' /\ ledger_wf a' /\ next_id a' = next_id a /\ limit a' = limit a /\
             nreq a' = nreq a /\ plan a' = plan a /\
             (forall b, In b (live a') <-> In b (live a) /\ b_id b <> id).
Proof.
  intros [Hnd Hbd] (b & Hin & Hid & Htag). unfold release.
  destruct (remove_block_in id (live a)) as (b' & r & Hrm); [eauto|].
  rewrite Hrm. destruct (remove_block_spec _ _ _ _ Hrm) as (Hb' & l1 & l2 & Hl & Hr & Hbefore).
  assert (b' = b).
  { unfold ids_nodup in Hnd. rewrite Hl in Hnd, Hin. rewrite map_app in Hnd. cbn in Hnd.
    apply in_app_or in Hin. destruct Hin as [Hin|[E|Hin]]; [exfalso; eapply Hbefore; eauto|auto|].
    apply NoDup_remove_2 in Hnd. exfalso. apply Hnd. apply in_or_app. right.
    apply in_map_iff. exists b. split; [congruence|assumption]. }
  subst b'. rewrite Htag, tag_eqb_refl. eexists; split; [reflexivity|]. cbn [live next_id limit nreq plan].
  assert (Hiff : forall x, In x r <-> In x (live a) /\ b_id x <> id).
  { intros x. rewrite Hl, Hr. rewrite !in_app_iff. cbn [In]. unfold ids_nodup in Hnd. rewrite Hl, map_app in Hnd. cbn in Hnd. split.
    - intros [Hx|Hx]; (split; [tauto|]).
      + intros E. eapply Hbefore; eauto.
      + intros E. apply NoDup_remove_2 in Hnd. apply Hnd. apply in_or_app. right. apply in_map_iff. exists x. split; [congruence|assumption].
    - intros [[Hx|[Hx|Hx]] Hne]; [tauto| |tauto]. subst x. congruence. }
  repeat apply conj; auto.
  - unfold ids_nodup in *. cbn [live]. rewrite Hl in Hnd. rewrite Hr. rewrite map_app in *. cbn in Hnd.
    eapply NoDup_remove_1; eauto.
  - intros x Hx. cbn [live next_id] in *. apply Hiff in Hx. apply Hbd. tauto.
Qed.

Lemma owned_alloc t id a t' n r a' : owned t id a -> alloc t' n a = (r, a') -> owned t id a'.
Proof.
  intros (b & Hb & Hid & Ht) E. pose proof (alloc_cases t' n a) as C. rewrite E in C.
  exists b. repeat apply conj; auto. destruct r; [destruct C as (_ & -> & _); right; assumption|destruct C as (-> & _); assumption].
Qed.

Lemma owned_after_release t id a a' id' :
  (forall b, In b (live a') <-> In b (live a) /\ b_id b <> id') -> owned t id a -> id <> id' -> owned t id a'.
Proof. intros H (b & Hb & Hid & Ht) Hne. exists b. repeat apply conj; auto. apply H. split; [assumption|congruence]. Qed.

Lemma owned_new t n a a' :
  live a' = {| b_id := next_id a; b_tag := t; b_bytes := n |} :: live a -> owned t (next_id a) a'.
Proof. intros H. eexists. rewrite H. split; [left; reflexivity|]. split; reflexivity. Qed.

Lemma owned_bound t id a : ledger_wf a -> owned t id a -> id < next_id a.
Proof. intros [_ Hb] (b & Hin & <- & _). apply Hb. assumption. Qed.

(** A release only removes blocks; an allocation adds at most one block, carrying the requested tag. *)
Lemma release_incl t id a a' : release t id a = Ok a' -> forall b, In b (live a') -> In b (live a).
Proof.
  unfold release. destruct (remove_block id (live a)) as [[b r]|] eqn:E; [|discriminate].
  destruct (tag_eqb (b_tag b) t); [|discriminate]. intros H; inversion H; subst; clear H. cbn [live].
  destruct (remove_block_spec _ _ _ _ E) as (_ & l1 & l2 & -> & -> & _).
  intros x Hx. apply in_app_or in Hx. apply in_or_app. destruct Hx; [left|right; right]; assumption.
Qed.
Lemma alloc_new_tag t n a r a' : alloc t n a = (r, a') -> forall b, In b (live a') -> In b (live a) \/ b_tag b = t.
Proof.
  intros E b Hb. pose proof (alloc_cases t n a) as C. rewrite E in C. destruct r as [id|].
  - destruct C as (_ & Hl & _). rewrite Hl in Hb. destruct Hb as [<-|Hb]; [right; reflexivity|left; assumption].
  - destruct C as (Hl & _). rewrite Hl in Hb. left; assumption.
Qed.
