(** Characterising lemmas for the allocation ledger, so that engine proofs never unfold it. *)
From CC Require Import Base.Prelude Base.ListMem Base.Alloc.
Local Open Scope N_scope.

Lemma tag_eqb_refl t : tag_eqb t t = true. Proof. destruct t; reflexivity. Qed.
Lemma tag_eqb_eq a b : tag_eqb a b = true <-> a = b.
Proof. destruct a, b; cbn; split; congruence. Qed.

Lemma alloc_cases t n a :
  match alloc t n a with
  | (Some id, a') => id = next_id a /\ live a' = {| b_id := id; b_tag := t; b_bytes := n |} :: live a /\
                     next_id a' = next_id a + 1 /\ limit a' = limit a /\ nreq a' = nreq a + 1 /\ plan a' = tl (plan a)
  | (None, a') => live a' = live a /\ next_id a' = next_id a /\ limit a' = limit a /\ nreq a' = nreq a + 1 /\
                  plan a' = tl (plan a)
  end.
Proof.
  unfold alloc. destruct (plan a) as [|g p]; cbn [tl].
  - destruct (true && (n <=? limit a)); cbn; auto 10.
  - destruct (g && (n <=? limit a)); cbn; auto 10.
Qed.

(** With an exhausted plan and a request within the limit the allocator grants. *)
Lemma alloc_grants t n a : plan a = [] -> n <= limit a -> exists a', alloc t n a = (Some (next_id a), a') /\ plan a' = [].
Proof.
  intros Hp Hl. unfold alloc. rewrite Hp. cbn [andb].
  replace (n <=? limit a) with true by lia. eexists; split; reflexivity.
Qed.

Lemma release_head t id n l a :
  live a = {| b_id := id; b_tag := t; b_bytes := n |} :: l ->
  exists a', release t id a = Ok a' /\ live a' = l /\ next_id a' = next_id a /\ limit a' = limit a /\
             nreq a' = nreq a /\ plan a' = plan a.
Proof.
  intros H. unfold release. rewrite H. cbn [remove_block b_id]. rewrite N.eqb_refl. cbn [b_tag].
  rewrite tag_eqb_refl. eexists; split; [reflexivity|]. cbn; auto 10.
Qed.

(** Ids handed out are fresh: every live id is below [next_id]. *)
Definition ledger_ok (a : alloc_st) : Prop :=
  NoDup (map b_id (live a)) /\ forall b, In b (live a) -> 0 < b_id b < next_id a.

Lemma ledger_ok_init p lim : ledger_ok (alloc_init p lim).
Proof. split; cbn; [constructor | tauto]. Qed.

Lemma alloc_ledger_ok t n a r a' : ledger_ok a -> 0 < next_id a -> alloc t n a = (r, a') -> ledger_ok a' /\ 0 < next_id a'.
Proof.
  intros [Hnd Hlt] Hpos E. pose proof (alloc_cases t n a) as C. rewrite E in C.
  destruct r as [id|].
  - destruct C as (-> & Hl & Hn & _). split; [|lia]. split.
    + rewrite Hl; cbn. constructor; [|assumption].
      intros Hin. apply in_map_iff in Hin. destruct Hin as (b & Eb & Hb). apply Hlt in Hb. lia.
    + intros b Hb. rewrite Hl in Hb. destruct Hb as [<-|Hb]; cbn; [lia|]. apply Hlt in Hb. lia.
  - destruct C as (Hl & Hn & _). split; [|lia]. split; rewrite Hl; [assumption|].
    intros b Hb. rewrite Hn. auto.
Qed.

Lemma remove_block_spec id l b r :
  remove_block id l = Some (b, r) ->
  b_id b = id /\ exists l1 l2, l = l1 ++ b :: l2 /\ r = l1 ++ l2 /\ forall x, In x l1 -> b_id x <> id.
Proof.
  revert b r; induction l as [|x l IH]; intros b r H; cbn in H; [discriminate|].
  destruct (b_id x =? id) eqn:E.
  - inversion H; subst. split; [lia|]. exists [], r. cbn. tauto.
  - destruct (remove_block id l) as [[y r']|] eqn:E2; [|discriminate]. inversion H; subst.
    destruct (IH _ _ eq_refl) as (Hb & l1 & l2 & -> & -> & Hn). split; [assumption|].
    exists (x :: l1), l2. split; [reflexivity|]. split; [reflexivity|].
    intros z [<-|Hz]; [lia|auto].
Qed.

Lemma remove_block_in id l : (exists b, In b l /\ b_id b = id) -> exists b r, remove_block id l = Some (b, r).
Proof.
  induction l as [|x l IH]; intros (b & Hb & Eb); [destruct Hb|].
  cbn. destruct (b_id x =? id) eqn:E; [eauto|].
  destruct Hb as [->|Hb]; [lia|]. destruct IH as (b' & r & ->); eauto.
Qed.
