(** Executable model of src/cc_pqueue.c (definitions only).
    CC_PQueue: binary max-heap (w.r.t. the user's comparator) in a growable pointer buffer.
    The comparator is a Section variable; after the section closes every function takes it as
    its first argument (the OCaml driver passes the trace's comparator).
    exp_factor (a C float) is the rational pq_num/pq_den; (size_t)(capacity * exp_factor) is
    capacity*num/den (trusted-base item T5: exact for the dyadic factors used in the traces). *)
From CC Require Import Base.Prelude Base.Alloc Generated.Status Generated.Constants Generated.Macros Generated.Guards.
Local Open Scope N_scope.

Record pq := {
  pq_size : N; pq_cap : N;
  pq_num : N; pq_den : N;        (* exp_factor = num/den *)
  pq_buf : list (option N);      (* its length is the ALLOCATED slot count (bytes / 8), None = never written *)
  pq_hdr : N; pq_blk : N;        (* ledger ids of the header and the buffer *)
  pq_mem : tag;
}.

Definition set_buf (s : pq) (buf : list (option N)) (size : N) : pq :=
  {| pq_size := size; pq_cap := pq_cap s; pq_num := pq_num s; pq_den := pq_den s; pq_buf := buf;
     pq_hdr := pq_hdr s; pq_blk := pq_blk s; pq_mem := pq_mem s |}.

(** Checked slot access: outside the allocation = OutOfBounds, never written = Uninit. *)
Definition rd (buf : list (option N)) (i : N) : res N :=
  do slot <- of_opt OutOfBounds (getN buf i); of_opt Uninit slot.
Definition wr (buf : list (option N)) (i : N) (v : N) : res (list (option N)) :=
  of_opt OutOfBounds (updN buf i (Some v)).

(** sizeof(CC_PQueue) = 64 (2 size_t, float + padding, buffer pointer, 3 allocator pointers, cmp). *)
Definition PQ_HEADER_BYTES : N := 64.

Definition SIZE_MAX : N := W - 1.
(** cc_pqueue_new_conf: [if (conf->exp_factor <= 1) ex = DEFAULT_EXPANSION_FACTOR]. *)
Definition pq_factor (num den : N) : N * N :=
  if num <=? den then (PQUEUE_DEFAULT_EXPANSION_FACTOR_num, PQUEUE_DEFAULT_EXPANSION_FACTOR_den) else (num, den).
(** [!conf->capacity || ex >= CC_MAX_ELEMENTS / conf->capacity] (integer division, then compared
    with the float: n/d >= q  <->  q*d <= n). *)
Definition pq_bad_capacity (capacity n d : N) : bool :=
  (capacity =? 0) || ((CC_MAX_ELEMENTS / capacity) * d <=? n).

Definition pq_new (mem : tag) (capacity num den : N) (a : alloc_st) : res (stat * option pq * alloc_st) :=
  let '(n, d) := pq_factor num den in
  if pq_bad_capacity capacity n d then Ok (CC_ERR_INVALID_CAPACITY, None, a) else
  if g_pq_new_bytes capacity SIZE_MAX then Ok (CC_ERR_INVALID_CAPACITY, None, a) else    (* capacity * sizeof(void* ) must fit *)
  match alloc mem PQ_HEADER_BYTES a with                       (* mem_calloc(1, sizeof(CC_PQueue)) *)
  | (None, a1) => Ok (CC_ERR_ALLOC, None, a1)
  | (Some h, a1) =>
      match alloc mem (wmul capacity 8) a1 with                (* mem_alloc(capacity * sizeof(void* )) *)
      | (None, a2) => do a3 <- release mem h a2; Ok (CC_ERR_ALLOC, None, a3)
      | (Some b, a2) =>
          Ok (CC_OK, Some {| pq_size := 0; pq_cap := capacity; pq_num := n; pq_den := d;
                             pq_buf := repeatN None (wmul capacity 8 / 8);
                             pq_hdr := h; pq_blk := b; pq_mem := mem |}, a2)
      end
  end.

Definition pq_destroy (s : pq) (a : alloc_st) : res alloc_st :=
  do a1 <- release (pq_mem s) (pq_blk s) a; release (pq_mem s) (pq_hdr s) a1.

(** cc_pqueue_destroy_cb: [for (i = 0; i < pq->size; i++) cb(pq->buffer[i])]; the result lists the
    callback's arguments in call order. *)
Fixpoint cb_loop (fuel : nat) (buf : list (option N)) (i size : N) : res (list N) :=
  if g_pq_destroy_cb_more i size then
    match fuel with
    | O => Fault OutOfFuel
    | S f => do v <- rd buf i; do r <- cb_loop f buf (wadd i 1) size; Ok (v :: r)
    end
  else Ok [].
Definition pq_destroy_cb (s : pq) (a : alloc_st) : res (list N * alloc_st) :=
  do calls <- cb_loop (N.to_nat (pq_size s)) (pq_buf s) 0 (pq_size s);
  do a' <- pq_destroy s a; Ok (calls, a').

(** memcpy(new_buff, pq->buffer, pq->size * sizeof(void* )) into a fresh block of [len] slots. *)
Definition copy_prefix (old : list (option N)) (n len : N) : res (list (option N)) :=
  if (n <=? lenN old) && (n <=? len) then Ok (firstnN n old ++ repeatN None (len - n)) else Fault OutOfBounds.

(** expand_capacity (after the D10 repair: the new capacity lives in a local until the buffer exists).
    A float product >= 2^64 converted to size_t is undefined behaviour: Fault. *)
Definition pq_expand (s : pq) (a : alloc_st) : res (stat * pq * alloc_st) :=
  if g_pq_expand_max (pq_cap s) then Ok (CC_ERR_MAX_CAPACITY, s, a) else
  let prod := pq_cap s * pq_num s / pq_den s in
  if W <=? prod then Fault OutOfBounds else
  let new_capacity := if g_pq_expand_overflow prod (pq_cap s) then CC_MAX_ELEMENTS else prod in
  if g_pq_expand_bytes new_capacity SIZE_MAX then Ok (CC_ERR_ALLOC, s, a) else
  match alloc (pq_mem s) (wmul new_capacity 8) a with
  | (None, a1) => Ok (CC_ERR_ALLOC, s, a1)
  | (Some b, a1) =>
      do buf <- copy_prefix (pq_buf s) (pq_size s) (wmul new_capacity 8 / 8);
      do a2 <- release (pq_mem s) (pq_blk s) a1;
      Ok (CC_OK, {| pq_size := pq_size s; pq_cap := new_capacity; pq_num := pq_num s; pq_den := pq_den s;
                    pq_buf := buf; pq_hdr := pq_hdr s; pq_blk := b; pq_mem := pq_mem s |}, a2)
  end.

Section WithCmp.
Variable cmp : N -> N -> Z.

(** The while loop of cc_pqueue_push: [while (i != 0 && pq->cmp(child, parent) > 0) { swap; i = CC_PARENT(i); ... }]. *)
Fixpoint sift_up (fuel : nat) (buf : list (option N)) (i child parent : N) : res (list (option N)) :=
  if negb (i =? 0) && (0 <? cmp child parent)%Z then
    match fuel with
    | O => Fault OutOfFuel
    | S f =>
        do tmp <- rd buf i;
        do p <- rd buf (m_CC_PARENT i);
        do buf1 <- wr buf i p;
        do buf2 <- wr buf1 (m_CC_PARENT i) tmp;
        let i' := m_CC_PARENT i in
        do child' <- rd buf2 i';
        do parent' <- rd buf2 (m_CC_PARENT i');
        sift_up f buf2 i' child' parent'
    end
  else Ok buf.

Definition pq_push (s : pq) (x : N) (a : alloc_st) : res (stat * pq * alloc_st) :=
  let i := pq_size s in
  do (st, s1, a1) <- (if g_pq_push_full i (pq_cap s) then pq_expand s a else Ok (CC_OK, s, a));
  if negb (stat_eqb st CC_OK) then Ok (st, s1, a1) else
  do buf <- wr (pq_buf s1) i x;
  let size' := wadd (pq_size s1) 1 in
  if g_pq_push_first i then Ok (CC_OK, set_buf s1 buf size', a1) else
  do child <- rd buf i;
  do parent <- rd buf (m_CC_PARENT i);
  do buf' <- sift_up (N.to_nat i) buf i child parent;
  Ok (CC_OK, set_buf s1 buf' size', a1).

Definition pq_top (s : pq) : res (stat * option N) :=
  if g_pq_top_empty (pq_size s) then Ok (CC_ERR_OUT_OF_RANGE, None) else
  do v <- rd (pq_buf s) 0; Ok (CC_OK, Some v).

(** cc_pqueue_heapify (after the D21 repair: a child is loaded only when its index is < size). *)
Fixpoint heapify (fuel : nat) (size : N) (buf : list (option N)) (index : N) : res (list (option N)) :=
  if g_pq_heapify_small size then Ok buf else
  let L := m_CC_LEFT index in
  let R := m_CC_RIGHT index in
  let tmp := index in
  do indexPtr <- rd buf index;
  do (ip1, idx1) <- (if L <? size then
                       do l <- rd buf L;
                       if (cmp indexPtr l <? 0)%Z then Ok (l, L) else Ok (indexPtr, index)
                     else Ok (indexPtr, index));
  do (_, idx2) <- (if R <? size then
                       do r <- rd buf R;
                       if (cmp ip1 r <? 0)%Z then Ok (r, R) else Ok (ip1, idx1)
                     else Ok (ip1, idx1));
  if g_pq_heapify_moved idx2 tmp then
    do swap_tmp <- rd buf tmp;
    do c <- rd buf idx2;
    do buf1 <- wr buf tmp c;
    do buf2 <- wr buf1 idx2 swap_tmp;
    match fuel with
    | O => Fault OutOfFuel
    | S f => heapify f size buf2 idx2
    end
  else Ok buf.

(** [want_out = false] models a NULL [out] argument. *)
Definition pq_pop (want_out : bool) (s : pq) : res (stat * option N * pq) :=
  if g_pq_pop_empty (pq_size s) then Ok (CC_ERR_OUT_OF_RANGE, None, s) else
  let last := wsub (pq_size s) 1 in
  do tmp <- rd (pq_buf s) 0;
  do l <- rd (pq_buf s) last;
  do b1 <- wr (pq_buf s) 0 l;
  do b2 <- wr b1 last tmp;
  do tmp' <- rd b2 last;
  let size' := wsub (pq_size s) 1 in
  do b3 <- heapify (N.to_nat size') size' b2 0;
  Ok (CC_OK, if want_out then Some tmp' else None, set_buf s b3 size').

(** Operations of the trace language and one step of the state machine. *)
Inductive pq_op := PPush (x : N) | PPop | PPopNull | PTop.
Inductive pq_out := POut (st : stat) (v : option N).

Definition pq_step (s : pq) (o : pq_op) (a : alloc_st) : res (pq_out * pq * alloc_st) :=
  match o with
  | PPush x => do (st, s', a') <- pq_push s x a; Ok (POut st None, s', a')
  | PPop => do (st, v, s') <- pq_pop true s; Ok (POut st v, s', a)
  | PPopNull => do (st, v, s') <- pq_pop false s; Ok (POut st v, s', a)
  | PTop => do (st, v) <- pq_top s; Ok (POut st v, s, a)
  end.

Fixpoint pq_run (s : pq) (a : alloc_st) (ops : list pq_op) : res (list pq_out * pq * alloc_st) :=
  match ops with
  | [] => Ok ([], s, a)
  | o :: t => do (out, s1, a1) <- pq_step s o a; do (outs, s2, a2) <- pq_run s1 a1 t; Ok (out :: outs, s2, a2)
  end.

(** Pop until the queue reports empty (at most [fuel] pops). *)
Fixpoint pq_drain (fuel : nat) (s : pq) : res (list N * pq) :=
  match fuel with
  | O => Ok ([], s)
  | S f =>
      do (st, v, s1) <- pq_pop true s;
      match v with
      | Some x => do (l, s2) <- pq_drain f s1; Ok (x :: l, s2)
      | None => Ok ([], s1)
      end
  end.
End WithCmp.

(** What the harness prints white-box: the first [size] slots. *)
Definition pq_prefix (s : pq) : list (option N) :=
  map (fun i => match getN (pq_buf s) i with Some (Some v) => Some v | _ => None end) (seqN 0 (pq_size s)).
