(** Proofs for the CC_PQueue model, part 2: invariant, per-operation theorems, histories, drain,
    ledger (destroy balance, callback, tags), allocation-failure atomicity, growth, and the D11
    statements.  Everything is closed (no Admitted).

    Premises that appear in the theorems and why:
    - [lim * num < W * den] and [lim < W - 16] ([lim] = the allocator's limit): the allocator never
      grants a request so large that ONE MORE growth step would wrap [new_capacity * sizeof(void* )]
      around 2^64 (the C multiplies without a check; with a 0-byte block "granted" the following
      memcpy runs outside it - traces (4, 2^61/1) and capacity 2^61 of the generator show the model
      predicting exactly that crash).  With limit = 2^40 this allows every factor below 2^24.
    - [c * 8 < W] at construction: same wrap in cc_pqueue_new_conf.
    Not reached: nothing planned is missing; the k-step growth bound is stated on the capacity
    recurrence [grow_cap] and linked to the model by [pq_expand_cap].

    Offered to the cross-cutting property files (closed forms take [cmp_preorder cmp]):
      C06  pqT_fuel_suffices / pq_step_no_fault, pqT_run_destroy (pq_destroy_balanced, pq_destroy_cb_once),
           pq_new_refused_clean
      C08  pqT_alloc_atomic, pqT_push (failure branch), pqT_step_refines (last conjunct)
      C14  pqT_run_tags (pq_led, pq_run_conf)
      C16  pqT_err_inert, pqT_empty_inert, pq_guard_top_empty / pq_guard_pop_empty / pq_guard_push_full
      C20  pqT_size_le_capacity, grow_cap_rate, grow_cap_iter, pq_expand_cap,
           pq_growth_stuck_refuted / pqT_push_grows_partial / pqT_push_stuck (D11) *)
From Coq Require Import Permutation Sorted.
From CC Require Import Base.Prelude Base.ListMem Base.Alloc Base.AllocProofs.
From CC Require Import Generated.Status Generated.Constants Generated.Macros Generated.Guards.
From CC Require Import PQueue.PQueueModel PQueue.PQueueProofs.
Local Open Scope N_scope.

(** * Small facts about the ledger and list prefixes *)
Lemma max_elems : CC_MAX_ELEMENTS = W - 2.
Proof. reflexivity. Qed.

Lemma alloc_over_limit t n a : limit a < n -> exists a', alloc t n a = (None, a').
Proof.
  intros H. unfold alloc. replace (n <=? limit a) with false by lia.
  destruct (plan a) as [|g p]; [cbn [andb]|rewrite Bool.andb_false_r]; eauto.
Qed.
Lemma alloc_granted_le t n a id a' : alloc t n a = (Some id, a') -> n <= limit a.
Proof.
  unfold alloc. destruct (n <=? limit a) eqn:E; [lia|].
  destruct (plan a) as [|g p]; [cbn [andb]|rewrite Bool.andb_false_r]; discriminate.
Qed.
Lemma release_second t id n b1 l a :
  live a = b1 :: {| b_id := id; b_tag := t; b_bytes := n |} :: l -> b_id b1 <> id ->
  exists a', release t id a = Ok a' /\ live a' = b1 :: l /\ next_id a' = next_id a /\ limit a' = limit a /\
             plan a' = plan a.
Proof.
  intros H Hne. unfold release. rewrite H. cbn [remove_block b_id].
  replace (b_id b1 =? id) with false by lia. rewrite N.eqb_refl. cbn [b_tag]. rewrite tag_eqb_refl.
  eexists; split; [reflexivity|]. cbn; auto.
Qed.

Lemma nth_error_firstn_lt {A} (l : list A) : forall n k, (k < n)%nat -> nth_error (firstn n l) k = nth_error l k.
Proof.
  induction l as [|h t IH]; intros [|n] [|k] H; cbn; try reflexivity; try lia. apply IH. lia.
Qed.
Lemma getN_firstnN {A} (l : list A) n k : k < n -> getN (firstnN n l) k = getN l k.
Proof. intros H. unfold getN, firstnN. apply nth_error_firstn_lt. lia. Qed.
Lemma lenN_firstnN {A} (l : list A) n : n <= lenN l -> lenN (firstnN n l) = n.
Proof. unfold lenN, firstnN. intros H. rewrite firstn_length_le by lia. lia. Qed.

(** * Abstraction, invariant *)
(** The held elements: the first [size] slots, as a list (a multiset up to [Permutation]). *)
Definition pq_abs (s : pq) : list N := map (sl (pq_buf s)) (seqN 0 (pq_size s)).

Lemma pq_abs_len s : lenN (pq_abs s) = pq_size s.
Proof. unfold pq_abs, lenN. rewrite map_length. apply seqN_length. Qed.
Lemma in_abs s y : In y (pq_abs s) <-> exists k, k < pq_size s /\ y = sl (pq_buf s) k.
Proof.
  unfold pq_abs. rewrite in_map_iff. split.
  - intros (k & <- & Hk). apply in_seqN in Hk. exists k. split; [lia|reflexivity].
  - intros (k & Hk & ->). exists k. split; [reflexivity|]. apply in_seqN. lia.
Qed.

(** The ledger holds exactly the queue's two blocks, both with the queue's own tag, on top of
    whatever was live before the constructor ([L0]); [lim] is the allocator's limit. *)
Definition pq_led (lim : N) (L0 : list block) (s : pq) (a : alloc_st) : Prop :=
  limit a = lim /\
  live a = {| b_id := pq_blk s; b_tag := pq_mem s; b_bytes := wmul (pq_cap s) 8 |} ::
           {| b_id := pq_hdr s; b_tag := pq_mem s; b_bytes := PQ_HEADER_BYTES |} :: L0 /\
  pq_blk s < next_id a.

(** The ideal object: a bag whose pop/top yield a maximal element (any one of the ties). *)
Inductive bag_step_gen (ge : N -> N -> Prop) : list N -> pq_op -> pq_out -> list N -> Prop :=
| BS_push_ok b x b' : Permutation b' (x :: b) -> bag_step_gen ge b (PPush x) (POut CC_OK None) b'
| BS_push_fail b x st : st = CC_ERR_ALLOC \/ st = CC_ERR_MAX_CAPACITY -> bag_step_gen ge b (PPush x) (POut st None) b
| BS_pop_empty : bag_step_gen ge [] PPop (POut CC_ERR_OUT_OF_RANGE None) []
| BS_pop b x b' : In x b -> (forall y, In y b -> ge x y) -> Permutation b (x :: b') ->
    bag_step_gen ge b PPop (POut CC_OK (Some x)) b'
| BS_popn_empty : bag_step_gen ge [] PPopNull (POut CC_ERR_OUT_OF_RANGE None) []
| BS_popn b x b' : In x b -> (forall y, In y b -> ge x y) -> Permutation b (x :: b') ->
    bag_step_gen ge b PPopNull (POut CC_OK None) b'
| BS_top_empty : bag_step_gen ge [] PTop (POut CC_ERR_OUT_OF_RANGE None) []
| BS_top b x : In x b -> (forall y, In y b -> ge x y) -> bag_step_gen ge b PTop (POut CC_OK (Some x)) b.

Inductive bag_run_gen (ge : N -> N -> Prop) : list N -> list pq_op -> list pq_out -> list N -> Prop :=
| BR_nil b : bag_run_gen ge b [] [] b
| BR_cons b o out b1 ops outs b2 : bag_step_gen ge b o out b1 -> bag_run_gen ge b1 ops outs b2 ->
    bag_run_gen ge b (o :: ops) (out :: outs) b2.

(** What a history put in and took out, read off its operations and results. *)
Fixpoint pushed_ok (ops : list pq_op) (outs : list pq_out) : list N :=
  match ops, outs with
  | PPush x :: t, POut CC_OK _ :: u => x :: pushed_ok t u
  | _ :: t, _ :: u => pushed_ok t u
  | _, _ => []
  end.
Fixpoint popped (ops : list pq_op) (outs : list pq_out) : list N :=
  match ops, outs with
  | PPop :: t, POut CC_OK (Some x) :: u => x :: popped t u
  | _ :: t, _ :: u => popped t u
  | _, _ => []
  end.
(** successful pops with a NULL out argument: an element leaves but is not reported *)
Fixpoint popped_null (ops : list pq_op) (outs : list pq_out) : nat :=
  match ops, outs with
  | PPopNull :: t, POut CC_OK _ :: u => S (popped_null t u)
  | _ :: t, _ :: u => popped_null t u
  | _, _ => O
  end.

Lemma bag_run_conserves ge b ops outs b' : bag_run_gen ge b ops outs b' ->
  exists unreported, length unreported = popped_null ops outs /\
    Permutation (b' ++ popped ops outs ++ unreported) (b ++ pushed_ok ops outs).
Proof.
  induction 1 as [b|b o out b1 ops outs b2 Hs Hr (un & Hlen & IH)].
  - exists []. split; [reflexivity|]. cbn. rewrite !app_nil_r. apply Permutation_refl.
  - inversion Hs; subst; cbn [pushed_ok popped popped_null].
    + exists un. split; [assumption|]. eapply Permutation_trans; [exact IH|].
      eapply Permutation_trans; [apply Permutation_app_tail; eassumption|].
      cbn. apply Permutation_middle.
    + exists un. split; [assumption|]. destruct st; try exact IH; destruct H; discriminate.
    + exists un. split; [assumption|]. exact IH.
    + exists un. split; [assumption|].
      eapply Permutation_trans; [apply Permutation_sym, Permutation_middle|].
      eapply Permutation_trans; [apply perm_skip; exact IH|].
      change (Permutation ((x :: b1) ++ pushed_ok ops outs) (b ++ pushed_ok ops outs)).
      apply Permutation_app_tail. apply Permutation_sym. assumption.
    + exists un. split; [assumption|]. exact IH.
    + exists (x :: un). split; [cbn; congruence|].
      eapply Permutation_trans; [rewrite app_assoc; apply Permutation_sym, Permutation_middle|].
      rewrite <- app_assoc.
      eapply Permutation_trans; [apply perm_skip; exact IH|].
      change (Permutation ((x :: b1) ++ pushed_ok ops outs) (b ++ pushed_ok ops outs)).
      apply Permutation_app_tail. apply Permutation_sym. assumption.
    + exists un. split; [assumption|]. exact IH.
    + exists un. split; [assumption|]. exact IH.
Qed.

Section PQ.
Variable cmp : N -> N -> Z.
Hypothesis cmp_total : forall a b, (cmp a b >= 0)%Z \/ (cmp b a >= 0)%Z.
Hypothesis cmp_trans : forall a b c, (cmp a b >= 0)%Z -> (cmp b c >= 0)%Z -> (cmp a c >= 0)%Z.
Hypothesis cmp_antisym : forall a b, (cmp a b > 0)%Z <-> (cmp b a < 0)%Z.

Notation geq := (ge cmp).
Notation heapc := (heap cmp).
Definition bag_step := bag_step_gen geq.
Definition bag_run := bag_run_gen geq.

Record pq_inv (lim : N) (s : pq) : Prop := {
  inv_den : 0 < pq_den s;
  inv_fac : pq_den s < pq_num s;                   (* exp_factor > 1 (new_conf substitutes the default otherwise) *)
  inv_cap : 1 <= pq_cap s;
  inv_bytes : pq_cap s * 8 <= lim;                 (* the buffer was granted by an allocator with this limit *)
  inv_limf : lim * pq_num s < W * pq_den s;        (* see the header comment *)
  inv_limm : lim < W - 16;
  inv_size : pq_size s <= pq_cap s;
  inv_len : lenN (pq_buf s) = pq_cap s;            (* allocated slots = capacity *)
  inv_written : written (pq_buf s) (pq_size s);    (* the first [size] slots have been written *)
  inv_heap : heapc (sl (pq_buf s)) (pq_size s);    (* cmp (slot (parent i)) (slot i) >= 0 for 0 < i < size *)
}.

Definition is_max (x : N) (l : list N) : Prop := In x l /\ forall y, In y l -> geq x y.

Lemma inv_small lim s : pq_inv lim s -> 2 * pq_size s + 2 < W /\ pq_cap s * 8 < W.
Proof. intros [? ? ? ? ? ? ? ? ? ?]. unfold W in *. lia. Qed.

Lemma root_is_max lim s : pq_inv lim s -> 0 < pq_size s -> is_max (sl (pq_buf s) 0) (pq_abs s).
Proof.
  intros Hi Hs. split.
  - apply in_abs. exists 0. auto.
  - intros y Hy. apply in_abs in Hy. destruct Hy as (k & Hk & ->).
    eapply heap_root_max; eauto. apply (inv_heap _ _ Hi).
Qed.

(** * top *)
Lemma pq_top_spec lim s : pq_inv lim s ->
  (pq_size s = 0 /\ pq_top s = Ok (CC_ERR_OUT_OF_RANGE, None)) \/
  (0 < pq_size s /\ pq_top s = Ok (CC_OK, Some (sl (pq_buf s) 0)) /\ is_max (sl (pq_buf s) 0) (pq_abs s)).
Proof.
  intros Hi. unfold pq_top, g_pq_top_empty. destruct (pq_size s =? 0) eqn:E.
  - left. split; [lia|reflexivity].
  - right. assert (Hs : 0 < pq_size s) by lia. split; [assumption|].
    rewrite (rd_ok _ _ 0 (inv_written _ _ Hi) Hs). cbn [bind]. split; [reflexivity|].
    eapply root_is_max; eauto.
Qed.

(** * pop *)
Lemma pq_pop_spec lim w s : pq_inv lim s ->
  (pq_size s = 0 /\ pq_pop cmp w s = Ok (CC_ERR_OUT_OF_RANGE, None, s)) \/
  (0 < pq_size s /\ exists b3,
     let x := sl (pq_buf s) 0 in
     let s' := set_buf s b3 (pq_size s - 1) in
     pq_pop cmp w s = Ok (CC_OK, (if w then Some x else None), s') /\ pq_inv lim s' /\
     is_max x (pq_abs s) /\ Permutation (pq_abs s) (x :: pq_abs s')).
Proof.
  intros Hi. pose proof (inv_small _ _ Hi) as [HsW HcW].
  destruct Hi as [Hden Hfac Hcap Hbytes Hlimf Hlimm Hsize Hlen Hw Hheap].
  unfold pq_pop, g_pq_pop_empty. destruct (pq_size s =? 0) eqn:E.
  - left. split; [lia|reflexivity].
  - right. set (n := pq_size s) in *. assert (Hn : 0 < n) by lia. split; [assumption|].
    assert (Hlast : wsub n 1 = n - 1).
    { unfold wsub. change (1 mod W) with 1. replace (n + W - 1) with ((n - 1) + 1 * W) by lia.
      rewrite N.mod_add by (unfold W; lia). apply N.mod_small. lia. }
    rewrite Hlast.
    rewrite (rd_ok _ n 0 Hw) by lia. cbn [bind].
    rewrite (rd_ok _ n (n - 1) Hw) by lia. cbn [bind].
    destruct (swap_ok (pq_buf s) n 0 (n - 1) Hw) as (b1 & b2 & E1 & E2 & L2 & W2 & S2 & O2); try lia.
    rewrite E1. cbn [bind]. rewrite E2. cbn [bind].
    rewrite (rd_ok b2 n (n - 1) W2) by lia. cbn [bind].
    destruct S2 as (G0 & Gl & Gk).
    assert (W2' : written b2 (n - 1)) by (intros k Hk; apply W2; lia).
    (* heapify on the shortened prefix *)
    assert (Hheapify : exists b3, heapify cmp (N.to_nat (n - 1)) (n - 1) b2 0 = Ok b3 /\ lenN b3 = lenN b2 /\
              written b3 (n - 1) /\ heapc (sl b3) (n - 1) /\
              Permutation (map (sl b3) (seqN 0 (n - 1))) (map (sl b2) (seqN 0 (n - 1)))).
    { destruct (N.le_gt_cases (n - 1) 1) as [Hsmall|Hbig].
      - exists b2. rewrite heapify_small by assumption. split; [reflexivity|]. split; [reflexivity|].
        split; [assumption|]. split; [intros k Hk; lia|apply Permutation_refl].
      - destruct (heapify_ok cmp cmp_total cmp_trans cmp_antisym (n - 1) (N.to_nat (n - 1)) b2 0)
          as (b3 & Eb & Lb & Wb & Hb & Pb & _); try assumption; try lia.
        + split.
          * intros k Hk Hpk. assert (par k < k) by (apply par_lt; lia).
            rewrite (Gk (par k)) by lia. rewrite (Gk k) by lia. apply Hheap. lia.
          * intros k Hk Hpk H0. lia.
        + exists b3. auto. }
    destruct Hheapify as (b3 & Eb & Lb & Wb & Hb & Pb).
    rewrite Eb. cbn [bind]. exists b3. cbv zeta. rewrite Gl.
    split; [reflexivity|].
    split; [|split].
    + constructor; cbn [set_buf pq_size pq_cap pq_num pq_den pq_buf]; try assumption; try lia.
    + apply (root_is_max lim s); [constructor; assumption|assumption].
    + unfold pq_abs. cbn [set_buf pq_size pq_buf]. fold n.
      eapply Permutation_trans.
      { apply Permutation_sym. apply (perm_swapped (sl (pq_buf s)) (sl b2) n 0 (n - 1)); try lia.
        split; [exact G0|split; [exact Gl|exact Gk]]. }
      replace n with ((n - 1) + 1) at 1 by lia. rewrite seqN_S, map_app. cbn [map].
      rewrite N.add_0_l, Gl.
      eapply Permutation_trans; [apply Permutation_sym, Permutation_cons_append|].
      apply perm_skip. apply Permutation_sym. exact Pb.
Qed.

(** * expand_capacity *)
Lemma pq_expand_spec lim L0 s a : pq_inv lim s -> pq_led lim L0 s a ->
  exists st s' a', pq_expand s a = Ok (st, s', a') /\ pq_led lim L0 s' a' /\ (plan a' = tl (plan a) \/ plan a' = plan a) /\
    ((st = CC_OK /\ pq_inv lim s' /\ pq_abs s' = pq_abs s /\ pq_size s' = pq_size s /\
      pq_cap s' = pq_cap s * pq_num s / pq_den s /\ pq_cap s < pq_cap s' /\
      pq_num s' = pq_num s /\ pq_den s' = pq_den s) \/
     (st = CC_ERR_ALLOC /\ s' = s /\ live a' = live a)).
Proof.
  intros Hi (Hlim & Hlive & Hblk). pose proof (inv_small _ _ Hi) as [HsW HcW].
  destruct Hi as [Hden Hfac Hcap Hbytes Hlimf Hlimm Hsize Hlen Hw Hheap].
  unfold pq_expand, g_pq_expand_max, g_pq_expand_overflow. rewrite max_elems.
  replace (pq_cap s =? W - 2) with false by (unfold W in *; lia).
  set (prod := pq_cap s * pq_num s / pq_den s).
  assert (Hprod : prod * 8 * pq_den s <= lim * pq_num s).
  { assert (pq_den s * prod <= pq_cap s * pq_num s) by (apply N.mul_div_le; lia). nia. }
  assert (HprodW : prod * 8 < W) by nia.
  replace (W <=? prod) with false by lia.
  destruct (prod <=? pq_cap s) eqn:Eov.
  - (* D11 / overflow branch: CC_MAX_ELEMENTS slots have no representable byte size: no request is made *)
    unfold g_pq_expand_bytes, SIZE_MAX.
    replace ((W - 1) / 8 <? W - 2) with true by reflexivity.
    exists CC_ERR_ALLOC, s, a. split; [reflexivity|]. split; [|split; [right; reflexivity|right; auto]].
    split; [assumption|]. split; assumption.
  - assert (Hgrow : pq_cap s < prod) by lia.
    unfold g_pq_expand_bytes, SIZE_MAX.
    replace ((W - 1) / 8 <? prod) with false by (unfold W in *; lia).
    assert (Hbytes' : wmul prod 8 = prod * 8) by (unfold wmul; apply N.mod_small; assumption).
    rewrite Hbytes'.
    pose proof (alloc_cases (pq_mem s) (prod * 8) a) as C.
    destruct (alloc (pq_mem s) (prod * 8) a) as [[b|] a1] eqn:Ea.
    + destruct C as (-> & Cl & Cn & Clim & _ & Cp).
      assert (Hle : prod * 8 <= lim) by (rewrite <- Hlim; eapply alloc_granted_le; eauto).
      replace (prod * 8 / 8) with prod by (symmetry; apply N.div_mul; lia).
      unfold copy_prefix. rewrite Hlen.
      replace (pq_size s <=? pq_cap s) with true by lia. replace (pq_size s <=? prod) with true by lia.
      cbn [andb bind].
      rewrite Hlive in Cl.
      destruct (release_second (pq_mem s) (pq_blk s) (wmul (pq_cap s) 8)
                  {| b_id := next_id a; b_tag := pq_mem s; b_bytes := prod * 8 |} _ a1 Cl) as (a2 & Er & Rl & Rn & Rlim & Rp);
        [cbn [b_id]; lia|].
      rewrite Er. cbn [bind].
      set (buf' := firstnN (pq_size s) (pq_buf s) ++ repeatN None (prod - pq_size s)).
      assert (Hlen1 : lenN (firstnN (pq_size s) (pq_buf s)) = pq_size s) by (apply lenN_firstnN; lia).
      assert (Hget : forall k, k < pq_size s -> getN buf' k = getN (pq_buf s) k).
      { intros k Hk. unfold buf'. rewrite getN_app1 by lia. apply getN_firstnN; assumption. }
      assert (Hsl : forall k, k < pq_size s -> sl buf' k = sl (pq_buf s) k).
      { intros k Hk. unfold sl. rewrite Hget by assumption. reflexivity. }
      do 3 eexists. split; [reflexivity|]. split; [|split; [left; congruence|left]].
      * split; [congruence|]. cbn [pq_blk pq_mem pq_hdr pq_cap]. rewrite Hbytes'. split; [exact Rl|lia].
      * split; [reflexivity|]. split; [|split; [|split; [reflexivity|split; [reflexivity|split; [exact Hgrow|split; reflexivity]]]]].
        -- constructor; cbn [pq_size pq_cap pq_num pq_den pq_buf]; try assumption; try lia.
           ++ unfold buf'. rewrite lenN_app, Hlen1, lenN_repeatN. lia.
           ++ intros k Hk. rewrite Hget by assumption. apply Hw; assumption.
           ++ intros k Hk. assert (par k < k) by (apply par_lt; lia).
              rewrite !Hsl by lia. apply Hheap; assumption.
        -- unfold pq_abs. cbn [pq_size pq_buf]. apply map_ext_seqN. intros k Hk. apply Hsl. lia.
    + destruct C as (Cl & Cn & Clim & _ & Cp).
      exists CC_ERR_ALLOC, s, a1. split; [reflexivity|]. split; [|split; [left; assumption|right; auto]].
      split; [congruence|]. split; [congruence|]. congruence.
Qed.

(** * push *)
(** What cc_pqueue_push does once there is room: append at [size], sift up. *)
Lemma push_insert_ok lim s1 x (a1 : alloc_st) : pq_inv lim s1 -> pq_size s1 < pq_cap s1 ->
  exists b,
    (do buf <- wr (pq_buf s1) (pq_size s1) x;
     let size' := wadd (pq_size s1) 1 in
     if g_pq_push_first (pq_size s1) then Ok (CC_OK, set_buf s1 buf size', a1) else
     do child <- rd buf (pq_size s1);
     do parent <- rd buf (m_CC_PARENT (pq_size s1));
     do buf' <- sift_up cmp (N.to_nat (pq_size s1)) buf (pq_size s1) child parent;
     Ok (CC_OK, set_buf s1 buf' size', a1)) = Ok (CC_OK, set_buf s1 b (pq_size s1 + 1), a1) /\
    pq_inv lim (set_buf s1 b (pq_size s1 + 1)) /\
    Permutation (pq_abs (set_buf s1 b (pq_size s1 + 1))) (x :: pq_abs s1).
Proof.
  intros Hi Hroom. pose proof (inv_small _ _ Hi) as [HsW HcW].
  destruct Hi as [Hden Hfac Hcap Hbytes Hlimf Hlimm Hsize Hlen Hw Hheap].
  set (n := pq_size s1) in *.
  destruct (wr_ok (pq_buf s1) n x) as (buf & Eb & Lb & Sb & Ob); [lia|].
  rewrite Eb. cbn [bind]. cbv zeta.
  assert (Hsz : wadd n 1 = n + 1) by (unfold wadd; apply N.mod_small; lia). rewrite Hsz.
  assert (Hslx : sl buf n = x) by (unfold sl; rewrite Sb; reflexivity).
  assert (Hslk : forall k, k <> n -> sl buf k = sl (pq_buf s1) k) by (intros k Hk; unfold sl; rewrite Ob by assumption; reflexivity).
  assert (Wb : written buf (n + 1)).
  { intros k Hk. destruct (N.eq_dec k n) as [->|Hkn]; [eauto|]. rewrite Ob by assumption. apply Hw. lia. }
  assert (Habs : map (sl buf) (seqN 0 (n + 1)) = pq_abs s1 ++ [x]).
  { rewrite seqN_S, map_app. cbn [map]. rewrite N.add_0_l, Hslx. f_equal.
    unfold pq_abs. fold n. apply map_ext_seqN. intros k Hk. apply Hslk. lia. }
  unfold g_pq_push_first. destruct (n =? 0) eqn:E0.
  - exists buf. split; [reflexivity|]. split.
    + constructor; cbn [set_buf pq_size pq_cap pq_num pq_den pq_buf]; try assumption; try lia.
      intros k Hk. lia.
    + unfold pq_abs at 1. cbn [set_buf pq_size pq_buf]. rewrite Habs. apply Permutation_sym, Permutation_cons_append.
  - assert (Hn : 0 < n) by lia.
    rewrite (rd_ok buf (n + 1) n Wb) by lia. cbn [bind].
    assert (Hpar : m_CC_PARENT n = par n) by (apply parent_bridge; lia).
    assert (Hparlt : par n < n) by (apply par_lt; assumption).
    assert (Hrdp : rd buf (m_CC_PARENT n) = Ok (sl buf (m_CC_PARENT n))) by (rewrite Hpar; apply (rd_ok buf (n + 1)); [assumption|lia]).
    rewrite Hrdp. cbn [bind].
    destruct (sift_up_ok cmp cmp_total cmp_trans cmp_antisym (n + 1) (N.to_nat n) buf n)
      as (buf' & Es & Ls & Ws & Hs & Ps & _); try assumption; try lia.
    { split.
      - intros k Hk Hkn. assert (par k < k) by (apply par_lt; lia).
        rewrite !Hslk by lia. apply Hheap. lia.
      - intros k Hk Hpk _. assert (par k < k) by (apply par_lt; lia). lia. }
    rewrite Es. cbn [bind]. exists buf'. split; [reflexivity|]. split.
    + constructor; cbn [set_buf pq_size pq_cap pq_num pq_den pq_buf]; try assumption; try lia.
    + unfold pq_abs at 1. cbn [set_buf pq_size pq_buf].
      eapply Permutation_trans; [exact Ps|]. rewrite Habs. apply Permutation_sym, Permutation_cons_append.
Qed.

Lemma pq_push_spec lim L0 s x a : pq_inv lim s -> pq_led lim L0 s a ->
  exists st s' a', pq_push cmp s x a = Ok (st, s', a') /\ pq_led lim L0 s' a' /\
    ((st = CC_OK /\ pq_inv lim s' /\ Permutation (pq_abs s') (x :: pq_abs s) /\ pq_size s' = pq_size s + 1) \/
     ((st = CC_ERR_ALLOC \/ st = CC_ERR_MAX_CAPACITY) /\ s' = s /\ live a' = live a)).
Proof.
  intros Hi Hl. unfold pq_push, g_pq_push_full. cbv zeta.
  destruct (pq_cap s <=? pq_size s) eqn:Efull.
  - destruct (pq_expand_spec lim L0 s a Hi Hl) as (st & s1 & a1 & Ee & Hl1 & _ & [(-> & Hi1 & Habs & Hsz & _ & Hgrow & _)|(-> & -> & Hlv)]).
    + rewrite Ee. cbn [bind stat_eqb stat_code N.eqb negb]. rewrite <- Hsz.
      assert (Hroom : pq_size s1 < pq_cap s1) by (pose proof (inv_size _ _ Hi); lia).
      destruct (push_insert_ok lim s1 x a1 Hi1 Hroom) as (b & Ep & Hi2 & Hp).
      cbv zeta in Ep. rewrite Ep. do 3 eexists. split; [reflexivity|]. split.
      * destruct Hl1 as (? & ? & ?). split; [assumption|]. cbn [set_buf pq_blk pq_mem pq_hdr pq_cap]. auto.
      * left. split; [reflexivity|]. split; [assumption|]. split; [rewrite <- Habs; assumption|].
        cbn [set_buf pq_size]. lia.
    + rewrite Ee. cbn [bind stat_eqb stat_code N.eqb negb].
      do 3 eexists. split; [reflexivity|]. split; [assumption|]. right. auto.
  - cbn [bind stat_eqb stat_code N.eqb negb].
    assert (Hroom : pq_size s < pq_cap s) by lia.
    destruct (push_insert_ok lim s x a Hi Hroom) as (b & Ep & Hi2 & Hp).
    cbv zeta in Ep. rewrite Ep. do 3 eexists. split; [reflexivity|]. split.
    + destruct Hl as (? & ? & ?). split; [assumption|]. cbn [set_buf pq_blk pq_mem pq_hdr pq_cap]. auto.
    + left. split; [reflexivity|]. split; [assumption|]. split; [assumption|]. cbn [set_buf pq_size]. lia.
Qed.

(** * One step, histories *)
Definition out_ok (o : pq_out) : bool := match o with POut CC_OK _ => true | _ => false end.

Theorem pq_step_refines lim L0 s o a : pq_inv lim s -> pq_led lim L0 s a ->
  exists out s' a', pq_step cmp s o a = Ok (out, s', a') /\ pq_inv lim s' /\ pq_led lim L0 s' a' /\
    bag_step (pq_abs s) o out (pq_abs s') /\
    (out_ok out = false -> s' = s /\ live a' = live a).
Proof.
  intros Hi Hl. destruct o as [x| | |]; cbn [pq_step].
  - destruct (pq_push_spec lim L0 s x a Hi Hl) as (st & s' & a' & -> & Hl' & [(-> & Hi' & Hp & _)|(Hst & -> & Hlv)]); cbn [bind].
    + do 3 eexists. split; [reflexivity|]. split; [assumption|]. split; [assumption|].
      split; [apply BS_push_ok; assumption|]. cbn. discriminate.
    + do 3 eexists. split; [reflexivity|]. split; [assumption|]. split; [assumption|].
      split; [apply BS_push_fail; assumption|]. auto.
  - destruct (pq_pop_spec lim true s Hi) as [(Hs & ->)|(Hs & b3 & Ep & Hi' & (Hin & Hmax) & Hp)]; cbn [bind].
    + do 3 eexists. split; [reflexivity|]. split; [assumption|]. split; [assumption|].
      assert (pq_abs s = []) as -> by (unfold pq_abs; rewrite Hs; reflexivity).
      split; [apply BS_pop_empty|]. auto.
    + cbv zeta in Ep. rewrite Ep. cbn [bind]. do 3 eexists. split; [reflexivity|]. split; [exact Hi'|].
      split; [destruct Hl as (? & ? & ?); split; [assumption|]; cbn [set_buf pq_blk pq_mem pq_hdr pq_cap]; auto|].
      split; [apply BS_pop; assumption|]. cbn. discriminate.
  - destruct (pq_pop_spec lim false s Hi) as [(Hs & ->)|(Hs & b3 & Ep & Hi' & (Hin & Hmax) & Hp)]; cbn [bind].
    + do 3 eexists. split; [reflexivity|]. split; [assumption|]. split; [assumption|].
      assert (pq_abs s = []) as -> by (unfold pq_abs; rewrite Hs; reflexivity).
      split; [apply BS_popn_empty|]. auto.
    + cbv zeta in Ep. rewrite Ep. cbn [bind]. do 3 eexists. split; [reflexivity|]. split; [exact Hi'|].
      split; [destruct Hl as (? & ? & ?); split; [assumption|]; cbn [set_buf pq_blk pq_mem pq_hdr pq_cap]; auto|].
      split; [eapply BS_popn; eassumption|]. cbn. discriminate.
  - destruct (pq_top_spec lim s Hi) as [(Hs & ->)|(Hs & -> & (Hin & Hmax))]; cbn [bind].
    + do 3 eexists. split; [reflexivity|]. split; [assumption|]. split; [assumption|].
      assert (pq_abs s = []) as -> by (unfold pq_abs; rewrite Hs; reflexivity).
      split; [apply BS_top_empty|]. auto.
    + do 3 eexists. split; [reflexivity|]. split; [assumption|]. split; [assumption|].
      split; [apply BS_top; assumption|]. cbn. discriminate.
Qed.

Theorem pq_run_refines lim L0 ops : forall s a, pq_inv lim s -> pq_led lim L0 s a ->
  exists outs s' a', pq_run cmp s a ops = Ok (outs, s', a') /\ pq_inv lim s' /\ pq_led lim L0 s' a' /\
    bag_run (pq_abs s) ops outs (pq_abs s').
Proof.
  induction ops as [|o t IH]; intros s a Hi Hl; cbn [pq_run].
  - do 3 eexists. split; [reflexivity|]. split; [assumption|]. split; [assumption|]. apply BR_nil.
  - destruct (pq_step_refines lim L0 s o a Hi Hl) as (out & s1 & a1 & -> & Hi1 & Hl1 & Hs & _). cbn [bind].
    destruct (IH s1 a1 Hi1 Hl1) as (outs & s2 & a2 & -> & Hi2 & Hl2 & Hr). cbn [bind].
    do 3 eexists. split; [reflexivity|]. split; [assumption|]. split; [assumption|].
    eapply BR_cons; eauto.
Qed.

(** No operation faults under the invariant; in particular the fuel of both loops suffices. *)
Theorem pq_step_no_fault lim L0 s o a : pq_inv lim s -> pq_led lim L0 s a -> forall f, pq_step cmp s o a <> Fault f.
Proof. intros Hi Hl f. destruct (pq_step_refines lim L0 s o a Hi Hl) as (? & ? & ? & -> & _). discriminate. Qed.

(** * The constructor *)
Lemma pq_new_spec mem c n d a st s a' :
  c * 8 < W -> limit a < W - 16 -> limit a * fst (pq_factor n d) < W * snd (pq_factor n d) -> 0 < d ->
  pq_new mem c n d a = Ok (st, Some s, a') ->
  st = CC_OK /\ pq_inv (limit a) s /\ pq_led (limit a) (live a) s a' /\ pq_abs s = [] /\ pq_size s = 0 /\
  pq_cap s = c /\ pq_mem s = mem /\ (pq_num s, pq_den s) = pq_factor n d.
Proof.
  intros HcW Hlimm Hlimf Hd. unfold pq_new.
  assert (Hfac : 0 < snd (pq_factor n d) < fst (pq_factor n d)).
  { unfold pq_factor. destruct (n <=? d) eqn:E; cbn [fst snd]; [vm_compute; split; reflexivity|lia]. }
  destruct (pq_factor n d) as [n' d'] eqn:Ef. cbn [fst snd] in *.
  unfold pq_bad_capacity. destruct (c =? 0) eqn:Ec; [cbn [orb]; discriminate|]. cbn [orb].
  destruct (CC_MAX_ELEMENTS / c * d' <=? n'); [discriminate|].
  unfold g_pq_new_bytes, SIZE_MAX. replace ((W - 1) / 8 <? c) with false by (unfold W in *; lia).
  pose proof (alloc_cases mem PQ_HEADER_BYTES a) as C1.
  destruct (alloc mem PQ_HEADER_BYTES a) as [[h|] a1]; [|discriminate].
  destruct C1 as (-> & Hl1 & Hn1 & Hlim1 & _).
  pose proof (alloc_cases mem (wmul c 8) a1) as C2.
  destruct (alloc mem (wmul c 8) a1) as [[b|] a2] eqn:Ea2.
  - destruct C2 as (-> & Hl2 & Hn2 & Hlim2 & _).
    intros H; inversion H; subst; clear H.
    assert (Hb : wmul c 8 = c * 8) by (unfold wmul; apply N.mod_small; assumption).
    assert (Hle : c * 8 <= limit a) by (rewrite <- Hb, <- Hlim1; eapply alloc_granted_le; eauto).
    split; [reflexivity|]. split; [|split; [|repeat split]].
    + constructor; cbn [pq_size pq_cap pq_num pq_den pq_buf]; try lia.
      * rewrite Hb. rewrite N.div_mul by lia. apply lenN_repeatN.
      * intros k Hk. lia.
      * intros k Hk. lia.
    + split; [congruence|]. cbn [pq_blk pq_hdr pq_mem pq_cap]. split; [rewrite Hl2, Hl1; reflexivity|lia].
  - destruct (release mem (next_id a) a2); cbn; discriminate.
Qed.

Lemma pq_new_refused_clean mem c n d a st a' :
  pq_new mem c n d a = Ok (st, None, a') ->
  (st = CC_ERR_INVALID_CAPACITY /\ a' = a) \/ (st = CC_ERR_ALLOC /\ live a' = live a).
Proof.
  unfold pq_new. destruct (pq_factor n d) as [n' d'].
  destruct (pq_bad_capacity c n' d'); [intros H; inversion H; auto|].
  destruct (g_pq_new_bytes c SIZE_MAX); [intros H; inversion H; auto|].
  pose proof (alloc_cases mem PQ_HEADER_BYTES a) as C1.
  destruct (alloc mem PQ_HEADER_BYTES a) as [[h|] a1].
  - destruct C1 as (-> & Hl1 & _).
    pose proof (alloc_cases mem (wmul c 8) a1) as C2.
    destruct (alloc mem (wmul c 8) a1) as [[b|] a2]; [discriminate|].
    destruct C2 as (Hl2 & _). rewrite Hl1 in Hl2.
    destruct (release_head _ _ _ _ _ Hl2) as (a3 & -> & Hl3 & _). cbn [bind].
    intros H; inversion H; subst; auto.
  - destruct C1 as (Hl1 & _). intros H; inversion H; subst; auto.
Qed.

(** Every history from the constructor. *)
Theorem pq_new_run_refines mem c n d a st s a' ops :
  c * 8 < W -> limit a < W - 16 -> limit a * fst (pq_factor n d) < W * snd (pq_factor n d) -> 0 < d ->
  pq_new mem c n d a = Ok (st, Some s, a') ->
  exists outs s' a'', pq_run cmp s a' ops = Ok (outs, s', a'') /\ pq_inv (limit a) s' /\
    pq_led (limit a) (live a) s' a'' /\ bag_run [] ops outs (pq_abs s').
Proof.
  intros HcW Hlimm Hlimf Hd Hn.
  destruct (pq_new_spec _ _ _ _ _ _ _ _ HcW Hlimm Hlimf Hd Hn) as (_ & Hi & Hl & Ha & _).
  destruct (pq_run_refines _ _ ops s a' Hi Hl) as (outs & s' & a'' & Hr & Hi' & Hl' & Hb).
  rewrite Ha in Hb. eauto 10.
Qed.

Theorem pq_new_run_conserves mem c n d a st s a' ops :
  c * 8 < W -> limit a < W - 16 -> limit a * fst (pq_factor n d) < W * snd (pq_factor n d) -> 0 < d ->
  pq_new mem c n d a = Ok (st, Some s, a') ->
  exists outs s' a'' unreported, pq_run cmp s a' ops = Ok (outs, s', a'') /\
    length unreported = popped_null ops outs /\
    Permutation (pq_abs s' ++ popped ops outs ++ unreported) (pushed_ok ops outs).
Proof.
  intros HcW Hlimm Hlimf Hd Hn.
  destruct (pq_new_run_refines _ _ _ _ _ _ _ _ ops HcW Hlimm Hlimf Hd Hn) as (outs & s' & a'' & Hr & _ & _ & Hb).
  destruct (bag_run_conserves _ _ _ _ _ Hb) as (un & Hlen & Hp).
  exists outs, s', a'', un. auto.
Qed.

(** Since the byte-size repair the constructor is total over every machine-word capacity: [c * 8 < W] is
    established by the constructor's own test, not assumed of the caller; the constructor never faults. *)
Lemma pq_new_fits mem c n d a st s a' : pq_new mem c n d a = Ok (st, Some s, a') -> c * 8 < W.
Proof.
  unfold pq_new. destruct (pq_factor n d) as [n' d'].
  destruct (pq_bad_capacity c n' d'); [discriminate|].
  destruct (g_pq_new_bytes c SIZE_MAX) eqn:E; [discriminate|].
  intros _. unfold g_pq_new_bytes, SIZE_MAX in E. unfold W in *. lia.
Qed.

Lemma pq_new_no_fault mem c n d a f : pq_new mem c n d a <> Fault f.
Proof.
  unfold pq_new. destruct (pq_factor n d) as [n' d'].
  destruct (pq_bad_capacity c n' d'); [discriminate|].
  destruct (g_pq_new_bytes c SIZE_MAX); [discriminate|].
  pose proof (alloc_cases mem PQ_HEADER_BYTES a) as C1.
  destruct (alloc mem PQ_HEADER_BYTES a) as [[h|] a1]; [|discriminate].
  destruct C1 as (-> & Hl1 & _).
  pose proof (alloc_cases mem (wmul c 8) a1) as C2.
  destruct (alloc mem (wmul c 8) a1) as [[b|] a2]; [discriminate|].
  destruct C2 as (Hl2 & _). rewrite Hl1 in Hl2.
  destruct (release_head _ _ _ _ _ Hl2) as (a3 & -> & _). cbn [bind]. discriminate.
Qed.

Theorem pq_new_run_refines_total mem c n d a st s a' ops :
  limit a < W - 16 -> limit a * fst (pq_factor n d) < W * snd (pq_factor n d) -> 0 < d ->
  pq_new mem c n d a = Ok (st, Some s, a') ->
  exists outs s' a'', pq_run cmp s a' ops = Ok (outs, s', a'') /\ pq_inv (limit a) s' /\
    pq_led (limit a) (live a) s' a'' /\ bag_run [] ops outs (pq_abs s').
Proof.
  intros Hlimm Hlimf Hd Hn. eapply pq_new_run_refines; eauto. eapply pq_new_fits; eauto.
Qed.

(** * Draining: popping until empty yields the held multiset in non-increasing order *)
Theorem pq_drain_sorted lim : forall fuel s, pq_inv lim s -> pq_size s <= N.of_nat fuel ->
  exists l s', pq_drain cmp fuel s = Ok (l, s') /\ pq_inv lim s' /\ pq_size s' = 0 /\
    Permutation l (pq_abs s) /\ StronglySorted geq l.
Proof.
  induction fuel as [|fuel IH]; intros s Hi Hf.
  - exists [], s. split; [reflexivity|]. split; [assumption|]. split; [lia|].
    assert (pq_abs s = []) as -> by (unfold pq_abs; replace (pq_size s) with 0 by lia; reflexivity).
    split; [apply Permutation_refl|constructor].
  - cbn [pq_drain].
    destruct (pq_pop_spec lim true s Hi) as [(Hs & ->)|(Hs & b3 & Ep & Hi' & (Hin & Hmax) & Hp)]; cbn [bind].
    + exists [], s. split; [reflexivity|]. split; [assumption|]. split; [assumption|].
      assert (pq_abs s = []) as -> by (unfold pq_abs; rewrite Hs; reflexivity).
      split; [apply Permutation_refl|constructor].
    + cbv zeta in Ep, Hi', Hp. rewrite Ep. cbn [bind].
      destruct (IH _ Hi') as (l1 & s2 & -> & Hi2 & Hs2 & Hp1 & Hsort); [cbn [set_buf pq_size]; lia|].
      cbn [bind]. do 2 eexists. split; [reflexivity|]. split; [assumption|]. split; [assumption|].
      split.
      * eapply Permutation_trans; [apply perm_skip; exact Hp1|]. apply Permutation_sym. assumption.
      * constructor; [assumption|]. apply Forall_forall. intros y Hy. apply Hmax.
        eapply Permutation_in; [apply Permutation_sym; exact Hp|]. right.
        eapply Permutation_in; [exact Hp1|assumption].
Qed.

(** * Ledger: destroy, destroy_cb *)
Theorem pq_destroy_balanced lim L0 s a : pq_led lim L0 s a -> exists a', pq_destroy s a = Ok a' /\ live a' = L0.
Proof.
  intros (_ & Hlive & _). unfold pq_destroy.
  destruct (release_head _ _ _ _ _ Hlive) as (a1 & -> & Hl1 & _). cbn [bind].
  destruct (release_head _ _ _ _ _ Hl1) as (a2 & -> & Hl2 & _). eauto.
Qed.

Lemma cb_loop_ok buf n : written buf n -> n < W -> forall fuel i, i <= n -> n - i <= N.of_nat fuel ->
  cb_loop fuel buf i n = Ok (map (sl buf) (seqN i (n - i))).
Proof.
  intros Hw HnW. induction fuel as [|fuel IH]; intros i Hi Hf; cbn [cb_loop]; unfold g_pq_destroy_cb_more.
  - replace (i <? n) with false by lia. replace (n - i) with 0 by lia. reflexivity.
  - destruct (i <? n) eqn:E.
    + rewrite (rd_ok buf n i) by (assumption || lia). cbn [bind].
      assert (Hw1 : wadd i 1 = i + 1) by (unfold wadd; apply N.mod_small; lia). rewrite Hw1.
      rewrite IH by lia. cbn [bind].
      replace (n - i) with ((n - (i + 1)) + 1) by lia. rewrite seqN_cons. reflexivity.
    + replace (n - i) with 0 by lia. reflexivity.
Qed.

(** destroy_cb hands every held element to the callback exactly once (slot order) and releases both blocks. *)
Theorem pq_destroy_cb_once lim L0 s a : pq_inv lim s -> pq_led lim L0 s a ->
  exists a', pq_destroy_cb s a = Ok (pq_abs s, a') /\ live a' = L0.
Proof.
  intros Hi Hl. unfold pq_destroy_cb. pose proof (inv_small _ _ Hi) as [HsW _].
  rewrite (cb_loop_ok _ _ (inv_written _ _ Hi)) by lia. cbn [bind].
  destruct (pq_destroy_balanced _ _ _ _ Hl) as (a' & -> & Hl'). cbn [bind].
  rewrite N.sub_0_r. eauto.
Qed.

(** * D11 and growth *)
(** When [(size_t)(capacity * exp_factor)] does not exceed the capacity, a full queue can never grow:
    push asks for CC_MAX_ELEMENTS slots, is refused, and changes nothing - whatever the plan says. *)
Lemma pq_push_stuck lim L0 s x a : pq_inv lim s -> pq_led lim L0 s a ->
  pq_size s = pq_cap s -> pq_cap s * pq_num s / pq_den s <= pq_cap s ->
  exists a', pq_push cmp s x a = Ok (CC_ERR_ALLOC, s, a') /\ pq_led lim L0 s a' /\ live a' = live a.
Proof.
  intros Hi Hl Hfull Hstuck.
  destruct (pq_expand_spec lim L0 s a Hi Hl) as (st1 & s1 & a1 & Ee & Hl1 & _ & [(-> & _ & _ & _ & Hc & Hg & _)|(-> & -> & Hlv)]).
  - lia.
  - exists a1. unfold pq_push, g_pq_push_full. cbv zeta.
    replace (pq_cap s <=? pq_size s) with true by lia.
    rewrite Ee. cbn [bind stat_eqb stat_code N.eqb negb]. auto.
Qed.

(** Under [capacity < (size_t)(capacity * exp_factor)], i.e. 1 <= capacity * (ef - 1), and an allocator
    that grants (empty plan, request within its limit), push on a full queue succeeds. *)
Lemma pq_push_grows_partial lim L0 s x a : pq_inv lim s -> pq_led lim L0 s a ->
  pq_cap s < pq_cap s * pq_num s / pq_den s -> plan a = [] -> pq_cap s * pq_num s / pq_den s * 8 <= lim ->
  exists s' a', pq_push cmp s x a = Ok (CC_OK, s', a') /\ pq_inv lim s' /\ Permutation (pq_abs s') (x :: pq_abs s).
Proof.
  intros Hi Hl Hgrow Hplan Hfit.
  destruct (pq_push_spec lim L0 s x a Hi Hl) as (st & s' & a' & Ep & Hl' & [(-> & Hi' & Hp & _)|(Hst & -> & Hlv)]);
    [eauto|exfalso].
  (* a failure would need a refused request, but this allocator grants *)
  unfold pq_push, g_pq_push_full in Ep. cbv zeta in Ep.
  destruct (pq_cap s <=? pq_size s) eqn:Efull.
  - pose proof (inv_small _ _ Hi) as [_ HcW].
    destruct Hl as (Hlim & Hlive & Hblk).
    unfold pq_expand, g_pq_expand_max, g_pq_expand_overflow in Ep. rewrite max_elems in Ep.
    pose proof (inv_bytes _ _ Hi). pose proof (inv_limm _ _ Hi).
    replace (pq_cap s =? W - 2) with false in Ep by (unfold W in *; lia).
    set (prod := pq_cap s * pq_num s / pq_den s) in *.
    replace (W <=? prod) with false in Ep by (unfold W in *; lia).
    replace (prod <=? pq_cap s) with false in Ep by lia.
    unfold g_pq_expand_bytes, SIZE_MAX in Ep.
    replace ((W - 1) / 8 <? prod) with false in Ep by (unfold W in *; lia).
    assert (Hb : wmul prod 8 = prod * 8) by (unfold wmul; apply N.mod_small; unfold W in *; lia).
    rewrite Hb in Ep.
    destruct (alloc_grants (pq_mem s) (prod * 8) a Hplan) as (a1 & Ea & _); [lia|].
    rewrite Ea in Ep.
    destruct (copy_prefix (pq_buf s) (pq_size s) (prod * 8 / 8)) as [buf|]; cbn [bind] in Ep; [|discriminate].
    destruct (release (pq_mem s) (pq_blk s) a1); cbn [bind stat_eqb stat_code N.eqb negb] in Ep; [|discriminate].
    match type of Ep with context [wr ?b ?i ?v] => destruct (wr b i v); cbn [bind] in Ep; [|discriminate] end.
    destruct (g_pq_push_first (pq_size s)); [inversion Ep; subst; destruct Hst; discriminate|].
    repeat match type of Ep with
           | context [bind ?r _] => destruct r; cbn [bind] in Ep; [|discriminate]
           end.
    inversion Ep; subst; destruct Hst; discriminate.
  - cbn [bind stat_eqb stat_code N.eqb negb] in Ep.
    match type of Ep with context [wr ?b ?i ?v] => destruct (wr b i v); cbn [bind] in Ep; [|discriminate] end.
    destruct (g_pq_push_first (pq_size s)); [inversion Ep; subst; destruct Hst; discriminate|].
    repeat match type of Ep with
           | context [bind ?r _] => destruct r; cbn [bind] in Ep; [|discriminate]
           end.
    inversion Ep; subst; destruct Hst; discriminate.
Qed.

(** Growth rate (C20): one expansion multiplies the capacity by at least (1 + ef)/2 when
    2 <= capacity * (ef - 1); stated without fractions. *)
Definition grow_cap (num den c : N) : N := c * num / den.
Lemma grow_cap_rate num den c : 0 < den -> den < num -> 2 * den <= c * (num - den) ->
  c * (num + den) <= grow_cap num den c * (2 * den) /\ 2 * den <= grow_cap num den c * (num - den).
Proof.
  intros Hd Hf Hc. unfold grow_cap.
  assert (H1 : c * num < den * (c * num / den) + den).
  { pose proof (N.mul_succ_div_gt (c * num) den). lia. }
  assert (H2 : c <= c * num / den) by (apply N.div_le_lower_bound; nia).
  split; nia.
Qed.
Lemma grow_cap_iter num den c k : 0 < den -> den < num -> 2 * den <= c * (num - den) ->
  c * (num + den) ^ N.of_nat k <= Nat.iter k (grow_cap num den) c * (2 * den) ^ N.of_nat k.
Proof.
  intros Hd Hf. revert c. induction k as [|k IH]; intros c Hc.
  - cbn. lia.
  - assert (Hsw : forall j x, Nat.iter j (grow_cap num den) (grow_cap num den x) = grow_cap num den (Nat.iter j (grow_cap num den) x))
      by (induction j as [|j IHj]; intros x0; [reflexivity|cbn; f_equal; apply IHj]).
    change (Nat.iter (S k) (grow_cap num den) c) with (grow_cap num den (Nat.iter k (grow_cap num den) c)).
    rewrite <- Hsw. destruct (grow_cap_rate num den c Hd Hf Hc) as [H1 H2].
    specialize (IH (grow_cap num den c) H2).
    replace (N.of_nat (S k)) with (N.succ (N.of_nat k)) by lia. rewrite !N.pow_succ_r'.
    nia.
Qed.
(** A successful expansion sets the capacity to [grow_cap] of the old one. *)
Lemma pq_expand_cap lim L0 s a s' a' : pq_inv lim s -> pq_led lim L0 s a ->
  pq_expand s a = Ok (CC_OK, s', a') -> pq_cap s' = grow_cap (pq_num s) (pq_den s) (pq_cap s) /\
  pq_num s' = pq_num s /\ pq_den s' = pq_den s.
Proof.
  intros Hi Hl E. destruct (pq_expand_spec lim L0 s a Hi Hl) as (st & s1 & a1 & Ee & _ & _ & [(-> & _ & _ & _ & Hc & _ & Hn & Hd)|(-> & _)]);
    rewrite E in Ee; inversion Ee; subst; auto.
Qed.

End PQ.

(** * D11, refuted: "a push succeeds whenever the allocator grants every request" is false *)
Definition d11_state : pq :=
  {| pq_size := 1; pq_cap := 1; pq_num := 3; pq_den := 2; pq_buf := [Some 48];
     pq_hdr := 1; pq_blk := 2; pq_mem := Conf |}.
Definition d11_alloc : alloc_st :=
  {| plan := []; limit := 2 ^ 40; next_id := 3;
     live := [ {| b_id := 2; b_tag := Conf; b_bytes := 8 |}; {| b_id := 1; b_tag := Conf; b_bytes := 64 |} ];
     nreq := 2 |}.

(** The state is the one reached by [pq_new Conf 1 3 2] and one push. *)
Lemma d11_state_reached cmp :
  exists s0 a0, pq_new Conf 1 3 2 (alloc_init [] (2 ^ 40)) = Ok (CC_OK, Some s0, a0) /\
                pq_push cmp s0 48 a0 = Ok (CC_OK, d11_state, d11_alloc).
Proof. do 2 eexists. split; reflexivity. Qed.

Theorem pq_growth_stuck_refuted cmp :
  exists s a x a', plan a = [] /\ pq_size s = 1 /\ pq_inv cmp (limit a) s /\ pq_led (limit a) [] s a /\
    pq_push cmp s x a = Ok (CC_ERR_ALLOC, s, a') /\ plan a' = [] /\ live a' = live a.
Proof.
  exists d11_state, d11_alloc, 16. eexists.
  split; [reflexivity|]. split; [reflexivity|]. split; [|split; [|split; [reflexivity|split; reflexivity]]].
  - constructor; cbn; unfold W; try lia.
    + intros i Hi. assert (i = 0) by lia. subst. vm_compute. eauto.
    + intros k Hk. lia.
  - split; [reflexivity|]. split; [reflexivity|]. cbn. lia.
Qed.

(** * Closed statements (the comparator hypotheses bundled), as exported by Properties/C10.v *)
Definition cmp_preorder (cmp : N -> N -> Z) : Prop :=
  (forall a b, (cmp a b >= 0)%Z \/ (cmp b a >= 0)%Z) /\
  (forall a b c, (cmp a b >= 0)%Z -> (cmp b c >= 0)%Z -> (cmp a c >= 0)%Z) /\
  (forall a b, (cmp a b > 0)%Z <-> (cmp b a < 0)%Z).

(** What the invariant says, spelled out. *)
Theorem pqT_inv_meaning cmp lim s : pq_inv cmp lim s ->
  pq_size s <= pq_cap s /\ lenN (pq_buf s) = pq_cap s /\ 1 <= pq_cap s /\
  (forall i, i < pq_size s -> exists v, getN (pq_buf s) i = Some (Some v)) /\
  (forall i, 0 < i < pq_size s -> (cmp (sl (pq_buf s) ((i - 1) / 2)) (sl (pq_buf s) i) >= 0)%Z).
Proof.
  intros [? ? ? ? ? ? ? ? Hw Hh]. split; [assumption|]. split; [assumption|]. split; [assumption|].
  split; [exact Hw|exact Hh].
Qed.

Theorem pqT_step_refines cmp : cmp_preorder cmp -> forall lim L0 s o a,
  pq_inv cmp lim s -> pq_led lim L0 s a ->
  exists out s' a', pq_step cmp s o a = Ok (out, s', a') /\ pq_inv cmp lim s' /\ pq_led lim L0 s' a' /\
    bag_step cmp (pq_abs s) o out (pq_abs s') /\
    (out_ok out = false -> s' = s /\ live a' = live a).
Proof. intros (Ht & Htr & Ha) lim L0 s o a. apply pq_step_refines; assumption. Qed.

Theorem pqT_heap_inv_preserved cmp : cmp_preorder cmp -> forall lim L0 s o a,
  pq_inv cmp lim s -> pq_led lim L0 s a ->
  exists out s' a', pq_step cmp s o a = Ok (out, s', a') /\ pq_inv cmp lim s' /\ pq_led lim L0 s' a'.
Proof.
  intros H lim L0 s o a Hi Hl. destruct (pqT_step_refines cmp H lim L0 s o a Hi Hl) as (out & s' & a' & E & Hi' & Hl' & _).
  eauto 6.
Qed.

Theorem pqT_top_max cmp : cmp_preorder cmp -> forall lim s, pq_inv cmp lim s -> 0 < pq_size s ->
  exists x, pq_top s = Ok (CC_OK, Some x) /\ In x (pq_abs s) /\ forall y, In y (pq_abs s) -> (cmp x y >= 0)%Z.
Proof.
  intros (Ht & Htr & Ha) lim s Hi Hs.
  destruct (pq_top_spec cmp Ht Htr Ha lim s Hi) as [(H0 & _)|(_ & E & Hin & Hmax)]; [lia|]. eauto.
Qed.

Theorem pqT_pop cmp : cmp_preorder cmp -> forall lim s, pq_inv cmp lim s -> 0 < pq_size s ->
  exists x s', pq_pop cmp true s = Ok (CC_OK, Some x, s') /\ pq_inv cmp lim s' /\
    In x (pq_abs s) /\ (forall y, In y (pq_abs s) -> (cmp x y >= 0)%Z) /\
    Permutation (pq_abs s) (x :: pq_abs s') /\ pq_size s' = pq_size s - 1 /\
    pq_cap s' = pq_cap s /\ pq_blk s' = pq_blk s /\ pq_hdr s' = pq_hdr s.
Proof.
  intros (Ht & Htr & Ha) lim s Hi Hs.
  destruct (pq_pop_spec cmp Ht Htr Ha lim true s Hi) as [(H0 & _)|(_ & b3 & E & Hi' & (Hin & Hmax) & Hp)]; [lia|].
  cbv zeta in *. do 2 eexists. split; [exact E|]. split; [exact Hi'|]. split; [exact Hin|]. split; [exact Hmax|].
  split; [exact Hp|]. cbn [set_buf pq_size pq_cap pq_blk pq_hdr]. auto.
Qed.

Theorem pqT_push cmp : cmp_preorder cmp -> forall lim L0 s x a, pq_inv cmp lim s -> pq_led lim L0 s a ->
  exists st s' a', pq_push cmp s x a = Ok (st, s', a') /\ pq_led lim L0 s' a' /\
    ((st = CC_OK /\ pq_inv cmp lim s' /\ Permutation (pq_abs s') (x :: pq_abs s) /\ pq_size s' = pq_size s + 1) \/
     ((st = CC_ERR_ALLOC \/ st = CC_ERR_MAX_CAPACITY) /\ s' = s /\ live a' = live a)).
Proof. intros (Ht & Htr & Ha) lim L0 s x a. apply pq_push_spec; assumption. Qed.

(** A push into a queue that is not full cannot fail and does not consult the allocator. *)
Theorem pqT_push_room cmp : cmp_preorder cmp -> forall lim s x a, pq_inv cmp lim s -> pq_size s < pq_cap s ->
  exists s', pq_push cmp s x a = Ok (CC_OK, s', a) /\ pq_inv cmp lim s' /\ Permutation (pq_abs s') (x :: pq_abs s).
Proof.
  intros (Ht & Htr & Ha) lim s x a Hi Hroom.
  destruct (push_insert_ok cmp Ht Htr Ha lim s x a Hi Hroom) as (b & Ep & Hi' & Hp). cbv zeta in Ep.
  eexists. split; [|split; eassumption].
  unfold pq_push, g_pq_push_full. cbv zeta. replace (pq_cap s <=? pq_size s) with false by lia.
  cbn [bind stat_eqb stat_code N.eqb negb]. exact Ep.
Qed.

Theorem pqT_empty_inert cmp : forall lim s w, pq_inv cmp lim s -> pq_size s = 0 ->
  pq_top s = Ok (CC_ERR_OUT_OF_RANGE, None) /\ pq_pop cmp w s = Ok (CC_ERR_OUT_OF_RANGE, None, s) /\
  (forall a, pq_step cmp s PPop a = Ok (POut CC_ERR_OUT_OF_RANGE None, s, a)) /\
  (forall a, pq_step cmp s PTop a = Ok (POut CC_ERR_OUT_OF_RANGE None, s, a)).
Proof.
  intros lim s w _ Hs.
  assert (E1 : pq_top s = Ok (CC_ERR_OUT_OF_RANGE, None)) by (unfold pq_top, g_pq_top_empty; rewrite Hs; reflexivity).
  assert (E2 : forall w, pq_pop cmp w s = Ok (CC_ERR_OUT_OF_RANGE, None, s)) by (intros w'; unfold pq_pop, g_pq_pop_empty; rewrite Hs; reflexivity).
  split; [assumption|]. split; [apply E2|]. split; intros a; cbn [pq_step]; [rewrite E2|rewrite E1]; reflexivity.
Qed.

Theorem pqT_run_refines cmp : cmp_preorder cmp -> forall mem c n d a st s a' ops,
  c * 8 < W -> limit a < W - 16 -> limit a * fst (pq_factor n d) < W * snd (pq_factor n d) -> 0 < d ->
  pq_new mem c n d a = Ok (st, Some s, a') ->
  exists outs s' a'', pq_run cmp s a' ops = Ok (outs, s', a'') /\ pq_inv cmp (limit a) s' /\
    pq_led (limit a) (live a) s' a'' /\ bag_run cmp [] ops outs (pq_abs s').
Proof. intros (Ht & Htr & Ha) mem c n d a st s a' ops. apply pq_new_run_refines; assumption. Qed.

Theorem pqT_run_conserves cmp : cmp_preorder cmp -> forall mem c n d a st s a' ops,
  c * 8 < W -> limit a < W - 16 -> limit a * fst (pq_factor n d) < W * snd (pq_factor n d) -> 0 < d ->
  pq_new mem c n d a = Ok (st, Some s, a') ->
  exists outs s' a'' unreported, pq_run cmp s a' ops = Ok (outs, s', a'') /\
    length unreported = popped_null ops outs /\
    Permutation (pq_abs s' ++ popped ops outs ++ unreported) (pushed_ok ops outs).
Proof. intros (Ht & Htr & Ha) mem c n d a st s a' ops. apply pq_new_run_conserves; assumption. Qed.

Theorem pqT_drain_sorted cmp : cmp_preorder cmp -> forall lim fuel s, pq_inv cmp lim s -> pq_size s <= N.of_nat fuel ->
  exists l s', pq_drain cmp fuel s = Ok (l, s') /\ pq_inv cmp lim s' /\ pq_size s' = 0 /\
    Permutation l (pq_abs s) /\ StronglySorted (fun x y => (cmp x y >= 0)%Z) l.
Proof. intros (Ht & Htr & Ha) lim fuel s. apply pq_drain_sorted; assumption. Qed.

(** Any history from the constructor, then popping until empty: every pushed element comes out
    exactly once, the drained part in non-increasing order. *)
Theorem pqT_run_drain cmp : cmp_preorder cmp -> forall mem c n d a st s a' ops,
  c * 8 < W -> limit a < W - 16 -> limit a * fst (pq_factor n d) < W * snd (pq_factor n d) -> 0 < d ->
  pq_new mem c n d a = Ok (st, Some s, a') ->
  exists outs s1 a1 unreported l s2,
    pq_run cmp s a' ops = Ok (outs, s1, a1) /\ pq_drain cmp (N.to_nat (pq_size s1)) s1 = Ok (l, s2) /\
    pq_size s2 = 0 /\ StronglySorted (fun x y => (cmp x y >= 0)%Z) l /\
    length unreported = popped_null ops outs /\
    Permutation (l ++ popped ops outs ++ unreported) (pushed_ok ops outs).
Proof.
  intros H mem c n d a st s a' ops HcW Hlimm Hlimf Hd Hn.
  destruct (pqT_run_refines cmp H _ _ _ _ _ _ _ _ ops HcW Hlimm Hlimf Hd Hn) as (outs & s1 & a1 & Hr & Hi1 & _ & Hb).
  destruct (bag_run_conserves _ _ _ _ _ Hb) as (un & Hlen & Hp).
  destruct (pqT_drain_sorted cmp H (limit a) (N.to_nat (pq_size s1)) s1 Hi1) as (l & s2 & Hd2 & _ & Hs2 & Hpl & Hsort); [lia|].
  exists outs, s1, a1, un, l, s2. split; [assumption|]. split; [assumption|]. split; [assumption|].
  split; [assumption|]. split; [assumption|].
  eapply Permutation_trans; [apply Permutation_app_tail; exact Hpl|exact Hp].
Qed.

Theorem pqT_fuel_suffices cmp : cmp_preorder cmp -> forall lim L0 s o a, pq_inv cmp lim s -> pq_led lim L0 s a ->
  (forall f, pq_step cmp s o a <> Fault f) /\ (forall f fuel, pq_size s <= N.of_nat fuel -> pq_drain cmp fuel s <> Fault f).
Proof.
  intros H lim L0 s o a Hi Hl. split.
  - intros f. destruct (pqT_step_refines cmp H lim L0 s o a Hi Hl) as (? & ? & ? & -> & _). discriminate.
  - intros f fuel Hf. destruct (pqT_drain_sorted cmp H lim fuel s Hi Hf) as (? & ? & -> & _). discriminate.
Qed.

(** After any history from the constructor, destroy returns the ledger to what it was before
    [pq_new]; destroy_cb additionally calls the callback once per held element. *)
Theorem pqT_run_destroy cmp : cmp_preorder cmp -> forall mem c n d a st s a' ops,
  c * 8 < W -> limit a < W - 16 -> limit a * fst (pq_factor n d) < W * snd (pq_factor n d) -> 0 < d ->
  pq_new mem c n d a = Ok (st, Some s, a') ->
  exists outs s1 a1 a2 a3, pq_run cmp s a' ops = Ok (outs, s1, a1) /\
    pq_destroy s1 a1 = Ok a2 /\ live a2 = live a /\
    pq_destroy_cb s1 a1 = Ok (pq_abs s1, a3) /\ live a3 = live a.
Proof.
  intros H mem c n d a st s a' ops HcW Hlimm Hlimf Hd Hn.
  destruct (pqT_run_refines cmp H _ _ _ _ _ _ _ _ ops HcW Hlimm Hlimf Hd Hn) as (outs & s1 & a1 & Hr & Hi1 & Hl1 & _).
  destruct (pq_destroy_balanced _ _ _ _ Hl1) as (a2 & E2 & L2).
  destruct H as (Ht & Htr & Ha).
  destruct (pq_destroy_cb_once cmp Ht Htr Ha _ _ _ _ Hi1 Hl1) as (a3 & E3 & L3).
  exists outs, s1, a1, a2, a3. auto.
Qed.

Theorem pqT_push_grows_partial cmp : cmp_preorder cmp -> forall lim L0 s x a, pq_inv cmp lim s -> pq_led lim L0 s a ->
  pq_cap s < pq_cap s * pq_num s / pq_den s -> plan a = [] -> pq_cap s * pq_num s / pq_den s * 8 <= lim ->
  exists s' a', pq_push cmp s x a = Ok (CC_OK, s', a') /\ pq_inv cmp lim s' /\ Permutation (pq_abs s') (x :: pq_abs s).
Proof. intros (Ht & Htr & Ha) lim L0 s x a. apply pq_push_grows_partial; assumption. Qed.

Theorem pqT_push_stuck cmp : cmp_preorder cmp -> forall lim L0 s x a, pq_inv cmp lim s -> pq_led lim L0 s a ->
  pq_size s = pq_cap s -> pq_cap s * pq_num s / pq_den s <= pq_cap s ->
  exists a', pq_push cmp s x a = Ok (CC_ERR_ALLOC, s, a') /\ pq_led lim L0 s a' /\ live a' = live a.
Proof. intros (Ht & Htr & Ha) lim L0 s x a. apply pq_push_stuck; assumption. Qed.

(** Non-vacuity: a comparator satisfying the hypotheses (priority = value / 16, so distinct
    elements tie) and a state with duplicates, ties and spare capacity satisfying the invariant. *)
Definition cmp16 (a b : N) : Z := (Z.of_N (a / 16) - Z.of_N (b / 16))%Z.
Lemma cmp16_preorder : cmp_preorder cmp16.
Proof. unfold cmp_preorder, cmp16. repeat split; intros; lia. Qed.

(** * The configuration fields never change (needs no invariant); tags (C14) *)
Definition pq_conf (m : tag) (h n d : N) (s : pq) : Prop :=
  pq_mem s = m /\ pq_hdr s = h /\ pq_num s = n /\ pq_den s = d.

Lemma pq_expand_conf m h n d s a st s' a' : pq_expand s a = Ok (st, s', a') -> pq_conf m h n d s -> pq_conf m h n d s'.
Proof.
  unfold pq_expand. cbv zeta. intros E C.
  repeat match type of E with
  | context [match alloc ?t ?k ?x with _ => _ end] => destruct (alloc t k x) as [[?|] ?]
  | context [bind ?r _] => destruct r; cbn [bind] in E; [|discriminate]
  | context [if ?b then _ else _] => destruct b
  end; inversion E; subst; auto.
Qed.

Lemma pq_step_conf cmp m h n d s o a out s' a' :
  pq_step cmp s o a = Ok (out, s', a') -> pq_conf m h n d s -> pq_conf m h n d s'.
Proof.
  intros E C. destruct o as [x| | |]; cbn [pq_step] in E.
  - destruct (pq_push cmp s x a) as [[[st2 s2] a2]|] eqn:Ep; cbn [bind] in E; [|discriminate].
    inversion E; subst; clear E. rename Ep into E.
    unfold pq_push in E. cbv zeta in E.
    assert (H1 : forall st s1 a1,
               (if g_pq_push_full (pq_size s) (pq_cap s) then pq_expand s a else Ok (CC_OK, s, a)) = Ok (st, s1, a1) ->
               pq_conf m h n d s1).
    { intros st s1 a1 E1. destruct (g_pq_push_full (pq_size s) (pq_cap s)).
      - eapply pq_expand_conf; eauto.
      - inversion E1; subst; assumption. }
    destruct (if g_pq_push_full (pq_size s) (pq_cap s) then pq_expand s a else Ok (CC_OK, s, a)) as [[[st s1] a1]|];
      cbn [bind] in E; [|discriminate].
    specialize (H1 _ _ _ eq_refl).
    repeat match type of E with
    | context [bind ?r _] => destruct r; cbn [bind] in E; [|discriminate]
    | context [if ?b then _ else _] => destruct b
    end; inversion E; subst; auto.
  - destruct (pq_pop cmp true s) as [[[st2 v2] s2]|] eqn:Ep; cbn [bind] in E; [|discriminate].
    inversion E; subst; clear E. rename Ep into E. unfold pq_pop in E.
    repeat match type of E with
    | context [bind ?r _] => destruct r; cbn [bind] in E; [|discriminate]
    | context [if ?b then _ else _] => destruct b
    end; inversion E; subst; auto.
  - destruct (pq_pop cmp false s) as [[[st2 v2] s2]|] eqn:Ep; cbn [bind] in E; [|discriminate].
    inversion E; subst; clear E. rename Ep into E. unfold pq_pop in E.
    repeat match type of E with
    | context [bind ?r _] => destruct r; cbn [bind] in E; [|discriminate]
    | context [if ?b then _ else _] => destruct b
    end; inversion E; subst; auto.
  - destruct (pq_top s) as [[? ?]|]; cbn [bind] in E; [|discriminate]. inversion E; subst; auto.
Qed.

Lemma pq_run_conf cmp m h n d ops : forall s a outs s' a',
  pq_run cmp s a ops = Ok (outs, s', a') -> pq_conf m h n d s -> pq_conf m h n d s'.
Proof.
  induction ops as [|o t IH]; intros s a outs s' a' E C; cbn [pq_run] in E.
  - inversion E; subst; assumption.
  - destruct (pq_step cmp s o a) as [[[out s1] a1]|] eqn:E1; cbn [bind] in E; [|discriminate].
    destruct (pq_run cmp s1 a1 t) as [[[outs2 s2] a2]|] eqn:E2; cbn [bind] in E; [|discriminate].
    inversion E; subst. eapply IH; eauto. eapply pq_step_conf; eauto.
Qed.

(** After any history the ledger holds, on top of what was live before the constructor, exactly two
    blocks, both obtained through the allocator family given to the constructor. *)
Theorem pqT_run_tags cmp : cmp_preorder cmp -> forall mem c n d a st s a' ops,
  c * 8 < W -> limit a < W - 16 -> limit a * fst (pq_factor n d) < W * snd (pq_factor n d) -> 0 < d ->
  pq_new mem c n d a = Ok (st, Some s, a') ->
  exists outs s' a'' b1 b2, pq_run cmp s a' ops = Ok (outs, s', a'') /\
    live a'' = b1 :: b2 :: live a /\ b_tag b1 = mem /\ b_tag b2 = mem /\
    b_bytes b1 = pq_cap s' * 8 /\ pq_size s' <= pq_cap s'.
Proof.
  intros H mem c n d a st s a' ops HcW Hlimm Hlimf Hd Hn.
  pose proof H as (Ht & Htr & Ha).
  destruct (pq_new_spec cmp Ht Htr Ha _ _ _ _ _ _ _ _ HcW Hlimm Hlimf Hd Hn) as (_ & _ & _ & _ & _ & _ & Hm & _).
  destruct (pqT_run_refines cmp H _ _ _ _ _ _ _ _ ops HcW Hlimm Hlimf Hd Hn) as (outs & s' & a'' & Hr & Hi & (_ & Hl & _) & _).
  assert (C : pq_conf mem (pq_hdr s) (pq_num s) (pq_den s) s') by (eapply pq_run_conf; [exact Hr|repeat split; auto]).
  destruct C as (Cm & _).
  do 5 eexists. split; [exact Hr|]. split; [exact Hl|]. cbn [b_tag b_bytes].
  split; [assumption|]. split; [assumption|]. pose proof (inv_small cmp Ht Htr Ha _ _ Hi) as [_ HcW'].
  split; [unfold wmul; apply N.mod_small; assumption|apply (inv_size _ _ _ Hi)].
Qed.

(** * Conventional names for the cross-cutting property files (C06 / C08 / C16 / C20) *)
(** C08: a push that reports ERR_ALLOC left the queue (full state) and the set of live blocks unchanged. *)
Theorem pqT_alloc_atomic cmp : cmp_preorder cmp -> forall lim L0 s x a st s' a',
  pq_inv cmp lim s -> pq_led lim L0 s a -> pq_push cmp s x a = Ok (st, s', a') -> st <> CC_OK ->
  s' = s /\ live a' = live a /\ pq_inv cmp lim s' /\ pq_led lim L0 s' a'.
Proof.
  intros H lim L0 s x a st s' a' Hi Hl E Hst.
  destruct (pqT_push cmp H lim L0 s x a Hi Hl) as (st1 & s1 & a1 & E1 & Hl1 & [(-> & _)|(_ & -> & Hlv)]);
    rewrite E in E1; inversion E1; subst; [congruence|auto].
Qed.

(** C16: every non-OK status of every operation leaves the full state and the live blocks unchanged. *)
Theorem pqT_err_inert cmp : cmp_preorder cmp -> forall lim L0 s o a out s' a',
  pq_inv cmp lim s -> pq_led lim L0 s a -> pq_step cmp s o a = Ok (out, s', a') -> out_ok out = false ->
  s' = s /\ live a' = live a.
Proof.
  intros H lim L0 s o a out s' a' Hi Hl E Hout.
  destruct (pqT_step_refines cmp H lim L0 s o a Hi Hl) as (out1 & s1 & a1 & E1 & _ & _ & _ & Hinert).
  rewrite E in E1; inversion E1; subst. auto.
Qed.

(** The generated emptiness guards say exactly "size = 0". *)
Lemma pq_guard_top_empty size : g_pq_top_empty size = true <-> size = 0.
Proof. unfold g_pq_top_empty. lia. Qed.
Lemma pq_guard_pop_empty size : g_pq_pop_empty size = true <-> size = 0.
Proof. unfold g_pq_pop_empty. lia. Qed.
(** The generated growth guard of push says exactly "no free slot". *)
Lemma pq_guard_push_full size capacity : g_pq_push_full size capacity = true <-> capacity <= size.
Proof. unfold g_pq_push_full. lia. Qed.

(** C20: size <= capacity = allocated slots, in every reachable state. *)
Theorem pqT_size_le_capacity cmp lim s : pq_inv cmp lim s -> pq_size s <= pq_cap s /\ lenN (pq_buf s) = pq_cap s.
Proof. intros Hi. split; [apply (inv_size _ _ _ Hi)|apply (inv_len _ _ _ Hi)]. Qed.
