(** Extraction of the pqueue engine model. ExtrOcamlBasic only; no Extract Constant. *)
From Coq Require Import Extraction ExtrOcamlBasic.
From CC Require Import Base.Prelude Base.Alloc Generated.Status Generated.Constants Generated.Macros Generated.Guards.
From CC Require Import PQueue.PQueueModel.
Extraction Language OCaml.
Extraction "model.ml"
  N.add N.mul N.sub N.div N.modulo N.eqb N.ltb N.leb N.of_nat N.to_nat N.land N.shiftl N.shiftr
  alloc_init alloc release count_tag is_live stat_code
  PQUEUE_DEFAULT_CAPACITY PQUEUE_DEFAULT_EXPANSION_FACTOR_num PQUEUE_DEFAULT_EXPANSION_FACTOR_den
  m_CC_PARENT m_CC_LEFT m_CC_RIGHT
  pq_new pq_destroy pq_destroy_cb pq_step pq_top pq_pop pq_push pq_prefix.
