(** Proofs for the CC_PQueue model, part 1: index arithmetic of the generated macros, checked slot
    access, swaps as permutations, and the two loops (sift-up of push, heapify of pop) as
    "heap except at i" arguments over the slot function [sl buf : N -> N].

    Everything is closed (no Admitted).  Part 2 (PQueueProofs2.v) holds the invariant, the
    per-operation and history theorems, the ledger facts and the D11 statements. *)
From Coq Require Import Permutation Sorted FinFun.
From CC Require Import Base.Prelude Base.ListMem Base.Alloc Base.AllocProofs.
From CC Require Import Generated.Status Generated.Constants Generated.Macros Generated.Guards PQueue.PQueueModel.
Local Open Scope N_scope.

(** * The generated index macros, away from the wrap-around *)
Definition par (i : N) : N := (i - 1) / 2.

Lemma parent_zero : m_CC_PARENT 0 = 0.
Proof. reflexivity. Qed.
Lemma parent_bridge i : 0 < i < W -> m_CC_PARENT i = par i.
Proof.
  intros H. unfold m_CC_PARENT, par, wsub. replace (0 <? i) with true by lia.
  change (1 mod W) with 1. replace (i + W - 1) with ((i - 1) + 1 * W) by lia.
  rewrite N.mod_add by (unfold W; lia). rewrite N.mod_small by lia. reflexivity.
Qed.
Lemma left_bridge i : 2 * i + 1 < W -> m_CC_LEFT i = 2 * i + 1.
Proof.
  intros H. unfold m_CC_LEFT, wadd, wmul. rewrite (N.mod_small (2 * i)) by lia. apply N.mod_small; lia.
Qed.
Lemma right_bridge i : 2 * i + 2 < W -> m_CC_RIGHT i = 2 * i + 2.
Proof.
  intros H. unfold m_CC_RIGHT, wadd, wmul. rewrite (N.mod_small (2 * i)) by lia. apply N.mod_small; lia.
Qed.
Lemma par_lt k : 0 < k -> par k < k.
Proof. unfold par; lia. Qed.
Lemma par_children k i : 0 < k -> (par k = i <-> k = 2 * i + 1 \/ k = 2 * i + 2).
Proof. unfold par; lia. Qed.

(** * Checked slot access *)
Definition sl (buf : list (option N)) (i : N) : N :=
  match getN buf i with Some (Some v) => v | _ => 0 end.
Definition written (buf : list (option N)) (n : N) : Prop :=
  forall i, i < n -> exists v, getN buf i = Some (Some v).

Lemma rd_ok buf n i : written buf n -> i < n -> rd buf i = Ok (sl buf i).
Proof. intros Hw Hi. destruct (Hw i Hi) as [v Hv]. unfold rd, sl. rewrite Hv. reflexivity. Qed.

Lemma wr_ok buf i v : i < lenN buf ->
  exists buf', wr buf i v = Ok buf' /\ lenN buf' = lenN buf /\ getN buf' i = Some (Some v) /\
               forall j, j <> i -> getN buf' j = getN buf j.
Proof.
  intros Hi. destruct (updN_lt buf i (Some v) Hi) as [buf' Hb]. exists buf'. unfold wr. rewrite Hb.
  split; [reflexivity|]. split; [eapply lenN_updN; eauto|]. split; [eapply getN_updN_same; eauto|].
  intros j Hj. eapply getN_updN_other; eauto.
Qed.

(** [g] is [f] with the values at [i] and [j] exchanged. *)
Definition swapped (f g : N -> N) (i j : N) : Prop :=
  g i = f j /\ g j = f i /\ forall k, k <> i -> k <> j -> g k = f k.

(** The C idiom  tmp = b[i]; b[i] = b[j]; b[j] = tmp  (also correct when i = j). *)
Lemma swap_ok buf n i j : written buf n -> n <= lenN buf -> i < n -> j < n ->
  exists b1 b2, wr buf i (sl buf j) = Ok b1 /\ wr b1 j (sl buf i) = Ok b2 /\
    lenN b2 = lenN buf /\ written b2 n /\ swapped (sl buf) (sl b2) i j /\
    (forall k, k <> i -> k <> j -> getN b2 k = getN buf k).
Proof.
  intros Hw Hn Hi Hj.
  destruct (wr_ok buf i (sl buf j)) as (b1 & E1 & L1 & S1 & O1); [lia|].
  destruct (wr_ok b1 j (sl buf i)) as (b2 & E2 & L2 & S2 & O2); [lia|].
  exists b1, b2. split; [assumption|]. split; [assumption|]. split; [congruence|].
  assert (Hget : forall k, k <> i -> k <> j -> getN b2 k = getN buf k).
  { intros k Hki Hkj. rewrite O2 by assumption. apply O1; assumption. }
  split; [|split; [|assumption]].
  - intros k Hk. destruct (N.eq_dec k j) as [->|Hkj]; [eauto|].
    rewrite O2 by assumption. destruct (N.eq_dec k i) as [->|Hki]; [eauto|].
    rewrite O1 by assumption. apply Hw; assumption.
  - unfold swapped, sl. split; [|split].
    + destruct (N.eq_dec i j) as [->|Hij].
      * rewrite S2. reflexivity.
      * rewrite O2 by assumption. rewrite S1. reflexivity.
    + rewrite S2. reflexivity.
    + intros k Hki Hkj. rewrite Hget by assumption. reflexivity.
Qed.

(** * A swap inside the prefix permutes the prefix *)
Lemma NoDup_seqN s n : NoDup (seqN s n).
Proof.
  unfold seqN. apply Injective_map_NoDup; [|apply seq_NoDup].
  intros x y H. apply Nat2N.inj; assumption.
Qed.

Lemma perm_swapped (f g : N -> N) n i j : i < n -> j < n -> swapped f g i j ->
  Permutation (map g (seqN 0 n)) (map f (seqN 0 n)).
Proof.
  intros Hi Hj (Gi & Gj & Gk).
  pose (sg := fun k => if k =? i then j else if k =? j then i else k).
  assert (Hinv : forall k, sg (sg k) = k).
  { intros k. unfold sg. destruct (N.eqb_spec k i); destruct (N.eqb_spec k j); subst;
      repeat (match goal with |- context [?a =? ?b] => destruct (N.eqb_spec a b) end); congruence. }
  assert (Hinj : Injective sg).
  { intros x y H. rewrite <- (Hinv x), <- (Hinv y). f_equal; assumption. }
  assert (Hrange : forall k, k < n -> sg k < n).
  { intros k Hk. unfold sg. destruct (k =? i); [assumption|]. destruct (k =? j); assumption. }
  assert (Hg : map g (seqN 0 n) = map f (map sg (seqN 0 n))).
  { rewrite map_map. apply map_ext. intros k. unfold sg.
    destruct (N.eqb_spec k i) as [->|Hki]; [assumption|].
    destruct (N.eqb_spec k j) as [->|Hkj]; [assumption|]. apply Gk; assumption. }
  rewrite Hg. apply Permutation_map. apply NoDup_Permutation.
  - apply Injective_map_NoDup; [assumption | apply NoDup_seqN].
  - apply NoDup_seqN.
  - intros x. rewrite in_map_iff. split.
    + intros (y & <- & Hy). apply in_seqN in Hy. apply in_seqN. specialize (Hrange y). lia.
    + intros Hx. apply in_seqN in Hx. exists (sg x). split; [apply Hinv|].
      apply in_seqN. specialize (Hrange x). lia.
Qed.

Lemma map_ext_seqN {B} (f g : N -> B) s n :
  (forall i, s <= i < s + n -> f i = g i) -> map f (seqN s n) = map g (seqN s n).
Proof. intros H; apply map_ext_in; intros a Ha; apply H, in_seqN, Ha. Qed.

(** * Heap order and the two "heap except at i" predicates *)
Section Heap.
Variable cmp : N -> N -> Z.
Hypothesis cmp_total : forall a b, (cmp a b >= 0)%Z \/ (cmp b a >= 0)%Z.
Hypothesis cmp_trans : forall a b c, (cmp a b >= 0)%Z -> (cmp b c >= 0)%Z -> (cmp a c >= 0)%Z.
Hypothesis cmp_antisym : forall a b, (cmp a b > 0)%Z <-> (cmp b a < 0)%Z.

Definition ge (a b : N) : Prop := (cmp a b >= 0)%Z.

Lemma ge_refl a : ge a a.
Proof. destruct (cmp_total a a); assumption. Qed.
Lemma ge_of_gt a b : (cmp a b > 0)%Z -> ge a b.
Proof. unfold ge; lia. Qed.
Lemma ge_of_not_gt a b : ~ (cmp a b > 0)%Z -> ge b a.
Proof.
  intros H. destruct (cmp_total b a) as [G|G]; [exact G|].
  unfold ge. destruct (Z_lt_ge_dec (cmp b a) 0) as [Hlt|Hge]; [|exact Hge].
  apply cmp_antisym in Hlt. contradiction.
Qed.
Lemma ge_of_not_lt a b : ~ (cmp a b < 0)%Z -> ge a b.
Proof. unfold ge; lia. Qed.
Lemma gt_of_lt a b : (cmp a b < 0)%Z -> (cmp b a > 0)%Z.
Proof. intros H. apply cmp_antisym. exact H. Qed.

(** Every parent dominates its child: [par k] is the parent of slot [k]. *)
Definition heap (f : N -> N) (n : N) : Prop :=
  forall k, 0 < k < n -> ge (f (par k)) (f k).
(** All pairs hold except possibly (parent i, i); the grandparent dominates the children of [i]. *)
Definition heap_up (f : N -> N) (n i : N) : Prop :=
  (forall k, 0 < k < n -> k <> i -> ge (f (par k)) (f k)) /\
  (forall k, 0 < k < n -> par k = i -> 0 < i -> ge (f (par i)) (f k)).
(** All pairs hold except possibly (i, children of i); the parent of [i] dominates the children of [i]. *)
Definition heap_down (f : N -> N) (n i : N) : Prop :=
  (forall k, 0 < k < n -> par k <> i -> ge (f (par k)) (f k)) /\
  (forall k, 0 < k < n -> par k = i -> 0 < i -> ge (f (par i)) (f k)).

Lemma heap_root_max f n : heap f n -> forall k, k < n -> ge (f 0) (f k).
Proof.
  intros H k. induction k as [k IH] using (well_founded_induction N.lt_wf_0). intros Hk.
  destruct (N.eq_dec k 0) as [->|Hk0]; [apply ge_refl|].
  assert (Hp : par k < k) by (apply par_lt; lia).
  eapply cmp_trans; [apply IH; [exact Hp | lia] | apply H; lia].
Qed.

Lemma heap_up_done f n i : i < n -> heap_up f n i -> (i = 0 \/ ge (f (par i)) (f i)) -> heap f n.
Proof.
  intros Hi [Ha _] Hc k Hk. destruct (N.eq_dec k i) as [->|Hne]; [|apply Ha; assumption].
  destruct Hc as [->|Hc]; [lia|assumption].
Qed.

Lemma heap_up_step f g n i : 0 < i < n -> swapped f g i (par i) -> (cmp (f i) (f (par i)) > 0)%Z ->
  heap_up f n i -> heap_up g n (par i).
Proof.
  intros Hi (Gi & Gp & Gk) Hgt [Ha Hb].
  assert (Hpi : par i < i) by (apply par_lt; lia).
  split.
  - intros k Hk Hkp.
    destruct (N.eq_dec k i) as [->|Hki].
    + rewrite Gi, Gp. apply ge_of_gt; assumption.
    + rewrite (Gk k) by assumption.
      destruct (N.eq_dec (par k) i) as [Epi|Npi].
      * rewrite Epi, Gi. apply Hb; [assumption|assumption|lia].
      * destruct (N.eq_dec (par k) (par i)) as [Epp|Npp].
        -- rewrite Epp, Gp. eapply cmp_trans; [apply ge_of_gt; exact Hgt|].
           rewrite <- Epp. apply Ha; assumption.
        -- rewrite (Gk (par k)) by assumption. apply Ha; assumption.
  - intros k Hk Ekp Hp0.
    assert (Hpp : par (par i) < par i) by (apply par_lt; assumption).
    rewrite (Gk (par (par i))) by lia.
    assert (Hgp : ge (f (par (par i))) (f (par i))) by (apply Ha; lia).
    destruct (N.eq_dec k i) as [->|Hki].
    + rewrite Gi. assumption.
    + assert (Hkp : k <> par i) by (assert (par k < k) by (apply par_lt; lia); lia).
      rewrite (Gk k) by assumption.
      eapply cmp_trans; [exact Hgp|]. rewrite <- Ekp. apply Ha; assumption.
Qed.

Lemma heap_down_done f n i : heap_down f n i ->
  (2 * i + 1 < n -> ge (f i) (f (2 * i + 1))) -> (2 * i + 2 < n -> ge (f i) (f (2 * i + 2))) -> heap f n.
Proof.
  intros [Ha _] HL HR k Hk. destruct (N.eq_dec (par k) i) as [E|Hne]; [|apply Ha; assumption].
  rewrite E. apply par_children in E; [|lia]. destruct E as [->| ->]; [apply HL | apply HR]; lia.
Qed.

Lemma heap_down_step f g n i c : c < n -> (c = 2 * i + 1 \/ c = 2 * i + 2) -> swapped f g i c ->
  ge (f c) (f i) -> (forall k, 0 < k < n -> par k = i -> ge (f c) (f k)) ->
  heap_down f n i -> heap_down g n c.
Proof.
  intros Hc Hchild (Gi & Gc & Gk) Hci Hck [Ha Hb].
  assert (Epc : par c = i) by (apply par_children; lia).
  assert (Hic : i < c) by lia.
  split.
  - intros k Hk Hkc.
    destruct (N.eq_dec k i) as [->|Hki].
    + (* the slot that received the larger child, against its own parent *)
      assert (Hpi : par i < i) by (apply par_lt; lia).
      rewrite Gi. rewrite (Gk (par i)) by lia. apply Hb; [lia|assumption|lia].
    + destruct (N.eq_dec k c) as [->|Hkc'].
      * rewrite Epc, Gi, Gc. assumption.
      * rewrite (Gk k) by assumption.
        destruct (N.eq_dec (par k) i) as [Epi|Npi].
        -- rewrite Epi, Gi. apply Hck; assumption.
        -- rewrite (Gk (par k)) by assumption. apply Ha; assumption.
  - intros k Hk Ekc Hc0. rewrite Epc, Gi.
    assert (Hkc : c < k) by (assert (par k < k) by (apply par_lt; lia); lia).
    rewrite (Gk k) by lia. rewrite <- Ekc. apply Ha; [assumption|lia].
Qed.

(** * The sift-up loop of cc_pqueue_push *)
Lemma sift_up_ok n fuel : forall buf i,
  written buf n -> n <= lenN buf -> n < W -> i < n -> i <= N.of_nat fuel ->
  heap_up (sl buf) n i ->
  exists buf', sift_up cmp fuel buf i (sl buf i) (sl buf (m_CC_PARENT i)) = Ok buf' /\
    lenN buf' = lenN buf /\ written buf' n /\ heap (sl buf') n /\
    Permutation (map (sl buf') (seqN 0 n)) (map (sl buf) (seqN 0 n)) /\
    (forall k, n <= k -> getN buf' k = getN buf k).
Proof.
  induction fuel as [|fuel IH]; intros buf i Hw Hlen HnW Hi Hfuel Hup.
  - (* fuel 0 forces i = 0: the loop condition is false *)
    assert (i = 0) by lia. subst i. cbn [sift_up]. cbn [N.eqb negb andb].
    exists buf. split; [reflexivity|]. split; [reflexivity|]. split; [assumption|].
    split; [eapply heap_up_done; eauto|]. split; [apply Permutation_refl|reflexivity].
  - cbn [sift_up].
    destruct (N.eq_dec i 0) as [->|Hi0].
    + cbn [N.eqb negb andb]. exists buf. split; [reflexivity|]. split; [reflexivity|]. split; [assumption|].
      split; [eapply heap_up_done; eauto|]. split; [apply Permutation_refl|reflexivity].
    + replace (i =? 0) with false by lia. cbn [negb andb].
      rewrite parent_bridge by lia.
      assert (Hpi : par i < i) by (apply par_lt; lia).
      destruct (0 <? cmp (sl buf i) (sl buf (par i)))%Z eqn:Ecmp.
      * (* swap with the parent and continue there *)
        assert (Hgt : (cmp (sl buf i) (sl buf (par i)) > 0)%Z) by lia.
        rewrite (rd_ok buf n i) by assumption. cbn [bind].
        rewrite (rd_ok buf n (par i)) by (assumption || lia). cbn [bind].
        destruct (swap_ok buf n i (par i) Hw Hlen Hi) as (b1 & b2 & E1 & E2 & L2 & W2 & S2 & O2); [lia|].
        rewrite E1. cbn [bind]. rewrite E2. cbn [bind].
        rewrite (rd_ok b2 n (par i)) by (assumption || lia). cbn [bind].
        assert (Hrdp : rd b2 (m_CC_PARENT (par i)) = Ok (sl b2 (m_CC_PARENT (par i)))).
        { destruct (N.eq_dec (par i) 0) as [E0|N0].
          - rewrite E0, parent_zero. apply (rd_ok b2 n); [assumption|lia].
          - rewrite parent_bridge by lia. apply (rd_ok b2 n); [assumption|].
            assert (par (par i) < par i) by (apply par_lt; lia). lia. }
        rewrite Hrdp. cbn [bind].
        destruct (IH b2 (par i)) as (buf' & Eb & Lb & Wb & Hb & Pb & Ob); try assumption; try lia.
        { eapply heap_up_step; eauto. lia. }
        exists buf'. split; [exact Eb|]. split; [congruence|]. split; [assumption|]. split; [assumption|].
        split.
        -- eapply Permutation_trans; [exact Pb|]. apply (perm_swapped _ _ n i (par i)); [assumption|lia|assumption].
        -- intros k Hk. rewrite Ob by assumption. apply O2; lia.
      * exists buf. split; [reflexivity|]. split; [reflexivity|]. split; [assumption|].
        split; [|split; [apply Permutation_refl|reflexivity]].
        eapply heap_up_done; eauto. right. apply ge_of_not_gt. lia.
Qed.

(** * cc_pqueue_heapify *)
Lemma heapify_eq fuel size buf index :
  heapify cmp fuel size buf index =
  if g_pq_heapify_small size then Ok buf else
  let L := m_CC_LEFT index in
  let R := m_CC_RIGHT index in
  let tmp := index in
  do indexPtr <- rd buf index;
  do (ip1, idx1) <- (if L <? size then
                       do l <- rd buf L;
                       if (cmp indexPtr l <? 0)%Z then Ok (l, L) else Ok (indexPtr, index)
                     else Ok (indexPtr, index));
  do (_, idx2) <- (if R <? size then
                       do r <- rd buf R;
                       if (cmp ip1 r <? 0)%Z then Ok (r, R) else Ok (ip1, idx1)
                     else Ok (ip1, idx1));
  if g_pq_heapify_moved idx2 tmp then
    do swap_tmp <- rd buf tmp;
    do c <- rd buf idx2;
    do buf1 <- wr buf tmp c;
    do buf2 <- wr buf1 idx2 swap_tmp;
    match fuel with
    | O => Fault OutOfFuel
    | S f => heapify cmp f size buf2 idx2
    end
  else Ok buf.
Proof. destruct fuel; reflexivity. Qed.

Lemma heapify_small fuel size buf index : size <= 1 -> heapify cmp fuel size buf index = Ok buf.
Proof.
  intros H. rewrite heapify_eq. unfold g_pq_heapify_small. replace (size <=? 1) with true by lia. reflexivity.
Qed.

Lemma heapify_ok n fuel : forall buf i,
  written buf n -> n <= lenN buf -> 2 * n < W -> i < n -> n <= N.of_nat fuel + i + 1 ->
  heap_down (sl buf) n i ->
  exists buf', heapify cmp fuel n buf i = Ok buf' /\
    lenN buf' = lenN buf /\ written buf' n /\ heap (sl buf') n /\
    Permutation (map (sl buf') (seqN 0 n)) (map (sl buf) (seqN 0 n)) /\
    (forall k, n <= k -> getN buf' k = getN buf k).
Proof.
  induction fuel as [|fuel IH]; intros buf i Hw Hlen HnW Hi Hfuel Hdown.
  all: destruct (N.le_gt_cases n 1) as [Hsmall|Hbig];
    [ rewrite heapify_small by assumption; exists buf; split; [reflexivity|]; split; [reflexivity|];
      split; [assumption|]; split; [intros k Hk; lia|]; split; [apply Permutation_refl|reflexivity] | ].
  all: rewrite heapify_eq; unfold g_pq_heapify_small, g_pq_heapify_moved;
    replace (n <=? 1) with false by lia; cbv zeta;
    rewrite left_bridge by lia; rewrite right_bridge by lia;
    rewrite (rd_ok buf n i) by assumption; cbn [bind].
  all: set (f := sl buf) in *.
  (* nothing moves: the heap is complete *)
  all: assert (Hstop : (2 * i + 1 < n -> ge (f i) (f (2 * i + 1))) -> (2 * i + 2 < n -> ge (f i) (f (2 * i + 2))) ->
         exists buf', Ok buf = Ok buf' /\ lenN buf' = lenN buf /\ written buf' n /\ heap (sl buf') n /\
           Permutation (map (sl buf') (seqN 0 n)) (map (sl buf) (seqN 0 n)) /\
           (forall k, n <= k -> getN buf' k = getN buf k))
    by (intros HL HR; exists buf; split; [reflexivity|]; split; [reflexivity|]; split; [assumption|];
        split; [eapply heap_down_done; eauto|]; split; [apply Permutation_refl|reflexivity]).
  (* fuel 0: no child index is below n, so nothing can move *)
  - assert (n <= i + 1) by lia.
    replace (2 * i + 1 <? n) with false by lia. cbn [bind].
    replace (2 * i + 2 <? n) with false by lia. cbn [bind].
    rewrite N.eqb_refl. cbn [negb]. apply Hstop; intros; lia.
  - (* the larger child [c] moves up and the recursion continues at [c] *)
    assert (Hrec : forall c, c < n -> (c = 2 * i + 1 \/ c = 2 * i + 2) -> ge (f c) (f i) ->
              (forall k, 0 < k < n -> par k = i -> ge (f c) (f k)) ->
              exists buf', (do c' <- rd buf c; do buf1 <- wr buf i c';
                            do buf2 <- wr buf1 c (f i); heapify cmp fuel n buf2 c) = Ok buf' /\
                lenN buf' = lenN buf /\ written buf' n /\ heap (sl buf') n /\
                Permutation (map (sl buf') (seqN 0 n)) (map (sl buf) (seqN 0 n)) /\
                (forall k, n <= k -> getN buf' k = getN buf k)).
    { intros c Hc Hchild Hci Hck.
      rewrite (rd_ok buf n c) by assumption. cbn [bind].
      destruct (swap_ok buf n i c Hw Hlen Hi Hc) as (b1 & b2 & E1 & E2 & L2 & W2 & S2 & O2).
      fold f in E1, E2. fold f. rewrite E1. cbn [bind]. rewrite E2. cbn [bind].
      destruct (IH b2 c) as (buf' & Eb & Lb & Wb & Hb & Pb & Ob); try assumption; try lia.
      { eapply (heap_down_step f); eauto. }
      exists buf'. split; [exact Eb|]. split; [congruence|]. split; [assumption|]. split; [assumption|].
      split.
      - eapply Permutation_trans; [exact Pb|]. apply (perm_swapped _ _ n i c); assumption.
      - intros k Hk. rewrite Ob by assumption. apply O2; lia. }
    destruct (2 * i + 1 <? n) eqn:EL.
    + assert (HL : 2 * i + 1 < n) by lia.
      rewrite (rd_ok buf n (2 * i + 1)) by assumption. cbn [bind]. fold f.
      destruct (cmp (f i) (f (2 * i + 1)%N) <? 0)%Z eqn:EcL; cbn [bind].
      * (* left child is larger than the node *)
        assert (HgtL : (cmp (f (2 * i + 1)%N) (f i) > 0)%Z) by (apply gt_of_lt; lia).
        destruct (2 * i + 2 <? n) eqn:ER.
        -- assert (HR : 2 * i + 2 < n) by lia.
           rewrite (rd_ok buf n (2 * i + 2)) by assumption. cbn [bind]. fold f.
           destruct (cmp (f (2 * i + 1)%N) (f (2 * i + 2)%N) <? 0)%Z eqn:EcR; cbn [bind].
           ++ (* right beats left beats node *)
              assert (HgtR : (cmp (f (2 * i + 2)%N) (f (2 * i + 1)%N) > 0)%Z) by (apply gt_of_lt; lia).
              replace (2 * i + 2 =? i) with false by lia. cbn [negb].
              apply Hrec; [assumption|right; reflexivity| |].
              ** eapply cmp_trans; apply ge_of_gt; eassumption.
              ** intros k Hk Ek. apply par_children in Ek; [|lia].
                 destruct Ek as [->| ->]; [apply ge_of_gt; assumption | apply ge_refl].
           ++ replace (2 * i + 1 =? i) with false by lia. cbn [negb].
              apply Hrec; [assumption|left; reflexivity|apply ge_of_gt; assumption|].
              intros k Hk Ek. apply par_children in Ek; [|lia].
              destruct Ek as [->| ->]; [apply ge_refl | apply ge_of_not_lt; lia].
        -- cbn [bind]. replace (2 * i + 1 =? i) with false by lia. cbn [negb].
           apply Hrec; [assumption|left; reflexivity|apply ge_of_gt; assumption|].
           intros k Hk Ek. apply par_children in Ek; [|lia].
           destruct Ek as [->| ->]; [apply ge_refl | lia].
      * (* node is at least the left child *)
        assert (HgeL : ge (f i) (f (2 * i + 1))) by (apply ge_of_not_lt; lia).
        destruct (2 * i + 2 <? n) eqn:ER.
        -- assert (HR : 2 * i + 2 < n) by lia.
           rewrite (rd_ok buf n (2 * i + 2)) by assumption. cbn [bind]. fold f.
           destruct (cmp (f i) (f (2 * i + 2)%N) <? 0)%Z eqn:EcR; cbn [bind].
           ++ assert (HgtR : (cmp (f (2 * i + 2)%N) (f i) > 0)%Z) by (apply gt_of_lt; lia).
              replace (2 * i + 2 =? i) with false by lia. cbn [negb].
              apply Hrec; [assumption|right; reflexivity|apply ge_of_gt; assumption|].
              intros k Hk Ek. apply par_children in Ek; [|lia].
              destruct Ek as [->| ->]; [|apply ge_refl].
              eapply cmp_trans; [apply ge_of_gt; exact HgtR | exact HgeL].
           ++ rewrite N.eqb_refl. cbn [negb]. apply Hstop; intros; [assumption|apply ge_of_not_lt; lia].
        -- cbn [bind]. rewrite N.eqb_refl. cbn [negb]. apply Hstop; intros; [assumption|lia].
    + assert (2 * i + 2 <? n = false) as -> by lia. cbn [bind].
      rewrite N.eqb_refl. cbn [negb]. apply Hstop; intros; lia.
Qed.

End Heap.
