(** Executable model of src/cc_ring_buffer.c (definitions only). *)
From CC Require Import Base.Prelude Base.Alloc Generated.Status Generated.Constants Generated.Guards.
Local Open Scope N_scope.

Record rbuf := {
  rb_buf : list (option N);   (* calloc'ed slots; None is never produced by calloc, kept for uniformity *)
  rb_head : N; rb_tail : N; rb_size : N; rb_cap : N;
  rb_hdr : N; rb_blk : N;     (* ledger ids of the header and the buffer *)
  rb_mem : tag;
}.

(** cc_rbuf_conf_new: two callocs; the second refusal releases the header. *)
Definition rb_new (mem : tag) (capacity : N) (a : alloc_st) : res (stat * option rbuf * alloc_st) :=
  match alloc mem 64 a with
  | (None, a1) => Ok (CC_ERR_ALLOC, None, a1)
  | (Some h, a1) =>
      match alloc mem (wmul capacity 8) a1 with
      | (None, a2) => do a3 <- release mem h a2; Ok (CC_ERR_ALLOC, None, a3)
      | (Some b, a2) =>
          Ok (CC_OK, Some {| rb_buf := repeatN (Some 0) capacity; rb_head := 0; rb_tail := 0;
                             rb_size := 0; rb_cap := capacity; rb_hdr := h; rb_blk := b; rb_mem := mem |}, a2)
      end
  end.

Definition rb_destroy (r : rbuf) (a : alloc_st) : res alloc_st :=
  do a1 <- release (rb_mem r) (rb_blk r) a; release (rb_mem r) (rb_hdr r) a1.

Definition set_fields (r : rbuf) buf head tail size : rbuf :=
  {| rb_buf := buf; rb_head := head; rb_tail := tail; rb_size := size; rb_cap := rb_cap r;
     rb_hdr := rb_hdr r; rb_blk := rb_blk r; rb_mem := rb_mem r |}.

Definition rb_enqueue (r : rbuf) (x : N) : res rbuf :=
  if rb_cap r =? 0 then Fault DivZero else
  let tail' := if g_rbuf_enqueue_full (rb_size r) (rb_cap r) (rb_head r) (rb_tail r)
               then (rb_tail r + 1) mod rb_cap r else rb_tail r in
  do buf' <- of_opt OutOfBounds (updN (rb_buf r) (rb_head r) (Some x));
  let head' := (rb_head r + 1) mod rb_cap r in
  let size' := if g_rbuf_enqueue_room (rb_size r) (rb_cap r) then rb_size r + 1 else rb_size r in
  Ok (set_fields r buf' head' tail' size').

Definition rb_dequeue (r : rbuf) : res (stat * option N * rbuf) :=
  if rb_size r =? 0 then Ok (CC_ERR_OUT_OF_RANGE, None, r) else
  do slot <- of_opt OutOfBounds (getN (rb_buf r) (rb_tail r));
  do v <- of_opt Uninit slot;
  if rb_cap r =? 0 then Fault DivZero else
  Ok (CC_OK, Some v, set_fields r (rb_buf r) (rb_head r) ((rb_tail r + 1) mod rb_cap r) (wsub (rb_size r) 1)).

Definition rb_peek (r : rbuf) (i : N) : res N :=
  do slot <- of_opt OutOfBounds (getN (rb_buf r) i); of_opt Uninit slot.

(** Operations of the trace language and one step of the state machine. *)
Inductive rb_op := REnq (x : N) | RDeq.
Inductive rb_out := ROut (st : stat) (v : option N).

Definition rb_step (r : rbuf) (o : rb_op) : res (rb_out * rbuf) :=
  match o with
  | REnq x => do r' <- rb_enqueue r x; Ok (ROut CC_OK None, r')
  | RDeq => do (st, v, r') <- rb_dequeue r; Ok (ROut st v, r')
  end.

(** The ideal object: a FIFO list bounded by the capacity, oldest first. *)
Definition spec_enqueue (cap : N) (l : list N) (x : N) : list N :=
  if lenN l <? cap then l ++ [x] else tl l ++ [x].
Definition spec_step (cap : N) (l : list N) (o : rb_op) : rb_out * list N :=
  match o with
  | REnq x => (ROut CC_OK None, spec_enqueue cap l x)
  | RDeq => match l with [] => (ROut CC_ERR_OUT_OF_RANGE None, []) | x :: t => (ROut CC_OK (Some x), t) end
  end.

(** What the public API shows: size, emptiness, and the contents obtained by draining a copy. *)
Definition rb_contents (r : rbuf) : list (option N) :=
  map (fun i => match getN (rb_buf r) ((rb_tail r + i) mod rb_cap r) with Some (Some v) => Some v | _ => None end)
      (seqN 0 (rb_size r)).
