(** Invariant and refinement proofs for the ring buffer model. *)
From CC Require Import Base.Prelude Base.ListMem Base.ModArith Base.Alloc Base.AllocProofs.
From CC Require Import Generated.Status Generated.Constants Generated.Guards Rbuf.RbufModel.
Local Open Scope N_scope.

Record rb_inv (r : rbuf) : Prop := {
  inv_cap : 0 < rb_cap r;
  inv_capW : rb_cap r < W;
  inv_len : lenN (rb_buf r) = rb_cap r;
  inv_tail : rb_tail r < rb_cap r;
  inv_size : rb_size r <= rb_cap r;
  inv_head : rb_head r = (rb_tail r + rb_size r) mod rb_cap r;
  inv_written : forall i, i < rb_cap r -> exists v, getN (rb_buf r) i = Some (Some v);
}.

Definition slot (r : rbuf) (i : N) : N :=
  match getN (rb_buf r) i with Some (Some v) => v | _ => 0 end.
(** Abstraction: the held items, oldest first. *)
Definition rb_abs (r : rbuf) : list N :=
  map (fun i => slot r ((rb_tail r + i) mod rb_cap r)) (seqN 0 (rb_size r)).

Lemma rb_abs_len r : lenN (rb_abs r) = rb_size r.
Proof. unfold rb_abs, lenN. rewrite map_length. apply seqN_length. Qed.

Lemma map_ext_seqN {B} (f g : N -> B) s n :
  (forall i, s <= i < s + n -> f i = g i) -> map f (seqN s n) = map g (seqN s n).
Proof. intros H; apply map_ext_in; intros a Ha; apply H, in_seqN, Ha. Qed.

Lemma seqN_shift s n : seqN (s + 1) n = map (fun i => i + 1) (seqN s n).
Proof.
  unfold seqN. replace (N.to_nat (s + 1)) with (S (N.to_nat s)) by lia.
  rewrite <- seq_shift, !map_map. apply map_ext; intros; lia.
Qed.

Lemma rb_new_inv mem c a st r a' :
  0 < c -> c * 8 < W -> rb_new mem c a = Ok (st, Some r, a') -> rb_inv r /\ rb_abs r = [] /\ rb_cap r = c.
Proof.
  intros Hc Hw. unfold rb_new.
  destruct (alloc mem 64 a) as [[h|] a1]; [|discriminate].
  destruct (alloc mem (wmul c 8) a1) as [[b|] a2].
  - intros H; inversion H; subst; clear H. split; [|split; reflexivity].
    constructor; cbn [rb_cap rb_buf rb_head rb_tail rb_size]; try lia.
    + apply lenN_repeatN.
    + intros i Hi; exists 0; apply getN_repeatN; assumption.
  - destruct (release mem h a2); cbn; discriminate.
Qed.

Lemma enqueue_refines r x :
  rb_inv r ->
  exists r', rb_enqueue r x = Ok r' /\ rb_inv r' /\ rb_cap r' = rb_cap r /\
             rb_abs r' = spec_enqueue (rb_cap r) (rb_abs r) x.
Proof.
  intros [Hc HcW Hl Ht Hs Hh Hw].
  unfold rb_enqueue, g_rbuf_enqueue_full, g_rbuf_enqueue_room.
  assert (Hhd : rb_head r < rb_cap r) by lia.
  destruct (rb_cap r =? 0) eqn:E0; [lia|].
  destruct (updN_lt (rb_buf r) (rb_head r) (Some x)) as [buf' Hb]; [lia|].
  rewrite Hb; cbn [of_opt bind].
  eexists; split; [reflexivity|].
  assert (Hl' : lenN buf' = rb_cap r) by (erewrite lenN_updN; eauto).
  assert (Hw' : forall i, i < rb_cap r -> exists v, getN buf' i = Some (Some v)).
  { intros i Hi. destruct (N.eq_dec (rb_head r) i) as [Ei|Hne]; [subst i|].
    - exists x; eapply getN_updN_same; eauto.
    - erewrite getN_updN_other by eauto. auto. }
  unfold spec_enqueue. rewrite rb_abs_len.
  destruct (rb_size r =? rb_cap r) eqn:Efull.
  - (* full: the oldest item is overwritten *)
    assert (Es : rb_size r = rb_cap r) by lia.
    assert (Ehead : rb_head r = rb_tail r) by (rewrite Hh, Es; apply ring_full; lia).
    replace (rb_size r <? rb_cap r) with false by lia.
    split; [|split; [reflexivity|]].
    + constructor; cbn [rb_cap rb_buf rb_head rb_tail rb_size set_fields]; try lia; try assumption.
      * rewrite Es, Ehead. rewrite ring_succ by lia.
        replace (rb_tail r + (rb_cap r + 1)) with ((rb_tail r + 1) + 1 * rb_cap r) by lia.
        rewrite N.mod_add by lia. reflexivity.
    + unfold rb_abs; cbn [rb_cap rb_buf rb_head rb_tail rb_size set_fields]. rewrite Es.
      assert (E1 : seqN 0 (rb_cap r) = seqN 0 (rb_cap r - 1) ++ [rb_cap r - 1]).
      { replace (rb_cap r) with ((rb_cap r - 1) + 1) at 1 by lia. rewrite seqN_S. reflexivity. }
      assert (E2 : seqN 0 (rb_cap r) = 0 :: seqN (0 + 1) (rb_cap r - 1)).
      { replace (rb_cap r) with ((rb_cap r - 1) + 1) at 1 by lia. apply seqN_cons. }
      rewrite E1 at 1. rewrite E2. rewrite map_app. cbn [map tl].
      rewrite seqN_shift, map_map. f_equal.
      * apply map_ext_seqN; intros i Hi. rewrite ring_succ by lia.
        unfold slot; cbn [rb_cap rb_buf rb_head rb_tail rb_size set_fields]. erewrite getN_updN_other; eauto.
        rewrite Ehead. intros Heq.
        assert (0 = i + 1); [|lia].
        apply (ring_inj (rb_tail r) 0 (i + 1) (rb_cap r)); try lia.
        rewrite N.add_0_r, N.mod_small by lia. exact Heq.
      * f_equal. unfold slot; cbn [rb_cap rb_buf rb_head rb_tail rb_size set_fields]. rewrite ring_succ by lia.
        replace (rb_cap r - 1 + 1) with (rb_cap r) by lia.
        rewrite ring_full by lia. rewrite <- Ehead.
        erewrite getN_updN_same; eauto; reflexivity.
  - (* room: append *)
    assert (Es : rb_size r < rb_cap r) by lia.
    replace (rb_size r <? rb_cap r) with true by lia.
    split; [|split; [reflexivity|]].
    + constructor; cbn [rb_cap rb_buf rb_head rb_tail rb_size set_fields]; try lia; try assumption.
      rewrite Hh. rewrite N.add_mod_idemp_l by lia. f_equal; lia.
    + unfold rb_abs; cbn [rb_cap rb_buf rb_head rb_tail rb_size set_fields]. rewrite seqN_S, map_app. cbn [map]. f_equal.
      * apply map_ext_seqN; intros i Hi.
        unfold slot; cbn [rb_cap rb_buf rb_head rb_tail rb_size set_fields]. erewrite getN_updN_other; eauto.
        rewrite Hh. intros Heq. apply ring_inj in Heq; lia.
      * f_equal. unfold slot; cbn [rb_cap rb_buf rb_head rb_tail rb_size set_fields]. rewrite N.add_0_l, <- Hh.
        erewrite getN_updN_same; eauto; reflexivity.
Qed.

Lemma dequeue_refines r :
  rb_inv r ->
  exists st v r', rb_dequeue r = Ok (st, v, r') /\ rb_inv r' /\ rb_cap r' = rb_cap r /\
    (ROut st v, rb_abs r') = spec_step (rb_cap r) (rb_abs r) RDeq /\
    (st <> CC_OK -> r' = r).
Proof.
  intros [Hc HcW Hl Ht Hs Hh Hw]. unfold rb_dequeue.
  destruct (rb_size r =? 0) eqn:E0.
  - exists CC_ERR_OUT_OF_RANGE, None, r. split; [reflexivity|]. split; [constructor; assumption|].
    split; [reflexivity|]. split; [|reflexivity].
    unfold rb_abs. replace (rb_size r) with 0 by lia. reflexivity.
  - destruct (Hw (rb_tail r) Ht) as [v Hv]. rewrite Hv; cbn [of_opt bind].
    destruct (rb_cap r =? 0) eqn:Ec; [lia|].
    exists CC_OK, (Some v). eexists. split; [reflexivity|].
    assert (Hsz : wsub (rb_size r) 1 = rb_size r - 1).
    { unfold wsub. change (1 mod W) with 1. assert (0 < rb_size r) by lia.
      replace (rb_size r + W - 1) with ((rb_size r - 1) + 1 * W) by lia.
      rewrite N.mod_add by (unfold W; lia). apply N.mod_small. lia. }
    rewrite Hsz.
    split; [|split; [reflexivity|split; [|intros Hne; congruence]]].
    + constructor; cbn [rb_cap rb_buf rb_head rb_tail rb_size set_fields]; try lia; try assumption.
      rewrite Hh. rewrite N.add_mod_idemp_l by lia. f_equal; lia.
    + unfold rb_abs; cbn [rb_cap rb_buf rb_head rb_tail rb_size set_fields].
      replace (rb_size r) with ((rb_size r - 1) + 1) at 2 by lia.
      rewrite seqN_cons. cbn [map spec_step].
      rewrite N.add_0_r, (N.mod_small (rb_tail r)) by lia.
      unfold slot at 2. rewrite Hv. f_equal.
      rewrite seqN_shift, map_map. apply map_ext_seqN; intros i Hi.
      rewrite ring_succ by lia. reflexivity.
Qed.

(** One step of the state machine refines one step of the bounded FIFO. *)
Theorem rb_step_refines r o :
  rb_inv r ->
  exists out r', rb_step r o = Ok (out, r') /\ rb_inv r' /\ rb_cap r' = rb_cap r /\ (out, rb_abs r') = spec_step (rb_cap r) (rb_abs r) o.
Proof.
  intros Hi. destruct o as [x|]; cbn [rb_step].
  - destruct (enqueue_refines r x Hi) as (r' & -> & Hi' & Hc & Ha).
    do 2 eexists; split; [reflexivity|]. cbn [spec_step]. rewrite Ha. auto.
  - destruct (dequeue_refines r Hi) as (st & v & r' & -> & Hi' & Hc & Ha & _).
    do 2 eexists; split; [reflexivity|]. auto.
Qed.

(** Histories. *)
Fixpoint rb_run (r : rbuf) (ops : list rb_op) : res (list rb_out * rbuf) :=
  match ops with
  | [] => Ok ([], r)
  | o :: t => do (out, r1) <- rb_step r o; do (outs, r2) <- rb_run r1 t; Ok (out :: outs, r2)
  end.
Fixpoint spec_run (cap : N) (l : list N) (ops : list rb_op) : list rb_out * list N :=
  match ops with
  | [] => ([], l)
  | o :: t => let '(out, l1) := spec_step cap l o in
              let '(outs, l2) := spec_run cap l1 t in (out :: outs, l2)
  end.

Theorem rb_run_refines ops : forall r,
  rb_inv r ->
  exists outs r', rb_run r ops = Ok (outs, r') /\ rb_inv r' /\ rb_cap r' = rb_cap r /\ (outs, rb_abs r') = spec_run (rb_cap r) (rb_abs r) ops.
Proof.
  induction ops as [|o t IH]; intros r Hi; cbn [rb_run spec_run].
  - do 2 eexists; eauto.
  - destruct (rb_step_refines r o Hi) as (out & r1 & -> & Hi1 & Hc1 & Hs1). cbn [bind].
    destruct (IH r1 Hi1) as (outs & r2 & -> & Hi2 & Hc2 & Hs2). cbn [bind].
    do 2 eexists; split; [reflexivity|]. split; [assumption|]. split; [congruence|].
    rewrite <- Hs1. rewrite Hc1 in Hs2. rewrite <- Hs2. reflexivity.
Qed.

(** Consequences stated by the property. *)
Lemma spec_len_le cap l o : lenN l <= cap -> 0 < cap -> lenN (snd (spec_step cap l o)) <= cap.
Proof.
  destruct o as [x|]; cbn [spec_step snd]; intros H Hc.
  - unfold spec_enqueue. destruct (lenN l <? cap) eqn:E; rewrite lenN_app; cbn.
    + change (lenN [x]) with 1. lia.
    + destruct l as [|a l]; cbn [tl]; change (lenN [x]) with 1; [unfold lenN in *; cbn in *; lia|].
      rewrite lenN_cons in H. lia.
  - destruct l as [|a l]; cbn [snd]; [assumption|]. rewrite lenN_cons in H. lia.
Qed.

Theorem rb_size_is_count r : rb_inv r -> rb_size r = lenN (rb_abs r) /\ rb_size r <= rb_cap r.
Proof. intros Hi; split; [symmetry; apply rb_abs_len | apply (inv_size r Hi)]. Qed.

Theorem rb_dequeue_empty_inert r :
  rb_inv r -> rb_size r = 0 -> rb_dequeue r = Ok (CC_ERR_OUT_OF_RANGE, None, r).
Proof. intros _ H; unfold rb_dequeue; rewrite H; reflexivity. Qed.

(** No memory fault on any history: a corollary of refinement ([rb_run] never returns [Fault]). *)
Theorem rb_run_no_fault ops r : rb_inv r -> forall f, rb_run r ops <> Fault f.
Proof. intros Hi f. destruct (rb_run_refines ops r Hi) as (? & ? & -> & _). discriminate. Qed.

(** From the constructor: every history on a buffer of any capacity >= 1. *)
Theorem rb_new_run_refines mem c a st r a' ops :
  0 < c -> c * 8 < W -> rb_new mem c a = Ok (st, Some r, a') ->
  exists outs r', rb_run r ops = Ok (outs, r') /\ rb_inv r' /\ (outs, rb_abs r') = spec_run c [] ops.
Proof.
  intros Hc Hw Hn. destruct (rb_new_inv _ _ _ _ _ _ Hc Hw Hn) as (Hi & Ha & Hcap).
  destruct (rb_run_refines ops r Hi) as (outs & r' & Hr & Hi' & _ & Hs).
  exists outs, r'. rewrite Ha, Hcap in Hs. auto.
Qed.

(** Constructor and destructor against the ledger: a refused request leaves nothing behind,
    and destroy releases exactly the two blocks [rb_new] obtained. *)
Theorem rb_new_refused_clean mem c a st a' :
  rb_new mem c a = Ok (st, None, a') -> st = CC_ERR_ALLOC /\ live a' = live a.
Proof.
  unfold rb_new.
  pose proof (alloc_cases mem 64 a) as C1. destruct (alloc mem 64 a) as [[h|] a1].
  - destruct C1 as (-> & Hl1 & _).
    pose proof (alloc_cases mem (wmul c 8) a1) as C2. destruct (alloc mem (wmul c 8) a1) as [[b|] a2]; [discriminate|].
    destruct C2 as (Hl2 & _). rewrite Hl1 in Hl2.
    destruct (release_head _ _ _ _ _ Hl2) as (a3 & -> & Hl3 & _). cbn [bind].
    intros H; inversion H; subst; auto.
  - destruct C1 as (Hl1 & _). intros H; inversion H; subst; auto.
Qed.

Theorem rb_new_destroy_balanced mem c a st r a' :
  rb_new mem c a = Ok (st, Some r, a') -> exists a'', rb_destroy r a' = Ok a'' /\ live a'' = live a.
Proof.
  unfold rb_new, rb_destroy.
  pose proof (alloc_cases mem 64 a) as C1. destruct (alloc mem 64 a) as [[h|] a1]; [|discriminate].
  destruct C1 as (-> & Hl1 & _).
  pose proof (alloc_cases mem (wmul c 8) a1) as C2. destruct (alloc mem (wmul c 8) a1) as [[b|] a2].
  - destruct C2 as (-> & Hl2 & _). intros H; inversion H; subst; clear H. cbn [rb_mem rb_blk rb_hdr].
    destruct (release_head _ _ _ _ _ Hl2) as (a3 & -> & Hl3 & _). cbn [bind].
    rewrite Hl1 in Hl3. destruct (release_head _ _ _ _ _ Hl3) as (a4 & -> & Hl4 & _). eauto.
  - destruct (release mem (next_id a) a2); cbn; discriminate.
Qed.
