(** Extraction of the rbuf engine model. ExtrOcamlBasic only: bool, option, list, prod, unit,
    sumbool map to OCaml's; N / positive / nat stay Coq inductives. No Extract Constant.
    Run from /verif/ocaml/gen (the file is written to the current directory). *)
From Coq Require Import Extraction ExtrOcamlBasic.
From CC Require Import Base.Prelude Base.Alloc Generated.Status Generated.Constants Generated.Macros Generated.Guards.
From CC Require Import Rbuf.RbufModel.
Extraction Language OCaml.
Extraction "model.ml"
  N.add N.mul N.sub N.div N.modulo N.eqb N.ltb N.leb N.of_nat N.to_nat N.land N.shiftl N.shiftr
  alloc_init alloc release count_tag is_live stat_code
  DEFAULT_CC_RBUF_CAPACITY DEFAULT_CAPACITY
  rb_new rb_destroy rb_step rb_peek rb_contents spec_step.
