(** Extraction of the dynamic pool model. ExtrOcamlBasic only; no Extract Constant. *)
From Coq Require Import Extraction ExtrOcamlBasic.
From CC Require Import Base.Prelude Base.Alloc Generated.Status Generated.Constants Generated.Guards DPool.DPoolModel.
Extraction Language OCaml.
Extraction "model.ml"
  N.add N.mul N.sub N.div N.modulo N.eqb N.ltb N.leb N.of_nat N.to_nat N.land N.shiftl N.shiftr
  alloc_init alloc release count_tag is_live stat_code
  dp_new dp_step dp_destroy dp_used dp_free_bytes lenN.
