(** Executable model of src/memory/cc_dynamic_pool.c (definitions only).
    A pointer is (page id, offset from the page's payload start); the page payload follows a
    16-byte PageInfo header. The expansion factor is the rational ef_num/ef_den (T5). *)
From CC Require Import Base.Prelude Base.Alloc Generated.Status Generated.Constants Generated.Guards.
Local Open Scope N_scope.

Definition SIZE_MAX : N := W - 1.
Definition PAGE_HDR : N := 16.
Definition POOL_HDR : N := 80.

Record dpool := {
  dp_fixed : bool; dp_packed : bool; dp_num : N; dp_den : N; dp_boundary : N;
  dp_top : N;                       (* top_page_size *)
  dp_pages : list (N * N);          (* (ledger id, payload size), newest first; never empty *)
  dp_high : N; dp_free : N;         (* offsets in the newest page *)
  dp_hdr : N; dp_mem : tag;
  dp_blocks : list (N * N * N);     (* ghost: (page id, offset, reserved length incl. padding), newest first,
                                       handed out since the last reset and not rolled back *)
}.

Definition dp_set (p : dpool) top pages high free blocks : dpool :=
  {| dp_fixed := dp_fixed p; dp_packed := dp_packed p; dp_num := dp_num p; dp_den := dp_den p;
     dp_boundary := dp_boundary p; dp_top := top; dp_pages := pages; dp_high := high; dp_free := free;
     dp_hdr := dp_hdr p; dp_mem := dp_mem p; dp_blocks := blocks |}.

Definition dp_new (mem : tag) (fixed packed : bool) (num den boundary size : N) (a : alloc_st)
  : stat * option dpool * alloc_st :=
  match alloc mem POOL_HDR a with
  | (None, a1) => (CC_ERR_ALLOC, None, a1)
  | (Some h, a1) =>
      match alloc mem (wadd size PAGE_HDR) a1 with
      | (None, a2) =>
          match release mem h a2 with
          | Ok a3 => (CC_ERR_ALLOC, None, a3)
          | Fault _ => (CC_ERR_ALLOC, None, a2)      (* unreachable: h was just granted *)
          end
      | (Some pg, a2) =>
          (CC_OK, Some {| dp_fixed := fixed; dp_packed := packed; dp_num := num; dp_den := den;
                          dp_boundary := boundary; dp_top := size; dp_pages := [(pg, size)];
                          dp_high := 0; dp_free := 0; dp_hdr := h; dp_mem := mem; dp_blocks := [] |}, a2)
      end
  end.

Definition top_page (p : dpool) : N := match dp_pages p with (id, _) :: _ => id | [] => 0 end.

(** The tail of cc_dynamic_pool_malloc: hand out [n] bytes at the free offset of the newest page,
    then reserve the padding. *)
Definition dp_place (q : dpool) (n : N) (a' : alloc_st) : res (option (N * N) * dpool * alloc_st) :=
  let ptr := dp_free q in
  if dp_packed q then
    Ok (Some (top_page q, ptr),
        dp_set q (dp_top q) (dp_pages q) ptr (ptr + n) ((top_page q, ptr, n) :: dp_blocks q), a')
  else if dp_boundary q =? 0 then Fault DivZero
  else
    let rem := n mod dp_boundary q in
    let room := wsub (wsub (dp_top q) ptr) n in
    let pad0 := if g_dpool_pad_nonzero rem then dp_boundary q - rem else 0 in
    let pad := if g_dpool_pad_clamp pad0 room then room else pad0 in
    Ok (Some (top_page q, ptr),
        dp_set q (dp_top q) (dp_pages q) ptr (ptr + n + pad) ((top_page q, ptr, n + pad) :: dp_blocks q), a').

(** cc_dynamic_pool_malloc. Result: the pointer (page id, offset) or None. *)
Definition dp_malloc (p : dpool) (n : N) (a : alloc_st) : res (option (N * N) * dpool * alloc_st) :=
  if g_dpool_malloc_too_big n (dp_top p) then Ok (None, p, a) else
  let used := dp_free p in
  if g_dpool_malloc_needs_page n (dp_top p) used then
    let next_max := (dp_top p * dp_num p) / dp_den p in
    if g_dpool_malloc_cannot_expand (if dp_fixed p then 1 else 0) n next_max then Ok (None, p, a)
    else match alloc (dp_mem p) (wadd next_max PAGE_HDR) a with
         | (None, a1) => Ok (None, p, a1)
         | (Some pg, a1) => dp_place (dp_set p next_max ((pg, next_max) :: dp_pages p) 0 0 (dp_blocks p)) n a1
         end
  else dp_place p n a.

Definition dp_calloc (p : dpool) (count n : N) (a : alloc_st) : res (option (N * N) * dpool * alloc_st) :=
  if g_dpool_calloc_overflow n count SIZE_MAX then Ok (None, p, a)
  else dp_malloc p (wmul count n) a.

(** cc_dynamic_pool_free: only a pointer equal to high_ptr (hence in the newest page) rolls back. *)
Definition dp_free_ptr (p : dpool) (page off : N) : dpool :=
  if (page =? top_page p) && g_dpool_free_top off (dp_high p) then
    dp_set p (dp_top p) (dp_pages p) (dp_high p) (dp_high p)
      (match dp_blocks p with
       | (pg, o, l) :: rest => if (pg =? top_page p) && (o =? dp_high p) then rest else dp_blocks p
       | [] => []
       end)
  else p.

(** cc_dynamic_pool_reset: release every page above the oldest, newest first. *)
Fixpoint release_newer (mem : tag) (pages : list (N * N)) (a : alloc_st) : res (list (N * N) * alloc_st) :=
  match pages with
  | [] => Ok ([], a)
  | [last] => Ok ([last], a)
  | (id, _) :: rest => do a1 <- release mem id a; release_newer mem rest a1
  end.

Definition dp_reset (p : dpool) (a : alloc_st) : res (dpool * alloc_st) :=
  do (pages, a1) <- release_newer (dp_mem p) (dp_pages p) a;
  match pages with
  | (id, sz) :: _ => Ok (dp_set p sz pages 0 0 [], a1)
  | [] => Fault NullDeref
  end.

Fixpoint release_all (mem : tag) (pages : list (N * N)) (a : alloc_st) : res alloc_st :=
  match pages with
  | [] => Ok a
  | (id, _) :: rest => do a1 <- release mem id a; release_all mem rest a1
  end.

Definition dp_destroy (p : dpool) (a : alloc_st) : res alloc_st :=
  match dp_pages p with
  | [] => Fault NullDeref
  | _ => do a1 <- release_all (dp_mem p) (dp_pages p) a; release (dp_mem p) (dp_hdr p) a1
  end.

Definition older_sum (pages : list (N * N)) : N :=
  match pages with [] => 0 | _ :: older => fold_right (fun pg acc => snd pg + acc) 0 older end.
Definition dp_used (p : dpool) : N := wadd (dp_free p) (older_sum (dp_pages p)).
Definition dp_free_bytes (p : dpool) : N := wsub (dp_top p) (dp_free p).

Inductive dp_op := DMalloc (n : N) | DCalloc (c n : N) | DFree (page off : N) | DReset.

Definition dp_step (p : dpool) (o : dp_op) (a : alloc_st) : res (option (N * N) * dpool * alloc_st) :=
  match o with
  | DMalloc n => dp_malloc p n a
  | DCalloc c n => dp_calloc p c n a
  | DFree page off => Ok (None, dp_free_ptr p page off, a)
  | DReset => do (p', a') <- dp_reset p a; Ok (None, p', a')
  end.
