(** Proofs for the dynamic pool model. *)
From CC Require Import Base.Prelude Base.ListMem Base.Alloc Base.AllocProofs.
From CC Require Import Generated.Status Generated.Constants Generated.Guards DPool.DPoolModel.
Local Open Scope N_scope.

(** Blocks of one page as (offset, length), in list order (newest first). *)
Definition in_page (pg : N) (bs : list (N * N * N)) : list (N * N) :=
  map (fun b => (snd (fst b), snd b)) (filter (fun b => fst (fst b) =? pg) bs).

Fixpoint layout (bs : list (N * N)) (top : N) : Prop :=
  match bs with
  | [] => top = 0
  | (o, l) :: rest => o + l = top /\ layout rest o
  end.

Lemma layout_below bs top : layout bs top -> forall o l, In (o, l) bs -> o + l <= top.
Proof.
  revert top; induction bs as [|[o' l'] rest IH]; cbn; intros top H o l Hin; [tauto|].
  destruct H as [H1 H2]. destruct Hin as [E|Hin].
  - inversion E; subst; lia.
  - specialize (IH _ H2 _ _ Hin). lia.
Qed.
Lemma layout_sum bs top : layout bs top -> fold_right (fun b acc => snd b + acc) 0 bs = top.
Proof.
  revert top; induction bs as [|[o l] rest IH]; cbn [layout fold_right snd]; intros top H; [lia|].
  destruct H as [H1 H2]. specialize (IH _ H2). lia.
Qed.

(** Newer blocks of a page lie above older blocks of the same page. *)
Fixpoint disj (bs : list (N * N * N)) : Prop :=
  match bs with
  | [] => True
  | (pg, o, l) :: rest => (forall o' l', In (pg, o', l') rest -> o' + l' <= o) /\ disj rest
  end.

Record dp_inv (p : dpool) (a : alloc_st) : Prop := {
  iv_pages : exists id older, dp_pages p = (id, dp_top p) :: older;
  iv_topW : dp_top p < W;
  iv_free : dp_free p <= dp_top p;
  iv_high : dp_high p <= dp_free p;
  iv_layout : layout (in_page (top_page p) (dp_blocks p)) (dp_free p);
  iv_topb : (exists l rest, dp_blocks p = (top_page p, dp_high p, l) :: rest) \/ dp_high p = dp_free p;
  iv_owned : forall pg o l, In (pg, o, l) (dp_blocks p) -> exists sz, In (pg, sz) (dp_pages p) /\ o + l <= sz;
  iv_fresh : forall id sz, In (id, sz) (dp_pages p) -> id < next_id a;
  iv_disj : disj (dp_blocks p);
  iv_align : dp_packed p = false -> dp_boundary p <> 0 -> dp_free p mod dp_boundary p = 0 \/ dp_free p = dp_top p;
  iv_fixed : dp_fixed p = true -> exists id, dp_pages p = [(id, dp_top p)];
  iv_alignh : dp_packed p = false -> dp_boundary p <> 0 -> dp_high p mod dp_boundary p = 0 \/ dp_high p = dp_top p;
  iv_sizes : forall id sz, In (id, sz) (dp_pages p) -> sz < W;
}.

Lemma in_page_In pg bs o l : In (o, l) (in_page pg bs) <-> In (pg, o, l) bs.
Proof.
  unfold in_page. rewrite in_map_iff. split.
  - intros ([[pg' o'] l'] & E & Hin). cbn in E. inversion E; subst. apply filter_In in Hin. cbn in Hin.
    destruct Hin as [Hin Heq]. assert (pg' = pg) by lia. subst. exact Hin.
  - intros Hin. exists (pg, o, l). split; [reflexivity|]. apply filter_In. cbn. split; [assumption|lia].
Qed.

Lemma wsub_small a b : b <= a -> a < W -> wsub a b = a - b.
Proof.
  intros H Ha. unfold wsub. rewrite (N.mod_small b) by (unfold W in *; lia).
  replace (a + W - b) with ((a - b) + 1 * W) by lia.
  rewrite N.mod_add by (unfold W; lia). apply N.mod_small. unfold W in *; lia.
Qed.

(** Placing a block of [n] bytes (plus padding) at the free offset of the newest page. *)
Definition reserved (p : dpool) (n : N) : N :=
  if dp_packed p then n
  else let rem := n mod dp_boundary p in
       let room := dp_top p - dp_free p - n in
       let pad0 := if negb (rem =? 0) then dp_boundary p - rem else 0 in
       n + (if room <? pad0 then room else pad0).

Lemma reserved_bounds p n :
  n <= dp_top p - dp_free p -> dp_free p <= dp_top p ->
  n <= reserved p n /\ dp_free p + reserved p n <= dp_top p.
Proof.
  intros Hn Hf. unfold reserved. destruct (dp_packed p); [lia|].
  cbv zeta. destruct (negb (n mod dp_boundary p =? 0)).
  - destruct (N.ltb_spec (dp_top p - dp_free p - n) (dp_boundary p - n mod dp_boundary p)); lia.
  - destruct (N.ltb_spec (dp_top p - dp_free p - n) 0); lia.
Qed.

Lemma reserved_aligned p n :
  dp_packed p = false -> dp_boundary p <> 0 -> n <= dp_top p - dp_free p -> dp_free p <= dp_top p ->
  dp_free p mod dp_boundary p = 0 ->
  (dp_free p + reserved p n) mod dp_boundary p = 0 \/ dp_free p + reserved p n = dp_top p.
Proof.
  intros Hp Hb Hn Hf Ha. unfold reserved. rewrite Hp.
  set (b := dp_boundary p) in *. set (rem := n mod b).
  destruct (negb (rem =? 0)) eqn:Er.
  - destruct (dp_top p - dp_free p - n <? b - rem) eqn:Ec.
    + right. lia.
    + left. assert (Hrem : rem < b) by (apply N.mod_lt; assumption).
      replace (dp_free p + (n + (b - rem))) with (dp_free p + (n - rem) + 1 * b) by (assert (rem <= n) by (apply N.mod_le; assumption); lia).
      rewrite N.mod_add by assumption.
      rewrite N.add_mod by assumption. rewrite Ha.
      assert (E : (n - rem) mod b = 0).
      { subst rem. rewrite (N.div_mod n b) at 1 by assumption.
        rewrite N.add_sub. rewrite N.mul_comm. apply N.mod_mul. assumption. }
      rewrite E. rewrite N.add_0_l. apply N.mod_0_l. assumption.
  - apply negb_false_iff in Er. apply N.eqb_eq in Er.
    replace (if dp_top p - dp_free p - n <? 0 then dp_top p - dp_free p - n else 0) with 0
      by (destruct (dp_top p - dp_free p - n <? 0) eqn:E; [lia|reflexivity]).
    left. rewrite N.add_0_r. rewrite N.add_mod by assumption. rewrite Ha. fold rem. rewrite Er. rewrite N.add_0_l. apply N.mod_0_l. assumption.
Qed.

Lemma place_spec q n a :
  dp_inv q a -> n <= dp_top q - dp_free q -> (dp_packed q = false -> dp_boundary q <> 0) ->
  exists q', dp_place q n a = Ok (Some (top_page q, dp_free q), q', a) /\
    dp_blocks q' = (top_page q, dp_free q, reserved q n) :: dp_blocks q /\
    dp_pages q' = dp_pages q /\ dp_top q' = dp_top q /\ dp_free q' = dp_free q + reserved q n /\
    dp_high q' = dp_free q /\ dp_fixed q' = dp_fixed q /\ dp_packed q' = dp_packed q /\
    dp_boundary q' = dp_boundary q /\ dp_mem q' = dp_mem q /\ dp_hdr q' = dp_hdr q /\
    dp_num q' = dp_num q /\ dp_den q' = dp_den q /\
    dp_inv q' a.
Proof.
  intros Hi Hn Hb. destruct Hi as [Hpg HW Hf Hh Hl Ht Ho Hfr Hd Ha Hfx Hah Hszs].
  pose proof (reserved_bounds q n Hn Hf) as [Hr1 Hr2].
  assert (Hres : dp_place q n a =
    Ok (Some (top_page q, dp_free q),
        dp_set q (dp_top q) (dp_pages q) (dp_free q) (dp_free q + reserved q n)
               ((top_page q, dp_free q, reserved q n) :: dp_blocks q), a)).
  { unfold dp_place, reserved. destruct (dp_packed q) eqn:Ep; [reflexivity|].
    specialize (Hb eq_refl). replace (dp_boundary q =? 0) with false by lia.
    unfold g_dpool_pad_nonzero, g_dpool_pad_clamp.
    rewrite (wsub_small (dp_top q) (dp_free q)) by assumption.
    rewrite (wsub_small (dp_top q - dp_free q) n) by lia.
    cbv zeta. rewrite N.add_assoc. reflexivity. }
  eexists; split; [exact Hres|].
  cbn [dp_set dp_blocks dp_pages dp_top dp_free dp_high dp_fixed dp_packed dp_boundary dp_mem dp_hdr dp_num dp_den].
  repeat apply conj; try reflexivity.
  destruct Hpg as (id & older & Hpg).
  assert (Htp : top_page q = id) by (unfold top_page; rewrite Hpg; reflexivity).
  constructor; cbn [dp_set dp_blocks dp_pages dp_top dp_free dp_high dp_fixed dp_packed dp_boundary dp_mem dp_hdr];
    unfold top_page; cbn [dp_set dp_pages]; fold (top_page q); try lia; auto.
  - eauto.
  - unfold in_page. cbn [filter fst snd]. rewrite N.eqb_refl. cbn [map fst snd layout]. split; [reflexivity|exact Hl].
  - left; eauto.
  - intros pg o l [E|Hin]; [|eauto]. injection E as <- <- <-. exists (dp_top q). split; [|lia].
    rewrite Hpg, Htp. left; reflexivity.
  - split; [|assumption]. intros o' l' Hin. apply in_page_In in Hin. eapply layout_below in Hin; eauto.
  - intros Hp Hb'. destruct (Ha Hp Hb') as [Hal|Heq].
    + apply reserved_aligned; auto.
    + right. lia.
Qed.

Lemma inv_alloc_st p a a' : dp_inv p a -> next_id a <= next_id a' -> dp_inv p a'.
Proof.
  intros [Hpg HW Hf Hh Hl Ht Ho Hfr Hd Ha Hfx Hah Hszs] Hn. constructor; auto.
  intros id sz Hin. specialize (Hfr _ _ Hin). lia.
Qed.

Lemma in_page_fresh p a pg : dp_inv p a -> next_id a <= pg -> in_page pg (dp_blocks p) = [].
Proof.
  intros Hi Hpg. destruct (in_page pg (dp_blocks p)) as [|[o l] rest] eqn:E; [reflexivity|].
  assert (Hin : In (o, l) (in_page pg (dp_blocks p))) by (rewrite E; left; reflexivity).
  apply in_page_In in Hin. destruct (iv_owned _ _ Hi _ _ _ Hin) as (sz & Hsz & _).
  pose proof (iv_fresh _ _ Hi _ _ Hsz). lia.
Qed.

(** What the contract requires of the configuration for one malloc step. *)
Definition dp_pre (p : dpool) : Prop :=
  (dp_packed p = false -> dp_boundary p <> 0) /\ dp_den p <> 0 /\ (dp_top p * dp_num p) / dp_den p + PAGE_HDR < W.

Theorem dp_malloc_spec p n a :
  dp_inv p a -> dp_pre p ->
  exists r p' a', dp_malloc p n a = Ok (r, p', a') /\ dp_inv p' a' /\
    match r with
    | Some (pg, off) =>
        pg = top_page p' /\ off + n <= dp_top p' /\
        (exists len, n <= len /\ off + len <= dp_top p' /\ dp_blocks p' = (pg, off, len) :: dp_blocks p) /\
        (forall o l, In (pg, o, l) (dp_blocks p) -> o + l <= off) /\
        (dp_pages p' = dp_pages p \/
         (dp_fixed p = false /\ live a' = {| b_id := pg; b_tag := dp_mem p; b_bytes := (dp_top p * dp_num p) / dp_den p + PAGE_HDR |} :: live a /\
          dp_pages p' = (pg, (dp_top p * dp_num p) / dp_den p) :: dp_pages p)) /\
        (dp_packed p = false -> 0 < n -> off mod dp_boundary p = 0)
    | None => p' = p /\ live a' = live a
    end.
Proof.
  intros Hi (Hb & Hden & Hnext). unfold dp_malloc.
  unfold g_dpool_malloc_too_big, g_dpool_malloc_needs_page, g_dpool_malloc_cannot_expand.
  destruct (dp_top p <? n) eqn:Ebig.
  { exists None, p, a. repeat apply conj; auto. }
  rewrite (wsub_small (dp_top p) (dp_free p)) by (apply Hi).
  destruct (dp_top p - dp_free p <? n) eqn:Eneed.
  - (* a new page is needed *)
    set (next_max := dp_top p * dp_num p / dp_den p) in *.
    destruct (negb ((if dp_fixed p then 1 else 0) =? 0) || (next_max <? n)) eqn:Ecan.
    { exists None, p, a. repeat apply conj; auto. }
    apply orb_false_iff in Ecan. destruct Ecan as [Efix Efit].
    assert (Hfixed : dp_fixed p = false) by (destruct (dp_fixed p); [discriminate|reflexivity]).
    assert (Hw : wadd next_max PAGE_HDR = next_max + PAGE_HDR) by (unfold wadd; apply N.mod_small; assumption).
    rewrite Hw. pose proof (alloc_cases (dp_mem p) (next_max + PAGE_HDR) a) as C.
    destruct (alloc (dp_mem p) (next_max + PAGE_HDR) a) as [[pg|] a1].
    + destruct C as (-> & Hlive & Hnid & _).
      set (q := dp_set p next_max ((next_id a, next_max) :: dp_pages p) 0 0 (dp_blocks p)).
      assert (Hq : dp_inv q a1).
      { destruct Hi as [Hpg HW Hf Hh Hl Ht Ho Hfr Hd Ha Hfx Hah Hszs].
        constructor; subst q; cbn [dp_set dp_blocks dp_pages dp_top dp_free dp_high dp_fixed dp_packed dp_boundary];
          unfold top_page; cbn [dp_set dp_pages]; try lia; auto.
        - eauto.
        - rewrite (in_page_fresh p a); [reflexivity| |lia]. constructor; auto.
        - intros pg o l Hin. destruct (Ho _ _ _ Hin) as (sz & Hsz & Hle). exists sz. split; [right; assumption|assumption].
        - intros id sz [E|Hin]; [inversion E; lia|]. specialize (Hfr _ _ Hin). lia.
        - rewrite Hfixed. discriminate.
        - intros id sz [E|Hin]; [inversion E; subst; unfold PAGE_HDR, W in *; lia|eauto]. }
      destruct (place_spec q n a1 Hq) as (q' & Hpl & Hbl & Hpgs & Htop & Hfree & Hhigh & Hfx' & Hpk & Hbd & Hmem & Hhdr & Hnum & Hdn & Hq').
      { subst q; cbn [dp_set dp_top dp_free]. lia. }
      { subst q; cbn [dp_set dp_packed dp_boundary]. assumption. }
      exists (Some (top_page q, dp_free q)), q', a1. split; [exact Hpl|]. split; [exact Hq'|].
      assert (Htq : top_page q = next_id a) by reflexivity.
      assert (Htq' : top_page q' = next_id a) by (unfold top_page; rewrite Hpgs; reflexivity).
      assert (Hfq : dp_free q = 0) by reflexivity. assert (Htopq : dp_top q = next_max) by reflexivity.
      pose proof (reserved_bounds q n) as RB. rewrite Hfq, Htopq in RB. destruct RB as [R1 R2]; [lia|lia|].
      rewrite Htq, Hfq. repeat apply conj.
      * symmetry; assumption.
      * rewrite Htop, Htopq. lia.
      * exists (reserved q n). rewrite Htop, Htopq. repeat apply conj; try lia. rewrite Hbl, Htq, Hfq. reflexivity.
      * intros o l Hin. destruct (iv_owned _ _ Hi _ _ _ Hin) as (sz & Hsz & _).
        pose proof (iv_fresh _ _ Hi _ _ Hsz). lia.
      * right. split; [assumption|]. split; [assumption|]. rewrite Hpgs. reflexivity.
      * intros Hp _. apply N.mod_0_l. apply Hb. assumption.
    + destruct C as (Hlive & Hnid & _). exists None, p, a1. repeat apply conj; auto.
      eapply inv_alloc_st; eauto. lia.
  - (* the block fits in the newest page *)
    destruct (place_spec p n a Hi) as (q' & Hpl & Hbl & Hpgs & Htop & Hfree & Hhigh & Hfx' & Hpk & Hbd & Hmem & Hhdr & Hnum & Hdn & Hq'); [lia|assumption|].
    exists (Some (top_page p, dp_free p)), q', a. split; [exact Hpl|]. split; [exact Hq'|].
    pose proof (reserved_bounds p n) as RB. destruct RB as [R1 R2]; [lia|apply Hi|].
    assert (Htq' : top_page q' = top_page p) by (unfold top_page; rewrite Hpgs; reflexivity).
    repeat apply conj.
    * symmetry; assumption.
    * rewrite Htop. lia.
    * exists (reserved p n). rewrite Htop. repeat apply conj; try lia. assumption.
    * intros o l Hin. apply in_page_In in Hin. eapply layout_below in Hin; [exact Hin|apply Hi].
    * left; assumption.
    * intros Hp Hn. destruct (iv_align _ _ Hi Hp (Hb Hp)) as [Hal|Heq]; [assumption|]. lia.
Qed.
