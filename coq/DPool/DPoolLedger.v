(** Ledger facts for the dynamic pool: reset and destroy release every page exactly once. *)
From CC Require Import Base.Prelude Base.ListMem Base.Alloc Base.AllocProofs.
From CC Require Import Generated.Status Generated.Constants Generated.Guards DPool.DPoolModel DPool.DPoolProofs.
Local Open Scope N_scope.

Lemma last_In_nonempty {A} (l : list A) d : l <> [] -> In (last l d) l.
Proof.
  induction l as [|x t IH]; intros H; [congruence|]. destruct t as [|y t']; [left; reflexivity|].
  right. apply IH. discriminate.
Qed.

Definition ids_nodup (a : alloc_st) : Prop := NoDup (map b_id (live a)).

Lemma release_live t id a :
  ids_nodup a -> (exists b, In b (live a) /\ b_id b = id /\ b_tag b = t) ->
  exists a', release t id a = Ok a' /\ ids_nodup a' /\ next_id a' = next_id a /\
             (forall b, In b (live a') <-> In b (live a) /\ b_id b <> id).
Proof.
  intros Hnd (b & Hin & Hid & Htag). unfold release.
  destruct (remove_block_in id (live a)) as (b' & r & Hrm); [eauto|].
  rewrite Hrm. destruct (remove_block_spec _ _ _ _ Hrm) as (Hb' & l1 & l2 & Hl & Hr & Hbefore).
  assert (b' = b).
  { unfold ids_nodup in Hnd. rewrite Hl in Hnd, Hin. rewrite map_app in Hnd. cbn in Hnd.
    apply in_app_or in Hin. destruct Hin as [Hin|[E|Hin]]; [exfalso; eapply Hbefore; eauto|auto|].
    apply NoDup_remove_2 in Hnd. exfalso. apply Hnd. apply in_or_app. right.
    apply in_map_iff. exists b. split; [congruence|assumption]. }
  subst b'. rewrite Htag, tag_eqb_refl. eexists; split; [reflexivity|]. cbn [live next_id].
  unfold ids_nodup in *. cbn [live]. rewrite Hl in Hnd. rewrite Hr. rewrite map_app in *. cbn in Hnd.
  split; [eapply NoDup_remove_1; eauto|]. split; [reflexivity|].
  intros x. rewrite Hl. rewrite !in_app_iff. cbn [In]. split.
  - intros [Hx|Hx]; (split; [tauto|]).
    + intros E. eapply Hbefore; eauto.
    + intros E. apply NoDup_remove_2 in Hnd. apply Hnd. apply in_or_app. right. apply in_map_iff. exists x. split; [congruence|assumption].
  - intros [[Hx|[Hx|Hx]] Hne]; [tauto| |tauto]. subst x. congruence.
Qed.

(** The pool owns its header and every page in the ledger, under its own allocator family. *)
Record dp_owns (p : dpool) (a : alloc_st) : Prop := {
  ow_nodup : ids_nodup a;
  ow_pages : forall id sz, In (id, sz) (dp_pages p) -> exists b, In b (live a) /\ b_id b = id /\ b_tag b = dp_mem p;
  ow_hdr : exists b, In b (live a) /\ b_id b = dp_hdr p /\ b_tag b = dp_mem p;
  ow_distinct : NoDup (dp_hdr p :: map fst (dp_pages p));
}.

Lemma release_all_spec mem pages : forall a,
  ids_nodup a -> NoDup (map fst pages) ->
  (forall id sz, In (id, sz) pages -> exists b, In b (live a) /\ b_id b = id /\ b_tag b = mem) ->
  exists a', release_all mem pages a = Ok a' /\ ids_nodup a' /\ next_id a' = next_id a /\
             (forall b, In b (live a') <-> In b (live a) /\ ~ In (b_id b) (map fst pages)).
Proof.
  induction pages as [|[id sz] rest IH]; intros a Hnd Hd Hown; cbn [release_all].
  - exists a. repeat apply conj; auto. intros b; cbn; tauto.
  - cbn in Hd. inversion Hd as [|? ? Hnotin Hd']; subst.
    destruct (release_live mem id a Hnd) as (a1 & -> & Hnd1 & Hn1 & Hl1); [apply (Hown id sz); left; reflexivity|].
    cbn [bind]. destruct (IH a1 Hnd1 Hd') as (a2 & -> & Hnd2 & Hn2 & Hl2).
    + intros id' sz' Hin. destruct (Hown id' sz') as (b & Hb & Hid & Ht); [right; assumption|].
      exists b. repeat apply conj; auto. apply Hl1. split; [assumption|]. intros E. apply Hnotin.
      apply in_map_iff. exists (id', sz'). split; [cbn; congruence|assumption].
    + exists a2. repeat apply conj; auto; [congruence|].
      intros b. rewrite Hl2, Hl1. cbn [map fst In]. intuition.
Qed.

Theorem dp_destroy_spec p a :
  dp_inv p a -> dp_owns p a ->
  exists a', dp_destroy p a = Ok a' /\
    (forall b, In b (live a') <-> In b (live a) /\ b_id b <> dp_hdr p /\ ~ In (b_id b) (map fst (dp_pages p))).
Proof.
  intros Hi [Hnd Hpg Hh Hdis]. unfold dp_destroy.
  destruct (iv_pages _ _ Hi) as (id & older & Hp).
  assert (Hm : forall X : res alloc_st, match dp_pages p with [] => Fault NullDeref | _ :: _ => X end = X)
    by (intros; rewrite Hp; reflexivity).
  rewrite Hm. clear Hm.
  inversion Hdis as [|? ? Hhn Hpn]; subst.
  destruct (release_all_spec (dp_mem p) (dp_pages p) a Hnd Hpn Hpg) as (a1 & -> & Hnd1 & _ & Hl1). cbn [bind].
  destruct (release_live (dp_mem p) (dp_hdr p) a1 Hnd1) as (a2 & -> & _ & _ & Hl2).
  - destruct Hh as (b & Hb & Hid & Ht). exists b. repeat apply conj; auto. apply Hl1. split; [assumption|]. rewrite Hid. assumption.
  - exists a2. split; [reflexivity|]. intros b. rewrite Hl2, Hl1. tauto.
Qed.

Lemma release_newer_cons mem x y r a :
  release_newer mem (x :: y :: r) a = (do a1 <- release mem (fst x) a; release_newer mem (y :: r) a1).
Proof. destruct x as [id sz]. reflexivity. Qed.

Lemma release_newer_spec mem pages : forall a,
  pages <> [] -> ids_nodup a -> NoDup (map fst pages) ->
  (forall id sz, In (id, sz) pages -> exists b, In b (live a) /\ b_id b = id /\ b_tag b = mem) ->
  exists a', release_newer mem pages a = Ok ([last pages (0, 0)], a') /\ ids_nodup a' /\ next_id a' = next_id a /\
             (forall b, In b (live a') <-> In b (live a) /\ ~ In (b_id b) (map fst (removelast pages))).
Proof.
  induction pages as [|[id sz] rest IH]; intros a Hne Hnd Hd Hown; [congruence|].
  destruct rest as [|pg2 rest'].
  - cbn. exists a. repeat apply conj; auto. intros b; tauto.
  - rewrite release_newer_cons. cbn [fst]. cbn [map fst] in Hd. inversion Hd as [|? ? Hnotin Hd']; subst.
    destruct (release_live mem id a Hnd) as (a1 & -> & Hnd1 & Hn1 & Hl1); [apply (Hown id sz); left; reflexivity|].
    cbn [bind]. destruct (IH a1) as (a2 & Hr2 & Hnd2 & Hn2 & Hl2); auto; [discriminate| |].
    + intros id' sz' Hin. destruct (Hown id' sz') as (b & Hb & Hid & Ht); [right; assumption|].
      exists b. repeat apply conj; auto. apply Hl1. split; [assumption|]. intros E. apply Hnotin.
      change (fst pg2 :: map fst rest') with (map fst (pg2 :: rest')).
      apply in_map_iff. exists (id', sz'). split; [cbn; congruence|assumption].
    + exists a2. rewrite Hr2. repeat apply conj; auto; [congruence|].
      intros b. rewrite Hl2, Hl1. change (removelast ((id, sz) :: pg2 :: rest')) with ((id, sz) :: removelast (pg2 :: rest')).
      cbn [map fst In]. intuition.
Qed.

(** reset: one empty page - the oldest one, with its original size - remains; every newer page was
    released exactly once (a second release would be a [Fault BadFree]); no block is live. *)
Theorem dp_reset_spec p a :
  dp_inv p a -> dp_owns p a ->
  exists p' a', dp_reset p a = Ok (p', a') /\
    dp_pages p' = [last (dp_pages p) (0, 0)] /\ dp_top p' = snd (last (dp_pages p) (0, 0)) /\
    dp_free p' = 0 /\ dp_high p' = 0 /\ dp_blocks p' = [] /\
    (forall b, In b (live a') <-> In b (live a) /\ ~ In (b_id b) (map fst (removelast (dp_pages p)))) /\
    ids_nodup a' /\ next_id a' = next_id a /\ dp_hdr p' = dp_hdr p /\ dp_mem p' = dp_mem p /\
    dp_inv p' a'.
Proof.
  intros Hi [Hnd Hpg Hh Hdis]. unfold dp_reset.
  destruct (iv_pages _ _ Hi) as (id & older & Hp).
  inversion Hdis as [|? ? Hhn Hpn]; subst.
  destruct (release_newer_spec (dp_mem p) (dp_pages p) a) as (a1 & -> & Hnd1 & Hn1 & Hl1); auto; [rewrite Hp; discriminate|].
  cbn [bind]. destruct (last (dp_pages p) (0, 0)) as [lid lsz] eqn:El.
  do 2 eexists. split; [reflexivity|]. cbn [dp_set dp_pages dp_top dp_free dp_high dp_blocks snd].
  repeat apply conj; auto.
  assert (HinL : In (lid, lsz) (dp_pages p)) by (rewrite <- El; apply last_In_nonempty; rewrite Hp; discriminate).
  assert (HW : lsz < W) by (eapply (iv_sizes _ _ Hi); eauto).
  constructor; cbn [dp_set dp_blocks dp_pages dp_top dp_free dp_high dp_fixed dp_packed dp_boundary];
    unfold top_page; cbn [dp_set dp_pages in_page filter map layout disj]; try lia; auto.
  - eauto.
  - intros pg o l [].
  - intros id' sz' [E|[]]. inversion E; subst.
    assert (Hin : In (id', sz') (dp_pages p)).
    { rewrite <- El. apply last_In_nonempty. rewrite Hp. discriminate. }
    pose proof (iv_fresh _ _ Hi _ _ Hin). lia.
  - intros _. eauto.
  - intros id0 sz0 [E|[]]. inversion E; subst. assumption.
Qed.

(** Freshness of ledger ids, needed so that a new page never collides with a live block. *)
Definition ids_bounded (a : alloc_st) : Prop := forall b, In b (live a) -> b_id b < next_id a.

Definition dp_ok (p : dpool) (a : alloc_st) : Prop := dp_inv p a /\ dp_owns p a /\ ids_bounded a.

Theorem dp_new_spec mem fixed packed num den boundary size a st r a' :
  ids_nodup a -> ids_bounded a -> size + PAGE_HDR < W ->
  dp_new mem fixed packed num den boundary size a = (st, r, a') ->
  match r with
  | Some p => st = CC_OK /\ dp_ok p a' /\ dp_top p = size /\ dp_free p = 0 /\ dp_blocks p = [] /\
              (exists id, dp_pages p = [(id, size)]) /\ dp_fixed p = fixed /\ dp_packed p = packed /\
              dp_num p = num /\ dp_den p = den /\ dp_boundary p = boundary /\ dp_mem p = mem
  | None => st = CC_ERR_ALLOC /\ live a' = live a
  end.
Proof.
  intros Hnd Hbd Hsz. unfold dp_new.
  pose proof (alloc_cases mem POOL_HDR a) as C1. destruct (alloc mem POOL_HDR a) as [[h|] a1].
  - destruct C1 as (-> & Hl1 & Hn1 & _).
    assert (Hw : wadd size PAGE_HDR = size + PAGE_HDR) by (unfold wadd; apply N.mod_small; assumption). rewrite Hw.
    pose proof (alloc_cases mem (size + PAGE_HDR) a1) as C2. destruct (alloc mem (size + PAGE_HDR) a1) as [[pg|] a2].
    + destruct C2 as (-> & Hl2 & Hn2 & _). intros H; inversion H; subst; clear H.
      split; [reflexivity|]. repeat apply conj; try reflexivity; eauto.
      * constructor; cbn [dp_blocks dp_pages dp_top dp_free dp_high dp_fixed dp_packed dp_boundary];
          unfold top_page; cbn [dp_pages in_page filter map layout disj]; try lia; auto.
        -- eauto.
        -- intros pg o l [].
        -- intros id sz [E|[]]. inversion E; subst. lia.
        -- intros _. eauto.
        -- intros id sz [E|[]]. inversion E; subst. unfold PAGE_HDR, W in *; lia.
      * constructor; cbn [dp_pages dp_hdr dp_mem].
        -- unfold ids_nodup. rewrite Hl2, Hl1. cbn [map b_id]. constructor.
           ++ intros [E|Hin]; [lia|]. apply in_map_iff in Hin. destruct Hin as (b & Eb & Hb). apply Hbd in Hb. lia.
           ++ constructor; [|exact Hnd]. intros Hin. apply in_map_iff in Hin. destruct Hin as (b & Eb & Hb). apply Hbd in Hb. lia.
        -- intros id sz [E|[]]. inversion E; subst. eexists. split; [rewrite Hl2; left; reflexivity|]. split; reflexivity.
        -- eexists. split; [rewrite Hl2, Hl1; right; left; reflexivity|]. split; reflexivity.
        -- cbn [map fst]. constructor; [intros [E|[]]; lia|]. constructor; [intros []|constructor].
      * intros b. rewrite Hl2, Hl1. intros [<-|[<-|Hb]]; cbn [b_id]; try lia. apply Hbd in Hb. lia.
      * cbn [dp_pages]. eauto.
    + destruct C2 as (Hl2 & Hn2 & _). rewrite Hl1 in Hl2.
      destruct (release_head _ _ _ _ _ Hl2) as (a3 & -> & Hl3 & _).
      intros H; inversion H; subst. auto.
  - destruct C1 as (Hl1 & _). intros H; inversion H; subst. auto.
Qed.

(** malloc keeps ownership: either the ledger is untouched or exactly one block - the new page - is added. *)
Theorem dp_malloc_ok p n a :
  dp_ok p a -> dp_pre p ->
  exists r p' a', dp_malloc p n a = Ok (r, p', a') /\ dp_ok p' a'.
Proof.
  intros (Hi & Ho & Hb) Hpre.
  destruct (dp_malloc_spec p n a Hi Hpre) as (r & p' & a' & Hm & Hi' & Hr).
  exists r, p', a'. split; [exact Hm|]. split; [exact Hi'|].
  assert (Hsame : dp_hdr p' = dp_hdr p /\ dp_mem p' = dp_mem p).
  { revert Hm. unfold dp_malloc. destruct (g_dpool_malloc_too_big _ _); [intros H; inversion H; auto|].
    destruct (g_dpool_malloc_needs_page _ _ _).
    - destruct (g_dpool_malloc_cannot_expand _ _ _); [intros H; inversion H; auto|].
      destruct (alloc _ _ _) as [[pg|] a1]; [|intros H; inversion H; auto].
      unfold dp_place. cbn [dp_set dp_packed dp_boundary]. destruct (dp_packed p); [intros H; inversion H; auto|].
      destruct (dp_boundary p =? 0); [discriminate|]. intros H; inversion H; auto.
    - unfold dp_place. destruct (dp_packed p); [intros H; inversion H; auto|].
      destruct (dp_boundary p =? 0); [discriminate|]. intros H; inversion H; auto. }
  destruct Hsame as [Hh Hmm]. destruct Ho as [Hnd Hpg Hhd Hdis].
  destruct r as [[pg off]|].
  - destruct Hr as (_ & _ & _ & _ & [Hsame|(Hfx & Hlive & Hpages)] & _).
    + (* same pages: the ledger was not touched *)
      assert (Hla : live a' = live a /\ next_id a' = next_id a).
      { revert Hm. unfold dp_malloc. destruct (g_dpool_malloc_too_big _ _); [intros H; inversion H; auto|].
        destruct (g_dpool_malloc_needs_page _ _ _).
        - destruct (g_dpool_malloc_cannot_expand _ _ _); [intros H; inversion H; auto|].
          pose proof (alloc_cases (dp_mem p) (wadd (dp_top p * dp_num p / dp_den p) PAGE_HDR) a) as C.
          destruct (alloc _ _ _) as [[pg'|] a1]; [|intros H; inversion H; subst; tauto].
          intros Hpl. exfalso. unfold dp_place in Hpl. cbn [dp_set dp_packed dp_boundary dp_pages dp_top dp_free dp_blocks] in Hpl.
          destruct (dp_packed p); [|destruct (dp_boundary p =? 0); [discriminate|]]; inversion Hpl; subst p';
            cbn [dp_set dp_pages] in Hsame; apply (f_equal (@length _)) in Hsame; cbn in Hsame; lia.
        - unfold dp_place. destruct (dp_packed p); [intros H; inversion H; auto|].
          destruct (dp_boundary p =? 0); [discriminate|]. intros H; inversion H; auto. }
      destruct Hla as [Hla Hna]. split.
      * constructor; rewrite ?Hsame, ?Hh, ?Hmm; unfold ids_nodup; rewrite ?Hla; auto.
      * intros b. rewrite Hla, Hna. apply Hb.
    + (* a new page *)
      assert (Hna : pg = next_id a /\ next_id a' = next_id a + 1).
      { revert Hm. unfold dp_malloc. destruct (g_dpool_malloc_too_big _ _); [discriminate|].
        destruct (g_dpool_malloc_needs_page _ _ _).
        - destruct (g_dpool_malloc_cannot_expand _ _ _); [discriminate|].
          pose proof (alloc_cases (dp_mem p) (wadd (dp_top p * dp_num p / dp_den p) PAGE_HDR) a) as C.
          destruct (alloc _ _ _) as [[pg'|] a1]; [|discriminate]. destruct C as (-> & _ & Hn & _).
          unfold dp_place. cbn [dp_set dp_packed dp_boundary dp_pages dp_top dp_free dp_blocks]. unfold top_page. cbn [dp_set dp_pages].
          destruct (dp_packed p); [|destruct (dp_boundary p =? 0); [discriminate|]]; intros H; inversion H; subst; auto.
        - intros Hpl. exfalso. unfold dp_place in Hpl.
          destruct (dp_packed p); [|destruct (dp_boundary p =? 0); [discriminate|]]; inversion Hpl; subst p';
            cbn [dp_set dp_pages] in Hpages; apply (f_equal (@length _)) in Hpages; cbn in Hpages; lia. }
      destruct Hna as [-> Hna]. split.
      * constructor; rewrite ?Hpages, ?Hh, ?Hmm.
        -- unfold ids_nodup. rewrite Hlive. cbn [map b_id]. constructor; [|exact Hnd].
           intros Hin. apply in_map_iff in Hin. destruct Hin as (b & Eb & Hb'). apply Hb in Hb'. lia.
        -- intros id sz [E|Hin].
           ++ inversion E; subst. eexists. split; [rewrite Hlive; left; reflexivity|]. split; reflexivity.
           ++ destruct (Hpg _ _ Hin) as (b & Hb1 & Hb2 & Hb3). exists b. rewrite Hlive. repeat apply conj; auto. right; assumption.
        -- destruct Hhd as (b & Hb1 & Hb2 & Hb3). exists b. rewrite Hlive. repeat apply conj; auto. right; assumption.
        -- cbn [map fst]. inversion Hdis as [|? ? Hhn Hpn]; subst. constructor.
           ++ intros [E|Hin]; [|tauto]. destruct Hhd as (b & Hb1 & Hb2 & _). apply Hb in Hb1. lia.
           ++ constructor; [|assumption]. intros Hin. apply in_map_iff in Hin. destruct Hin as ([id sz] & E & Hin). cbn in E. subst id.
              destruct (Hpg _ _ Hin) as (b & Hb1 & Hb2 & _). apply Hb in Hb1. lia.
      * intros b. rewrite Hlive, Hna. intros [<-|Hb']; cbn [b_id]; [lia|]. apply Hb in Hb'. lia.
  - destruct Hr as [-> Hla]. split.
    + constructor; unfold ids_nodup; rewrite ?Hla; auto.
    + intros b. rewrite Hla. intros Hin. apply Hb in Hin.
      assert (next_id a <= next_id a'); [|lia].
      revert Hm. unfold dp_malloc. destruct (g_dpool_malloc_too_big _ _); [intros H; inversion H; lia|].
      destruct (g_dpool_malloc_needs_page _ _ _).
      * destruct (g_dpool_malloc_cannot_expand _ _ _); [intros H; inversion H; lia|].
        pose proof (alloc_cases (dp_mem p) (wadd (dp_top p * dp_num p / dp_den p) PAGE_HDR) a) as C.
        destruct (alloc _ _ _) as [[pg'|] a1].
        -- unfold dp_place. cbn [dp_set dp_packed dp_boundary]. destruct (dp_packed p); [discriminate|]. destruct (dp_boundary p =? 0); discriminate.
        -- destruct C as (_ & Hn & _). intros H; inversion H; subst. lia.
      * unfold dp_place. destruct (dp_packed p); [discriminate|]. destruct (dp_boundary p =? 0); discriminate.
Qed.

(** calloc: an unrepresentable product is refused without any change; otherwise it is malloc(count*size). *)
Theorem dp_calloc_spec p c n a :
  (W <= c * n -> dp_calloc p c n a = Ok (None, p, a)) /\
  (c * n < W -> dp_calloc p c n a = dp_malloc p (c * n) a).
Proof.
  unfold dp_calloc, g_dpool_calloc_overflow, SIZE_MAX. split; intros H.
  - destruct (N.eq_dec n 0) as [->|Hn]; [unfold W in H; lia|].
    replace (negb (n =? 0)) with true by lia. cbn [andb].
    replace ((W - 1) / n <? c) with true; [reflexivity|]. symmetry. apply N.ltb_lt.
    apply N.div_lt_upper_bound; [assumption|]. unfold W in *. lia.
  - destruct (negb (n =? 0) && ((W - 1) / n <? c)) eqn:E.
    + exfalso. apply andb_true_iff in E. destruct E as [E1 E2]. apply N.ltb_lt in E2.
      assert (Hn : n <> 0) by (intros ->; discriminate).
      assert (W - 1 < n * c); [|unfold W in *; lia].
      pose proof (N.mul_succ_div_gt (W - 1) n Hn) as G.
      assert (n * N.succ ((W - 1) / n) <= n * c) by (apply N.mul_le_mono_l; lia). lia.
    + unfold wmul. rewrite N.mod_small by assumption. reflexivity.
Qed.

(** free: a pointer other than the start of the most recent block changes nothing. *)
Theorem dp_free_other p page off : (page <> top_page p \/ off <> dp_high p) -> dp_free_ptr p page off = p.
Proof.
  intros H. unfold dp_free_ptr, g_dpool_free_top.
  destruct (page =? top_page p) eqn:E1; [|reflexivity]. destruct (off =? dp_high p) eqn:E2; [|reflexivity]. lia.
Qed.

Theorem dp_free_inv p page off a : dp_inv p a -> dp_inv (dp_free_ptr p page off) a.
Proof.
  intros Hi. unfold dp_free_ptr, g_dpool_free_top.
  destruct ((page =? top_page p) && (off =? dp_high p)) eqn:E; [|assumption].
  destruct Hi as [Hpg HW Hf Hh Hl Ht Ho Hfr Hd Ha Hfx Hah Hszs].
  assert (Hsub : forall b, In b (match dp_blocks p with
       | (pg, o, l) :: rest => if (pg =? top_page p) && (o =? dp_high p) then rest else dp_blocks p
       | [] => [] end) -> In b (dp_blocks p)).
  { destruct (dp_blocks p) as [|[[pg o] l] rest]; [tauto|]. destruct ((pg =? top_page p) && (o =? dp_high p)); [intros b Hb; right; assumption|tauto]. }
  constructor; cbn [dp_set dp_blocks dp_pages dp_top dp_free dp_high dp_fixed dp_packed dp_boundary];
    unfold top_page; cbn [dp_set dp_pages]; fold (top_page p); try lia; auto.
  - destruct Ht as [(l & rest & Hb)|Heq].
    + rewrite Hb. rewrite !N.eqb_refl. cbn [andb]. rewrite Hb in Hl. unfold in_page in Hl. cbn [filter fst snd] in Hl.
      rewrite N.eqb_refl in Hl. cbn [map fst snd layout] in Hl. tauto.
    + destruct (dp_blocks p) as [|[[pg o] l] rest] eqn:Hb; [cbn in *; lia|].
      destruct ((pg =? top_page p) && (o =? dp_high p)) eqn:Eo; [|rewrite Heq; exact Hl].
      apply andb_true_iff in Eo. destruct Eo as [Eo1 Eo2]. unfold in_page in Hl. cbn [filter fst snd] in Hl.
      rewrite Eo1 in Hl. cbn [map fst snd layout] in Hl. destruct Hl as [H1 H2]. assert (o = dp_high p) by lia. subst o. exact H2.
  - destruct (dp_blocks p) as [|[[pg o] l] rest]; [exact I|]. destruct ((pg =? top_page p) && (o =? dp_high p)); [|exact Hd].
    cbn in Hd. tauto.
Qed.

Lemma dp_free_ok p page off a : dp_ok p a -> dp_ok (dp_free_ptr p page off) a.
Proof.
  intros (Hi & Ho & Hb). split; [apply dp_free_inv; assumption|]. split; [|assumption].
  destruct Ho as [Hnd Hpg Hh Hdis]. unfold dp_free_ptr.
  destruct ((page =? top_page p) && g_dpool_free_top off (dp_high p)); constructor; auto.
Qed.

(** Accounting: used = bytes reserved in the newest page + sizes of all older pages;
    used(top) + free = size of the newest page; the bytes reserved in the newest page are exactly the
    (padded) lengths of its live blocks. *)
Theorem dp_accounting p a :
  dp_inv p a -> older_sum (dp_pages p) + dp_top p < W ->
  dp_used p = dp_free p + older_sum (dp_pages p) /\
  dp_free p + dp_free_bytes p = dp_top p /\
  fold_right (fun b acc => snd b + acc) 0 (in_page (top_page p) (dp_blocks p)) = dp_free p.
Proof.
  intros Hi Hs. pose proof (iv_free _ _ Hi). pose proof (iv_topW _ _ Hi).
  unfold dp_used, dp_free_bytes, wadd. rewrite N.mod_small by lia.
  rewrite wsub_small by assumption. repeat apply conj; try lia.
  apply layout_sum. apply (iv_layout _ _ Hi).
Qed.

(** A fixed pool owns a single page and never hands out more than its size. *)
Theorem dp_fixed_bound p a :
  dp_inv p a -> dp_fixed p = true ->
  (exists id, dp_pages p = [(id, dp_top p)]) /\
  (forall pg o l, In (pg, o, l) (dp_blocks p) -> pg = top_page p /\ o + l <= dp_top p) /\
  fold_right (fun b acc => snd b + acc) 0 (in_page (top_page p) (dp_blocks p)) <= dp_top p.
Proof.
  intros Hi Hf. destruct (iv_fixed _ _ Hi Hf) as (id & Hp). repeat apply conj.
  - eauto.
  - intros pg o l Hin. destruct (iv_owned _ _ Hi _ _ _ Hin) as (sz & Hsz & Hle).
    rewrite Hp in Hsz. destruct Hsz as [E|[]]. inversion E; subst. unfold top_page. rewrite Hp. auto.
  - rewrite (layout_sum _ _ (iv_layout _ _ Hi)). apply (iv_free _ _ Hi).
Qed.

(** Pairwise disjointness of all live blocks in any state satisfying the invariant. *)
Theorem dp_blocks_disjoint p a :
  dp_inv p a -> disj (dp_blocks p) /\
  (forall pg o l, In (pg, o, l) (dp_blocks p) -> exists sz, In (pg, sz) (dp_pages p) /\ o + l <= sz).
Proof. intros Hi. split; [apply (iv_disj _ _ Hi)|apply (iv_owned _ _ Hi)]. Qed.

(** Histories. The step precondition [dp_pre] (non-zero boundary in padded mode, representable next
    page size) must hold wherever a malloc is attempted. *)
Fixpoint dp_run (p : dpool) (a : alloc_st) (ops : list dp_op) : res (dpool * alloc_st) :=
  match ops with
  | [] => Ok (p, a)
  | o :: t => do (r, p', a') <- dp_step p o a; dp_run p' a' t
  end.

Fixpoint pre_along (p : dpool) (a : alloc_st) (ops : list dp_op) : Prop :=
  match ops with
  | [] => True
  | o :: t => dp_pre p /\ forall r p' a', dp_step p o a = Ok (r, p', a') -> pre_along p' a' t
  end.

Theorem dp_step_ok p o a :
  dp_ok p a -> dp_pre p -> exists r p' a', dp_step p o a = Ok (r, p', a') /\ dp_ok p' a'.
Proof.
  intros Hok Hpre. destruct o as [n|c n|page off|]; cbn [dp_step].
  - apply dp_malloc_ok; assumption.
  - destruct (N.lt_ge_cases (c * n) W) as [Hlt|Hge].
    + rewrite (proj2 (dp_calloc_spec p c n a) Hlt). apply dp_malloc_ok; assumption.
    + rewrite (proj1 (dp_calloc_spec p c n a) Hge). eauto.
  - do 3 eexists. split; [reflexivity|]. apply dp_free_ok; assumption.
  - destruct Hok as (Hi & Ho & Hb).
    destruct (dp_reset_spec p a Hi Ho) as (p' & a' & -> & Hpg & Htop & Hf & Hh & Hbl & Hl & Hnd' & Hnid & Hhdr & Hmem & Hinv).
    cbn [bind]. do 3 eexists. split; [reflexivity|]. split; [assumption|].
    assert (Hlast : In (last (dp_pages p) (0, 0)) (dp_pages p)).
    { apply last_In_nonempty. destruct (iv_pages _ _ Hi) as (? & ? & ->). discriminate. }
    assert (Hsplit : dp_pages p = removelast (dp_pages p) ++ [last (dp_pages p) (0, 0)]).
    { apply app_removelast_last. destruct (iv_pages _ _ Hi) as (? & ? & ->). discriminate. }
    destruct Ho as [Hnd Hpgs Hhd Hdis]. inversion Hdis as [|? ? Hhn Hpn]; subst.
    assert (Hnd2 : NoDup (map fst (removelast (dp_pages p)) ++ [fst (last (dp_pages p) (0, 0))])).
    { rewrite Hsplit in Hpn. rewrite map_app in Hpn. exact Hpn. }
    split.
    + constructor; rewrite ?Hpg, ?Hhdr, ?Hmem.
      * assumption.
      * intros id sz [E|[]]. destruct (Hpgs id sz) as (b & Hb1 & Hb2 & Hb3); [rewrite <- E; assumption|].
        exists b. repeat apply conj; auto. apply Hl. split; [assumption|]. rewrite Hb2. intros Hin.
        apply NoDup_remove_2 in Hnd2. apply Hnd2. rewrite app_nil_r. rewrite E. exact Hin.
      * destruct Hhd as (b & Hb1 & Hb2 & Hb3). exists b. repeat apply conj; auto. apply Hl. split; [assumption|].
        rewrite Hb2. intros Hin. apply Hhn. rewrite Hsplit, map_app. apply in_or_app. left; assumption.
      * cbn [map fst]. constructor; [|constructor; [intros []|constructor]].
        intros [E|[]]. apply Hhn. rewrite <- E. apply in_map. assumption.
    + intros b Hb'. apply Hl in Hb'. destruct Hb' as [Hb' _]. apply Hb in Hb'. lia.
Qed.

Theorem dp_run_ok ops : forall p a,
  dp_ok p a -> pre_along p a ops -> exists p' a', dp_run p a ops = Ok (p', a') /\ dp_ok p' a'.
Proof.
  induction ops as [|o t IH]; intros p a Hok Hpre; cbn [dp_run].
  - eauto.
  - destruct Hpre as [Hp Hnext]. destruct (dp_step_ok p o a Hok Hp) as (r & p' & a' & Hs & Hok').
    rewrite Hs. cbn [bind]. apply IH; eauto.
Qed.
