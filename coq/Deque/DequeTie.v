(** The model's [upper_pow_two] is the function the translator reads off the source (Generated/Funcs.v,
    re-translated on every run and proved equal to this reference in Generated/SrcEq_deque.v). *)
From CC Require Import Base.Prelude Generated.Constants Generated.Guards Generated.Funcs Deque.DequeModel.
Local Open Scope N_scope.

Lemma upper_pow_two_is_source n : f_deque_upper_pow_two n = upper_pow_two n.
Proof.
  unfold f_deque_upper_pow_two, upper_pow_two, g_deque_upt_max, g_deque_upt_zero, smear.
  replace (4294967296 <? MAX_POW_TWO) with false by reflexivity.
  reflexivity.
Qed.
