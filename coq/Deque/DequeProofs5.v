(** Deque proofs, part 5: the lemma families used by the cross-cutting properties.
    C16 guards and inertness, C08 atomicity, C20 capacity facts, C06 ledger balance, C14 tags,
    C07 iterator and zip-iterator refinement, C09 queue (FIFO) refinement. *)
From CC Require Import Base.Prelude Base.ListMem Base.ModArith Base.Alloc Base.AllocProofs.
From CC Require Import Generated.Status Generated.Constants Generated.Guards Deque.DequeModel.
From CC Require Import Deque.DequeProofs Deque.DequeProofs2 Deque.DequeProofs3 Deque.DequeProofs4.
Local Open Scope N_scope.

(** * C16: the generated range guards reject exactly the indices outside [0, size) *)
Lemma g_deque_add_at_range_spec i size : g_deque_add_at_range i size = true <-> ~ i < size.
Proof. unfold g_deque_add_at_range. lia. Qed.
Lemma g_deque_replace_at_range_spec i size : g_deque_replace_at_range i size = true <-> ~ i < size.
Proof. unfold g_deque_replace_at_range. lia. Qed.
Lemma g_deque_remove_at_range_spec i size : g_deque_remove_at_range i size = true <-> ~ i < size.
Proof. unfold g_deque_remove_at_range. lia. Qed.
Lemma g_deque_get_at_range_spec i size : g_deque_get_at_range i size = true <-> ~ i < size.
Proof. unfold g_deque_get_at_range. lia. Qed.
Lemma g_deque_iter_next_end_spec i size : g_deque_iter_next_end i size = true <-> ~ i < size.
Proof. unfold g_deque_iter_next_end. lia. Qed.
Lemma g_deque_empty_guards size :
  (g_deque_get_first_empty size = true <-> size = 0) /\ (g_deque_get_last_empty size = true <-> size = 0) /\
  (g_deque_remove_first_empty size = true <-> size = 0) /\ (g_deque_remove_last_empty size = true <-> size = 0).
Proof. unfold g_deque_get_first_empty, g_deque_get_last_empty, g_deque_remove_first_empty, g_deque_remove_last_empty. lia. Qed.
(** the branch selector [index <= size/2 - 1] wraps for size < 2: then every 64-bit index passes it *)
Lemma g_deque_front_spec i size : size < W ->
  (g_deque_add_at_front i size = true <-> if size <? 2 then i <= W - 1 else i + 1 <= size / 2) /\
  g_deque_remove_at_front i size = g_deque_add_at_front i size.
Proof.
  intros Hs. split; [|reflexivity]. unfold g_deque_add_at_front. destruct (size <? 2) eqn:E.
  - assert (Hz : size / 2 = 0) by (apply N.div_small; lia). rewrite Hz. change (wsub 0 1) with 18446744073709551615.
    unfold W. lia.
  - rewrite half_pred by lia. lia.
Qed.
(** out-of-range indices: the operation answers CC_ERR_OUT_OF_RANGE and returns the very same state, whatever
    the layout (no invariant needed) *)
Lemma add_at_oor d x i a : ~ i < dq_size d -> dq_add_at d x i a = Ok (CC_ERR_OUT_OF_RANGE, d, a).
Proof. intros H. unfold dq_add_at. apply g_deque_add_at_range_spec in H. rewrite H. reflexivity. Qed.
Lemma replace_at_oor d x i : ~ i < dq_size d -> dq_replace_at d x i = Ok (CC_ERR_OUT_OF_RANGE, None, d).
Proof. intros H. unfold dq_replace_at. apply g_deque_replace_at_range_spec in H. rewrite H. reflexivity. Qed.
Lemma remove_at_oor d i : ~ i < dq_size d -> dq_remove_at d i = Ok (CC_ERR_OUT_OF_RANGE, None, d).
Proof. intros H. unfold dq_remove_at. apply g_deque_remove_at_range_spec in H. rewrite H. reflexivity. Qed.
Lemma get_at_oor d i : ~ i < dq_size d -> dq_get_at d i = Ok (CC_ERR_OUT_OF_RANGE, None).
Proof. intros H. unfold dq_get_at. apply g_deque_get_at_range_spec in H. rewrite H. reflexivity. Qed.

(** every status other than CC_OK leaves the whole container state as it was; unless it is CC_ERR_ALLOC
    the ledger is untouched too (C16), and for CC_ERR_ALLOC the set of live blocks is unchanged (C08) *)
Theorem deque_err_inert d a o st vs d' a' :
  dq_inv d -> owns d a -> op_ok d o -> dq_step d a o = Ok (DOut st vs, d', a') -> st <> CC_OK ->
  d' = d /\ live a' = live a /\ (st <> CC_ERR_ALLOC -> a' = a) /\ dq_inv d' /\ owns d' a'.
Proof.
  intros Hi Ho Hop Hs Hne.
  destruct (dq_step_refines d a o Hi Ho Hop) as (out & d1 & a1 & Hs1 & Hi1 & Ho1 & _ & _ & Hpost).
  rewrite Hs in Hs1. inversion Hs1; subst.
  destruct Hpost as [(_ & _ & Hin)|(Hout & _ & -> & Hl)].
  - destruct (Hin Hne) as [-> ->]. splits; auto.
  - inversion Hout; subst. splits; auto. congruence.
Qed.
Theorem deque_alloc_atomic d a o vs d' a' :
  dq_inv d -> owns d a -> op_ok d o -> dq_step d a o = Ok (DOut CC_ERR_ALLOC vs, d', a') ->
  d' = d /\ dq_abs d' = dq_abs d /\ live a' = live a /\ dq_inv d' /\ owns d' a'.
Proof.
  intros Hi Ho Hop Hs. destruct (deque_err_inert d a o _ vs d' a' Hi Ho Hop Hs) as (-> & Hl & _ & Hi' & Ho'); [discriminate|].
  splits; auto.
Qed.

(** * C20: capacity facts *)
Lemma deque_capacity_facts d : dq_inv d ->
  dq_size d <= dq_cap d /\ (exists k, k <= 31 /\ dq_cap d = 2 ^ k) /\ lenN (dq_slots d) = dq_cap d /\ dq_cap d <= MAX_POW_TWO.
Proof.
  intros [Hwf _]. split; [apply Hwf|]. split; [apply Hwf|]. split; [apply Hwf|].
  rewrite MAX_POW_TWO_val. apply (wf_cap d Hwf).
Qed.
(** trimming: capacity becomes upper_pow_two(size) (unless exactly full, when nothing happens), never below size *)
Lemma deque_trim_capacity d a st d' a' : dq_inv d -> owns d a -> dq_trim d a = Ok (st, d', a') -> st = CC_OK ->
  dq_cap d' = (if dq_cap d =? dq_size d then dq_cap d else upper_pow_two (dq_size d)) /\
  dq_size d' <= dq_cap d' /\ dq_abs d' = dq_abs d /\ dq_size d' = dq_size d.
Proof.
  intros Hi Ho He ->. pose proof (inv_repr d Hi) as Hr. pose proof (inv_wf d Hi) as Hwf.
  destruct (trim_refines d (dq_abs d) a Hwf Hr Ho) as (st1 & d1 & a1 & He1 & H). rewrite He in He1. inversion He1; subst.
  destruct H as [(_ & Hw & Hr' & _ & _ & Hs & Hc & _)|(Hx & _)]; [|discriminate].
  destruct (repr_inv _ _ Hw Hr') as [_ Ha]. splits; auto. apply Hw.
Qed.
(** growth doubles the capacity: one buffer allocation per doubling *)
Lemma deque_growth_doubles d a st d' a' : dq_inv d -> owns d a -> dq_expand d a = Ok (st, d', a') -> st = CC_OK ->
  dq_cap d' = 2 * dq_cap d /\ nreq a' = nreq a + 1.
Proof.
  intros Hi Ho He ->. unfold dq_expand in He. destruct (g_deque_expand_max (dq_cap d)); [inversion He|].
  pose proof (wf_cap d (inv_wf d Hi)) as Hc. rewrite shiftl1 in He by lia.
  destruct (alloc (dq_mem d) (2 * dq_cap d * 8) a) as [[nb|] a1] eqn:Ea; [|inversion He].
  pose proof (alloc_cases (dq_mem d) (2 * dq_cap d * 8) a) as C. rewrite Ea in C. destruct C as (_ & _ & _ & _ & Hq & _).
  destruct (dq_copy_buffer d _ None); cbn [bind] in He; [|discriminate].
  unfold release in He. destruct (remove_block (dq_buf d) (live a1)) as [[b r]|]; cbn [bind] in He; [|discriminate].
  destruct (tag_eqb (b_tag b) (dq_mem d)); cbn [bind] in He; [|discriminate].
  inversion He; subst. cbn [dq_cap nreq]. auto.
Qed.

(** * C06 / C14: the ledger along a history *)
Definition residue (d : deque) (a : alloc_st) : list block := without (dq_hdr d) (without (dq_buf d) (live a)).

Lemma destroy_spec d a : owns d a ->
  exists a', dq_destroy d a = Ok a' /\ live a' = residue d a /\ ledger_ok a' /\ next_id a' = next_id a.
Proof.
  intros (Hok & Hpos & Hne & (n1 & H1) & (n2 & H2)). unfold dq_destroy.
  destruct (release_in (dq_mem d) (dq_buf d) a _ Hok H2 eq_refl eq_refl) as (a1 & Hr1 & Hl1 & Hn1 & _ & _ & _ & Hok1).
  rewrite Hr1. cbn [bind].
  assert (H1' : In {| b_id := dq_hdr d; b_tag := dq_mem d; b_bytes := n1 |} (live a1)).
  { rewrite Hl1. apply in_without. split; [assumption|]. cbn. assumption. }
  destruct (release_in (dq_mem d) (dq_hdr d) a1 _ Hok1 H1' eq_refl eq_refl) as (a2 & Hr2 & Hl2 & Hn2 & _ & _ & _ & Hok2).
  exists a2. split; [assumption|]. unfold residue. rewrite Hl2, Hl1. splits; auto. congruence.
Qed.

Lemma without_fresh id (l : list block) a : ledger_ok a -> (forall b, In b l -> In b (live a)) -> next_id a <= id -> without id l = l.
Proof.
  intros [_ Hlt] Hsub Hid. apply without_notin. intros b Hb. apply Hsub, Hlt in Hb. lia.
Qed.

Lemma led_step_residue d a d' a' : owns d a -> led_step d a d' a' -> dq_hdr d' = dq_hdr d ->
  residue d' a' = residue d a /\
  (forall b, In b (live a') -> In b (live a) \/ (b_tag b = dq_mem d /\ b_id b = next_id a)) /\
  (forall b, In b (live a) -> b_id b <> dq_buf d -> In b (live a')).
Proof.
  intros (Hok & Hpos & Hne & (n1 & H1) & (n2 & H2)) [[Hl Hb]|(bytes & Hl & Hb)] Hh; unfold residue; rewrite Hh.
  - rewrite Hl, Hb. splits; auto.
  - rewrite Hl. split; [|split].
    + cbn [without filter b_id]. rewrite N.eqb_refl. cbn [negb]. fold (without (dq_buf d') (without (dq_buf d) (live a))).
      rewrite (without_fresh (dq_buf d') _ a Hok); [reflexivity| |lia].
      intros b Hin. apply in_without in Hin. tauto.
    + intros b [<-|Hin]; [right; cbn; auto|left]. apply in_without in Hin. tauto.
    + intros b Hin Hnb. right. apply in_without. auto.
Qed.

(** along a history: the blocks that are neither the header nor the current buffer never change; every
    block that appears carries the container's tag (C14) *)
Theorem deque_run_ledger ops : forall d a outs d' a',
  dq_inv d -> owns d a -> ops_ok d a ops -> dq_run d a ops = Ok (outs, d', a') ->
  residue d' a' = residue d a /\ dq_hdr d' = dq_hdr d /\ dq_mem d' = dq_mem d /\
  (forall b, In b (live a') -> In b (live a) \/ b_tag b = dq_mem d) /\ owns d' a' /\ dq_inv d'.
Proof.
  induction ops as [|o r IH]; intros d a outs d' a' Hi Ho Hok Hrun; cbn [dq_run] in Hrun.
  - inversion Hrun; subst. splits; auto.
  - destruct Hok as [Hop Hrest].
    destruct (dq_step_refines d a o Hi Ho Hop) as (out & d1 & a1 & Hs & Hi1 & Ho1 & [Hh1 Hm1] & Hled & _).
    rewrite Hs in *. cbn [bind] in Hrun.
    destruct (dq_run d1 a1 r) as [[[outs2 d2] a2]|] eqn:Er; cbn [bind] in Hrun; [|discriminate].
    inversion Hrun; subst.
    destruct (IH d1 a1 outs2 d' a' Hi1 Ho1 Hrest Er) as (Hres & Hh & Hm & Htag & Ho' & Hi').
    destruct (led_step_residue d a d1 a1 Ho Hled Hh1) as (Hres1 & Htag1 & _).
    splits; auto; try congruence.
    intros b Hb. destruct (Htag b Hb) as [Hin|Ht].
    + destruct (Htag1 b Hin) as [Hin'|[Ht _]]; [left; assumption|right; assumption].
    + right. congruence.
Qed.

(** the whole life of a deque: constructor, any history, destroy - the ledger is back where it started,
    no fault on the way (every release hit a live block of the right family) *)
Theorem deque_life_balanced mem capacity a ops st d a1 outs d' a' :
  ledger_ok a -> 0 < next_id a ->
  dq_new_conf mem capacity a = Ok (st, Some d, a1) -> ops_ok d a1 ops ->
  dq_run d a1 ops = Ok (outs, d', a') ->
  exists a'', dq_destroy d' a' = Ok a'' /\ live a'' = live a.
Proof.
  intros Hok Hpos Hn Hops Hrun. destruct (new_conf_spec mem capacity a Hok Hpos) as (st' & r & a0 & Hn' & Hspec).
  rewrite Hn in Hn'. inversion Hn'; subst. destruct Hspec as (_ & Hwf & Hr & Ho & _ & _ & _ & Hh & Hb & Hlive).
  destruct (repr_inv d [] Hwf Hr) as [Hinv _].
  destruct (deque_run_ledger ops d a0 outs d' a' Hinv Ho Hops Hrun) as (Hres & _ & _ & _ & Ho' & _).
  destruct (destroy_spec d' a' Ho') as (a'' & Hd & Hl & _). exists a''. split; [assumption|].
  rewrite Hl, Hres. unfold residue. rewrite Hlive. cbn [without filter b_id].
  rewrite N.eqb_refl. cbn [negb]. replace (dq_hdr d =? dq_buf d) with false by lia. cbn [negb filter b_id].
  rewrite N.eqb_refl. cbn [negb].
  fold (without (dq_buf d) (live a)). rewrite (without_fresh (dq_buf d) (live a) a Hok) by (auto; lia).
  fold (without (dq_hdr d) (live a)). apply (without_fresh (dq_hdr d) (live a) a Hok); auto; lia.
Qed.

(** * C07: iterator refinement *)
Lemma iter_next_refines d l it : dq_wf d -> repr d l -> dq_iter_next d it = Ok (spec_iter_next l it).
Proof.
  intros Hwf [Hl Hr]. pose proof (wf_cap d Hwf) as Hc. pose proof (wf_size d Hwf) as Hsz.
  unfold dq_iter_next, spec_iter_next, g_deque_iter_next_end. rewrite nthN_spec.
  destruct (dq_size d <=? it_index it) eqn:E.
  - rewrite getN_ge by lia. reflexivity.
  - destruct (getN_lt l (it_index it)) as [v Hv]; [lia|]. rewrite Hv.
    rewrite wf_phys by (try assumption; lia).
    rewrite (rdv_ok _ _ v) by (rewrite Hr by lia; rewrite Hv; reflexivity). cbn [bind].
    rewrite wadd_small by (unfold W; lia). reflexivity.
Qed.

(** drain an iterator: the values yielded until the first status other than CC_OK *)
Fixpoint iter_collect (d : deque) (it : dq_iter) (fuel : nat) : res (list N * stat * dq_iter) :=
  match fuel with
  | O => Ok ([], CC_OK, it)
  | S k => do (sv, it') <- dq_iter_next d it;
           match sv with
           | (CC_OK, Some v) => do (r, it'') <- iter_collect d it' k; Ok (v :: fst r, snd r, it'')
           | (st, _) => Ok ([], st, it')
           end
  end.
(** a fresh iterator yields exactly the content, front to back, then CC_ITER_END - in every layout,
    exactly full and wrapped included *)
Lemma iter_collect_spec d l : dq_wf d -> repr d l ->
  forall k i lr, i + N.of_nat k = dq_size d + 1 -> i <= dq_size d ->
  iter_collect d {| it_index := i; it_last_removed := lr |} k =
  Ok (skipnN i l, CC_ITER_END, {| it_index := dq_size d; it_last_removed := if k =? 1 then lr else false |}%nat).
Proof.
  intros Hwf Hrep. pose proof Hrep as [Hl Hr].
  induction k as [|k IH]; intros i lr Hi Hle; [lia|].
  cbn [iter_collect]. rewrite (iter_next_refines d l _ Hwf Hrep). unfold spec_iter_next. cbn [it_index bind]. rewrite nthN_spec.
  destruct (i <? dq_size d) eqn:E.
  - destruct (getN_lt l i) as [v Hv]; [lia|]. rewrite Hv. rewrite IH by lia. cbn [bind fst snd].
    rewrite (skipnN_cons l i v Hv). destruct k as [|[|k]]; try reflexivity. lia.
  - rewrite getN_ge by lia. rewrite skipnN_all by lia. assert (k = O) by lia. subst k. assert (i = dq_size d) by lia. subst i. reflexivity.
Qed.
Theorem iter_fresh_complete d : dq_inv d ->
  iter_collect d dq_iter_init (S (N.to_nat (dq_size d))) =
  Ok (dq_abs d, CC_ITER_END, {| it_index := dq_size d; it_last_removed := false |}).
Proof.
  intros Hi. pose proof (iter_collect_spec d (dq_abs d) (inv_wf d Hi) (inv_repr d Hi) (S (N.to_nat (dq_size d))) 0 false) as H.
  rewrite skipnN_0 in H. unfold dq_iter_init. rewrite H by lia. destruct (N.to_nat (dq_size d)); reflexivity.
Qed.

Lemma iter_remove_refines d l it : dq_wf d -> repr d l ->
  match spec_iter_remove l it with
  | (st, out, l', it') =>
      exists d', dq_iter_remove d it = Ok (st, out, d', it') /\ dq_wf d' /\ repr d' l' /\ frame d d' /\ (st <> CC_OK -> d' = d)
  end.
Proof.
  intros Hwf Hrep. unfold spec_iter_remove, dq_iter_remove. destruct (it_last_removed it).
  { exists d. splits; auto. apply frame_refl. }
  rewrite nthN_spec. pose proof (remove_at_refines d l (wsub (it_index it) 1) Hwf Hrep) as H.
  destruct (getN l (wsub (it_index it) 1)) as [v|].
  - destruct H as (d' & He & Hw & Hr & Hf). rewrite He. cbn [bind stat_eqb stat_code N.eqb]. exists d'. splits; auto. congruence.
  - rewrite H. cbn [bind]. exists d. splits; auto. apply frame_refl.
Qed.

Lemma iter_replace_refines d l it x : dq_wf d -> repr d l ->
  match spec_iter_replace l it x with
  | (st, out, l') => exists d', dq_iter_replace d it x = Ok (st, out, d') /\ dq_wf d' /\ repr d' l' /\ frame d d' /\ (st <> CC_OK -> d' = d)
  end.
Proof.
  intros Hwf Hrep. unfold spec_iter_replace, dq_iter_replace. rewrite nthN_spec.
  pose proof (replace_at_refines d l x (wsub (it_index it) 1) Hwf Hrep) as H.
  destruct (getN l (wsub (it_index it) 1)) as [v|].
  - destruct H as (d' & He & Hw & Hr & Hf). exists d'. splits; auto. congruence.
  - exists d. splits; auto. apply frame_refl.
Qed.

(** iter_add inherits the branch guard of add_at (D17) *)
Lemma iter_add_refines d l it x a : dq_wf d -> repr d l -> owns d a -> add_at_branch_ok d (it_index it) = true ->
  exists st d' it' a', dq_iter_add d it x a = Ok (st, d', it', a') /\
    match spec_iter_add l it x with
    | (st0, l', it0) =>
        (st = st0 /\ it' = it0 /\ (st0 = CC_OK -> dq_wf d' /\ repr d' l' /\ owns d' a') /\ (st0 <> CC_OK -> d' = d /\ a' = a)) \/
        (st = CC_ERR_ALLOC /\ st0 = CC_OK /\ it' = it /\ d' = d /\ live a' = live a)
    end.
Proof.
  intros Hwf Hrep Ho Hb. pose proof Hrep as [Hl _]. pose proof (wf_cap d Hwf) as Hc. pose proof (wf_size d Hwf) as Hsz.
  unfold dq_iter_add, spec_iter_add.
  destruct (add_at_partial d l x (it_index it) a Hwf Hrep Ho Hb) as (st & d' & a' & He & H). rewrite He. cbn [bind].
  destruct (it_index it <? lenN l) eqn:E.
  - destruct H as [(-> & Hw & Hr & Ho' & _)|(-> & -> & Hlv & _)]; cbn [stat_eqb stat_code N.eqb].
    + do 4 eexists. split; [reflexivity|]. left. rewrite wadd_small by (unfold W; lia). splits; auto. congruence.
    + do 4 eexists. split; [reflexivity|]. right. splits; auto.
  - destruct H as (-> & -> & ->). cbn [stat_eqb stat_code N.eqb]. do 4 eexists. split; [reflexivity|]. left. splits; auto; discriminate.
Qed.

Lemma iter_index_spec it : 0 < it_index it -> it_index it < W -> dq_iter_index it = it_index it - 1.
Proof. intros. unfold dq_iter_index. apply wsub_small; lia. Qed.

(** zip: lockstep over two deques, stops at the shorter *)
Lemma zip_next_refines d1 l1 d2 l2 it : dq_wf d1 -> repr d1 l1 -> dq_wf d2 -> repr d2 l2 ->
  dq_zip_next d1 d2 it =
  Ok (match nthN l1 (it_index it), nthN l2 (it_index it) with
      | Some x, Some y => (CC_OK, Some (x, y), {| it_index := it_index it + 1; it_last_removed := false |})
      | _, _ => (CC_ITER_END, None, it)
      end).
Proof.
  intros Hw1 [Hl1 Hr1] Hw2 [Hl2 Hr2]. pose proof (wf_cap d1 Hw1). pose proof (wf_size d1 Hw1). pose proof (wf_cap d2 Hw2). pose proof (wf_size d2 Hw2).
  unfold dq_zip_next, g_deque_zip_next_end1, g_deque_zip_next_end2. rewrite !nthN_spec.
  destruct (dq_size d1 <=? it_index it) eqn:E1; [rewrite (getN_ge l1) by lia; reflexivity|].
  destruct (getN_lt l1 (it_index it)) as [x Hx]; [lia|]. rewrite Hx.
  destruct (dq_size d2 <=? it_index it) eqn:E2; [rewrite (getN_ge l2) by lia; reflexivity|].
  destruct (getN_lt l2 (it_index it)) as [y Hy]; [lia|]. rewrite Hy.
  rewrite !wf_phys by (try assumption; lia).
  rewrite (rdv_ok _ _ x) by (rewrite Hr1 by lia; rewrite Hx; reflexivity). cbn [bind].
  rewrite (rdv_ok _ _ y) by (rewrite Hr2 by lia; rewrite Hy; reflexivity). cbn [bind].
  rewrite wadd_small by (unfold W; lia). reflexivity.
Qed.

Lemma zip_remove_refines d1 l1 d2 l2 it : dq_wf d1 -> repr d1 l1 -> dq_wf d2 -> repr d2 l2 ->
  let i := wsub (it_index it) 1 in
  if it_last_removed it then dq_zip_remove d1 d2 it = Ok (CC_ERR_VALUE_NOT_FOUND, None, d1, d2, it) else
  match getN l1 i, getN l2 i with
  | Some x, Some y => exists d1' d2', dq_zip_remove d1 d2 it = Ok (CC_OK, Some (x, y), d1', d2', {| it_index := i; it_last_removed := true |}) /\
                                     dq_wf d1' /\ repr d1' (del l1 i) /\ frame d1 d1' /\ dq_wf d2' /\ repr d2' (del l2 i) /\ frame d2 d2'
  | _, _ => dq_zip_remove d1 d2 it = Ok (CC_ERR_OUT_OF_RANGE, None, d1, d2, it)
  end.
Proof.
  intros Hw1 Hrep1 Hw2 Hrep2 i. pose proof Hrep1 as [Hl1 _]. pose proof Hrep2 as [Hl2 _].
  unfold dq_zip_remove. fold i. destruct (it_last_removed it); [reflexivity|].
  pose proof (remove_at_refines d1 l1 i Hw1 Hrep1) as H1. pose proof (remove_at_refines d2 l2 i Hw2 Hrep2) as H2.
  destruct (getN l1 i) as [x|] eqn:E1.
  - destruct (getN l2 i) as [y|] eqn:E2.
    + apply getN_Some_lt in E1. apply getN_Some_lt in E2.
      replace ((dq_size d1 <=? i) || (dq_size d2 <=? i)) with false by lia.
      destruct H1 as (d1' & He1 & Hw1' & Hr1' & Hf1). destruct H2 as (d2' & He2 & Hw2' & Hr2' & Hf2).
      rewrite He1. cbn [bind]. rewrite He2. cbn [bind]. exists d1', d2'. splits; auto.
    + apply getN_None_ge in E2. replace ((dq_size d1 <=? i) || (dq_size d2 <=? i)) with true by lia. reflexivity.
  - apply getN_None_ge in E1. replace ((dq_size d1 <=? i) || (dq_size d2 <=? i)) with true by lia. reflexivity.
Qed.

Lemma zip_replace_refines d1 l1 d2 l2 it e1 e2 : dq_wf d1 -> repr d1 l1 -> dq_wf d2 -> repr d2 l2 ->
  let i := wsub (it_index it) 1 in
  match getN l1 i, getN l2 i with
  | Some x, Some y => exists d1' d2', dq_zip_replace d1 d2 it e1 e2 = Ok (CC_OK, Some (x, y), d1', d2') /\
                                     dq_wf d1' /\ repr d1' (repl l1 i e1) /\ frame d1 d1' /\ dq_wf d2' /\ repr d2' (repl l2 i e2) /\ frame d2 d2'
  | _, _ => dq_zip_replace d1 d2 it e1 e2 = Ok (CC_ERR_OUT_OF_RANGE, None, d1, d2)
  end.
Proof.
  intros Hw1 Hrep1 Hw2 Hrep2 i. pose proof Hrep1 as [Hl1 _]. pose proof Hrep2 as [Hl2 _].
  unfold dq_zip_replace. fold i.
  pose proof (replace_at_refines d1 l1 e1 i Hw1 Hrep1) as H1. pose proof (replace_at_refines d2 l2 e2 i Hw2 Hrep2) as H2.
  destruct (getN l1 i) as [x|] eqn:E1.
  - destruct (getN l2 i) as [y|] eqn:E2.
    + apply getN_Some_lt in E1. apply getN_Some_lt in E2.
      replace ((dq_size d1 <=? i) || (dq_size d2 <=? i)) with false by lia.
      destruct H1 as (d1' & He1 & Hw1' & Hr1' & Hf1). destruct H2 as (d2' & He2 & Hw2' & Hr2' & Hf2).
      rewrite He1. cbn [bind]. rewrite He2. cbn [bind]. exists d1', d2'. splits; auto.
    + apply getN_None_ge in E2. replace ((dq_size d1 <=? i) || (dq_size d2 <=? i)) with true by lia. reflexivity.
  - apply getN_None_ge in E1. replace ((dq_size d1 <=? i) || (dq_size d2 <=? i)) with true by lia. reflexivity.
Qed.

(** * C09: CC_Queue is a FIFO (enqueue at the front of the deque, poll at its back) *)
Inductive q_op := QEnq (x : N) | QPoll | QPeek.
Definition q_step (q : queue) (a : alloc_st) (o : q_op) : res (dq_out * queue * alloc_st) :=
  match o with
  | QEnq x => do (st, q', a') <- q_enqueue q x a; Ok (DOut st [], q', a')
  | QPoll => do (st, v, q') <- q_poll q; Ok (DOut st (olist v), q', a)
  | QPeek => do (st, v) <- q_peek q; Ok (DOut st (olist v), q, a)
  end.
(** the ideal FIFO, newest first: poll and peek answer with the oldest element *)
Definition spec_q_step (l : list N) (o : q_op) : dq_out * list N :=
  match o with
  | QEnq x => (DOut CC_OK [], x :: l)
  | QPoll => match l with [] => (DOut CC_ERR_OUT_OF_RANGE [], []) | _ => (DOut CC_OK [last l 0], removelast l) end
  | QPeek => match l with [] => (DOut CC_ERR_OUT_OF_RANGE [], l) | _ => (DOut CC_OK [last l 0], l) end
  end.
Definition q_to_dq (o : q_op) : dq_op := match o with QEnq x => OAddFirst x | QPoll => ORemoveLast | QPeek => OGetLast end.
Lemma spec_q_step_eq l o : spec_q_step l o = spec_step l (q_to_dq o).
Proof. destruct o; reflexivity. Qed.

Definition q_inv (q : queue) : Prop := dq_inv (q_d q).
Definition q_abs (q : queue) : list N := dq_abs (q_d q).
(** the queue's own header block is live, of the queue's family, and is neither of the deque's blocks *)
Definition q_owns (q : queue) (a : alloc_st) : Prop :=
  owns (q_d q) a /\ q_mem q = dq_mem (q_d q) /\ q_hdr q <> dq_hdr (q_d q) /\ q_hdr q <> dq_buf (q_d q) /\
  exists n, In {| b_id := q_hdr q; b_tag := q_mem q; b_bytes := n |} (live a).

Lemma q_step_dq q a o : q_step q a o = do (out, d', a') <- dq_step (q_d q) a (q_to_dq o); Ok (out, q_with q d', a').
Proof.
  destruct o; unfold q_step, q_to_dq, dq_step, q_enqueue, q_poll, q_peek.
  - destruct (dq_add_first (q_d q) x a) as [[[st d] a']|]; reflexivity.
  - destruct (dq_remove_last (q_d q)) as [[[st v] d]|]; reflexivity.
  - destruct (dq_get_last (q_d q)) as [[st v]|]; [|reflexivity]. cbn [bind]. destruct q; reflexivity.
Qed.

Theorem queue_step_refines q a o : q_inv q -> q_owns q a ->
  exists out q' a', q_step q a o = Ok (out, q', a') /\ q_inv q' /\ q_owns q' a' /\ q_hdr q' = q_hdr q /\ q_mem q' = q_mem q /\
    ((out, q_abs q') = spec_q_step (q_abs q) o \/
     (out = DOut CC_ERR_ALLOC [] /\ q' = q /\ live a' = live a /\ exists x, o = QEnq x)).
Proof.
  intros Hi (Ho & Hm & Hn1 & Hn2 & (n & Hin)). rewrite q_step_dq.
  assert (Hop : op_ok (q_d q) (q_to_dq o)) by (destruct o; exact I).
  destruct (dq_step_refines (q_d q) a (q_to_dq o) Hi Ho Hop) as (out & d' & a' & Hs & Hi' & Ho' & [Hh Hmm] & Hled & Hpost).
  rewrite Hs. cbn [bind]. do 3 eexists. split; [reflexivity|]. unfold q_inv, q_abs. cbn [q_with q_d q_hdr q_mem].
  destruct (led_step_residue _ _ _ _ Ho Hled Hh) as (_ & _ & Hkeep).
  assert (Hown : q_owns (q_with q d') a').
  { unfold q_owns. cbn [q_with q_d q_hdr q_mem]. splits; auto; try congruence.
    - destruct Hled as [[_ Hb]|(bytes & _ & Hb)]; [congruence|]. rewrite Hb.
      destruct Ho as ([_ Hlt] & _). apply Hlt in Hin. cbn in Hin. lia.
    - exists n. apply Hkeep; [assumption|]. cbn. assumption. }
  splits; auto. rewrite spec_q_step_eq.
  destruct Hpost as [(Hsp & _)|(-> & Hal & -> & Hl)]; [left; assumption|right].
  splits; auto; [destruct q; reflexivity|]. destruct o; try discriminate. eauto.
Qed.

Fixpoint q_run (q : queue) (a : alloc_st) (ops : list q_op) : res (list dq_out * queue * alloc_st) :=
  match ops with
  | [] => Ok ([], q, a)
  | o :: r => do (out, q1, a1) <- q_step q a o; do (outs, q2, a2) <- q_run q1 a1 r; Ok (out :: outs, q2, a2)
  end.
Fixpoint spec_q_run (l : list N) (ops : list q_op) (fails : list bool) : list dq_out * list N :=
  match ops with
  | [] => ([], l)
  | o :: r =>
      let '(failed, fr) := match fails with b :: t => (b, t) | [] => (false, []) end in
      let '(out, l1) := if failed then (DOut CC_ERR_ALLOC [], l) else spec_q_step l o in
      let '(outs, l2) := spec_q_run l1 r fr in
      (out :: outs, l2)
  end.

Theorem queue_run_refines ops : forall q a, q_inv q -> q_owns q a ->
  exists outs q' a', q_run q a ops = Ok (outs, q', a') /\ q_inv q' /\ q_owns q' a' /\
                     (outs, q_abs q') = spec_q_run (q_abs q) ops (map is_alloc_err outs).
Proof.
  induction ops as [|o r IH]; intros q a Hi Ho; cbn [q_run].
  - do 3 eexists. split; [reflexivity|]. splits; auto.
  - destruct (queue_step_refines q a o Hi Ho) as (out & q1 & a1 & Hs & Hi1 & Ho1 & _ & _ & Hpost).
    rewrite Hs. cbn [bind]. destruct (IH q1 a1 Hi1 Ho1) as (outs & q2 & a2 & Hr & Hi2 & Ho2 & Hspec).
    rewrite Hr. cbn [bind]. do 3 eexists. split; [reflexivity|]. splits; auto.
    cbn [map spec_q_run]. destruct Hpost as [Hsp|(-> & -> & _)].
    + assert (Hne : is_alloc_err out = false).
      { destruct (spec_q_step (q_abs q) o) as [o' l'] eqn:E. inversion Hsp; subst.
        destruct o; cbn in E; repeat match type of E with context [match ?x with _ => _ end] => destruct x end;
          inversion E; reflexivity. }
      rewrite Hne, <- Hsp, <- Hspec. reflexivity.
    + cbn [is_alloc_err]. rewrite <- Hspec. reflexivity.
Qed.

(** constructor and destructor of the adapter: three blocks, all of the configured family *)
Lemma q_new_conf_spec mem capacity a : ledger_ok a -> 0 < next_id a ->
  exists st r a', q_new_conf mem capacity a = Ok (st, r, a') /\
    match r with
    | Some q => st = CC_OK /\ q_inv q /\ q_abs q = [] /\ q_owns q a' /\ q_mem q = mem /\
                live a' = {| b_id := dq_buf (q_d q); b_tag := mem; b_bytes := wmul (upper_pow_two capacity) 8 |} ::
                          {| b_id := dq_hdr (q_d q); b_tag := mem; b_bytes := 1 * SIZEOF_DEQUE |} ::
                          {| b_id := q_hdr q; b_tag := mem; b_bytes := 1 * SIZEOF_QUEUE |} :: live a /\
                q_hdr q = next_id a
    | None => st = CC_ERR_ALLOC /\ live a' = live a
    end.
Proof.
  intros Hok Hpos. unfold q_new_conf.
  destruct (alloc mem (1 * SIZEOF_QUEUE) a) as [[h|] a1] eqn:E1.
  - pose proof (alloc_cases mem (1 * SIZEOF_QUEUE) a) as C1. rewrite E1 in C1. destruct C1 as (-> & Hl1 & Hn1 & _).
    destruct (alloc_ledger_ok _ _ _ _ _ Hok Hpos E1) as [Hok1 Hpos1].
    destruct (new_conf_spec mem capacity a1 Hok1 Hpos1) as (st & r & a2 & Hn & Hspec). rewrite Hn. cbn [bind].
    destruct r as [d|].
    + destruct Hspec as (-> & Hwf & Hr & Ho & Hm & Hc & Hs & Hh & Hb & Hlive).
      destruct (repr_inv d [] Hwf Hr) as [Hinv Habs].
      do 3 eexists. split; [reflexivity|]. cbv iota. unfold q_inv, q_abs, q_owns. cbn [q_d q_hdr q_mem].
      rewrite Hlive, Hl1. splits; auto; try lia.
      eexists. right. right. left. reflexivity.
    + destruct Hspec as (-> & Hl2 & Hok2 & Hpos2).
      destruct (release_head mem (next_id a) (1 * SIZEOF_QUEUE) (live a) a2) as (a3 & Hrel & Hl3 & _).
      { rewrite Hl2, Hl1. reflexivity. }
      rewrite Hrel. cbn [bind]. do 3 eexists. split; [reflexivity|]. cbv iota. auto.
  - pose proof (alloc_cases mem (1 * SIZEOF_QUEUE) a) as C1. rewrite E1 in C1. destruct C1 as (Hl1 & _).
    do 3 eexists. split; [reflexivity|]. cbv iota. auto.
Qed.

Lemma q_destroy_spec q a : q_owns q a ->
  exists a', q_destroy q a = Ok a' /\ live a' = without (q_hdr q) (residue (q_d q) a).
Proof.
  intros (Ho & Hm & Hn1 & Hn2 & (n & Hin)). unfold q_destroy.
  destruct (destroy_spec (q_d q) a Ho) as (a1 & Hd & Hl1 & Hok1 & _). rewrite Hd. cbn [bind].
  assert (Hin1 : In {| b_id := q_hdr q; b_tag := q_mem q; b_bytes := n |} (live a1)).
  { rewrite Hl1. unfold residue. apply in_without. split; [apply in_without; split; [assumption|cbn; assumption]|cbn; assumption]. }
  destruct (release_in (q_mem q) (q_hdr q) a1 _ Hok1 Hin1 eq_refl eq_refl) as (a2 & Hr & Hl2 & _).
  exists a2. split; [assumption|]. rewrite Hl2, Hl1. reflexivity.
Qed.

(** * C06: no fault, callbacks see each element once and in order *)
Corollary deque_step_no_fault d a o f : dq_inv d -> owns d a -> op_ok d o -> dq_step d a o <> Fault f.
Proof.
  intros Hi Ho Hop. destruct (dq_step_refines d a o Hi Ho Hop) as (out & d' & a' & Hs & _). rewrite Hs. discriminate.
Qed.
Lemma remove_all_cb_spec d : dq_inv d -> dq_remove_all_cb d = Ok (dq_abs d, dq_remove_all d).
Proof.
  intros Hi. unfold dq_remove_all_cb. rewrite (foreach_refines d (dq_abs d) (inv_wf d Hi) (inv_repr d Hi)). reflexivity.
Qed.
Lemma destroy_cb_spec d a : dq_inv d -> owns d a ->
  exists a', dq_destroy_cb d a = Ok (dq_abs d, a') /\ live a' = residue d a.
Proof.
  intros Hi Ho. unfold dq_destroy_cb. rewrite (remove_all_cb_spec d Hi). cbn [bind].
  assert (Ho' : owns (dq_remove_all d) a) by exact Ho.
  destruct (destroy_spec (dq_remove_all d) a Ho') as (a' & Hd & Hl & _). rewrite Hd. cbn [bind].
  exists a'. split; [reflexivity|exact Hl].
Qed.
