(** Deque proofs, part 3: upper_pow_two (the or-shift cascade), the constructor, trim_capacity,
    copy_shallow / copy_deep (content, source unchanged, result invariant). *)
From CC Require Import Base.Prelude Base.ListMem Base.ModArith Base.Alloc Base.AllocProofs.
From CC Require Import Generated.Status Generated.Constants Generated.Guards Deque.DequeModel Deque.DequeProofs.
Local Open Scope N_scope.

(** * upper_pow_two *)
Lemma smear_bits m s i : N.testbit (smear m s) i = N.testbit m i || N.testbit m (i + s).
Proof. unfold smear. rewrite N.lor_spec, N.shiftr_spec'. reflexivity. Qed.

(** [covers m w r]: bit [i] of [r] is set iff one of the [w] bits of [m] from [i] upwards is set *)
Definition covers (m w r : N) : Prop :=
  forall i, N.testbit r i = true <-> exists j, j < w /\ N.testbit m (i + j) = true.
Lemma covers_1 m : covers m 1 m.
Proof.
  intros i. split.
  - intros H. exists 0. split; [lia|]. rewrite N.add_0_r. assumption.
  - intros (j & Hj & H). assert (j = 0) by lia. subst. rewrite N.add_0_r in H. assumption.
Qed.
Lemma covers_step m w r : covers m w r -> covers m (2 * w) (smear r w).
Proof.
  intros H i. rewrite smear_bits, orb_true_iff, (H i), (H (i + w)). split.
  - intros [(j & Hj & Hb)|(j & Hj & Hb)].
    + exists j. split; [lia|assumption].
    + exists (w + j). split; [lia|]. rewrite N.add_assoc. assumption.
  - intros (j & Hj & Hb). destruct (j <? w) eqn:E.
    + left. exists j. split; [lia|assumption].
    + right. exists (j - w). split; [lia|]. replace (i + w + (j - w)) with (i + j) by lia. assumption.
Qed.

Lemma cascade_ones m : 0 < m -> m < 2 ^ 31 ->
  smear (smear (smear (smear (smear m 1) 2) 4) 8) 16 = N.ones (N.log2 m + 1).
Proof.
  intros Hpos Hlt.
  assert (Hc : covers m 32 (smear (smear (smear (smear (smear m 1) 2) 4) 8) 16)).
  { change 32 with (2 * (2 * (2 * (2 * (2 * 1))))).
    apply (covers_step m 16), (covers_step m 8), (covers_step m 4), (covers_step m 2), (covers_step m 1), covers_1. }
  assert (Hlog : N.log2 m < 31) by (apply N.log2_lt_pow2; assumption).
  apply N.bits_inj. intros i.
  destruct (i <=? N.log2 m) eqn:E.
  - rewrite N.ones_spec_low by lia. apply Hc. exists (N.log2 m - i). split; [lia|].
    replace (i + (N.log2 m - i)) with (N.log2 m) by lia. apply N.bit_log2. lia.
  - rewrite N.ones_spec_high by lia.
    destruct (N.testbit _ i) eqn:Eb; [|reflexivity].
    apply Hc in Eb. destruct Eb as (j & _ & Hb). rewrite N.bits_above_log2 in Hb by lia. discriminate.
Qed.

(** the result is the least power of two that is >= n, for every n in (0, MAX_POW_TWO] *)
Lemma upper_pow_two_spec n : 0 < n -> n <= MAX_POW_TWO ->
  exists k, k <= 31 /\ upper_pow_two n = 2 ^ k /\ n <= 2 ^ k /\ forall k', n <= 2 ^ k' -> k <= k'.
Proof.
  rewrite MAX_POW_TWO_val. intros Hpos Hle. unfold upper_pow_two, g_deque_upt_max, g_deque_upt_zero.
  rewrite MAX_POW_TWO_val. change (4294967296 <? 2147483648) with false. cbv iota.
  destruct (2147483648 <=? n) eqn:Emax.
  { assert (n = 2147483648) by lia. subst n. exists 31. split; [lia|]. split; [reflexivity|]. split; [reflexivity|].
    intros k' Hk. destruct (31 <=? k') eqn:E; [lia|]. exfalso.
    assert (2 ^ k' <= 2 ^ 30) by (apply N.pow_le_mono_r; lia). change (2 ^ 30) with 1073741824 in *. change (2 ^ 31) with 2147483648 in *. lia. }
  replace (n =? 0) with false by lia.
  rewrite wsub_small by (unfold W; lia).
  destruct (n =? 1) eqn:E1.
  { assert (n = 1) by lia. subst n. exists 0. split; [lia|]. split; [reflexivity|]. split; [reflexivity|]. intros; lia. }
  assert (Hm : 0 < n - 1 < 2 ^ 31) by (change (2 ^ 31) with 2147483648; lia).
  rewrite cascade_ones by lia.
  set (t := N.log2 (n - 1)).
  assert (Hlog : t < 31) by (apply N.log2_lt_pow2; lia).
  destruct (N.log2_spec (n - 1)) as [Hlo Hhi]; [lia|]. fold t in Hlo, Hhi.
  rewrite N.ones_equiv.
  assert (Hp : 0 < 2 ^ (t + 1)) by (apply N.neq_0_lt_0, N.pow_nonzero; lia).
  assert (Hb : 2 ^ (t + 1) <= 2 ^ 31) by (apply N.pow_le_mono_r; lia). change (2 ^ 31) with 2147483648 in Hb.
  rewrite wadd_small by (unfold W; lia).
  exists (t + 1). split; [lia|]. split; [lia|]. rewrite <- N.add_1_r in Hhi. split; [lia|].
  intros k' Hk. destruct (t + 1 <=? k') eqn:E; [lia|]. exfalso.
  assert (2 ^ k' <= 2 ^ t) by (apply N.pow_le_mono_r; lia). lia.
Qed.

Lemma upper_pow_two_0 : upper_pow_two 0 = 1. Proof. reflexivity. Qed.
Lemma upper_pow_two_big n : MAX_POW_TWO <= n -> upper_pow_two n = MAX_POW_TWO.
Proof. intros H. unfold upper_pow_two, g_deque_upt_max. replace (MAX_POW_TWO <=? n) with true by lia. reflexivity. Qed.

Lemma upper_pow_two_pow2 n : pow2 (upper_pow_two n) /\ (n <= MAX_POW_TWO -> n <= upper_pow_two n).
Proof.
  destruct (n =? 0) eqn:E0.
  { assert (n = 0) by lia. subst. split; [apply pow2_1|intros; rewrite upper_pow_two_0; lia]. }
  destruct (MAX_POW_TWO <=? n) eqn:Em.
  - rewrite upper_pow_two_big by lia. split; [exists 31; split; [lia|reflexivity]|intros; lia].
  - destruct (upper_pow_two_spec n) as (k & Hk & -> & Hn & _); [lia|lia|]. split; [exists k; auto|auto].
Qed.

(** * The constructor *)
Lemma new_conf_spec mem capacity a :
  ledger_ok a -> 0 < next_id a ->
  exists st r a', dq_new_conf mem capacity a = Ok (st, r, a') /\
    match r with
    | Some d => st = CC_OK /\ dq_wf d /\ repr d [] /\ owns d a' /\ dq_mem d = mem /\ dq_cap d = upper_pow_two capacity /\
                dq_size d = 0 /\ dq_hdr d = next_id a /\ dq_buf d = next_id a + 1 /\
                live a' = {| b_id := dq_buf d; b_tag := mem; b_bytes := wmul (upper_pow_two capacity) 8 |} ::
                          {| b_id := dq_hdr d; b_tag := mem; b_bytes := 1 * SIZEOF_DEQUE |} :: live a
    | None => st = CC_ERR_ALLOC /\ live a' = live a /\ ledger_ok a' /\ 0 < next_id a'
    end.
Proof.
  intros Hok Hpos. unfold dq_new_conf.
  destruct (alloc mem (1 * SIZEOF_DEQUE) a) as [[h|] a1] eqn:E1.
  - pose proof (alloc_cases mem (1 * SIZEOF_DEQUE) a) as C1. rewrite E1 in C1. destruct C1 as (-> & Hl1 & Hn1 & _).
    destruct (alloc_ledger_ok _ _ _ _ _ Hok Hpos E1) as [Hok1 Hpos1].
    destruct (alloc mem (wmul (upper_pow_two capacity) 8) a1) as [[b|] a2] eqn:E2.
    + pose proof (alloc_cases mem (wmul (upper_pow_two capacity) 8) a1) as C2. rewrite E2 in C2. destruct C2 as (-> & Hl2 & Hn2 & _).
      destruct (alloc_ledger_ok _ _ _ _ _ Hok1 Hpos1 E2) as [Hok2 Hpos2].
      do 3 eexists. split; [reflexivity|]. cbv iota. cbn [dq_mem dq_cap dq_size dq_hdr dq_buf].
      destruct (upper_pow_two_pow2 capacity) as [Hp _]. pose proof (pow2_bounds _ Hp) as Hb.
      splits; auto.
      * constructor; cbn [dq_cap dq_size dq_first dq_last dq_slots]; try lia; try assumption.
        -- apply lenN_repeatN.
        -- unfold idx. replace (0 + 0 <? upper_pow_two capacity) with true by lia. reflexivity.
      * split; cbn [dq_size]; [reflexivity|]. intros j Hj. lia.
      * unfold owns. cbn [dq_hdr dq_buf dq_mem]. splits; auto; try lia.
        -- eexists. rewrite Hl2, Hl1. right. left. reflexivity.
        -- eexists. rewrite Hl2. left. reflexivity.
      * rewrite Hl2, Hl1. reflexivity.
    + pose proof (alloc_cases mem (wmul (upper_pow_two capacity) 8) a1) as C2. rewrite E2 in C2. destruct C2 as (Hl2 & Hn2 & _).
      destruct (alloc_ledger_ok _ _ _ _ _ Hok1 Hpos1 E2) as [Hok2 Hpos2].
      destruct (release_head mem (next_id a) (1 * SIZEOF_DEQUE) (live a) a2) as (a3 & Hrel & Hl3 & Hn3 & _).
      { rewrite Hl2, Hl1. reflexivity. }
      rewrite Hrel. cbn [bind]. do 3 eexists. split; [reflexivity|]. cbv iota. splits; auto; try lia.
      split.
      * rewrite Hl3. apply Hok.
      * intros x Hx. rewrite Hl3 in Hx. rewrite Hn3, Hn2, Hn1. destruct Hok as [_ Hlt]. apply Hlt in Hx. lia.
  - pose proof (alloc_cases mem (1 * SIZEOF_DEQUE) a) as C1. rewrite E1 in C1. destruct C1 as (Hl1 & Hn1 & _).
    destruct (alloc_ledger_ok _ _ _ _ _ Hok Hpos E1) as [Hok1 Hpos1].
    do 3 eexists. split; [reflexivity|]. cbv iota. splits; auto.
Qed.

Lemma upper_pow_two_fix c : pow2 c -> upper_pow_two c = c.
Proof.
  intros Hp. pose proof (pow2_bounds c Hp) as Hb. destruct Hp as (k & Hk & ->).
  destruct (upper_pow_two_spec (2 ^ k)) as (k' & Hk' & -> & Hle & Hleast); [lia|rewrite MAX_POW_TWO_val; lia|].
  assert (k' <= k) by (apply Hleast; lia).
  assert (k <= k') by (apply N.pow_le_mono_r_iff in Hle; lia).
  f_equal. lia.
Qed.

(** * Replacing the buffer block: allocate the new one, release the old one *)
Lemma swap_buffer d d' a a1 nb bytes :
  owns d a -> alloc (dq_mem d) bytes a = (Some nb, a1) ->
  dq_hdr d' = dq_hdr d -> dq_mem d' = dq_mem d -> dq_buf d' = nb ->
  exists a2, release (dq_mem d) (dq_buf d) a1 = Ok a2 /\ owns d' a2 /\
             live a2 = {| b_id := nb; b_tag := dq_mem d; b_bytes := bytes |} :: without (dq_buf d) (live a) /\
             plan a2 = tl (plan a) /\ nreq a2 = nreq a + 1 /\ limit a2 = limit a /\ nb = next_id a.
Proof.
  intros Ho Ea Hh Hm Hb.
  destruct (alloc_owns _ _ _ _ _ d Ho Ea) as (Hid & Hlive & Hok1 & Hpos1 & Hn1 & Hn2 & Hpl & Hrq & Hlim & Hnx1).
  destruct Ho as (Hok & Hpos & Hne & (n1 & H1) & (n2 & H2)).
  destruct (release_in (dq_mem d) (dq_buf d) a1 {| b_id := dq_buf d; b_tag := dq_mem d; b_bytes := n2 |} Hok1)
    as (a2 & Hrel & Hl2 & Hnx & Hli2 & Hrq2 & Hpl2 & Hok2); [rewrite Hlive; right; assumption|reflexivity|reflexivity|].
  exists a2. split; [assumption|].
  assert (Hlv : live a2 = {| b_id := nb; b_tag := dq_mem d; b_bytes := bytes |} :: without (dq_buf d) (live a)).
  { rewrite Hl2, Hlive. cbn [without filter b_id]. replace (nb =? dq_buf d) with false by lia. reflexivity. }
  splits; auto; try congruence.
  unfold owns. rewrite Hh, Hm, Hb. splits; auto; try lia.
  - exists n1. rewrite Hlv. right. apply in_without. split; [assumption|]. cbn. assumption.
  - eexists. rewrite Hlv. left. reflexivity.
Qed.

(** * trim_capacity *)
Lemma trim_refines d l a : dq_wf d -> repr d l -> owns d a ->
  exists st d' a', dq_trim d a = Ok (st, d', a') /\
    ((st = CC_OK /\ dq_wf d' /\ repr d' l /\ owns d' a' /\ same_ids d d' /\ dq_size d' = dq_size d /\
      dq_cap d' = (if dq_cap d =? dq_size d then dq_cap d else upper_pow_two (dq_size d)) /\ led_step d a d' a') \/
     (st = CC_ERR_ALLOC /\ d' = d /\ alloc_failed d a a')).
Proof.
  intros Hwf Hr Ho. pose proof (wf_cap d Hwf) as Hc. pose proof (wf_size d Hwf) as Hsz.
  unfold dq_trim, g_deque_trim_full, g_deque_trim_same.
  destruct (dq_cap d =? dq_size d) eqn:Efull.
  { do 3 eexists. split; [reflexivity|]. left. unfold same_ids. splits; auto. left. auto. }
  destruct (upper_pow_two_pow2 (dq_size d)) as [Hp Hge]. rewrite MAX_POW_TWO_val in Hge. specialize (Hge ltac:(lia)).
  pose proof (pow2_bounds _ Hp) as Hb.
  set (ns := upper_pow_two (dq_size d)) in *.
  destruct (ns =? dq_cap d) eqn:Esame.
  { do 3 eexists. split; [reflexivity|]. left. unfold same_ids. splits; auto; [lia|left; auto]. }
  destruct (alloc (dq_mem d) (wmul 8 ns) a) as [[nb|] a1] eqn:Ea.
  - destruct (copy_buffer_spec d l (repeatN None ns) Hwf Hr) as (buff & Hcb & Hlb & Hgb); [rewrite lenN_repeatN; lia|].
    rewrite Hcb. cbn [bind]. rewrite lenN_repeatN in Hlb.
    set (d' := {| dq_size := dq_size d; dq_cap := ns; dq_first := 0; dq_last := N.land (dq_size d) (wsub ns 1);
                  dq_slots := buff; dq_hdr := dq_hdr d; dq_buf := nb; dq_mem := dq_mem d |}).
    destruct (swap_buffer d d' a a1 nb _ Ho Ea eq_refl eq_refl eq_refl) as (a2 & Hrel & Ho' & Hlv2 & _ & _ & _ & Hnb).
    rewrite Hrel. cbn [bind]. exists CC_OK, d', a2. split; [reflexivity|]. left.
    destruct Hr as [Hl Hr]. unfold same_ids. splits; auto; [| |right; eexists; split; [exact Hlv2|exact Hnb]].
    + constructor; cbn [d' dq_cap dq_size dq_first dq_last dq_slots]; try lia; try assumption.
      rewrite land_mask by assumption. apply (mod_idx 0 (dq_size d) ns); lia.
    + split; cbn [d' dq_cap dq_size dq_first dq_slots]; [assumption|]. intros j Hj.
      unfold idx. replace (0 + j <? ns) with true by lia. rewrite Hgb, N.add_0_l.
      replace (j <? dq_size d) with true by lia. reflexivity.
  - destruct (alloc_none_owns _ _ _ _ d Ho Ea) as (Hl & Ho' & _).
    do 3 eexists. split; [reflexivity|]. right. unfold alloc_failed. auto.
Qed.

(** * copy_shallow / copy_deep *)
Lemma getN_map_N (f : N -> N) (l : list N) j : getN (map f l) j = option_map f (getN l j).
Proof. unfold getN. apply nth_error_map. Qed.

Lemma copy_cp_loop_spec f d l : dq_wf d -> repr d l ->
  forall k i buff, i + N.of_nat k = dq_size d -> dq_size d <= lenN buff ->
  exists out, copy_cp_loop f d k i buff = Ok out /\ lenN out = lenN buff /\
              forall j, getN out j = if (i <=? j) && (j <? dq_size d) then Some (option_map f (getN l j)) else getN buff j.
Proof.
  intros Hwf [Hl Hr]. pose proof (wf_cap d Hwf) as Hc. pose proof (wf_size d Hwf) as Hsz.
  induction k as [|k IH]; intros i buff Hi Hb.
  - exists buff. split; [reflexivity|]. split; [reflexivity|]. intros j.
    replace ((i <=? j) && (j <? dq_size d)) with false by lia. reflexivity.
  - cbn [copy_cp_loop]. rewrite wf_phys by (try assumption; lia).
    destruct (getN_lt l i) as [v Hv]; [lia|].
    rewrite (rdv_ok _ _ v) by (rewrite Hr by lia; rewrite Hv; reflexivity). cbn [bind].
    destruct (wr_ok buff i (Some (f v))) as (b' & Hw & Hu); [lia|]. rewrite Hw. cbn [bind].
    rewrite wadd_small by (unfold W; lia).
    destruct (IH (i + 1) b') as (out & Ho & Hlo & Hgo); [lia|erewrite lenN_updN by eassumption; lia|].
    exists out. split; [assumption|]. split; [erewrite Hlo, lenN_updN by eassumption; reflexivity|].
    intros j. rewrite Hgo, (getN_updN _ _ _ _ _ Hu).
    destruct (j =? i) eqn:Eji.
    + assert (j = i) by lia. subst j. replace ((i + 1 <=? i) && (i <? dq_size d)) with false by lia.
      replace ((i <=? i) && (i <? dq_size d)) with true by lia. rewrite Hv. reflexivity.
    + destruct ((i + 1 <=? j) && (j <? dq_size d)) eqn:E1.
      * replace ((i <=? j) && (j <? dq_size d)) with true by lia. reflexivity.
      * replace ((i <=? j) && (j <? dq_size d)) with false by lia. reflexivity.
Qed.

Definition copy_image (cp : option (N -> N)) (l : list N) : list N := match cp with None => l | Some f => map f l end.

Lemma copy_spec d l cp a : dq_wf d -> repr d l -> owns d a ->
  exists st r a', dq_copy d cp a = Ok (st, r, a') /\
    match r with
    | Some d2 => st = CC_OK /\ dq_wf d2 /\ repr d2 (copy_image cp l) /\ owns d2 a' /\ owns d a' /\
                 dq_mem d2 = dq_mem d /\ dq_cap d2 = dq_cap d /\ dq_size d2 = dq_size d /\ dq_first d2 = 0 /\
                 live a' = {| b_id := dq_buf d2; b_tag := dq_mem d; b_bytes := wmul (dq_cap d) 8 |} ::
                           {| b_id := dq_hdr d2; b_tag := dq_mem d; b_bytes := SIZEOF_DEQUE |} :: live a
    | None => st = CC_ERR_ALLOC /\ live a' = live a /\ owns d a'
    end.
Proof.
  intros Hwf Hr Ho. pose proof (wf_cap d Hwf) as Hc. pose proof (wf_size d Hwf) as Hsz. unfold dq_copy.
  destruct (alloc (dq_mem d) SIZEOF_DEQUE a) as [[h|] a1] eqn:E1.
  - destruct (alloc_owns _ _ _ _ _ d Ho E1) as (-> & Hl1 & Hok1 & Hpos1 & Hh1 & Hh2 & _ & _ & _ & Hnx1).
    assert (Ho1 : owns d a1).
    { destruct Ho as (Hok & Hpos & Hne & (n1 & H1) & (n2 & H2)). unfold owns. rewrite Hl1. splits; auto; eexists; right; eassumption. }
    destruct (alloc (dq_mem d) (wmul (dq_cap d) 8) a1) as [[b|] a2] eqn:E2.
    + destruct (alloc_owns _ _ _ _ _ d Ho1 E2) as (-> & Hl2 & Hok2 & Hpos2 & Hb1 & Hb2 & _).
      assert (Ho2 : owns d a2).
      { destruct Ho1 as (_ & _ & Hne & (n1 & H1) & (n2 & H2)). unfold owns. rewrite Hl2. splits; auto; eexists; right; eassumption. }
      assert (Hcopy : exists buff, dq_copy_buffer d (repeatN None (dq_cap d)) cp = Ok buff /\ lenN buff = dq_cap d /\
                        forall j, j < dq_size d -> getN buff j = Some (getN (copy_image cp l) j)).
      { destruct cp as [f|]; cbn [copy_image dq_copy_buffer].
        - destruct (copy_cp_loop_spec f d l Hwf Hr (N.to_nat (dq_size d)) 0 (repeatN None (dq_cap d))) as (out & Hco & Hlo & Hgo);
            [lia|rewrite lenN_repeatN; lia|].
          exists out. split; [assumption|]. rewrite lenN_repeatN in Hlo. split; [assumption|].
          intros j Hj. rewrite Hgo. replace ((0 <=? j) && (j <? dq_size d)) with true by lia. rewrite getN_map_N. reflexivity.
        - destruct (copy_buffer_spec d l (repeatN None (dq_cap d)) Hwf Hr) as (out & Hco & Hlo & Hgo); [rewrite lenN_repeatN; lia|].
          exists out. split; [assumption|]. rewrite lenN_repeatN in Hlo. split; [assumption|].
          intros j Hj. rewrite Hgo. replace (j <? dq_size d) with true by lia. reflexivity. }
      destruct Hcopy as (buff & Hcb & Hlb & Hgb). rewrite Hcb. cbn [bind].
      do 3 eexists. split; [reflexivity|]. cbv iota. cbn [dq_mem dq_cap dq_size dq_first dq_hdr dq_buf].
      destruct Hr as [Hl Hr]. splits; auto.
      * constructor; cbn [dq_cap dq_size dq_first dq_last dq_slots]; try lia; try apply Hwf.
        rewrite land_mask by apply Hwf. apply (mod_idx 0 (dq_size d) (dq_cap d)); lia.
      * split; cbn [dq_cap dq_size dq_first dq_slots].
        -- destruct cp; cbn [copy_image]; [unfold lenN in *; rewrite map_length|]; assumption.
        -- intros j Hj. unfold idx. replace (0 + j <? dq_cap d) with true by lia. rewrite N.add_0_l. apply Hgb. assumption.
      * unfold owns. cbn [dq_hdr dq_buf dq_mem]. rewrite Hl2, Hl1. splits; auto; try lia.
        -- eexists. right. left. reflexivity.
        -- eexists. left. reflexivity.
      * rewrite Hl2, Hl1. reflexivity.
    + destruct (alloc_none_owns _ _ _ _ d Ho1 E2) as (Hl2 & Ho2 & _ & _ & _ & Hn2).
      destruct (release_head (dq_mem d) (next_id a) SIZEOF_DEQUE (live a) a2) as (a3 & Hrel & Hl3 & Hn3 & _).
      { rewrite Hl2, Hl1. reflexivity. }
      rewrite Hrel. cbn [bind]. do 3 eexists. split; [reflexivity|]. cbv iota. splits; auto.
      destruct Ho as (Hok & Hpos & Hne & H1 & H2). destruct Ho2 as (_ & Hpos2 & _).
      unfold owns. rewrite Hl3. splits; auto; [|lia].
      destruct Hok as [Hnd Hlt]. split; rewrite Hl3; [assumption|]. intros x Hx. apply Hlt in Hx. lia.
  - destruct (alloc_none_owns _ _ _ _ d Ho E1) as (Hl & Ho' & _).
    do 3 eexists. split; [reflexivity|]. cbv iota. auto.
Qed.
