(** Executable model of src/cc_deque.c (CC_Deque) and of the adapter src/cc_queue.c (CC_Queue).
    Definitions only.  Every function follows the control flow of its C namesake: same buffer
    accesses, same index arithmetic (64-bit wrap-around written out), same branch structure
    (conditions come from Generated/Guards.v), same allocation sites and status codes.
    cc_deque_add_at is transcribed with the branches that are wrong in the C (DESIGN.md D17). *)
From CC Require Import Base.Prelude Base.Alloc Generated.Status Generated.Constants Generated.Guards.
Local Open Scope N_scope.

(** A buffer slot: [None] = never written since the block was obtained with mem_alloc. *)
Definition slot := option N.

Record deque := {
  dq_size : N; dq_cap : N; dq_first : N; dq_last : N;
  dq_slots : list slot;          (* length = number of allocated slots *)
  dq_hdr : N; dq_buf : N;        (* ledger ids of the header block and of the buffer block *)
  dq_mem : tag;                  (* which allocator family the container was configured with *)
}.

Definition SIZEOF_DEQUE : N := 64.   (* 4 size_t + 1 pointer + 3 function pointers *)
Definition SIZEOF_QUEUE : N := 32.   (* 1 pointer + 3 function pointers *)

(** ** Checked memory primitives *)
(** raw slot copy (memcpy/memmove/temporaries never look at the value) *)
Definition rd (b : list slot) (i : N) : res slot := of_opt OutOfBounds (getN b i).
(** a value handed to the caller or to a callback: an unwritten slot is a fault *)
Definition rdv (b : list slot) (i : N) : res N := do s <- rd b i; of_opt Uninit s.
Definition wr (b : list slot) (i : N) (s : slot) : res (list slot) := of_opt OutOfBounds (updN b i s).
(** memcpy(dst + doff, src + soff, n slots) *)
Definition blit (src : list slot) (soff : N) (dst : list slot) (doff n : N) : res (list slot) :=
  if (soff + n <=? lenN src) && (doff + n <=? lenN dst) then
    Ok (firstnN doff dst ++ firstnN n (skipnN soff src) ++ skipnN (doff + n) dst)
  else Fault OutOfBounds.
(** memmove(&b[dst], &b[src], n slots): the source range is read before anything is written *)
Definition mv (b : list slot) (dst src n : N) : res (list slot) := blit b src b dst n.

(** [deque->capacity - 1] *)
Definition mask (d : deque) : N := wsub (dq_cap d) 1.
(** [(deque->first + i) & (deque->capacity - 1)] *)
Definition phys (d : deque) (i : N) : N := N.land (wadd (dq_first d) i) (mask d).

Definition set_layout (d : deque) (size first last : N) (slots : list slot) : deque :=
  {| dq_size := size; dq_cap := dq_cap d; dq_first := first; dq_last := last; dq_slots := slots;
     dq_hdr := dq_hdr d; dq_buf := dq_buf d; dq_mem := dq_mem d |}.

(** ** upper_pow_two: the or-shift cascade.  The [>> 32] step exists only under ARCH_64, i.e. when
    MAX_POW_TWO (taken from the source by the translator) exceeds 2^32. *)
Definition smear (n k : N) : N := N.lor n (N.shiftr n k).
Definition upper_pow_two (n : N) : N :=
  if g_deque_upt_max n then MAX_POW_TWO else
  if g_deque_upt_zero n then 1 else
  let n := wsub n 1 in
  let n := smear n 1 in
  let n := smear n 2 in
  let n := smear n 4 in
  let n := smear n 8 in
  let n := smear n 16 in
  let n := if 4294967296 <? MAX_POW_TWO then smear n 32 else n in
  wadd n 1.

(** ** Construction and destruction *)
Definition dq_new_conf (mem : tag) (capacity : N) (a : alloc_st) : res (stat * option deque * alloc_st) :=
  match alloc mem (1 * SIZEOF_DEQUE) a with                      (* conf->mem_calloc(1, sizeof(CC_Deque)) *)
  | (None, a1) => Ok (CC_ERR_ALLOC, None, a1)
  | (Some h, a1) =>
      let cap := upper_pow_two capacity in
      match alloc mem (wmul cap 8) a1 with                       (* conf->mem_alloc(capacity * sizeof(void* )) *)
      | (None, a2) => do a3 <- release mem h a2; Ok (CC_ERR_ALLOC, None, a3)
      | (Some b, a2) =>
          Ok (CC_OK, Some {| dq_size := 0; dq_cap := cap; dq_first := 0; dq_last := 0;   (* last: calloc'ed header *)
                             dq_slots := repeatN None cap; dq_hdr := h; dq_buf := b; dq_mem := mem |}, a2)
      end
  end.

Definition dq_destroy (d : deque) (a : alloc_st) : res alloc_st :=
  do a1 <- release (dq_mem d) (dq_buf d) a; release (dq_mem d) (dq_hdr d) a1.

(** ** copy_buffer *)
Fixpoint copy_cp_loop (cp : N -> N) (d : deque) (n : nat) (i : N) (buff : list slot) : res (list slot) :=
  match n with
  | O => Ok buff
  | S k => do v <- rdv (dq_slots d) (phys d i);
           do b' <- wr buff i (Some (cp v));
           copy_cp_loop cp d k (wadd i 1) b'
  end.

Definition dq_copy_buffer (d : deque) (buff : list slot) (cp : option (N -> N)) : res (list slot) :=
  match cp with
  | None =>
      if g_deque_copy_empty (dq_size d) then Ok buff else
      if g_deque_copy_contig (dq_last d) (dq_first d) then
        blit (dq_slots d) (dq_first d) buff 0 (dq_size d)
      else
        let l := dq_last d in
        let e := wsub (dq_cap d) (dq_first d) in
        do b1 <- blit (dq_slots d) (dq_first d) buff 0 e;
        blit (dq_slots d) 0 b1 e l
  | Some f => copy_cp_loop f d (N.to_nat (dq_size d)) 0 buff
  end.

(** ** expand_capacity *)
Definition dq_expand (d : deque) (a : alloc_st) : res (stat * deque * alloc_st) :=
  if g_deque_expand_max (dq_cap d) then Ok (CC_ERR_MAX_CAPACITY, d, a) else
  let nc := (N.shiftl (dq_cap d) 1) mod W in
  match alloc (dq_mem d) (nc * 8) a with                         (* mem_calloc(new_capacity, sizeof(void* )) *)
  | (None, a1) => Ok (CC_ERR_ALLOC, d, a1)
  | (Some nb, a1) =>
      do buff <- dq_copy_buffer d (repeatN (Some 0) nc) None;
      do a2 <- release (dq_mem d) (dq_buf d) a1;
      Ok (CC_OK, {| dq_size := dq_size d; dq_cap := nc; dq_first := 0; dq_last := dq_size d; dq_slots := buff;
                    dq_hdr := dq_hdr d; dq_buf := nb; dq_mem := dq_mem d |}, a2)
  end.

(** [if (<full> && expand_capacity(deque) != CC_OK) return CC_ERR_ALLOC;] - [true] = go on *)
Definition grow_if (full : bool) (d : deque) (a : alloc_st) : res (bool * deque * alloc_st) :=
  if full then do (st, d1, a1) <- dq_expand d a; Ok (stat_eqb st CC_OK, d1, a1)
  else Ok (true, d, a).

(** ** Adding *)
Definition dq_add_first (d : deque) (x : N) (a : alloc_st) : res (stat * deque * alloc_st) :=
  do (ok, d, a) <- grow_if (g_deque_add_first_full (dq_size d) (dq_cap d)) d a;
  if negb ok then Ok (CC_ERR_ALLOC, d, a) else
  let first := N.land (wsub (dq_first d) 1) (mask d) in
  do b <- wr (dq_slots d) first (Some x);
  Ok (CC_OK, set_layout d (wadd (dq_size d) 1) first (dq_last d) b, a).

Definition dq_add_last (d : deque) (x : N) (a : alloc_st) : res (stat * deque * alloc_st) :=
  do (ok, d, a) <- grow_if (g_deque_add_last_full (dq_size d) (dq_cap d)) d a;
  if negb ok then Ok (CC_ERR_ALLOC, d, a) else
  do b <- wr (dq_slots d) (dq_last d) (Some x);
  Ok (CC_OK, set_layout d (wadd (dq_size d) 1) (dq_first d) (N.land (wadd (dq_last d) 1) (mask d)) b, a).

Definition dq_add_at (d : deque) (x index : N) (a : alloc_st) : res (stat * deque * alloc_st) :=
  if g_deque_add_at_range index (dq_size d) then Ok (CC_ERR_OUT_OF_RANGE, d, a) else
  do (ok, d, a) <- grow_if (g_deque_add_at_full (dq_size d) (dq_cap d)) d a;
  if negb ok then Ok (CC_ERR_ALLOC, d, a) else
  let c := mask d in
  let l := N.land (dq_last d) c in
  let f := N.land (dq_first d) c in
  let p := N.land (wadd (dq_first d) index) c in
  if g_deque_add_at_zero index then dq_add_first d x a else
  if g_deque_add_at_lastslot index c then dq_add_last d x a else
  let b := dq_slots d in
  if g_deque_add_at_front index (dq_size d) then
    do b1 <- (if g_deque_add_at_front_wrap p f then
                let r_move := if g_deque_add_at_f_nz f then wadd (wsub c f) 1 else 0 in
                let l_move := p in
                do e_first <- rd b 0;
                do b1 <- (if g_deque_add_at_f_nz f then mv b (wsub f 1) f r_move else Ok b);
                do b2 <- (if g_deque_add_at_p_nz p then mv b1 0 1 l_move else Ok b1);
                wr b2 c e_first
              else mv b (wsub f 1) f index);
    do b2 <- wr b1 p (Some x);
    Ok (CC_OK, set_layout d (wadd (dq_size d) 1) (N.land (wsub (dq_first d) 1) c) (dq_last d) b2, a)
  else
    do b1 <- (if g_deque_add_at_back_wrap p l c then
                do e_last <- rd b c;
                do b1 <- (if g_deque_add_at_p_ne_c p c then mv b (wadd p 1) p (wsub c p) else Ok b);
                do b2 <- (if g_deque_add_at_l_ne_c l c then mv b1 1 0 (wadd l 1) else Ok b1);
                wr b2 0 e_last
              else mv b (wadd p 1) p (wsub (dq_size d) index));
    do b2 <- wr b1 p (Some x);
    Ok (CC_OK, set_layout d (wadd (dq_size d) 1) (dq_first d) (N.land (wadd (dq_last d) 1) c) b2, a).

(** Branch tags of cc_deque_add_at, computed on the layout the shifting code sees (after growth). *)
Inductive add_at_tag := TFirst0 | TLastSlot | TFrontWrap | TFrontShift | TBackWrap | TBackShift.
Definition add_at_branch (cap first last size index : N) : add_at_tag :=
  let c := wsub cap 1 in
  let l := N.land last c in
  let f := N.land first c in
  let p := N.land (wadd first index) c in
  if g_deque_add_at_zero index then TFirst0 else
  if g_deque_add_at_lastslot index c then TLastSlot else
  if g_deque_add_at_front index size then
    (if g_deque_add_at_front_wrap p f then TFrontWrap else TFrontShift)
  else (if g_deque_add_at_back_wrap p l c then TBackWrap else TBackShift).
(** The branches that insert correctly: index 0, the plain right shift, and the wrapped right shift
    when at least two slots are free (with exactly one free slot its [l + 1]-slot memmove runs over
    the first element, or - when [last == capacity - 1] - slot 0 receives the unused last slot). *)
Definition add_at_branch_ok (d : deque) (index : N) : bool :=
  let '(cap, first, last) :=
    if g_deque_add_at_full (dq_size d) (dq_cap d) then ((N.shiftl (dq_cap d) 1) mod W, 0, dq_size d)
    else (dq_cap d, dq_first d, dq_last d) in
  match add_at_branch cap first last (dq_size d) index with
  | TFirst0 | TLastSlot | TBackShift => true
  | TBackWrap => dq_size d + 1 <? cap
  | TFrontWrap | TFrontShift => false
  end.

(** ** Access and replacement *)
Definition dq_replace_at (d : deque) (x index : N) : res (stat * option N * deque) :=
  if g_deque_replace_at_range index (dq_size d) then Ok (CC_ERR_OUT_OF_RANGE, None, d) else
  let i := phys d index in
  do old <- rdv (dq_slots d) i;
  do b <- wr (dq_slots d) i (Some x);
  Ok (CC_OK, Some old, set_layout d (dq_size d) (dq_first d) (dq_last d) b).

Definition dq_get_at (d : deque) (index : N) : res (stat * option N) :=
  if g_deque_get_at_range index (dq_size d) then Ok (CC_ERR_OUT_OF_RANGE, None) else
  do v <- rdv (dq_slots d) (phys d index); Ok (CC_OK, Some v).

Definition dq_get_first (d : deque) : res (stat * option N) :=
  if g_deque_get_first_empty (dq_size d) then Ok (CC_ERR_OUT_OF_RANGE, None) else
  do v <- rdv (dq_slots d) (dq_first d); Ok (CC_OK, Some v).

Definition dq_get_last (d : deque) : res (stat * option N) :=
  if g_deque_get_last_empty (dq_size d) then Ok (CC_ERR_OUT_OF_RANGE, None) else
  do v <- rdv (dq_slots d) (N.land (wsub (dq_last d) 1) (mask d)); Ok (CC_OK, Some v).

(** ** Removal *)
Definition dq_remove_first (d : deque) : res (stat * option N * deque) :=
  if g_deque_remove_first_empty (dq_size d) then Ok (CC_ERR_OUT_OF_RANGE, None, d) else
  do v <- rdv (dq_slots d) (dq_first d);
  Ok (CC_OK, Some v, set_layout d (wsub (dq_size d) 1) (N.land (wadd (dq_first d) 1) (mask d)) (dq_last d) (dq_slots d)).

Definition dq_remove_last (d : deque) : res (stat * option N * deque) :=
  if g_deque_remove_last_empty (dq_size d) then Ok (CC_ERR_OUT_OF_RANGE, None, d) else
  let last := N.land (wsub (dq_last d) 1) (mask d) in
  do v <- rdv (dq_slots d) last;
  Ok (CC_OK, Some v, set_layout d (wsub (dq_size d) 1) (dq_first d) last (dq_slots d)).

Definition dq_remove_at (d : deque) (index : N) : res (stat * option N * deque) :=
  if g_deque_remove_at_range index (dq_size d) then Ok (CC_ERR_OUT_OF_RANGE, None, d) else
  let c := mask d in
  let l := N.land (dq_last d) c in
  let f := N.land (dq_first d) c in
  let p := N.land (wadd (dq_first d) index) c in
  let b := dq_slots d in
  do removed <- rdv b p;
  if g_deque_remove_at_zero index then dq_remove_first d else
  if g_deque_remove_at_lastslot index c then dq_remove_last d else
  if g_deque_remove_at_front index (dq_size d) then
    do b1 <- (if g_deque_remove_at_front_wrap p f then
                do e <- rd b c;
                do b1 <- (if g_deque_remove_at_f_ne_c f c then mv b (wadd f 1) f (wsub c f) else Ok b);
                do b2 <- (if g_deque_remove_at_p_nz p then mv b1 1 0 p else Ok b1);
                wr b2 0 e
              else mv b (wadd f 1) f index);
    Ok (CC_OK, Some removed, set_layout d (wsub (dq_size d) 1) (N.land (wadd (dq_first d) 1) c) (dq_last d) b1)
  else
    do b1 <- (if g_deque_remove_at_back_wrap p l then
                do e <- rd b 0;
                do b1 <- (if g_deque_remove_at_p_ne_c p c then mv b p (wadd p 1) (wsub c p) else Ok b);
                do b2 <- (if g_deque_remove_at_l_gt1 l then mv b1 0 1 (wsub l 1) else Ok b1);
                wr b2 c e
              else mv b p (wadd p 1) (wsub l p));
    Ok (CC_OK, Some removed, set_layout d (wsub (dq_size d) 1) (dq_first d) (N.land (wsub (dq_last d) 1) c) b1).

Definition dq_remove_all (d : deque) : deque := set_layout d 0 0 0 (dq_slots d).

(** ** Searching loops.  [fuel] starts at [size]; running out is unreachable (proved). *)
Fixpoint index_of_loop (d : deque) (e : N) (fuel : nat) (i : N) : res (option N) :=
  if g_deque_index_of_loop i (dq_size d) then
    match fuel with
    | O => Fault OutOfFuel
    | S k => do v <- rdv (dq_slots d) (phys d i);
             if v =? e then Ok (Some i) else index_of_loop d e k (wadd i 1)
    end
  else Ok None.
Definition dq_index_of (d : deque) (e : N) : res (stat * option N) :=
  do r <- index_of_loop d e (N.to_nat (dq_size d)) 0;
  match r with Some i => Ok (CC_OK, Some i) | None => Ok (CC_ERR_OUT_OF_RANGE, None) end.

Fixpoint contains_loop (eq : N -> N -> bool) (d : deque) (e : N) (fuel : nat) (i o : N) : res N :=
  if g_deque_contains_loop i (dq_size d) then
    match fuel with
    | O => Fault OutOfFuel
    | S k => do v <- rdv (dq_slots d) (phys d i);
             contains_loop eq d e k (wadd i 1) (if eq v e then wadd o 1 else o)
    end
  else Ok o.
Definition dq_contains (d : deque) (e : N) : res N := contains_loop N.eqb d e (N.to_nat (dq_size d)) 0 0.
(** cc_deque_contains_value: same loop, [cmp(buffer[p], element) == 0] *)
Definition dq_contains_value (cmp0 : N -> N -> bool) (d : deque) (e : N) : res N :=
  contains_loop cmp0 d e (N.to_nat (dq_size d)) 0 0.

(** cc_deque_foreach: the values handed to [fn], in call order *)
Fixpoint foreach_loop (d : deque) (fuel : nat) (i : N) (acc : list N) : res (list N) :=
  if g_deque_foreach_loop i (dq_size d) then
    match fuel with
    | O => Fault OutOfFuel
    | S k => do v <- rdv (dq_slots d) (phys d i); foreach_loop d k (wadd i 1) (acc ++ [v])
    end
  else Ok acc.
Definition dq_foreach (d : deque) : res (list N) := foreach_loop d (N.to_nat (dq_size d)) 0 [].

Definition dq_remove (d : deque) (e : N) : res (stat * option N * deque) :=
  do (st, idx) <- dq_index_of d e;
  match idx with
  | Some i => dq_remove_at d i
  | None => Ok (st, None, d)
  end.

(** cc_deque_remove_all_cb / cc_deque_destroy_cb *)
Definition dq_remove_all_cb (d : deque) : res (list N * deque) :=
  do l <- dq_foreach d; Ok (l, dq_remove_all d).
Definition dq_destroy_cb (d : deque) (a : alloc_st) : res (list N * alloc_st) :=
  do (l, d1) <- dq_remove_all_cb d; do a1 <- dq_destroy d1 a; Ok (l, a1).

(** ** Copies, trim *)
Definition dq_copy (d : deque) (cp : option (N -> N)) (a : alloc_st) : res (stat * option deque * alloc_st) :=
  match alloc (dq_mem d) SIZEOF_DEQUE a with                      (* deque->mem_alloc(sizeof(CC_Deque)) *)
  | (None, a1) => Ok (CC_ERR_ALLOC, None, a1)
  | (Some h, a1) =>
      match alloc (dq_mem d) (wmul (dq_cap d) 8) a1 with          (* deque->mem_alloc(capacity * sizeof(void* )) *)
      | (None, a2) => do a3 <- release (dq_mem d) h a2; Ok (CC_ERR_ALLOC, None, a3)
      | (Some b, a2) =>
          do buff <- dq_copy_buffer d (repeatN None (dq_cap d)) cp;
          Ok (CC_OK, Some {| dq_size := dq_size d; dq_cap := dq_cap d; dq_first := 0;
                             dq_last := N.land (dq_size d) (wsub (dq_cap d) 1); dq_slots := buff;
                             dq_hdr := h; dq_buf := b; dq_mem := dq_mem d |}, a2)
      end
  end.
Definition dq_copy_shallow (d : deque) (a : alloc_st) := dq_copy d None a.
Definition dq_copy_deep (d : deque) (cp : N -> N) (a : alloc_st) := dq_copy d (Some cp) a.

Definition dq_trim (d : deque) (a : alloc_st) : res (stat * deque * alloc_st) :=
  if g_deque_trim_full (dq_size d) (dq_cap d) then Ok (CC_OK, d, a) else
  let new_size := upper_pow_two (dq_size d) in
  if g_deque_trim_same new_size (dq_cap d) then Ok (CC_OK, d, a) else
  match alloc (dq_mem d) (wmul 8 new_size) a with                 (* mem_alloc(sizeof(void* ) * new_size) *)
  | (None, a1) => Ok (CC_ERR_ALLOC, d, a1)
  | (Some nb, a1) =>
      do buff <- dq_copy_buffer d (repeatN None new_size) None;
      do a2 <- release (dq_mem d) (dq_buf d) a1;
      Ok (CC_OK, {| dq_size := dq_size d; dq_cap := new_size; dq_first := 0;
                    dq_last := N.land (dq_size d) (wsub new_size 1); dq_slots := buff;
                    dq_hdr := dq_hdr d; dq_buf := nb; dq_mem := dq_mem d |}, a2)
  end.

(** ** reverse *)
Fixpoint reverse_loop (fuel : nat) (first c s : N) (b : list slot) (i j : N) : res (list slot) :=
  if g_deque_reverse_loop i s then
    match fuel with
    | O => Fault OutOfFuel
    | S k =>
        let f := N.land (wadd first i) c in
        let l := N.land (wadd first j) c in
        do tmp <- rd b f;
        do vl <- rd b l;
        do b1 <- wr b f vl;
        do b2 <- wr b1 l tmp;
        reverse_loop k first c s b2 (wadd i 1) (wsub j 1)
    end
  else Ok b.
Definition dq_reverse (d : deque) : res deque :=
  do b <- reverse_loop (N.to_nat (dq_size d)) (dq_first d) (mask d) (dq_size d) (dq_slots d) 0 (wsub (dq_size d) 1);
  Ok (set_layout d (dq_size d) (dq_first d) (dq_last d) b).

(** ** filter_mut / filter *)
Fixpoint filter_mut_loop (pred : N -> bool) (c : N) (fuel : nat) (d : deque) (i : N) : res deque :=
  if i <? dq_size d then
    match fuel with
    | O => Fault OutOfFuel
    | S k =>
        do v <- rdv (dq_slots d) (N.land (wadd (dq_first d) i) c);
        if pred v then filter_mut_loop pred c k d (wadd i 1)
        else do (_, d') <- dq_remove_at d i; filter_mut_loop pred c k d' i
    end
  else Ok d.
Definition dq_filter_mut (d : deque) (pred : N -> bool) : res (stat * deque) :=
  if dq_size d =? 0 then Ok (CC_ERR_OUT_OF_RANGE, d) else
  do d' <- filter_mut_loop pred (mask d) (N.to_nat (dq_size d)) d 0; Ok (CC_OK, d').

Fixpoint filter_loop (pred : N -> bool) (d : deque) (n : nat) (i : N) (f : deque) (a : alloc_st)
  : res (stat * option deque * alloc_st) :=
  match n with
  | O => Ok (CC_OK, Some f, a)
  | S k =>
      do v <- rdv (dq_slots d) (phys d i);
      if pred v then
        do (st, f', a') <- dq_add_last f v a;
        if stat_eqb st CC_OK then filter_loop pred d k (wadd i 1) f' a'
        else do a'' <- dq_destroy f' a'; Ok (st, None, a'')
      else filter_loop pred d k (wadd i 1) f a
  end.
Definition dq_filter (d : deque) (pred : N -> bool) (a : alloc_st) : res (stat * option deque * alloc_st) :=
  if dq_size d =? 0 then Ok (CC_ERR_OUT_OF_RANGE, None, a) else
  do (st, r, a1) <- dq_new_conf (dq_mem d) (dq_cap d) a;
  match r with
  | None => Ok (st, None, a1)
  | Some f => filter_loop pred d (N.to_nat (dq_size d)) 0 f a1
  end.

(** ** Iterator *)
Record dq_iter := { it_index : N; it_last_removed : bool }.
Definition dq_iter_init : dq_iter := {| it_index := 0; it_last_removed := false |}.

Definition dq_iter_next (d : deque) (it : dq_iter) : res (stat * option N * dq_iter) :=
  if g_deque_iter_next_end (it_index it) (dq_size d) then Ok (CC_ITER_END, None, it) else
  do v <- rdv (dq_slots d) (phys d (it_index it));
  Ok (CC_OK, Some v, {| it_index := wadd (it_index it) 1; it_last_removed := false |}).

Definition dq_iter_remove (d : deque) (it : dq_iter) : res (stat * option N * deque * dq_iter) :=
  if it_last_removed it then Ok (CC_ERR_VALUE_NOT_FOUND, None, d, it) else
  do (st, out, d') <- dq_remove_at d (wsub (it_index it) 1);
  if stat_eqb st CC_OK then Ok (st, out, d', {| it_index := wsub (it_index it) 1; it_last_removed := true |})
  else Ok (st, None, d', it).

Definition dq_iter_add (d : deque) (it : dq_iter) (x : N) (a : alloc_st) : res (stat * deque * dq_iter * alloc_st) :=
  do (st, d', a') <- dq_add_at d x (it_index it) a;
  if stat_eqb st CC_OK
  then Ok (st, d', {| it_index := wadd (it_index it) 1; it_last_removed := it_last_removed it |}, a')
  else Ok (st, d', it, a').

Definition dq_iter_replace (d : deque) (it : dq_iter) (x : N) : res (stat * option N * deque) :=
  dq_replace_at d x (wsub (it_index it) 1).

Definition dq_iter_index (it : dq_iter) : N := wsub (it_index it) 1.

(** ** Zip iterator over two deques *)
Definition dq_zip_next (d1 d2 : deque) (it : dq_iter) : res (stat * option (N * N) * dq_iter) :=
  if g_deque_zip_next_end1 (it_index it) (dq_size d1) then Ok (CC_ITER_END, None, it) else
  if g_deque_zip_next_end2 (it_index it) (dq_size d2) then Ok (CC_ITER_END, None, it) else
  do v1 <- rdv (dq_slots d1) (phys d1 (it_index it));
  do v2 <- rdv (dq_slots d2) (phys d2 (it_index it));
  Ok (CC_OK, Some (v1, v2), {| it_index := wadd (it_index it) 1; it_last_removed := false |}).

Definition dq_zip_add (d1 d2 : deque) (it : dq_iter) (e1 e2 : N) (a : alloc_st)
  : res (stat * deque * deque * dq_iter * alloc_st) :=
  if (dq_size d1 <=? it_index it) || (dq_size d2 <=? it_index it) then Ok (CC_ERR_OUT_OF_RANGE, d1, d2, it, a) else
  (* (cap1 == size1 && expand(d1) != OK) || (cap2 == size2 && expand(d2) != OK), left to right *)
  do (ok1, d1, a) <- grow_if (dq_cap d1 =? dq_size d1) d1 a;
  if negb ok1 then Ok (CC_ERR_ALLOC, d1, d2, it, a) else
  do (ok2, d2, a) <- grow_if (dq_cap d2 =? dq_size d2) d2 a;
  if negb ok2 then Ok (CC_ERR_ALLOC, d1, d2, it, a) else
  do (_, d1, a) <- dq_add_at d1 e1 (it_index it) a;
  do (_, d2, a) <- dq_add_at d2 e2 (it_index it) a;
  Ok (CC_OK, d1, d2, {| it_index := wadd (it_index it) 1; it_last_removed := it_last_removed it |}, a).

Definition dq_zip_remove (d1 d2 : deque) (it : dq_iter) : res (stat * option (N * N) * deque * deque * dq_iter) :=
  if it_last_removed it then Ok (CC_ERR_VALUE_NOT_FOUND, None, d1, d2, it) else
  let i := wsub (it_index it) 1 in
  if (dq_size d1 <=? i) || (dq_size d2 <=? i) then Ok (CC_ERR_OUT_OF_RANGE, None, d1, d2, it) else
  do (_, o1, d1') <- dq_remove_at d1 i;
  do (_, o2, d2') <- dq_remove_at d2 i;
  let outs := match o1, o2 with Some x, Some y => Some (x, y) | _, _ => None end in
  Ok (CC_OK, outs, d1', d2', {| it_index := i; it_last_removed := true |}).

Definition dq_zip_replace (d1 d2 : deque) (it : dq_iter) (e1 e2 : N) : res (stat * option (N * N) * deque * deque) :=
  let i := wsub (it_index it) 1 in
  if (dq_size d1 <=? i) || (dq_size d2 <=? i) then Ok (CC_ERR_OUT_OF_RANGE, None, d1, d2) else
  do (_, o1, d1') <- dq_replace_at d1 e1 i;
  do (_, o2, d2') <- dq_replace_at d2 e2 i;
  let outs := match o1, o2 with Some x, Some y => Some (x, y) | _, _ => None end in
  Ok (CC_OK, outs, d1', d2').

(** ** CC_Queue: a header block around a deque *)
Record queue := { q_d : deque; q_hdr : N; q_mem : tag }.

Definition q_new_conf (mem : tag) (capacity : N) (a : alloc_st) : res (stat * option queue * alloc_st) :=
  match alloc mem (1 * SIZEOF_QUEUE) a with                       (* conf->mem_calloc(1, sizeof(CC_Queue)) *)
  | (None, a1) => Ok (CC_ERR_ALLOC, None, a1)
  | (Some h, a1) =>
      do (st, r, a2) <- dq_new_conf mem capacity a1;
      match r with
      | None => do a3 <- release mem h a2; Ok (st, None, a3)
      | Some d => Ok (CC_OK, Some {| q_d := d; q_hdr := h; q_mem := mem |}, a2)
      end
  end.
Definition q_destroy (q : queue) (a : alloc_st) : res alloc_st :=
  do a1 <- dq_destroy (q_d q) a; release (q_mem q) (q_hdr q) a1.
Definition q_destroy_cb (q : queue) (a : alloc_st) : res (list N * alloc_st) :=
  do (l, a1) <- dq_destroy_cb (q_d q) a; do a2 <- release (q_mem q) (q_hdr q) a1; Ok (l, a2).
Definition q_with (q : queue) (d : deque) : queue := {| q_d := d; q_hdr := q_hdr q; q_mem := q_mem q |}.
Definition q_enqueue (q : queue) (x : N) (a : alloc_st) : res (stat * queue * alloc_st) :=
  do (st, d, a') <- dq_add_first (q_d q) x a; Ok (st, q_with q d, a').
Definition q_poll (q : queue) : res (stat * option N * queue) :=
  do (st, v, d) <- dq_remove_last (q_d q); Ok (st, v, q_with q d).
Definition q_peek (q : queue) : res (stat * option N) := dq_get_last (q_d q).
Definition q_size (q : queue) : N := dq_size (q_d q).
Definition q_foreach (q : queue) : res (list N) := dq_foreach (q_d q).
Definition q_iter_next (q : queue) (it : dq_iter) := dq_iter_next (q_d q) it.
Definition q_iter_replace (q : queue) (it : dq_iter) (x : N) : res (stat * option N * queue) :=
  do (st, v, d) <- dq_iter_replace (q_d q) it x; Ok (st, v, q_with q d).
Definition q_zip_next (q1 q2 : queue) (it : dq_iter) := dq_zip_next (q_d q1) (q_d q2) it.
Definition q_zip_replace (q1 q2 : queue) (it : dq_iter) (e1 e2 : N) : res (stat * option (N * N) * queue * queue) :=
  do (st, o, d1, d2) <- dq_zip_replace (q_d q1) (q_d q2) it e1 e2; Ok (st, o, q_with q1 d1, q_with q2 d2).

(** ** The state machine of property C05 and its ideal counterpart *)
Inductive dq_op :=
| OAddFirst (x : N) | OAddLast (x : N) | OAddAt (x i : N) | OReplaceAt (x i : N)
| ORemove (x : N) | ORemoveAt (i : N) | ORemoveFirst | ORemoveLast | ORemoveAll
| OGetAt (i : N) | OGetFirst | OGetLast | OTrim | OReverse
| OContains (x : N) | OIndexOf (x : N) | OFilterMut (p : N -> bool) | OForeach.
Inductive dq_out := DOut (st : stat) (vals : list N).
Definition olist (o : option N) : list N := match o with Some v => [v] | None => [] end.

Definition dq_step (d : deque) (a : alloc_st) (o : dq_op) : res (dq_out * deque * alloc_st) :=
  match o with
  | OAddFirst x => do (st, d', a') <- dq_add_first d x a; Ok (DOut st [], d', a')
  | OAddLast x => do (st, d', a') <- dq_add_last d x a; Ok (DOut st [], d', a')
  | OAddAt x i => do (st, d', a') <- dq_add_at d x i a; Ok (DOut st [], d', a')
  | OReplaceAt x i => do (st, v, d') <- dq_replace_at d x i; Ok (DOut st (olist v), d', a)
  | ORemove x => do (st, v, d') <- dq_remove d x; Ok (DOut st (olist v), d', a)
  | ORemoveAt i => do (st, v, d') <- dq_remove_at d i; Ok (DOut st (olist v), d', a)
  | ORemoveFirst => do (st, v, d') <- dq_remove_first d; Ok (DOut st (olist v), d', a)
  | ORemoveLast => do (st, v, d') <- dq_remove_last d; Ok (DOut st (olist v), d', a)
  | ORemoveAll => Ok (DOut CC_OK [], dq_remove_all d, a)
  | OGetAt i => do (st, v) <- dq_get_at d i; Ok (DOut st (olist v), d, a)
  | OGetFirst => do (st, v) <- dq_get_first d; Ok (DOut st (olist v), d, a)
  | OGetLast => do (st, v) <- dq_get_last d; Ok (DOut st (olist v), d, a)
  | OTrim => do (st, d', a') <- dq_trim d a; Ok (DOut st [], d', a')
  | OReverse => do d' <- dq_reverse d; Ok (DOut CC_OK [], d', a)
  | OContains x => do n <- dq_contains d x; Ok (DOut CC_OK [n], d, a)
  | OIndexOf x => do (st, v) <- dq_index_of d x; Ok (DOut st (olist v), d, a)
  | OFilterMut p => do (st, d') <- dq_filter_mut d p; Ok (DOut st [], d', a)
  | OForeach => do l <- dq_foreach d; Ok (DOut CC_OK l, d, a)
  end.

Fixpoint dq_run (d : deque) (a : alloc_st) (ops : list dq_op) : res (list dq_out * deque * alloc_st) :=
  match ops with
  | [] => Ok ([], d, a)
  | o :: r => do (out, d1, a1) <- dq_step d a o;
              do (outs, d2, a2) <- dq_run d1 a1 r;
              Ok (out :: outs, d2, a2)
  end.

(** The ideal object: a list, front first. *)
(** [getN] guarded by a length test, so that an absurd index is never converted to [nat] *)
Definition nthN (l : list N) (i : N) : option N := if i <? lenN l then getN l i else None.
Definition ins (l : list N) (i x : N) : list N := firstnN i l ++ x :: skipnN i l.
Definition del (l : list N) (i : N) : list N := firstnN i l ++ skipnN (i + 1) l.
Definition repl (l : list N) (i x : N) : list N := firstnN i l ++ x :: skipnN (i + 1) l.
Fixpoint find_index (l : list N) (x : N) (i : N) : option N :=
  match l with [] => None | y :: t => if y =? x then Some i else find_index t x (i + 1) end.
Definition count_eq (l : list N) (x : N) : N := lenN (filter (fun y => y =? x) l).

Definition spec_step (l : list N) (o : dq_op) : dq_out * list N :=
  match o with
  | OAddFirst x => (DOut CC_OK [], x :: l)
  | OAddLast x => (DOut CC_OK [], l ++ [x])
  | OAddAt x i => if i <? lenN l then (DOut CC_OK [], ins l i x) else (DOut CC_ERR_OUT_OF_RANGE [], l)
  | OReplaceAt x i => match nthN l i with
                      | Some old => (DOut CC_OK [old], repl l i x)
                      | None => (DOut CC_ERR_OUT_OF_RANGE [], l) end
  | ORemove x => match find_index l x 0 with
                 | Some i => (DOut CC_OK [x], del l i)
                 | None => (DOut CC_ERR_OUT_OF_RANGE [], l) end
  | ORemoveAt i => match nthN l i with
                   | Some v => (DOut CC_OK [v], del l i)
                   | None => (DOut CC_ERR_OUT_OF_RANGE [], l) end
  | ORemoveFirst => match l with x :: t => (DOut CC_OK [x], t) | [] => (DOut CC_ERR_OUT_OF_RANGE [], []) end
  | ORemoveLast => match l with
                   | [] => (DOut CC_ERR_OUT_OF_RANGE [], [])
                   | _ => (DOut CC_OK [last l 0], removelast l) end
  | ORemoveAll => (DOut CC_OK [], [])
  | OGetAt i => match nthN l i with Some v => (DOut CC_OK [v], l) | None => (DOut CC_ERR_OUT_OF_RANGE [], l) end
  | OGetFirst => match l with x :: _ => (DOut CC_OK [x], l) | [] => (DOut CC_ERR_OUT_OF_RANGE [], l) end
  | OGetLast => match l with [] => (DOut CC_ERR_OUT_OF_RANGE [], l) | _ => (DOut CC_OK [last l 0], l) end
  | OTrim => (DOut CC_OK [], l)
  | OReverse => (DOut CC_OK [], rev l)
  | OContains x => (DOut CC_OK [count_eq l x], l)
  | OIndexOf x => match find_index l x 0 with
                  | Some i => (DOut CC_OK [i], l)
                  | None => (DOut CC_ERR_OUT_OF_RANGE [], l) end
  | OFilterMut p => match l with [] => (DOut CC_ERR_OUT_OF_RANGE [], l) | _ => (DOut CC_OK [], filter p l) end
  | OForeach => (DOut CC_OK l, l)
  end.

(** An operation that allocates may also answer CC_ERR_ALLOC and change nothing: [fails] tells, per
    step, whether that happened (the ideal list has no allocator of its own). *)
Definition is_alloc_err (o : dq_out) : bool := match o with DOut CC_ERR_ALLOC _ => true | _ => false end.
Fixpoint spec_run (l : list N) (ops : list dq_op) (fails : list bool) : list dq_out * list N :=
  match ops with
  | [] => ([], l)
  | o :: r =>
      let '(failed, fr) := match fails with b :: t => (b, t) | [] => (false, []) end in
      let '(out, l1) := if failed then (DOut CC_ERR_ALLOC [], l) else spec_step l o in
      let '(outs, l2) := spec_run l1 r fr in
      (out :: outs, l2)
  end.

(** The ideal cursor used for the iterator operations: position in the list and the removed flag. *)
Definition spec_iter_next (l : list N) (it : dq_iter) : stat * option N * dq_iter :=
  match nthN l (it_index it) with
  | Some v => (CC_OK, Some v, {| it_index := it_index it + 1; it_last_removed := false |})
  | None => (CC_ITER_END, None, it)
  end.
(** remove the element yielded last (position [index - 1]); the cursor steps back *)
Definition spec_iter_remove (l : list N) (it : dq_iter) : stat * option N * list N * dq_iter :=
  if it_last_removed it then (CC_ERR_VALUE_NOT_FOUND, None, l, it) else
  match nthN l (wsub (it_index it) 1) with
  | Some v => (CC_OK, Some v, del l (wsub (it_index it) 1), {| it_index := wsub (it_index it) 1; it_last_removed := true |})
  | None => (CC_ERR_OUT_OF_RANGE, None, l, it)
  end.
(** insert before the element that the next [next] would yield (cc_deque_add_at's range: index < size) *)
Definition spec_iter_add (l : list N) (it : dq_iter) (x : N) : stat * list N * dq_iter :=
  if it_index it <? lenN l
  then (CC_OK, ins l (it_index it) x, {| it_index := it_index it + 1; it_last_removed := it_last_removed it |})
  else (CC_ERR_OUT_OF_RANGE, l, it).
Definition spec_iter_replace (l : list N) (it : dq_iter) (x : N) : stat * option N * list N :=
  match nthN l (wsub (it_index it) 1) with
  | Some v => (CC_OK, Some v, repl l (wsub (it_index it) 1) x)
  | None => (CC_ERR_OUT_OF_RANGE, None, l)
  end.

(** What the public API shows of a deque (used by the driver and by the observation lemmas). *)
Definition dq_contents (d : deque) : list (option N) :=
  map (fun i => match getN (dq_slots d) (phys d i) with Some (Some v) => Some v | _ => None end)
      (seqN 0 (dq_size d)).
