(** Invariant, abstraction and the infrastructure lemmas for the deque model (part 1):
    list memory (blit / memmove), mask arithmetic, [dq_wf] / [repr] / [dq_inv] / [dq_abs], the ledger
    predicates [owns] / [led_step], copy_buffer and expand_capacity.
    Part 2: get_*, replace_at, remove_first/last/all, add_first/last, remove_at (four branches), add_at under
            its branch guard.            Part 3: upper_pow_two, constructor, trim, copy_shallow/deep.
    Part 4: the loops (index_of, contains, foreach, reverse, filter_mut, filter), [dq_step_refines],
            [dq_run_refines], the add_at refutations.
    Part 5: lemma families for C06/C07/C08/C09/C14/C16/C20 (ledger balance and tags, iterator and zip
            refinement, atomicity, queue FIFO, generated range guards, capacity facts).

    NOT proved in Coq (tied by the correspondence run only):
      - cc_deque_zip_iter_add (two growths followed by two add_at; inherits D17 on both deques);
      - cc_deque_add_at outside [add_at_branch_ok]: refuted ([deque_add_at_refuted], [.._back]), and in those
        branches the model may also move an unwritten slot into the live range (Fault Uninit at the next read);
      - independence of a copy and its source (no shared buffer can be expressed in a functional model);
      - CC_ERR_MAX_CAPACITY (capacity 2^31) is in the model and in the proofs but never reached by a trace. *)
From CC Require Import Base.Prelude Base.ListMem Base.ModArith Base.Alloc Base.AllocProofs.
From CC Require Import Generated.Status Generated.Constants Generated.Guards Deque.DequeModel.
Local Open Scope N_scope.

(** * Tactics *)
Ltac split_ifs :=
  repeat (match goal with
          | |- context [if ?b then _ else _] =>
              lazymatch b with
              | context [if _ then _ else _] => fail
              | _ => let E := fresh "E" in destruct b eqn:E
              end
          end; try (exfalso; lia)).
(** split syntactic conjunctions only (never unfolds a defined predicate) *)
Ltac splits := repeat match goal with |- _ /\ _ => split end.

(** * Lists *)
Section Lists.
Context {A : Type}.
Implicit Types (l : list A).

Lemma nth_error_firstn' l n i : nth_error (firstn n l) i = if (i <? n)%nat then nth_error l i else None.
Proof.
  revert n i; induction l as [|h t IH]; intros n i.
  - rewrite firstn_nil. destruct i; destruct (_ <? _)%nat; reflexivity.
  - destruct n as [|n]; [destruct i; reflexivity|]. destruct i as [|i]; [reflexivity|].
    cbn [firstn nth_error]. rewrite IH. reflexivity.
Qed.
Lemma nth_error_skipn' l n i : nth_error (skipn n l) i = nth_error l (n + i).
Proof.
  revert l; induction n as [|n IH]; intros [|h t]; cbn; try reflexivity.
  - destruct i; reflexivity.
  - apply IH.
Qed.

Lemma getN_firstnN l n i : getN (firstnN n l) i = if i <? n then getN l i else None.
Proof.
  unfold getN, firstnN. rewrite nth_error_firstn'.
  destruct (i <? n) eqn:E; [replace (N.to_nat i <? N.to_nat n)%nat with true | replace (N.to_nat i <? N.to_nat n)%nat with false];
    try reflexivity; symmetry; [apply Nat.ltb_lt | apply Nat.ltb_ge]; lia.
Qed.
Lemma getN_skipnN l n i : getN (skipnN n l) i = getN l (n + i).
Proof. unfold getN, skipnN. rewrite nth_error_skipn'. f_equal. lia. Qed.
Lemma lenN_firstnN l n : lenN (firstnN n l) = N.min n (lenN l).
Proof. unfold lenN, firstnN. rewrite firstn_length. lia. Qed.
Lemma lenN_skipnN l n : lenN (skipnN n l) = lenN l - n.
Proof. unfold lenN, skipnN. rewrite skipn_length. lia. Qed.

Lemma getN_ext l1 l2 : (forall i, getN l1 i = getN l2 i) -> l1 = l2.
Proof.
  revert l2; induction l1 as [|a t IH]; intros [|b u] H.
  - reflexivity.
  - specialize (H 0); discriminate.
  - specialize (H 0); discriminate.
  - f_equal.
    + specialize (H 0). cbn in H. congruence.
    + apply IH. intros i. specialize (H (i + 1)). unfold getN in *.
      replace (N.to_nat (i + 1)) with (S (N.to_nat i)) in H by lia. exact H.
Qed.

Lemma getN_app l1 l2 i : getN (l1 ++ l2) i = if i <? lenN l1 then getN l1 i else getN l2 (i - lenN l1).
Proof.
  destruct (i <? lenN l1) eqn:E.
  - apply getN_app1; lia.
  - apply getN_app2; lia.
Qed.
Lemma getN_cons (a : A) l i : getN (a :: l) i = if i =? 0 then Some a else getN l (i - 1).
Proof.
  unfold getN. destruct (i =? 0) eqn:E.
  - replace (N.to_nat i) with O by lia. reflexivity.
  - replace (N.to_nat i) with (S (N.to_nat (i - 1))) by lia. reflexivity.
Qed.
Lemma getN_nil i : getN (@nil A) i = None.
Proof. unfold getN. destruct (N.to_nat i); reflexivity. Qed.
Lemma getN_ge l i : lenN l <= i -> getN l i = None.
Proof. intros; apply getN_None_ge; assumption. Qed.

Lemma getN_updN l i v l' j : updN l i v = Some l' -> getN l' j = if j =? i then Some v else getN l j.
Proof.
  intros H. destruct (j =? i) eqn:E.
  - assert (j = i) by lia. subst. eapply getN_updN_same; eauto.
  - eapply getN_updN_other; eauto. lia.
Qed.
End Lists.

Lemma getN_map_seqN {B} (f : N -> B) n j : getN (map f (seqN 0 n)) j = if j <? n then Some (f j) else None.
Proof.
  unfold getN, seqN. rewrite map_map. cbn [N.to_nat].
  destruct (j <? n) eqn:E.
  - rewrite nth_error_map. assert (Hj : (N.to_nat j < N.to_nat n)%nat) by lia.
    rewrite (nth_error_nth' (seq 0 (N.to_nat n)) 0%nat) by (rewrite seq_length; exact Hj).
    rewrite seq_nth by exact Hj. cbn. f_equal. f_equal. lia.
  - apply nth_error_None. rewrite map_length, seq_length. lia.
Qed.

(** * Checked memory *)
Lemma blit_ok src soff dst doff n :
  soff + n <= lenN src -> doff + n <= lenN dst -> exists out, blit src soff dst doff n = Ok out.
Proof.
  intros H1 H2. unfold blit.
  replace (soff + n <=? lenN src) with true by lia. replace (doff + n <=? lenN dst) with true by lia.
  cbn. eauto.
Qed.
Lemma blit_spec src soff dst doff n out :
  blit src soff dst doff n = Ok out ->
  lenN out = lenN dst /\
  forall j, getN out j = if (doff <=? j) && (j <? doff + n) then getN src (soff + (j - doff)) else getN dst j.
Proof.
  unfold blit. destruct ((soff + n <=? lenN src) && (doff + n <=? lenN dst)) eqn:E; [|discriminate].
  intros H; inversion H; subst; clear H.
  assert (H1 : soff + n <= lenN src) by lia. assert (H2 : doff + n <= lenN dst) by lia.
  split.
  - rewrite !lenN_app, lenN_firstnN, lenN_firstnN, lenN_skipnN, lenN_skipnN. lia.
  - intros j. rewrite getN_app, lenN_firstnN, getN_firstnN.
    replace (N.min doff (lenN dst)) with doff by lia.
    destruct (j <? doff) eqn:E1.
    + replace ((doff <=? j) && (j <? doff + n)) with false by lia. reflexivity.
    + rewrite getN_app, lenN_firstnN, lenN_skipnN, getN_firstnN, !getN_skipnN.
      replace (N.min n (lenN src - soff)) with n by lia.
      destruct (j - doff <? n) eqn:E2.
      * replace ((doff <=? j) && (j <? doff + n)) with true by lia. reflexivity.
      * replace ((doff <=? j) && (j <? doff + n)) with false by lia. f_equal. lia.
Qed.
Lemma blit_spec2 src soff dst doff n out :
  blit src soff dst doff n = Ok out ->
  lenN out = lenN dst /\
  forall j, getN out j = if doff <=? j then (if j <? doff + n then getN src (soff + (j - doff)) else getN dst j) else getN dst j.
Proof.
  intros H. destruct (blit_spec _ _ _ _ _ _ H) as [Hl Hg]. split; [assumption|].
  intros j. rewrite Hg. destruct (doff <=? j); destruct (j <? doff + n); reflexivity.
Qed.
Lemma blit_zero src soff dst doff : soff <= lenN src -> doff <= lenN dst -> blit src soff dst doff 0 = Ok dst.
Proof.
  intros H1 H2. destruct (blit_ok src soff dst doff 0) as [out Ho]; [lia|lia|].
  rewrite Ho. f_equal. destruct (blit_spec _ _ _ _ _ _ Ho) as [_ Hg].
  apply getN_ext. intros j. rewrite Hg. replace ((doff <=? j) && (j <? doff + 0)) with false by lia. reflexivity.
Qed.

Lemma rd_ok (b : list slot) i : i < lenN b -> exists s, rd b i = Ok s /\ getN b i = Some s.
Proof. intros H. destruct (getN_lt b i H) as [s Hs]. exists s. unfold rd. rewrite Hs. auto. Qed.
Lemma wr_ok (b : list slot) i s : i < lenN b -> exists b', wr b i s = Ok b' /\ updN b i s = Some b'.
Proof. intros H. destruct (updN_lt b i s H) as [b' Hb]. exists b'. unfold wr. rewrite Hb. auto. Qed.
Lemma rdv_ok (b : list slot) i v : getN b i = Some (Some v) -> rdv b i = Ok v.
Proof. intros H. unfold rdv, rd. rewrite H. reflexivity. Qed.

(** * Word and mask arithmetic *)
Lemma wadd_small a b : a + b < W -> wadd a b = a + b.
Proof. intros; unfold wadd; apply N.mod_small; assumption. Qed.
Lemma wsub_small a b : b <= a -> a < W -> wsub a b = a - b.
Proof.
  intros H1 H2. unfold wsub. rewrite (N.mod_small b) by lia.
  replace (a + W - b) with ((a - b) + 1 * W) by lia. rewrite N.mod_add by (unfold W; lia). apply N.mod_small; lia.
Qed.
Lemma wmul_small a b : a * b < W -> wmul a b = a * b.
Proof. intros; unfold wmul; apply N.mod_small; assumption. Qed.

(** capacities: powers of two up to MAX_POW_TWO = 2^31 *)
Definition pow2 (c : N) : Prop := exists k, k <= 31 /\ c = 2 ^ k.
Lemma MAX_POW_TWO_val : MAX_POW_TWO = 2147483648. Proof. reflexivity. Qed.
Lemma pow2_bounds c : pow2 c -> 0 < c <= 2147483648.
Proof.
  intros (k & Hk & ->). split.
  - apply N.neq_0_lt_0, N.pow_nonzero. lia.
  - change 2147483648 with (2 ^ 31). apply N.pow_le_mono_r; lia.
Qed.
Lemma pow2_double c : pow2 c -> c <> 2147483648 -> pow2 (2 * c).
Proof.
  intros (k & Hk & ->) Hne. exists (k + 1). split.
  - assert (k <> 31) by (intros ->; apply Hne; reflexivity). lia.
  - rewrite N.add_1_r, N.pow_succ_r'. reflexivity.
Qed.
Lemma pow2_1 : pow2 1. Proof. exists 0. split; [lia|reflexivity]. Qed.

Lemma land_mask c x : pow2 c -> N.land x (wsub c 1) = x mod c.
Proof.
  intros Hp. pose proof (pow2_bounds c Hp) as Hb. destruct Hp as (k & Hk & ->).
  rewrite wsub_small by (unfold W; lia).
  replace (2 ^ k - 1) with (N.ones k) by (rewrite N.ones_equiv; lia).
  apply N.land_ones.
Qed.
Lemma mask_val c : pow2 c -> wsub c 1 = c - 1.
Proof. intros Hp. pose proof (pow2_bounds c Hp). apply wsub_small; unfold W; lia. Qed.

(** position of logical index [i] in a ring of [c] slots starting at [f] *)
Definition idx (f i c : N) : N := if f + i <? c then f + i else f + i - c.
Lemma mod_idx f i c : f < c -> i <= c -> (f + i) mod c = idx f i c.
Proof.
  intros Hf Hi. unfold idx. destruct (f + i <? c) eqn:E.
  - apply N.mod_small; lia.
  - replace (f + i) with ((f + i - c) + 1 * c) at 1 by lia. rewrite N.mod_add by lia. apply N.mod_small; lia.
Qed.
Lemma idx_lt f i c : f < c -> i <= c -> idx f i c < c.
Proof. intros; unfold idx; destruct (f + i <? c) eqn:E; lia. Qed.

Lemma land_small c x : pow2 c -> x < c -> N.land x (wsub c 1) = x.
Proof. intros Hp Hx. rewrite land_mask by assumption. apply N.mod_small; assumption. Qed.
Lemma land_add c f i : pow2 c -> f < c -> i <= c -> N.land (wadd f i) (wsub c 1) = idx f i c.
Proof.
  intros Hp Hf Hi. pose proof (pow2_bounds c Hp).
  rewrite wadd_small by (unfold W; lia). rewrite land_mask by assumption. apply mod_idx; assumption.
Qed.
Lemma land_pred c f : pow2 c -> f < c -> N.land (wsub f 1) (wsub c 1) = if f =? 0 then c - 1 else f - 1.
Proof.
  intros Hp Hf. pose proof (pow2_bounds c Hp) as Hb. destruct (f =? 0) eqn:E.
  - assert (f = 0) by lia. subst f. destruct Hp as (k & Hk & ->).
    rewrite (wsub_small (2 ^ k)) by (unfold W; lia).
    replace (2 ^ k - 1) with (N.ones k) by (rewrite N.ones_equiv; lia).
    rewrite N.land_ones. change (wsub 0 1) with (N.ones 64).
    rewrite N.ones_mod_pow2 by lia. rewrite N.ones_equiv. lia.
  - rewrite wsub_small by (unfold W; lia). apply land_small; [assumption|lia].
Qed.
Lemma land_succ c l : pow2 c -> l < c -> N.land (wadd l 1) (wsub c 1) = if l + 1 =? c then 0 else l + 1.
Proof.
  intros Hp Hl. rewrite land_add by (try assumption; pose proof (pow2_bounds c Hp); lia).
  unfold idx. destruct (l + 1 =? c) eqn:E; destruct (l + 1 <? c) eqn:E2; lia.
Qed.

(** * Well-formed layouts, representation, invariant, abstraction *)
Record dq_wf (d : deque) : Prop := {
  wf_pow : pow2 (dq_cap d);
  wf_len : lenN (dq_slots d) = dq_cap d;
  wf_first : dq_first d < dq_cap d;
  wf_size : dq_size d <= dq_cap d;
  wf_last : dq_last d = idx (dq_first d) (dq_size d) (dq_cap d);
}.

(** [repr d l]: the live slots, front to back, hold exactly the elements of [l] *)
Definition repr (d : deque) (l : list N) : Prop :=
  lenN l = dq_size d /\
  forall j, j < dq_size d -> getN (dq_slots d) (idx (dq_first d) j (dq_cap d)) = Some (getN l j).

Definition slotv (b : list slot) (j : N) : N := match getN b j with Some (Some v) => v | _ => 0 end.
Definition dq_abs (d : deque) : list N :=
  map (fun i => slotv (dq_slots d) (idx (dq_first d) i (dq_cap d))) (seqN 0 (dq_size d)).

(** The invariant: capacity = 2^k = number of allocated slots, cursors in range, [last] one past the
    tail modulo the capacity, every live slot written. *)
Record dq_inv (d : deque) : Prop := {
  inv_wf : dq_wf d;
  inv_written : forall i, i < dq_size d -> exists v, getN (dq_slots d) (idx (dq_first d) i (dq_cap d)) = Some (Some v);
}.

Lemma abs_len d : lenN (dq_abs d) = dq_size d.
Proof. unfold dq_abs, lenN. rewrite map_length. apply seqN_length. Qed.
Lemma abs_get d j : getN (dq_abs d) j = if j <? dq_size d then Some (slotv (dq_slots d) (idx (dq_first d) j (dq_cap d))) else None.
Proof. unfold dq_abs. exact (getN_map_seqN (fun i => slotv (dq_slots d) (idx (dq_first d) i (dq_cap d))) (dq_size d) j). Qed.

Lemma inv_repr d : dq_inv d -> repr d (dq_abs d).
Proof.
  intros [Hwf Hw]. split; [apply abs_len|].
  intros j Hj. rewrite abs_get. replace (j <? dq_size d) with true by lia.
  destruct (Hw j Hj) as [v Hv]. unfold slotv. rewrite Hv. reflexivity.
Qed.
Lemma repr_inv d l : dq_wf d -> repr d l -> dq_inv d /\ dq_abs d = l.
Proof.
  intros Hwf [Hl Hr]. split.
  - constructor; [assumption|]. intros i Hi. specialize (Hr i Hi).
    destruct (getN_lt l i) as [v Hv]; [lia|]. exists v. rewrite Hr, Hv. reflexivity.
  - apply getN_ext. intros j. rewrite abs_get. destruct (j <? dq_size d) eqn:E.
    + unfold slotv. rewrite Hr by lia. destruct (getN_lt l j) as [v Hv]; [lia|]. rewrite Hv. reflexivity.
    + symmetry. apply getN_ge. lia.
Qed.
Lemma repr_get d l j v : repr d l -> getN l j = Some v -> getN (dq_slots d) (idx (dq_first d) j (dq_cap d)) = Some (Some v).
Proof.
  intros [Hl Hr] Hv. assert (j < dq_size d) by (apply getN_Some_lt in Hv; lia).
  rewrite Hr by assumption. rewrite Hv. reflexivity.
Qed.

(** normal forms of the index expressions of the C code on a well-formed layout *)
Lemma wf_mask d : dq_wf d -> mask d = dq_cap d - 1.
Proof. intros H. apply mask_val, H. Qed.
Lemma wf_phys d i : dq_wf d -> i <= dq_cap d -> phys d i = idx (dq_first d) i (dq_cap d).
Proof. intros H Hi. unfold phys, mask. apply land_add; [apply H | apply H | assumption]. Qed.
Lemma wf_last_lt d : dq_wf d -> dq_last d < dq_cap d.
Proof. intros H. rewrite (wf_last d H). apply idx_lt; [apply H | apply H]. Qed.
Lemma wf_cap d : dq_wf d -> 0 < dq_cap d <= 2147483648.
Proof. intros H. apply pow2_bounds, H. Qed.

(** * The ideal list operations through [getN] *)
Lemma getN_ins l i x j : i <= lenN l ->
  getN (ins l i x) j = if j <? i then getN l j else if j =? i then Some x else getN l (j - 1).
Proof.
  intros Hi. unfold ins. rewrite getN_app, lenN_firstnN, getN_firstnN.
  replace (N.min i (lenN l)) with i by lia.
  destruct (j <? i) eqn:E; [reflexivity|].
  rewrite getN_cons. destruct (j =? i) eqn:E2.
  - replace (j - i =? 0) with true by lia. reflexivity.
  - replace (j - i =? 0) with false by lia. rewrite getN_skipnN. f_equal. lia.
Qed.
Lemma lenN_ins l i x : i <= lenN l -> lenN (ins l i x) = lenN l + 1.
Proof. intros Hi. unfold ins. rewrite lenN_app, lenN_firstnN, lenN_cons, lenN_skipnN. lia. Qed.
Lemma getN_del l i j : i < lenN l -> getN (del l i) j = if j <? i then getN l j else getN l (j + 1).
Proof.
  intros Hi. unfold del. rewrite getN_app, lenN_firstnN, getN_firstnN.
  replace (N.min i (lenN l)) with i by lia.
  destruct (j <? i) eqn:E; [reflexivity|]. rewrite getN_skipnN. f_equal. lia.
Qed.
Lemma lenN_del l i : i < lenN l -> lenN (del l i) = lenN l - 1.
Proof. intros Hi. unfold del. rewrite lenN_app, lenN_firstnN, lenN_skipnN. lia. Qed.
Lemma getN_repl l i x j : i < lenN l -> getN (repl l i x) j = if j =? i then Some x else getN l j.
Proof.
  intros Hi. unfold repl. rewrite getN_app, lenN_firstnN, getN_firstnN.
  replace (N.min i (lenN l)) with i by lia.
  destruct (j <? i) eqn:E.
  - replace (j =? i) with false by lia. reflexivity.
  - rewrite getN_cons. destruct (j =? i) eqn:E2.
    + replace (j - i =? 0) with true by lia. reflexivity.
    + replace (j - i =? 0) with false by lia. rewrite getN_skipnN. f_equal. lia.
Qed.
Lemma lenN_repl l i x : i < lenN l -> lenN (repl l i x) = lenN l.
Proof. intros Hi. unfold repl. rewrite lenN_app, lenN_firstnN, lenN_cons, lenN_skipnN. lia. Qed.
Lemma nthN_spec l i : nthN l i = getN l i.
Proof. unfold nthN. destruct (i <? lenN l) eqn:E; [reflexivity|]. symmetry. apply getN_ge. lia. Qed.
Lemma ins_0 l x : ins l 0 x = x :: l. Proof. reflexivity. Qed.
Lemma ins_end l x : ins l (lenN l) x = l ++ [x].
Proof.
  apply getN_ext. intros j. rewrite getN_ins by lia. rewrite getN_app, getN_cons, getN_nil.
  destruct (j <? lenN l) eqn:E; [reflexivity|].
  destruct (j =? lenN l) eqn:E2.
  - replace (j - lenN l =? 0) with true by lia. reflexivity.
  - replace (j - lenN l =? 0) with false by lia. apply getN_ge. lia.
Qed.
Lemma del_0 (x : N) t : del (x :: t) 0 = t. Proof. reflexivity. Qed.
Lemma getN_removelast (l : list N) j : getN (removelast l) j = if j + 1 <? lenN l then getN l j else None.
Proof.
  destruct l as [|a t]; [cbn; rewrite getN_nil; destruct (j + 1 <? _); reflexivity|].
  assert (E : a :: t <> []) by discriminate.
  destruct (exists_last E) as (l' & z & ->). rewrite removelast_last.
  rewrite lenN_app. change (lenN [z]) with 1.
  destruct (j + 1 <? lenN l' + 1) eqn:E2.
  - rewrite getN_app. replace (j <? lenN l') with true by lia. reflexivity.
  - apply getN_ge. lia.
Qed.
Lemma getN_last (l : list N) : l <> [] -> getN l (lenN l - 1) = Some (last l 0).
Proof.
  intros E. destruct (exists_last E) as (l' & z & ->). rewrite last_last, lenN_app. change (lenN [z]) with 1.
  rewrite getN_app. replace (lenN l' + 1 - 1 <? lenN l') with false by lia.
  replace (lenN l' + 1 - 1 - lenN l') with 0 by lia. reflexivity.
Qed.
Lemma removelast_del (l : list N) : l <> [] -> removelast l = del l (lenN l - 1).
Proof.
  intros E. assert (0 < lenN l) by (destruct l; [congruence|rewrite lenN_cons; lia]).
  apply getN_ext. intros j. rewrite getN_removelast, getN_del by lia.
  destruct (j + 1 <? lenN l) eqn:E1.
  - replace (j <? lenN l - 1) with true by lia. reflexivity.
  - replace (j <? lenN l - 1) with false by lia. symmetry. apply getN_ge. lia.
Qed.

(** * Ledger facts: the header and the buffer of a deque are live blocks of its own tag *)
Definition without (id : N) (l : list block) : list block := filter (fun b => negb (b_id b =? id)) l.

Lemma NoDup_map_inj {A B} (f : A -> B) (l : list A) x y :
  NoDup (map f l) -> In x l -> In y l -> f x = f y -> x = y.
Proof.
  induction l as [|a t IH]; intros Hnd Hx Hy E; [destruct Hx|].
  cbn in Hnd. inversion Hnd as [|? ? Hn Hnd']; subst.
  destruct Hx as [->|Hx], Hy as [->|Hy]; auto.
  - exfalso. apply Hn. rewrite E. apply in_map. assumption.
  - exfalso. apply Hn. rewrite <- E. apply in_map. assumption.
Qed.

Lemma without_notin id l : (forall b, In b l -> b_id b <> id) -> without id l = l.
Proof.
  induction l as [|a t IH]; intros H; [reflexivity|]. cbn.
  replace (b_id a =? id) with false by (symmetry; apply N.eqb_neq; apply H; left; reflexivity).
  cbn. f_equal. apply IH. intros b Hb. apply H. right. assumption.
Qed.
Lemma in_without id l b : In b (without id l) <-> In b l /\ b_id b <> id.
Proof.
  unfold without. rewrite filter_In. split; intros [H1 H2]; split; auto.
  - apply N.eqb_neq. destruct (b_id b =? id); [discriminate|reflexivity].
  - apply N.eqb_neq in H2. rewrite H2. reflexivity.
Qed.

Lemma release_in t id a b :
  ledger_ok a -> In b (live a) -> b_id b = id -> b_tag b = t ->
  exists a', release t id a = Ok a' /\ live a' = without id (live a) /\ next_id a' = next_id a /\
             limit a' = limit a /\ nreq a' = nreq a /\ plan a' = plan a /\ ledger_ok a'.
Proof.
  intros [Hnd Hlt] Hin Hid Htag. unfold release.
  destruct (remove_block_in id (live a)) as (b' & r & Hr); [eauto|].
  rewrite Hr. destruct (remove_block_spec _ _ _ _ Hr) as (Hid' & l1 & l2 & El & Er & Hn1).
  assert (b' = b).
  { apply (NoDup_map_inj b_id (live a)); auto; [rewrite El; apply in_or_app; right; left; reflexivity | congruence]. }
  subst b'. rewrite Htag, tag_eqb_refl. eexists; split; [reflexivity|]. cbn [live next_id limit nreq plan].
  assert (Hr' : r = without id (live a)).
  { rewrite El, Er. unfold without. rewrite filter_app. cbn [filter].
    replace (b_id b =? id) with true by lia. cbn [negb].
    fold (without id l1). fold (without id l2). rewrite without_notin by assumption.
    rewrite without_notin; [reflexivity|].
    intros x Hx E. rewrite El, map_app in Hnd. cbn in Hnd. apply NoDup_remove_2 in Hnd.
    apply Hnd. apply in_or_app. right. rewrite Hid. rewrite <- E. apply in_map. assumption. }
  assert (Hok' : ledger_ok {| plan := plan a; limit := limit a; next_id := next_id a; live := r; nreq := nreq a |}).
  { split; cbn [live next_id].
    - rewrite Hr'. unfold without.
      clear -Hnd. induction (live a) as [|x t IH]; [constructor|]. cbn in *. inversion Hnd; subst.
      destruct (negb (b_id x =? id)); cbn; auto. constructor; auto.
      intros H. apply H1. apply in_map_iff in H. destruct H as (y & <- & Hy). apply filter_In in Hy. apply in_map. tauto.
    - intros x Hx. apply Hlt. rewrite Hr' in Hx. apply in_without in Hx. tauto. }
  auto 10.
Qed.

Definition owns (d : deque) (a : alloc_st) : Prop :=
  ledger_ok a /\ 0 < next_id a /\ dq_hdr d <> dq_buf d /\
  (exists n, In {| b_id := dq_hdr d; b_tag := dq_mem d; b_bytes := n |} (live a)) /\
  (exists n, In {| b_id := dq_buf d; b_tag := dq_mem d; b_bytes := n |} (live a)).

(** what an operation may do to the ledger: nothing, or replace the buffer block by a fresh one of the
    container's own tag (allocated first, then the old one released) *)
Definition led_step (d : deque) (a : alloc_st) (d' : deque) (a' : alloc_st) : Prop :=
  (live a' = live a /\ dq_buf d' = dq_buf d) \/
  (exists bytes, live a' = {| b_id := dq_buf d'; b_tag := dq_mem d; b_bytes := bytes |} :: without (dq_buf d) (live a) /\
                 dq_buf d' = next_id a).

(** * copy_buffer (shallow), expand_capacity *)
Lemma copy_buffer_spec d l buff :
  dq_wf d -> repr d l -> dq_size d <= lenN buff ->
  exists out, dq_copy_buffer d buff None = Ok out /\ lenN out = lenN buff /\
              forall j, getN out j = if j <? dq_size d then Some (getN l j) else getN buff j.
Proof.
  intros Hwf [Hl Hr] Hb. pose proof (wf_cap d Hwf) as Hc. destruct Hwf as [Hp Hlen Hf Hs Hlast].
  unfold dq_copy_buffer, g_deque_copy_empty, g_deque_copy_contig.
  destruct (dq_size d =? 0) eqn:E0.
  { exists buff. split; [reflexivity|]. split; [reflexivity|]. intros j. replace (j <? dq_size d) with false by lia. reflexivity. }
  destruct (dq_first d + dq_size d <? dq_cap d) eqn:Ew.
  - assert (El : dq_last d = dq_first d + dq_size d) by (rewrite Hlast; unfold idx; rewrite Ew; reflexivity).
    rewrite El. replace (dq_first d <? dq_first d + dq_size d) with true by lia.
    destruct (blit_ok (dq_slots d) (dq_first d) buff 0 (dq_size d)) as [out Ho]; [lia|lia|].
    exists out. split; [assumption|]. destruct (blit_spec _ _ _ _ _ _ Ho) as [Hlo Hg]. split; [assumption|].
    intros j. rewrite Hg. destruct (j <? dq_size d) eqn:Ej.
    + replace ((0 <=? j) && (j <? 0 + dq_size d)) with true by lia.
      rewrite <- Hr by lia. f_equal. unfold idx. replace (dq_first d + j <? dq_cap d) with true by lia. lia.
    + replace ((0 <=? j) && (j <? 0 + dq_size d)) with false by lia. reflexivity.
  - assert (El : dq_last d = dq_first d + dq_size d - dq_cap d) by (rewrite Hlast; unfold idx; rewrite Ew; reflexivity).
    rewrite El. replace (dq_first d <? dq_first d + dq_size d - dq_cap d) with false by lia.
    rewrite wsub_small by (unfold W; lia).
    destruct (blit_ok (dq_slots d) (dq_first d) buff 0 (dq_cap d - dq_first d)) as [b1 Hb1]; [lia|lia|].
    rewrite Hb1. cbn [bind]. destruct (blit_spec _ _ _ _ _ _ Hb1) as [Hl1 Hg1].
    destruct (blit_ok (dq_slots d) 0 b1 (dq_cap d - dq_first d) (dq_first d + dq_size d - dq_cap d)) as [out Ho]; [lia|lia|].
    exists out. split; [assumption|]. destruct (blit_spec _ _ _ _ _ _ Ho) as [Hlo Hg]. split; [lia|].
    intros j. rewrite Hg, Hg1. destruct (j <? dq_size d) eqn:Ej.
    + rewrite <- Hr by lia. unfold idx. split_ifs; f_equal; lia.
    + split_ifs; reflexivity.
Qed.

Lemma shiftl1 c : c <= 2147483648 -> (N.shiftl c 1) mod W = 2 * c.
Proof. intros H. rewrite N.shiftl_mul_pow2. change (2 ^ 1) with 2. rewrite N.mod_small by (unfold W; lia). lia. Qed.

Lemma alloc_owns t n a id a' d : owns d a -> alloc t n a = (Some id, a') ->
  id = next_id a /\ live a' = {| b_id := id; b_tag := t; b_bytes := n |} :: live a /\ ledger_ok a' /\ 0 < next_id a' /\
  id <> dq_hdr d /\ id <> dq_buf d /\ plan a' = tl (plan a) /\ nreq a' = nreq a + 1 /\ limit a' = limit a /\
  next_id a' = next_id a + 1.
Proof.
  intros (Hok & Hpos & Hne & (n1 & H1) & (n2 & H2)) E.
  pose proof (alloc_cases t n a) as C. rewrite E in C. destruct C as (-> & Hl & Hn & Hlim & Hq & Hp).
  destruct (alloc_ledger_ok _ _ _ _ _ Hok Hpos E) as [Hok' Hpos'].
  destruct Hok as [_ Hlt]. apply Hlt in H1. apply Hlt in H2. cbn in H1, H2.
  splits; auto; lia.
Qed.
Lemma alloc_none_owns t n a a' d : owns d a -> alloc t n a = (None, a') ->
  live a' = live a /\ owns d a' /\ plan a' = tl (plan a) /\ nreq a' = nreq a + 1 /\ limit a' = limit a /\ next_id a' = next_id a.
Proof.
  intros (Hok & Hpos & Hne & H1 & H2) E.
  pose proof (alloc_cases t n a) as C. rewrite E in C. destruct C as (Hl & Hn & Hlim & Hq & Hp).
  destruct (alloc_ledger_ok _ _ _ _ _ Hok Hpos E) as [Hok' Hpos'].
  unfold owns. rewrite Hl. splits; auto.
Qed.

(** what [expand_capacity] does when it succeeds / fails *)
Definition same_ids (d d' : deque) : Prop := dq_hdr d' = dq_hdr d /\ dq_mem d' = dq_mem d.
Definition alloc_failed (d : deque) (a a' : alloc_st) : Prop := live a' = live a /\ owns d a'.

Lemma expand_spec d l a :
  dq_wf d -> repr d l -> owns d a ->
  exists st d' a', dq_expand d a = Ok (st, d', a') /\
    ((st = CC_OK /\ dq_wf d' /\ repr d' l /\ owns d' a' /\ same_ids d d' /\ dq_cap d' = 2 * dq_cap d /\
      dq_size d' = dq_size d /\ dq_first d' = 0 /\
      live a' = {| b_id := dq_buf d'; b_tag := dq_mem d; b_bytes := 2 * dq_cap d * 8 |} :: without (dq_buf d) (live a) /\
      dq_buf d' = next_id a) \/
     (st <> CC_OK /\ d' = d /\ alloc_failed d a a')).
Proof.
  intros Hwf Hr Ho. pose proof (wf_cap d Hwf) as Hc.
  unfold dq_expand, g_deque_expand_max. rewrite MAX_POW_TWO_val.
  destruct (dq_cap d =? 2147483648) eqn:Emax.
  { exists CC_ERR_MAX_CAPACITY, d, a. split; [reflexivity|]. right. split; [discriminate|]. split; [reflexivity|]. split; [reflexivity|assumption]. }
  rewrite shiftl1 by lia.
  destruct (alloc (dq_mem d) (2 * dq_cap d * 8) a) as [[nb|] a1] eqn:Ea.
  - destruct (alloc_owns _ _ _ _ _ d Ho Ea) as (Hid & Hlive & Hok1 & Hpos1 & Hn1 & Hn2 & _).
    destruct (copy_buffer_spec d l (repeatN (Some 0) (2 * dq_cap d)) Hwf Hr) as (buff & Hcb & Hlb & Hgb).
    { rewrite lenN_repeatN. pose proof (wf_size d Hwf). lia. }
    rewrite Hcb. cbn [bind].
    destruct Ho as (Hok & Hpos & Hne & (n1 & H1) & (n2 & H2)).
    destruct (release_in (dq_mem d) (dq_buf d) a1 {| b_id := dq_buf d; b_tag := dq_mem d; b_bytes := n2 |} Hok1)
      as (a2 & Hrel & Hl2 & Hnx & _ & _ & _ & Hok2); [rewrite Hlive; right; assumption|reflexivity|reflexivity|].
    rewrite Hrel. cbn [bind]. do 3 eexists. split; [reflexivity|]. left. split; [reflexivity|].
    rewrite lenN_repeatN in Hlb. destruct Hr as [Hl Hr]. destruct Hwf as [Hp Hlen Hf Hs Hlast].
    split; [|split; [|split; [|split; [|split; [|split; [|split; [|split]]]]]]]; cbn [dq_cap dq_size dq_first dq_last dq_slots dq_hdr dq_buf dq_mem]; try reflexivity; try assumption.
    + constructor; cbn [dq_cap dq_size dq_first dq_last dq_slots]; try lia.
      * apply pow2_double; [assumption|lia].
      * unfold idx. replace (0 + dq_size d <? 2 * dq_cap d) with true by lia. lia.
    + split; cbn [dq_cap dq_size dq_first dq_last dq_slots]; [assumption|]. intros j Hj. unfold idx. replace (0 + j <? 2 * dq_cap d) with true by lia.
      rewrite Hgb. rewrite N.add_0_l. replace (j <? dq_size d) with true by lia. reflexivity.
    + unfold owns; cbn [dq_hdr dq_buf dq_mem]. split; [assumption|]. split; [lia|]. split; [lia|]. rewrite Hl2, Hlive. cbn [without filter b_id].
      replace (nb =? dq_buf d) with false by lia. cbn [negb]. split.
      * exists n1. right. apply in_without. split; [assumption|]. cbn. assumption.
      * eexists. left. reflexivity.
    + split; reflexivity.
    + rewrite Hl2, Hlive. cbn [without filter b_id]. replace (nb =? dq_buf d) with false by lia. reflexivity.
  - destruct (alloc_none_owns _ _ _ _ d Ho Ea) as (Hl & Ho' & _).
    exists CC_ERR_ALLOC, d, a1. split; [reflexivity|]. right. split; [discriminate|]. split; [reflexivity|]. split; assumption.
Qed.

Lemma grow_if_spec (full : bool) d l a :
  dq_wf d -> repr d l -> owns d a ->
  (full = true -> dq_size d = dq_cap d) -> (full = false -> dq_size d < dq_cap d) ->
  exists ok d1 a1, grow_if full d a = Ok (ok, d1, a1) /\
    ((ok = true /\ dq_wf d1 /\ repr d1 l /\ owns d1 a1 /\ same_ids d d1 /\ dq_size d1 = dq_size d /\ dq_size d1 < dq_cap d1 /\
      (full = false -> d1 = d /\ a1 = a) /\
      (full = true -> dq_cap d1 = 2 * dq_cap d /\ dq_first d1 = 0) /\ led_step d a d1 a1) \/
     (ok = false /\ d1 = d /\ alloc_failed d a a1)).
Proof.
  intros Hwf Hr Ho Ht Hf. unfold grow_if. destruct full.
  - destruct (expand_spec d l a Hwf Hr Ho) as (st & d' & a' & He & [H|H]); rewrite He; cbn [bind].
    + destruct H as (-> & Hwf' & Hr' & Ho' & Hid & Hc & Hs & Hf0 & Hlv & Hnb). do 3 eexists. split; [reflexivity|]. left.
      pose proof (wf_cap d Hwf). specialize (Ht eq_refl).
      splits; auto; try lia; try discriminate. right. eauto.
    + destruct H as (Hne & -> & Hfail). do 3 eexists. split; [reflexivity|]. right.
      split; [|split; [reflexivity|assumption]]. destruct st; try reflexivity. congruence.
  - do 3 eexists. split; [reflexivity|]. left. specialize (Hf eq_refl). unfold same_ids. splits; auto; try discriminate. left. auto.
Qed.
