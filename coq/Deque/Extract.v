(** Extraction of the deque engine model (CC_Deque, CC_Queue). ExtrOcamlBasic only; no Extract Constant. *)
From Coq Require Import Extraction ExtrOcamlBasic.
From CC Require Import Base.Prelude Base.Alloc Generated.Status Generated.Constants Generated.Macros Generated.Guards.
From CC Require Import Deque.DequeModel.
Extraction Language OCaml.
Extraction "model.ml"
  N.add N.mul N.sub N.div N.modulo N.eqb N.ltb N.leb N.of_nat N.to_nat N.land N.shiftl N.shiftr
  alloc_init alloc release count_tag is_live stat_code
  DEQUE_DEFAULT_CAPACITY MAX_POW_TWO wadd wsub wmul lenN getN
  upper_pow_two dq_new_conf dq_destroy dq_destroy_cb dq_remove_all_cb dq_copy_shallow dq_copy_deep dq_filter
  dq_contains_value dq_step dq_run spec_step spec_run ins del repl find_index count_eq
  add_at_branch add_at_branch_ok phys mask
  dq_iter_init dq_iter_next dq_iter_remove dq_iter_add dq_iter_replace dq_iter_index spec_iter_next spec_iter_remove spec_iter_add spec_iter_replace nthN
  dq_zip_next dq_zip_add dq_zip_remove dq_zip_replace
  q_new_conf q_destroy q_destroy_cb q_enqueue q_poll q_peek q_size q_foreach q_iter_next q_iter_replace
  q_zip_next q_zip_replace
  dq_contents.
