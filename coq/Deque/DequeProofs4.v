(** Deque proofs, part 4: the loops (index_of, contains, foreach, reverse, filter_mut, filter),
    one step of the state machine against the ideal list, and histories from the constructor. *)
From CC Require Import Base.Prelude Base.ListMem Base.ModArith Base.Alloc Base.AllocProofs.
From CC Require Import Generated.Status Generated.Constants Generated.Guards Deque.DequeModel.
From CC Require Import Deque.DequeProofs Deque.DequeProofs2 Deque.DequeProofs3.
Local Open Scope N_scope.

(** * More list facts *)
Lemma skipnN_cons (l : list N) i v : getN l i = Some v -> skipnN i l = v :: skipnN (i + 1) l.
Proof.
  intros H. apply getN_ext. intros j. rewrite getN_cons, !getN_skipnN.
  destruct (j =? 0) eqn:E.
  - assert (j = 0) by lia. subst. rewrite N.add_0_r. assumption.
  - f_equal. lia.
Qed.
Lemma skipnN_all (l : list N) i : lenN l <= i -> skipnN i l = [].
Proof. intros H. apply getN_ext. intros j. rewrite getN_skipnN, getN_nil. apply getN_ge. lia. Qed.
Lemma skipnN_0 (l : list N) : skipnN 0 l = l. Proof. reflexivity. Qed.
Lemma firstnN_all (l : list N) i : lenN l <= i -> firstnN i l = l.
Proof.
  intros H. apply getN_ext. intros j. rewrite getN_firstnN. destruct (j <? i) eqn:E; [reflexivity|].
  symmetry. apply getN_ge. lia.
Qed.
Lemma firstnN_succ (l : list N) i v : getN l i = Some v -> firstnN (i + 1) l = firstnN i l ++ [v].
Proof.
  intros H. pose proof (getN_Some_lt _ _ _ H) as Hi. apply getN_ext. intros j.
  rewrite getN_app, !getN_firstnN, lenN_firstnN, getN_cons, getN_nil.
  replace (N.min i (lenN l)) with i by lia.
  destruct (j <? i) eqn:E1.
  - replace (j <? i + 1) with true by lia. reflexivity.
  - destruct (j =? i) eqn:E2.
    + assert (j = i) by lia. subst. replace (i <? i + 1) with true by lia. replace (i - i =? 0) with true by lia. assumption.
    + replace (j <? i + 1) with false by lia. replace (j - i =? 0) with false by lia. reflexivity.
Qed.
Lemma firstnN_del (l : list N) i : i < lenN l -> firstnN i (del l i) = firstnN i l.
Proof.
  intros H. apply getN_ext. intros j. rewrite !getN_firstnN. destruct (j <? i) eqn:E; [|reflexivity].
  rewrite getN_del by assumption. rewrite E. reflexivity.
Qed.
Lemma skipnN_del (l : list N) i : i < lenN l -> skipnN i (del l i) = skipnN (i + 1) l.
Proof.
  intros H. apply getN_ext. intros j. rewrite !getN_skipnN, getN_del by assumption.
  replace (i + j <? i) with false by lia. f_equal. lia.
Qed.
Lemma firstnN_0 (l : list N) : firstnN 0 l = []. Proof. reflexivity. Qed.

Lemma getN_rev (l : list N) j : j < lenN l -> getN (rev l) j = getN l (lenN l - 1 - j).
Proof.
  intros H. unfold getN, lenN in *.
  assert (Hj : (N.to_nat j < length l)%nat) by lia.
  rewrite (nth_error_nth' (rev l) 0) by (rewrite rev_length; exact Hj).
  rewrite rev_nth by exact Hj.
  rewrite (nth_error_nth' l 0) by lia. f_equal. f_equal. lia.
Qed.

Lemma find_index_spec (l : list N) x s i : find_index l x s = Some i -> s <= i /\ getN l (i - s) = Some x /\ i - s < lenN l.
Proof.
  revert s; induction l as [|y t IH]; intros s H; cbn in H; [discriminate|].
  destruct (y =? x) eqn:E.
  - inversion H; subst. replace (i - i) with 0 by lia. rewrite lenN_cons. split; [lia|]. split; [|lia].
    cbn. f_equal. lia.
  - apply IH in H. destruct H as (H1 & H2 & H3). rewrite lenN_cons. split; [lia|]. split; [|lia].
    rewrite getN_cons. replace (i - s =? 0) with false by lia. replace (i - s - 1) with (i - (s + 1)) by lia. assumption.
Qed.

(** * index_of, contains, foreach *)
Lemma index_of_loop_spec d l e : dq_wf d -> repr d l ->
  forall k i, i + N.of_nat k = dq_size d -> index_of_loop d e k i = Ok (find_index (skipnN i l) e i).
Proof.
  intros Hwf [Hl Hr]. pose proof (wf_cap d Hwf) as Hc. pose proof (wf_size d Hwf) as Hsz.
  induction k as [|k IH]; intros i Hi; cbn [index_of_loop]; unfold g_deque_index_of_loop.
  - replace (i <? dq_size d) with false by lia. rewrite skipnN_all by lia. reflexivity.
  - replace (i <? dq_size d) with true by lia. rewrite wf_phys by (try assumption; lia).
    destruct (getN_lt l i) as [v Hv]; [lia|].
    rewrite (rdv_ok _ _ v) by (rewrite Hr by lia; rewrite Hv; reflexivity). cbn [bind].
    rewrite (skipnN_cons l i v Hv). cbn [find_index]. destruct (v =? e); [reflexivity|].
    rewrite wadd_small by (unfold W; lia). apply IH. lia.
Qed.
Lemma index_of_refines d l e : dq_wf d -> repr d l ->
  dq_index_of d e = Ok (match find_index l e 0 with Some i => (CC_OK, Some i) | None => (CC_ERR_OUT_OF_RANGE, None) end).
Proof.
  intros Hwf Hr. unfold dq_index_of. rewrite (index_of_loop_spec d l e Hwf Hr) by lia.
  rewrite skipnN_0. cbn [bind]. destruct (find_index l e 0); reflexivity.
Qed.

Lemma contains_loop_spec eq d l e : dq_wf d -> repr d l ->
  forall k i o, i + N.of_nat k = dq_size d -> o <= i ->
  contains_loop eq d e k i o = Ok (o + lenN (filter (fun y => eq y e) (skipnN i l))).
Proof.
  intros Hwf [Hl Hr]. pose proof (wf_cap d Hwf) as Hc. pose proof (wf_size d Hwf) as Hsz.
  induction k as [|k IH]; intros i o Hi Ho; cbn [contains_loop]; unfold g_deque_contains_loop.
  - replace (i <? dq_size d) with false by lia. rewrite skipnN_all by lia. cbn. f_equal. lia.
  - replace (i <? dq_size d) with true by lia. rewrite wf_phys by (try assumption; lia).
    destruct (getN_lt l i) as [v Hv]; [lia|].
    rewrite (rdv_ok _ _ v) by (rewrite Hr by lia; rewrite Hv; reflexivity). cbn [bind].
    rewrite (skipnN_cons l i v Hv). cbn [filter]. rewrite !wadd_small by (unfold W; lia).
    rewrite IH by (destruct (eq v e); lia). destruct (eq v e); [rewrite lenN_cons|]; f_equal; lia.
Qed.
Lemma contains_refines d l e : dq_wf d -> repr d l -> dq_contains d e = Ok (count_eq l e).
Proof.
  intros Hwf Hr. unfold dq_contains. rewrite (contains_loop_spec N.eqb d l e Hwf Hr) by lia.
  rewrite skipnN_0. reflexivity.
Qed.
Lemma contains_value_refines cmp0 d l e : dq_wf d -> repr d l ->
  dq_contains_value cmp0 d e = Ok (lenN (filter (fun y => cmp0 y e) l)).
Proof.
  intros Hwf Hr. unfold dq_contains_value. rewrite (contains_loop_spec cmp0 d l e Hwf Hr) by lia.
  rewrite skipnN_0. reflexivity.
Qed.

Lemma foreach_loop_spec d l : dq_wf d -> repr d l ->
  forall k i acc, i + N.of_nat k = dq_size d -> foreach_loop d k i acc = Ok (acc ++ skipnN i l).
Proof.
  intros Hwf [Hl Hr]. pose proof (wf_cap d Hwf) as Hc. pose proof (wf_size d Hwf) as Hsz.
  induction k as [|k IH]; intros i acc Hi; cbn [foreach_loop]; unfold g_deque_foreach_loop.
  - replace (i <? dq_size d) with false by lia. rewrite skipnN_all by lia. rewrite app_nil_r. reflexivity.
  - replace (i <? dq_size d) with true by lia. rewrite wf_phys by (try assumption; lia).
    destruct (getN_lt l i) as [v Hv]; [lia|].
    rewrite (rdv_ok _ _ v) by (rewrite Hr by lia; rewrite Hv; reflexivity). cbn [bind].
    rewrite wadd_small by (unfold W; lia). rewrite IH by lia.
    rewrite (skipnN_cons l i v Hv), <- app_assoc. reflexivity.
Qed.
Lemma foreach_refines d l : dq_wf d -> repr d l -> dq_foreach d = Ok l.
Proof. intros Hwf Hr. unfold dq_foreach. rewrite (foreach_loop_spec d l Hwf Hr) by lia. reflexivity. Qed.

(** * remove by value *)
Lemma remove_refines d l e : dq_wf d -> repr d l ->
  match find_index l e 0 with
  | Some i => exists d', dq_remove d e = Ok (CC_OK, Some e, d') /\ dq_wf d' /\ repr d' (del l i) /\ frame d d'
  | None => dq_remove d e = Ok (CC_ERR_OUT_OF_RANGE, None, d)
  end.
Proof.
  intros Hwf Hr. unfold dq_remove. rewrite (index_of_refines d l e Hwf Hr).
  destruct (find_index l e 0) as [i|] eqn:Ef; cbn [bind]; [|reflexivity].
  apply find_index_spec in Ef. destruct Ef as (_ & Hg & _). rewrite N.sub_0_r in Hg.
  pose proof (remove_at_refines d l i Hwf Hr) as H. rewrite Hg in H. exact H.
Qed.
