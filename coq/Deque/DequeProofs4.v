(** Deque proofs, part 4: the loops (index_of, contains, foreach, reverse, filter_mut, filter),
    one step of the state machine against the ideal list, and histories from the constructor. *)
From CC Require Import Base.Prelude Base.ListMem Base.ModArith Base.Alloc Base.AllocProofs.
From CC Require Import Generated.Status Generated.Constants Generated.Guards Deque.DequeModel.
From CC Require Import Deque.DequeProofs Deque.DequeProofs2 Deque.DequeProofs3.
Local Open Scope N_scope.

(** * More list facts *)
Lemma skipnN_cons (l : list N) i v : getN l i = Some v -> skipnN i l = v :: skipnN (i + 1) l.
Proof.
  intros H. apply getN_ext. intros j. rewrite getN_cons, !getN_skipnN.
  destruct (j =? 0) eqn:E.
  - assert (j = 0) by lia. subst. rewrite N.add_0_r. assumption.
  - f_equal. lia.
Qed.
Lemma skipnN_all (l : list N) i : lenN l <= i -> skipnN i l = [].
Proof. intros H. apply getN_ext. intros j. rewrite getN_skipnN, getN_nil. apply getN_ge. lia. Qed.
Lemma skipnN_0 (l : list N) : skipnN 0 l = l. Proof. reflexivity. Qed.
Lemma firstnN_all (l : list N) i : lenN l <= i -> firstnN i l = l.
Proof.
  intros H. apply getN_ext. intros j. rewrite getN_firstnN. destruct (j <? i) eqn:E; [reflexivity|].
  symmetry. apply getN_ge. lia.
Qed.
Lemma firstnN_succ (l : list N) i v : getN l i = Some v -> firstnN (i + 1) l = firstnN i l ++ [v].
Proof.
  intros H. pose proof (getN_Some_lt _ _ _ H) as Hi. apply getN_ext. intros j.
  rewrite getN_app, !getN_firstnN, lenN_firstnN, getN_cons, getN_nil.
  replace (N.min i (lenN l)) with i by lia.
  destruct (j <? i) eqn:E1.
  - replace (j <? i + 1) with true by lia. reflexivity.
  - destruct (j =? i) eqn:E2.
    + assert (j = i) by lia. subst. replace (i <? i + 1) with true by lia. replace (i - i =? 0) with true by lia. assumption.
    + replace (j <? i + 1) with false by lia. replace (j - i =? 0) with false by lia. reflexivity.
Qed.
Lemma firstnN_del (l : list N) i : i < lenN l -> firstnN i (del l i) = firstnN i l.
Proof.
  intros H. apply getN_ext. intros j. rewrite !getN_firstnN. destruct (j <? i) eqn:E; [|reflexivity].
  rewrite getN_del by assumption. rewrite E. reflexivity.
Qed.
Lemma skipnN_del (l : list N) i : i < lenN l -> skipnN i (del l i) = skipnN (i + 1) l.
Proof.
  intros H. apply getN_ext. intros j. rewrite !getN_skipnN, getN_del by assumption.
  replace (i + j <? i) with false by lia. f_equal. lia.
Qed.
Lemma firstnN_0 (l : list N) : firstnN 0 l = []. Proof. reflexivity. Qed.

Lemma getN_rev (l : list N) j : j < lenN l -> getN (rev l) j = getN l (lenN l - 1 - j).
Proof.
  intros H. unfold getN, lenN in *.
  assert (Hj : (N.to_nat j < length l)%nat) by lia.
  rewrite (nth_error_nth' (rev l) 0) by (rewrite rev_length; exact Hj).
  rewrite rev_nth by exact Hj.
  rewrite (nth_error_nth' l 0) by lia. f_equal. f_equal. lia.
Qed.

Lemma find_index_spec (l : list N) x s i : find_index l x s = Some i -> s <= i /\ getN l (i - s) = Some x /\ i - s < lenN l.
Proof.
  revert s; induction l as [|y t IH]; intros s H; cbn in H; [discriminate|].
  destruct (y =? x) eqn:E.
  - inversion H; subst. replace (i - i) with 0 by lia. rewrite lenN_cons. split; [lia|]. split; [|lia].
    cbn. f_equal. lia.
  - apply IH in H. destruct H as (H1 & H2 & H3). rewrite lenN_cons. split; [lia|]. split; [|lia].
    rewrite getN_cons. replace (i - s =? 0) with false by lia. replace (i - s - 1) with (i - (s + 1)) by lia. assumption.
Qed.

Lemma lenN_rev_N (l : list N) : lenN (rev l) = lenN l.
Proof. unfold lenN. rewrite rev_length. reflexivity. Qed.

(** * index_of, contains, foreach *)
Lemma index_of_loop_spec d l e : dq_wf d -> repr d l ->
  forall k i, i + N.of_nat k = dq_size d -> index_of_loop d e k i = Ok (find_index (skipnN i l) e i).
Proof.
  intros Hwf [Hl Hr]. pose proof (wf_cap d Hwf) as Hc. pose proof (wf_size d Hwf) as Hsz.
  induction k as [|k IH]; intros i Hi; cbn [index_of_loop]; unfold g_deque_index_of_loop.
  - replace (i <? dq_size d) with false by lia. rewrite skipnN_all by lia. reflexivity.
  - replace (i <? dq_size d) with true by lia. rewrite wf_phys by (try assumption; lia).
    destruct (getN_lt l i) as [v Hv]; [lia|].
    rewrite (rdv_ok _ _ v) by (rewrite Hr by lia; rewrite Hv; reflexivity). cbn [bind].
    rewrite (skipnN_cons l i v Hv). cbn [find_index]. destruct (v =? e); [reflexivity|].
    rewrite wadd_small by (unfold W; lia). apply IH. lia.
Qed.
Lemma index_of_refines d l e : dq_wf d -> repr d l ->
  dq_index_of d e = Ok (match find_index l e 0 with Some i => (CC_OK, Some i) | None => (CC_ERR_OUT_OF_RANGE, None) end).
Proof.
  intros Hwf Hr. unfold dq_index_of. rewrite (index_of_loop_spec d l e Hwf Hr) by lia.
  rewrite skipnN_0. cbn [bind]. destruct (find_index l e 0); reflexivity.
Qed.

Lemma contains_loop_spec eq d l e : dq_wf d -> repr d l ->
  forall k i o, i + N.of_nat k = dq_size d -> o <= i ->
  contains_loop eq d e k i o = Ok (o + lenN (filter (fun y => eq y e) (skipnN i l))).
Proof.
  intros Hwf [Hl Hr]. pose proof (wf_cap d Hwf) as Hc. pose proof (wf_size d Hwf) as Hsz.
  induction k as [|k IH]; intros i o Hi Ho; cbn [contains_loop]; unfold g_deque_contains_loop.
  - replace (i <? dq_size d) with false by lia. rewrite skipnN_all by lia. cbn. f_equal. lia.
  - replace (i <? dq_size d) with true by lia. rewrite wf_phys by (try assumption; lia).
    destruct (getN_lt l i) as [v Hv]; [lia|].
    rewrite (rdv_ok _ _ v) by (rewrite Hr by lia; rewrite Hv; reflexivity). cbn [bind].
    rewrite (skipnN_cons l i v Hv). cbn [filter]. rewrite !wadd_small by (unfold W; lia).
    rewrite IH by (destruct (eq v e); lia). destruct (eq v e); [rewrite lenN_cons|]; f_equal; lia.
Qed.
Lemma contains_refines d l e : dq_wf d -> repr d l -> dq_contains d e = Ok (count_eq l e).
Proof.
  intros Hwf Hr. unfold dq_contains. rewrite (contains_loop_spec N.eqb d l e Hwf Hr) by lia.
  rewrite skipnN_0. reflexivity.
Qed.
Lemma contains_value_refines cmp0 d l e : dq_wf d -> repr d l ->
  dq_contains_value cmp0 d e = Ok (lenN (filter (fun y => cmp0 y e) l)).
Proof.
  intros Hwf Hr. unfold dq_contains_value. rewrite (contains_loop_spec cmp0 d l e Hwf Hr) by lia.
  rewrite skipnN_0. reflexivity.
Qed.

Lemma foreach_loop_spec d l : dq_wf d -> repr d l ->
  forall k i acc, i + N.of_nat k = dq_size d -> foreach_loop d k i acc = Ok (acc ++ skipnN i l).
Proof.
  intros Hwf [Hl Hr]. pose proof (wf_cap d Hwf) as Hc. pose proof (wf_size d Hwf) as Hsz.
  induction k as [|k IH]; intros i acc Hi; cbn [foreach_loop]; unfold g_deque_foreach_loop.
  - replace (i <? dq_size d) with false by lia. rewrite skipnN_all by lia. rewrite app_nil_r. reflexivity.
  - replace (i <? dq_size d) with true by lia. rewrite wf_phys by (try assumption; lia).
    destruct (getN_lt l i) as [v Hv]; [lia|].
    rewrite (rdv_ok _ _ v) by (rewrite Hr by lia; rewrite Hv; reflexivity). cbn [bind].
    rewrite wadd_small by (unfold W; lia). rewrite IH by lia.
    rewrite (skipnN_cons l i v Hv), <- app_assoc. reflexivity.
Qed.
Lemma foreach_refines d l : dq_wf d -> repr d l -> dq_foreach d = Ok l.
Proof. intros Hwf Hr. unfold dq_foreach. rewrite (foreach_loop_spec d l Hwf Hr) by lia. reflexivity. Qed.

(** * remove by value *)
Lemma remove_refines d l e : dq_wf d -> repr d l ->
  match find_index l e 0 with
  | Some i => exists d', dq_remove d e = Ok (CC_OK, Some e, d') /\ dq_wf d' /\ repr d' (del l i) /\ frame d d'
  | None => dq_remove d e = Ok (CC_ERR_OUT_OF_RANGE, None, d)
  end.
Proof.
  intros Hwf Hr. unfold dq_remove. rewrite (index_of_refines d l e Hwf Hr).
  destruct (find_index l e 0) as [i|] eqn:Ef; cbn [bind]; [|reflexivity].
  apply find_index_spec in Ef. destruct Ef as (_ & Hg & _). rewrite N.sub_0_r in Hg.
  pose proof (remove_at_refines d l i Hwf Hr) as H. rewrite Hg in H. exact H.
Qed.

(** * reverse *)
(** the content after [i] swaps: the outer [i] positions on both sides already hold the mirror image *)
Definition stage_get (l : list N) (n i j : N) : option N :=
  if (j <? i) || (n - i <=? j) then getN l (n - 1 - j) else getN l j.

Lemma reverse_loop_spec f c n (l : list N) : pow2 c -> f < c -> n <= c -> lenN l = n ->
  forall k i (b : list slot), i <= n / 2 -> n / 2 - i <= N.of_nat k -> lenN b = c ->
  (forall j, j < n -> getN b (idx f j c) = Some (stage_get l n i j)) ->
  exists b', reverse_loop k f (wsub c 1) n b i (n - 1 - i) = Ok b' /\ lenN b' = c /\
             forall j, j < n -> getN b' (idx f j c) = Some (getN (rev l) j).
Proof.
  intros Hp Hf Hn Hl. pose proof (pow2_bounds c Hp) as Hc.
  induction k as [|k IH]; intros i b Hi Hk Hlb Hinv; cbn [reverse_loop]; unfold g_deque_reverse_loop.
  - replace (i <? n / 2) with false by lia. exists b. split; [reflexivity|]. split; [assumption|].
    intros j Hj. rewrite Hinv by assumption. rewrite getN_rev by lia. rewrite Hl. unfold stage_get.
    destruct ((j <? i) || (n - i <=? j)) eqn:E; [reflexivity|]. do 2 f_equal. lia.
  - destruct (i <? n / 2) eqn:Eg.
    + rewrite !land_add by (try assumption; lia).
      assert (Hfi : idx f i c < c) by (apply idx_lt; lia).
      assert (Hfj : idx f (n - 1 - i) c < c) by (apply idx_lt; lia).
      run_rd tmp. run_rd vl. run_wr b1. run_wr b2.
      rewrite wadd_small by (unfold W; lia). rewrite (wsub_small (n - 1 - i) 1) by (unfold W; lia).
      replace (n - 1 - i - 1) with (n - 1 - (i + 1)) by lia.
      apply IH; [lia|lia|lia|].
      intros j Hj. rewrite (getN_updN _ _ _ _ _ Hu0), (getN_updN _ _ _ _ _ Hu).
      assert (Hinj : forall j1 j2, j1 < n -> j2 < n -> idx f j1 c = idx f j2 c -> j1 = j2).
      { intros j1 j2 H1 H2. unfold idx. split_ifs; lia. }
      destruct (idx f j c =? idx f (n - 1 - i) c) eqn:E1.
      * assert (j = n - 1 - i) by (apply Hinj; lia). subst j.
        rewrite <- He. rewrite Hinv by lia. f_equal. unfold stage_get. split_ifs; f_equal; lia.
      * destruct (idx f j c =? idx f i c) eqn:E2.
        -- assert (j = i) by (apply Hinj; lia). subst j.
           rewrite <- He0. rewrite Hinv by lia. f_equal. unfold stage_get. split_ifs; f_equal; lia.
        -- rewrite Hinv by lia. f_equal. unfold stage_get.
           assert (j <> i) by (intros ->; lia). assert (j <> n - 1 - i) by (intros ->; lia).
           split_ifs; f_equal; lia.
    + exists b. split; [reflexivity|]. split; [assumption|].
      intros j Hj. rewrite Hinv by assumption. rewrite getN_rev by lia. rewrite Hl. unfold stage_get.
      destruct ((j <? i) || (n - i <=? j)) eqn:E; [reflexivity|]. do 2 f_equal. lia.
Qed.

Lemma reverse_refines d l : dq_wf d -> repr d l ->
  exists d', dq_reverse d = Ok d' /\ dq_wf d' /\ repr d' (rev l) /\ frame d d'.
Proof.
  intros Hwf [Hl Hr]. pose proof (wf_cap d Hwf) as Hc. pose proof Hwf as [Hp Hlen Hf Hs Hlast].
  unfold dq_reverse, mask.
  destruct (dq_size d =? 0) eqn:E0.
  - (* empty: j = size - 1 wraps, the loop does not run *)
    assert (Hz : dq_size d = 0) by lia. rewrite Hz. cbn [N.to_nat reverse_loop]. unfold g_deque_reverse_loop.
    change (0 <? 0 / 2) with false. cbn [bind]. eexists. split; [reflexivity|]. split; [|split; [|apply frame_set]].
    + constructor; fields; try assumption; try lia. rewrite Hlast, Hz. reflexivity.
    + split; fields; [|intros j Hj; lia]. rewrite lenN_rev_N. lia.
  - rewrite (wsub_small (dq_size d) 1) by (unfold W; lia).
    destruct (reverse_loop_spec (dq_first d) (dq_cap d) (dq_size d) l Hp Hf Hs Hl (N.to_nat (dq_size d)) 0 (dq_slots d))
      as (b' & Hb & Hlb & Hg); [lia|lia|assumption| |].
    { intros j Hj. rewrite Hr by assumption. f_equal. unfold stage_get.
      replace ((j <? 0) || (dq_size d - 0 <=? j)) with false by lia. reflexivity. }
    rewrite N.sub_0_r in Hb. rewrite Hb. cbn [bind]. eexists. split; [reflexivity|]. split; [|split; [|apply frame_set]].
    + constructor; fields; try assumption; lia.
    + split; fields; [rewrite lenN_rev_N; assumption|]. exact Hg.
Qed.

(** * filter_mut *)
Lemma filter_mut_loop_spec pred : forall k d l i, dq_wf d -> repr d l -> dq_size d - i <= N.of_nat k ->
  exists d', filter_mut_loop pred (mask d) k d i = Ok d' /\ dq_wf d' /\
             repr d' (firstnN i l ++ filter pred (skipnN i l)) /\ frame d d'.
Proof.
  induction k as [|k IH]; intros d l i Hwf Hrep Hk; pose proof Hrep as [Hl Hr];
    pose proof (wf_cap d Hwf) as Hc; pose proof (wf_size d Hwf) as Hsz; cbn [filter_mut_loop].
  - replace (i <? dq_size d) with false by lia. exists d. split; [reflexivity|]. split; [assumption|].
    split; [|apply frame_refl]. rewrite skipnN_all, firstnN_all, app_nil_r by lia. assumption.
  - destruct (i <? dq_size d) eqn:Eg.
    + fold (phys d i). rewrite wf_phys by (try assumption; lia).
      destruct (getN_lt l i) as [v Hv]; [lia|].
      rewrite (rdv_ok _ _ v) by (rewrite Hr by lia; rewrite Hv; reflexivity). cbn [bind].
      rewrite (skipnN_cons l i v Hv). cbn [filter]. destruct (pred v).
      * rewrite wadd_small by (unfold W; lia).
        destruct (IH d l (i + 1) Hwf Hrep) as (d' & Hd & Hw' & Hr' & Hf'); [lia|].
        exists d'. split; [assumption|]. split; [assumption|]. split; [|assumption].
        rewrite (firstnN_succ l i v Hv), <- app_assoc in Hr'. exact Hr'.
      * pose proof (remove_at_refines d l i Hwf Hrep) as HR. rewrite Hv in HR.
        destruct HR as (d1 & Hrm & Hw1 & Hr1 & Hf1). rewrite Hrm. cbn [bind].
        assert (Hm : mask d1 = mask d) by (unfold mask; destruct Hf1 as [-> _]; reflexivity).
        destruct Hr1 as [Hl1 Hr1'].
        destruct (IH d1 (del l i) i Hw1 (conj Hl1 Hr1')) as (d' & Hd & Hw' & Hr' & Hf'); [rewrite lenN_del in Hl1 by lia; lia|].
        rewrite Hm in Hd. exists d'. split; [assumption|]. split; [assumption|]. split; [|eapply frame_trans; eassumption].
        rewrite firstnN_del, skipnN_del in Hr' by lia. exact Hr'.
    + exists d. split; [reflexivity|]. split; [assumption|].
      split; [|apply frame_refl]. rewrite skipnN_all, firstnN_all, app_nil_r by lia. assumption.
Qed.

Lemma filter_mut_refines d l pred : dq_wf d -> repr d l ->
  match l with
  | [] => dq_filter_mut d pred = Ok (CC_ERR_OUT_OF_RANGE, d)
  | _ => exists d', dq_filter_mut d pred = Ok (CC_OK, d') /\ dq_wf d' /\ repr d' (filter pred l) /\ frame d d'
  end.
Proof.
  intros Hwf Hrep. pose proof Hrep as [Hl Hr]. unfold dq_filter_mut.
  destruct l as [|x t] eqn:El.
  - replace (dq_size d =? 0) with true by (cbn in Hl; lia). reflexivity.
  - rewrite <- El in *. replace (dq_size d =? 0) with false by (rewrite El, lenN_cons in Hl; lia).
    destruct (filter_mut_loop_spec pred (N.to_nat (dq_size d)) d l 0 Hwf Hrep) as (d' & Hd & Hw' & Hr' & Hf'); [lia|].
    rewrite Hd. cbn [bind]. exists d'. split; [reflexivity|]. split; [assumption|]. split; [|assumption].
    rewrite firstnN_0, skipnN_0 in Hr'. exact Hr'.
Qed.

(** * filter into a new deque (the result never has to grow: it inherits the source's capacity) *)
Lemma filter_loop_spec pred d l : dq_wf d -> repr d l ->
  forall k i f lf a, i + N.of_nat k = dq_size d -> dq_wf f -> repr f lf -> owns f a -> dq_size f <= i -> dq_cap f = dq_cap d ->
  exists f', filter_loop pred d k i f a = Ok (CC_OK, Some f', a) /\ dq_wf f' /\ repr f' (lf ++ filter pred (skipnN i l)) /\
             frame f f'.
Proof.
  intros Hwf [Hl Hr]. pose proof (wf_cap d Hwf) as Hc. pose proof (wf_size d Hwf) as Hsz.
  induction k as [|k IH]; intros i f lf a Hi Hwf' Hrf Hof Hsf Hcf; cbn [filter_loop].
  - exists f. split; [reflexivity|]. split; [assumption|]. split; [|apply frame_refl]. rewrite skipnN_all, app_nil_r by lia. assumption.
  - rewrite wf_phys by (try assumption; lia).
    destruct (getN_lt l i) as [v Hv]; [lia|].
    rewrite (rdv_ok _ _ v) by (rewrite Hr by lia; rewrite Hv; reflexivity). cbn [bind].
    rewrite (skipnN_cons l i v Hv). cbn [filter]. rewrite wadd_small by (unfold W; lia).
    destruct (pred v).
    + destruct (add_last_refines f lf v a Hwf' Hrf Hof) as (st & f1 & a1 & Ha & Hout & Hng).
      rewrite Ha. cbn [bind]. destruct Hng as (-> & -> & Hfr); [lia|]. cbn [stat_eqb stat_code N.eqb].
      destruct Hout as [(_ & Hw1 & Hr1 & Ho1 & _)|(Hx & _)]; [|discriminate].
      destruct (IH (i + 1) f1 (lf ++ [v]) a) as (f' & Hf' & Hw2 & Hr2 & Hfr2); try assumption; try lia.
      * destruct Hr1 as [Hl1 _]. rewrite lenN_app in Hl1. change (lenN [v]) with 1 in Hl1. destruct Hrf as [Hlf _]. lia.
      * destruct Hfr as [-> _]. assumption.
      * exists f'. split; [assumption|]. split; [assumption|]. split; [|eapply frame_trans; eassumption].
        rewrite <- app_assoc in Hr2. exact Hr2.
    + apply IH; try assumption; lia.
Qed.

Lemma filter_spec d l pred a : dq_wf d -> repr d l -> owns d a ->
  exists st r a', dq_filter d pred a = Ok (st, r, a') /\
    match r with
    | Some f => st = CC_OK /\ l <> [] /\ dq_wf f /\ repr f (filter pred l) /\ owns f a' /\ owns d a' /\
                dq_mem f = dq_mem d /\ dq_cap f = dq_cap d
    | None => (st = CC_ERR_OUT_OF_RANGE /\ l = [] /\ a' = a) \/ (st = CC_ERR_ALLOC /\ live a' = live a /\ owns d a')
    end.
Proof.
  intros Hwf Hrep Ho. pose proof Hrep as [Hl Hr]. unfold dq_filter.
  destruct (dq_size d =? 0) eqn:E0.
  { do 3 eexists. split; [reflexivity|]. left. splits; auto. destruct l; [reflexivity|rewrite lenN_cons in Hl; lia]. }
  destruct Ho as (Hok & Hpos & Hne & (n1 & H1) & (n2 & H2)).
  destruct (new_conf_spec (dq_mem d) (dq_cap d) a Hok Hpos) as (st & r & a1 & Hn & Hspec).
  rewrite Hn. cbn [bind]. destruct r as [f|].
  - destruct Hspec as (-> & Hwf' & Hrf & Hof & Hmf & Hcf & Hsf & _ & _ & Hlive).
    rewrite upper_pow_two_fix in Hcf by apply Hwf.
    destruct (filter_loop_spec pred d l Hwf Hrep (N.to_nat (dq_size d)) 0 f [] a1) as (f' & Hf' & Hw2 & Hr2 & Hfr); try assumption; try lia.
    rewrite Hf'. do 3 eexists. split; [reflexivity|]. cbv iota. rewrite skipnN_0 in Hr2. cbn [app] in Hr2.
    destruct Hfr as (Hc' & Hh' & Hb' & Hm').
    assert (Hof' : owns f' a1) by (eapply frame_owns; [|exact Hof]; repeat split; assumption).
    splits; auto; try congruence.
    + intros ->. cbn in Hl. lia.
    + destruct Hof as (Hok1 & Hpos1 & _). unfold owns. rewrite Hlive. splits; auto; eexists; right; right; eassumption.
  - destruct Hspec as (-> & Hl1 & Hok1 & Hpos1). do 3 eexists. split; [reflexivity|]. right. splits; auto.
    unfold owns. rewrite Hl1. splits; eauto.
Qed.

(** * One step of the state machine *)
Definition allocating (o : dq_op) : bool :=
  match o with OAddFirst _ | OAddLast _ | OAddAt _ _ | OTrim => true | _ => false end.
(** the only guard: an insertion must land in a branch of cc_deque_add_at that is right (D17) *)
Definition op_ok (d : deque) (o : dq_op) : Prop :=
  match o with OAddAt _ i => add_at_branch_ok d i = true | _ => True end.

(** [d', a', out] is what the ideal list prescribes, or the operation was refused for lack of memory
    and nothing at all changed *)
Definition out_status (o : dq_out) : stat := match o with DOut st _ => st end.
Definition step_post (d : deque) (a : alloc_st) (o : dq_op) (out : dq_out) (d' : deque) (a' : alloc_st) : Prop :=
  dq_inv d' /\ owns d' a' /\ same_ids d d' /\ led_step d a d' a' /\
  (((out, dq_abs d') = spec_step (dq_abs d) o /\ (allocating o = false -> a' = a /\ frame d d') /\
    (out_status out <> CC_OK -> d' = d /\ a' = a)) \/
   (out = DOut CC_ERR_ALLOC [] /\ allocating o = true /\ d' = d /\ live a' = live a)).

Lemma frame_same d d' : frame d d' -> same_ids d d'.
Proof. intros (_ & H1 & _ & H2). split; assumption. Qed.

Lemma post_frame d a o out d' l' :
  dq_wf d' -> repr d' l' -> frame d d' -> owns d a -> (out, l') = spec_step (dq_abs d) o -> out_status out = CC_OK ->
  step_post d a o out d' a.
Proof.
  intros Hw Hr Hf Ho Hs Hst. destruct (repr_inv d' l' Hw Hr) as [Hi Ha].
  split; [assumption|]. split; [eapply frame_owns; eassumption|]. split; [apply frame_same; assumption|].
  split; [left; split; [reflexivity|apply Hf]|].
  left. rewrite Ha. splits; auto. congruence.
Qed.
Lemma post_same d a o out :
  dq_inv d -> owns d a -> (out, dq_abs d) = spec_step (dq_abs d) o -> step_post d a o out d a.
Proof.
  intros Hi Ho Hs. split; [assumption|]. split; [assumption|]. split; [split; reflexivity|].
  split; [left; split; reflexivity|]. left. split; [assumption|]. split; [|auto].
  intros _. split; [reflexivity|apply frame_refl].
Qed.
Lemma post_alloc d a o out d' a' l' st :
  alloc_outcome d a l' st d' a' -> dq_inv d -> allocating o = true ->
  out = DOut st [] -> (DOut CC_OK [], l') = spec_step (dq_abs d) o ->
  step_post d a o out d' a'.
Proof.
  intros [(-> & Hw & Hr & Ho & Hid & Hled)|(-> & -> & Hl & Ho)] Hi Hal -> Hs.
  - destruct (repr_inv d' l' Hw Hr) as [Hi' Ha]. split; [assumption|]. split; [assumption|]. split; [assumption|].
    split; [assumption|].
    left. rewrite Ha. split; [assumption|]. split; [rewrite Hal; discriminate|]. cbn. congruence.
  - split; [assumption|]. split; [assumption|]. split; [split; reflexivity|]. split; [left; auto|]. right. auto.
Qed.

Theorem dq_step_refines d a o : dq_inv d -> owns d a -> op_ok d o ->
  exists out d' a', dq_step d a o = Ok (out, d', a') /\ step_post d a o out d' a'.
Proof.
  intros Hinv Ho Hop. pose proof (inv_repr d Hinv) as Hrep. pose proof (inv_wf d Hinv) as Hwf.
  set (l := dq_abs d) in *. pose proof Hrep as [Hl _].
  destruct o as [x|x|x i|x i|x|i| | | |i| | | | |x|x|p|]; cbn [dq_step].
  - (* add_first *)
    destruct (add_first_refines d l x a Hwf Hrep Ho) as (st & d' & a' & He & Hout & _). rewrite He. cbn [bind].
    do 3 eexists. split; [reflexivity|]. eapply post_alloc; eauto.
  - (* add_last *)
    destruct (add_last_refines d l x a Hwf Hrep Ho) as (st & d' & a' & He & Hout & _). rewrite He. cbn [bind].
    do 3 eexists. split; [reflexivity|]. eapply post_alloc; eauto.
  - (* add_at *)
    destruct (add_at_partial d l x i a Hwf Hrep Ho Hop) as (st & d' & a' & He & Hout). rewrite He. cbn [bind].
    do 3 eexists. split; [reflexivity|]. destruct (i <? lenN l) eqn:Ei.
    + eapply post_alloc; eauto. cbn [spec_step]. fold l. rewrite Ei. reflexivity.
    + destruct Hout as (-> & -> & ->). split; [assumption|]. split; [assumption|]. split; [split; reflexivity|].
      split; [left; split; reflexivity|]. left.
      cbn [spec_step]. fold l. rewrite Ei. split; [reflexivity|]. split; [discriminate|auto].
  - (* replace_at *)
    pose proof (replace_at_refines d l x i Hwf Hrep) as H. destruct (getN l i) as [old|] eqn:Eg.
    + destruct H as (d' & He & Hw & Hr & Hf). rewrite He. cbn [bind]. do 3 eexists. split; [reflexivity|].
      eapply post_frame; eauto; [cbn [spec_step olist]; fold l; rewrite nthN_spec, Eg; reflexivity].
    + rewrite H. cbn [bind]. do 3 eexists. split; [reflexivity|]. apply post_same; auto.
      cbn [spec_step olist]. fold l. rewrite nthN_spec, Eg. reflexivity.
  - (* remove *)
    pose proof (remove_refines d l x Hwf Hrep) as H. destruct (find_index l x 0) as [i|] eqn:Eg.
    + destruct H as (d' & He & Hw & Hr & Hf). rewrite He. cbn [bind]. do 3 eexists. split; [reflexivity|].
      eapply post_frame; eauto; [cbn [spec_step olist]; fold l; rewrite Eg; reflexivity].
    + rewrite H. cbn [bind]. do 3 eexists. split; [reflexivity|]. apply post_same; auto.
      cbn [spec_step olist]. fold l. rewrite Eg. reflexivity.
  - (* remove_at *)
    pose proof (remove_at_refines d l i Hwf Hrep) as H. destruct (getN l i) as [v|] eqn:Eg.
    + destruct H as (d' & He & Hw & Hr & Hf). rewrite He. cbn [bind]. do 3 eexists. split; [reflexivity|].
      eapply post_frame; eauto; [cbn [spec_step olist]; fold l; rewrite nthN_spec, Eg; reflexivity].
    + rewrite H. cbn [bind]. do 3 eexists. split; [reflexivity|]. apply post_same; auto.
      cbn [spec_step olist]. fold l. rewrite nthN_spec, Eg. reflexivity.
  - (* remove_first *)
    pose proof (remove_first_refines d l Hwf Hrep) as H. destruct l as [|x t] eqn:El.
    + rewrite H. cbn [bind]. do 3 eexists. split; [reflexivity|]. apply post_same; auto.
      cbn [spec_step olist]. fold l. rewrite El. reflexivity.
    + destruct H as (d' & He & Hw & Hr & Hf). rewrite He. cbn [bind]. do 3 eexists. split; [reflexivity|].
      eapply post_frame; eauto; [cbn [spec_step olist]; fold l; rewrite El; reflexivity].
  - (* remove_last *)
    pose proof (remove_last_refines d l Hwf Hrep) as H. destruct l as [|x t] eqn:El.
    + rewrite H. cbn [bind]. do 3 eexists. split; [reflexivity|]. apply post_same; auto.
      cbn [spec_step olist]. fold l. rewrite El. reflexivity.
    + destruct H as (d' & He & Hw & Hr & Hf). rewrite He. cbn [bind]. do 3 eexists. split; [reflexivity|].
      eapply post_frame; eauto; [cbn [spec_step olist]; fold l; rewrite El; reflexivity].
  - (* remove_all *)
    destruct (remove_all_refines d Hwf) as (Hw & Hr & Hf). do 3 eexists. split; [reflexivity|].
    eapply post_frame; eauto.
  - (* get_at *)
    rewrite (get_at_refines d l i Hwf Hrep). cbn [bind].
    destruct (getN l i) eqn:Eg; (do 3 eexists; split; [reflexivity|]; apply post_same; auto;
      cbn [spec_step olist]; fold l; rewrite nthN_spec, Eg; reflexivity).
  - (* get_first *)
    rewrite (get_first_refines d l Hwf Hrep). cbn [bind].
    destruct l as [|x t] eqn:El; (do 3 eexists; split; [reflexivity|]; apply post_same; auto;
      cbn [spec_step olist]; fold l; rewrite El; reflexivity).
  - (* get_last *)
    rewrite (get_last_refines d l Hwf Hrep). cbn [bind].
    destruct l as [|x t] eqn:El; (do 3 eexists; split; [reflexivity|]; apply post_same; auto;
      cbn [spec_step olist]; fold l; rewrite El; reflexivity).
  - (* trim *)
    destruct (trim_refines d l a Hwf Hrep Ho) as (st & d' & a' & He & Hout). rewrite He. cbn [bind].
    do 3 eexists. split; [reflexivity|]. eapply (post_alloc d a OTrim _ d' a' l st); eauto.
    destruct Hout as [(-> & Hw & Hr & Ho' & Hid & _ & _ & Hled)|H]; [left; splits; auto|right; auto].
  - (* reverse *)
    destruct (reverse_refines d l Hwf Hrep) as (d' & He & Hw & Hr & Hf). rewrite He. cbn [bind].
    do 3 eexists. split; [reflexivity|]. eapply post_frame; eauto.
  - (* contains *)
    rewrite (contains_refines d l x Hwf Hrep). cbn [bind]. do 3 eexists. split; [reflexivity|]. apply post_same; auto.
  - (* index_of *)
    rewrite (index_of_refines d l x Hwf Hrep). cbn [bind].
    destruct (find_index l x 0) eqn:Eg; (do 3 eexists; split; [reflexivity|]; apply post_same; auto;
      cbn [spec_step olist]; fold l; rewrite Eg; reflexivity).
  - (* filter_mut *)
    pose proof (filter_mut_refines d l p Hwf Hrep) as H. destruct l as [|x t] eqn:El.
    + rewrite H. cbn [bind]. do 3 eexists. split; [reflexivity|]. apply post_same; auto.
      cbn [spec_step]. fold l. rewrite El. reflexivity.
    + destruct H as (d' & He & Hw & Hr & Hf). rewrite He. cbn [bind]. do 3 eexists. split; [reflexivity|].
      eapply post_frame; eauto; [cbn [spec_step]; fold l; rewrite El; reflexivity].
  - (* foreach *)
    rewrite (foreach_refines d l Hwf Hrep). cbn [bind]. do 3 eexists. split; [reflexivity|]. apply post_same; auto.
Qed.

(** * Histories *)
Fixpoint ops_ok (d : deque) (a : alloc_st) (ops : list dq_op) : Prop :=
  match ops with
  | [] => True
  | o :: r => op_ok d o /\ match dq_step d a o with Ok (_, d1, a1) => ops_ok d1 a1 r | Fault _ => True end
  end.
Definition no_add_at (ops : list dq_op) : Prop := forall x i, ~ In (OAddAt x i) ops.
Lemma no_add_at_ok ops : no_add_at ops -> forall d a, ops_ok d a ops.
Proof.
  induction ops as [|o r IH]; intros H d a; cbn [ops_ok]; [exact I|]. split.
  - destruct o; try exact I. exfalso. eapply H. left. reflexivity.
  - destruct (dq_step d a o) as [[[? d1] a1]|]; [|exact I]. apply IH. intros x i Hin. eapply H. right. eassumption.
Qed.

Theorem dq_run_refines ops : forall d a, dq_inv d -> owns d a -> ops_ok d a ops ->
  exists outs d' a', dq_run d a ops = Ok (outs, d', a') /\ dq_inv d' /\ owns d' a' /\ same_ids d d' /\
                     (outs, dq_abs d') = spec_run (dq_abs d) ops (map is_alloc_err outs).
Proof.
  induction ops as [|o r IH]; intros d a Hinv Ho Hok; cbn [dq_run].
  - do 3 eexists. split; [reflexivity|]. splits; auto. split; reflexivity.
  - destruct Hok as [Hop Hrest].
    destruct (dq_step_refines d a o Hinv Ho Hop) as (out & d1 & a1 & Hs & Hi1 & Ho1 & Hid1 & Hled1 & Hpost).
    rewrite Hs in *. cbn [bind].
    destruct (IH d1 a1 Hi1 Ho1 Hrest) as (outs & d2 & a2 & Hr & Hi2 & Ho2 & Hid2 & Hspec).
    rewrite Hr. cbn [bind]. do 3 eexists. split; [reflexivity|]. splits; auto.
    + destruct Hid1, Hid2. split; congruence.
    + cbn [map spec_run]. destruct Hpost as [[Hsp _]|(-> & _ & -> & _)].
      * assert (Hne : is_alloc_err out = false).
        { destruct (spec_step (dq_abs d) o) as [o' l'] eqn:E. inversion Hsp; subst.
          destruct o; cbn in E; repeat match type of E with context [match ?x with _ => _ end] => destruct x end;
            inversion E; reflexivity. }
        rewrite Hne. rewrite <- Hsp. rewrite <- Hspec. reflexivity.
      * cbn [is_alloc_err]. rewrite <- Hspec. reflexivity.
Qed.

(** from the constructor, for every configured capacity (0 and non-powers of two included) *)
Theorem dq_new_run_refines mem capacity a ops st d a1 :
  ledger_ok a -> 0 < next_id a ->
  dq_new_conf mem capacity a = Ok (st, Some d, a1) -> ops_ok d a1 ops ->
  dq_inv d /\ dq_abs d = [] /\
  exists outs d' a', dq_run d a1 ops = Ok (outs, d', a') /\ dq_inv d' /\ owns d' a' /\
                     (outs, dq_abs d') = spec_run [] ops (map is_alloc_err outs).
Proof.
  intros Hok Hpos Hn Hops. destruct (new_conf_spec mem capacity a Hok Hpos) as (st' & r & a' & Hn' & Hspec).
  rewrite Hn in Hn'. inversion Hn'; subst. destruct Hspec as (_ & Hwf & Hr & Ho & _).
  destruct (repr_inv d [] Hwf Hr) as [Hinv Habs]. split; [assumption|]. split; [assumption|].
  destruct (dq_run_refines ops d a' Hinv Ho Hops) as (outs & d' & a2 & Hrun & Hi & Ho' & _ & Hsp).
  rewrite Habs in Hsp. eauto 10.
Qed.

(** * add_at at full strength is refuted: capacity 8, [1;2;3;4] at the start of the buffer, insert 9 at 1 *)
Definition witness_deque : deque :=
  {| dq_size := 4; dq_cap := 8; dq_first := 0; dq_last := 4;
     dq_slots := [Some 1; Some 2; Some 3; Some 4; None; None; None; None];
     dq_hdr := 1; dq_buf := 2; dq_mem := Conf |}.
Definition witness_alloc : alloc_st :=
  {| plan := []; limit := 1099511627776; next_id := 3;
     live := [ {| b_id := 2; b_tag := Conf; b_bytes := 64 |}; {| b_id := 1; b_tag := Conf; b_bytes := 64 |} ]; nreq := 2 |}.

Lemma witness_inv : dq_inv witness_deque.
Proof.
  constructor.
  - constructor; cbn; try lia; try reflexivity. exists 3. split; [lia|reflexivity].
  - cbn [witness_deque dq_size dq_first dq_cap dq_slots]. intros i Hi.
    assert (H : i = 0 \/ i = 1 \/ i = 2 \/ i = 3) by lia.
    destruct H as [ -> | [ -> | [ -> | -> ] ] ]; vm_compute; eauto.
Qed.
Lemma witness_owns : owns witness_deque witness_alloc.
Proof.
  unfold owns, ledger_ok. cbn. splits; try lia.
  - repeat constructor; cbn; intuition lia.
  - intros b [Hb|[Hb|Hb]]; [subst b; cbn; lia|subst b; cbn; lia|destruct Hb].
  - eexists; right; left; reflexivity.
  - eexists; left; reflexivity.
Qed.

Lemma deque_add_at_refuted :
  exists d a x i, dq_inv d /\ owns d a /\ i < dq_size d /\
    exists d' a', dq_add_at d x i a = Ok (CC_OK, d', a') /\ dq_abs d' <> ins (dq_abs d) i x /\
                  add_at_branch_ok d i = false.
Proof.
  exists witness_deque, witness_alloc, 9, 1. split; [apply witness_inv|]. split; [apply witness_owns|].
  split; [reflexivity|]. do 2 eexists. split; [vm_compute; reflexivity|]. split; [vm_compute; discriminate|reflexivity].
Qed.

(** the back-half wrap branch with a single free slot is wrong as well *)
Lemma deque_add_at_refuted_back :
  exists d a x i, dq_inv d /\ owns d a /\ i < dq_size d /\
    exists d' a', dq_add_at d x i a = Ok (CC_OK, d', a') /\ dq_abs d' <> ins (dq_abs d) i x.
Proof.
  set (d := {| dq_size := 3; dq_cap := 4; dq_first := 1; dq_last := 0;
               dq_slots := [Some 70; Some 1; Some 2; Some 3]; dq_hdr := 1; dq_buf := 2; dq_mem := Conf |}).
  exists d, witness_alloc, 9, 2. split.
  { constructor.
    - constructor; cbn; try lia; try reflexivity. exists 2. split; [lia|reflexivity].
    - cbn [d dq_size dq_first dq_cap dq_slots]. intros i Hi.
      assert (H : i = 0 \/ i = 1 \/ i = 2) by lia. destruct H as [ -> | [ -> | -> ] ]; vm_compute; eauto. }
  split; [exact witness_owns|]. split; [reflexivity|].
  do 2 eexists. split; [vm_compute; reflexivity|]. vm_compute. discriminate.
Qed.

(** * The statements exported for property C05 *)
Lemma dq_step_inv d a o out d' a' : dq_inv d -> owns d a -> op_ok d o ->
  dq_step d a o = Ok (out, d', a') -> dq_inv d' /\ owns d' a' /\ dq_hdr d' = dq_hdr d /\ dq_mem d' = dq_mem d.
Proof.
  intros Hi Ho Hop Hs. destruct (dq_step_refines d a o Hi Ho Hop) as (out1 & d1 & a1 & Hs1 & Hi1 & Ho1 & [Hh Hm] & _).
  rewrite Hs in Hs1. inversion Hs1; subst. auto.
Qed.

Lemma dq_index d : dq_inv d ->
  (forall i, dq_get_at d i = Ok (match getN (dq_abs d) i with
                                 | Some v => (CC_OK, Some v) | None => (CC_ERR_OUT_OF_RANGE, None) end)) /\
  (forall i, i < dq_size d ->
     phys d i = (dq_first d + i) mod dq_cap d /\ getN (dq_slots d) (phys d i) = Some (getN (dq_abs d) i)) /\
  lenN (dq_abs d) = dq_size d.
Proof.
  intros Hi. pose proof (inv_repr d Hi) as Hr. pose proof (inv_wf d Hi) as Hwf. split; [|split].
  - intros i. apply get_at_refines; assumption.
  - intros i Hlt. pose proof (wf_cap d Hwf). pose proof (wf_size d Hwf). pose proof (wf_first d Hwf).
    rewrite wf_phys by (try assumption; lia). split; [symmetry; apply mod_idx; lia|]. apply Hr. assumption.
  - apply abs_len.
Qed.

Lemma dq_step_refines_no_add_at d a o : dq_inv d -> owns d a -> (forall x i, o <> OAddAt x i) ->
  exists out d' a', dq_step d a o = Ok (out, d', a') /\ step_post d a o out d' a'.
Proof.
  intros Hi Ho Hn. apply dq_step_refines; auto. destruct o; try exact I. exfalso. eapply Hn. reflexivity.
Qed.

Lemma deque_add_at_partial d a x i : dq_inv d -> owns d a -> add_at_branch_ok d i = true ->
  exists out d' a', dq_step d a (OAddAt x i) = Ok (out, d', a') /\ step_post d a (OAddAt x i) out d' a'.
Proof. intros Hi Ho Hb. apply dq_step_refines; auto. Qed.

Lemma growth_trim_copy_preserve d a : dq_inv d -> owns d a ->
  (forall st d' a', dq_expand d a = Ok (st, d', a') ->
     dq_inv d' /\ dq_abs d' = dq_abs d /\ owns d' a' /\ (st = CC_OK -> dq_cap d' = 2 * dq_cap d) /\ (st <> CC_OK -> d' = d)) /\
  (forall st d' a', dq_trim d a = Ok (st, d', a') ->
     dq_inv d' /\ dq_abs d' = dq_abs d /\ owns d' a' /\ (st = CC_OK \/ st = CC_ERR_ALLOC /\ d' = d) /\
     (st = CC_OK -> dq_cap d' = if dq_cap d =? dq_size d then dq_cap d else upper_pow_two (dq_size d))) /\
  (forall cp st d2 a', dq_copy d cp a = Ok (st, Some d2, a') ->
     dq_inv d2 /\ dq_abs d2 = copy_image cp (dq_abs d) /\ owns d2 a' /\ owns d a' /\ dq_cap d2 = dq_cap d /\ dq_mem d2 = dq_mem d).
Proof.
  intros Hi Ho. pose proof (inv_repr d Hi) as Hr. pose proof (inv_wf d Hi) as Hwf. split; [|split].
  - intros st d' a' He. destruct (expand_spec d (dq_abs d) a Hwf Hr Ho) as (st1 & d1 & a1 & He1 & H).
    rewrite He in He1. inversion He1; subst.
    destruct H as [(-> & Hw & Hr' & Ho' & _ & Hc & _)|(Hne & -> & _ & Ho')].
    + destruct (repr_inv _ _ Hw Hr') as [Hi' Ha]. splits; auto. congruence.
    + splits; auto. congruence.
  - intros st d' a' He. destruct (trim_refines d (dq_abs d) a Hwf Hr Ho) as (st1 & d1 & a1 & He1 & H).
    rewrite He in He1. inversion He1; subst.
    destruct H as [(-> & Hw & Hr' & Ho' & _ & _ & Hc & _)|(-> & -> & _ & Ho')].
    + destruct (repr_inv _ _ Hw Hr') as [Hi' Ha]. splits; auto.
    + splits; auto. discriminate.
  - intros cp st d2 a' He. destruct (copy_spec d (dq_abs d) cp a Hwf Hr Ho) as (st1 & r & a1 & He1 & H).
    rewrite He in He1. inversion He1; subst.
    destruct H as (_ & Hw & Hr' & Ho2 & Ho' & Hm & Hc & _).
    destruct (repr_inv _ _ Hw Hr') as [Hi' Ha]. splits; auto.
Qed.
