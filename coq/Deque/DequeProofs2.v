(** Deque proofs, part 2: per-operation refinement lemmas for the operations that do not loop
    (get_*, replace_at, remove_first/last/all, add_first/last, remove_at with its four shifting
    branches, add_at under its branch guard), and the refutation of add_at at full strength. *)
From CC Require Import Base.Prelude Base.ListMem Base.ModArith Base.Alloc Base.AllocProofs.
From CC Require Import Generated.Status Generated.Constants Generated.Guards Deque.DequeModel Deque.DequeProofs.
Local Open Scope N_scope.

(** fields that only construction, growth and trimming change *)
Definition frame (d d' : deque) : Prop :=
  dq_cap d' = dq_cap d /\ dq_hdr d' = dq_hdr d /\ dq_buf d' = dq_buf d /\ dq_mem d' = dq_mem d.
Lemma frame_refl d : frame d d. Proof. repeat split. Qed.
Lemma frame_set d s f l b : frame d (set_layout d s f l b). Proof. repeat split. Qed.
Lemma frame_owns d d' a : frame d d' -> owns d a -> owns d' a.
Proof. intros (_ & H1 & H2 & H3). unfold owns. rewrite H1, H2, H3. auto. Qed.
Lemma frame_trans d1 d2 d3 : frame d1 d2 -> frame d2 d3 -> frame d1 d3.
Proof. unfold frame. intuition congruence. Qed.

Ltac fields := cbn [dq_size dq_cap dq_first dq_last dq_slots dq_hdr dq_buf dq_mem set_layout].

(** finishing a [repr] leaf: the goal reads a slot of the old buffer that [Hr] knows *)
Ltac leaf Hr :=
  try reflexivity;
  try (rewrite <- Hr by lia; f_equal; try lia; unfold idx; split_ifs; lia).

(** ** Reads *)
Lemma get_at_refines d l i : dq_wf d -> repr d l ->
  dq_get_at d i = Ok (match getN l i with Some v => (CC_OK, Some v) | None => (CC_ERR_OUT_OF_RANGE, None) end).
Proof.
  intros Hwf [Hl Hr]. unfold dq_get_at, g_deque_get_at_range.
  destruct (dq_size d <=? i) eqn:E.
  - rewrite getN_ge by lia. reflexivity.
  - destruct (getN_lt l i) as [v Hv]; [lia|]. rewrite Hv.
    rewrite wf_phys by (try assumption; pose proof (wf_size d Hwf); lia).
    rewrite (rdv_ok _ _ v); [reflexivity|]. rewrite Hr by lia. rewrite Hv. reflexivity.
Qed.

Lemma idx_0 f c : f < c -> idx f 0 c = f.
Proof. intros. unfold idx. replace (f + 0 <? c) with true by lia. lia. Qed.

Lemma get_first_refines d l : dq_wf d -> repr d l ->
  dq_get_first d = Ok (match l with x :: _ => (CC_OK, Some x) | [] => (CC_ERR_OUT_OF_RANGE, None) end).
Proof.
  intros Hwf [Hl Hr]. unfold dq_get_first, g_deque_get_first_empty.
  destruct l as [|x t].
  - replace (dq_size d =? 0) with true by (cbn in Hl; lia). reflexivity.
  - rewrite lenN_cons in Hl. replace (dq_size d =? 0) with false by lia.
    rewrite (rdv_ok _ _ x); [reflexivity|]. specialize (Hr 0). rewrite idx_0 in Hr by apply Hwf. apply Hr. lia.
Qed.

Lemma last_slot d : dq_wf d -> 0 < dq_size d ->
  N.land (wsub (dq_last d) 1) (mask d) = idx (dq_first d) (dq_size d - 1) (dq_cap d).
Proof.
  intros Hwf Hs. pose proof (wf_last_lt d Hwf). destruct Hwf as [Hp Hlen Hf Hsz Hlast].
  unfold mask. rewrite land_pred by assumption. rewrite Hlast. unfold idx. split_ifs; lia.
Qed.

Lemma last_slot' d : dq_wf d -> 0 < dq_size d ->
  N.land (wsub (dq_last d) 1) (wsub (dq_cap d) 1) = idx (dq_first d) (dq_size d - 1) (dq_cap d).
Proof. exact (last_slot d). Qed.

Lemma get_last_refines d l : dq_wf d -> repr d l ->
  dq_get_last d = Ok (match l with [] => (CC_ERR_OUT_OF_RANGE, None) | _ => (CC_OK, Some (last l 0)) end).
Proof.
  intros Hwf [Hl Hr]. unfold dq_get_last, g_deque_get_last_empty.
  destruct l as [|x t] eqn:El.
  - replace (dq_size d =? 0) with true by (cbn in Hl; lia). reflexivity.
  - rewrite <- El in *. assert (Hne : l <> []) by (rewrite El; discriminate).
    assert (0 < dq_size d) by (rewrite <- Hl, El, lenN_cons; lia).
    replace (dq_size d =? 0) with false by lia. rewrite last_slot by assumption.
    rewrite (rdv_ok _ _ (last l 0)); [rewrite El; reflexivity|].
    rewrite Hr by lia. rewrite <- Hl. rewrite getN_last by assumption. reflexivity.
Qed.

(** ** replace_at *)
Lemma replace_at_refines d l x i : dq_wf d -> repr d l ->
  match getN l i with
  | Some old => exists d', dq_replace_at d x i = Ok (CC_OK, Some old, d') /\ dq_wf d' /\ repr d' (repl l i x) /\ frame d d'
  | None => dq_replace_at d x i = Ok (CC_ERR_OUT_OF_RANGE, None, d)
  end.
Proof.
  intros Hwf [Hl Hr]. unfold dq_replace_at, g_deque_replace_at_range.
  destruct (getN l i) as [old|] eqn:Ev.
  - assert (Hi : i < dq_size d) by (apply getN_Some_lt in Ev; lia).
    pose proof (wf_cap d Hwf) as Hc. pose proof Hwf as [Hp Hlen Hf Hs Hlast].
    replace (dq_size d <=? i) with false by lia. rewrite wf_phys by (try assumption; lia).
    rewrite (rdv_ok _ _ old) by (rewrite Hr by lia; rewrite Ev; reflexivity). cbn [bind].
    destruct (wr_ok (dq_slots d) (idx (dq_first d) i (dq_cap d)) (Some x)) as (b & Hw & Hu).
    { rewrite Hlen. apply idx_lt; lia. }
    rewrite Hw. cbn [bind]. eexists. split; [reflexivity|]. split; [|split; [|apply frame_set]].
    + constructor; fields; try assumption. erewrite lenN_updN by eassumption. assumption.
    + split; fields; [rewrite lenN_repl by lia; assumption|].
      intros j Hj. rewrite (getN_updN _ _ _ _ _ Hu), getN_repl by lia.
      destruct (j =? i) eqn:Eji.
      * assert (j = i) by lia. subst. rewrite N.eqb_refl. reflexivity.
      * replace (idx (dq_first d) j (dq_cap d) =? idx (dq_first d) i (dq_cap d)) with false; [auto|].
        unfold idx. split_ifs; lia.
  - apply getN_None_ge in Ev. replace (dq_size d <=? i) with true by lia. reflexivity.
Qed.

(** ** remove_first / remove_last / remove_all *)
Lemma remove_first_refines d l : dq_wf d -> repr d l ->
  match l with
  | x :: t => exists d', dq_remove_first d = Ok (CC_OK, Some x, d') /\ dq_wf d' /\ repr d' t /\ frame d d'
  | [] => dq_remove_first d = Ok (CC_ERR_OUT_OF_RANGE, None, d)
  end.
Proof.
  intros Hwf [Hl Hr]. unfold dq_remove_first, g_deque_remove_first_empty.
  destruct l as [|x t].
  - replace (dq_size d =? 0) with true by (cbn in Hl; lia). reflexivity.
  - rewrite lenN_cons in Hl. replace (dq_size d =? 0) with false by lia.
    pose proof (wf_cap d Hwf) as Hc. pose proof Hwf as [Hp Hlen Hf Hs Hlast].
    rewrite (rdv_ok _ _ x) by (specialize (Hr 0); rewrite idx_0 in Hr by assumption; apply Hr; lia).
    cbn [bind]. eexists. split; [reflexivity|]. unfold mask. rewrite land_succ by assumption.
    rewrite wsub_small by (unfold W; lia).
    split; [|split; [|apply frame_set]].
    + constructor; fields; try assumption; try lia.
      * split_ifs; lia.
      * rewrite Hlast. unfold idx. split_ifs; lia.
    + split; fields; [lia|]. intros j Hj. specialize (Hr (j + 1)). rewrite getN_cons in Hr.
      replace (j + 1 =? 0) with false in Hr by lia. replace (j + 1 - 1) with j in Hr by lia.
      rewrite <- Hr by lia. f_equal. unfold idx. split_ifs; lia.
Qed.

Lemma remove_last_refines d l : dq_wf d -> repr d l ->
  match l with
  | [] => dq_remove_last d = Ok (CC_ERR_OUT_OF_RANGE, None, d)
  | _ => exists d', dq_remove_last d = Ok (CC_OK, Some (last l 0), d') /\ dq_wf d' /\ repr d' (removelast l) /\ frame d d'
  end.
Proof.
  intros Hwf [Hl Hr]. unfold dq_remove_last, g_deque_remove_last_empty.
  destruct l as [|x t] eqn:El.
  - replace (dq_size d =? 0) with true by (cbn in Hl; lia). reflexivity.
  - rewrite <- El in *. assert (Hne : l <> []) by (rewrite El; discriminate).
    assert (Hpos : 0 < dq_size d) by (rewrite <- Hl, El, lenN_cons; lia).
    replace (dq_size d =? 0) with false by lia. rewrite last_slot by assumption.
    pose proof (wf_cap d Hwf) as Hc. pose proof Hwf as [Hp Hlen Hf Hs Hlast].
    rewrite (rdv_ok _ _ (last l 0)) by (rewrite Hr by lia; rewrite <- Hl; rewrite getN_last by assumption; reflexivity).
    cbn [bind]. eexists. split; [reflexivity|]. rewrite wsub_small by (unfold W; lia).
    split; [|split; [|apply frame_set]].
    + constructor; fields; try assumption; lia.
    + split; fields.
      * rewrite removelast_del, lenN_del by (try assumption; lia). lia.
      * intros j Hj. rewrite getN_removelast. replace (j + 1 <? lenN l) with true by lia. apply Hr. lia.
Qed.

Lemma remove_all_refines d : dq_wf d -> dq_wf (dq_remove_all d) /\ repr (dq_remove_all d) [] /\ frame d (dq_remove_all d).
Proof.
  intros Hwf. pose proof (wf_cap d Hwf) as Hc. destruct Hwf as [Hp Hlen Hf Hs Hlast]. unfold dq_remove_all.
  split; [|split; [|apply frame_set]].
  - constructor; fields; try assumption; try lia. unfold idx. replace (0 + 0 <? dq_cap d) with true by lia. reflexivity.
  - split; fields; [reflexivity|]. intros j Hj. lia.
Qed.

(** ** add_first / add_last *)
Lemma add_first_nogrow d l x : dq_wf d -> repr d l -> dq_size d < dq_cap d ->
  exists b, wr (dq_slots d) (N.land (wsub (dq_first d) 1) (mask d)) (Some x) = Ok b /\
    let d' := set_layout d (wadd (dq_size d) 1) (N.land (wsub (dq_first d) 1) (mask d)) (dq_last d) b in
    dq_wf d' /\ repr d' (x :: l).
Proof.
  intros Hwf [Hl Hr] Hroom. pose proof (wf_cap d Hwf) as Hc. pose proof Hwf as [Hp Hlen Hf Hs Hlast].
  unfold mask. rewrite land_pred by assumption. rewrite wadd_small by (unfold W; lia).
  set (f' := if dq_first d =? 0 then dq_cap d - 1 else dq_first d - 1).
  assert (Hf' : f' < dq_cap d) by (unfold f'; split_ifs; lia).
  destruct (wr_ok (dq_slots d) f' (Some x)) as (b & Hw & Hu); [lia|].
  exists b. split; [assumption|]. cbv zeta. split.
  - constructor; fields; try assumption; try lia.
    + erewrite lenN_updN by eassumption. assumption.
    + rewrite Hlast. unfold idx, f'. split_ifs; lia.
  - split; fields; [rewrite lenN_cons; lia|].
    intros j Hj. rewrite (getN_updN _ _ _ _ _ Hu), getN_cons.
    destruct (j =? 0) eqn:Ej.
    + replace (idx f' j (dq_cap d) =? f') with true; [reflexivity|]. unfold idx, f'. split_ifs; lia.
    + replace (idx f' j (dq_cap d) =? f') with false by (unfold idx, f'; split_ifs; lia).
      rewrite <- Hr by lia. f_equal. unfold idx, f'. split_ifs; lia.
Qed.

(** outcome of an allocating operation: done (refines [l']), or refused and nothing changed *)
Definition alloc_outcome (d : deque) (a : alloc_st) (l' : list N) (st : stat) (d' : deque) (a' : alloc_st) : Prop :=
  (st = CC_OK /\ dq_wf d' /\ repr d' l' /\ owns d' a' /\ same_ids d d' /\ led_step d a d' a') \/
  (st = CC_ERR_ALLOC /\ d' = d /\ alloc_failed d a a').

Lemma led_step_frame d a d1 a1 d' : led_step d a d1 a1 -> frame d1 d' -> led_step d a d' a1.
Proof. intros H (_ & _ & Hb & _). unfold led_step in *. rewrite Hb. exact H. Qed.

Lemma add_first_refines d l x a : dq_wf d -> repr d l -> owns d a ->
  exists st d' a', dq_add_first d x a = Ok (st, d', a') /\ alloc_outcome d a (x :: l) st d' a' /\
                   (dq_size d < dq_cap d -> st = CC_OK /\ a' = a /\ frame d d').
Proof.
  intros Hwf Hr Ho. unfold dq_add_first, g_deque_add_first_full.
  destruct (grow_if_spec (dq_cap d <=? dq_size d) d l a Hwf Hr Ho) as (ok & d1 & a1 & Hg & H);
    [pose proof (wf_size d Hwf); lia | lia |].
  rewrite Hg. cbn [bind]. destruct H as [(-> & Hwf1 & Hr1 & Ho1 & Hid & Hs1 & Hroom & Hnf & _ & Hled)|(-> & -> & Hfail)].
  - cbn [negb]. destruct (add_first_nogrow d1 l x Hwf1 Hr1 Hroom) as (b & Hw & Hwf' & Hr').
    rewrite Hw. cbn [bind]. do 3 eexists. split; [reflexivity|]. split.
    + left. splits; auto.
    + intros Hlt. destruct Hnf as [-> ->]; [lia|]. splits; auto. apply frame_set.
  - cbn [negb]. do 3 eexists. split; [reflexivity|]. split; [right; auto|].
    intros Hlt. exfalso. destruct Hfail as [_ _]. revert Hg. unfold grow_if. replace (dq_cap d <=? dq_size d) with false by lia. discriminate.
Qed.

Lemma add_last_nogrow d l x : dq_wf d -> repr d l -> dq_size d < dq_cap d ->
  exists b, wr (dq_slots d) (dq_last d) (Some x) = Ok b /\
    let d' := set_layout d (wadd (dq_size d) 1) (dq_first d) (N.land (wadd (dq_last d) 1) (mask d)) b in
    dq_wf d' /\ repr d' (l ++ [x]).
Proof.
  intros Hwf [Hl Hr] Hroom. pose proof (wf_cap d Hwf) as Hc. pose proof (wf_last_lt d Hwf) as Hll.
  pose proof Hwf as [Hp Hlen Hf Hs Hlast].
  unfold mask. rewrite land_succ by assumption. rewrite wadd_small by (unfold W; lia).
  destruct (wr_ok (dq_slots d) (dq_last d) (Some x)) as (b & Hw & Hu); [lia|].
  exists b. split; [assumption|]. cbv zeta. split.
  - constructor; fields; try assumption; try lia.
    + erewrite lenN_updN by eassumption. assumption.
    + rewrite Hlast. unfold idx. split_ifs; lia.
  - split; fields; [rewrite lenN_app; change (lenN [x]) with 1; lia|].
    intros j Hj. rewrite (getN_updN _ _ _ _ _ Hu), getN_app, getN_cons, getN_nil. rewrite Hlast.
    destruct (j <? lenN l) eqn:Ej.
    + replace (idx (dq_first d) j (dq_cap d) =? idx (dq_first d) (dq_size d) (dq_cap d)) with false by (unfold idx; split_ifs; lia).
      apply Hr. lia.
    + assert (j = dq_size d) by lia. subst j. rewrite N.eqb_refl. replace (dq_size d - lenN l =? 0) with true by lia. reflexivity.
Qed.

Lemma add_last_refines d l x a : dq_wf d -> repr d l -> owns d a ->
  exists st d' a', dq_add_last d x a = Ok (st, d', a') /\ alloc_outcome d a (l ++ [x]) st d' a' /\
                   (dq_size d < dq_cap d -> st = CC_OK /\ a' = a /\ frame d d').
Proof.
  intros Hwf Hr Ho. unfold dq_add_last, g_deque_add_last_full.
  destruct (grow_if_spec (dq_cap d =? dq_size d) d l a Hwf Hr Ho) as (ok & d1 & a1 & Hg & H);
    [pose proof (wf_size d Hwf); lia | pose proof (wf_size d Hwf); lia |].
  rewrite Hg. cbn [bind]. destruct H as [(-> & Hwf1 & Hr1 & Ho1 & Hid & Hs1 & Hroom & Hnf & _ & Hled)|(-> & -> & Hfail)].
  - cbn [negb]. destruct (add_last_nogrow d1 l x Hwf1 Hr1 Hroom) as (b & Hw & Hwf' & Hr').
    rewrite Hw. cbn [bind]. do 3 eexists. split; [reflexivity|]. split.
    + left. splits; auto.
    + intros Hlt. destruct Hnf as [-> ->]; [lia|]. splits; auto. apply frame_set.
  - cbn [negb]. do 3 eexists. split; [reflexivity|]. split; [right; auto|].
    intros Hlt. exfalso. revert Hg. unfold grow_if. replace (dq_cap d =? dq_size d) with false by lia. discriminate.
Qed.

(** ** Straight-line execution of the shifting code *)
Lemma mv_if (cond : bool) (b : list slot) dst src n :
  (cond = false -> n = 0) -> src <= lenN b -> dst <= lenN b ->
  (if cond then mv b dst src n else Ok b) = mv b dst src n.
Proof.
  intros Hn Hs Hd. destruct cond; [reflexivity|]. rewrite (Hn eq_refl). unfold mv. symmetry. apply blit_zero; assumption.
Qed.

Lemma mv_if_pred (la : N) (b : list slot) dst src :
  la < W -> src <= lenN b -> dst <= lenN b ->
  (if 1 <? la then mv b dst src (wsub la 1) else Ok b) = mv b dst src (la - 1).
Proof.
  intros Hw Hs Hd. destruct (1 <? la) eqn:E.
  - rewrite wsub_small by lia. reflexivity.
  - replace (la - 1) with 0 by lia. unfold mv. symmetry. apply blit_zero; assumption.
Qed.

(** run one [mv]: names the new buffer, its length and its contents *)
Ltac run_mv b' :=
  match goal with
  | |- context [mv ?b ?dst ?src ?n] =>
      let Hm := fresh "Hm" in let Hl := fresh "Hl" in let Hg := fresh "Hg" in
      destruct (blit_ok b src b dst n) as [b' Hm]; [lia | lia |];
      unfold mv at 1; rewrite Hm; cbn [bind];
      destruct (blit_spec2 _ _ _ _ _ _ Hm) as [Hl Hg]
  end.
Ltac run_wr b' :=
  match goal with
  | |- context [wr ?b ?i ?s] =>
      let Hw := fresh "Hw" in let Hu := fresh "Hu" in let Hl := fresh "Hl" in
      destruct (wr_ok b i s) as (b' & Hw & Hu); [lia |];
      rewrite Hw; cbn [bind];
      pose proof (lenN_updN _ _ _ _ Hu) as Hl
  end.
Ltac run_rd e :=
  match goal with
  | |- context [rd ?b ?i] =>
      let Hrd := fresh "Hrd" in let He := fresh "He" in
      destruct (rd_ok b i) as (e & Hrd & He); [lia |];
      rewrite Hrd; cbn [bind]
  end.

Lemma half_pred s : 2 <= s -> s < W -> wsub (s / 2) 1 = s / 2 - 1.
Proof. intros. apply wsub_small; lia. Qed.

(** ** remove_at *)
Lemma remove_at_refines d l i : dq_wf d -> repr d l ->
  match getN l i with
  | Some v => exists d', dq_remove_at d i = Ok (CC_OK, Some v, d') /\ dq_wf d' /\ repr d' (del l i) /\ frame d d'
  | None => dq_remove_at d i = Ok (CC_ERR_OUT_OF_RANGE, None, d)
  end.
Proof.
  intros Hwf Hrep. pose proof Hrep as [Hl Hr]. unfold dq_remove_at, g_deque_remove_at_range.
  destruct (getN l i) as [v|] eqn:Ev; [|apply getN_None_ge in Ev; replace (dq_size d <=? i) with true by lia; reflexivity].
  assert (Hi : i < dq_size d) by (apply getN_Some_lt in Ev; lia).
  pose proof (wf_cap d Hwf) as Hc. pose proof (wf_last_lt d Hwf) as Hll. pose proof Hwf as [Hp Hlen Hf Hs Hlast].
  replace (dq_size d <=? i) with false by lia.
  unfold mask.
  rewrite (land_small _ (dq_last d)), (land_small _ (dq_first d)), land_add, land_succ, last_slot' by (try assumption; lia).
  rewrite (mask_val _ Hp).
  rewrite (rdv_ok _ _ v) by (rewrite Hr by lia; rewrite Ev; reflexivity). cbn [bind].
  unfold g_deque_remove_at_zero, g_deque_remove_at_lastslot, g_deque_remove_at_front.
  destruct (i =? 0) eqn:Ei0.
  { (* index 0: remove_first *)
    assert (i = 0) by lia. subst i. pose proof (remove_first_refines d l Hwf Hrep) as HR.
    destruct l as [|x t]; [rewrite getN_nil in Ev; discriminate|]. cbn in Ev. inversion Ev; subst. exact HR. }
  destruct (i =? dq_cap d - 1) eqn:Eic.
  { (* index capacity-1 on a full deque: remove_last *)
    assert (i = dq_cap d - 1) by lia. assert (Hfull : dq_size d = dq_cap d) by lia.
    pose proof (remove_last_refines d l Hwf Hrep) as HR.
    assert (Hne : l <> []) by (intros ->; rewrite getN_nil in Ev; discriminate).
    destruct l as [|x t] eqn:El; [congruence|]. rewrite <- El in *.
    assert (i = lenN l - 1) by lia. rewrite removelast_del in HR by assumption.
    replace (last l 0) with v in HR; [replace (lenN l - 1) with i in HR by lia; exact HR|].
    pose proof (getN_last l Hne) as HL. replace (lenN l - 1) with i in HL by lia. congruence. }
  assert (Hs2 : 2 <= dq_size d) by lia.
  rewrite half_pred by (unfold W; lia).
  unfold g_deque_remove_at_front_wrap, g_deque_remove_at_f_ne_c, g_deque_remove_at_p_nz,
    g_deque_remove_at_back_wrap, g_deque_remove_at_p_ne_c, g_deque_remove_at_l_gt1.
  set (c := dq_cap d) in *. set (f := dq_first d) in *. set (n := dq_size d) in *. set (b := dq_slots d) in *.
  set (la := dq_last d) in *.
  assert (Hpc : idx f i c < c) by (apply idx_lt; lia).
  assert (Hpcase : (f + i < c /\ idx f i c = f + i) \/ (c <= f + i /\ idx f i c = f + i - c))
    by (unfold idx; destruct (f + i <? c) eqn:E; [left|right]; lia).
  assert (Hlcase : (f + n < c /\ la = f + n) \/ (c <= f + n /\ la = f + n - c))
    by (rewrite Hlast; unfold idx; destruct (f + n <? c) eqn:E; [left|right]; lia).
  set (p := idx f i c) in *. clearbody p. clear Hlast.
  rewrite (wsub_small n 1) by (unfold W; lia).
  assert (Hlen' : lenN (del l i) = n - 1) by (rewrite lenN_del by lia; lia).
  assert (Hfin : forall b' first' last',
            dq_wf (set_layout d (n - 1) first' last' b') -> repr (set_layout d (n - 1) first' last' b') (del l i) ->
            exists d', Ok (CC_OK, Some v, set_layout d (n - 1) first' last' b') = Ok (CC_OK, Some v, d') /\
                       dq_wf d' /\ repr d' (del l i) /\ frame d d').
  { intros b' f' l' H1 H2. eexists. split; [reflexivity|]. split; [assumption|]. split; [assumption|apply frame_set]. }
  destruct (i <=? n / 2 - 1) eqn:Efront.
  - (* front half: the elements before [i] move one slot towards the tail *)
    destruct (p <? f) eqn:Epf.
    + (* wrapped: [f..c-2] -> [f+1..c-1], slot c-1 -> slot 0 via e, [0..p-1] -> [1..p] *)
      destruct Hpcase as [[Hpw Hpv]|[Hpw Hpv]]; try (exfalso; lia).
      run_rd e.
      rewrite (wadd_small f 1), (wsub_small (c - 1) f) by (unfold W; lia).
      rewrite (mv_if (negb (f =? c - 1))) by lia.
      run_mv b1.
      rewrite (mv_if (negb (p =? 0))) by lia.
      run_mv b2. run_wr b3.
      apply Hfin.
      * destruct Hlcase as [[Hlw Hlv]|[Hlw Hlv]]; try (exfalso; lia);
        (constructor; fields; fold c f n la; try assumption; try lia; unfold idx; split_ifs; lia).
      * split; fields; fold c f n; [assumption|]. intros j Hj.
        rewrite (getN_updN _ _ _ _ _ Hu), Hg0, !Hg, getN_del by lia. rewrite <- He.
        unfold idx. split_ifs; leaf Hr.
    + (* contiguous: [f..f+i-1] -> [f+1..f+i] *)
      destruct Hpcase as [[Hpw Hpv]|[Hpw Hpv]]; try (exfalso; lia).
      rewrite (wadd_small f 1) by (unfold W; lia).
      run_mv b1.
      apply Hfin.
      * destruct Hlcase as [[Hlw Hlv]|[Hlw Hlv]]; try (exfalso; lia);
        (constructor; fields; fold c f n la; try assumption; try lia; unfold idx; split_ifs; lia).
      * split; fields; fold c f n; [assumption|]. intros j Hj.
        rewrite Hg, getN_del by lia.
        unfold idx. split_ifs; leaf Hr.
  - (* back half: the elements after [i] move one slot towards the head *)
    destruct (la <? p) eqn:Elp.
    + (* wrapped tail: [p+1..c-1] -> [p..c-2], slot 0 -> slot c-1 via e, [1..l-1] -> [0..l-2] *)
      destruct Hlcase as [[Hlw Hlv]|[Hlw Hlv]]; try (exfalso; lia).
      destruct Hpcase as [[Hpw Hpv]|[Hpw Hpv]]; try (exfalso; lia).
      run_rd e.
      rewrite (wadd_small p 1), (wsub_small (c - 1) p) by (unfold W; lia).
      rewrite (mv_if (negb (p =? c - 1))) by lia.
      run_mv b1.
      rewrite (mv_if_pred la) by (unfold W; lia).
      run_mv b2. run_wr b3.
      apply Hfin.
      * constructor; fields; fold c f n la; try assumption; try lia; unfold idx; split_ifs; lia.
      * split; fields; fold c f n; [assumption|]. intros j Hj.
        rewrite (getN_updN _ _ _ _ _ Hu), Hg0, !Hg, getN_del by lia. rewrite <- He.
        unfold idx. split_ifs; leaf Hr.
    + (* contiguous tail: [p+1..l] -> [p..l-1] *)
      rewrite (wadd_small p 1) by (unfold W; lia).
      rewrite (wsub_small la p) by (unfold W; lia).
      run_mv b1.
      apply Hfin.
      * constructor; fields; fold c f n la; try assumption; try lia; unfold idx; split_ifs; lia.
      * split; fields; fold c f n; [assumption|]. intros j Hj.
        rewrite Hg, getN_del by lia.
        destruct Hpcase as [[Hpw Hpv]|[Hpw Hpv]]; destruct Hlcase as [[Hlw Hlv]|[Hlw Hlv]]; try (exfalso; lia);
        (unfold idx; split_ifs; leaf Hr).
Qed.

(** ** add_at: correct under the model's own branch classifier *)
Lemma add_at_partial d l x i a : dq_wf d -> repr d l -> owns d a -> add_at_branch_ok d i = true ->
  exists st d' a', dq_add_at d x i a = Ok (st, d', a') /\
    if i <? lenN l then alloc_outcome d a (ins l i x) st d' a'
    else (st = CC_ERR_OUT_OF_RANGE /\ d' = d /\ a' = a).
Proof.
  intros Hwf0 Hrep0 Ho0 Hok. pose proof Hrep0 as [Hl0 _]. unfold dq_add_at, g_deque_add_at_range.
  destruct (i <? lenN l) eqn:Ei; [|replace (dq_size d <=? i) with true by lia; do 3 eexists; split; [reflexivity|auto]].
  replace (dq_size d <=? i) with false by lia.
  destruct (grow_if_spec (g_deque_add_at_full (dq_size d) (dq_cap d)) d l a Hwf0 Hrep0 Ho0) as (ok & d1 & a1 & Hg & H);
    [unfold g_deque_add_at_full; pose proof (wf_size d Hwf0); lia | unfold g_deque_add_at_full; pose proof (wf_size d Hwf0); lia |].
  rewrite Hg. cbn [bind].
  destruct H as [(-> & Hwf & Hrep & Ho & Hid & Hs1 & Hroom & Hnf & Hfu & Hled)|(-> & -> & Hfail)];
    [|cbn [negb]; do 3 eexists; split; [reflexivity|right; auto]].
  cbn [negb].
  (* the classifier was evaluated on the layout the shifting code sees *)
  assert (Hok1 : match add_at_branch (dq_cap d1) (dq_first d1) (dq_last d1) (dq_size d1) i with
                 | TFirst0 | TLastSlot | TBackShift => True
                 | TBackWrap => dq_size d1 + 1 < dq_cap d1
                 | _ => False end).
  { unfold add_at_branch_ok in Hok. destruct (g_deque_add_at_full (dq_size d) (dq_cap d)) eqn:Efull.
    - destruct (Hfu eq_refl) as [Hc1 Hf1]. pose proof (wf_cap d Hwf0).
      assert (Hl1 : dq_last d1 = dq_size d).
      { rewrite (wf_last d1 Hwf), Hf1, Hs1. unfold idx. pose proof (wf_size d Hwf0). split_ifs; lia. }
      rewrite shiftl1 in Hok by lia. rewrite Hc1, Hf1, Hl1, Hs1.
      destruct (add_at_branch (2 * dq_cap d) 0 (dq_size d) (dq_size d) i); try exact I; try discriminate. lia.
    - destruct (Hnf eq_refl) as [-> ->].
      destruct (add_at_branch (dq_cap d) (dq_first d) (dq_last d) (dq_size d) i); try exact I; try discriminate. lia. }
  clear Hok Hnf Hfu Hg.
  assert (Hi : i < dq_size d1) by lia.
  pose proof Hrep as [Hl Hr].
  pose proof (wf_cap d1 Hwf) as Hc. pose proof (wf_last_lt d1 Hwf) as Hll. pose proof Hwf as [Hp Hlen Hf Hs Hlast].
  unfold add_at_branch in Hok1. unfold mask.
  rewrite (land_small _ (dq_last d1)), (land_small _ (dq_first d1)), land_add in * by (try assumption; lia).
  rewrite land_succ by (try assumption; lia).
  rewrite (mask_val _ Hp) in *.
  unfold g_deque_add_at_zero, g_deque_add_at_lastslot, g_deque_add_at_front in *.
  destruct (i =? 0) eqn:Ei0.
  { (* index 0: add_first, no further growth *)
    assert (i = 0) by lia. subst i.
    destruct (add_first_refines d1 l x a1 Hwf Hrep Ho) as (st & d' & a' & Ha & Hout & Hng).
    rewrite Ha. destruct (Hng Hroom) as (-> & -> & Hfr). do 3 eexists. split; [reflexivity|].
    destruct Hout as [(_ & Hw' & Hr' & Ho' & Hid' & _)|(Hst & _)]; [|discriminate]. left. rewrite ins_0.
    unfold same_ids in *. splits; auto; try (intuition congruence). eapply led_step_frame; eassumption. }
  destruct (i =? dq_cap d1 - 1) eqn:Eic; [exfalso; lia|].
  assert (Hs2 : 2 <= dq_size d1) by lia.
  rewrite half_pred in * by (unfold W; lia).
  destruct (i <=? dq_size d1 / 2 - 1) eqn:Efront.
  { exfalso. destruct (g_deque_add_at_front_wrap _ _); exact Hok1. }
  unfold g_deque_add_at_back_wrap, g_deque_add_at_p_ne_c, g_deque_add_at_l_ne_c in *.
  set (c := dq_cap d1) in *. set (f := dq_first d1) in *. set (n := dq_size d1) in *. set (b := dq_slots d1) in *.
  set (la := dq_last d1) in *.
  assert (Hpc : idx f i c < c) by (apply idx_lt; lia).
  assert (Hpcase : (f + i < c /\ idx f i c = f + i) \/ (c <= f + i /\ idx f i c = f + i - c))
    by (unfold idx; destruct (f + i <? c) eqn:E; [left|right]; lia).
  assert (Hlcase : (f + n < c /\ la = f + n) \/ (c <= f + n /\ la = f + n - c))
    by (rewrite Hlast; unfold idx; destruct (f + n <? c) eqn:E; [left|right]; lia).
  set (p := idx f i c) in *. clearbody p. clear Hlast.
  rewrite (wadd_small n 1) by (unfold W; lia).
  assert (Hlen' : lenN (ins l i x) = n + 1) by (rewrite lenN_ins by lia; lia).
  assert (Hfin : forall b' last',
            dq_wf (set_layout d1 (n + 1) f last' b') -> repr (set_layout d1 (n + 1) f last' b') (ins l i x) ->
            exists st d' a', Ok (CC_OK, set_layout d1 (n + 1) f last' b', a1) = Ok (st, d', a') /\
                             alloc_outcome d a (ins l i x) st d' a').
  { intros b' l' H1 H2. do 3 eexists. split; [reflexivity|]. left. splits; auto. }
  destruct ((la <? p) || (la =? c - 1)) eqn:Ewrap.
  - (* wrapped right shift, at least two free slots *)
    run_rd e.
    rewrite (wadd_small p 1), (wsub_small (c - 1) p) by (unfold W; lia).
    rewrite (mv_if (negb (p =? c - 1))) by lia.
    run_mv b1.
    destruct (la =? c - 1) eqn:Elc; cbn [negb bind].
    + (* last == capacity - 1: slot 0 receives the unused slot c-1, which stays outside the live range *)
      run_wr b3. run_wr b4.
      apply Hfin.
      * destruct Hpcase as [[Hpw Hpv]|[Hpw Hpv]]; destruct Hlcase as [[Hlw Hlv]|[Hlw Hlv]]; try (exfalso; lia);
        (constructor; fields; fold c f n la; try assumption; try lia; unfold idx; split_ifs; lia).
      * split; fields; fold c f n; [assumption|]. intros j Hj.
        rewrite (getN_updN _ _ _ _ _ Hu0), (getN_updN _ _ _ _ _ Hu), !Hg, getN_ins by lia. rewrite <- He.
        destruct Hpcase as [[Hpw Hpv]|[Hpw Hpv]]; destruct Hlcase as [[Hlw Hlv]|[Hlw Hlv]]; try (exfalso; lia);
        (unfold idx; split_ifs; leaf Hr).
    + rewrite (wadd_small la 1) by (unfold W; lia).
      run_mv b2. run_wr b3. run_wr b4.
      apply Hfin.
      * destruct Hpcase as [[Hpw Hpv]|[Hpw Hpv]]; destruct Hlcase as [[Hlw Hlv]|[Hlw Hlv]]; try (exfalso; lia);
        (constructor; fields; fold c f n la; try assumption; try lia; unfold idx; split_ifs; lia).
      * split; fields; fold c f n; [assumption|]. intros j Hj.
        rewrite (getN_updN _ _ _ _ _ Hu0), (getN_updN _ _ _ _ _ Hu), Hg0, !Hg, getN_ins by lia. rewrite <- He.
        destruct Hpcase as [[Hpw Hpv]|[Hpw Hpv]]; destruct Hlcase as [[Hlw Hlv]|[Hlw Hlv]]; try (exfalso; lia);
        (unfold idx; split_ifs; leaf Hr).
  - (* plain right shift: [p..l-1] -> [p+1..l] *)
    rewrite (wadd_small p 1), (wsub_small n i) by (unfold W; lia).
    assert (Hroom' : p + 1 + (n - i) <= c).
    { destruct Hpcase as [[Hpw Hpv]|[Hpw Hpv]]; destruct Hlcase as [[Hlw Hlv]|[Hlw Hlv]]; lia. }
    run_mv b1. run_wr b2.
    apply Hfin.
    * destruct Hpcase as [[Hpw Hpv]|[Hpw Hpv]]; destruct Hlcase as [[Hlw Hlv]|[Hlw Hlv]]; try (exfalso; lia);
      (constructor; fields; fold c f n la; try assumption; try lia; unfold idx; split_ifs; lia).
    * split; fields; fold c f n; [assumption|]. intros j Hj.
      rewrite (getN_updN _ _ _ _ _ Hu), !Hg, getN_ins by lia.
      destruct Hpcase as [[Hpw Hpv]|[Hpw Hpv]]; destruct Hlcase as [[Hlw Hlv]|[Hlw Hlv]]; try (exfalso; lia);
      (unfold idx; split_ifs; leaf Hr).
Qed.
