(** Executable model of src/cc_tsttable.c (definitions only).

    A node pointer of the C code is a *path* from the root (the structure is a tree and nodes are
    never moved, so a path identifies a node for as long as it lives); the parent pointer is the
    path without its last step.  [CC_TSTTableNode **last_node] (a pointer to a slot) is the path of
    the slot together with the slot's content.  Every node and every entry carries the id of its
    ledger block, so [alloc] / [release] are called once per C call site. *)
From CC Require Import Base.Prelude Base.Alloc Generated.Status.
Local Open Scope N_scope.

Definition key := list N.                    (* the bytes before the terminating NUL *)
Definition entry := (N * key * N)%type.      (* ledger id of the entry block, entry->key, entry->value *)

Inductive tst :=
| Leaf
| Node (id : N) (c : N) (d : option entry) (l m r : tst).

(** [char] is signed on the target: the byte is sign-extended before the subtraction. *)
Definition sx (c : N) : Z := let b := c mod 256 in if b <? 128 then Z.of_N b else (Z.of_N b - 256)%Z.
Definition char_cmp (c1 c2 : N) : Z := (sx c1 - sx c2)%Z.

Inductive dir := DL | DM | DR.
Definition dir_eqb (a b : dir) : bool :=
  match a, b with DL, DL | DM, DM | DR, DR => true | _, _ => false end.
Fixpoint path_eqb (p q : list dir) : bool :=
  match p, q with
  | [], [] => true
  | a :: p', b :: q' => dir_eqb a b && path_eqb p' q'
  | _, _ => false
  end.
(** pointer comparison; [None] is NULL *)
Definition ptr_eqb (a b : option (list dir)) : bool :=
  match a, b with
  | None, None => true
  | Some p, Some q => path_eqb p q
  | _, _ => false
  end.

Definition child (d : dir) (l m r : tst) : tst := match d with DL => l | DM => m | DR => r end.

(** paths given root first *)
Fixpoint node_at (t : tst) (p : list dir) {struct p} : option tst :=
  match p with
  | [] => Some t
  | d :: q => match t with Leaf => None | Node _ _ _ l m r => node_at (child d l m r) q end
  end.
Fixpoint set_at (t : tst) (p : list dir) (n : tst) {struct p} : option tst :=
  match p with
  | [] => Some n
  | d :: q =>
      match t with
      | Leaf => None
      | Node id c e l m r =>
          match d with
          | DL => match set_at l q n with Some x => Some (Node id c e x m r) | None => None end
          | DM => match set_at m q n with Some x => Some (Node id c e l x r) | None => None end
          | DR => match set_at r q n with Some x => Some (Node id c e l m x) | None => None end
          end
      end
  end.

(** get_last_node: the loop body is one unfolding of [descend]; [p] is the path of the slot
    [*last_node] (deepest step first), the second component is the slot's content (Leaf = NULL),
    the third is [key + (last_index + 1)]. *)
Fixpoint descend (t : tst) (ch : N) (rest : key) (p : list dir) : list dir * tst * key :=
  match t with
  | Leaf => (p, Leaf, ch :: rest)
  | Node id c d l m r =>
      let cmp := char_cmp ch c in
      if (cmp <? 0)%Z then descend l ch rest (DL :: p)
      else if (0 <? cmp)%Z then descend r ch rest (DR :: p)
      else match rest with
           | [] => (p, t, [])
           | ch' :: rest' => descend m ch' rest' (DM :: p)
           end
  end.
Definition get_last_node (root : tst) (k : key) : list dir * tst * key :=
  match k with
  | [] => ([], root, [])          (* the loop is not entered: *last_node = &table->root, last_index = -1 *)
  | ch :: rest => descend root ch rest []
  end.

Record table := { t_root : tst; t_size : N; t_hdr : N; t_mem : tag }.
Definition set_tree (s : table) (root : tst) (size : N) : table :=
  {| t_root := root; t_size := size; t_hdr := t_hdr s; t_mem := t_mem s |}.

Definition SZ_TABLE : N := 48.
Definition SZ_NODE : N := 48.
Definition SZ_ENTRY : N := 16.

Definition tst_new (mem : tag) (a : alloc_st) : stat * option table * alloc_st :=
  match alloc mem SZ_TABLE a with
  | (None, a1) => (CC_ERR_ALLOC, None, a1)
  | (Some h, a1) => (CC_OK, Some {| t_root := Leaf; t_size := 0; t_hdr := h; t_mem := mem |}, a1)
  end.

Fixpoint release_all (mem : tag) (ids : list N) (a : alloc_st) : res alloc_st :=
  match ids with
  | [] => Ok a
  | id :: r => do a1 <- release mem id a; release_all mem r a1
  end.

(** make_mid_subtree: one calloc per character, stops at the first refusal. Result: the ids
    obtained so far (begin first) and whether the whole chain was built. *)
Fixpoint chain_ids (mem : tag) (cs : list N) (a : alloc_st) : list N * bool * alloc_st :=
  match cs with
  | [] => ([], true, a)
  | _ :: cs' =>
      match alloc mem SZ_NODE a with
      | (None, a1) => ([], false, a1)
      | (Some id, a1) => let '(ids, ok, a2) := chain_ids mem cs' a1 in (id :: ids, ok, a2)
      end
  end.
Fixpoint build_chain (cs : list N) (ids : list N) (d : option entry) : tst :=
  match cs, ids with
  | c :: cs', id :: ids' =>
      match cs' with
      | [] => Node id c d Leaf Leaf Leaf
      | _ => Node id c None Leaf (build_chain cs' ids' d) Leaf
      end
  | _, _ => Leaf
  end.
(** the characters make_mid_subtree reads: key[0] is read even when key_len = 0 (the NUL). *)
Definition chain_chars (postfix : key) : list N := match postfix with [] => [0] | _ => postfix end.

Definition tst_add (s : table) (k : key) (v : N) (a : alloc_st) : res (stat * table * alloc_st) :=
  let '(p, slot, postfix) := get_last_node (t_root s) k in
  match slot with
  | Node id c d l m r =>
      match d with
      | None =>
          match alloc (t_mem s) SZ_ENTRY a with
          | (None, a1) => Ok (CC_ERR_ALLOC, s, a1)
          | (Some e, a1) =>
              do root' <- of_opt Dangling (set_at (t_root s) (rev p) (Node id c (Some (e, k, v)) l m r));
              Ok (CC_OK, set_tree s root' (wadd (t_size s) 1), a1)
          end
      | Some (e, _, _) =>
          do root' <- of_opt Dangling (set_at (t_root s) (rev p) (Node id c (Some (e, k, v)) l m r));
          Ok (CC_OK, set_tree s root' (t_size s), a)
      end
  | Leaf =>
      let cs := chain_chars postfix in
      let '(ids, ok, a1) := chain_ids (t_mem s) cs a in
      if negb ok then
        do a2 <- release_all (t_mem s) ids a1; Ok (CC_ERR_ALLOC, s, a2)
      else
        match alloc (t_mem s) SZ_ENTRY a1 with
        | (None, a2) => do a3 <- release_all (t_mem s) ids a2; Ok (CC_ERR_ALLOC, s, a3)
        | (Some e, a2) =>
            do root' <- of_opt Dangling (set_at (t_root s) (rev p) (build_chain cs ids (Some (e, k, v))));
            Ok (CC_OK, set_tree s root' (wadd (t_size s) 1), a2)
        end
  end.

Definition tst_get (s : table) (k : key) : stat * option N :=
  let '(_, slot, postfix) := get_last_node (t_root s) k in
  match slot with
  | Node _ _ (Some (_, _, v)) _ _ _ =>
      match postfix with [] => (CC_OK, Some v) | _ => (CC_ERR_KEY_NOT_FOUND, None) end
  | _ => (CC_ERR_KEY_NOT_FOUND, None)
  end.

Definition tst_contains (s : table) (k : key) : bool :=
  match tst_get s k with (CC_OK, _) => true | _ => false end.

(** remove_eow_node on the node at path [p] (root first). Result: the blocks released, in order
    (entry, then the pruned nodes bottom-up), the new subtree, and whether this node itself was
    freed - the C loop continues with the parent only in that case. [None]: the pointer does
    not designate a node. *)
Definition try_prune (n : tst) : list N * tst * bool :=
  match n with
  | Node id _ None Leaf Leaf Leaf => ([id], Leaf, true)
  | _ => ([], n, false)
  end.
Fixpoint remove_eow_at (t : tst) (p : list dir) : option (list N * tst * bool) :=
  match t with
  | Leaf => None
  | Node id c d l m r =>
      match p with
      | [] =>
          match d with
          | None => Some ([], t, false)
          | Some (e, _, _) => let '(ids, t', b) := try_prune (Node id c None l m r) in Some (e :: ids, t', b)
          end
      | dr :: q =>
          match remove_eow_at (child dr l m r) q with
          | None => None
          | Some (ids, x, b) =>
              let n := match dr with DL => Node id c d x m r | DM => Node id c d l x r | DR => Node id c d l m x end in
              if b then let '(ids2, t', b2) := try_prune n in Some (ids ++ ids2, t', b2)
              else Some (ids, n, false)
          end
      end
  end.

Definition tst_remove (s : table) (k : key) (a : alloc_st) : res (stat * option N * table * alloc_st) :=
  let '(p, slot, postfix) := get_last_node (t_root s) k in
  match slot with
  | Node _ _ (Some (_, _, v)) _ _ _ =>
      match postfix with
      | [] =>
          do (ids, root', _) <- of_opt Dangling (remove_eow_at (t_root s) (rev p));
          do a' <- release_all (t_mem s) ids a;
          Ok (CC_OK, Some v, set_tree s root' (if 0 <? t_size s then wsub (t_size s) 1 else 0), a')
      | _ => Ok (CC_ERR_KEY_NOT_FOUND, None, s, a)
      end
  | _ => Ok (CC_ERR_KEY_NOT_FOUND, None, s, a)
  end.

(** remove_all: post-order (left, mid, right, then the node: its entry, then itself). *)
Fixpoint free_order (t : tst) : list N :=
  match t with
  | Leaf => []
  | Node id _ d l m r =>
      free_order l ++ free_order m ++ free_order r ++ (match d with Some (e, _, _) => [e] | None => [] end) ++ [id]
  end.
Fixpoint count_eow (t : tst) : N :=
  match t with
  | Leaf => 0
  | Node _ _ d l m r => count_eow l + count_eow m + count_eow r + (match d with Some _ => 1 | None => 0 end)
  end.
Definition tst_remove_all (s : table) (a : alloc_st) : res (table * alloc_st) :=
  do a' <- release_all (t_mem s) (free_order (t_root s)) a;
  Ok (set_tree s Leaf (wsub (t_size s) (count_eow (t_root s))), a').

Definition tst_destroy (s : table) (a : alloc_st) : res alloc_st :=
  do (s', a1) <- tst_remove_all s a; release (t_mem s) (t_hdr s) a1.

(** ------------------------------------------------------------------ iterator *)
(** node pointers: paths with the deepest step first, [None] = NULL *)
Record iter := {
  it_cur : option (list dir); it_next : option (list dir); it_prev : option (list dir);
  it_adv : bool; it_stat : stat }.

Definition iter_init (root : tst) : iter :=
  {| it_cur := None; it_next := (match root with Leaf => None | _ => Some [] end); it_prev := None;
     it_adv := false; it_stat := CC_OK |}.

Definition is_leaf (t : tst) : bool := match t with Leaf => true | _ => false end.
Definition parent_ptr (p : list dir) : option (list dir) := match p with [] => None | _ :: q => Some q end.
Definition child_ptr (t : tst) (d : dir) (p : list dir) : option (list dir) :=
  if is_leaf t then None else Some (d :: p).
Definition is_some {A} (o : option A) : bool := match o with Some _ => true | None => false end.

Fixpoint count_nodes (t : tst) : nat :=
  match t with Leaf => O | Node _ _ _ l m r => S (count_nodes l + count_nodes m + count_nodes r) end.

Definition entry_out (d : option entry) : option (key * N) :=
  match d with Some (_, k, v) => Some (k, v) | None => None end.

(** the [while (node)] loop of cc_tsttable_iter_next; result: status, *out, and the new
    (current_node, next_node, previous_node) *)
Fixpoint iter_loop (fuel : nat) (root : tst) (node prev : option (list dir))
  : res (stat * option (key * N) * (option (list dir) * option (list dir) * option (list dir))) :=
  match node with
  | None => Ok (CC_ITER_END, None, (None, None, None))
  | Some p =>
      match fuel with
      | O => Fault OutOfFuel
      | S f =>
          match node_at root (rev p) with
          | Some (Node _ _ d l m r) =>
              let par := parent_ptr p in
              let pl := child_ptr l DL p in
              let pm := child_ptr m DM p in
              let pr := child_ptr r DR p in
              let '(next, error) :=
                if ptr_eqb prev par then
                  if is_some pl then (pl, false) else if is_some pm then (pm, false)
                  else if is_some pr then (pr, false) else if is_some par then (par, false) else (None, true)
                else if ptr_eqb prev pl then
                  if is_some pm then (pm, false) else if is_some pr then (pr, false)
                  else if is_some par then (par, false) else (None, true)
                else if ptr_eqb prev pm then
                  if is_some pr then (pr, false) else if is_some par then (par, false) else (None, true)
                else if ptr_eqb prev pr then
                  if is_some par then (par, false) else (None, true)
                else (None, true) in
              if is_some d && ptr_eqb prev par then Ok (CC_OK, entry_out d, (Some p, next, prev))
              else if error then Ok (CC_ITER_END, None, (None, None, None))
              else iter_loop f root next (Some p)
          | _ => Fault Dangling
          end
      end
  end.

Definition iter_fuel (root : tst) : nat := S (4 * count_nodes root).

Definition tst_iter_next (root : tst) (it : iter) : res (stat * option (key * N) * iter) :=
  if it_adv it then
    let it' := {| it_cur := it_cur it; it_next := it_next it; it_prev := it_prev it; it_adv := false; it_stat := it_stat it |} in
    if stat_eqb (it_stat it) CC_OK then
      match it_cur it with
      | None => Fault NullDeref
      | Some p =>
          match node_at root (rev p) with
          | Some (Node _ _ d _ _ _) => Ok (it_stat it, entry_out d, it')
          | _ => Fault Dangling
          end
      end
    else Ok (it_stat it, None, it')
  else
    do (st, out, (cur, next, prev)) <- iter_loop (iter_fuel root) root (it_next it) (it_cur it);
    Ok (st, out, {| it_cur := cur; it_next := next; it_prev := prev; it_adv := false; it_stat := it_stat it |}).

Definition tst_iter_remove (s : table) (it : iter) (a : alloc_st)
  : res (stat * option N * table * iter * alloc_st) :=
  match it_cur it with
  | None => Ok (CC_ERR_KEY_NOT_FOUND, None, s, it, a)
  | Some p =>
      match node_at (t_root s) (rev p) with
      | Some (Node _ _ d _ _ _) =>
          do v <- of_opt NullDeref (match d with Some (_, _, v) => Some v | None => None end);
          do (st, _, it1) <- tst_iter_next (t_root s) it;
          let it2 := {| it_cur := it_cur it1; it_next := it_next it1; it_prev := it_prev it1; it_adv := true; it_stat := st |} in
          do (ids, root', _) <- of_opt Dangling (remove_eow_at (t_root s) (rev p));
          do a' <- release_all (t_mem s) ids a;
          Ok (CC_OK, Some v, set_tree s root' (wsub (t_size s) 1), it2, a')
      | _ => Fault Dangling
      end
  end.

(** foreach_key / foreach_value: a fresh iterator run until CC_ITER_END; the callback reads
    [data->key] / [data->value]. *)
Fixpoint enum_loop (fuel : nat) (root : tst) (it : iter) (acc : list (key * N)) : res (list (key * N)) :=
  match fuel with
  | O => Fault OutOfFuel
  | S f =>
      do (st, out, it') <- tst_iter_next root it;
      if stat_eqb st CC_ITER_END then Ok (rev acc)
      else match out with
           | Some e => enum_loop f root it' (e :: acc)
           | None => Fault NullDeref
           end
  end.
Definition tst_enum (root : tst) : res (list (key * N)) :=
  enum_loop (S (S (count_nodes root))) root (iter_init root) [].

(** ------------------------------------------------------------------ state machine *)
Inductive tst_op :=
| TAdd (k : key) (v : N) | TGet (k : key) | TContains (k : key) | TRemove (k : key) | TRemoveAll | TSize.
Inductive tst_out := OStat (st : stat) | OVal (st : stat) (v : option N) | OBool (b : bool) | ONum (n : N) | OUnit.

Definition tst_step (s : table) (a : alloc_st) (o : tst_op) : res (tst_out * table * alloc_st) :=
  match o with
  | TAdd k v => do (st, s', a') <- tst_add s k v a; Ok (OStat st, s', a')
  | TGet k => let '(st, v) := tst_get s k in Ok (OVal st v, s, a)
  | TContains k => Ok (OBool (tst_contains s k), s, a)
  | TRemove k => do (st, v, s', a') <- tst_remove s k a; Ok (OVal st v, s', a')
  | TRemoveAll => do (s', a') <- tst_remove_all s a; Ok (OUnit, s', a')
  | TSize => Ok (ONum (t_size s), s, a)
  end.

(** ------------------------------------------------------------------ the ideal object:
    a finite map on byte lists as an association list without duplicate keys *)
Fixpoint key_eqb (a b : key) : bool :=
  match a, b with
  | [], [] => true
  | x :: a', y :: b' => (x =? y) && key_eqb a' b'
  | _, _ => false
  end.
Fixpoint assoc (m : list (key * N)) (k : key) : option N :=
  match m with
  | [] => None
  | (k', v) :: r => if key_eqb k k' then Some v else assoc r k
  end.
Fixpoint spec_put (m : list (key * N)) (k : key) (v : N) : list (key * N) :=
  match m with
  | [] => [(k, v)]
  | (k', v') :: r => if key_eqb k k' then (k, v) :: r else (k', v') :: spec_put r k v
  end.
Fixpoint spec_del (m : list (key * N)) (k : key) : list (key * N) :=
  match m with
  | [] => []
  | (k', v') :: r => if key_eqb k k' then r else (k', v') :: spec_del r k
  end.
Definition spec_step (m : list (key * N)) (o : tst_op) : tst_out * list (key * N) :=
  match o with
  | TAdd k v => (OStat CC_OK, spec_put m k v)
  | TGet k => (match assoc m k with Some v => OVal CC_OK (Some v) | None => OVal CC_ERR_KEY_NOT_FOUND None end, m)
  | TContains k => (OBool (is_some (assoc m k)), m)
  | TRemove k => (match assoc m k with Some v => OVal CC_OK (Some v) | None => OVal CC_ERR_KEY_NOT_FOUND None end, spec_del m k)
  | TRemoveAll => (OUnit, [])
  | TSize => (ONum (lenN m), m)
  end.
