(** CC_TSTTable, part 3: the iterator.  The four-way arrival-direction automaton of
    cc_tsttable_iter_next, run from a fresh iterator, yields the stored entries in pre-order
    (node, left, mid, right), each exactly once, then CC_ITER_END, and never runs out of fuel. *)
From CC Require Import Base.Prelude Base.ListMem Base.Alloc Base.AllocProofs Generated.Status Tst.TstModel Tst.TstProofs1 Tst.TstProofs2.
From Coq Require Import Permutation.
Local Open Scope N_scope.

(** ---------------------------------------------------------------- pointer comparisons *)
Lemma dir_eqb_eq a b : dir_eqb a b = true <-> a = b.
Proof. destruct a, b; cbn; split; congruence. Qed.
Lemma path_eqb_eq : forall p q, path_eqb p q = true <-> p = q.
Proof.
  induction p as [|a p IH]; intros [|b q]; cbn; try (split; congruence).
  rewrite andb_true_iff, dir_eqb_eq, IH. split; [intros [-> ->]; reflexivity|intros H; inversion H; auto].
Qed.
Lemma ptr_eqb_eq a b : ptr_eqb a b = true <-> a = b.
Proof.
  destruct a as [p|], b as [q|]; cbn; try (split; congruence).
  rewrite path_eqb_eq. split; [intros ->; reflexivity|intros H; inversion H; auto].
Qed.
Lemma ptr_eqb_refl a : ptr_eqb a a = true. Proof. apply ptr_eqb_eq; reflexivity. Qed.
Lemma ptr_eqb_neq a b : a <> b -> ptr_eqb a b = false.
Proof. intros H. destruct (ptr_eqb a b) eqn:E; [|reflexivity]. apply ptr_eqb_eq in E. contradiction. Qed.

Lemma child_not_parent d p : Some (d :: p) <> parent_ptr p.
Proof.
  destruct p as [|d0 p0]; cbn; [discriminate|]. intros H. inversion H as [H1].
  apply (f_equal (@length dir)) in H1. cbn in H1. lia.
Qed.

(** ---------------------------------------------------------------- what remains to be visited *)
Definition vk (visits : tst -> nat) (x : tst) : nat := if is_leaf x then O else S (visits x).
(** loop iterations spent in a subtree entered from its parent, until the parent is re-entered *)
Fixpoint visits (t : tst) : nat :=
  match t with
  | Leaf => O
  | Node _ _ _ l m r => S (vk visits l + vk visits m + vk visits r)
  end.
Definition sib_entries (d : dir) (l m r : tst) : list entry :=
  match d with DL => entries m ++ entries r | DM => entries r | DR => [] end.
Definition sib_cost (d : dir) (l m r : tst) : nat :=
  match d with DL => S (vk visits m + vk visits r) | DM => S (vk visits r) | DR => 1 end.
(** entries yielded / iterations spent after the subtree at path [q] (root first) has been left *)
Fixpoint after (t : tst) (q : list dir) {struct q} : list entry :=
  match q, t with
  | d :: q', Node _ _ _ l m r => after (child d l m r) q' ++ sib_entries d l m r
  | _, _ => []
  end.
Fixpoint up (t : tst) (q : list dir) {struct q} : nat :=
  match q, t with
  | d :: q', Node _ _ _ l m r => (up (child d l m r) q' + sib_cost d l m r)%nat
  | _, _ => O
  end.

Lemma after_snoc : forall q t id c dd l m r d, node_at t q = Some (Node id c dd l m r) ->
  after t (q ++ [d]) = sib_entries d l m r ++ after t q.
Proof.
  induction q as [|d0 q IH]; intros t id c dd l m r d H; cbn in H.
  - inversion H; subst. cbn [app after]. rewrite app_nil_r. reflexivity.
  - destruct t as [|id0 c0 dd0 l0 m0 r0]; [discriminate|]. cbn [app after].
    rewrite (IH _ _ _ _ _ _ _ d H). rewrite app_assoc. reflexivity.
Qed.
Lemma up_snoc : forall q t id c dd l m r d, node_at t q = Some (Node id c dd l m r) ->
  up t (q ++ [d]) = (sib_cost d l m r + up t q)%nat.
Proof.
  induction q as [|d0 q IH]; intros t id c dd l m r d H; cbn in H.
  - inversion H; subst. cbn [app up]. lia.
  - destruct t as [|id0 c0 dd0 l0 m0 r0]; [discriminate|]. cbn [app up].
    rewrite (IH _ _ _ _ _ _ _ d H). lia.
Qed.

Lemma visits_bound t : (visits t <= 4 * count_nodes t)%nat.
Proof.
  induction t as [|id c d l IHl m IHm r IHr]; cbn [visits count_nodes]; [lia|].
  unfold vk. destruct l, m, r; cbn [is_leaf visits count_nodes] in *; lia.
Qed.
Lemma up_bound : forall q t sub, node_at t q = Some sub -> (visits sub + up t q <= visits t)%nat.
Proof.
  induction q as [|d q IH]; intros t sub H; cbn in H.
  - inversion H; subst. cbn. lia.
  - destruct t as [|id c dd l m r]; [discriminate|]. specialize (IH _ _ H). cbn [up visits].
    assert (K : (visits (child d l m r) + sib_cost d l m r <= S (vk visits l + vk visits m + vk visits r))%nat).
    { destruct d; cbn [child sib_cost]; unfold vk.
      - destruct l; cbn [is_leaf]; [cbn in H; destruct q; discriminate || (cbn; lia)|lia].
      - destruct m; cbn [is_leaf]; [cbn; lia|lia].
      - destruct r; cbn [is_leaf]; [cbn; lia|lia]. }
    lia.
Qed.

(** ---------------------------------------------------------------- states of the automaton *)
(** [valid t p prev R n]: the loop is at the node with path [p] (deepest step first) having arrived
    from [prev]; [R] are the entries still to be yielded, [n] the loop iterations still to be made. *)
Inductive valid (t : tst) (p : list dir) : option (list dir) -> list entry -> nat -> Prop :=
| V_parent id c d l m r R n :
    node_at t (rev p) = Some (Node id c d l m r) ->
    R = opt_list d ++ entries l ++ entries m ++ entries r ++ after t (rev p) ->
    n = (visits (Node id c d l m r) + up t (rev p))%nat ->
    valid t p (parent_ptr p) R n
| V_left id c d l m r R n :
    node_at t (rev p) = Some (Node id c d l m r) -> l <> Leaf ->
    R = entries m ++ entries r ++ after t (rev p) ->
    n = (S (vk visits m + vk visits r) + up t (rev p))%nat ->
    valid t p (Some (DL :: p)) R n
| V_mid id c d l m r R n :
    node_at t (rev p) = Some (Node id c d l m r) -> m <> Leaf ->
    R = entries r ++ after t (rev p) ->
    n = (S (vk visits r) + up t (rev p))%nat ->
    valid t p (Some (DM :: p)) R n
| V_right id c d l m r R n :
    node_at t (rev p) = Some (Node id c d l m r) -> r <> Leaf ->
    R = after t (rev p) ->
    n = (1 + up t (rev p))%nat ->
    valid t p (Some (DR :: p)) R n.

Definition next_valid (t : tst) (nx : option (list dir)) (prev : option (list dir)) (R : list entry) (n : nat) : Prop :=
  match nx with
  | None => R = []
  | Some p' => valid t p' prev R n
  end.

Lemma valid_bound t p prev R n : valid t p prev R n -> (n <= visits t)%nat.
Proof.
  intros H. destruct H as [id c d l m r R n Hn _ ->|id c d l m r R n Hn _ _ ->|id c d l m r R n Hn _ _ ->|id c d l m r R n Hn _ _ ->];
    pose proof (up_bound _ _ _ Hn) as K; cbn [visits] in *; lia.
Qed.

(** entering the child [d] of the node at [p] *)
Lemma to_child t p id c dd l m r d :
  node_at t (rev p) = Some (Node id c dd l m r) -> child d l m r <> Leaf ->
  valid t (d :: p) (Some p) (entries (child d l m r) ++ sib_entries d l m r ++ after t (rev p))
        (visits (child d l m r) + sib_cost d l m r + up t (rev p)).
Proof.
  intros Hn Hc. destruct (child d l m r) as [|id' c' d' l' m' r'] eqn:Ec; [congruence|].
  change (Some p) with (parent_ptr (d :: p)).
  apply (V_parent t (d :: p) id' c' d' l' m' r'); cbn [rev].
  - rewrite node_at_app, Hn. cbn. rewrite Ec. reflexivity.
  - rewrite (after_snoc _ _ _ _ _ _ _ _ d Hn). cbn [entries]. rewrite <- !app_assoc. reflexivity.
  - rewrite (up_snoc _ _ _ _ _ _ _ _ d Hn). lia.
Qed.

(** returning from the node at [d0 :: p0] to its parent *)
Lemma to_parent t d0 p0 sub :
  node_at t (rev (d0 :: p0)) = Some sub -> sub <> Leaf ->
  valid t p0 (Some (d0 :: p0)) (after t (rev (d0 :: p0))) (up t (rev (d0 :: p0))).
Proof.
  cbn [rev]. intros Hn Hs. rewrite node_at_app in Hn.
  destruct (node_at t (rev p0)) as [[|id c dd l m r]|] eqn:Hp; cbn in Hn; try discriminate.
  inversion Hn as [Hc]. rewrite (after_snoc _ _ _ _ _ _ _ _ d0 Hp), (up_snoc _ _ _ _ _ _ _ _ d0 Hp).
  destruct d0; cbn [child sib_entries sib_cost] in *.
  - eapply V_left; eauto; [congruence|rewrite <- app_assoc; reflexivity].
  - eapply V_mid; eauto. congruence.
  - eapply V_right; eauto. congruence.
Qed.

Lemma valid_eq t p prev R n R' n' : valid t p prev R n -> R = R' -> n = n' -> valid t p prev R' n'.
Proof. intros H -> ->. exact H. Qed.

Lemma ptr_child_other d d' x p : d <> d' -> ptr_eqb (Some (d :: p)) (child_ptr x d' p) = false.
Proof.
  intros H. unfold child_ptr. destruct (is_leaf x); [reflexivity|]. apply ptr_eqb_neq. congruence.
Qed.
Lemma child_ptr_node id c d l m r dr p : child_ptr (Node id c d l m r) dr p = Some (dr :: p).
Proof. reflexivity. Qed.
Lemma child_ptr_leaf dr p : child_ptr Leaf dr p = None.
Proof. reflexivity. Qed.

Lemma visits_node id c d l m r : visits (Node id c d l m r) = S (vk visits l + vk visits m + vk visits r).
Proof. reflexivity. Qed.
Lemma vk_node id c d l m r : vk visits (Node id c d l m r) = S (visits (Node id c d l m r)).
Proof. reflexivity. Qed.
Lemma vk_leaf : vk visits Leaf = O.
Proof. reflexivity. Qed.
Ltac vis := rewrite ?vk_node, ?vk_leaf; lia.

(** one iteration of the [while (node)] loop *)
Lemma loop_step t p prev R n f : valid t p prev R n ->
  (exists e R' nx n', R = e :: R' /\ n = S n' /\
      iter_loop (S f) t (Some p) prev = Ok (CC_OK, entry_out (Some e), (Some p, nx, prev)) /\
      (exists id c l m r, node_at t (rev p) = Some (Node id c (Some e) l m r)) /\
      next_valid t nx (Some p) R' n')
  \/ (R = [] /\ iter_loop (S f) t (Some p) prev = Ok (CC_ITER_END, None, (None, None, None)))
  \/ (exists p' n', n = S n' /\ iter_loop (S f) t (Some p) prev = iter_loop f t (Some p') (Some p) /\
                    valid t p' (Some p) R n').
Proof.
  intros H.
  destruct H as [id c d l m r R n Hn -> ->|id c d l m r R n Hn Hne -> ->|id c d l m r R n Hn Hne -> ->|id c d l m r R n Hn Hne -> ->];
    cbn [iter_loop]; rewrite Hn.
  - (* entered from the parent *)
    rewrite ptr_eqb_refl, andb_true_r.
    assert (Hyield : forall nx n' R',
              entries l ++ entries m ++ entries r ++ after t (rev p) = R' ->
              (vk visits l + vk visits m + vk visits r + up t (rev p))%nat = n' ->
              next_valid t nx (Some p) R' n' ->
              forall e, d = Some e ->
              exists e0 R0 nx0 n0, opt_list d ++ entries l ++ entries m ++ entries r ++ after t (rev p) = e0 :: R0 /\
                (visits (Node id c d l m r) + up t (rev p))%nat = S n0 /\
                Ok (CC_OK, entry_out d, (Some p, nx, parent_ptr p)) = Ok (CC_OK, entry_out (Some e0), (Some p, nx0, parent_ptr p)) /\
                (exists id0 c0 l0 m0 r0, Some (Node id c d l m r) = Some (Node id0 c0 (Some e0) l0 m0 r0)) /\
                next_valid t nx0 (Some p) R0 n0).
    { intros nx n' R' HR Hn' Hv e ->. exists e, R', nx, n'. cbn [opt_list app]. rewrite (visits_node id c), HR.
      split; [reflexivity|]. split; [lia|]. split; [reflexivity|]. split; [eauto 8|assumption]. }
    destruct l as [|il cl dl ll ml rl].
    2:{ rewrite child_ptr_node. cbn [is_some].
        pose proof (to_child t p id c d _ m r DL Hn ltac:(cbn; discriminate)) as V. cbn [child sib_entries sib_cost] in V.
        destruct d as [e|]; cbn [is_some].
        - left. eapply Hyield; [| |exact V|reflexivity]; [rewrite <- ?app_assoc; reflexivity|vis].
        - right; right. do 2 eexists. split; [|split; [reflexivity|]].
          2:{ eapply valid_eq; [exact V|cbn [opt_list app]; rewrite <- ?app_assoc; reflexivity|reflexivity]. }
          rewrite (visits_node id c). vis. }
    rewrite child_ptr_leaf. cbn [is_some].
    destruct m as [|im cm dm lm mm rm].
    2:{ rewrite child_ptr_node. cbn [is_some].
        pose proof (to_child t p id c d Leaf _ r DM Hn ltac:(cbn; discriminate)) as V. cbn [child sib_entries sib_cost] in V.
        destruct d as [e|]; cbn [is_some].
        - left. eapply Hyield; [| |exact V|reflexivity]; [cbn [entries app]; rewrite <- ?app_assoc; reflexivity|vis].
        - right; right. do 2 eexists. split; [|split; [reflexivity|]].
          2:{ eapply valid_eq; [exact V|cbn [opt_list entries app]; rewrite <- ?app_assoc; reflexivity|reflexivity]. }
          rewrite (visits_node id c). vis. }
    rewrite child_ptr_leaf. cbn [is_some].
    destruct r as [|ir cr dr lr mr rr].
    2:{ rewrite child_ptr_node. cbn [is_some].
        pose proof (to_child t p id c d Leaf Leaf _ DR Hn ltac:(cbn; discriminate)) as V. cbn [child sib_entries sib_cost] in V.
        destruct d as [e|]; cbn [is_some].
        - left. eapply Hyield; [| |exact V|reflexivity]; [cbn [entries app]; reflexivity|vis].
        - right; right. do 2 eexists. split; [|split; [reflexivity|]].
          2:{ eapply valid_eq; [exact V|cbn [opt_list entries app]; reflexivity|reflexivity]. }
          rewrite (visits_node id c). vis. }
    rewrite child_ptr_leaf. cbn [is_some].
    destruct p as [|d0 p0]; cbn [parent_ptr is_some].
    + (* a root without children *)
      destruct d as [e|]; cbn [is_some].
      * left. eapply (Hyield None); [reflexivity|reflexivity| |reflexivity]. cbn. reflexivity.
      * right; left. split; reflexivity.
    + pose proof (to_parent t d0 p0 _ Hn ltac:(discriminate)) as V.
      destruct d as [e|]; cbn [is_some].
      * left. eapply (Hyield (Some p0)); [reflexivity|reflexivity| |reflexivity]. cbn [entries app vk is_leaf next_valid].
        eapply valid_eq; [exact V|reflexivity|rewrite ?vk_leaf; reflexivity].
      * right; right. do 2 eexists. split; [|split; [reflexivity|]].
        2:{ eapply valid_eq; [exact V|reflexivity|reflexivity]. }
        rewrite (visits_node id c). vis.
  - (* back from the left child *)
    rewrite (ptr_eqb_neq _ _ (child_not_parent DL p)), andb_false_r.
    destruct l as [|il cl dl ll ml rl]; [congruence|]. rewrite child_ptr_node, ptr_eqb_refl.
    destruct m as [|im cm dm lm mm rm].
    2:{ rewrite child_ptr_node. cbn [is_some].
        pose proof (to_child t p id c d (Node il cl dl ll ml rl) _ r DM Hn ltac:(cbn; discriminate)) as V. cbn [child sib_entries sib_cost] in V.
        right; right. do 2 eexists. split; [|split; [reflexivity|]].
        2:{ eapply valid_eq; [exact V|rewrite <- ?app_assoc; reflexivity|reflexivity]. }
        vis. }
    rewrite child_ptr_leaf. cbn [is_some].
    destruct r as [|ir cr dr lr mr rr].
    2:{ rewrite child_ptr_node. cbn [is_some].
        pose proof (to_child t p id c d (Node il cl dl ll ml rl) Leaf _ DR Hn ltac:(cbn; discriminate)) as V. cbn [child sib_entries sib_cost] in V.
        right; right. do 2 eexists. split; [|split; [reflexivity|]].
        2:{ eapply valid_eq; [exact V|cbn [entries app]; reflexivity|reflexivity]. }
        vis. }
    rewrite child_ptr_leaf. cbn [is_some].
    destruct p as [|d0 p0]; cbn [parent_ptr is_some].
    + right; left. split; reflexivity.
    + pose proof (to_parent t d0 p0 _ Hn ltac:(discriminate)) as V.
      right; right. do 2 eexists. split; [|split; [reflexivity|]].
      2:{ eapply valid_eq; [exact V|reflexivity|reflexivity]. }
      vis.
  - (* back from the middle child *)
    rewrite (ptr_eqb_neq _ _ (child_not_parent DM p)), andb_false_r.
    rewrite (ptr_child_other DM DL l p) by discriminate.
    destruct m as [|im cm dm lm mm rm]; [congruence|]. rewrite child_ptr_node, ptr_eqb_refl.
    destruct r as [|ir cr dr lr mr rr].
    2:{ rewrite child_ptr_node. cbn [is_some].
        pose proof (to_child t p id c d l (Node im cm dm lm mm rm) _ DR Hn ltac:(cbn; discriminate)) as V. cbn [child sib_entries sib_cost] in V.
        right; right. do 2 eexists. split; [|split; [reflexivity|]].
        2:{ eapply valid_eq; [exact V|reflexivity|reflexivity]. }
        vis. }
    rewrite child_ptr_leaf. cbn [is_some].
    destruct p as [|d0 p0]; cbn [parent_ptr is_some].
    + right; left. split; reflexivity.
    + pose proof (to_parent t d0 p0 _ Hn ltac:(discriminate)) as V.
      right; right. do 2 eexists. split; [|split; [reflexivity|]].
      2:{ eapply valid_eq; [exact V|reflexivity|reflexivity]. }
      vis.
  - (* back from the right child *)
    rewrite (ptr_eqb_neq _ _ (child_not_parent DR p)), andb_false_r.
    rewrite (ptr_child_other DR DL l p), (ptr_child_other DR DM m p) by discriminate.
    destruct r as [|ir cr dr lr mr rr]; [congruence|]. rewrite child_ptr_node, ptr_eqb_refl.
    destruct p as [|d0 p0]; cbn [parent_ptr is_some].
    + right; left. split; reflexivity.
    + pose proof (to_parent t d0 p0 _ Hn ltac:(discriminate)) as V.
      right; right. do 2 eexists. split; [|split; [reflexivity|]].
      2:{ eapply valid_eq; [exact V|reflexivity|reflexivity]. }
      lia.
Qed.

(** the whole loop: from a valid state with enough fuel, the next entry in pre-order or the end *)
Lemma loop_run t : forall f p prev R n, valid t p prev R n -> (n < f)%nat ->
  match R with
  | [] => iter_loop f t (Some p) prev = Ok (CC_ITER_END, None, (None, None, None))
  | e :: R' => exists pe nx pv n', iter_loop f t (Some p) prev = Ok (CC_OK, entry_out (Some e), (Some pe, nx, pv)) /\
                 (exists id c l m r, node_at t (rev pe) = Some (Node id c (Some e) l m r)) /\
                 next_valid t nx (Some pe) R' n'
  end.
Proof.
  induction f as [|f IH]; intros p prev R n Hv Hlt; [lia|].
  destruct (loop_step t p prev R n f Hv) as [(e & R' & nx & n' & -> & -> & E & Hnode & Hnv)|[[-> E]|(p' & n' & -> & E & Hv')]].
  - exists p, nx, prev, n'. auto.
  - exact E.
  - rewrite E. apply (IH p' (Some p) R n' Hv'). lia.
Qed.

Definition it_valid (t : tst) (it : iter) (R : list entry) : Prop :=
  it_adv it = false /\ exists n, next_valid t (it_next it) (it_cur it) R n.

Lemma iter_init_valid t : it_valid t (iter_init t) (entries t).
Proof.
  split; [reflexivity|]. destruct t as [|id c d l m r]; cbn [iter_init it_next it_cur next_valid].
  - exists O. reflexivity.
  - eexists. change (@None (list dir)) with (parent_ptr []).
    eapply V_parent; cbn [rev node_at]; [reflexivity| |reflexivity].
    cbn [after entries]. rewrite app_nil_r. reflexivity.
Qed.

Lemma iter_next_spec t it R : it_valid t it R ->
  match R with
  | [] => exists it', tst_iter_next t it = Ok (CC_ITER_END, None, it') /\ it_valid t it' [] /\ it_cur it' = None /\ it_next it' = None
  | e :: R' => exists it' pe, tst_iter_next t it = Ok (CC_OK, entry_out (Some e), it') /\ it_valid t it' R' /\
                 it_cur it' = Some pe /\ (exists id c l m r, node_at t (rev pe) = Some (Node id c (Some e) l m r))
  end.
Proof.
  intros [Hadv (n & Hnv)]. unfold tst_iter_next. rewrite Hadv.
  destruct (it_next it) as [p|] eqn:En; cbn [next_valid] in Hnv.
  - pose proof (loop_run t (iter_fuel t) p (it_cur it) R n Hnv) as K.
    assert (Hf : (n < iter_fuel t)%nat).
    { unfold iter_fuel. pose proof (valid_bound _ _ _ _ _ Hnv). pose proof (visits_bound t). lia. }
    specialize (K Hf). destruct R as [|e R'].
    + rewrite K. cbn [bind]. eexists. split; [reflexivity|]. split; [|split; reflexivity].
      split; [reflexivity|]. exists O. reflexivity.
    + destruct K as (pe & nx & pv & n' & -> & Hnode & Hnv'). cbn [bind].
      do 2 eexists. split; [reflexivity|]. split; [|split; [reflexivity|exact Hnode]].
      split; [reflexivity|]. exists n'. exact Hnv'.
  - subst R. destruct (iter_fuel t); cbn [iter_loop bind]; eexists; (split; [reflexivity|]); (split; [|split; reflexivity]);
      (split; [reflexivity|]); exists O; reflexivity.
Qed.

Definition kv (e : entry) : key * N := (ekey e, eval e).
Lemma entry_out_kv e : entry_out (Some e) = Some (kv e).
Proof. destruct e as [[i k] v]. reflexivity. Qed.

Lemma enum_loop_spec t : forall R it acc f, it_valid t it R -> (length R < f)%nat ->
  enum_loop f t it acc = Ok (rev acc ++ map kv R).
Proof.
  induction R as [|e R IH]; intros it acc f Hv Hlt; (destruct f as [|f]; [lia|]); cbn [enum_loop].
 - destruct (iter_next_spec t it [] Hv) as (it' & -> & _). cbn [bind]. change (stat_eqb CC_ITER_END CC_ITER_END) with true. cbn iota.
    cbn [map]. rewrite app_nil_r. reflexivity.
  - destruct (iter_next_spec t it (e :: R) Hv) as (it' & pe & -> & Hv' & _). cbn [bind].
    change (stat_eqb CC_OK CC_ITER_END) with false. cbn iota. rewrite entry_out_kv.
    rewrite (IH it' (kv e :: acc) f Hv'); [|cbn in Hlt; lia].
    cbn [rev map]. rewrite <- app_assoc. reflexivity.
Qed.

Lemma entries_le_nodes t : (length (entries t) <= count_nodes t)%nat.
Proof.
  induction t as [|id c d l IHl m IHm r IHr]; cbn [entries count_nodes length]; [lia|].
  rewrite !app_length. destruct d; cbn [opt_list length]; lia.
Qed.

(** foreach / a fresh iterator run to the end: the stored entries in pre-order, no fault, fuel suffices *)
Theorem tst_enum_entries t : tst_enum t = Ok (map kv (entries t)).
Proof.
  unfold tst_enum. rewrite (enum_loop_spec t (entries t) (iter_init t) []); [reflexivity|apply iter_init_valid|].
  pose proof (entries_le_nodes t). lia.
Qed.

(** ---------------------------------------------------------------- enumeration against the ideal map *)
Lemma assoc_in_pair m k v : assoc m k = Some v -> In (k, v) m.
Proof.
  induction m as [|[k0 v0] m IH]; cbn [assoc]; [discriminate|].
  destruct (key_eqb k k0) eqn:E; [apply key_eqb_eq in E; subst; intros H; inversion H; left; reflexivity|right; auto].
Qed.
Lemma in_pair_assoc m k v : NoDup (map fst m) -> In (k, v) m -> assoc m k = Some v.
Proof.
  induction m as [|[k0 v0] m IH]; cbn [assoc map fst]; intros Hnd Hin; [destruct Hin|].
  inversion Hnd; subst. destruct Hin as [E|Hin].
  - inversion E; subst. rewrite key_eqb_refl. reflexivity.
  - destruct (key_eqb k k0) eqn:E; [|auto]. apply key_eqb_eq in E; subst k0.
    exfalso. apply H1. apply (in_map fst) in Hin. exact Hin.
Qed.

Theorem tst_enumeration base s a m :
  tst_inv base s a -> tst_rel (t_root s) m ->
  exists l, tst_enum (t_root s) = Ok l /\ Permutation l m /\ NoDup (map fst l) /\ lenN l = t_size s.
Proof.
  intros Hinv Hrel. pose proof (inv_tree _ _ _ Hinv) as [Hsp _ Hso Hdup]. destruct Hrel as [Hnd Hwf Hl].
  exists (map kv (entries (t_root s))). split; [apply tst_enum_entries|].
  assert (Ek : map fst (map kv (entries (t_root s))) = map ekey (entries (t_root s))).
  { rewrite map_map. reflexivity. }
  assert (Hndl : NoDup (map fst (map kv (entries (t_root s))))) by (rewrite Ek; assumption).
  split; [|split; [assumption|]].
  - apply NoDup_Permutation.
    + eapply NoDup_map_inv; exact Hndl.
    + eapply NoDup_map_inv; exact Hnd.
    + intros [k v]. split.
      * intros H. apply in_map_iff in H. destruct H as (e & E & He). inversion E; subst.
        destruct (Hso e He) as [Hw Hlk]. specialize (Hl _ Hw). unfold lookup_val in Hl. rewrite Hlk in Hl.
        apply assoc_in_pair. symmetry. exact Hl.
      * intros H. assert (Hw : wf_key k).
        { rewrite Forall_forall in Hwf. apply Hwf. apply (in_map fst) in H. exact H. }
        pose proof (in_pair_assoc _ _ _ Hnd H) as Ha. specialize (Hl _ Hw). rewrite Ha in Hl. unfold lookup_val in Hl.
        destruct (lookup (t_root s) k) as [e|] eqn:El; [|discriminate]. inversion Hl as [Ev].
        apply in_map_iff. exists e. split.
        -- unfold kv. rewrite (lookup_key _ _ _ Hsp Hw El). reflexivity.
        -- destruct k as [|ch rest]; [discriminate|]. eapply lk_in_entries; eauto.
  - rewrite (inv_size _ _ _ Hinv). unfold lenN. rewrite map_length. reflexivity.
Qed.

(** ---------------------------------------------------------------- invariant, spelled out *)
Theorem tst_inv_preserved base s a m o :
  tst_inv base s a -> tst_rel (t_root s) m -> op_wf o -> t_size s + 1 < W ->
  exists out s' a', tst_step s a o = Ok (out, s', a') /\ tst_inv base s' a' /\
    spell [] (t_root s') /\ nodead (t_root s') /\ t_size s' = count_eow (t_root s') /\
    NoDup (map ekey (entries (t_root s'))).
Proof.
  intros Hi Hr Hw HW. destruct (tst_step_refines base s a m o Hi Hr Hw HW) as (out & s' & a' & E & Hi' & _).
  exists out, s', a'. split; [assumption|]. split; [assumption|].
  pose proof (inv_tree _ _ _ Hi') as [Hsp Hnd _ Hdup]. rewrite count_eow_entries. pose proof (inv_size _ _ _ Hi'). auto.
Qed.

(** ---------------------------------------------------------------- D30: the empty key *)
Definition ek_alloc : alloc_st := alloc_init [] 1099511627776.
Theorem tst_empty_key_refuted :
  exists s1 a1 s2 a2 s3 a3,
    tst_new Conf ek_alloc = (CC_OK, Some s1, a1) /\
    tst_add s1 [97] 1 a1 = Ok (CC_OK, s2, a2) /\          (* add "a" -> 1 *)
    tst_add s2 [] 2 a2 = Ok (CC_OK, s3, a3) /\            (* add ""  -> 2 *)
    tst_get s3 [97] = (CC_OK, Some 2) /\                  (* get "a" answers 2 *)
    t_size s3 = 1 /\
    assoc (spec_put (spec_put [] [97] 1) [] 2) [97] = Some 1 /\ lenN (spec_put (spec_put [] [97] 1) [] 2) = 2.
Proof. vm_compute. do 6 eexists. repeat split; reflexivity. Qed.

(** a non-trivial state satisfying the invariant and the abstraction relation: keys "a", "ab", 0xE9 *)
Definition ex_table : table :=
  {| t_root := Node 2 97 (Some (3, [97], 4)) (Node 6 233 (Some (7, [233], 3)) Leaf Leaf Leaf)
                 (Node 4 98 (Some (5, [97; 98], 2)) Leaf Leaf Leaf) Leaf;
     t_size := 3; t_hdr := 1; t_mem := Conf |}.
Definition ex_alloc : alloc_st :=
  {| plan := []; limit := 1099511627776; next_id := 8;
     live := [{| b_id := 7; b_tag := Conf; b_bytes := 16 |}; {| b_id := 6; b_tag := Conf; b_bytes := 48 |};
              {| b_id := 5; b_tag := Conf; b_bytes := 16 |}; {| b_id := 4; b_tag := Conf; b_bytes := 48 |};
              {| b_id := 3; b_tag := Conf; b_bytes := 16 |}; {| b_id := 2; b_tag := Conf; b_bytes := 48 |};
              {| b_id := 1; b_tag := Conf; b_bytes := 48 |}];
     nreq := 7 |}.
Definition ex_map : list (key * N) := [([97], 4); ([97; 98], 2); ([233], 3)].

Lemma ex_state_ok : tst_inv [] ex_table ex_alloc /\ tst_rel (t_root ex_table) ex_map.
Proof.
  pose (ops := [TAdd [97] 1; TAdd [97; 98] 2; TAdd [233] 3; TAdd [97] 4; TRemove [98]]).
  assert (Hwf : Forall op_wf ops).
  { repeat constructor; cbn; try discriminate; unfold byte; lia. }
  destruct (tst_new Conf ek_alloc) as [[st os] a1] eqn:En. vm_compute in En. inversion En; subst; clear En.
  match goal with H : _ |- _ => idtac end.
  pose proof (tst_new_run_refines Conf ek_alloc CC_OK
                {| t_root := Leaf; t_size := 0; t_hdr := 1; t_mem := Conf |}
                {| plan := []; limit := 1099511627776; next_id := 2; live := [{| b_id := 1; b_tag := Conf; b_bytes := 48 |}]; nreq := 1 |}
                ops (ledger_ok_init _ _) ltac:(cbn; lia) eq_refl Hwf ltac:(vm_compute; reflexivity)) as K.
  destruct K as (outs & s' & a' & Er & Hi & _ & Hg). vm_compute in Er. inversion Er; subst; clear Er.
  split; [exact Hi|]. destruct (Hg eq_refl ltac:(vm_compute; discriminate)) as [_ Hrel]. exact Hrel.
Qed.
