(** Extraction of the tst engine model. ExtrOcamlBasic only; no Extract Constant. *)
From Coq Require Import Extraction ExtrOcamlBasic.
From CC Require Import Base.Prelude Base.Alloc Generated.Status Generated.Constants Generated.Macros Generated.Guards.
From CC Require Import Tst.TstModel.
Extraction Language OCaml.
Extraction "model.ml"
  N.add N.mul N.sub N.div N.modulo N.eqb N.ltb N.leb N.of_nat N.to_nat N.land N.shiftl N.shiftr
  alloc_init alloc release count_tag is_live stat_code
  tst_new tst_destroy tst_step tst_add tst_get tst_contains tst_remove tst_remove_all
  iter_init tst_iter_next tst_iter_remove tst_enum spec_step assoc key_eqb count_nodes count_eow.
