(** CC_TSTTable, part 2: the allocation ledger, the table-level invariant, refinement of the ideal
    finite map by every table operation, histories, and the ledger corollaries (C06, C08, C14, C16). *)
From CC Require Import Base.Prelude Base.ListMem Base.Alloc Base.AllocProofs Generated.Status Tst.TstModel Tst.TstProofs1.
From Coq Require Import Permutation.
Local Open Scope N_scope.

(** ---------------------------------------------------------------- ledger lemmas on block ids *)
Definition live_ids (a : alloc_st) : list N := map b_id (live a).

Lemma alloc_spec mem n a : ledger_ok a -> 0 < next_id a ->
  match alloc mem n a with
  | (Some id, a') => live a' = {| b_id := id; b_tag := mem; b_bytes := n |} :: live a /\ ledger_ok a' /\ 0 < next_id a' /\
                     ~ In id (live_ids a) /\ limit a' = limit a /\ plan a' = tl (plan a)
  | (None, a') => live a' = live a /\ ledger_ok a' /\ 0 < next_id a' /\ limit a' = limit a /\ plan a' = tl (plan a)
  end.
Proof.
  intros Hl Hp. pose proof (alloc_cases mem n a) as C. pose proof (alloc_ledger_ok mem n a) as K.
  destruct (alloc mem n a) as [[id|] a']; destruct (K _ _ Hl Hp eq_refl) as [K1 K2].
  - destruct C as (-> & E & _ & El & _ & Epl). split; [assumption|]. split; [assumption|]. split; [assumption|].
    split; [|auto]. intros Hin. apply in_map_iff in Hin. destruct Hin as (b & Eb & Hb). apply (proj2 Hl) in Hb. lia.
  - destruct C as (E & _ & El & _ & Epl). auto.
Qed.

Lemma NoDup_map_inj {A B} (f : A -> B) l x y : NoDup (map f l) -> In x l -> In y l -> f x = f y -> x = y.
Proof.
  induction l as [|a l IH]; intros Hnd Hx Hy E; [destruct Hx|]. cbn in Hnd. inversion Hnd; subst.
  destruct Hx as [->|Hx], Hy as [->|Hy]; auto.
  - exfalso. apply H1. rewrite E. apply in_map; assumption.
  - exfalso. apply H1. rewrite <- E. apply in_map; assumption.
Qed.

Lemma release_perm mem id a rest :
  ledger_ok a -> Permutation (live_ids a) (id :: rest) ->
  (forall b, In b (live a) -> b_id b = id -> b_tag b = mem) ->
  exists a', release mem id a = Ok a' /\ Permutation (live_ids a') rest /\ ledger_ok a' /\ next_id a' = next_id a /\
             nreq a' = nreq a /\ plan a' = plan a /\ limit a' = limit a /\ (forall b, In b (live a') -> In b (live a)).
Proof.
  intros [Hnd Hlt] Hp Htag.
  assert (Hin : In id (live_ids a)) by (eapply Permutation_in; [symmetry; exact Hp|left; reflexivity]).
  apply in_map_iff in Hin. destruct Hin as (b & Eb & Hb).
  destruct (remove_block_in id (live a)) as (b' & r & Hr); [eauto|].
  destruct (remove_block_spec _ _ _ _ Hr) as (Eb' & l1 & l2 & El & Er & _).
  assert (Hb' : In b' (live a)) by (rewrite El; apply in_app_iff; right; left; reflexivity).
  unfold release. rewrite Hr. rewrite (Htag b' Hb' Eb'), tag_eqb_refl.
  eexists; split; [reflexivity|]. cbn [live next_id nreq plan limit]. unfold live_ids in *. cbn [live].
  assert (Hsub : forall x, In x r -> In x (live a)).
  { intros x Hx. rewrite El. rewrite Er in Hx. apply in_app_iff in Hx. apply in_app_iff. destruct Hx; [left|right; right]; assumption. }
  split; [|split; [split|repeat split; auto]].
  - rewrite El, map_app in Hp. cbn [map] in Hp. rewrite Eb' in Hp. rewrite Er, map_app.
    apply Permutation_sym in Hp. apply Permutation_cons_app_inv in Hp. symmetry; exact Hp.
  - cbn [live]. rewrite El, map_app in Hnd. cbn [map] in Hnd. apply NoDup_remove_1 in Hnd. rewrite Er, map_app. exact Hnd.
  - cbn [live next_id]. intros x Hx. apply Hlt. auto.
Qed.

Lemma release_all_perm mem : forall ids a rest,
  ledger_ok a -> Permutation (live_ids a) (ids ++ rest) ->
  (forall b, In b (live a) -> In (b_id b) ids -> b_tag b = mem) ->
  exists a', release_all mem ids a = Ok a' /\ Permutation (live_ids a') rest /\ ledger_ok a' /\ next_id a' = next_id a /\
             nreq a' = nreq a /\ plan a' = plan a /\ limit a' = limit a /\ (forall b, In b (live a') -> In b (live a)).
Proof.
  induction ids as [|id ids IH]; intros a rest Hl Hp Htag; cbn [release_all].
  - exists a. split; [reflexivity|]. split; [exact Hp|]. split; [assumption|]. repeat split; auto.
  - cbn [app] in Hp. destruct (release_perm mem id a (ids ++ rest) Hl Hp) as (a1 & -> & Hp1 & Hl1 & En & Er & Epl & Eli & Hsub).
    { intros b Hb E. apply Htag; [assumption|left; symmetry; assumption]. }
    cbn [bind]. destruct (IH a1 rest Hl1 Hp1) as (a2 & -> & Hp2 & Hl2 & En2 & Er2 & Epl2 & Eli2 & Hsub2).
    { intros b Hb Hi. apply Htag; [auto|right; assumption]. }
    exists a2. split; [reflexivity|]. split; [assumption|]. split; [assumption|]. repeat split; auto; congruence.
Qed.

Ltac splits := repeat match goal with |- _ /\ _ => split end.

(** make_mid_subtree's allocations *)
Lemma chain_ids_spec mem : forall cs a ids ok a1,
  chain_ids mem cs a = (ids, ok, a1) -> ledger_ok a -> 0 < next_id a ->
  ledger_ok a1 /\ 0 < next_id a1 /\ live_ids a1 = rev ids ++ live_ids a /\ limit a1 = limit a /\
  (forall b, In b (live a1) -> In b (live a) \/ (b_tag b = mem /\ In (b_id b) ids)) /\
  NoDup ids /\ (forall i, In i ids -> ~ In i (live_ids a)) /\
  (ok = true -> length ids = length cs) /\ (ok = false -> (length ids < length cs)%nat).
Proof.
  induction cs as [|c cs IH]; intros a ids ok a1 H Hl Hp; cbn [chain_ids] in H.
  - inversion H; subst. splits; auto; try constructor; try tauto; try discriminate.
  - pose proof (alloc_spec mem SZ_NODE a Hl Hp) as A. destruct (alloc mem SZ_NODE a) as [[id|] a0].
    + destruct A as (El & Hl0 & Hp0 & Hfresh & Elim & _).
      destruct (chain_ids mem cs a0) as [[ids0 ok0] a2] eqn:Ec. inversion H; subst; clear H.
      destruct (IH _ _ _ _ Ec Hl0 Hp0) as (Hl2 & Hp2 & Eli & Elim2 & Hnew & Hnd & Hfr & Hok & Hko).
      assert (Eli0 : live_ids a0 = id :: live_ids a) by (unfold live_ids; rewrite El; reflexivity).
      splits; auto.
      * rewrite Eli, Eli0. cbn [rev]. rewrite <- app_assoc. reflexivity.
      * congruence.
      * intros b Hb. destruct (Hnew b Hb) as [Hb0|[Ht Hi]]; [|right; split; [assumption|right; assumption]].
        rewrite El in Hb0. destruct Hb0 as [<-|Hb0]; [right; cbn; auto|left; assumption].
      * constructor; [|assumption]. intros Hin. apply (Hfr id Hin). rewrite Eli0. left; reflexivity.
      * intros i [<-|Hi]; [assumption|]. intros Hin. apply (Hfr i Hi). rewrite Eli0. right; assumption.
      * intros E. cbn [length]. rewrite Hok; auto.
      * intros E. cbn [length]. specialize (Hko E). lia.
    + destruct A as (El & Hl0 & Hp0 & Elim & _). inversion H; subst; clear H.
      unfold live_ids. rewrite El. splits; auto; try discriminate; try tauto; [constructor|].
      intros _. cbn [length]. lia.
Qed.

(** ---------------------------------------------------------------- ids stored in the tree *)
Definition node_ids_data (d : option entry) : list N := match d with Some (e, _, _) => [e] | None => [] end.

Lemma free_order_chain d : forall cs ids, length ids = length cs ->
  Permutation (free_order (build_chain cs ids d)) (match cs with [] => [] | _ => node_ids_data d end ++ ids).
Proof.
  induction cs as [|c cs IH]; intros ids Hlen; destruct ids as [|i ids]; try discriminate; [reflexivity|].
  cbn [build_chain]. destruct cs as [|c2 cs'].
  - destruct ids; [|discriminate]. cbn [free_order app]. reflexivity.
  - cbn [free_order app]. rewrite IH by (cbn in *; lia).
    rewrite <- app_assoc. apply Permutation_app_head. apply Permutation_sym, Permutation_cons_append.
Qed.

Lemma perm_mid3 {A} (X E B C : list A) : Permutation (X ++ (E ++ B) ++ C) (E ++ X ++ B ++ C).
Proof. rewrite <- app_assoc. apply Permutation_app_swap_app. Qed.
Lemma perm_mid4 {A} (X Y E B C : list A) : Permutation (X ++ Y ++ (E ++ B) ++ C) (E ++ X ++ Y ++ B ++ C).
Proof. rewrite (app_assoc X Y). rewrite perm_mid3. rewrite <- app_assoc. reflexivity. Qed.

Lemma free_order_ins mk extra : forall t ch rest p0 p slot post,
  descend t ch rest p0 = (p, slot, post) ->
  Permutation (free_order (mk slot post)) (extra ++ free_order slot) ->
  Permutation (free_order (ins t ch rest mk)) (extra ++ free_order t).
Proof.
  induction t as [|id c d l IHl m IHm r IHr]; intros ch rest p0 p slot post H Hm; cbn in H; cbn [ins].
  - inversion H; subst. exact Hm.
  - destruct (char_cmp ch c <? 0)%Z.
    { cbn [free_order]. rewrite (IHl _ _ _ _ _ _ H Hm). rewrite <- app_assoc. reflexivity. }
    destruct (0 <? char_cmp ch c)%Z.
    { cbn [free_order]. rewrite (IHr _ _ _ _ _ _ H Hm). apply perm_mid4. }
    destruct rest as [|x xs].
    + inversion H; subst. exact Hm.
    + cbn [free_order]. rewrite (IHm _ _ _ _ _ _ H Hm). apply perm_mid3.
Qed.

Lemma free_order_try_prune n : Permutation (free_order n) (ids_of (try_prune n) ++ free_order (tree_of (try_prune n))).
Proof. destruct n as [|id c [e|] [|] [|] [|]]; cbn; reflexivity. Qed.

Lemma ids_after_child res n :
  ids_of (after_child res n) = if freed_of res then ids_of res ++ ids_of (try_prune (n (tree_of res))) else ids_of res.
Proof.
  destruct res as [[ids x] b]; unfold after_child, ids_of, tree_of, freed_of; cbn [fst snd].
  destruct b; [|reflexivity]. destruct (try_prune (n x)) as [[? ?] ?]; reflexivity.
Qed.

Lemma free_order_after_child res n :
  Permutation (ids_of res ++ free_order (n (tree_of res)))
              (ids_of (after_child res n) ++ free_order (tree_of (after_child res n))).
Proof.
  rewrite ids_after_child, tree_after_child. destruct (freed_of res); [|reflexivity].
  rewrite <- app_assoc. apply Permutation_app_head. apply free_order_try_prune.
Qed.

Lemma free_order_del : forall t ch rest,
  Permutation (free_order t) (ids_of (del t ch rest) ++ free_order (tree_of (del t ch rest))).
Proof.
  induction t as [|id c d l IHl m IHm r IHr]; intros ch rest; cbn [del]; [reflexivity|].
  destruct (char_cmp ch c <? 0)%Z.
  { rewrite <- free_order_after_child. cbn [rebuild free_order]. rewrite (IHl ch rest) at 1. rewrite <- app_assoc. reflexivity. }
  destruct (0 <? char_cmp ch c)%Z.
  { rewrite <- free_order_after_child. cbn [rebuild free_order]. rewrite (IHr ch rest) at 1. apply perm_mid4. }
  destruct rest as [|x xs].
  - unfold at_node. destruct d as [[[e k] v]|]; [|reflexivity].
    pose proof (free_order_try_prune (Node id c None l m r)) as K.
    destruct (try_prune (Node id c None l m r)) as [[ids t'] b]. unfold ids_of, tree_of in *. cbn [fst snd] in *.
    cbn [app]. rewrite <- K. cbn [free_order app].
    symmetry. rewrite !app_assoc. apply Permutation_cons_app. rewrite <- !app_assoc. reflexivity.
  - rewrite <- free_order_after_child. cbn [rebuild free_order]. rewrite (IHm x xs) at 1. apply perm_mid3.
Qed.

(** ---------------------------------------------------------------- the ideal map *)
Lemma assoc_put m k v k' : assoc (spec_put m k v) k' = if key_eqb k' k then Some v else assoc m k'.
Proof.
  induction m as [|[k0 v0] m IH]; cbn [spec_put assoc]; [reflexivity|].
  destruct (key_eqb k k0) eqn:E; cbn [assoc].
  - apply key_eqb_eq in E; subst k0. destruct (key_eqb k' k); reflexivity.
  - rewrite IH. destruct (key_eqb k' k0) eqn:E0; [|reflexivity].
    apply key_eqb_eq in E0; subst k0. destruct (key_eqb k' k) eqn:E1; [|reflexivity].
    apply key_eqb_eq in E1; subst k'. rewrite key_eqb_refl in E. discriminate.
Qed.
Lemma assoc_in m k v : assoc m k = Some v -> In k (map fst m).
Proof.
  induction m as [|[k0 v0] m IH]; cbn [assoc map fst]; [discriminate|].
  destruct (key_eqb k k0) eqn:E; [apply key_eqb_eq in E; subst; left; reflexivity | right; auto].
Qed.
Lemma assoc_notin m k : ~ In k (map fst m) -> assoc m k = None.
Proof. destruct (assoc m k) eqn:E; [|reflexivity]. intros H; exfalso; apply H; eapply assoc_in; eauto. Qed.
Lemma in_assoc m k : In k (map fst m) -> exists v, assoc m k = Some v.
Proof.
  induction m as [|[k0 v0] m IH]; cbn [assoc map fst]; [intros []|].
  destruct (key_eqb k k0) eqn:E; [eauto|]. intros [->|H]; [rewrite key_eqb_refl in E; discriminate|auto].
Qed.
Lemma assoc_del m k k' : NoDup (map fst m) -> assoc (spec_del m k) k' = if key_eqb k' k then None else assoc m k'.
Proof.
  induction m as [|[k0 v0] m IH]; cbn [spec_del assoc map fst]; intros Hnd; [destruct (key_eqb k' k); reflexivity|].
  inversion Hnd; subst. destruct (key_eqb k k0) eqn:E.
  - apply key_eqb_eq in E; subst k0. destruct (key_eqb k' k) eqn:E1; [|reflexivity].
    apply key_eqb_eq in E1; subst k'. apply assoc_notin; assumption.
  - cbn [assoc]. rewrite IH by assumption. destruct (key_eqb k' k0) eqn:E0; [|reflexivity].
    apply key_eqb_eq in E0; subst k0. destruct (key_eqb k' k) eqn:E1; [|reflexivity].
    apply key_eqb_eq in E1; subst k'. rewrite key_eqb_refl in E. discriminate.
Qed.
Lemma keys_put m k v k' : In k' (map fst (spec_put m k v)) -> k' = k \/ In k' (map fst m).
Proof.
  induction m as [|[k0 v0] m IH]; cbn [spec_put map fst].
  - intros [<-|[]]; auto.
  - destruct (key_eqb k k0) eqn:E; cbn [map fst].
    + intros [<-|H]; [auto|right; right; assumption].
    + intros [<-|H]; [right; left; reflexivity|]. destruct (IH H); [auto|right; right; assumption].
Qed.
Lemma nodup_put m k v : NoDup (map fst m) -> NoDup (map fst (spec_put m k v)).
Proof.
  induction m as [|[k0 v0] m IH]; cbn [spec_put map fst]; intros Hnd.
  - constructor; [intros []|constructor].
  - inversion Hnd; subst. destruct (key_eqb k k0) eqn:E; cbn [map fst].
    + apply key_eqb_eq in E; subst k0. constructor; assumption.
    + constructor; [|auto]. intros H. destruct (keys_put _ _ _ _ H) as [->|H']; [|auto].
      rewrite key_eqb_refl in E; discriminate.
Qed.
Lemma keys_del m k k' : In k' (map fst (spec_del m k)) -> In k' (map fst m).
Proof.
  induction m as [|[k0 v0] m IH]; cbn [spec_del map fst]; [auto|].
  destruct (key_eqb k k0); cbn [map fst In]; [intros; right; assumption|]. intros [<-|H]; [left; reflexivity|right; auto].
Qed.
Lemma nodup_del m k : NoDup (map fst m) -> NoDup (map fst (spec_del m k)).
Proof.
  induction m as [|[k0 v0] m IH]; cbn [spec_del map fst]; intros Hnd; [constructor|].
  inversion Hnd; subst. destruct (key_eqb k k0); cbn [map fst]; [assumption|].
  constructor; [|auto]. intros H; apply keys_del in H; auto.
Qed.

(** ---------------------------------------------------------------- abstraction relation *)
Definition lookup_val (t : tst) (k : key) : option N := option_map eval (lookup t k).

Record tst_rel (t : tst) (m : list (key * N)) : Prop := {
  rel_nodup : NoDup (map fst m);
  rel_wf : Forall wf_key (map fst m);
  rel_lookup : forall k, wf_key k -> lookup_val t k = assoc m k;
}.

Lemma rel_keys t m : tree_inv t -> tst_rel t m -> forall k, In k (map ekey (entries t)) <-> In k (map fst m).
Proof.
  intros [Hsp _ Hso _] [Hnd Hwf Hl] k. split.
  - intros H. apply in_map_iff in H. destruct H as (e & <- & He). destruct (Hso e He) as [Hw Hlk].
    specialize (Hl _ Hw). unfold lookup_val in Hl. rewrite Hlk in Hl. cbn in Hl. eapply assoc_in; eauto.
  - intros H. assert (Hw : wf_key k) by (rewrite Forall_forall in Hwf; auto).
    destruct (in_assoc _ _ H) as [v Hv]. specialize (Hl _ Hw). rewrite Hv in Hl. unfold lookup_val in Hl.
    destruct (lookup t k) as [e|] eqn:El; [|discriminate].
    rewrite <- (lookup_key t k e Hsp Hw El). apply in_map.
    destruct k as [|ch rest]; [discriminate|]. eapply lk_in_entries; eauto.
Qed.

Lemma rel_perm t m : tree_inv t -> tst_rel t m -> Permutation (map ekey (entries t)) (map fst m).
Proof.
  intros Hi Hr. apply NoDup_Permutation; [apply (ti_nodup _ Hi)|apply (rel_nodup _ _ Hr)|apply rel_keys; assumption].
Qed.

Lemma rel_size t m : tree_inv t -> tst_rel t m -> lenN (entries t) = lenN m.
Proof.
  intros Hi Hr. pose proof (Permutation_length (rel_perm t m Hi Hr)) as H. rewrite !map_length in H. unfold lenN; lia.
Qed.

(** ---------------------------------------------------------------- the table invariant *)
Definition table_ids (s : table) : list N := t_hdr s :: free_order (t_root s).

Record tst_inv (base : list N) (s : table) (a : alloc_st) : Prop := {
  inv_tree : tree_inv (t_root s);
  inv_size : t_size s = lenN (entries (t_root s));
  inv_sizeW : t_size s < W;
  inv_led : ledger_ok a;
  inv_pos : 0 < next_id a;
  inv_live : Permutation (live_ids a) (table_ids s ++ base);
  inv_tag : forall b, In b (live a) -> In (b_id b) (table_ids s) -> b_tag b = t_mem s;
}.

Lemma set_tree_same s : set_tree s (t_root s) (t_size s) = s.
Proof. destruct s; reflexivity. Qed.

Lemma inv_grow base s a a' extra root' size' :
  tst_inv base s a -> ledger_ok a' -> 0 < next_id a' ->
  Permutation (live_ids a') (extra ++ live_ids a) ->
  (forall b, In b (live a') -> In b (live a) \/ (b_tag b = t_mem s /\ In (b_id b) extra)) ->
  (forall i, In i extra -> ~ In i (live_ids a)) ->
  Permutation (free_order root') (extra ++ free_order (t_root s)) ->
  tree_inv root' -> size' = lenN (entries root') -> size' < W ->
  tst_inv base (set_tree s root' size') a'.
Proof.
  intros [Ht Hs HsW Hl Hp Hlive Htag] Hl' Hp' Hperm Hnew Hfresh Hfo Ht' Hs' HsW'.
  split; cbn [set_tree t_root t_size t_hdr t_mem]; try assumption.
  - unfold table_ids in *. cbn [t_hdr t_root]. rewrite Hperm, Hlive, Hfo. cbn [app].
    cbn [set_tree t_hdr]. symmetry. rewrite <- app_assoc. apply Permutation_cons_app. reflexivity.
  - intros b Hb Hin. unfold table_ids in *. cbn [t_hdr t_root] in Hin.
    destruct (Hnew b Hb) as [Hb0|[Htg _]]; [|assumption].
    apply Htag; [assumption|]. destruct Hin as [E|Hin]; [left; assumption|].
    eapply Permutation_in in Hin; [|exact Hfo]. apply in_app_iff in Hin. destruct Hin as [Hin|Hin]; [|right; assumption].
    exfalso. apply (Hfresh _ Hin). unfold live_ids. apply in_map; assumption.
Qed.

Lemma wadd_1 a : a + 1 < W -> wadd a 1 = a + 1.
Proof. intros H. unfold wadd. apply N.mod_small; assumption. Qed.
Lemma wsub_1 a : 0 < a -> a < W -> wsub a 1 = a - 1.
Proof.
  intros H0 H. unfold wsub. change (1 mod W) with 1.
  replace (a + W - 1) with ((a - 1) + 1 * W) by lia.
  rewrite N.mod_add by (unfold W; lia). apply N.mod_small. lia.
Qed.
Lemma wsub_self a : a < W -> wsub a a = 0.
Proof.
  intros H. unfold wsub. rewrite (N.mod_small a W) by assumption.
  replace (a + W - a) with (0 + 1 * W) by lia. rewrite N.mod_add by (unfold W; lia). reflexivity.
Qed.

(** ---------------------------------------------------------------- get / contains *)
Lemma get_spec s ch rest :
  tst_get s (ch :: rest) = match lk (t_root s) ch rest with
                           | Some e => (CC_OK, Some (eval e))
                           | None => (CC_ERR_KEY_NOT_FOUND, None)
                           end.
Proof.
  unfold tst_get. cbn [get_last_node]. destruct (descend (t_root s) ch rest []) as [[p slot] post] eqn:Ed.
  destruct (descend_spec _ _ _ _ _ _ _ Ed) as (q & _ & _ & -> & Hpost & _).
  destruct slot as [|id c [[[e k] v]|] l m r]; cbn [data_of]; try reflexivity.
  rewrite Hpost by discriminate. reflexivity.
Qed.

Lemma set_at_ins0 t mk ch rest p slot post :
  descend t ch rest [] = (p, slot, post) -> set_at t (rev p) (mk slot post) = Some (ins t ch rest mk).
Proof.
  intros H. destruct (set_at_ins t mk _ _ _ _ _ _ H) as (q & -> & Hs). rewrite app_nil_r, rev_involutive. exact Hs.
Qed.
Lemma remove_eow_at_del0 t ch rest p slot post :
  descend t ch rest [] = (p, slot, post) -> slot <> Leaf -> remove_eow_at t (rev p) = Some (del t ch rest).
Proof.
  intros H Hs. destruct (remove_eow_at_del t _ _ _ _ _ _ H Hs) as (q & -> & Hr). rewrite app_nil_r, rev_involutive. exact Hr.
Qed.

Lemma chain_ids_grants mem : forall cs a, plan a = [] -> SZ_NODE <= limit a ->
  exists ids a1, chain_ids mem cs a = (ids, true, a1) /\ plan a1 = [] /\ limit a1 = limit a.
Proof.
  induction cs as [|c cs IH]; intros a Hp Hl; cbn [chain_ids]; [eauto|].
  destruct (alloc_grants mem SZ_NODE a Hp Hl) as (a' & E & Hp').
  pose proof (alloc_cases mem SZ_NODE a) as C. rewrite E in C. destruct C as (_ & _ & _ & El & _).
  rewrite E. destruct (IH a' Hp') as (ids & a1 & -> & Hp1 & El1); [lia|].
  exists (next_id a :: ids), a1. split; [reflexivity|]. split; [assumption|congruence].
Qed.

(** ---------------------------------------------------------------- add *)
Ltac use_set H :=
  let T := type of H in
  match T with _ = ?rhs =>
    match goal with |- context [set_at ?x ?y ?z] => replace (set_at x y z) with rhs by (symmetry; exact H) end
  end.

Lemma perm_data_front (A B C : list N) e i : Permutation (A ++ B ++ C ++ [e] ++ [i]) ([e] ++ A ++ B ++ C ++ [] ++ [i]).
Proof.
  cbn [app]. symmetry. rewrite !app_assoc. apply Permutation_cons_app. rewrite <- !app_assoc. reflexivity.
Qed.

Lemma add_refines base s a ch rest v :
  tst_inv base s a -> Forall byte (ch :: rest) -> t_size s + 1 < W ->
  exists st s' a', tst_add s (ch :: rest) v a = Ok (st, s', a') /\ tst_inv base s' a' /\
    t_mem s' = t_mem s /\ t_hdr s' = t_hdr s /\
    ((st = CC_OK /\ exists ids e, t_root s' = ins (t_root s) ch rest (add_mk ids (e, ch :: rest, v))) \/
     (st = CC_ERR_ALLOC /\ s' = s /\ Permutation (live_ids a') (live_ids a))) /\
    (plan a = [] -> SZ_NODE <= limit a -> st = CC_OK /\ plan a' = [] /\ limit a' = limit a).
Proof.
  intros Hinv Hbyte HW. pose proof Hinv as [Ht Hs HsW Hl Hp Hlive Htag].
  unfold tst_add. cbn [get_last_node].
  destruct (descend (t_root s) ch rest []) as [[p slot] post] eqn:Ed.
  destruct (descend_spec _ _ _ _ _ _ _ Ed) as (q & _ & _ & Hlk & _ & Hpost').
  assert (Hfail : forall a', ledger_ok a' -> 0 < next_id a' -> Permutation (live_ids a') (live_ids a) ->
            (forall b, In b (live a') -> In b (live a)) -> tst_inv base s a').
  { intros a' Hl' Hp' Hperm Hsub. rewrite <- (set_tree_same s).
    apply (inv_grow base s a a' [] (t_root s) (t_size s)); auto; try (intros i []). }
  (* a successful insertion with the new blocks [extra] *)
  assert (Hgrow : forall a' ids e size',
            ledger_ok a' -> 0 < next_id a' ->
            let new := (e, ch :: rest, v) in
            let extra := match lk (t_root s) ch rest with Some _ => [] | None => e :: ids end in
            Permutation (live_ids a') (extra ++ live_ids a) ->
            (forall b, In b (live a') -> In b (live a) \/ (b_tag b = t_mem s /\ In (b_id b) extra)) ->
            (forall i, In i extra -> ~ In i (live_ids a)) ->
            Permutation (free_order (add_mk ids new slot post)) (extra ++ free_order slot) ->
            size' = match lk (t_root s) ch rest with Some _ => t_size s | None => t_size s + 1 end ->
            tst_inv base (set_tree s (ins (t_root s) ch rest (add_mk ids new)) size') a').
  { intros a' ids e size' Hl' Hp' new extra Hperm Hnew Hfresh Hfo Hsz.
    apply (inv_grow base s a a' extra); auto.
    - eapply free_order_ins; eauto.
    - apply tree_inv_ins; auto.
    - pose proof (ins_entries _ new (add_mk_ok2 ids new) (t_root s) ch rest) as Hsp.
      apply put_split_len in Hsp. rewrite Hsp, Hsz, Hs. destruct (lk (t_root s) ch rest); reflexivity.
    - rewrite Hsz. destruct (lk (t_root s) ch rest); lia. }
  destruct slot as [|id c d l m r].
  - (* the key ends below the tree: make_mid_subtree *)
    assert (Hpne : post <> []) by (apply Hpost'; reflexivity).
    assert (Ecs : chain_chars post = post) by (destruct post; [congruence|reflexivity]).
    rewrite Ecs. cbn [data_of] in Hlk.
    destruct (chain_ids (t_mem s) post a) as [[ids ok] a1] eqn:Ec.
    destruct (chain_ids_spec _ _ _ _ _ _ Ec Hl Hp) as (Hl1 & Hp1 & Eli1 & Elim1 & Hnew1 & Hnd1 & Hfr1 & Hok & Hko).
    assert (Hrel : forall a2, ledger_ok a2 -> 0 < next_id a2 -> Permutation (live_ids a2) (ids ++ live_ids a) ->
              (forall b, In b (live a2) -> In b (live a) \/ (b_tag b = t_mem s /\ In (b_id b) ids)) ->
              exists a3, release_all (t_mem s) ids a2 = Ok a3 /\ tst_inv base s a3 /\ Permutation (live_ids a3) (live_ids a)).
    { intros a2 Hl2 Hp2 Hperm2 Hnew2.
      destruct (release_all_perm (t_mem s) ids a2 (live_ids a) Hl2 Hperm2) as (a3 & E3 & Hp3 & Hl3 & En3 & _ & _ & _ & Hsub3).
      { intros b Hb Hi. destruct (Hnew2 b Hb) as [Hb0|[Htg _]]; [|assumption].
        exfalso. apply (Hfr1 _ Hi). unfold live_ids. apply in_map; assumption. }
      exists a3. split; [assumption|]. split; [|assumption].
      apply Hfail; auto.
      - rewrite En3. assumption.
      - intros b Hb. destruct (Hnew2 b (Hsub3 b Hb)) as [Hb0|[_ Hi]]; [assumption|].
        exfalso. apply (Hfr1 _ Hi). eapply Permutation_in; [exact Hp3|]. unfold live_ids. apply in_map; assumption. }
    assert (Hperm1 : Permutation (live_ids a1) (ids ++ live_ids a)).
    { rewrite Eli1. apply Permutation_app_tail. symmetry. apply Permutation_rev. }
    assert (Hgr : plan a = [] -> SZ_NODE <= limit a -> ok = true /\ plan a1 = []).
    { intros Hpl Hlim. destruct (chain_ids_grants (t_mem s) post a Hpl Hlim) as (ids' & a1' & E' & Hpl' & _).
      rewrite E' in Ec. inversion Ec; subst. auto. }
    destruct ok; cbn [negb].
    + specialize (Hok eq_refl).
      pose proof (alloc_spec (t_mem s) SZ_ENTRY a1 Hl1 Hp1) as A.
      destruct (alloc (t_mem s) SZ_ENTRY a1) as [[e|] a2] eqn:Ea.
      * destruct A as (El2 & Hl2 & Hp2 & Hfresh2 & Elim2 & Epl2).
        assert (Emk : add_mk ids (e, ch :: rest, v) Leaf post = build_chain post ids (Some (e, ch :: rest, v))).
        { rewrite add_mk_exact; rewrite Ecs; [reflexivity|assumption]. }
        pose proof (set_at_ins0 _ (add_mk ids (e, ch :: rest, v)) _ _ _ _ _ Ed) as Hset. rewrite Emk in Hset.
        use_set Hset.
        cbn [of_opt bind].
        do 3 eexists. split; [reflexivity|]. cbn [set_tree t_mem t_hdr t_root].
        split; [|split; [reflexivity|split; [reflexivity|split; [left; split; [reflexivity|eauto]|]]]].
        2:{ intros Hpl Hlim. destruct (Hgr Hpl Hlim) as [_ Hpl1]. rewrite Epl2, Hpl1, Elim2, Elim1. auto. }
        apply (Hgrow a2 ids e); auto; rewrite Hlk.
        -- unfold live_ids in *. rewrite El2. cbn [map b_id app]. apply perm_skip. exact Hperm1.
        -- intros b Hb. rewrite El2 in Hb. destruct Hb as [<-|Hb]; [right; cbn; auto|].
           destruct (Hnew1 b Hb) as [Hb0|[Htg Hi]]; [left; assumption|right; split; [assumption|right; assumption]].
        -- intros i [<-|Hi]; [|apply Hfr1; assumption].
           intros Hin. apply Hfresh2. rewrite Eli1. apply in_app_iff; right; assumption.
        -- rewrite Emk. rewrite free_order_chain by assumption. destruct post; [congruence|].
           cbn [node_ids_data app free_order]. rewrite app_nil_r. reflexivity.
        -- apply wadd_1; assumption.
      * destruct A as (El2 & Hl2 & Hp2 & _).
        destruct (Hrel a2 Hl2 Hp2) as (a3 & -> & Hi3 & Hperm3).
        { unfold live_ids in *. rewrite El2. exact Hperm1. }
        { intros b Hb. rewrite El2 in Hb. apply Hnew1; assumption. }
        cbn [bind]. do 3 eexists. split; [reflexivity|]. split; [assumption|]. split; [reflexivity|]. split; [reflexivity|].
        split; [right; auto|]. intros Hpl Hlim. exfalso.
        destruct (Hgr Hpl Hlim) as [_ Hpl1].
        destruct (alloc_grants (t_mem s) SZ_ENTRY a1 Hpl1) as (a2' & E2' & _); [unfold SZ_ENTRY, SZ_NODE in *; lia|].
        rewrite E2' in Ea. discriminate.
    + destruct (Hrel a1 Hl1 Hp1 Hperm1 Hnew1) as (a3 & -> & Hi3 & Hperm3).
      cbn [bind]. do 3 eexists. split; [reflexivity|]. split; [assumption|]. split; [reflexivity|]. split; [reflexivity|].
      split; [right; auto|]. intros Hpl Hlim. destruct (Hgr Hpl Hlim); discriminate.
  - cbn [data_of] in Hlk. destruct d as [[[e0 k0] v0]|].
    + (* the key is present: its entry is overwritten *)
      pose proof (set_at_ins0 _ (add_mk [] (e0, ch :: rest, v)) _ _ _ _ _ Ed) as Hset. use_set Hset. cbn [of_opt bind].
      do 3 eexists. split; [reflexivity|]. cbn [set_tree t_mem t_hdr t_root].
      split; [|split; [reflexivity|split; [reflexivity|split; [left; split; [reflexivity|eauto]|auto]]]].
      apply (Hgrow a [] e0); auto; rewrite Hlk; cbn [app]; auto; try (intros i []); try reflexivity.
    + (* the node exists (a prefix of a longer key): one entry allocation *)
      pose proof (alloc_spec (t_mem s) SZ_ENTRY a Hl Hp) as A.
      destruct (alloc (t_mem s) SZ_ENTRY a) as [[e|] a1] eqn:Ea.
      * destruct A as (El1 & Hl1 & Hp1 & Hfresh1 & Elim1 & Epl1).
        pose proof (set_at_ins0 _ (add_mk [] (e, ch :: rest, v)) _ _ _ _ _ Ed) as Hset. use_set Hset. cbn [of_opt bind].
        do 3 eexists. split; [reflexivity|]. cbn [set_tree t_mem t_hdr t_root].
        split; [|split; [reflexivity|split; [reflexivity|split; [left; split; [reflexivity|eauto]|]]]].
        2:{ intros Hpl Hlim. rewrite Epl1, Hpl, Elim1. auto. }
        apply (Hgrow a1 [] e); auto; rewrite Hlk.
        -- unfold live_ids. rewrite El1. reflexivity.
        -- intros b Hb. rewrite El1 in Hb. destruct Hb as [<-|Hb]; [right; cbn; auto|left; assumption].
        -- intros i [<-|[]]. assumption.
        -- cbn [add_mk free_order]. apply perm_data_front.
        -- apply wadd_1; assumption.
      * destruct A as (El1 & Hl1 & Hp1 & _).
        do 3 eexists. split; [reflexivity|]. split.
        { apply Hfail; auto. unfold live_ids; rewrite El1; reflexivity. intros b Hb; rewrite El1 in Hb; assumption. }
        split; [reflexivity|]. split; [reflexivity|]. split; [right; split; [reflexivity|split; [reflexivity|]]|].
        { unfold live_ids; rewrite El1; reflexivity. }
        intros Hpl Hlim. exfalso. destruct (alloc_grants (t_mem s) SZ_ENTRY a Hpl) as (a2' & E2' & _); [unfold SZ_ENTRY, SZ_NODE in *; lia|].
        rewrite E2' in Ea. discriminate.
Qed.

(** ---------------------------------------------------------------- remove *)
Lemma remove_refines base s a ch rest :
  tst_inv base s a -> Forall byte (ch :: rest) ->
  match lk (t_root s) ch rest with
  | None => tst_remove s (ch :: rest) a = Ok (CC_ERR_KEY_NOT_FOUND, None, s, a)
  | Some old =>
      exists s' a', tst_remove s (ch :: rest) a = Ok (CC_OK, Some (eval old), s', a') /\ tst_inv base s' a' /\
        t_root s' = tree_of (del (t_root s) ch rest) /\ t_mem s' = t_mem s /\ t_hdr s' = t_hdr s /\
        t_size s' = t_size s - 1 /\ 0 < t_size s /\
        Permutation (live_ids a) (ids_of (del (t_root s) ch rest) ++ live_ids a') /\
        plan a' = plan a /\ limit a' = limit a
  end.
Proof.
  intros Hinv Hbyte. pose proof Hinv as [Ht Hs HsW Hl Hp Hlive Htag].
  unfold tst_remove. cbn [get_last_node].
  destruct (descend (t_root s) ch rest []) as [[p slot] post] eqn:Ed.
  destruct (descend_spec _ _ _ _ _ _ _ Ed) as (q & _ & _ & Hlk & Hpost & _).
  rewrite Hlk. destruct slot as [|id c [[[e k] v]|] l m r]; cbn [data_of]; try reflexivity.
  rewrite Hpost by discriminate.
  rewrite (remove_eow_at_del0 _ _ _ _ _ _ Ed) by discriminate. cbn [of_opt bind].
  cbn [data_of] in Hlk.
  pose proof (free_order_del (t_root s) ch rest) as Hfo.
  pose proof (del_entries _ _ _ _ Hlk) as (l1 & l2 & E1 & E2).
  destruct (del (t_root s) ch rest) as [[ids root'] fr] eqn:Edel. unfold ids_of, tree_of in *. cbn [fst snd] in *.
  assert (Hperm : Permutation (live_ids a) (ids ++ (t_hdr s :: free_order root' ++ base))).
  { rewrite Hlive. unfold table_ids. cbn [app]. rewrite Hfo. apply Permutation_cons_app.
    rewrite <- app_assoc. reflexivity. }
  destruct (release_all_perm (t_mem s) ids a _ Hl Hperm) as (a' & -> & Hp' & Hl' & En' & _ & Epl' & Eli' & Hsub').
  { intros b Hb Hi. apply Htag; [assumption|]. right. eapply Permutation_in; [symmetry; exact Hfo|]. apply in_app_iff; left; assumption. }
  cbn [bind eval snd].
  assert (Hpos : 0 < t_size s).
  { rewrite Hs, E1, lenN_app, lenN_cons. lia. }
  replace (0 <? t_size s) with true by lia. rewrite wsub_1 by assumption.
  do 2 eexists. split; [reflexivity|]. cbn [set_tree t_root t_mem t_hdr t_size].
  split; [|repeat split; auto].
  - split; cbn [set_tree t_root t_mem t_hdr t_size]; auto.
    + pose proof (tree_inv_del (t_root s) ch rest Ht Hbyte) as K. rewrite Edel in K. exact K.
    + rewrite E2, Hs, E1, !lenN_app, lenN_cons. lia.
    + lia.
    + rewrite En'. assumption.
    + intros b Hb Hi. apply Htag; [auto|]. unfold table_ids in *. cbn [t_hdr t_root] in Hi.
      destruct Hi as [E|Hi]; [left; assumption|right].
      eapply Permutation_in; [symmetry; exact Hfo|]. apply in_app_iff; right; assumption.
  - rewrite Hperm. apply Permutation_app_head. symmetry. exact Hp'.
Qed.

(** ---------------------------------------------------------------- remove_all, destroy, new *)
Lemma remove_all_refines base s a :
  tst_inv base s a ->
  exists s' a', tst_remove_all s a = Ok (s', a') /\ tst_inv base s' a' /\ t_root s' = Leaf /\ t_size s' = 0 /\
    t_mem s' = t_mem s /\ t_hdr s' = t_hdr s /\ Permutation (live_ids a') (t_hdr s :: base) /\ plan a' = plan a /\ limit a' = limit a.
Proof.
  intros [Ht Hs HsW Hl Hp Hlive Htag]. unfold tst_remove_all.
  assert (Hperm : Permutation (live_ids a) (free_order (t_root s) ++ (t_hdr s :: base))).
  { rewrite Hlive. unfold table_ids. cbn [app]. apply Permutation_cons_app. reflexivity. }
  destruct (release_all_perm (t_mem s) _ a _ Hl Hperm) as (a' & -> & Hp' & Hl' & En' & _ & Epl' & Elim' & Hsub').
  { intros b Hb Hi. apply Htag; [assumption|right; assumption]. }
  cbn [bind]. do 2 eexists. split; [reflexivity|]. cbn [set_tree t_root t_mem t_hdr t_size].
  rewrite count_eow_entries, <- Hs, wsub_self by assumption.
  split; [|repeat split; auto].
  split; cbn [set_tree t_root t_mem t_hdr t_size]; auto.
  - split; cbn; auto. intros e []. constructor.
  - unfold W; lia.
  - rewrite En'; assumption.
  - intros b Hb Hi. apply Htag; [auto|]. unfold table_ids in *. cbn [t_hdr t_root free_order] in Hi.
    destruct Hi as [E|[]]. left; assumption.
Qed.

Lemma destroy_balanced base s a :
  tst_inv base s a -> exists a', tst_destroy s a = Ok a' /\ Permutation (live_ids a') base /\ ledger_ok a'.
Proof.
  intros Hinv. destruct (remove_all_refines base s a Hinv) as (s' & a1 & E & Hi1 & _ & _ & Em & Eh & Hperm & _ & _).
  unfold tst_destroy. rewrite E. cbn [bind].
  destruct (release_perm (t_mem s) (t_hdr s) a1 base (inv_led _ _ _ Hi1) Hperm) as (a2 & -> & Hp2 & Hl2 & _).
  { intros b Hb Eb. rewrite <- Em. apply (inv_tag _ _ _ Hi1); [assumption|]. left. congruence. }
  eauto.
Qed.

Lemma new_inv mem a st s a' :
  ledger_ok a -> 0 < next_id a -> tst_new mem a = (st, Some s, a') ->
  st = CC_OK /\ tst_inv (live_ids a) s a' /\ t_root s = Leaf /\ t_mem s = mem.
Proof.
  intros Hl Hp. unfold tst_new. pose proof (alloc_spec mem SZ_TABLE a Hl Hp) as A.
  destruct (alloc mem SZ_TABLE a) as [[h|] a1]; [|discriminate]. intros H; inversion H; subst; clear H.
  destruct A as (El & Hl1 & Hp1 & Hfresh & _). split; [reflexivity|]. split; [|auto].
  split; cbn [t_root t_size t_hdr t_mem]; auto.
  - split; cbn; auto. intros e []. constructor.
  - unfold W; lia.
  - unfold live_ids, table_ids. rewrite El. reflexivity.
  - intros b Hb Hi. unfold table_ids in Hi. cbn [t_hdr t_root free_order] in Hi. destruct Hi as [E|[]].
    rewrite El in Hb. destruct Hb as [<-|Hb]; [reflexivity|]. exfalso. apply Hfresh. unfold live_ids. rewrite E. apply in_map; assumption.
Qed.

Lemma new_refused mem a st a' : tst_new mem a = (st, None, a') -> st = CC_ERR_ALLOC /\ live a' = live a.
Proof.
  unfold tst_new. pose proof (alloc_cases mem SZ_TABLE a) as C.
  destruct (alloc mem SZ_TABLE a) as [[h|] a1]; [discriminate|]. intros H; inversion H; subst. destruct C as (E & _). auto.
Qed.

(** ---------------------------------------------------------------- one step *)
Definition op_wf (o : tst_op) : Prop :=
  match o with TAdd k _ | TGet k | TContains k | TRemove k => wf_key k | _ => True end.

Lemma spec_del_absent m k : assoc m k = None -> spec_del m k = m.
Proof.
  induction m as [|[k0 v0] m IH]; cbn [assoc spec_del]; [reflexivity|].
  destruct (key_eqb k k0); [discriminate|]. intros H; rewrite IH; auto.
Qed.

Lemma rel_put t m ch rest v ids e :
  tst_rel t m -> Forall byte (ch :: rest) ->
  tst_rel (ins t ch rest (add_mk ids (e, ch :: rest, v))) (spec_put m (ch :: rest) v).
Proof.
  intros [Hnd Hwf Hl] Hb. set (new := (e, ch :: rest, v)).
  pose proof (mk2_ok _ _ (add_mk_ok2 ids new)) as Hok.
  split.
  - apply nodup_put; assumption.
  - apply Forall_forall. intros k' Hk'. destruct (keys_put _ _ _ _ Hk') as [->|Hin].
    + split; [discriminate|assumption].
    + rewrite Forall_forall in Hwf; auto.
  - intros k' Hw. rewrite assoc_put. destruct (key_eqb k' (ch :: rest)) eqn:E.
    + apply key_eqb_eq in E; subst k'. unfold lookup_val. cbn [lookup].
      rewrite (lk_ins_same _ _ Hok). reflexivity.
    + apply key_eqb_neq in E. rewrite <- (Hl _ Hw). unfold lookup_val.
      destruct k' as [|ch' rest']; [reflexivity|]. cbn [lookup].
      rewrite (lk_ins_other _ _ Hok); auto. apply Hw.
Qed.

Lemma rel_del t m ch rest :
  tst_rel t m -> Forall byte (ch :: rest) -> tst_rel (tree_of (del t ch rest)) (spec_del m (ch :: rest)).
Proof.
  intros [Hnd Hwf Hl] Hb. split.
  - apply nodup_del; assumption.
  - apply Forall_forall. intros k' Hk'. apply keys_del in Hk'. rewrite Forall_forall in Hwf; auto.
  - intros k' Hw. rewrite assoc_del by assumption. destruct (key_eqb k' (ch :: rest)) eqn:E.
    + apply key_eqb_eq in E; subst k'. unfold lookup_val. cbn [lookup]. rewrite lk_del_same. reflexivity.
    + apply key_eqb_neq in E. rewrite <- (Hl _ Hw). unfold lookup_val.
      destruct k' as [|ch' rest']; [reflexivity|]. cbn [lookup]. rewrite lk_del_other; auto. apply Hw.
Qed.

Theorem tst_step_refines base s a m o :
  tst_inv base s a -> tst_rel (t_root s) m -> op_wf o -> t_size s + 1 < W ->
  exists out s' a', tst_step s a o = Ok (out, s', a') /\ tst_inv base s' a' /\
    t_mem s' = t_mem s /\ t_hdr s' = t_hdr s /\ t_size s' <= t_size s + 1 /\
    ((out = fst (spec_step m o) /\ tst_rel (t_root s') (snd (spec_step m o))) \/
     ((exists k v, o = TAdd k v) /\ out = OStat CC_ERR_ALLOC /\ s' = s /\ Permutation (live_ids a') (live_ids a))) /\
    (plan a = [] -> SZ_NODE <= limit a ->
       out = fst (spec_step m o) /\ tst_rel (t_root s') (snd (spec_step m o)) /\ plan a' = [] /\ limit a' = limit a).
Proof.
  intros Hinv Hrel Hwf HW. destruct o as [k v|k|k|k| |]; cbn [op_wf] in Hwf; cbn [tst_step spec_step fst snd].
  - (* add *)
    destruct Hwf as [Hne Hb]. destruct k as [|ch rest]; [congruence|].
    destruct (add_refines base s a ch rest v Hinv Hb HW) as (st & s' & a' & -> & Hi' & Em & Eh & Hcase & Hgr).
    cbn [bind]. do 3 eexists. split; [reflexivity|]. split; [assumption|]. split; [assumption|]. split; [assumption|].
    assert (Hsz : t_size s' <= t_size s + 1).
    { destruct Hcase as [[_ (ids & e & Er)]|[_ [-> _]]]; [|lia].
      rewrite (inv_size _ _ _ Hi'), (inv_size _ _ _ Hinv), Er.
      pose proof (ins_entries _ _ (add_mk_ok2 ids (e, ch :: rest, v)) (t_root s) ch rest) as Hsp.
      apply put_split_len in Hsp. rewrite Hsp. destruct (lk (t_root s) ch rest); lia. }
    split; [assumption|]. split.
    + destruct Hcase as [[-> (ids & e & Er)]|[-> [-> Hp]]].
      * left. split; [reflexivity|]. rewrite Er. apply rel_put; assumption.
      * right. eauto 6.
    + intros Hpl Hlim. destruct (Hgr Hpl Hlim) as (-> & Hpl' & Hlim').
      destruct Hcase as [[_ (ids & e & Er)]|[E _]]; [|discriminate].
      split; [reflexivity|]. split; [rewrite Er; apply rel_put; assumption|auto].
  - (* get *)
    destruct Hwf as [Hne Hb]. destruct k as [|ch rest]; [congruence|].
    rewrite get_spec. pose proof (rel_lookup _ _ Hrel (ch :: rest) (conj Hne Hb)) as Hl. unfold lookup_val in Hl. cbn [lookup] in Hl.
    assert (Hout : (match lk (t_root s) ch rest with Some e => OVal CC_OK (Some (eval e)) | None => OVal CC_ERR_KEY_NOT_FOUND None end)
                   = match assoc m (ch :: rest) with Some v => OVal CC_OK (Some v) | None => OVal CC_ERR_KEY_NOT_FOUND None end).
    { rewrite <- Hl. destruct (lk (t_root s) ch rest); reflexivity. }
    destruct (lk (t_root s) ch rest) as [e|]; do 3 eexists; (split; [reflexivity|]); rewrite <- Hout;
      (split; [assumption|]); (split; [reflexivity|]); (split; [reflexivity|]); (split; [lia|]); auto.
  - (* contains *)
    destruct Hwf as [Hne Hb]. destruct k as [|ch rest]; [congruence|].
    unfold tst_contains. rewrite get_spec.
    pose proof (rel_lookup _ _ Hrel (ch :: rest) (conj Hne Hb)) as Hl. unfold lookup_val in Hl. cbn [lookup] in Hl.
    rewrite <- Hl. do 3 eexists. split; [reflexivity|].
    assert (Hout : (match lk (t_root s) ch rest with Some e => true | None => false end) = is_some (option_map eval (lk (t_root s) ch rest)))
      by (destruct (lk (t_root s) ch rest); reflexivity).
    destruct (lk (t_root s) ch rest) as [e|]; cbn [option_map is_some];
      (split; [assumption|]); (split; [reflexivity|]); (split; [reflexivity|]); (split; [lia|]); auto.
  - (* remove *)
    destruct Hwf as [Hne Hb]. destruct k as [|ch rest]; [congruence|].
    pose proof (remove_refines base s a ch rest Hinv Hb) as Hr.
    pose proof (rel_lookup _ _ Hrel (ch :: rest) (conj Hne Hb)) as Hl. unfold lookup_val in Hl. cbn [lookup] in Hl.
    destruct (lk (t_root s) ch rest) as [old|] eqn:Elk; cbn [option_map] in Hl; rewrite <- Hl.
    + destruct Hr as (s' & a' & -> & Hi' & Er & Em & Eh & Esz & Hpos & Hperm & Hpl & Hlim). cbn [bind].
      do 3 eexists. split; [reflexivity|]. split; [assumption|]. split; [assumption|]. split; [assumption|]. split; [lia|].
      assert (Hrel' : tst_rel (t_root s') (spec_del m (ch :: rest))) by (rewrite Er; apply rel_del; assumption).
      split; [left; auto|]. intros Hp0 Hl0. rewrite Hpl, Hlim. auto.
    + rewrite Hr. cbn [bind]. do 3 eexists. split; [reflexivity|]. split; [assumption|]. split; [reflexivity|]. split; [reflexivity|].
      split; [lia|]. rewrite spec_del_absent by (symmetry; assumption). auto.
  - (* remove_all *)
    destruct (remove_all_refines base s a Hinv) as (s' & a' & -> & Hi' & Er & Esz & Em & Eh & _ & Hpl & Hlim). cbn [bind].
    do 3 eexists. split; [reflexivity|]. split; [assumption|]. split; [assumption|]. split; [assumption|]. split; [lia|].
    assert (Hrel' : tst_rel (t_root s') []).
    { rewrite Er. split; cbn; [constructor|constructor|]. intros k _. destruct k; reflexivity. }
    split; [left; auto|]. intros Hp0 Hl0. rewrite Hpl, Hlim. auto.
  - (* size *)
    do 3 eexists. split; [reflexivity|]. split; [assumption|]. split; [reflexivity|]. split; [reflexivity|]. split; [lia|].
    rewrite (inv_size _ _ _ Hinv), (rel_size _ _ (inv_tree _ _ _ Hinv) Hrel). auto.
Qed.

(** ---------------------------------------------------------------- histories *)
Fixpoint tst_run (s : table) (a : alloc_st) (ops : list tst_op) : res (list tst_out * table * alloc_st) :=
  match ops with
  | [] => Ok ([], s, a)
  | o :: t => do (out, s1, a1) <- tst_step s a o; do (outs, s2, a2) <- tst_run s1 a1 t; Ok (out :: outs, s2, a2)
  end.
Fixpoint spec_run (m : list (key * N)) (ops : list tst_op) : list tst_out * list (key * N) :=
  match ops with
  | [] => ([], m)
  | o :: t => let '(out, m1) := spec_step m o in let '(outs, m2) := spec_run m1 t in (out :: outs, m2)
  end.
(** the outputs are those of the ideal map, except that an add may be refused (CC_ERR_ALLOC), in
    which case the ideal map does not move *)
Fixpoint follows (m : list (key * N)) (ops : list tst_op) (outs : list tst_out) (mf : list (key * N)) : Prop :=
  match ops, outs with
  | [], [] => mf = m
  | o :: ops', out :: outs' =>
      (out = fst (spec_step m o) /\ follows (snd (spec_step m o)) ops' outs' mf) \/
      ((exists k v, o = TAdd k v) /\ out = OStat CC_ERR_ALLOC /\ follows m ops' outs' mf)
  | _, _ => False
  end.

Theorem tst_run_refines base ops : forall s a m,
  tst_inv base s a -> tst_rel (t_root s) m -> Forall op_wf ops -> t_size s + lenN ops < W ->
  exists outs s' a', tst_run s a ops = Ok (outs, s', a') /\ tst_inv base s' a' /\ t_mem s' = t_mem s /\ t_hdr s' = t_hdr s /\
    (exists mf, follows m ops outs mf /\ tst_rel (t_root s') mf) /\
    (plan a = [] -> SZ_NODE <= limit a -> (outs, snd (spec_run m ops)) = spec_run m ops /\ tst_rel (t_root s') (snd (spec_run m ops))).
Proof.
  induction ops as [|o ops IH]; intros s a m Hinv Hrel Hwf HW; cbn [tst_run spec_run].
  - do 3 eexists. split; [reflexivity|]. split; [assumption|]. split; [reflexivity|]. split; [reflexivity|].
    split; [exists m; cbn; auto|auto].
  - inversion Hwf as [|? ? Hwo Hwt]; subst. rewrite lenN_cons in HW.
    destruct (tst_step_refines base s a m o Hinv Hrel Hwo) as (out & s1 & a1 & -> & Hi1 & Em1 & Eh1 & Hsz1 & Hcase & Hgr); [lia|].
    cbn [bind].
    assert (Hgen : forall m1, tst_rel (t_root s1) m1 ->
              exists outs s' a', tst_run s1 a1 ops = Ok (outs, s', a') /\ tst_inv base s' a' /\ t_mem s' = t_mem s1 /\ t_hdr s' = t_hdr s1 /\
                (exists mf, follows m1 ops outs mf /\ tst_rel (t_root s') mf) /\
                (plan a1 = [] -> SZ_NODE <= limit a1 -> (outs, snd (spec_run m1 ops)) = spec_run m1 ops /\ tst_rel (t_root s') (snd (spec_run m1 ops)))).
    { intros m1 Hr1. apply IH; auto. lia. }
    destruct Hcase as [[Eout Hr1]|[Hadd [Eout [Es Hperm]]]].
    + destruct (Hgen _ Hr1) as (outs & s' & a' & -> & Hi' & Em' & Eh' & (mf & Hf & Hrf) & Hgr'). cbn [bind].
      do 3 eexists. split; [reflexivity|]. split; [assumption|]. split; [congruence|]. split; [congruence|]. split.
      * exists mf. split; [|assumption]. cbn [follows]. left. auto.
      * intros Hpl Hlim. destruct (Hgr Hpl Hlim) as (_ & _ & Hpl1 & Hlim1).
        destruct (Hgr' Hpl1) as [E1 Hr']; [lia|].
        destruct (spec_step m o) as [out2 m1] eqn:Es. cbn [fst snd] in *. subst out.
        destruct (spec_run m1 ops) as [outs2 m2] eqn:Er. cbn [fst snd] in *. inversion E1; subst. auto.
    + subst s1. destruct (Hgen _ Hrel) as (outs & s' & a' & -> & Hi' & Em' & Eh' & (mf & Hf & Hrf) & Hgr'). cbn [bind].
      do 3 eexists. split; [reflexivity|]. split; [assumption|]. split; [congruence|]. split; [congruence|]. split.
      * exists mf. split; [|assumption]. cbn [follows]. right. auto.
      * intros Hpl Hlim. destruct (Hgr Hpl Hlim) as (Eo & _). destruct Hadd as (k & v & ->). cbn in Eo. congruence.
Qed.

(** from the constructor: every history, every fault plan *)
Theorem tst_new_run_refines mem a st s a1 ops :
  ledger_ok a -> 0 < next_id a -> tst_new mem a = (st, Some s, a1) -> Forall op_wf ops -> lenN ops < W ->
  exists outs s' a', tst_run s a1 ops = Ok (outs, s', a') /\ tst_inv (live_ids a) s' a' /\
    (exists mf, follows [] ops outs mf /\ tst_rel (t_root s') mf) /\
    (plan a1 = [] -> SZ_NODE <= limit a1 -> (outs, snd (spec_run [] ops)) = spec_run [] ops /\ tst_rel (t_root s') (snd (spec_run [] ops))).
Proof.
  intros Hl Hp Hn Hwf HW. destruct (new_inv _ _ _ _ _ Hl Hp Hn) as (_ & Hinv & Er & _).
  assert (Hrel : tst_rel (t_root s) []).
  { rewrite Er. split; cbn; [constructor|constructor|]. intros k _. destruct k; reflexivity. }
  destruct (tst_run_refines _ ops s a1 [] Hinv Hrel Hwf) as (outs & s' & a' & E & Hi & _ & _ & Hf & Hg).
  { rewrite (inv_size _ _ _ Hinv), Er. cbn. lia. }
  eauto 10.
Qed.

(** ---------------------------------------------------------------- consequences named by the property *)
(** size = number of distinct keys present *)
Theorem tst_size_is_count base s a m :
  tst_inv base s a -> tst_rel (t_root s) m -> t_size s = lenN m /\ NoDup (map fst m).
Proof.
  intros Hinv Hrel. split; [|apply (rel_nodup _ _ Hrel)].
  rewrite (inv_size _ _ _ Hinv). apply rel_size; [apply (inv_tree _ _ _ Hinv)|assumption].
Qed.

(** removing k changes the lookup of no other key (whatever the outcome of the removal) *)
Theorem tst_remove_frame base s a k k' st v s' a' :
  tst_inv base s a -> wf_key k -> wf_key k' -> k' <> k ->
  tst_remove s k a = Ok (st, v, s', a') -> tst_get s' k' = tst_get s k' /\ tst_contains s' k' = tst_contains s k'.
Proof.
  intros Hinv [Hne Hb] [Hne' Hb'] Hdiff Hr.
  destruct k as [|ch rest]; [congruence|]. destruct k' as [|ch' rest']; [congruence|].
  pose proof (remove_refines base s a ch rest Hinv Hb) as K.
  assert (Hg : tst_get s' (ch' :: rest') = tst_get s (ch' :: rest')).
  { destruct (lk (t_root s) ch rest) as [old|].
    - destruct K as (s2 & a2 & E & _ & Er & _). rewrite E in Hr. inversion Hr; subst.
      rewrite !get_spec, Er, lk_del_other; auto.
    - rewrite K in Hr. inversion Hr; subst. reflexivity. }
  split; [assumption|]. unfold tst_contains. rewrite Hg. reflexivity.
Qed.

(** C08: a refused add changes neither the table (the whole state, not just its abstraction) nor the ledger *)
Theorem tst_add_alloc_atomic base s a k v s' a' :
  tst_inv base s a -> wf_key k -> t_size s + 1 < W ->
  tst_add s k v a = Ok (CC_ERR_ALLOC, s', a') -> s' = s /\ Permutation (live_ids a') (live_ids a) /\ tst_inv base s' a'.
Proof.
  intros Hinv [Hne Hb] HW H. destruct k as [|ch rest]; [congruence|].
  destruct (add_refines base s a ch rest v Hinv Hb HW) as (st & s2 & a2 & E & Hi & _ & _ & Hcase & _).
  rewrite E in H. inversion H; subst. destruct Hcase as [[Ec _]|[_ [-> Hp]]]; [discriminate|auto].
Qed.

(** C16: operations on a missing key change nothing *)
Theorem tst_remove_missing_inert base s a k :
  tst_inv base s a -> wf_key k -> lookup (t_root s) k = None ->
  tst_remove s k a = Ok (CC_ERR_KEY_NOT_FOUND, None, s, a) /\ tst_get s k = (CC_ERR_KEY_NOT_FOUND, None) /\ tst_contains s k = false.
Proof.
  intros Hinv [Hne Hb] Hl. destruct k as [|ch rest]; [congruence|]. cbn [lookup] in Hl.
  pose proof (remove_refines base s a ch rest Hinv Hb) as K. rewrite Hl in K.
  split; [assumption|]. unfold tst_contains. rewrite get_spec, Hl. auto.
Qed.

(** C06: remove_all and destroy release every node and every entry exactly once (no BadFree fault),
    leaving exactly the header, resp. exactly what was live before the table was created *)
Theorem tst_remove_all_balanced base s a :
  tst_inv base s a -> exists s' a', tst_remove_all s a = Ok (s', a') /\ tst_inv base s' a' /\
    t_root s' = Leaf /\ t_size s' = 0 /\ Permutation (live_ids a') (t_hdr s :: base).
Proof.
  intros Hinv. destruct (remove_all_refines base s a Hinv) as (s' & a' & E & Hi & Er & Es & _ & _ & Hp & _). eauto 8.
Qed.

Theorem tst_new_destroy_balanced mem a st s a1 ops outs s' a' :
  ledger_ok a -> 0 < next_id a -> tst_new mem a = (st, Some s, a1) -> Forall op_wf ops -> lenN ops < W ->
  tst_run s a1 ops = Ok (outs, s', a') ->
  exists a'', tst_destroy s' a' = Ok a'' /\ Permutation (live_ids a'') (live_ids a).
Proof.
  intros Hl Hp Hn Hwf HW Hr.
  destruct (tst_new_run_refines mem a st s a1 ops Hl Hp Hn Hwf HW) as (outs2 & s2 & a2 & E & Hi & _).
  rewrite E in Hr. inversion Hr; subst.
  destruct (destroy_balanced _ _ _ Hi) as (a'' & Ed & Hperm & _). eauto.
Qed.
