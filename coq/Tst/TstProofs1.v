(** CC_TSTTable, part 1: keys, lookup, the direct (structurally recursive) forms of insertion and
    removal, their agreement with the pointer-level (path) operations of the model, and the
    lookup characterisations.

    Map of the development: TstProofs1 (this file) tree level; TstProofs2 ledger, table invariant,
    step / history refinement, C06 C08 C16 corollaries; TstProofs3 iterator automaton and enumeration;
    TstProofs4 iter_remove (incl. validity of the advanced iterator on the pruned tree), C14 tags.

    Not covered by theorems (by design, stated here so that nothing is weakened silently):
    * the empty key (D30): every refinement theorem is for [wf_key] keys (non-empty, bytes < 256);
      [tst_empty_key_refuted] is the witness that the full statement fails;
    * sizes: [t_size s + 1 < W] is a premise of add (2^64 - 1 keys cannot be reached in practice);
    * iterator misuse (iter_remove twice without a next, mutation through the table API while an
      iterator is live): outside the library's contract; the model answers with what the C text does
      when that is defined and both executables skip such calls;
    * the search-tree ordering of sibling nodes is not part of the invariant: it is not needed, the
      invariant carries instead "every stored entry is found under its own key" ([sound]). *)
From CC Require Import Base.Prelude Base.ListMem Base.Alloc Base.AllocProofs Generated.Status Tst.TstModel.
From Coq Require Import Permutation.
Local Open Scope N_scope.

Definition byte (c : N) : Prop := c < 256.
Definition wf_key (k : key) : Prop := k <> [] /\ Forall byte k.

Lemma sx_inj a b : byte a -> byte b -> sx a = sx b -> a = b.
Proof.
  unfold byte, sx; intros Ha Hb. cbv zeta. rewrite !N.mod_small by lia.
  destruct (a <? 128) eqn:E1, (b <? 128) eqn:E2; lia.
Qed.

Lemma cmp_eq ch c : (char_cmp ch c <? 0)%Z = false -> (0 <? char_cmp ch c)%Z = false -> sx ch = sx c.
Proof. unfold char_cmp; lia. Qed.

Lemma key_eqb_eq a b : key_eqb a b = true <-> a = b.
Proof.
  revert b; induction a as [|x a IH]; intros [|y b]; cbn; try (split; congruence).
  rewrite andb_true_iff, IH, N.eqb_eq. split; [intros [-> ->]; reflexivity | intros H; inversion H; auto].
Qed.
Lemma key_eqb_refl a : key_eqb a a = true. Proof. apply key_eqb_eq; reflexivity. Qed.
Lemma key_eqb_neq a b : key_eqb a b = false <-> a <> b.
Proof. rewrite <- key_eqb_eq. destruct (key_eqb a b); split; congruence. Qed.

(** ---------------------------------------------------------------- lookup *)
Definition ekey (e : entry) : key := snd (fst e).
Definition eval (e : entry) : N := snd e.
Definition eid (e : entry) : N := fst (fst e).

(** the entry found by following get_last_node with the non-empty key [ch :: rest] *)
Fixpoint lk (t : tst) (ch : N) (rest : key) : option entry :=
  match t with
  | Leaf => None
  | Node _ c d l m r =>
      if (char_cmp ch c <? 0)%Z then lk l ch rest
      else if (0 <? char_cmp ch c)%Z then lk r ch rest
      else match rest with [] => d | ch' :: rest' => lk m ch' rest' end
  end.
Definition lookup (t : tst) (k : key) : option entry :=
  match k with [] => None | ch :: rest => lk t ch rest end.

Definition data_of (t : tst) : option entry := match t with Leaf => None | Node _ _ d _ _ _ => d end.

Lemma node_at_app t p q : node_at t (p ++ q) = match node_at t p with Some x => node_at x q | None => None end.
Proof.
  revert t; induction p as [|d p IH]; intros t; cbn; [reflexivity|].
  destruct t; [reflexivity|]. apply IH.
Qed.

(** get_last_node: where it stops, what it has matched *)
Lemma descend_spec t : forall ch rest p0 p slot post,
  descend t ch rest p0 = (p, slot, post) ->
  exists q, p = rev q ++ p0 /\ node_at t q = Some slot /\ lk t ch rest = data_of slot /\
            (slot <> Leaf -> post = []) /\ (slot = Leaf -> post <> []).
Proof.
  induction t as [|id c d l IHl m IHm r IHr]; intros ch rest p0 p slot post H; cbn in H.
  - inversion H; subst. exists []. cbn. repeat split; congruence.
  - cbn [lk]. destruct (char_cmp ch c <? 0)%Z.
    + apply IHl in H. destruct H as (q & -> & Hn & Hl & Hp). exists (DL :: q). cbn [rev node_at child].
      rewrite <- app_assoc. auto.
    + destruct (0 <? char_cmp ch c)%Z.
      * apply IHr in H. destruct H as (q & -> & Hn & Hl & Hp). exists (DR :: q). cbn [rev node_at child].
        rewrite <- app_assoc. auto.
      * destruct rest as [|ch' rest'].
        -- inversion H; subst. exists []. cbn. repeat split; congruence.
        -- apply IHm in H. destruct H as (q & -> & Hn & Hl & Hp). exists (DM :: q). cbn [rev node_at child].
           rewrite <- app_assoc. auto.
Qed.

(** ---------------------------------------------------------------- direct insertion *)
(** [mk slot postfix] is what add writes through [*last_node] *)
Fixpoint ins (t : tst) (ch : N) (rest : key) (mk : tst -> key -> tst) : tst :=
  match t with
  | Leaf => mk Leaf (ch :: rest)
  | Node id c d l m r =>
      if (char_cmp ch c <? 0)%Z then Node id c d (ins l ch rest mk) m r
      else if (0 <? char_cmp ch c)%Z then Node id c d l m (ins r ch rest mk)
      else match rest with
           | [] => mk t []
           | ch' :: rest' => Node id c d l (ins m ch' rest' mk) r
           end
  end.

Lemma set_at_ins t mk : forall ch rest p0 p slot post,
  descend t ch rest p0 = (p, slot, post) ->
  exists q, p = rev q ++ p0 /\ set_at t q (mk slot post) = Some (ins t ch rest mk).
Proof.
  induction t as [|id c d l IHl m IHm r IHr]; intros ch rest p0 p slot post H; cbn in H.
  - inversion H; subst. exists []. split; reflexivity.
  - cbn [ins]. destruct (char_cmp ch c <? 0)%Z.
    + apply IHl in H. destruct H as (q & -> & Hs). exists (DL :: q). cbn [rev set_at]. rewrite Hs, <- app_assoc. auto.
    + destruct (0 <? char_cmp ch c)%Z.
      * apply IHr in H. destruct H as (q & -> & Hs). exists (DR :: q). cbn [rev set_at]. rewrite Hs, <- app_assoc. auto.
      * destruct rest as [|ch' rest'].
        -- inversion H; subst. exists []. split; reflexivity.
        -- apply IHm in H. destruct H as (q & -> & Hs). exists (DM :: q). cbn [rev set_at]. rewrite Hs, <- app_assoc. auto.
Qed.

(** what [mk] must satisfy for [ins] to be "bind the key to [d']" *)
Record mk_ok (mk : tst -> key -> tst) (d' : option entry) : Prop := {
  mk_node : forall id c d l m r, mk (Node id c d l m r) [] = Node id c d' l m r;
  mk_leaf_same : forall x xs, lk (mk Leaf (x :: xs)) x xs = d';
  mk_leaf_other : forall x xs y ys, Forall byte (x :: xs) -> Forall byte (y :: ys) -> y :: ys <> x :: xs -> lk (mk Leaf (x :: xs)) y ys = None;
}.

Lemma lk_ins_same mk d' : mk_ok mk d' -> forall t ch rest, lk (ins t ch rest mk) ch rest = d'.
Proof.
  intros [Hn Hs Ho]. induction t as [|id c d l IHl m IHm r IHr]; intros ch rest; cbn [ins].
  - apply Hs.
  - destruct (char_cmp ch c <? 0)%Z eqn:E1; [cbn [lk]; rewrite E1; apply IHl|].
    destruct (0 <? char_cmp ch c)%Z eqn:E2; [cbn [lk]; rewrite E1, E2; apply IHr|].
    destruct rest as [|ch' rest'].
    + rewrite Hn. cbn [lk]. rewrite E1, E2. reflexivity.
    + cbn [lk]. rewrite E1, E2. apply IHm.
Qed.

Lemma lk_ins_other mk d' : mk_ok mk d' -> forall t ch rest ch' rest',
  Forall byte (ch :: rest) -> Forall byte (ch' :: rest') -> ch' :: rest' <> ch :: rest ->
  lk (ins t ch rest mk) ch' rest' = lk t ch' rest'.
Proof.
  intros [Hn Hs Ho]. induction t as [|id c d l IHl m IHm r IHr]; intros ch rest ch' rest' Hb Hb' Hne; cbn [ins].
  - cbn [lk]. apply Ho; assumption.
  - destruct (char_cmp ch c <? 0)%Z eqn:E1.
    { cbn [lk]. destruct (char_cmp ch' c <? 0)%Z eqn:F1; [apply IHl; assumption|]. reflexivity. }
    destruct (0 <? char_cmp ch c)%Z eqn:E2.
    { cbn [lk]. destruct (char_cmp ch' c <? 0)%Z eqn:F1; [reflexivity|].
      destruct (0 <? char_cmp ch' c)%Z eqn:F2; [apply IHr; assumption|]. reflexivity. }
    assert (Hsame : (char_cmp ch' c <? 0)%Z = false -> (0 <? char_cmp ch' c)%Z = false -> ch' = ch).
    { intros F1 F2. inversion Hb; inversion Hb'; subst. apply sx_inj; try assumption.
      rewrite (cmp_eq _ _ E1 E2), (cmp_eq _ _ F1 F2). reflexivity. }
    destruct rest as [|x xs].
    + rewrite Hn. cbn [lk].
      destruct (char_cmp ch' c <? 0)%Z eqn:F1; [reflexivity|].
      destruct (0 <? char_cmp ch' c)%Z eqn:F2; [reflexivity|].
      destruct rest' as [|y ys]; [|reflexivity].
      exfalso. apply Hne. rewrite Hsame; auto.
    + cbn [lk].
      destruct (char_cmp ch' c <? 0)%Z eqn:F1; [reflexivity|].
      destruct (0 <? char_cmp ch' c)%Z eqn:F2; [reflexivity|].
      destruct rest' as [|y ys]; [reflexivity|].
      apply IHm.
      * inversion Hb; assumption.
      * inversion Hb'; assumption.
      * intros Heq. apply Hne. rewrite Hsame, Heq; auto.
Qed.

(** the chain built by make_mid_subtree *)
Lemma lk_chain_same ids d : forall cs x xs, cs = x :: xs -> (length cs <= length ids)%nat -> lk (build_chain cs ids d) x xs = d.
Proof.
  induction ids as [|i ids IH]; intros cs x xs -> Hlen; [cbn in Hlen; lia|].
  cbn [build_chain]. destruct xs as [|y ys].
  - cbn [lk]. unfold char_cmp. rewrite Z.sub_diag. reflexivity.
  - cbn [lk]. unfold char_cmp. rewrite Z.sub_diag. cbn [Z.ltb Z.compare].
    apply IH; [reflexivity|]. cbn in *; lia.
Qed.
Lemma build_chain_pad d pad : forall cs ids, length ids = length cs -> build_chain cs (ids ++ pad) d = build_chain cs ids d.
Proof.
  induction cs as [|c cs IH]; intros ids Hlen; destruct ids as [|i ids]; try discriminate.
  - destruct pad; reflexivity.
  - cbn [app build_chain]. destruct cs as [|c2 cs']; [reflexivity|]. rewrite IH; [reflexivity|cbn in *; lia].
Qed.
Lemma lk_chain_other d : forall ids x xs y ys, Forall byte (x :: xs) -> Forall byte (y :: ys) -> y :: ys <> x :: xs ->
  lk (build_chain (x :: xs) ids d) y ys = None.
Proof.
  induction ids as [|i ids IH]; intros x xs y ys Hx Hy Hne; [reflexivity|].
  assert (Hsame : (char_cmp y x <? 0)%Z = false -> (0 <? char_cmp y x)%Z = false -> y = x).
  { intros F1 F2. inversion Hx; inversion Hy; subst. apply sx_inj; try assumption. apply cmp_eq; assumption. }
  cbn [build_chain]. destruct xs as [|x2 xs'].
  - cbn [lk]. destruct (char_cmp y x <? 0)%Z eqn:F1; [reflexivity|].
    destruct (0 <? char_cmp y x)%Z eqn:F2; [reflexivity|].
    destruct ys; [|reflexivity]. exfalso; apply Hne; rewrite Hsame; auto.
  - cbn [lk]. destruct (char_cmp y x <? 0)%Z eqn:F1; [reflexivity|].
    destruct (0 <? char_cmp y x)%Z eqn:F2; [reflexivity|].
    destruct ys as [|y2 ys']; [reflexivity|].
    apply IH; [inversion Hx; assumption | inversion Hy; assumption|].
    intros Heq; apply Hne; rewrite Hsame, Heq; auto.
Qed.

(** ---------------------------------------------------------------- direct removal *)
Definition rebuild (dr : dir) (id c : N) (d : option entry) (l m r x : tst) : tst :=
  match dr with DL => Node id c d x m r | DM => Node id c d l x r | DR => Node id c d l m x end.
Definition after_child (res : list N * tst * bool) (n : tst -> tst) : list N * tst * bool :=
  let '(ids, x, b) := res in
  if b then let '(ids2, t', b2) := try_prune (n x) in (ids ++ ids2, t', b2) else (ids, n x, false).
Definition at_node (id c : N) (d : option entry) (l m r : tst) : list N * tst * bool :=
  match d with
  | None => ([], Node id c d l m r, false)
  | Some (e, _, _) => let '(ids, t', b) := try_prune (Node id c None l m r) in (e :: ids, t', b)
  end.

Lemma remove_eow_at_unfold id c d l m r p :
  remove_eow_at (Node id c d l m r) p =
  match p with
  | [] => Some (at_node id c d l m r)
  | dr :: q => match remove_eow_at (child dr l m r) q with
               | None => None
               | Some res => Some (after_child res (rebuild dr id c d l m r))
               end
  end.
Proof.
  destruct p as [|dr q]; cbn [remove_eow_at].
  - unfold at_node. destruct d as [[[e k] v]|]; [|reflexivity]. destruct (try_prune _) as [[? ?] ?]; reflexivity.
  - destruct (remove_eow_at (child dr l m r) q) as [[[ids x] b]|]; [|reflexivity].
    unfold after_child. destruct dr; cbn [rebuild]; destruct b; try reflexivity; destruct (try_prune _) as [[? ?] ?]; reflexivity.
Qed.

Fixpoint del (t : tst) (ch : N) (rest : key) : list N * tst * bool :=
  match t with
  | Leaf => ([], Leaf, false)
  | Node id c d l m r =>
      if (char_cmp ch c <? 0)%Z then after_child (del l ch rest) (rebuild DL id c d l m r)
      else if (0 <? char_cmp ch c)%Z then after_child (del r ch rest) (rebuild DR id c d l m r)
      else match rest with
           | [] => at_node id c d l m r
           | ch' :: rest' => after_child (del m ch' rest') (rebuild DM id c d l m r)
           end
  end.

Lemma remove_eow_at_del t : forall ch rest p0 p slot post,
  descend t ch rest p0 = (p, slot, post) -> slot <> Leaf ->
  exists q, p = rev q ++ p0 /\ remove_eow_at t q = Some (del t ch rest).
Proof.
  induction t as [|id c d l IHl m IHm r IHr]; intros ch rest p0 p slot post H Hs; cbn in H.
  - inversion H; subst. congruence.
  - cbn [del]. destruct (char_cmp ch c <? 0)%Z.
    + destruct (IHl _ _ _ _ _ _ H Hs) as (q & -> & Hr). exists (DL :: q). rewrite remove_eow_at_unfold. cbn [child rev].
      rewrite Hr, <- app_assoc. auto.
    + destruct (0 <? char_cmp ch c)%Z.
      * destruct (IHr _ _ _ _ _ _ H Hs) as (q & -> & Hr). exists (DR :: q). rewrite remove_eow_at_unfold. cbn [child rev].
        rewrite Hr, <- app_assoc. auto.
      * destruct rest as [|ch' rest'].
        -- inversion H; subst. exists []. rewrite remove_eow_at_unfold. auto.
        -- destruct (IHm _ _ _ _ _ _ H Hs) as (q & -> & Hr). exists (DM :: q). rewrite remove_eow_at_unfold. cbn [child rev].
           rewrite Hr, <- app_assoc. auto.
Qed.

Definition tree_of (x : list N * tst * bool) : tst := snd (fst x).
Definition ids_of (x : list N * tst * bool) : list N := fst (fst x).
Definition freed_of (x : list N * tst * bool) : bool := snd x.

Lemma lk_try_prune n x xs : lk (tree_of (try_prune n)) x xs = lk n x xs.
Proof.
  destruct n as [|id c [e|] l m r]; try reflexivity.
  destruct l, m, r; try reflexivity. cbn.
  destruct (char_cmp x c <? 0)%Z; [reflexivity|]. destruct (0 <? char_cmp x c)%Z; [reflexivity|].
  destruct xs; reflexivity.
Qed.

Lemma try_prune_freed n : freed_of (try_prune n) = true -> tree_of (try_prune n) = Leaf.
Proof. destruct n as [|id c [e|] [|] [|] [|]]; cbn; congruence. Qed.

Lemma tree_after_child res n :
  tree_of (after_child res n) = if freed_of res then tree_of (try_prune (n (tree_of res))) else n (tree_of res).
Proof.
  destruct res as [[ids x] b]; unfold after_child, tree_of, freed_of; cbn [fst snd].
  destruct b; [|reflexivity]. destruct (try_prune (n x)) as [[? ?] ?]; reflexivity.
Qed.

Lemma lk_after_child res n x xs : lk (tree_of (after_child res n)) x xs = lk (n (tree_of res)) x xs.
Proof. rewrite tree_after_child. destruct (freed_of res); [apply lk_try_prune | reflexivity]. Qed.

Lemma tree_at_node id c d l m r :
  tree_of (at_node id c d l m r) = match d with None => Node id c d l m r | Some _ => tree_of (try_prune (Node id c None l m r)) end.
Proof. unfold at_node. destruct d as [[[e k] v]|]; [|reflexivity]. destruct (try_prune _) as [[? ?] ?]; reflexivity. Qed.

Lemma lk_del_same : forall t ch rest, lk (tree_of (del t ch rest)) ch rest = None.
Proof.
  induction t as [|id c d l IHl m IHm r IHr]; intros ch rest; cbn [del]; [reflexivity|].
  destruct (char_cmp ch c <? 0)%Z eqn:E1.
  { rewrite lk_after_child. cbn [rebuild lk]. rewrite E1. apply IHl. }
  destruct (0 <? char_cmp ch c)%Z eqn:E2.
  { rewrite lk_after_child. cbn [rebuild lk]. rewrite E1, E2. apply IHr. }
  destruct rest as [|ch' rest'].
  - rewrite tree_at_node. destruct d; [rewrite lk_try_prune|]; cbn [lk]; rewrite E1, E2; reflexivity.
  - rewrite lk_after_child. cbn [rebuild lk]. rewrite E1, E2. apply IHm.
Qed.

Lemma lk_del_other : forall t ch rest ch' rest',
  Forall byte (ch :: rest) -> Forall byte (ch' :: rest') -> ch' :: rest' <> ch :: rest ->
  lk (tree_of (del t ch rest)) ch' rest' = lk t ch' rest'.
Proof.
  induction t as [|id c d l IHl m IHm r IHr]; intros ch rest ch' rest' Hb Hb' Hne; cbn [del]; [reflexivity|].
  destruct (char_cmp ch c <? 0)%Z eqn:E1.
  { rewrite lk_after_child. cbn [rebuild lk]. destruct (char_cmp ch' c <? 0)%Z; [apply IHl; assumption|reflexivity]. }
  destruct (0 <? char_cmp ch c)%Z eqn:E2.
  { rewrite lk_after_child. cbn [rebuild lk]. destruct (char_cmp ch' c <? 0)%Z; [reflexivity|].
    destruct (0 <? char_cmp ch' c)%Z; [apply IHr; assumption|reflexivity]. }
  assert (Hsame : (char_cmp ch' c <? 0)%Z = false -> (0 <? char_cmp ch' c)%Z = false -> ch' = ch).
  { intros F1 F2. inversion Hb; inversion Hb'; subst. apply sx_inj; try assumption.
    rewrite (cmp_eq _ _ E1 E2), (cmp_eq _ _ F1 F2). reflexivity. }
  destruct rest as [|x xs].
  - rewrite tree_at_node. destruct d as [e|]; [rewrite lk_try_prune|reflexivity]. cbn [lk].
    destruct (char_cmp ch' c <? 0)%Z eqn:F1; [reflexivity|].
    destruct (0 <? char_cmp ch' c)%Z eqn:F2; [reflexivity|].
    destruct rest' as [|y ys]; [|reflexivity].
    exfalso. apply Hne. rewrite Hsame; auto.
  - rewrite lk_after_child. cbn [rebuild lk].
    destruct (char_cmp ch' c <? 0)%Z eqn:F1; [reflexivity|].
    destruct (0 <? char_cmp ch' c)%Z eqn:F2; [reflexivity|].
    destruct rest' as [|y ys]; [reflexivity|].
    apply IHm; [inversion Hb; assumption | inversion Hb'; assumption|].
    intros Heq. apply Hne. rewrite Hsame, Heq; auto.
Qed.

(** removing an absent key touches nothing *)
Lemma del_absent : forall t ch rest, lk t ch rest = None -> del t ch rest = ([], t, false).
Proof.
  induction t as [|id c d l IHl m IHm r IHr]; intros ch rest H; cbn [del]; [reflexivity|]. cbn [lk] in H.
  destruct (char_cmp ch c <? 0)%Z; [rewrite IHl by assumption; reflexivity|].
  destruct (0 <? char_cmp ch c)%Z; [rewrite IHr by assumption; reflexivity|].
  destruct rest as [|x xs]; [subst d; reflexivity|]. rewrite IHm by assumption; reflexivity.
Qed.

(** ---------------------------------------------------------------- the stored entries, in iteration order *)
Definition opt_list {A} (o : option A) : list A := match o with Some x => [x] | None => [] end.
Fixpoint entries (t : tst) : list entry :=
  match t with
  | Leaf => []
  | Node _ _ d l m r => opt_list d ++ entries l ++ entries m ++ entries r
  end.

Lemma lk_in_entries : forall t ch rest e, lk t ch rest = Some e -> In e (entries t).
Proof.
  induction t as [|id c d l IHl m IHm r IHr]; intros ch rest e H; cbn in H; [discriminate|]. cbn [entries].
  rewrite !in_app_iff.
  destruct (char_cmp ch c <? 0)%Z; [eauto|]. destruct (0 <? char_cmp ch c)%Z; [eauto 6|].
  destruct rest; [subst d; cbn; auto | eauto 6].
Qed.

(** [L'] is [L] with the binding of the key replaced (or inserted) / removed *)
Definition put_split (o : option entry) (new : entry) (L L' : list entry) : Prop :=
  match o with
  | Some old => exists l1 l2, L = l1 ++ old :: l2 /\ L' = l1 ++ new :: l2
  | None => exists l1 l2, L = l1 ++ l2 /\ L' = l1 ++ new :: l2
  end.
Lemma put_split_ctx o new L L' A B : put_split o new L L' -> put_split o new (A ++ L ++ B) (A ++ L' ++ B).
Proof.
  destruct o as [old|]; intros (l1 & l2 & -> & ->); exists (A ++ l1), (l2 ++ B);
    rewrite <- ?app_assoc; cbn [app]; rewrite <- ?app_assoc; auto.
Qed.

Record mk_ok2 (mk : tst -> key -> tst) (new : entry) : Prop := {
  mk2_ok : mk_ok mk (Some new);
  mk2_entries : forall x xs, entries (mk Leaf (x :: xs)) = [new];
}.

Lemma ins_entries mk new : mk_ok2 mk new -> forall t ch rest,
  put_split (lk t ch rest) new (entries t) (entries (ins t ch rest mk)).
Proof.
  intros [[Hn _ _] He]. induction t as [|id c d l IHl m IHm r IHr]; intros ch rest; cbn [ins lk].
  - rewrite He. exists [], []. auto.
  - destruct (char_cmp ch c <? 0)%Z.
    { cbn [entries]. apply put_split_ctx. apply IHl. }
    destruct (0 <? char_cmp ch c)%Z.
    { cbn [entries]. rewrite !(app_assoc (opt_list d)), !(app_assoc (opt_list d ++ entries l)).
      rewrite <- (app_nil_r (entries r)), <- (app_nil_r (entries (ins r ch rest mk))).
      apply put_split_ctx. apply IHr. }
    destruct rest as [|x xs].
    + rewrite Hn. cbn [entries]. destruct d as [old|]; cbn [opt_list].
      * exists [], (entries l ++ entries m ++ entries r). auto.
      * exists [], (entries l ++ entries m ++ entries r). auto.
    + cbn [entries]. rewrite !(app_assoc (opt_list d)). apply put_split_ctx. apply IHm.
Qed.

Lemma entries_try_prune n : entries (tree_of (try_prune n)) = entries n.
Proof. destruct n as [|id c [e|] [|] [|] [|]]; reflexivity. Qed.
Lemma entries_after_child res n : entries (tree_of (after_child res n)) = entries (n (tree_of res)).
Proof. rewrite tree_after_child. destruct (freed_of res); [apply entries_try_prune|reflexivity]. Qed.

Definition del_split (old : entry) (L L' : list entry) : Prop := exists l1 l2, L = l1 ++ old :: l2 /\ L' = l1 ++ l2.
Lemma del_split_ctx old L L' A B : del_split old L L' -> del_split old (A ++ L ++ B) (A ++ L' ++ B).
Proof.
  intros (l1 & l2 & -> & ->); exists (A ++ l1), (l2 ++ B); rewrite <- ?app_assoc; cbn [app]; rewrite <- ?app_assoc; auto.
Qed.

Lemma del_entries : forall t ch rest old, lk t ch rest = Some old ->
  del_split old (entries t) (entries (tree_of (del t ch rest))).
Proof.
  induction t as [|id c d l IHl m IHm r IHr]; intros ch rest old H; cbn [del]; cbn [lk] in H; [discriminate|].
  destruct (char_cmp ch c <? 0)%Z.
  { rewrite entries_after_child. cbn [rebuild entries]. apply del_split_ctx. apply IHl; assumption. }
  destruct (0 <? char_cmp ch c)%Z.
  { rewrite entries_after_child. cbn [rebuild entries].
    rewrite !(app_assoc (opt_list d)), !(app_assoc (opt_list d ++ entries l)).
    rewrite <- (app_nil_r (entries r)), <- (app_nil_r (entries (tree_of _))).
    apply del_split_ctx. apply IHr; assumption. }
  destruct rest as [|x xs].
  - subst d. rewrite tree_at_node, entries_try_prune. cbn [entries opt_list].
    exists [], (entries l ++ entries m ++ entries r). auto.
  - rewrite entries_after_child. cbn [rebuild entries]. rewrite !(app_assoc (opt_list d)).
    apply del_split_ctx. apply IHm; assumption.
Qed.

(** ---------------------------------------------------------------- invariants of the tree *)
(** every stored key spells the path to its node ([rp]: the characters matched above, last first) *)
Fixpoint spell (rp : list N) (t : tst) : Prop :=
  match t with
  | Leaf => True
  | Node _ c d l m r =>
      byte c /\ (forall e, d = Some e -> ekey e = rev (c :: rp)) /\ spell rp l /\ spell (c :: rp) m /\ spell rp r
  end.
(** no dead branches: a node without children is the end of a key *)
Fixpoint nodead (t : tst) : Prop :=
  match t with
  | Leaf => True
  | Node _ _ d l m r => (l = Leaf -> m = Leaf -> r = Leaf -> d <> None) /\ nodead l /\ nodead m /\ nodead r
  end.
(** every stored entry is the one found under its own key *)
Definition sound (t : tst) : Prop :=
  forall e, In e (entries t) -> wf_key (ekey e) /\ lookup t (ekey e) = Some e.

Record tree_inv (t : tst) : Prop := {
  ti_spell : spell [] t;
  ti_nodead : nodead t;
  ti_sound : sound t;
  ti_nodup : NoDup (map ekey (entries t));
}.

Lemma lk_spell : forall t rp ch rest e, spell rp t -> Forall byte (ch :: rest) -> lk t ch rest = Some e ->
  ekey e = rev rp ++ ch :: rest.
Proof.
  induction t as [|id c d l IHl m IHm r IHr]; intros rp ch rest e Hs Hb H; cbn in H; [discriminate|].
  destruct Hs as (Hc & Hd & Hl & Hm & Hr).
  destruct (char_cmp ch c <? 0)%Z eqn:E1; [eauto|]. destruct (0 <? char_cmp ch c)%Z eqn:E2; [eauto|].
  assert (ch = c) by (inversion Hb; subst; apply sx_inj; auto using cmp_eq). subst c.
  destruct rest as [|x xs].
  - rewrite (Hd _ H). reflexivity.
  - assert (K := IHm (ch :: rp) x xs e Hm ltac:(inversion Hb; assumption) H). rewrite K.
    cbn [rev]. rewrite <- app_assoc. reflexivity.
Qed.

Lemma lookup_key t k e : spell [] t -> wf_key k -> lookup t k = Some e -> ekey e = k.
Proof.
  intros Hs [Hne Hb] H. destruct k as [|ch rest]; [congruence|]. cbn in H.
  apply (lk_spell t [] ch rest e Hs Hb H).
Qed.

Lemma spell_chain new : forall cs ids rp, Forall byte cs -> ekey new = rev rp ++ cs -> (length cs <= length ids)%nat ->
  spell rp (build_chain cs ids (Some new)).
Proof.
  induction cs as [|c cs IH]; intros ids rp Hb Hk Hlen; [exact I|].
  destruct ids as [|i ids]; [cbn in Hlen; lia|]. cbn [build_chain].
  inversion Hb; subst. destruct cs as [|c2 cs'].
  - cbn [spell]. repeat split; auto. intros e He; inversion He; subst. rewrite Hk. reflexivity.
  - cbn [spell]. split; [assumption|]. split; [discriminate|]. split; [exact I|]. split; [|exact I].
    apply IH; [assumption| |cbn in *; lia]. rewrite Hk. cbn [rev]. rewrite <- app_assoc. reflexivity.
Qed.

Section AddMk.
  (** the slot update of cc_tsttable_add once its allocations have succeeded; the id list is padded so
      that the definition is total in the postfix (the padding is never used, see [add_mk_exact]) *)
  Variables (ids : list N) (new : entry).
  Definition add_mk (slot : tst) (post : key) : tst :=
    match slot with
    | Node id c d l m r => Node id c (Some new) l m r
    | Leaf => build_chain (chain_chars post) (ids ++ repeat 0%N (length (chain_chars post))) (Some new)
    end.

  Lemma add_mk_exact post : length ids = length (chain_chars post) ->
    add_mk Leaf post = build_chain (chain_chars post) ids (Some new).
  Proof. intros H. cbn [add_mk]. apply build_chain_pad; assumption. Qed.

  Lemma pad_len (cs : list N) : (length cs <= length (ids ++ repeat 0%N (length cs)))%nat.
  Proof. rewrite app_length, repeat_length. lia. Qed.

  Lemma entries_chain : forall cs (js : list N), cs <> [] -> (length cs <= length js)%nat -> entries (build_chain cs js (Some new)) = [new].
  Proof.
    induction cs as [|c cs IH]; intros js Hne Hlen; [congruence|]. destruct js as [|i js]; [cbn in Hlen; lia|].
    cbn [build_chain]. destruct cs as [|c2 cs']; [reflexivity|].
    cbn [entries opt_list app]. rewrite IH; [reflexivity|discriminate|cbn in *; lia].
  Qed.

  Lemma add_mk_ok2 : mk_ok2 add_mk new.
  Proof.
    split; [split|].
    - reflexivity.
    - intros x xs. cbn [add_mk chain_chars]. apply lk_chain_same; [reflexivity|apply pad_len].
    - intros x xs y ys Hx Hy Hne. cbn [add_mk chain_chars]. apply lk_chain_other; assumption.
    - intros x xs. cbn [add_mk chain_chars]. apply entries_chain; [discriminate|apply pad_len].
  Qed.
End AddMk.

Lemma build_chain_not_leaf d : forall cs js, cs <> [] -> (length cs <= length js)%nat -> build_chain cs js d <> Leaf.
Proof.
  intros [|c cs] [|j js] Hne Hlen; try congruence; [cbn in Hlen; lia|].
  cbn [build_chain]. destruct cs; discriminate.
Qed.

Lemma nodead_chain new : forall cs js, (length cs <= length js)%nat -> nodead (build_chain cs js (Some new)).
Proof.
  induction cs as [|c cs IH]; intros js Hlen; [exact I|]. destruct js as [|j js]; [exact I|].
  cbn [build_chain]. destruct cs as [|c2 cs'].
  - cbn. repeat split; auto; discriminate.
  - cbn [nodead]. repeat split; auto.
    + intros _ Hm _. exfalso. revert Hm. apply build_chain_not_leaf; [discriminate|cbn in *; lia].
    + apply IH. cbn in *; lia.
Qed.

Section InsInv.
  Variables (ids : list N) (new : entry).
  Let mk := add_mk ids new.

  Lemma ins_not_leaf : forall t ch rest, ins t ch rest mk <> Leaf.
  Proof.
    intros [|id c d l m r] ch rest; cbn [ins].
    - subst mk. cbn [add_mk chain_chars]. apply build_chain_not_leaf; [discriminate|apply pad_len].
    - destruct (char_cmp ch c <? 0)%Z; [discriminate|]. destruct (0 <? char_cmp ch c)%Z; [discriminate|].
      destruct rest; discriminate.
  Qed.

  Lemma spell_ins : forall t rp ch rest, spell rp t -> Forall byte (ch :: rest) -> ekey new = rev rp ++ ch :: rest ->
    spell rp (ins t ch rest mk).
  Proof.
    induction t as [|id c d l IHl m IHm r IHr]; intros rp ch rest Hs Hb Hk; cbn [ins].
    - subst mk. cbn [add_mk chain_chars]. apply spell_chain; [assumption|assumption|apply pad_len].
    - destruct Hs as (Hc & Hd & Hl & Hm & Hr).
      destruct (char_cmp ch c <? 0)%Z eqn:E1; [cbn [spell]; auto 6|].
      destruct (0 <? char_cmp ch c)%Z eqn:E2; [cbn [spell]; auto 6|].
      assert (ch = c) by (inversion Hb; subst; apply sx_inj; auto using cmp_eq). subst c.
      destruct rest as [|x xs].
      + cbn [mk add_mk spell]. repeat split; auto. intros e He; inversion He; subst e. rewrite Hk. reflexivity.
      + cbn [spell]. repeat split; auto. apply IHm; [assumption|inversion Hb; assumption|].
        rewrite Hk. cbn [rev]. rewrite <- app_assoc. reflexivity.
  Qed.

  Lemma nodead_ins : forall t ch rest, nodead t -> nodead (ins t ch rest mk).
  Proof.
    induction t as [|id c d l IHl m IHm r IHr]; intros ch rest Hn; cbn [ins].
    - subst mk. cbn [add_mk]. apply nodead_chain. apply pad_len.
    - destruct Hn as (Hd & Hl & Hm & Hr).
      destruct (char_cmp ch c <? 0)%Z.
      { cbn [nodead]. repeat split; auto. intros H; exfalso; revert H; apply ins_not_leaf. }
      destruct (0 <? char_cmp ch c)%Z.
      { cbn [nodead]. repeat split; auto. intros _ _ H; exfalso; revert H; apply ins_not_leaf. }
      destruct rest as [|x xs].
      + cbn [mk add_mk nodead]. repeat split; auto. discriminate.
      + cbn [nodead]. repeat split; auto. intros _ H; exfalso; revert H; apply ins_not_leaf.
  Qed.

  Lemma tree_inv_ins t ch rest :
    tree_inv t -> Forall byte (ch :: rest) -> ekey new = ch :: rest -> tree_inv (ins t ch rest mk).
  Proof.
    intros [Hsp Hnd Hso Hdup] Hb Hk.
    assert (Hwf : wf_key (ch :: rest)) by (split; [discriminate|assumption]).
    pose proof (add_mk_ok2 ids new) as Hok. fold mk in Hok.
    pose proof (ins_entries mk new Hok t ch rest) as Hsplit.
    pose proof (lk_ins_same mk (Some new) (mk2_ok _ _ Hok) t ch rest) as Hsame.
    assert (Hother : forall x, In x (entries t) -> ekey x <> ch :: rest -> lookup (ins t ch rest mk) (ekey x) = Some x).
    { intros x Hx Hne. destruct (Hso x Hx) as [[Hne0 Hbx] Hlx].
      destruct (ekey x) as [|ch' rest'] eqn:Ek; [congruence|]. cbn [lookup] in *.
      rewrite (lk_ins_other mk (Some new) (mk2_ok _ _ Hok)); assumption. }
    split.
    - apply spell_ins; assumption.
    - apply nodead_ins; assumption.
    - intros x Hx. destruct (lk t ch rest) as [old|] eqn:El; destruct Hsplit as (l1 & l2 & E1 & E2); rewrite E2 in Hx.
      + apply in_app_iff in Hx. destruct Hx as [Hx|[<-|Hx]].
        * assert (Hin : In x (entries t)) by (rewrite E1; apply in_app_iff; auto).
          split; [apply (Hso x Hin)|]. apply Hother; [assumption|]. intros Heq.
          destruct (Hso x Hin) as [_ Hl]. rewrite Heq in Hl. cbn [lookup] in Hl. rewrite El in Hl. inversion Hl; subst old.
          rewrite E1, map_app in Hdup. cbn [map] in Hdup. apply NoDup_remove_2 in Hdup. apply Hdup.
          apply in_app_iff; left. apply in_map; assumption.
        * rewrite Hk. split; [assumption|exact Hsame].
        * assert (Hin : In x (entries t)) by (rewrite E1; apply in_app_iff; right; right; assumption).
          split; [apply (Hso x Hin)|]. apply Hother; [assumption|]. intros Heq.
          destruct (Hso x Hin) as [_ Hl]. rewrite Heq in Hl. cbn [lookup] in Hl. rewrite El in Hl. inversion Hl; subst old.
          rewrite E1, map_app in Hdup. cbn [map] in Hdup. apply NoDup_remove_2 in Hdup. apply Hdup.
          apply in_app_iff; right. apply in_map; assumption.
      + apply in_app_iff in Hx. destruct Hx as [Hx|[<-|Hx]].
        * assert (Hin : In x (entries t)) by (rewrite E1; apply in_app_iff; auto).
          split; [apply (Hso x Hin)|]. apply Hother; [assumption|]. intros Heq.
          destruct (Hso x Hin) as [_ Hl]. rewrite Heq in Hl. cbn [lookup] in Hl. congruence.
        * rewrite Hk. split; [assumption|exact Hsame].
        * assert (Hin : In x (entries t)) by (rewrite E1; apply in_app_iff; auto).
          split; [apply (Hso x Hin)|]. apply Hother; [assumption|]. intros Heq.
          destruct (Hso x Hin) as [_ Hl]. rewrite Heq in Hl. cbn [lookup] in Hl. congruence.
    - destruct (lk t ch rest) as [old|] eqn:El; destruct Hsplit as (l1 & l2 & E1 & E2); rewrite E2.
      + assert (Eo : ekey old = ch :: rest) by (apply (lookup_key t); assumption).
        rewrite E1 in Hdup. rewrite map_app in *. cbn [map] in *. rewrite Hk, <- Eo. exact Hdup.
      + rewrite E1 in Hdup. rewrite map_app in *. cbn [map].
        apply NoDup_Add with (a := ekey new) (l := map ekey l1 ++ map ekey l2).
        * apply Add_app.
        * split; [assumption|]. rewrite <- map_app. intros Hin. apply in_map_iff in Hin. destruct Hin as (y & Ey & Hy).
          rewrite <- E1 in Hy. destruct (Hso y Hy) as [_ Hl]. rewrite Ey, Hk in Hl. cbn [lookup] in Hl. congruence.
  Qed.
End InsInv.

(** ---------------------------------------------------------------- removal keeps the invariants *)
Lemma spell_try_prune rp n : spell rp n -> spell rp (tree_of (try_prune n)).
Proof. destruct n as [|id c [e|] [|] [|] [|]]; cbn; auto. Qed.

Lemma spell_del : forall t rp ch rest, spell rp t -> spell rp (tree_of (del t ch rest)).
Proof.
  induction t as [|id c d l IHl m IHm r IHr]; intros rp ch rest Hs; cbn [del]; [exact I|].
  destruct Hs as (Hc & Hd & Hl & Hm & Hr).
  assert (Hac : forall res dr, spell (match dr with DM => c :: rp | _ => rp end) (tree_of res) ->
            spell rp (tree_of (after_child res (rebuild dr id c d l m r)))).
  { intros res dr Hx. rewrite tree_after_child.
    assert (spell rp (rebuild dr id c d l m r (tree_of res))) by (destruct dr; cbn [rebuild spell]; auto 6).
    destruct (freed_of res); [apply spell_try_prune|]; assumption. }
  destruct (char_cmp ch c <? 0)%Z; [apply (Hac _ DL); auto|].
  destruct (0 <? char_cmp ch c)%Z; [apply (Hac _ DR); auto|].
  destruct rest as [|x xs]; [|apply (Hac _ DM); auto].
  rewrite tree_at_node. destruct d; [apply spell_try_prune|]; cbn [spell]; repeat split; auto; discriminate.
Qed.

Lemma nodead_try_prune n : (match n with Leaf => True | Node _ _ _ l m r => nodead l /\ nodead m /\ nodead r end) ->
  nodead (tree_of (try_prune n)).
Proof.
  destruct n as [|id c [e|] l m r]; cbn; auto.
  - intros (Hl & Hm & Hr). repeat split; auto. discriminate.
  - intros (Hl & Hm & Hr).
    destruct l as [|? ? ? ? ? ?]; [destruct m as [|? ? ? ? ? ?]; [destruct r as [|? ? ? ? ? ?]; [exact I|]|]|];
      cbn [tree_of fst snd nodead]; (split; [intros; discriminate|]); auto.
Qed.

Lemma del_leaf_cases t ch rest :
  tree_of (del t ch rest) = Leaf -> t = Leaf \/ freed_of (del t ch rest) = true.
Proof.
  destruct t as [|id c d l m r]; [auto|]. cbn [del]. right.
  assert (Htp : forall n, tree_of (try_prune n) = Leaf -> n <> Leaf -> freed_of (try_prune n) = true).
  { intros [|i c0 [e|] [|] [|] [|]]; cbn; congruence. }
  assert (Hac : forall res dr, tree_of (after_child res (rebuild dr id c d l m r)) = Leaf ->
            freed_of (after_child res (rebuild dr id c d l m r)) = true).
  { intros [[ids x] b] dr. unfold after_child. destruct b.
    - pose proof (Htp (rebuild dr id c d l m r x)) as K. destruct (try_prune _) as [[? ?] ?]. cbn in *.
      intros E. apply K; [assumption|]. destruct dr; discriminate.
    - cbn. destruct dr; discriminate. }
  revert H. destruct (char_cmp ch c <? 0)%Z; [apply Hac|]. destruct (0 <? char_cmp ch c)%Z; [apply Hac|].
  destruct rest; [|apply Hac]. unfold at_node. destruct d as [[[e k] v]|]; [|cbn; discriminate].
  pose proof (Htp (Node id c None l m r)) as K. destruct (try_prune _) as [[? ?] ?]. cbn in *.
  intros E; apply K; [assumption|discriminate].
Qed.

Lemma nodead_del : forall t ch rest, nodead t -> nodead (tree_of (del t ch rest)).
Proof.
  induction t as [|id c d l IHl m IHm r IHr]; intros ch rest Hn; cbn [del]; [exact I|].
  destruct Hn as (Hd & Hl & Hm & Hr).
  assert (Hac : forall t0 ch0 rest0 dr, child dr l m r = t0 -> nodead (tree_of (del t0 ch0 rest0)) ->
            nodead (tree_of (after_child (del t0 ch0 rest0) (rebuild dr id c d l m r)))).
  { intros t0 ch0 rest0 dr Ec Hx. rewrite tree_after_child.
    destruct (freed_of (del t0 ch0 rest0)) eqn:Ef.
    - apply nodead_try_prune. destruct dr; cbn [rebuild]; auto.
    - assert (Hleaf : tree_of (del t0 ch0 rest0) = Leaf -> t0 = Leaf).
      { intros E. destruct (del_leaf_cases _ _ _ E); [assumption|congruence]. }
      destruct dr; cbn [rebuild nodead child] in *; subst t0; repeat split; auto. }
  destruct (char_cmp ch c <? 0)%Z; [apply (Hac l _ _ DL); auto|].
  destruct (0 <? char_cmp ch c)%Z; [apply (Hac r _ _ DR); auto|].
  destruct rest as [|x xs]; [|apply (Hac m _ _ DM); auto].
  rewrite tree_at_node. destruct d; [apply nodead_try_prune; auto|]. cbn [nodead]; auto.
Qed.

Lemma tree_inv_del t ch rest :
  tree_inv t -> Forall byte (ch :: rest) -> tree_inv (tree_of (del t ch rest)).
Proof.
  intros [Hsp Hnd Hso Hdup] Hb.
  destruct (lk t ch rest) as [old|] eqn:El.
  2:{ rewrite del_absent by assumption. split; assumption. }
  destruct (del_entries t ch rest old El) as (l1 & l2 & E1 & E2).
  assert (Hother : forall x, In x (l1 ++ l2) -> In x (entries t) /\ ekey x <> ch :: rest).
  { intros x Hx. assert (Hin : In x (entries t)).
    { rewrite E1. apply in_app_iff in Hx. apply in_app_iff. destruct Hx; [left|right; right]; assumption. }
    split; [assumption|]. intros Heq. destruct (Hso x Hin) as [_ Hl]. rewrite Heq in Hl. cbn [lookup] in Hl.
    rewrite El in Hl. inversion Hl; subst old.
    rewrite E1, map_app in Hdup. cbn [map] in Hdup. apply NoDup_remove_2 in Hdup. apply Hdup.
    rewrite <- map_app. apply in_map; assumption. }
  split.
  - apply spell_del; assumption.
  - apply nodead_del; assumption.
  - intros x Hx. rewrite E2 in Hx. destruct (Hother x Hx) as [Hin Hne].
    destruct (Hso x Hin) as [[Hne0 Hbx] Hlx]. split; [split; assumption|].
    destruct (ekey x) as [|ch' rest'] eqn:Ek; [congruence|]. cbn [lookup] in *.
    rewrite lk_del_other; assumption.
  - rewrite E2. rewrite E1, map_app in Hdup. cbn [map] in Hdup. apply NoDup_remove_1 in Hdup. rewrite map_app. exact Hdup.
Qed.

(** ---------------------------------------------------------------- counting *)
Lemma count_eow_entries t : count_eow t = lenN (entries t).
Proof.
  induction t as [|id c d l IHl m IHm r IHr]; [reflexivity|]. cbn [count_eow entries].
  rewrite !lenN_app, IHl, IHm, IHr. destruct d; cbn [opt_list]; unfold lenN; cbn [length]; lia.
Qed.

Lemma put_split_len o new L L' : put_split o new L L' ->
  lenN L' = match o with Some _ => lenN L | None => lenN L + 1 end.
Proof.
  destruct o; intros (l1 & l2 & -> & ->); rewrite !lenN_app; try rewrite !lenN_cons; try lia.
Qed.
