(** CC_TSTTable, part 4: cc_tsttable_iter_remove.  The node the iterator stands on is found by the
    iterator's pointer, not by key; under the invariant both designate the same node, so iter_remove is
    the removal of the last yielded key.  The iterator has advanced before the removal; the pruning
    never touches what the iterator still has to visit, so the cached answer and every later
    iter_next are those of an iterator over the new tree. *)
From CC Require Import Base.Prelude Base.ListMem Base.Alloc Base.AllocProofs Generated.Status.
From CC Require Import Tst.TstModel Tst.TstProofs1 Tst.TstProofs2 Tst.TstProofs3.
From Coq Require Import Permutation.
Local Open Scope N_scope.

(** ---------------------------------------------------------------- a stored entry designates one node *)
Lemma in_entries_child d id c dd l m r e : In e (entries (child d l m r)) -> In e (entries (Node id c dd l m r)).
Proof. cbn [entries]. rewrite !in_app_iff. destruct d; cbn [child]; auto. Qed.

Lemma node_data_in_entries : forall q t n e, node_at t q = Some n -> data_of n = Some e -> In e (entries t).
Proof.
  induction q as [|d q IH]; intros t n e H Hd; cbn in H.
  - inversion H; subst. destruct n as [|id c dd l m r]; cbn in Hd; [discriminate|]. subst dd. cbn. auto.
  - destruct t as [|id c dd l m r]; [discriminate|]. eapply in_entries_child. eapply IH; eauto.
Qed.

Lemma nodup_mid {A B} (f : A -> B) (X0 X X1 Y Y1 : list A) e :
  NoDup (map f (X0 ++ X ++ X1 ++ Y ++ Y1)) -> In e X -> In e Y -> False.
Proof.
  intros Hnd Hx Hy. apply in_split in Hx. destruct Hx as (x1 & x2 & ->).
  replace (X0 ++ (x1 ++ e :: x2) ++ X1 ++ Y ++ Y1) with ((X0 ++ x1) ++ e :: (x2 ++ X1 ++ Y ++ Y1)) in Hnd
    by (rewrite <- !app_assoc; reflexivity).
  rewrite map_app in Hnd. cbn [map] in Hnd. apply NoDup_remove_2 in Hnd. apply Hnd.
  rewrite <- map_app. apply in_map. rewrite !in_app_iff. auto 8.
Qed.

Lemma kids_disjoint id c dd l m r d1 d2 e :
  NoDup (map ekey (entries (Node id c dd l m r))) -> d1 <> d2 ->
  In e (entries (child d1 l m r)) -> In e (entries (child d2 l m r)) -> False.
Proof.
  cbn [entries]. intros Hnd Hne H1 H2.
  destruct d1, d2; try congruence; cbn [child] in *.
  - apply (nodup_mid ekey (opt_list dd) (entries l) [] (entries m) (entries r) e); auto.
  - apply (nodup_mid ekey (opt_list dd) (entries l) (entries m) (entries r) [] e); auto. rewrite app_nil_r. exact Hnd.
  - apply (nodup_mid ekey (opt_list dd) (entries l) [] (entries m) (entries r) e); auto.
  - apply (nodup_mid ekey (opt_list dd ++ entries l) (entries m) [] (entries r) [] e); auto.
    rewrite app_nil_r. rewrite <- app_assoc. exact Hnd.
  - apply (nodup_mid ekey (opt_list dd) (entries l) (entries m) (entries r) [] e); auto. rewrite app_nil_r. exact Hnd.
  - apply (nodup_mid ekey (opt_list dd ++ entries l) (entries m) [] (entries r) [] e); auto.
    rewrite app_nil_r. rewrite <- app_assoc. exact Hnd.
Qed.

Lemma nodup_app_l {A} (l1 l2 : list A) : NoDup (l1 ++ l2) -> NoDup l2.
Proof. induction l1 as [|a l1 IH]; cbn; [auto|]. intros H; inversion H; auto. Qed.
Lemma nodup_app_r {A} (l1 l2 : list A) : NoDup (l1 ++ l2) -> NoDup l1.
Proof.
  induction l1 as [|a l1 IH]; cbn; intros H; [constructor|]. inversion H; subst. constructor; [|auto].
  intros Hin; apply H2; apply in_app_iff; auto.
Qed.

Lemma nodup_child id c dd l m r d :
  NoDup (map ekey (entries (Node id c dd l m r))) -> NoDup (map ekey (entries (child d l m r))).
Proof.
  cbn [entries]. rewrite !map_app. intros H.
  apply nodup_app_l in H.
  destruct d; cbn [child].
  - apply nodup_app_r in H. exact H.
  - apply nodup_app_l in H. apply nodup_app_r in H. exact H.
  - apply nodup_app_l in H. apply nodup_app_l in H. exact H.
Qed.

Lemma root_not_in_kid id c e l m r d :
  NoDup (map ekey (entries (Node id c (Some e) l m r))) -> In e (entries (child d l m r)) -> False.
Proof.
  cbn [entries opt_list app map]. intros H Hin. inversion H as [|? ? Hn _]; subst. apply Hn.
  apply in_map. rewrite !in_app_iff. destruct d; cbn [child] in Hin; auto.
Qed.

Lemma path_unique : forall q1 t q2 n1 n2 e,
  NoDup (map ekey (entries t)) -> node_at t q1 = Some n1 -> node_at t q2 = Some n2 ->
  data_of n1 = Some e -> data_of n2 = Some e -> q1 = q2.
Proof.
  induction q1 as [|d1 q1 IH]; intros t q2 n1 n2 e Hnd H1 H2 E1 E2.
  - cbn in H1. inversion H1; subst n1. destruct q2 as [|d2 q2]; [reflexivity|]. exfalso.
    destruct t as [|id c dd l m r]; [discriminate|]. cbn in E1. subst dd. cbn in H2.
    apply (root_not_in_kid _ _ _ _ _ _ d2 Hnd). eapply node_data_in_entries; eauto.
  - destruct t as [|id c dd l m r]; [discriminate|]. cbn in H1.
    destruct q2 as [|d2 q2].
    + exfalso. cbn in H2. inversion H2; subst n2. cbn in E2. subst dd.
      apply (root_not_in_kid _ _ _ _ _ _ d1 Hnd). eapply node_data_in_entries; eauto.
    + cbn in H2. assert (d1 = d2).
      { assert (I1 : In e (entries (child d1 l m r))) by (eapply node_data_in_entries; [exact H1|exact E1]).
        assert (I2 : In e (entries (child d2 l m r))) by (eapply node_data_in_entries; [exact H2|exact E2]).
        destruct d1, d2; try reflexivity; exfalso;
          (eapply (kids_disjoint id c dd l m r); [exact Hnd| |exact I1|exact I2]); discriminate. }
      subst d2. f_equal. eapply (IH (child d1 l m r)); [eapply nodup_child; exact Hnd|exact H1|exact H2|exact E1|exact E2].
Qed.

(** the iterator's pointer and the key of the entry it holds lead to the same node *)
Lemma remove_at_is_del t q id c e l m r ch rest :
  tree_inv t -> node_at t q = Some (Node id c (Some e) l m r) -> ekey e = ch :: rest ->
  lk t ch rest = Some e /\ remove_eow_at t q = Some (del t ch rest).
Proof.
  intros [_ _ Hso Hdup] Hn Ek.
  assert (Hin : In e (entries t)) by (eapply node_data_in_entries; [exact Hn|reflexivity]).
  destruct (Hso e Hin) as [_ Hl]. rewrite Ek in Hl. cbn [lookup] in Hl. split; [assumption|].
  destruct (descend t ch rest []) as [[p slot] post] eqn:Ed.
  destruct (descend_spec _ _ _ _ _ _ _ Ed) as (q' & Ep & Hn' & Hlk & _).
  assert (Hs : slot <> Leaf) by (intros ->; rewrite Hl in Hlk; discriminate).
  rewrite <- (remove_eow_at_del0 _ _ _ _ _ _ Ed Hs). f_equal.
  rewrite Ep, app_nil_r, rev_involutive.
  eapply path_unique; [exact Hdup|exact Hn|exact Hn'|reflexivity|]. rewrite <- Hlk. exact Hl.
Qed.

(** ---------------------------------------------------------------- what pruning cannot touch *)
Definition unprunable (n : tst) : Prop :=
  match n with
  | Leaf => True
  | Node _ _ d l m r => d <> None \/ l <> Leaf \/ m <> Leaf \/ r <> Leaf
  end.
Lemma try_prune_keep n : unprunable n -> try_prune n = ([], n, false).
Proof.
  destruct n as [|id c [e|] l m r]; cbn; try reflexivity.
  intros [H|[H|[H|H]]]; [congruence| | |]; destruct l; try reflexivity; try congruence; destruct m; try reflexivity; try congruence;
    destruct r; try reflexivity; congruence.
Qed.
Lemma tree_after_child_keep res n : unprunable (n (tree_of res)) -> tree_of (after_child res n) = n (tree_of res).
Proof.
  intros H. rewrite tree_after_child. destruct (freed_of res); [|reflexivity]. rewrite try_prune_keep by assumption. reflexivity.
Qed.
Lemma tree_at_node_keep id c d l m r :
  l <> Leaf \/ m <> Leaf \/ r <> Leaf -> exists d', tree_of (at_node id c d l m r) = Node id c d' l m r.
Proof.
  intros H. rewrite tree_at_node. destruct d; [|eauto]. rewrite try_prune_keep by (cbn; auto). cbn. eauto.
Qed.

Lemma node_at_leaf q n : node_at Leaf q = Some n -> n = Leaf.
Proof. destruct q; cbn; congruence. Qed.
Lemma node_at_nonleaf t q n : node_at t q = Some n -> n <> Leaf -> t <> Leaf.
Proof. intros H Hn ->. apply node_at_leaf in H. contradiction. Qed.

(** a node carrying another entry survives, with its entry *)
Lemma keeps_data e : forall q t qx res iy cy e2 ly my ry nx,
  node_at t q = Some (Node iy cy (Some e2) ly my ry) -> e2 <> e ->
  node_at t qx = Some nx -> data_of nx = Some e -> remove_eow_at t qx = Some res ->
  exists ly' my' ry', node_at (tree_of res) q = Some (Node iy cy (Some e2) ly' my' ry').
Proof.
  induction q as [|d q IH]; intros t qx res iy cy e2 ly my ry nx Hn Hne Hx Hd Hr.
  - cbn in Hn. inversion Hn; subst t. rewrite remove_eow_at_unfold in Hr. destruct qx as [|dx qx].
    + cbn in Hx. inversion Hx; subst nx. cbn in Hd. congruence.
    + destruct (remove_eow_at (child dx ly my ry) qx) as [res'|]; [|discriminate]. inversion Hr; subst res.
      rewrite tree_after_child_keep by (destruct dx; cbn; left; discriminate).
      destruct dx; cbn [rebuild node_at]; eauto.
  - destruct t as [|id c dd l m r]; [discriminate|]. cbn in Hn. rewrite remove_eow_at_unfold in Hr.
    assert (Hc : child d l m r <> Leaf) by (eapply node_at_nonleaf; [exact Hn|discriminate]).
    destruct qx as [|dx qx].
    + inversion Hr; subst res. destruct (tree_at_node_keep id c dd l m r) as (d' & ->).
      { destruct d; cbn [child] in Hc; auto. }
      cbn [node_at]. eauto.
    + cbn in Hx. destruct (remove_eow_at (child dx l m r) qx) as [res'|] eqn:Er; [|discriminate]. inversion Hr; subst res.
      destruct (dir_eqb dx d) eqn:Ed.
      * apply dir_eqb_eq in Ed; subst dx.
        destruct (IH _ _ _ _ _ _ _ _ _ _ Hn Hne Hx Hd Er) as (ly' & my' & ry' & Hn').
        assert (Hc' : tree_of res' <> Leaf) by (eapply node_at_nonleaf; [exact Hn'|discriminate]).
        rewrite tree_after_child_keep by (destruct d; cbn; auto).
        exists ly', my', ry'. destruct d; cbn [rebuild node_at child]; exact Hn'.
      * assert (dx <> d) by (intros ->; destruct d; discriminate).
        rewrite tree_after_child_keep by (destruct dx, d; cbn [rebuild child unprunable] in *; try congruence; auto).
        exists ly, my, ry. destruct dx, d; cbn [rebuild node_at child] in *; try congruence; exact Hn.
Qed.

(** the general descent: the subtree at [q] and what comes after it, when the removal is at [qx] *)
Lemma descent e : forall q t qx res sub nx,
  node_at t q = Some sub -> sub <> Leaf ->
  node_at t qx = Some nx -> data_of nx = Some e -> remove_eow_at t qx = Some res ->
  ~ In e (after t q) ->
  (forall qx2 res2, qx = q ++ qx2 -> remove_eow_at sub qx2 = Some res2 -> tree_of res2 <> Leaf) ->
  after (tree_of res) q = after t q /\
  ((exists qx2 res2, qx = q ++ qx2 /\ remove_eow_at sub qx2 = Some res2 /\ node_at (tree_of res) q = Some (tree_of res2)) \/
   (node_at (tree_of res) q = Some sub /\ forall qx2, qx <> q ++ qx2)).
Proof.
  induction q as [|d q IH]; intros t qx res sub nx Hn Hs Hx Hd Hr Hnot Hsurv.
  - cbn in Hn. inversion Hn; subst sub. split; [reflexivity|]. left. exists qx, res. auto.
  - destruct t as [|id c dd l m r]; [discriminate|]. cbn in Hn. rewrite remove_eow_at_unfold in Hr.
    assert (Hc : child d l m r <> Leaf) by (eapply node_at_nonleaf; eauto).
    cbn [after] in Hnot. rewrite in_app_iff in Hnot.
    destruct qx as [|dx qx].
    + inversion Hr; subst res. destruct (tree_at_node_keep id c dd l m r) as (d' & ->).
      { destruct d; cbn [child] in Hc; auto. }
      split; [reflexivity|]. right. split; [exact Hn|]. intros qx2; discriminate.
    + cbn in Hx. destruct (remove_eow_at (child dx l m r) qx) as [res'|] eqn:Er; [|discriminate]. inversion Hr; subst res.
      destruct (dir_eqb dx d) eqn:Ed.
      * apply dir_eqb_eq in Ed; subst dx.
        destruct (IH _ _ _ _ _ Hn Hs Hx Hd Er) as (Haf & Hcase); [tauto| |].
        { intros qx2 res2 E. apply Hsurv. cbn. congruence. }
        assert (Hc' : tree_of res' <> Leaf).
        { destruct Hcase as [(qx2 & res2 & E & Er2 & Hn')|[Hn' _]].
          - eapply node_at_nonleaf; [exact Hn'|]. eapply Hsurv; [|exact Er2]. cbn. congruence.
          - eapply node_at_nonleaf; eauto. }
        rewrite tree_after_child_keep by (destruct d; cbn; auto).
        split.
        -- destruct d; cbn [rebuild after child sib_entries]; rewrite Haf; reflexivity.
        -- destruct Hcase as [(qx2 & res2 & E & Er2 & Hn')|[Hn' Hno]].
           ++ left. exists qx2, res2. split; [cbn; congruence|]. split; [assumption|].
              destruct d; cbn [rebuild node_at child]; exact Hn'.
           ++ right. split; [destruct d; cbn [rebuild node_at child]; exact Hn'|].
              intros qx2 E. cbn in E. inversion E. eapply Hno; eauto.
      * assert (Hdd : dx <> d) by (intros ->; destruct d; discriminate).
        assert (Hin : In e (entries (child dx l m r))) by (eapply node_data_in_entries; eauto).
        rewrite tree_after_child_keep by (destruct dx, d; cbn [rebuild child unprunable] in *; try congruence; auto).
        split.
        -- destruct dx, d; cbn [rebuild after child sib_entries] in *; try congruence; try reflexivity;
             exfalso; apply Hnot; right; rewrite ?in_app_iff; auto.
        -- right. split; [destruct dx, d; cbn [rebuild node_at child] in *; try congruence; exact Hn|].
           intros qx2 E. cbn in E. inversion E. congruence.
Qed.

Lemma inside e t q qx2 sub nx :
  node_at t q = Some sub -> node_at t (q ++ qx2) = Some nx -> data_of nx = Some e -> In e (entries sub).
Proof. intros Hn Hx Hd. rewrite node_at_app, Hn in Hx. eapply node_data_in_entries; eauto. Qed.

(** arriving from the parent: the removed node lies outside the subtree and outside what follows it *)
Lemma transfer_parent e q t qx res sub nx :
  node_at t q = Some sub -> sub <> Leaf ->
  node_at t qx = Some nx -> data_of nx = Some e -> remove_eow_at t qx = Some res ->
  ~ In e (entries sub ++ after t q) ->
  node_at (tree_of res) q = Some sub /\ after (tree_of res) q = after t q.
Proof.
  intros Hn Hs Hx Hd Hr Hnot. rewrite in_app_iff in Hnot.
  destruct (descent e q t qx res sub nx Hn Hs Hx Hd Hr) as (Haf & Hcase); [tauto| |].
  - intros qx2 res2 -> _. exfalso. apply Hnot. left. eapply inside; eauto.
  - destruct Hcase as [(qx2 & res2 & -> & _)|[Hn' _]]; [|auto]. exfalso. apply Hnot. left. eapply inside; eauto.
Qed.

Lemma node_level e id c dd l m r dy iy cy e2 ly my ry qx2 res2 nx :
  child dy l m r = Node iy cy (Some e2) ly my ry -> e2 <> e ->
  node_at (Node id c dd l m r) qx2 = Some nx -> data_of nx = Some e ->
  remove_eow_at (Node id c dd l m r) qx2 = Some res2 -> ~ In e (sib_entries dy l m r) ->
  exists dd' l' m' r', tree_of res2 = Node id c dd' l' m' r' /\ child dy l' m' r' <> Leaf /\
                       sib_entries dy l' m' r' = sib_entries dy l m r.
Proof.
  intros Hy Hne Hx Hd Hr Hnot. rewrite remove_eow_at_unfold in Hr.
  assert (Hc : child dy l m r <> Leaf) by (rewrite Hy; discriminate).
  destruct qx2 as [|dx q3].
  - inversion Hr; subst res2. destruct (tree_at_node_keep id c dd l m r) as (d' & ->).
    { destruct dy; cbn [child] in Hc; auto. }
    exists d', l, m, r. auto.
  - cbn in Hx. destruct (remove_eow_at (child dx l m r) q3) as [res'|] eqn:Er; [|discriminate]. inversion Hr; subst res2.
    destruct (dir_eqb dx dy) eqn:Ed.
    + apply dir_eqb_eq in Ed; subst dx. rewrite Hy in Hx, Er.
      destruct (keeps_data e [] _ q3 res' iy cy e2 ly my ry nx eq_refl Hne Hx Hd Er) as (ly' & my' & ry' & Hn').
      cbn in Hn'. inversion Hn' as [Ht].
      rewrite tree_after_child_keep by (rewrite Ht; destruct dy; cbn; [right; left|right; right; left|right; right; right]; discriminate).
      rewrite Ht. destruct dy; cbn [rebuild child sib_entries]; do 4 eexists; (split; [reflexivity|]); (split; [discriminate|reflexivity]).
    + assert (Hdd : dx <> dy) by (intros ->; destruct dy; discriminate).
      assert (Hin : In e (entries (child dx l m r))) by (eapply node_data_in_entries; eauto).
      rewrite tree_after_child_keep by (destruct dx, dy; cbn [rebuild child unprunable] in *; try congruence; auto).
      destruct dx, dy; cbn [rebuild child sib_entries] in *; try congruence;
        try (exfalso; apply Hnot; rewrite ?in_app_iff; auto; fail);
        do 4 eexists; (split; [reflexivity|]); (split; [exact Hc|reflexivity]).
Qed.

(** arriving back from the child [dy], which holds another entry *)
Lemma transfer_child e q t qx res id c dd l m r dy iy cy e2 ly my ry nx :
  node_at t q = Some (Node id c dd l m r) -> child dy l m r = Node iy cy (Some e2) ly my ry -> e2 <> e ->
  node_at t qx = Some nx -> data_of nx = Some e -> remove_eow_at t qx = Some res ->
  ~ In e (sib_entries dy l m r ++ after t q) ->
  exists dd' l' m' r', node_at (tree_of res) q = Some (Node id c dd' l' m' r') /\ child dy l' m' r' <> Leaf /\
                       sib_entries dy l' m' r' = sib_entries dy l m r /\ after (tree_of res) q = after t q.
Proof.
  intros Hn Hy Hne Hx Hd Hr Hnot. rewrite in_app_iff in Hnot.
  assert (Hnl : forall qx2 res2, qx = q ++ qx2 -> remove_eow_at (Node id c dd l m r) qx2 = Some res2 ->
            exists dd' l' m' r', tree_of res2 = Node id c dd' l' m' r' /\ child dy l' m' r' <> Leaf /\
                                 sib_entries dy l' m' r' = sib_entries dy l m r).
  { intros qx2 res2 E Er2. subst qx. rewrite node_at_app, Hn in Hx.
    eapply (node_level e); eauto. }
  destruct (descent e q t qx res _ nx Hn ltac:(discriminate) Hx Hd Hr) as (Haf & Hcase); [tauto| |].
  - intros qx2 res2 E Er2. destruct (Hnl _ _ E Er2) as (? & ? & ? & ? & -> & _). discriminate.
  - destruct Hcase as [(qx2 & res2 & E & Er2 & Hn')|[Hn' _]].
    + destruct (Hnl _ _ E Er2) as (dd' & l' & m' & r' & Et & Hc' & Hsib). rewrite Et in Hn'. eauto 10.
    + exists dd, l, m, r. rewrite Hy. repeat split; auto. discriminate.
Qed.

(** a state of the automaton in the old tree is a state in the pruned tree *)
Lemma valid_transfer e t qx res nx p prev R n :
  node_at t qx = Some nx -> data_of nx = Some e -> remove_eow_at t qx = Some res ->
  valid t p prev R n -> ~ In e R ->
  (forall dy, prev = Some (dy :: p) -> exists iy cy e2 ly my ry,
      node_at t (rev (dy :: p)) = Some (Node iy cy (Some e2) ly my ry) /\ e2 <> e) ->
  exists n', valid (tree_of res) p prev R n'.
Proof.
  intros Hx Hd Hr Hv Hnot Hprev.
  assert (Hkid : forall dy id c dd l m r, prev = Some (dy :: p) -> node_at t (rev p) = Some (Node id c dd l m r) ->
            exists iy cy e2 ly my ry, child dy l m r = Node iy cy (Some e2) ly my ry /\ e2 <> e).
  { intros dy id c dd l m r E Hn. destruct (Hprev dy E) as (iy & cy & e2 & ly & my & ry & Hy & Hne).
    cbn [rev] in Hy. rewrite node_at_app, Hn in Hy. cbn in Hy. inversion Hy. eauto 10. }
  destruct Hv as [id c d l m r R n Hn -> ->|id c d l m r R n Hn Hne -> ->|id c d l m r R n Hn Hne -> ->|id c d l m r R n Hn Hne -> ->].
  - destruct (transfer_parent e (rev p) t qx res _ nx Hn ltac:(discriminate) Hx Hd Hr) as (Hn' & Haf).
    { cbn [entries]. rewrite <- !app_assoc. exact Hnot. }
    eexists. eapply V_parent; [exact Hn'|rewrite Haf; reflexivity|reflexivity].
  - destruct (Hkid DL _ _ _ _ _ _ eq_refl Hn) as (iy & cy & e2 & ly & my & ry & Hy & Hne2).
    destruct (transfer_child e (rev p) t qx res id c d l m r DL _ _ _ _ _ _ nx Hn Hy Hne2 Hx Hd Hr) as (dd' & l' & m' & r' & Hn' & Hc' & Hsib & Haf).
    { cbn [sib_entries]. rewrite <- app_assoc. exact Hnot. }
    cbn [child sib_entries] in *. eexists. eapply V_left; [exact Hn'|exact Hc'| |reflexivity].
    rewrite Haf, !app_assoc, Hsib. reflexivity.
  - destruct (Hkid DM _ _ _ _ _ _ eq_refl Hn) as (iy & cy & e2 & ly & my & ry & Hy & Hne2).
    destruct (transfer_child e (rev p) t qx res id c d l m r DM _ _ _ _ _ _ nx Hn Hy Hne2 Hx Hd Hr) as (dd' & l' & m' & r' & Hn' & Hc' & Hsib & Haf).
    { cbn [sib_entries]. exact Hnot. }
    cbn [child sib_entries] in *. eexists. eapply V_mid; [exact Hn'|exact Hc'| |reflexivity].
    rewrite Haf, Hsib. reflexivity.
  - destruct (Hkid DR _ _ _ _ _ _ eq_refl Hn) as (iy & cy & e2 & ly & my & ry & Hy & Hne2).
    destruct (transfer_child e (rev p) t qx res id c d l m r DR _ _ _ _ _ _ nx Hn Hy Hne2 Hx Hd Hr) as (dd' & l' & m' & r' & Hn' & Hc' & Hsib & Haf).
    { cbn [sib_entries app]. exact Hnot. }
    cbn [child sib_entries] in *. eexists. eapply V_right; [exact Hn'|exact Hc'| |reflexivity].
    rewrite Haf. reflexivity.
Qed.

(** ---------------------------------------------------------------- iter_remove *)
Lemma split_unique {A} (e : A) : forall l1 l2 l1' l2',
  NoDup (l1 ++ e :: l2) -> l1 ++ e :: l2 = l1' ++ e :: l2' -> l1 = l1' /\ l2 = l2'.
Proof.
  induction l1 as [|a l1 IH]; intros l2 [|a' l1'] l2' Hnd E; cbn in *.
  - inversion E; auto.
  - inversion E; subst. inversion Hnd; subst. exfalso. apply H1. apply in_app_iff. right; left; reflexivity.
  - inversion E; subst. inversion Hnd; subst. exfalso. apply H1. apply in_app_iff. right; left; reflexivity.
  - inversion E; subst. inversion Hnd; subst. destruct (IH _ _ _ H3 H1); subst; auto.
Qed.

Lemma remove_core base s a ch rest old :
  tst_inv base s a -> Forall byte (ch :: rest) -> lk (t_root s) ch rest = Some old ->
  exists a', release_all (t_mem s) (ids_of (del (t_root s) ch rest)) a = Ok a' /\
             tst_inv base (set_tree s (tree_of (del (t_root s) ch rest)) (t_size s - 1)) a' /\ 0 < t_size s.
Proof.
  intros Hinv Hb Hl. pose proof (remove_refines base s a ch rest Hinv Hb) as K. rewrite Hl in K.
  destruct K as (s' & a' & E & Hi' & Er & Em & Eh & Es & Hpos & _).
  unfold tst_remove in E. cbn [get_last_node] in E.
  destruct (descend (t_root s) ch rest []) as [[p slot] post] eqn:Ed.
  destruct (descend_spec _ _ _ _ _ _ _ Ed) as (q & _ & _ & Hlk & Hpost & _). rewrite Hl in Hlk.
  destruct slot as [|id c [[[e k] v]|] l m r]; cbn [data_of] in Hlk; try discriminate.
  rewrite Hpost in E by discriminate.
  rewrite (remove_eow_at_del0 _ _ _ _ _ _ Ed) in E by discriminate. cbn [of_opt bind] in E.
  destruct (del (t_root s) ch rest) as [[ids root'] fr] eqn:Edel. unfold ids_of, tree_of in *. cbn [fst snd] in *.
  destruct (release_all (t_mem s) ids a) as [a''|] eqn:Erel; cbn [bind] in E; [|discriminate].
  inversion E; subst a''. exists a'. split; [reflexivity|]. split; [|assumption].
  replace (set_tree s root' (t_size s - 1)) with s'; [assumption|].
  destruct s'; cbn in *. unfold set_tree. f_equal; congruence.
Qed.

Definition it_ok (t : tst) (it : iter) (done R : list entry) : Prop := it_valid t it R /\ entries t = done ++ R.

Lemma iter_init_ok t : it_ok t (iter_init t) [] (entries t).
Proof. split; [apply iter_init_valid|reflexivity]. Qed.

Lemma iter_next_ok t it done R : it_ok t it done R ->
  match R with
  | [] => exists it', tst_iter_next t it = Ok (CC_ITER_END, None, it') /\ it_ok t it' done [] /\ it_cur it' = None
  | e :: R' => exists it' pe, tst_iter_next t it = Ok (CC_OK, entry_out (Some e), it') /\ it_ok t it' (done ++ [e]) R' /\
                 it_cur it' = Some pe /\ (exists id c l m r, node_at t (rev pe) = Some (Node id c (Some e) l m r))
  end.
Proof.
  intros [Hv He]. pose proof (iter_next_spec t it R Hv) as K. destruct R as [|e R'].
  - destruct K as (it' & E & Hv' & Hc & _). exists it'. split; [assumption|]. split; [split; assumption|assumption].
  - destruct K as (it' & pe & E & Hv' & Hc & Hn). exists it', pe. split; [assumption|]. split; [|auto].
    split; [assumption|]. rewrite He, <- app_assoc. reflexivity.
Qed.

Theorem iter_remove_spec base s a m it done e R' pe id c l mm r :
  tst_inv base s a -> tst_rel (t_root s) m ->
  it_ok (t_root s) it (done ++ [e]) R' -> it_cur it = Some pe ->
  node_at (t_root s) (rev pe) = Some (Node id c (Some e) l mm r) ->
  exists s' it2 a', tst_iter_remove s it a = Ok (CC_OK, Some (eval e), s', it2, a') /\
    tst_inv base s' a' /\ tst_rel (t_root s') (spec_del m (ekey e)) /\ assoc m (ekey e) = Some (eval e) /\
    t_size s' = t_size s - 1 /\ 0 < t_size s /\ entries (t_root s') = done ++ R' /\
    match R' with
    | [] => exists it3, tst_iter_next (t_root s') it2 = Ok (CC_ITER_END, None, it3) /\
                        it_ok (t_root s') it3 done [] /\ it_cur it3 = None
    | e2 :: R'' => exists it3 pe2, tst_iter_next (t_root s') it2 = Ok (CC_OK, entry_out (Some e2), it3) /\
                     it_ok (t_root s') it3 (done ++ [e2]) R'' /\ it_cur it3 = Some pe2 /\
                     (exists id2 c2 l2 m2 r2, node_at (t_root s') (rev pe2) = Some (Node id2 c2 (Some e2) l2 m2 r2))
    end.
Proof.
  intros Hinv Hrel [Hv Hent] Hcur Hnode.
  pose proof (inv_tree _ _ _ Hinv) as Htree. pose proof Htree as [Hsp _ Hso Hdup].
  assert (Hin : In e (entries (t_root s))) by (eapply node_data_in_entries; [exact Hnode|reflexivity]).
  destruct (Hso e Hin) as [[Hkne Hkb] Hlook].
  destruct (ekey e) as [|ch rest] eqn:Ek; [congruence|].
  destruct (remove_at_is_del _ _ _ _ _ _ _ _ ch rest Htree Hnode Ek) as [Hlk Hrm].
  destruct (remove_core base s a ch rest e Hinv Hkb Hlk) as (a' & Hrel_all & Hinv' & Hpos).
  (* entries and order *)
  assert (HndE : NoDup (entries (t_root s))) by (eapply NoDup_map_inv; exact Hdup).
  destruct (del_entries _ _ _ _ Hlk) as (l1 & l2 & E1 & E2).
  assert (Hsplit : l1 = done /\ l2 = R').
  { apply (split_unique e); [rewrite <- E1; exact HndE|]. rewrite <- E1, Hent, <- app_assoc. reflexivity. }
  destruct Hsplit as [-> ->].
  assert (HnotR : ~ In e R').
  { rewrite E1 in HndE. apply NoDup_remove_2 in HndE. intros Hi. apply HndE. apply in_app_iff. auto. }
  (* the call itself *)
  unfold tst_iter_remove. rewrite Hcur, Hnode.
  destruct e as [[ie ke] ve] eqn:Ee. cbn [of_opt bind]. rewrite <- Ee in *.
  pose proof (iter_next_spec _ _ _ Hv) as Knext.
  assert (Hsz : wsub (t_size s) 1 = t_size s - 1) by (apply wsub_1; [assumption|apply (inv_sizeW _ _ _ Hinv)]).
  assert (Hrel' : tst_rel (tree_of (del (t_root s) ch rest)) (spec_del m (ch :: rest))) by (apply rel_del; assumption).
  assert (Hassoc : assoc m (ch :: rest) = Some (eval e)).
  { rewrite <- (rel_lookup _ _ Hrel (ch :: rest) (conj Hkne Hkb)). unfold lookup_val. cbn [lookup]. rewrite Hlk. reflexivity. }
  assert (Hev : eval e = ve) by (rewrite Ee; reflexivity).
  destruct R' as [|e2 R''].
  - destruct Knext as (it1 & -> & Hv1 & Hc1 & Hn1). cbn [bind]. rewrite Hrm. cbn [of_opt bind].
    unfold ids_of in Hrel_all. destruct (del (t_root s) ch rest) as [[ids root'] fr] eqn:Edel. unfold tree_of in *. cbn [fst snd] in *.
    rewrite Hrel_all. cbn [bind]. rewrite Hsz, <- Hev.
    do 3 eexists. split; [reflexivity|]. cbn [set_tree t_root t_size].
    split; [exact Hinv'|]. split; [exact Hrel'|]. split; [exact Hassoc|]. split; [reflexivity|]. split; [assumption|].
    split; [rewrite E2; reflexivity|].
    unfold tst_iter_next. cbn [it_adv it_stat it_cur it_next it_prev]. change (stat_eqb CC_ITER_END CC_OK) with false. cbn iota.
    eexists. split; [reflexivity|]. cbn [it_cur]. split; [|exact Hc1].
    split; [|rewrite E2; reflexivity]. split; [reflexivity|]. cbn [it_next it_cur]. rewrite Hn1. exists O. reflexivity.
  - destruct Knext as (it1 & py & -> & Hv1 & Hc1 & (iy & cy & ly & my & ry & Hny)). cbn [bind]. rewrite Hrm. cbn [of_opt bind].
    assert (Hne2 : e2 <> e).
    { intros ->. apply HnotR. left; reflexivity. }
    destruct (keeps_data e (rev py) (t_root s) (rev pe) (del (t_root s) ch rest) iy cy e2 ly my ry _ Hny Hne2 Hnode eq_refl Hrm)
      as (ly' & my' & ry' & Hny').
    assert (Hv3 : exists n', next_valid (tree_of (del (t_root s) ch rest)) (it_next it1) (it_cur it1) R'' n').
    { destruct Hv1 as [_ (n1 & Hnv)]. destruct (it_next it1) as [p1|]; cbn [next_valid] in *; [|exists O; exact Hnv].
      eapply (valid_transfer e); [exact Hnode|reflexivity|exact Hrm|exact Hnv| |].
      - intros Hi. apply HnotR. right; assumption.
      - intros dy Ed. rewrite Hc1 in Ed. inversion Ed; subst py. eauto 10. }
    unfold ids_of in Hrel_all. destruct (del (t_root s) ch rest) as [[ids root'] fr] eqn:Edel. unfold tree_of in *. cbn [fst snd] in *.
    rewrite Hrel_all. cbn [bind]. rewrite Hsz, <- Hev.
    do 3 eexists. split; [reflexivity|]. cbn [set_tree t_root t_size].
    split; [exact Hinv'|]. split; [exact Hrel'|]. split; [exact Hassoc|]. split; [reflexivity|]. split; [assumption|].
    split; [rewrite E2; reflexivity|].
    unfold tst_iter_next. cbn [it_adv it_stat it_cur it_next it_prev]. change (stat_eqb CC_OK CC_OK) with true. cbn iota.
    rewrite Hc1, Hny'. do 2 eexists. split; [reflexivity|]. cbn [it_cur].
    split; [|split; [reflexivity|eauto 8]].
    split; [|rewrite E2, <- app_assoc; reflexivity]. split; [reflexivity|]. cbn [it_next it_cur]. rewrite Hc1 in Hv3. exact Hv3.
Qed.

Lemma iter_remove_no_current s it a : it_cur it = None -> tst_iter_remove s it a = Ok (CC_ERR_KEY_NOT_FOUND, None, s, it, a).
Proof. intros H. unfold tst_iter_remove. rewrite H. reflexivity. Qed.

(** ---------------------------------------------------------------- C14: only the table's allocator family *)
(** blocks of the other family are never created, released or changed by any table operation *)
Definition others (mem : tag) (a : alloc_st) : list block :=
  filter (fun b => negb (tag_eqb (b_tag b) mem)) (live a).

Lemma alloc_others mem n a r a' : alloc mem n a = (r, a') -> others mem a' = others mem a.
Proof.
  intros E. pose proof (alloc_cases mem n a) as C. rewrite E in C. unfold others. destruct r as [id|].
  - destruct C as (_ & -> & _). cbn [filter b_tag]. rewrite tag_eqb_refl. reflexivity.
  - destruct C as (-> & _). reflexivity.
Qed.
Lemma release_others mem id a a' : release mem id a = Ok a' -> others mem a' = others mem a.
Proof.
  unfold release. destruct (remove_block id (live a)) as [[b r]|] eqn:Er; [|discriminate].
  destruct (tag_eqb (b_tag b) mem) eqn:Et; [|discriminate]. intros H; inversion H; subst; clear H.
  destruct (remove_block_spec _ _ _ _ Er) as (_ & l1 & l2 & El & -> & _). unfold others. cbn [live].
  rewrite El, !filter_app. cbn [filter]. rewrite Et. reflexivity.
Qed.
Lemma release_all_others mem : forall ids a a', release_all mem ids a = Ok a' -> others mem a' = others mem a.
Proof.
  induction ids as [|id ids IH]; intros a a' H; cbn [release_all] in H; [inversion H; reflexivity|].
  destruct (release mem id a) as [a1|] eqn:E; cbn [bind] in H; [|discriminate].
  rewrite (IH _ _ H). eapply release_others; eauto.
Qed.
Lemma chain_ids_others mem : forall cs a ids ok a', chain_ids mem cs a = (ids, ok, a') -> others mem a' = others mem a.
Proof.
  induction cs as [|c cs IH]; intros a ids ok a' H; cbn [chain_ids] in H; [inversion H; reflexivity|].
  destruct (alloc mem SZ_NODE a) as [[id|] a1] eqn:E.
  - destruct (chain_ids mem cs a1) as [[ids0 ok0] a2] eqn:E2. inversion H; subst.
    rewrite (IH _ _ _ _ E2). eapply alloc_others; eauto.
  - inversion H; subst. eapply alloc_others; eauto.
Qed.

Lemma add_others s k v a st s' a' : tst_add s k v a = Ok (st, s', a') -> others (t_mem s) a' = others (t_mem s) a /\ t_mem s' = t_mem s.
Proof.
  unfold tst_add. destruct (get_last_node (t_root s) k) as [[p slot] post].
  destruct slot as [|id c [[[e k0] v0]|] l m r].
  - destruct (chain_ids (t_mem s) (chain_chars post) a) as [[ids ok] a1] eqn:Ec.
    pose proof (chain_ids_others _ _ _ _ _ _ Ec) as O1. destruct ok; cbn [negb].
    + destruct (alloc (t_mem s) SZ_ENTRY a1) as [[e|] a2] eqn:Ea; pose proof (alloc_others _ _ _ _ _ Ea) as O2.
      * destruct (set_at _ _ _); cbn [of_opt bind]; [|discriminate]. intros H; inversion H; subst. cbn. split; [congruence|reflexivity].
      * destruct (release_all (t_mem s) ids a2) as [a3|] eqn:Er; cbn [bind]; [|discriminate].
        intros H; inversion H; subst. rewrite (release_all_others _ _ _ _ Er). split; [congruence|reflexivity].
    + destruct (release_all (t_mem s) ids a1) as [a3|] eqn:Er; cbn [bind]; [|discriminate].
      intros H; inversion H; subst. rewrite (release_all_others _ _ _ _ Er). split; [congruence|reflexivity].
  - destruct (set_at _ _ _); cbn [of_opt bind]; [|discriminate]. intros H; inversion H; subst. split; reflexivity.
  - destruct (alloc (t_mem s) SZ_ENTRY a) as [[e|] a1] eqn:Ea; pose proof (alloc_others _ _ _ _ _ Ea) as O2.
    + destruct (set_at _ _ _); cbn [of_opt bind]; [|discriminate]. intros H; inversion H; subst. split; [assumption|reflexivity].
    + intros H; inversion H; subst. split; [assumption|reflexivity].
Qed.

Lemma remove_others s k a st v s' a' : tst_remove s k a = Ok (st, v, s', a') -> others (t_mem s) a' = others (t_mem s) a /\ t_mem s' = t_mem s.
Proof.
  unfold tst_remove. destruct (get_last_node (t_root s) k) as [[p slot] post].
  destruct slot as [|id c [[[e k0] v0]|] l m r]; try (intros H; inversion H; subst; split; reflexivity).
  destruct post; [|intros H; inversion H; subst; split; reflexivity].
  destruct (remove_eow_at _ _) as [[[ids root'] fr]|]; cbn [of_opt bind]; [|discriminate].
  destruct (release_all (t_mem s) ids a) as [a1|] eqn:Er; cbn [bind]; [|discriminate].
  intros H; inversion H; subst. split; [eapply release_all_others; eauto|reflexivity].
Qed.

Lemma remove_all_others s a s' a' : tst_remove_all s a = Ok (s', a') -> others (t_mem s) a' = others (t_mem s) a /\ t_mem s' = t_mem s.
Proof.
  unfold tst_remove_all. destruct (release_all _ _ a) as [a1|] eqn:Er; cbn [bind]; [|discriminate].
  intros H; inversion H; subst. split; [eapply release_all_others; eauto|reflexivity].
Qed.

Theorem tst_step_tags s a o out s' a' :
  tst_step s a o = Ok (out, s', a') -> others (t_mem s) a' = others (t_mem s) a /\ t_mem s' = t_mem s.
Proof.
  destruct o as [k v|k|k|k| |]; cbn [tst_step].
  - destruct (tst_add s k v a) as [[[st s1] a1]|] eqn:E; cbn [bind]; [|discriminate].
    intros H; inversion H; subst. eapply add_others; eauto.
  - destruct (tst_get s k). intros H; inversion H; subst. split; reflexivity.
  - intros H; inversion H; subst. split; reflexivity.
  - destruct (tst_remove s k a) as [[[[st v] s1] a1]|] eqn:E; cbn [bind]; [|discriminate].
    intros H; inversion H; subst. eapply remove_others; eauto.
  - destruct (tst_remove_all s a) as [[s1 a1]|] eqn:E; cbn [bind]; [|discriminate].
    intros H; inversion H; subst. eapply remove_all_others; eauto.
  - intros H; inversion H; subst. split; reflexivity.
Qed.

Theorem tst_new_tags mem a st os a1 :
  tst_new mem a = (st, os, a1) -> others mem a1 = others mem a /\ (forall s, os = Some s -> t_mem s = mem).
Proof.
  unfold tst_new. destruct (alloc mem SZ_TABLE a) as [[h|] a0] eqn:Ea; intros H; inversion H; subst;
    (split; [eapply alloc_others; eauto|]); intros s Hs; inversion Hs; reflexivity.
Qed.

Theorem tst_destroy_tags s a a' : tst_destroy s a = Ok a' -> others (t_mem s) a' = others (t_mem s) a.
Proof.
  unfold tst_destroy. destruct (tst_remove_all s a) as [[s1 a1]|] eqn:E; cbn [bind]; [|discriminate].
  intros Hr. destruct (remove_all_others _ _ _ _ E) as [O1 _]. rewrite <- O1. eapply release_others; eauto.
Qed.

Theorem tst_iter_remove_tags s it a st v s' it' a' :
  tst_iter_remove s it a = Ok (st, v, s', it', a') -> others (t_mem s) a' = others (t_mem s) a /\ t_mem s' = t_mem s.
Proof.
  unfold tst_iter_remove. destruct (it_cur it) as [p|]; [|intros Hr; inversion Hr; subst; split; reflexivity].
  destruct (node_at (t_root s) (rev p)) as [[|? ? d ? ? ?]|]; try discriminate.
  destruct (match d with Some (_, _, v0) => Some v0 | None => None end); cbn [of_opt bind]; [|discriminate].
  destruct (tst_iter_next (t_root s) it) as [[[? ?] ?]|]; cbn [bind]; [|discriminate].
  destruct (remove_eow_at (t_root s) (rev p)) as [[[ids root'] fr]|]; cbn [of_opt bind]; [|discriminate].
  destruct (release_all (t_mem s) ids a) as [a1|] eqn:Er; cbn [bind]; [|discriminate].
  intros H; inversion H; subst. split; [eapply release_all_others; eauto|reflexivity].
Qed.
