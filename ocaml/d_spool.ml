(* Model-side interpreter of static pool traces. *)
open Model
open Util

let kv s = match String.index_opt s '=' with
  | Some i -> (String.sub s 0 i, String.sub s (i + 1) (String.length s - i - 1))
  | None -> (s, "")

let run (lines : string list) =
  let st = ref (sp_new N0 []) in
  (* the ideal pool: a stack of (off,len), the pointer of the most recent allocation, the size *)
  let ideal_blocks = ref [] and ideal_last = ref (-1) and isize = ref 0 in
  let isum () = List.fold_left (fun a (_, l) -> a + l) 0 !ideal_blocks in
  let obs p = Printf.sprintf " | used=%s free=%s ok=1" (string_of_n (sp_used p)) (string_of_n (sp_free_bytes p)) in
  let iobs () = Printf.sprintf " | used=%d free=%d ok=1" (isum ()) (!isize - isum ()) in
  let big = n_of_string "0xffffffffffffffff" in
  List.iteri (fun i line ->
    let tok = split_ws line in
    if i = 0 then begin
      let cfg = List.map kv (List.tl (List.tl (List.tl tok))) in
      let size = n_of_string (List.assoc "size" cfg) in
      st := sp_new size (repeatN (n_of_int 0xAA) size);
      ideal_blocks := []; ideal_last := -1; isize := int_of_n size;
      Printf.printf "new OK%s ## new OK%s\n" (obs !st) (iobs ())
    end else
      match tok with
      | [] -> ()
      | "END" :: _ -> Printf.printf "end canary=1%s ## end canary=1%s\n" (obs !st) (iobs ())
      | op :: args ->
          let res_s = function Some o -> string_of_n o | None -> "NULL" in
          let ideal_alloc (n : n) =
            (* n may exceed the int range: compare as N *)
            let room = !isize - isum () in
            if N.leb n (n_of_int room) then begin
              let off = isum () in
              ideal_blocks := (off, int_of_n n) :: !ideal_blocks; ideal_last := off; string_of_int off
            end else "NULL" in
          (match op, args with
           | "malloc", [n] ->
               let n = n_of_string n in
               let (r, p') = sp_step !st (SMalloc n) in
               st := p';
               let ir = ideal_alloc n in
               Printf.printf "malloc %s%s ## malloc %s%s\n" (res_s r) (obs p') ir (iobs ())
           | "calloc", [c; n] ->
               let c = n_of_string c and n = n_of_string n in
               let (r, p') = sp_step !st (SCalloc (c, n)) in
               st := p';
               let z = match r with Some off -> (* a product beyond the buffer cannot be all zero inside it (and must not be enumerated) *)
                 let prod = N.mul c n in
                 if N.leb prod (lenN p'.sp_mem) && all_zero p'.sp_mem off prod then " zero=1" else " zero=0" | None -> "" in
               (* ideal: the mathematical product must fit *)
               let prod = N.mul c n in
               let ir = if N.leb prod big then ideal_alloc prod else "NULL" in
               Printf.printf "calloc %s%s%s ## calloc %s%s%s\n" (res_s r) z (obs p') ir (if ir = "NULL" then "" else " zero=1") (iobs ())
           | "free", [off] ->
               let o = n_of_string off in
               let (_, p') = sp_step !st (SFree o) in
               st := p';
               let oi = int_of_n o in
               if oi = !ideal_last then (match !ideal_blocks with (b, _) :: rest when b = oi -> ideal_blocks := rest | _ -> ());
               Printf.printf "free%s ## free%s\n" (obs p') (iobs ())
           | "reset", _ ->
               let (_, p') = sp_step !st SReset in
               st := p'; ideal_blocks := []; ideal_last := 0;
               Printf.printf "reset%s ## reset%s\n" (obs p') (iobs ())
           | "write", [v] ->
               (* dirty the most recent live block *)
               (match !st.sp_blocks with
                | (off, len) :: _ -> let (_, p') = sp_step !st (SWrite (off, len, n_of_string v)) in st := p'
                | [] -> ());
               Printf.printf "write%s ## write%s\n" (obs !st) (iobs ())
           | _ -> failwith ("bad op " ^ op))) lines
