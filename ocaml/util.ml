(* Glue shared by every engine driver: N <-> text, ledger and status printing, trace reading. *)
open Model

let rec pos_of_int64 (x : int64) : positive =
  if x = 1L then XH
  else
    let rest = Int64.shift_right_logical x 1 in
    if Int64.logand x 1L = 1L then XI (pos_of_int64 rest) else XO (pos_of_int64 rest)
let n_of_int64 x = if x = 0L then N0 else Npos (pos_of_int64 x)
let rec int64_of_pos = function
  | XH -> 1L
  | XO p -> Int64.shift_left (int64_of_pos p) 1
  | XI p -> Int64.logor (Int64.shift_left (int64_of_pos p) 1) 1L
let rec pos_bits = function XH -> 1 | XO p | XI p -> 1 + pos_bits p
let int64_of_n = function N0 -> 0L | Npos p -> int64_of_pos p
let n_of_int (i : int) = n_of_int64 (Int64.of_int i)
let int_of_n n = Int64.to_int (int64_of_n n)
(* decimal or 0x..., full unsigned 64-bit range *)
let n_of_string (s : string) : n =
  if String.length s > 2 && (String.sub s 0 2 = "0x" || String.sub s 0 2 = "0X") then n_of_int64 (Int64.of_string s)
  else n_of_int64 (Int64.of_string ("0u" ^ s))
let string_of_n (x : n) : string =
  match x with
  | Npos p when pos_bits p > 64 -> "BIG"
  | _ -> Printf.sprintf "%Lu" (int64_of_n x)

let stat_name (s : stat) = match s with
  | CC_OK -> "OK" | CC_ERR_ALLOC -> "ERR_ALLOC" | CC_ERR_INVALID_CAPACITY -> "ERR_INVALID_CAPACITY"
  | CC_ERR_INVALID_RANGE -> "ERR_INVALID_RANGE" | CC_ERR_MAX_CAPACITY -> "ERR_MAX_CAPACITY"
  | CC_ERR_KEY_NOT_FOUND -> "ERR_KEY_NOT_FOUND" | CC_ERR_VALUE_NOT_FOUND -> "ERR_VALUE_NOT_FOUND"
  | CC_ERR_OUT_OF_RANGE -> "ERR_OUT_OF_RANGE" | CC_ITER_END -> "ITER_END"

let fault_name = function
  | OutOfBounds -> "OutOfBounds" | Uninit -> "Uninit" | NullDeref -> "NullDeref" | Dangling -> "Dangling"
  | BadFree -> "BadFree" | DivZero -> "DivZero" | OutOfFuel -> "OutOfFuel" | Leak -> "Leak"

let ledger (a : alloc_st) : string =
  Printf.sprintf " L=%s,%s,%s" (string_of_n (count_tag Conf a)) (string_of_n (count_tag Libc a)) (string_of_n a.nreq)

let plan_of_string (s : string) : bool list =
  List.init (String.length s) (fun i -> s.[i] = '1')

let limit = n_of_int64 (Int64.shift_left 1L 40)

exception Crash of fault

let ok = function Ok a -> a | Fault f -> raise (Crash f)

let split_ws (s : string) : string list =
  List.filter (fun x -> x <> "") (String.split_on_char ' ' (String.trim s))

let read_lines () : string list =
  let rec go acc = match input_line stdin with
    | l -> go (l :: acc)
    | exception End_of_file -> List.rev acc in
  go []

(* group lines into traces starting at "T " lines *)
let traces (ls : string list) : string list list =
  let rec go cur acc = function
    | [] -> List.rev (match cur with [] -> acc | _ -> List.rev cur :: acc)
    | l :: r when String.length l >= 2 && String.sub l 0 2 = "T " ->
        go [l] (match cur with [] -> acc | _ -> List.rev cur :: acc) r
    | l :: r -> (match cur with [] -> go [] acc r | _ -> go (l :: cur) acc r) in
  go [] [] ls

let join_n (l : n list) = String.concat " " (List.map string_of_n l)

(* driver main: one "T id" line per trace, then one line per input line; a model Fault prints
   "CRASH model:<fault>" and the rest of the trace is skipped. *)
exception Model_timeout
let main (run : string list -> unit) =
  (* a changed generated definition can make the model diverge or build astronomically large values on some
     trace: bound every trace in time, like the harness does (alarm in the forked child) *)
  Sys.set_signal Sys.sigalrm (Sys.Signal_handle (fun _ -> raise Model_timeout));
  let timeouts = ref 0 in
  List.iter (fun tr ->
    (* generous: the longest legitimate thorough-tier traces take tens of seconds on a loaded machine (list-based
       model, one observation per line); after a few timed-out traces the remaining ones get a short limit *)
    ignore (Unix.alarm (if !timeouts < 3 then 600 else 5));
    (match split_ws (List.hd tr) with
     | _ :: id :: _ -> Printf.printf "T %s\n" id
     | _ -> ());
    (try run tr with
     | Crash f -> Printf.printf "\nCRASH model:%s\n" (fault_name f)
     | Model_timeout -> incr timeouts; Printf.printf "\nCRASH model:Timeout\n"
     | Out_of_memory -> Printf.printf "\nCRASH model:OutOfMemory\n"
     | Stack_overflow -> Printf.printf "\nCRASH model:StackOverflow\n");
    ignore (Unix.alarm 0);
    flush stdout) (traces (read_lines ()))
