(* Model-side interpreter of deque / queue traces (see harness/deque.c for the trace language).
   Per line: the model's observation and, after " ## ", what the ideal list gives.  The ideal list has no
   allocator and no capacity: a CC_ERR_ALLOC answer of the model is taken over as a stutter, and the
   capacity shown is the model's.  After a defective cc_deque_add_at branch the two parts differ: that
   is the known finding deque/add_at/ideal (iter_add, zip_add inherit it). *)
open Model
open Util

let n0 = N0
let n1 = n_of_int 1
let nlen l = n_of_int (List.length l)
let kv toks key =
  let k = key ^ "=" in
  let kl = String.length k in
  List.fold_left (fun acc t -> if acc = None && String.length t >= kl && String.sub t 0 kl = k
                   then Some (String.sub t kl (String.length t - kl)) else acc) None toks
let arg args i = try n_of_string (List.nth args i) with _ -> N0
let sp l = String.concat " " l
let ns l = sp (List.map string_of_n l)
let st_val s v = match v with Some v when s = CC_OK -> stat_name s ^ ":" ^ string_of_n v | _ -> stat_name s

(* ---------------------------------------------------------------- observations *)
let obs_deque d a =
  let n = int_of_n d.dq_size in
  let get o = match ok (dq_step d a o) with ((DOut (s, vs), _), _) -> (s, vs) in
  let at = List.init n (fun i -> match get (OGetAt (n_of_int i)) with
                                 | (CC_OK, [v]) -> string_of_n v | (s, _) -> "!" ^ stat_name s) in
  let (so, _) = get (OGetAt d.dq_size) in
  let ends o = match get o with (CC_OK, [v]) -> "OK:" ^ string_of_n v | (s, _) -> stat_name s in
  let rec iter it k acc = if k = 0 then List.rev acc else
    match ok (dq_iter_next d it) with
    | ((CC_OK, Some v), it') -> iter it' (k - 1) (v :: acc)
    | _ -> List.rev acc in
  Printf.sprintf "size=%d cap=%s at=[%s] oob=%s first=%s last=%s it=[%s]" n (string_of_n d.dq_cap) (sp at) (stat_name so)
    (ends OGetFirst) (ends OGetLast) (ns (iter dq_iter_init (n + 2) []))
let ideal_deque l cap =
  let first = match l with [] -> "ERR_OUT_OF_RANGE" | x :: _ -> "OK:" ^ string_of_n x in
  let last = match List.rev l with [] -> "ERR_OUT_OF_RANGE" | x :: _ -> "OK:" ^ string_of_n x in
  Printf.sprintf "size=%d cap=%s at=[%s] oob=ERR_OUT_OF_RANGE first=%s last=%s it=[%s]" (List.length l) (string_of_n cap) (ns l) first last (ns l)

let obs_queue q =
  let n = int_of_n (q_size q) in
  let (s, v) = ok (q_peek q) in
  let rec iter it k acc = if k = 0 then List.rev acc else
    match ok (q_iter_next q it) with
    | ((CC_OK, Some v), it') -> iter it' (k - 1) (v :: acc)
    | _ -> List.rev acc in
  Printf.sprintf "size=%d peek=%s it=[%s]" n (st_val s v) (ns (iter dq_iter_init (n + 2) []))
let ideal_queue l =
  let peek = match List.rev l with [] -> "ERR_OUT_OF_RANGE" | x :: _ -> "OK:" ^ string_of_n x in
  Printf.sprintf "size=%d peek=%s it=[%s]" (List.length l) peek (ns l)

(* ---------------------------------------------------------------- deque traces *)
let run_deque toks lines =
  let mem = if kv toks "mem" = Some "conf" then Conf else Libc in
  let capn = match kv toks "cap" with None | Some "default" -> dEQUE_DEFAULT_CAPACITY | Some c -> n_of_string c in
  let a = ref (alloc_init (plan_of_string (match kv toks "plan" with Some p -> p | None -> "")) limit) in
  let ((s, r), a') = ok (dq_new_conf mem capn !a) in
  a := a';
  match r with
  | None -> Printf.printf "new %s |%s ## new %s |\n" (stat_name s) (ledger !a) (stat_name s);
            List.iter (fun l -> match split_ws l with
                                | [] -> () | "END" :: _ -> Printf.printf "end |%s\n" (ledger !a) | _ -> print_string "skip\n") lines
  | Some d0 ->
    let d0, l0 = match kv toks "first", kv toks "size" with
      | Some f, Some n ->
          let c = int_of_n d0.dq_cap and f = int_of_n (n_of_string f) and n = int_of_n (n_of_string n) in
          let junk = kv toks "junk" = Some "1" in
          let slots = List.init c (fun j ->
            let i = (j - f + c) land (c - 1) in
            if i < n then Some (n_of_int (100 + i)) else if junk then Some (n_of_int (9000 + j)) else None) in
          ({ d0 with dq_first = n_of_int f; dq_size = n_of_int n; dq_last = n_of_int ((f + n) land (c - 1)); dq_slots = slots },
           List.init n (fun i -> n_of_int (100 + i)))
      | _ -> (d0, []) in
    let cur = ref d0 and oth = ref None and il = ref l0 and iol = ref None in
    let it = ref None and zit = ref None and iit = ref dq_iter_init and izit = ref dq_iter_init in
    let obs () =
      " | " ^ obs_deque !cur !a ^ (match !oth with Some o -> " || " ^ obs_deque o !a | None -> "") ^ ledger !a in
    let ideal () =
      " | " ^ ideal_deque !il !cur.dq_cap ^ (match !oth, !iol with Some o, Some l -> " || " ^ ideal_deque l o.dq_cap | _ -> "") in
    (* [tag]: set before a step that runs one of the cc_deque_add_at branches the model classifies as defective
       (known finding D17); printed as " @d17" on the model part so that the finding's signature names exactly
       those branches and a NEW defect of add_at in a sound branch is not mistaken for the known one *)
    let tag = ref "" in
    let emit m i = Printf.printf "%s%s%s ## %s%s\n" m (obs ()) (if !tag = "" then "" else " @" ^ !tag) i (ideal ()); tag := "" in
    let plain m = Printf.printf "%s%s\n" m (obs ()) in
    let same m = emit m m in
    let mark d idx = if N.ltb idx d.dq_size && not (add_at_branch_ok d idx) then tag := "d17" in
    emit ("new " ^ stat_name s) "new OK";
    let outs vs = String.concat "" (List.map (fun v -> " " ^ string_of_n v) vs) in
    let step op o fmt =
      let ((DOut (s, vs), d'), a') = ok (dq_step !cur !a o) in
      let (DOut (s2, vs2), l') = if s = CC_ERR_ALLOC then (DOut (CC_ERR_ALLOC, []), !il) else spec_step !il o in
      cur := d'; a := a'; il := l';
      emit (op ^ " " ^ stat_name s ^ fmt vs) (op ^ " " ^ stat_name s2 ^ fmt vs2) in
    let new_other op (s, r, a') ideal_l =
      a := a';
      (match r with
       | Some d2 when s = CC_OK ->
           (match !oth with Some o -> a := ok (dq_destroy o !a) | None -> ());
           oth := Some d2; zit := None; iol := Some (ideal_l ())
       | _ -> ());
      if s = CC_OK || s = CC_ERR_ALLOC then same (op ^ " " ^ stat_name s)
      else emit (op ^ " " ^ stat_name s) (op ^ " " ^ (if !il = [] then "ERR_OUT_OF_RANGE" else "OK")) in
    let mkpred args = let m = arg args 0 in let m = if m = N0 then n1 else m in let r = arg args 1 in
      fun v -> N.ltb (N.modulo v m) r in
    let pair = function Some (x, y) -> " " ^ string_of_n x ^ " " ^ string_of_n y | None -> "" in
    List.iter (fun line ->
      match split_ws line with
      | [] -> ()
      | "END" :: _ ->
          (match !oth with Some o -> a := ok (dq_destroy o !a); oth := None | None -> ());
          let (l, a') = ok (dq_destroy_cb !cur !a) in
          a := a';
          Printf.printf "end cb=[%s] |%s ## end cb=[%s] |\n" (ns l) (ledger !a) (ns !il)
      | op :: args ->
        (match op with
         | "add_first" -> step op (OAddFirst (arg args 0)) outs
         | "add_last" | "add" -> step op (OAddLast (arg args 0)) outs
         | "add_at" -> mark !cur (arg args 1); step op (OAddAt (arg args 0, arg args 1)) outs
         | "replace_at" -> step op (OReplaceAt (arg args 0, arg args 1)) outs
         | "remove" -> step op (ORemove (arg args 0)) outs
         | "remove_at" -> step op (ORemoveAt (arg args 0)) outs
         | "remove_first" -> step op ORemoveFirst outs
         | "remove_last" -> step op ORemoveLast outs
         | "remove_all" -> step op ORemoveAll outs
         | "get_at" -> step op (OGetAt (arg args 0)) outs
         | "get_first" -> step op OGetFirst outs
         | "get_last" -> step op OGetLast outs
         | "trim" -> step op OTrim outs
         | "reverse" -> step op OReverse outs
         | "contains" -> step op (OContains (arg args 0)) outs
         | "index_of" -> step op (OIndexOf (arg args 0)) outs
         | "filter_mut" -> step op (OFilterMut (mkpred args)) outs
         | "foreach" -> step op OForeach (fun vs -> " cb=[" ^ ns vs ^ "]")
         | "contains_value" ->
             let e = arg args 0 in
             let eq v w = N.eqb (N.modulo v (n_of_int 10)) (N.modulo w (n_of_int 10)) in
             let c = ok (dq_contains_value eq !cur e) in
             emit (op ^ " OK " ^ string_of_n c) (op ^ " OK " ^ string_of_int (List.length (List.filter (fun v -> eq v e) !il)))
         | "remove_all_cb" ->
             let (l, d') = ok (dq_remove_all_cb !cur) in
             cur := d';
             let m = op ^ " OK cb=[" ^ ns l ^ "]" and i = op ^ " OK cb=[" ^ ns !il ^ "]" in
             il := []; emit m i
         | "copy_shallow" -> let l = !il in new_other op (let ((s, r), a') = ok (dq_copy_shallow !cur !a) in (s, r, a')) (fun () -> l)
         | "copy_deep" -> let l = !il in
             new_other op (let ((s, r), a') = ok (dq_copy_deep !cur (fun v -> wadd v (n_of_int 1000)) !a) in (s, r, a'))
               (fun () -> List.map (fun v -> wadd v (n_of_int 1000)) l)
         | "filter" -> let l = !il and p = mkpred args in
             new_other op (let ((s, r), a') = ok (dq_filter !cur p !a) in (s, r, a')) (fun () -> List.filter p l)
         | "swap" ->
             (match !oth, !iol with
              | Some o, Some l -> let c = !cur and cl = !il in cur := o; oth := Some c; il := l; iol := Some cl;
                                  it := None; zit := None; same "swap OK"
              | _ -> same "swap NONE")
         | "drop" ->
             (match !oth with
              | Some o -> a := ok (dq_destroy o !a); oth := None; iol := None; zit := None; same "drop OK"
              | None -> same "drop NONE")
         | "iter_init" -> it := Some dq_iter_init; iit := dq_iter_init; same (op ^ " OK")
         | "iter_next" | "iter_remove" | "iter_add" | "iter_replace" | "iter_index" when !it = None -> same (op ^ " NOITER")
         | "iter_next" ->
             let i = (match !it with Some i -> i | None -> dq_iter_init) in
             let ((s, v), i') = ok (dq_iter_next !cur i) in
             let ((s2, v2), ii') = spec_iter_next !il !iit in
             it := Some i'; iit := ii';
             emit (op ^ " " ^ stat_name s ^ outs (match v with Some v -> [v] | None -> []))
                  (op ^ " " ^ stat_name s2 ^ outs (match v2 with Some v -> [v] | None -> []))
         | "iter_remove" ->
             let i = (match !it with Some i -> i | None -> dq_iter_init) in
             let (((s, v), d'), i') = ok (dq_iter_remove !cur i) in
             let (((s2, v2), l'), ii') = spec_iter_remove !il !iit in
             cur := d'; it := Some i'; il := l'; iit := ii';
             emit (op ^ " " ^ stat_name s ^ outs (match v with Some v -> [v] | None -> []))
                  (op ^ " " ^ stat_name s2 ^ outs (match v2 with Some v -> [v] | None -> []))
         | "iter_add" ->
             let i = (match !it with Some i -> i | None -> dq_iter_init) in
             mark !cur i.it_index;
             let (((s, d'), i'), a') = ok (dq_iter_add !cur i (arg args 0) !a) in
             let ((s2, l'), ii') = if s = CC_ERR_ALLOC then ((CC_ERR_ALLOC, !il), !iit) else spec_iter_add !il !iit (arg args 0) in
             cur := d'; it := Some i'; a := a'; il := l'; iit := ii';
             emit (op ^ " " ^ stat_name s) (op ^ " " ^ stat_name s2)
         | "iter_replace" ->
             let i = (match !it with Some i -> i | None -> dq_iter_init) in
             let ((s, v), d') = ok (dq_iter_replace !cur i (arg args 0)) in
             let ((s2, v2), l') = spec_iter_replace !il !iit (arg args 0) in
             cur := d'; il := l';
             emit (op ^ " " ^ stat_name s ^ outs (match v with Some v -> [v] | None -> []))
                  (op ^ " " ^ stat_name s2 ^ outs (match v2 with Some v -> [v] | None -> []))
         | "iter_index" ->
             let i = (match !it with Some i -> i | None -> dq_iter_init) in
             emit (op ^ " OK " ^ string_of_n (dq_iter_index i)) (op ^ " OK " ^ string_of_n (dq_iter_index !iit))
         | "zip_init" ->
             (match !oth with Some _ -> zit := Some dq_iter_init; izit := dq_iter_init; same (op ^ " OK") | None -> same (op ^ " NOZIP"))
         | "zip_next" | "zip_add" | "zip_remove" | "zip_replace" | "zip_index" when !zit = None || !oth = None -> same (op ^ " NOZIP")
         | "zip_next" | "zip_add" | "zip_remove" | "zip_replace" | "zip_index" ->
             let z = (match !zit with Some z -> z | None -> dq_iter_init) in
             let o = (match !oth with Some o -> o | None -> !cur) in
             let l2 = (match !iol with Some l -> l | None -> []) in
             let l1 = !il and iz = !izit in
             let idx = iz.it_index in
             let im1 = wsub idx n1 in
             let short i = N.leb (nlen l1) i || N.leb (nlen l2) i in
             (match op with
              | "zip_next" ->
                  let ((s, v), z') = ok (dq_zip_next !cur o z) in
                  zit := Some z';
                  let i = (match nthN l1 idx, nthN l2 idx with
                    | Some x, Some y -> izit := { it_index = wadd idx n1; it_last_removed = false };
                                        op ^ " OK " ^ string_of_n x ^ " " ^ string_of_n y
                    | _ -> op ^ " ITER_END") in
                  emit (op ^ " " ^ stat_name s ^ pair v) i
              | "zip_add" ->
                  let e1 = arg args 0 and e2 = arg args 1 in
                  mark !cur z.it_index; mark o z.it_index;
                  let ((((s, d1), d2), z'), a') = ok (dq_zip_add !cur o z e1 e2 !a) in
                  cur := d1; oth := Some d2; zit := Some z'; a := a';
                  let i = if short idx then op ^ " ERR_OUT_OF_RANGE"
                    else if s = CC_ERR_ALLOC then op ^ " ERR_ALLOC"
                    else (il := ins l1 idx e1; iol := Some (ins l2 idx e2);
                          izit := { iz with it_index = wadd idx n1 }; op ^ " OK") in
                  emit (op ^ " " ^ stat_name s) i
              | "zip_remove" ->
                  let ((((s, v), d1), d2), z') = ok (dq_zip_remove !cur o z) in
                  cur := d1; oth := Some d2; zit := Some z';
                  let i = if iz.it_last_removed then op ^ " ERR_VALUE_NOT_FOUND"
                    else if short im1 then op ^ " ERR_OUT_OF_RANGE"
                    else (let r = pair (match nthN l1 im1, nthN l2 im1 with Some x, Some y -> Some (x, y) | _ -> None) in
                          il := del l1 im1; iol := Some (del l2 im1);
                          izit := { it_index = im1; it_last_removed = true }; op ^ " OK" ^ r) in
                  emit (op ^ " " ^ stat_name s ^ pair v) i
              | "zip_replace" ->
                  let e1 = arg args 0 and e2 = arg args 1 in
                  let (((s, v), d1), d2) = ok (dq_zip_replace !cur o z e1 e2) in
                  cur := d1; oth := Some d2;
                  let i = if short im1 then op ^ " ERR_OUT_OF_RANGE"
                    else (let r = pair (match nthN l1 im1, nthN l2 im1 with Some x, Some y -> Some (x, y) | _ -> None) in
                          il := repl l1 im1 e1; iol := Some (repl l2 im1 e2); op ^ " OK" ^ r) in
                  emit (op ^ " " ^ stat_name s ^ pair v) i
              | _ -> emit (op ^ " OK " ^ string_of_n (dq_iter_index z)) (op ^ " OK " ^ string_of_n im1))
         | _ -> print_string "badop\n")) lines;
    ignore plain

(* ---------------------------------------------------------------- queue traces *)
let run_queue toks lines =
  let mem = if kv toks "mem" = Some "conf" then Conf else Libc in
  let capn = match kv toks "cap" with None | Some "default" -> dEQUE_DEFAULT_CAPACITY | Some c -> n_of_string c in
  let a = ref (alloc_init (plan_of_string (match kv toks "plan" with Some p -> p | None -> "")) limit) in
  let ((s, r), a') = ok (q_new_conf mem capn !a) in
  a := a';
  match r with
  | None -> Printf.printf "new %s |%s ## new %s |\n" (stat_name s) (ledger !a) (stat_name s);
            List.iter (fun l -> match split_ws l with
                                | [] -> () | "END" :: _ -> Printf.printf "end |%s\n" (ledger !a) | _ -> print_string "skip\n") lines
  | Some q0 ->
    let q1 = ref q0 and q2 = ref None and l1 = ref [] and l2 = ref [] in
    let qit = ref None and qzit = ref None and iit = ref dq_iter_init and izit = ref dq_iter_init in
    let obs () = " | " ^ obs_queue !q1 ^ (match !q2 with Some q -> " || " ^ obs_queue q | None -> "") ^ ledger !a in
    let ideal () = " | " ^ ideal_queue !l1 ^ (match !q2 with Some _ -> " || " ^ ideal_queue !l2 | None -> "") in
    let emit m i = Printf.printf "%s%s ## %s%s\n" m (obs ()) i (ideal ()) in
    let same m = emit m m in
    emit ("new " ^ stat_name s) "new OK";
    let ov = function Some v -> " " ^ string_of_n v | None -> "" in
    let pair = function Some (x, y) -> " " ^ string_of_n x ^ " " ^ string_of_n y | None -> "" in
    let ipoll l = match List.rev !l with [] -> "ERR_OUT_OF_RANGE" | x :: t -> l := List.rev t; "OK " ^ string_of_n x in
    List.iter (fun line ->
      match split_ws line with
      | [] -> ()
      | "END" :: _ ->
          (match !q2 with Some q -> a := ok (q_destroy q !a); q2 := None | None -> ());
          let (l, a') = ok (q_destroy_cb !q1 !a) in
          a := a';
          Printf.printf "end cb=[%s] |%s ## end cb=[%s] |\n" (ns l) (ledger !a) (ns !l1)
      | op :: args ->
        (match op with
         | "enqueue" ->
             let ((s, q), a') = ok (q_enqueue !q1 (arg args 0) !a) in
             q1 := q; a := a';
             if s = CC_OK then l1 := arg args 0 :: !l1;
             emit (op ^ " " ^ stat_name s) (op ^ " " ^ (if s = CC_ERR_ALLOC then "ERR_ALLOC" else "OK"))
         | "poll" ->
             let ((s, v), q) = ok (q_poll !q1) in
             q1 := q; emit (op ^ " " ^ stat_name s ^ ov v) (op ^ " " ^ ipoll l1)
         | "peek" ->
             let (s, v) = ok (q_peek !q1) in
             emit (op ^ " " ^ stat_name s ^ ov v)
                  (op ^ " " ^ (match List.rev !l1 with [] -> "ERR_OUT_OF_RANGE" | x :: _ -> "OK " ^ string_of_n x))
         | "foreach" -> let l = ok (q_foreach !q1) in emit (op ^ " OK cb=[" ^ ns l ^ "]") (op ^ " OK cb=[" ^ ns !l1 ^ "]")
         | "new2" ->
             (match !q2 with Some q -> a := ok (q_destroy q !a); q2 := None; qzit := None | None -> ());
             let ((s, r), a') = ok (q_new_conf mem (arg args 0) !a) in
             a := a'; q2 := r; l2 := [];
             same (op ^ " " ^ stat_name s)
         | "enqueue2" ->
             (match !q2 with
              | None -> same (op ^ " NONE")
              | Some q ->
                  let ((s, q), a') = ok (q_enqueue q (arg args 0) !a) in
                  q2 := Some q; a := a';
                  if s = CC_OK then l2 := arg args 0 :: !l2;
                  emit (op ^ " " ^ stat_name s) (op ^ " " ^ (if s = CC_ERR_ALLOC then "ERR_ALLOC" else "OK")))
         | "poll2" ->
             (match !q2 with
              | None -> same (op ^ " NONE")
              | Some q -> let ((s, v), q) = ok (q_poll q) in
                          q2 := Some q; emit (op ^ " " ^ stat_name s ^ ov v) (op ^ " " ^ ipoll l2))
         | "qiter_init" -> qit := Some dq_iter_init; iit := dq_iter_init; same (op ^ " OK")
         | "qiter_next" | "qiter_replace" when !qit = None -> same (op ^ " NOITER")
         | "qiter_next" ->
             let i = (match !qit with Some i -> i | None -> dq_iter_init) in
             let ((s, v), i') = ok (q_iter_next !q1 i) in
             let ((s2, v2), ii') = spec_iter_next !l1 !iit in
             qit := Some i'; iit := ii';
             emit (op ^ " " ^ stat_name s ^ ov v) (op ^ " " ^ stat_name s2 ^ ov v2)
         | "qiter_replace" ->
             let i = (match !qit with Some i -> i | None -> dq_iter_init) in
             let ((s, v), q) = ok (q_iter_replace !q1 i (arg args 0)) in
             let ((s2, v2), l') = spec_iter_replace !l1 !iit (arg args 0) in
             q1 := q; l1 := l';
             emit (op ^ " " ^ stat_name s ^ ov v) (op ^ " " ^ stat_name s2 ^ ov v2)
         | "qzip_init" ->
             (match !q2 with Some _ -> qzit := Some dq_iter_init; izit := dq_iter_init; same (op ^ " OK") | None -> same (op ^ " NOZIP"))
         | "qzip_next" | "qzip_replace" when !qzit = None || !q2 = None -> same (op ^ " NOZIP")
         | "qzip_next" ->
             let z = (match !qzit with Some z -> z | None -> dq_iter_init) in
             let o = (match !q2 with Some o -> o | None -> !q1) in
             let ((s, v), z') = ok (q_zip_next !q1 o z) in
             qzit := Some z';
             let idx = !izit.it_index in
             let i = (match nthN !l1 idx, nthN !l2 idx with
               | Some x, Some y -> izit := { it_index = wadd idx n1; it_last_removed = false };
                                   op ^ " OK " ^ string_of_n x ^ " " ^ string_of_n y
               | _ -> op ^ " ITER_END") in
             emit (op ^ " " ^ stat_name s ^ pair v) i
         | "qzip_replace" ->
             let z = (match !qzit with Some z -> z | None -> dq_iter_init) in
             let o = (match !q2 with Some o -> o | None -> !q1) in
             let e1 = arg args 0 and e2 = arg args 1 in
             let (((s, v), qa), qb) = ok (q_zip_replace !q1 o z e1 e2) in
             q1 := qa; q2 := Some qb;
             let im1 = wsub !izit.it_index n1 in
             let i = if N.leb (nlen !l1) im1 || N.leb (nlen !l2) im1 then op ^ " ERR_OUT_OF_RANGE"
               else (let r = pair (match nthN !l1 im1, nthN !l2 im1 with Some x, Some y -> Some (x, y) | _ -> None) in
                     l1 := repl !l1 im1 e1; l2 := repl !l2 im1 e2; op ^ " OK" ^ r) in
             emit (op ^ " " ^ stat_name s ^ pair v) i
         | _ -> print_string "badop\n")) lines

let run (lines : string list) =
  match lines with
  | [] -> ()
  | hdr :: rest ->
      let toks = split_ws hdr in
      if kv toks "kind" = Some "queue" then run_queue toks rest else run_deque toks rest
