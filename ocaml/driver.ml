(* driver <engine> < traces > observations. One "T id" line per trace, then one line per input
   line; a model Fault prints "CRASH <fault>" and skips the rest of the trace. *)
open Util

let engines : (string * (string list -> unit)) list = [
  ("rbuf", D_rbuf.run);
]

let () =
  let eng = Sys.argv.(1) in
  let run = List.assoc eng engines in
  List.iter (fun tr ->
    (match split_ws (List.hd tr) with
     | _ :: id :: _ -> Printf.printf "T %s\n" id
     | _ -> ());
    (try run tr with
     | Crash f -> Printf.printf "\nCRASH model:%s\n" (fault_name f)
     | Stack_overflow -> Printf.printf "\nCRASH model:StackOverflow\n");
    flush stdout) (traces (read_lines ()))
