(* Model-side interpreter of hashtable / hashset traces. Prints, per line, the model observation and,
   after " ## ", the observation of the ideal map / set. Every enumeration is sorted before printing.
   The hash function is an oracle chosen by the header: exact for const0 / mod4 / id, a stand-in
   (the canonical key number) for the library's own hash functions - only order-independent
   observations are printed, and capacity / threshold do not depend on the hash. *)
open Model
open Util

type state = Tbl of htable | Set of hset | Nothing

let ucmp (a : n) (b : n) = Int64.unsigned_compare (int64_of_n a) (int64_of_n b)
let sort_words l = List.sort ucmp l
let sort_pairs l = List.sort (fun (k1, v1) (k2, v2) -> let c = ucmp k1 k2 in if c <> 0 then c else ucmp v1 v2) l
let words l = "[" ^ join_n (sort_words l) ^ "]"
let pairs is_set l =
  "[" ^ String.concat " " (List.map (fun (k, v) -> if is_set then string_of_n k else string_of_n k ^ ":" ^ string_of_n v) (sort_pairs l)) ^ "]"

let opt tok name =
  let p = name ^ "=" in
  let n = String.length p in
  List.fold_left (fun acc w -> if acc = None && String.length w >= n && String.sub w 0 n = p
                               then Some (String.sub w n (String.length w - n)) else acc) None tok
let nlist s = if s = "-" || s = "" then [] else List.map n_of_string (String.split_on_char ',' s)

let run (lines : string list) =
  let st = ref Nothing and a = ref (alloc_init [] limit) in
  let spec_m : amap ref = ref [] and spec_s : n list ref = ref [] in
  let is_set = ref false and pool = ref [] in
  let hash = ref (fun (k : n) -> k) and keq = ref (fun (x : n) (y : n) -> x = y) in
  let table () = match !st with Tbl t -> t | Set s -> s.hs_table | Nothing -> failwith "no table" in
  let obs () =
    let t = table () in
    let (((ys, _), _), _) = ok (ht_iter_all !hash !keq t [] !a) in
    let gets = List.map (fun k ->
      let (s, v) = ok (ht_get !hash !keq t k) in
      let c = ok (ht_contains_key !hash !keq t k) in
      if c <> (s = CC_OK) then "!contains-disagrees-with-get"
      else if !is_set then (if c then "1" else "0")
      else match v with Some v -> string_of_n v | None -> "-") !pool in
    Printf.sprintf " | size=%s it=%s get=[%s]%s #cap=%s thr=%s" (string_of_n t.ht_size) (pairs !is_set ys)
      (String.concat " " gets) (ledger !a) (string_of_n t.ht_cap) (string_of_n t.ht_thr) in
  let ideal () =
    if !is_set then
      Printf.sprintf " | size=%d it=%s get=[%s]" (List.length !spec_s) (pairs true (List.map (fun k -> (k, n_of_int 1)) !spec_s))
        (String.concat " " (List.map (fun k -> if set_mem !keq !spec_s k then "1" else "0") !pool))
    else
      Printf.sprintf " | size=%d it=%s get=[%s]" (List.length !spec_m) (pairs false !spec_m)
        (String.concat " " (List.map (fun k -> match m_get !keq !spec_m k with Some v -> string_of_n v | None -> "-") !pool)) in
  List.iteri (fun i line ->
    let tok = split_ws line in
    if i = 0 then begin
      let kind = List.nth tok 3 in
      is_set := (kind = "set");
      let dflt = List.mem "default" tok in
      let get name d = if dflt then d else match opt tok name with Some v -> v | None -> d in
      let keys = get "keys" "str" and hk = get "hash" "string" in
      (* defaults are the source's own (cc_hashtable_conf_init), through the translated constants *)
      let cap = (match (if dflt then None else opt tok "cap") with Some v -> n_of_string v | None -> hASHTABLE_DEFAULT_CAPACITY) in
      let (num, den) = (match (if dflt then None else opt tok "lf") with
        | Some v -> (match String.split_on_char '/' v with [x; y] -> (n_of_string x, n_of_string y) | _ -> failwith "bad lf")
        | None -> (hASHTABLE_DEFAULT_LOAD_FACTOR_num, hASHTABLE_DEFAULT_LOAD_FACTOR_den)) in
      let seed = n_of_string (get "seed" "0") in
      let tg = if get "mem" "libc" = "conf" then Conf else Libc in
      pool := (match opt tok "pool" with Some p -> nlist p | None -> []);
      let canon (w : n) : int64 = let x = int64_of_n w in if keys = "ptr" then x else Int64.unsigned_rem x 1000L in
      keq := (fun x y -> canon x = canon y);
      hash := (match hk with
        | "const0" -> (fun _ -> N0)
        | "mod4" -> (fun k -> n_of_int64 (Int64.unsigned_rem (canon k) 4L))
        | _ -> (fun k -> n_of_int64 (canon k)));
      a := alloc_init (plan_of_string (match opt tok "plan" with Some p -> p | None -> "")) limit;
      spec_m := []; spec_s := [];
      if !is_set then begin
        let ((s, r), a') = ok (hs_new tg cap num den seed !a) in
        a := a';
        match r with
        | Some h -> st := Set h; Printf.printf "new %s%s ## new OK%s\n" (stat_name s) (obs ()) (ideal ())
        | None -> st := Nothing; Printf.printf "new %s |%s ## new %s |\n" (stat_name s) (ledger !a) (stat_name s)
      end else begin
        let ((s, r), a') = ok (ht_new tg cap num den seed !a) in
        a := a';
        match r with
        | Some t -> st := Tbl t; Printf.printf "new %s%s ## new OK%s\n" (stat_name s) (obs ()) (ideal ())
        | None -> st := Nothing; Printf.printf "new %s |%s ## new %s |\n" (stat_name s) (ledger !a) (stat_name s)
      end
    end else
      match tok, !st with
      | [], _ -> ()
      | "END" :: _, Nothing -> Printf.printf "end |%s\n" (ledger !a)
      | "END" :: _, Tbl t -> a := ok (ht_destroy t !a); st := Nothing; Printf.printf "end |%s ## end |\n" (ledger !a)
      | "END" :: _, Set s -> a := ok (hs_destroy s !a); st := Nothing; Printf.printf "end |%s ## end |\n" (ledger !a)
      | _, Nothing -> print_string "skip\n"
      | op :: args, _ ->
          let arg j = match List.nth_opt args j with Some x -> n_of_string x | None -> N0 in
          let rmlist () = match args with x :: _ -> nlist x | [] -> [] in
          (* the table-level operation, the set-level operation *)
          let top = (match op with
            | "add" -> Some (HAdd (arg 0, arg 1), SAdd (arg 0))
            | "get" when not !is_set -> Some (HGet (arg 0), SSize)
            | "contains" -> Some (HContains (arg 0), SContains (arg 0))
            | "remove" -> Some (HRemove (arg 0), SRemove (arg 0))
            | "remove_all" -> Some (HRemoveAll, SRemoveAll)
            | "size" -> Some (HSize, SSize)
            | "get_keys" when not !is_set -> Some (HGetKeys, SSize)
            | "get_values" when not !is_set -> Some (HGetValues, SSize)
            | "foreach_key" when not !is_set -> Some (HForeachKey, SSize)
            | "foreach" when !is_set -> Some (HForeachKey, SForeach)
            | "foreach_value" when not !is_set -> Some (HForeachValue, SSize)
            | "iter" -> Some (HIterAll (rmlist ()), SIterAll (rmlist ()))
            | _ -> None) in
          match top with
          | None -> print_string "badop\n"
          | Some (hop, sop) ->
              let show (o : ht_out) =
                let vals = String.concat "" (List.map (fun v -> " " ^ string_of_n v) o.o_vals) in
                let body = (match op with
                  | "get_keys" | "get_values" | "foreach_key" | "foreach_value" | "foreach" ->
                      if o.o_st = CC_OK then " " ^ words o.o_enum else ""
                  | "iter" ->
                      Printf.sprintf " %s removed=%d/%d" (pairs !is_set o.o_pairs)
                        (List.length (List.filter (fun s -> s = CC_OK) o.o_sts)) (List.length o.o_sts)
                  | _ -> vals) in
                Printf.sprintf "%s %s%s" op (stat_name o.o_st) body in
              let (mout, failed) = (match !st with
                | Tbl t ->
                    let ((o, t'), a') = ok (ht_step !hash !keq t hop !a) in
                    st := Tbl t'; a := a'; (o, o.o_st = CC_ERR_ALLOC || o.o_st = CC_ERR_MAX_CAPACITY || o.o_st = CC_ERR_INVALID_CAPACITY)
                | Set s ->
                    let ((o, s'), a') = ok (hs_step !hash !keq s sop !a) in
                    st := Set s'; a := a'; (o, o.o_st = CC_ERR_ALLOC || o.o_st = CC_ERR_MAX_CAPACITY)
                | Nothing -> failwith "unreachable") in
              (* the ideal object has no allocator: on an allocation failure it keeps its state and
                 repeats the reported status *)
              let iout =
                if failed then out_st mout.o_st
                else if !is_set then (let (o, l') = spec_set_step !keq !spec_s sop in spec_s := l'; o)
                else (let (o, m') = spec_step !keq !spec_m hop in spec_m := m'; o) in
              Printf.printf "%s%s ## %s%s\n" (show mout) (obs ()) (show iout) (ideal ())) lines
