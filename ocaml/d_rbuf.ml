(* Model-side interpreter of rbuf traces. Prints, per line, the model observation and, after
   " ## ", the ideal bounded-FIFO observation. *)
open Model
open Util

let contents r = "[" ^ String.concat " " (List.map (function Some v -> string_of_n v | None -> "?") (rb_contents r)) ^ "]"
let obs r a = Printf.sprintf " | size=%s empty=%d %s%s" (string_of_n r.rb_size) (if r.rb_size = N0 then 1 else 0) (contents r) (ledger a)
let ideal l = Printf.sprintf " | size=%d empty=%d [%s]" (List.length l) (if l = [] then 1 else 0) (join_n l)

let run (lines : string list) =
  let st = ref None and a = ref (alloc_init [] limit) and spec = ref [] and cap = ref N0 in
  List.iteri (fun i line ->
    let tok = split_ws line in
    if i = 0 then begin
      match tok with
      | _ :: _ :: _ :: c :: mem :: rest ->
          let capn = if c = "default" then dEFAULT_CC_RBUF_CAPACITY else n_of_string c in
          let tg = if mem = "conf" then Conf else Libc in
          a := alloc_init (plan_of_string (match rest with p :: _ -> p | [] -> "")) limit;
          let ((s, r), a') = ok (rb_new tg capn !a) in
          a := a'; st := r; cap := capn; spec := [];
          (match r with
           | Some r -> Printf.printf "new %s%s ## new OK%s\n" (stat_name s) (obs r !a) (ideal [])
           | None -> Printf.printf "new %s |%s ## new %s |\n" (stat_name s) (ledger !a) (stat_name s))
      | _ -> failwith "bad header"
    end else
      match tok, !st with
      | [], _ -> ()
      | "END" :: _, None -> Printf.printf "end |%s\n" (ledger !a)
      | "END" :: _, Some r ->
          (* drain through dequeue, then destroy *)
          let rec drain r acc = match ok (rb_step r RDeq) with
            | (ROut (CC_OK, Some v), r') -> drain r' (v :: acc)
            | (_, r') -> (List.rev acc, r') in
          let (items, r') = drain r [] in
          a := ok (rb_destroy r' !a); st := None;
          Printf.printf "end drain=[%s] |%s ## end drain=[%s] |\n" (join_n items) (ledger !a) (join_n !spec)
      | _, None -> print_string "skip\n"
      | op :: args, Some r ->
          let o = (match op, args with
            | "enq", x :: _ -> REnq (n_of_string x)
            | "deq", _ -> RDeq
            | _ -> failwith ("bad op " ^ op)) in
          let (ROut (s, v), r') = ok (rb_step r o) in
          let (ROut (s2, v2), l') = spec_step !cap !spec o in
          st := Some r'; spec := l';
          let pv = function Some v -> " " ^ string_of_n v | None -> "" in
          Printf.printf "%s %s%s%s ## %s %s%s%s\n" op (stat_name s) (pv v) (obs r' !a)
            op (stat_name s2) (pv v2) (ideal l')) lines
