(* Model-side interpreter of dynamic pool traces. The ideal part repeats the model's accounting (proved
   in DPoolProofs) with ok=1 and omits the pointer placement, which the property does not mandate. *)
open Model
open Util

let kv s = match String.index_opt s '=' with
  | Some i -> (String.sub s 0 i, String.sub s (i + 1) (String.length s - i - 1))
  | None -> (s, "")

let run (lines : string list) =
  let st = ref None and a = ref (alloc_init [] limit) in
  let obs p = Printf.sprintf " | used=%s free=%s pages=%d ok=1" (string_of_n (dp_used p)) (string_of_n (dp_free_bytes p)) (List.length p.dp_pages) in
  let page_index p id =
    (* index from the oldest *)
    let rec go i = function [] -> -1 | (pid, _) :: r -> if pid = id then List.length r else go (i + 1) r in
    go 0 p.dp_pages in
  let page_id p k =
    let n = List.length p.dp_pages in
    if k >= n then None else Some (fst (List.nth p.dp_pages (n - 1 - k))) in
  let page_size p k = let n = List.length p.dp_pages in snd (List.nth p.dp_pages (n - 1 - k)) in
  List.iteri (fun i line ->
    let tok = split_ws line in
    if i = 0 then begin
      let cfg = List.map kv (List.tl (List.tl (List.tl tok))) in
      let get k d = try List.assoc k cfg with Not_found -> d in
      let size = n_of_string (get "size" "16") in
      let dflt = List.mem_assoc "default" cfg in
      let fixed = if dflt then true else get "fixed" "1" <> "0" in
      let packed = if dflt then true else get "packed" "1" <> "0" in
      let (num, den) = if dflt then (1, 1) else Scanf.sscanf (get "ef" "1/1") "%d/%d" (fun x y -> (x, y)) in
      let boundary = if dflt then n_of_int 1 else n_of_string (get "boundary" "1") in
      let tg = if get "mem" "libc" = "conf" && not dflt then Conf else Libc in
      a := alloc_init (plan_of_string (get "plan" "")) limit;
      let ((s, p), a') = dp_new tg fixed packed (n_of_int num) (n_of_int den) boundary size !a in
      a := a'; st := p;
      (match p with
       | Some p -> Printf.printf "new %s%s%s ## new OK%s\n" (stat_name s) (obs p) (ledger !a) (obs p)
       | None -> Printf.printf "new %s |%s ## new %s |\n" (stat_name s) (ledger !a) (stat_name s))
    end else
      match tok, !st with
      | [], _ -> ()
      | "END" :: _, None -> Printf.printf "end |%s\n" (ledger !a)
      | "END" :: _, Some p -> a := ok (dp_destroy p !a); st := None; Printf.printf "end |%s ## end |\n" (ledger !a)
      | _, None -> print_string "skip\n"
      | op :: args, Some p ->
          let finish name extra (r, p', a') =
            a := a'; st := Some p';
            let rs = match r with Some _ -> "OK" ^ extra | None -> "NULL" in
            let tail = match r with Some (pg, off) -> Printf.sprintf " #P=p%d+%s" (page_index p' pg) (string_of_n off) | None -> "" in
            Printf.printf "%s %s%s%s%s ## %s %s%s\n" name rs (obs p') (ledger !a) tail name rs (obs p') in
          (match op, args with
           | "malloc", [n] -> (match ok (dp_step p (DMalloc (n_of_string n)) !a) with ((r, p'), a') -> finish "malloc" "" (r, p', a'))
           | "calloc", [c; n] -> (match ok (dp_step p (DCalloc (n_of_string c, n_of_string n)) !a) with ((r, p'), a') -> finish "calloc" " zero=1" (r, p', a'))
           | "free", [k; off] ->
               let k = int_of_string k and off = n_of_string off in
               (match page_id p k with
                | Some id when N.leb off (page_size p k) ->
                    (match ok (dp_step p (DFree (id, off)) !a) with ((_, p'), a') ->
                      a := a'; st := Some p'; Printf.printf "free%s%s ## free%s\n" (obs p') (ledger !a) (obs p'))
                | _ -> Printf.printf "free skip%s%s ## free skip%s\n" (obs p) (ledger !a) (obs p))
           | "fill", _ -> Printf.printf "fill%s%s ## fill%s\n" (obs p) (ledger !a) (obs p)
           | "reset", _ ->
               (match ok (dp_step p DReset !a) with ((_, p'), a') ->
                 a := a'; st := Some p'; Printf.printf "reset%s%s ## reset%s\n" (obs p') (ledger !a) (obs p'))
           | _ -> failwith ("bad op " ^ op))) lines
