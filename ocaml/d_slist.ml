(* Model-side interpreter of slist traces (two handles a, b). Prints, per line, the model
   observation and, after " ## ", what the ideal pair of sequences gives. *)
open Model
open Util

let cap = 64
let br l = "[" ^ join_n l ^ "]"
let rec take k = function [] -> [] | x :: t -> if k <= 0 then [] else x :: take (k - 1) t

(* ---- model observation through the model's public functions *)
let obs_list name = function
  | None -> Printf.sprintf " %s:-" name
  | Some l ->
    let n = sl_get_size l in
    let cnt = if N.ltb n (n_of_int cap) then int_of_n n else cap in
    let at = List.init cnt (fun i -> match ok (sl_get_at l (n_of_int i)) with
      | (CC_OK, v) -> string_of_n v | (s, _) -> "!" ^ stat_name s) in
    let walk init next =
      let rec go it k acc = if k >= 4 * cap then List.rev acc else
        match ok (next l it) with
        | ((CC_OK, v), it') -> go it' (k + 1) (v :: acc)
        | _ -> List.rev acc in
      go (init l) 0 [] in
    let e1 = function (CC_OK, v) -> string_of_n v | (s, _) -> "!" ^ stat_name s in
    Printf.sprintf " %s:size=%s [%s] it=%s first=%s last=%s" name (string_of_n n) (String.concat " " at)
      (br (walk siter_init siter_next)) (e1 (ok (sl_get_first l))) (e1 (ok (sl_get_last l)))

let ideal_list name dead l =
  if dead then Printf.sprintf " %s:-" name else
  let e = function [] -> "!ERR_VALUE_NOT_FOUND" | x :: _ -> string_of_n x in
  Printf.sprintf " %s:size=%d %s it=%s first=%s last=%s" name (List.length l) (br (take cap l)) (br l)
    (e l) (e (List.rev l))

(* ---- ideal cursors for the iterator programs *)
let rec ins k x l = if k <= 0 then x :: l else match l with [] -> [x] | y :: t -> y :: ins (k - 1) x t
let rec del k l = match l with [] -> [] | y :: t -> if k <= 0 then t else y :: del (k - 1) t
let rec rep k x l = match l with [] -> [] | y :: t -> if k <= 0 then x :: t else y :: rep (k - 1) x t
let idx_str k = if k < 0 then "18446744073709551615" else string_of_int k

let tok_num s = n_of_string (String.sub s 1 (String.length s - 1))
let tok_pair s =
  let c = String.index s ':' in
  (n_of_string (String.sub s 1 (c - 1)), n_of_string (String.sub s (c + 1) (String.length s - c - 1)))

(* forward iterator program on the model; returns tokens, list, ledger, alloc failures per add *)
let run_iter l a toks =
  let it = ref (siter_init l) and l = ref l and a = ref a and out = ref [] and fails = ref [] in
  List.iter (fun t ->
    let r = match t.[0] with
      | 'n' -> (match ok (siter_next !l !it) with
                | ((CC_OK, v), it') -> it := it'; "n=" ^ string_of_n v
                | ((s, _), it') -> it := it'; "n=" ^ stat_name s)
      | 'r' -> (match ok (siter_remove !l !it !a) with
                | ((((CC_OK, v), l'), it'), a') -> l := l'; it := it'; a := a'; "r=" ^ string_of_n v
                | ((((s, _), l'), it'), a') -> l := l'; it := it'; a := a'; "r=" ^ stat_name s)
      | 'a' -> (match ok (siter_add !l !it (tok_num t) !a) with
                | (((s, l'), it'), a') -> l := l'; it := it'; a := a'; fails := (s = CC_ERR_ALLOC) :: !fails; "a=" ^ stat_name s)
      | 'p' -> (match ok (siter_replace !l !it (tok_num t)) with
                | ((CC_OK, v), l') -> l := l'; "p=" ^ string_of_n v
                | ((s, _), l') -> l := l'; "p=" ^ stat_name s)
      | 'i' -> "i=" ^ string_of_n (siter_index !it)
      | _ -> "?" in
    out := r :: !out) toks;
  (List.rev !out, !l, !a, List.rev !fails)

(* the ideal cursor (documented semantics): pos = index of the element the next call yields,
   last = index of the element last returned by next while it is still there; add inserts right behind it
   and leaves it the current element (replace / remove keep acting on it) *)
let ideal_iter l toks fails =
  let l = ref l and pos = ref 0 and last = ref None and out = ref [] and fails = ref fails in
  List.iter (fun t ->
    let r = match t.[0] with
      | 'n' -> if !pos < List.length !l then (last := Some !pos; incr pos; "n=" ^ string_of_n (List.nth !l (!pos - 1))) else "n=ITER_END"
      | 'r' -> (match !last with
                | Some k -> let v = List.nth !l k in l := del k !l; last := None; decr pos; "r=" ^ string_of_n v
                | None -> "r=ERR_VALUE_NOT_FOUND")
      | 'a' -> let f = (match !fails with f :: r -> fails := r; f | [] -> false) in
               if f then "a=ERR_ALLOC" else
               (match !last with
                | Some k -> l := ins (k + 1) (tok_num t) !l; incr pos; "a=OK"
                | None -> "a=?")
      | 'p' -> (match !last with
                | Some k -> let v = List.nth !l k in l := rep k (tok_num t) !l; "p=" ^ string_of_n v
                | None -> "p=ERR_VALUE_NOT_FOUND")
      | 'i' -> "i=" ^ idx_str (!pos - 1)
      | _ -> "?" in
    out := r :: !out) toks;
  (List.rev !out, !l)

let run_zip l1 l2 a toks =
  let z = ref (szip_init l1 l2) and l1 = ref l1 and l2 = ref l2 and a = ref a and out = ref [] and fails = ref [] in
  List.iter (fun t ->
    let r = match t.[0] with
      | 'n' -> (match ok (szip_next !l1 !l2 !z) with
                | (((CC_OK, v1), v2), z') -> z := z'; "n=" ^ string_of_n v1 ^ ":" ^ string_of_n v2
                | (((s, _), _), z') -> z := z'; "n=" ^ stat_name s)
      | 'r' -> (match ok (szip_remove !l1 !l2 !z !a) with
                | ((((((s, v1), v2), l1'), l2'), z'), a') -> l1 := l1'; l2 := l2'; z := z'; a := a';
                    if s = CC_OK then "r=" ^ string_of_n v1 ^ ":" ^ string_of_n v2 else "r=" ^ stat_name s)
      | 'a' -> let (x, y) = tok_pair t in
               (match ok (szip_add !l1 !l2 !z x y !a) with
                | ((((s, l1'), l2'), z'), a') -> l1 := l1'; l2 := l2'; z := z'; a := a'; fails := (s = CC_ERR_ALLOC) :: !fails; "a=" ^ stat_name s)
      | 'p' -> let (x, y) = tok_pair t in
               (match ok (szip_replace !l1 !l2 !z x y) with
                | ((((s, v1), v2), l1'), l2') -> l1 := l1'; l2 := l2';
                    if s = CC_OK then "p=" ^ string_of_n v1 ^ ":" ^ string_of_n v2 else "p=" ^ stat_name s)
      | 'i' -> "i=" ^ string_of_n (szip_index !z)
      | _ -> "?" in
    out := r :: !out) toks;
  (List.rev !out, !l1, !l2, !a, List.rev !fails)

let ideal_zip l1 l2 toks fails =
  let l1 = ref l1 and l2 = ref l2 and pos = ref 0 and last = ref None and out = ref [] and fails = ref fails in
  List.iter (fun t ->
    let r = match t.[0] with
      | 'n' -> if !pos < List.length !l1 && !pos < List.length !l2 then
                 (last := Some !pos; incr pos; "n=" ^ string_of_n (List.nth !l1 (!pos - 1)) ^ ":" ^ string_of_n (List.nth !l2 (!pos - 1)))
               else "n=ITER_END"
      | 'r' -> (match !last with
                | Some k -> let v1 = List.nth !l1 k and v2 = List.nth !l2 k in
                    l1 := del k !l1; l2 := del k !l2; last := None; decr pos; "r=" ^ string_of_n v1 ^ ":" ^ string_of_n v2
                | None -> "r=ERR_VALUE_NOT_FOUND")
      | 'a' -> let f = (match !fails with f :: r -> fails := r; f | [] -> false) in
               if f then "a=ERR_ALLOC" else
               (match !last with
                | Some k -> let (x, y) = tok_pair t in l1 := ins (k + 1) x !l1; l2 := ins (k + 1) y !l2; incr pos; "a=OK"
                | None -> "a=?")
      | 'p' -> (match !last with
                | Some k -> let (x, y) = tok_pair t in let v1 = List.nth !l1 k and v2 = List.nth !l2 k in
                    l1 := rep k x !l1; l2 := rep k y !l2; "p=" ^ string_of_n v1 ^ ":" ^ string_of_n v2
                | None -> "p=ERR_VALUE_NOT_FOUND")
      | 'i' -> "i=" ^ idx_str (!pos - 1)
      | _ -> "?" in
    out := r :: !out) toks;
  (List.rev !out, !l1, !l2)

let run (lines : string list) =
  let la = ref None and lb = ref None and a = ref (alloc_init [] limit) and ia = ref [] and ib = ref [] and dead = ref false in
  let obs () = " |" ^ obs_list "A" !la ^ obs_list "B" !lb ^ ledger !a in
  let iobs () = " |" ^ ideal_list "A" (!la = None) !ia ^ ideal_list "B" (!lb = None) !ib in
  List.iteri (fun i line ->
    let tok = split_ws line in
    if i = 0 then begin
      match tok with
      | _ :: _ :: _ :: ma :: mb :: rest ->
          let plan = List.fold_left (fun acc w -> if String.length w > 5 && String.sub w 0 5 = "plan=" then String.sub w 5 (String.length w - 5) else acc) "" rest in
          a := alloc_init (plan_of_string plan) limit;
          let mk m = let ((s, l), a') = sl_new (if m = "conf" then Conf else Libc) !a in a := a'; (s, l) in
          let (sa, l1) = mk ma in let (sb, l2) = mk mb in
          la := l1; lb := l2; dead := (l1 = None || l2 = None);
          Printf.printf "new %s %s%s ## %s\n" (stat_name sa) (stat_name sb) (obs ())
            (if !dead then "~" else "new OK OK" ^ iobs ())
      | _ -> failwith "bad header"
    end else
      match tok with
      | [] -> ()
      | "END" :: _ ->
          (match !la with Some l -> a := ok (sl_destroy l !a) | None -> ());
          let log = (match !lb with Some l -> let (a', log) = ok (sl_destroy_cb l !a) in a := a'; log | None -> []) in
          Printf.printf "end %s |%s ## end %s |\n" (br log) (ledger !a) (br (if !lb = None then [] else !ib));
          la := None; lb := None
      | "plan" :: rest ->
          let p = (match rest with p :: _ -> p | [] -> "") in
          let al = !a in
          a := { plan = plan_of_string p; limit = al.limit; next_id = al.next_id; live = al.live; nreq = al.nreq };
          Printf.printf "plan%s ## plan%s\n" (obs ()) (iobs ())
      | _ when !dead -> print_string "skip\n"
      | h :: op :: args ->
          let hd = if h = "b" then SHB else SHA in
          let get () = (match (if hd = SHA then !la else !lb) with Some l -> l | None -> failwith "no list") in
          let oth () = (match (if hd = SHA then !lb else !la) with Some l -> l | None -> failwith "no list") in
          let set l = if hd = SHA then la := Some l else lb := Some l in
          let seto l = if hd = SHA then lb := Some l else la := Some l in
          let iget () = if hd = SHA then !ia else !ib in
          let iset l = if hd = SHA then ia := l else ib := l in
          let iseto l = if hd = SHA then ib := l else ia := l in
          let ioth () = if hd = SHA then !ib else !ia in
          let arg k = n_of_string (List.nth args k) in
          let key = (args <> [] && List.nth args (List.length args - 1) = "key") in
          let cmp = if key then cmp_key else cmp_val in
          let stepop o fmt =
            let w = { swa = (match !la with Some l -> l | None -> failwith "no list"); swb = (match !lb with Some l -> l | None -> failwith "no list"); swal = !a } in
            let (SOut (s, vals), w') = ok (sl_step cmp pred_even w hd o) in
            la := Some w'.swa; lb := Some w'.swb; a := w'.swal;
            let (SOut (s2, vals2), (p1, p2)) = sspec_step cmp pred_even (!ia, !ib) hd o (s = CC_ERR_ALLOC) in
            ia := p1; ib := p2;
            Printf.printf "%s %s%s%s ## %s %s%s%s\n" op (stat_name s) (fmt s vals) (obs ()) op (stat_name s2) (fmt s2 vals2) (iobs ()) in
          let none _ _ = "" in
          let one s v = if s = CC_OK then " " ^ join_n v else "" in
          let always _ v = " " ^ join_n v in
          let lst s v = if s = CC_OK then " " ^ br v else "" in
          let lsta _ v = " " ^ br v in
          let derived r ideal =
            let ((s, d), a') = ok r in
            a := a';
            let ms = (match d with
              | Some d when s = CC_OK ->
                  let c = sl_abs d in
                  let sz = string_of_n (sl_get_size d) in
                  let own = Printf.sprintf " own=%s,%s" (string_of_n (count_tag Conf !a)) (string_of_n (count_tag Libc !a)) in
                  a := ok (sl_destroy d !a);
                  Printf.sprintf " size=%s %s%s" sz (br c) own
              | _ -> "") in
            let (s2, c2) = ideal (s = CC_ERR_ALLOC) in
            Printf.printf "%s %s%s%s ## %s %s%s%s\n" op (stat_name s) ms (obs ()) op (stat_name s2)
              (if s2 = CC_OK then Printf.sprintf " size=%d %s" (List.length c2) (br c2) else "") (iobs ()) in
          (match op with
           | "add_first" -> stepop (SAddFirst (arg 0)) none
           | "add_last" -> stepop (SAddLast (arg 0)) none
           | "add" -> stepop (SAdd (arg 0)) none
           | "add_at" -> stepop (SAddAt (arg 0, arg 1)) none
           | "remove" -> stepop (SRemove (arg 0)) one
           | "remove_at" -> stepop (SRemoveAt (arg 0)) one
           | "remove_first" -> stepop SRemoveFirst one
           | "remove_last" -> stepop SRemoveLast one
           | "remove_all" -> stepop SRemoveAll none
           | "remove_all_cb" -> stepop SRemoveAllCb lst
           | "replace_at" -> stepop (SReplaceAt (arg 0, arg 1)) one
           | "get_first" -> stepop SGetFirst one
           | "get_last" -> stepop SGetLast one
           | "get_at" -> stepop (SGetAt (arg 0)) one
           | "index_of" -> stepop (SIndexOf (arg 0)) one
           | "contains" -> stepop (SContains (arg 0)) always
           | "contains_value" -> stepop (SContainsValue (arg 0)) always
           | "size" -> stepop SSize always
           | "to_array" -> stepop SToArray lst
           | "foreach" -> stepop SForeach lsta
           | "reverse" -> stepop SReverse none
           | "filter_mut" -> stepop SFilterMut none
           | "add_all" -> stepop SAddAll none
           | "add_all_at" -> stepop (SAddAllAt (arg 0)) none
           | "splice" -> stepop SSplice none
           | "splice_at" -> stepop (SSpliceAt (arg 0)) none
           | "sublist" ->
               let b = arg 0 and e = arg 1 in
               derived (sl_sublist (get ()) b e !a) (fun fl ->
                 let l = iget () in let n = List.length l in
                 if N.ltb e b || N.leb (n_of_int n) e then (CC_ERR_INVALID_RANGE, [])
                 else if fl then (CC_ERR_ALLOC, [])
                 else (CC_OK, List.filteri (fun i _ -> i >= int_of_n b && i <= int_of_n e) l))
           | "copy_shallow" -> derived (sl_copy_shallow (get ()) !a) (fun fl -> if fl then (CC_ERR_ALLOC, []) else (CC_OK, iget ()))
           | "copy_deep" -> derived (sl_copy_deep cp_1000 (get ()) !a) (fun fl -> if fl then (CC_ERR_ALLOC, []) else (CC_OK, List.map cp_1000 (iget ())))
           | "filter" -> derived (sl_filter pred_even (get ()) !a) (fun fl ->
                 if iget () = [] then (CC_ERR_OUT_OF_RANGE, []) else if fl then (CC_ERR_ALLOC, []) else (CC_OK, List.filter pred_even (iget ())))
           | "sort" ->
               let ((s, l'), a') = ok (sl_sort (isort cmp) (get ()) !a) in
               set l'; a := a';
               let s2 = if s = CC_ERR_ALLOC then CC_ERR_ALLOC else (iset (isort cmp (iget ())); CC_OK) in
               Printf.printf "%s %s%s ## %s %s%s\n" op (stat_name s) (obs ()) op (stat_name s2) (iobs ())
           | "iter" ->
               let (out, l', a', fails) = run_iter (get ()) !a args in
               set l'; a := a';
               let (out2, il) = ideal_iter (iget ()) args fails in
               iset il;
               let j o = String.concat "" (List.map (fun s -> " " ^ s) o) in
               Printf.printf "%s OK%s%s ## %s OK%s%s\n" op (j out) (obs ()) op (j out2) (iobs ())
           | "zip" ->
               let (out, l1', l2', a', fails) = run_zip (get ()) (oth ()) !a args in
               set l1'; seto l2'; a := a';
               let (out2, i1, i2) = ideal_zip (iget ()) (ioth ()) args fails in
               iset i1; iseto i2;
               let j o = String.concat "" (List.map (fun s -> " " ^ s) o) in
               Printf.printf "%s OK%s%s ## %s OK%s%s\n" op (j out) (obs ()) op (j out2) (iobs ())
           | _ -> Printf.printf "%s badop%s\n" op (obs ()))
      | _ -> print_string "badline\n") lines
