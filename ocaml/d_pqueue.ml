(* Model-side interpreter of pqueue traces.
   Header:  T <id> pqueue <capacity|default> <num> <den> <cmp: div16|full|rev16|tie> <mem: conf|libc> [plan=<bits>]
   Ops:     push <v> | pop | popn (NULL out) | top | destroy_cb | END
   Main part of a line (compared with the ideal bag): status, PRIORITY of the out-value, size, priority of
   the top; diagnostic tail (model vs implementation only): the out-value itself and the buffer prefix,
   because the order among ties is unspecified for the ideal object.
   The ideal bag has no capacity; a push is allowed to fail with ERR_ALLOC exactly when the allocator
   refused a request made during this push (visible from the ledger's request/id counters). *)
open Model
open Util

let u64 = int64_of_n
let ucmp a b = Int64.unsigned_compare (u64 a) (u64 b)
let div16 v = Int64.unsigned_div (u64 v) 16L
let z_of_int i = if i > 0 then Zpos XH else if i < 0 then Zneg XH else Z0

(* comparator and the priority it induces (equal priority <-> cmp = 0) *)
let mk_cmp mode : (n -> n -> z) * (n -> string) =
  match mode with
  | "div16" -> (fun a b -> z_of_int (Int64.unsigned_compare (div16 a) (div16 b))), (fun v -> Printf.sprintf "%Lu" (div16 v))
  | "rev16" -> (fun a b -> z_of_int (Int64.unsigned_compare (div16 b) (div16 a))), (fun v -> Printf.sprintf "%Lu" (div16 v))
  | "full" -> (fun a b -> z_of_int (ucmp a b)), string_of_n
  | "tie" -> (fun _ _ -> Z0), (fun _ -> "0")
  | m -> failwith ("bad cmp mode " ^ m)

let ge0 = function Zneg _ -> false | _ -> true

let show_buf s = "[" ^ String.concat " " (List.map (function Some v -> string_of_n v | None -> "?") (pq_prefix s)) ^ "]"
let sorted_vals l = join_n (List.sort ucmp l)

let run (lines : string list) =
  let st = ref None and a = ref (alloc_init [] limit) in
  let cmp = ref (fun _ _ -> Z0) and prio = ref (fun _ -> "0") in
  let bag = ref [] and ipushed = ref [] and mpopped = ref [] in
  (* ideal bag helpers *)
  let is_max x b = List.for_all (fun y -> ge0 (!cmp x y)) b in
  let bag_max b = List.find_opt (fun x -> is_max x b) b in
  let rec remove1 x = function [] -> [] | y :: t -> if ucmp x y = 0 then t else y :: remove1 x t in
  let top_model s = match ok (pq_top s) with (CC_OK, Some v) -> !prio v | _ -> "-" in
  let top_ideal b = match bag_max b with Some x -> !prio x | None -> "-" in
  let obs s = Printf.sprintf " | size=%s top=%s%s" (string_of_n s.pq_size) (top_model s) (ledger !a) in
  let ideal_obs b = Printf.sprintf " | size=%d top=%s" (List.length b) (top_ideal b) in
  List.iteri (fun i line ->
    let tok = split_ws line in
    if i = 0 then begin
      match tok with
      | _ :: _ :: _ :: c :: num :: den :: mode :: mem :: rest ->
          let (capn, nn, dn) =
            if c = "default" then (pQUEUE_DEFAULT_CAPACITY, pQUEUE_DEFAULT_EXPANSION_FACTOR_num, pQUEUE_DEFAULT_EXPANSION_FACTOR_den)
            else (n_of_string c, n_of_string num, n_of_string den) in
          let tg = if mem = "conf" then Conf else Libc in
          let plan = match rest with p :: _ when String.length p >= 5 && String.sub p 0 5 = "plan=" -> String.sub p 5 (String.length p - 5) | _ -> "" in
          let (f, p) = mk_cmp mode in
          cmp := f; prio := p; bag := []; ipushed := []; mpopped := [];
          a := alloc_init (plan_of_string plan) limit;
          let ((s, r), a') = ok (pq_new tg capn nn dn !a) in
          a := a'; st := r;
          (match r with
           | Some r -> Printf.printf "new %s%s #B=%s ## new OK%s\n" (stat_name s) (obs r) (show_buf r) (ideal_obs [])
           | None -> Printf.printf "new %s |%s ## new %s |\n" (stat_name s) (ledger !a) (stat_name s))
      | _ -> failwith "bad header"
    end else
      match tok, !st with
      | [], _ -> ()
      | "END" :: _, None -> Printf.printf "end |%s\n" (ledger !a)
      | "END" :: _, Some s ->
          let rec drain s acc = match ok (pq_pop !cmp true s) with
            | ((CC_OK, Some v), s') -> drain s' (v :: acc)
            | (_, s') -> (List.rev acc, s') in
          let (items, s') = drain s [] in
          a := ok (pq_destroy s' !a); st := None;
          (* ideal: the bag in non-increasing priority order; over the whole trace every pushed element is popped once *)
          let ideal_drain = List.sort (fun x y -> match !cmp y x with Zpos _ -> 1 | Zneg _ -> -1 | Z0 -> 0) !bag in
          Printf.printf "end drain=[%s] popped=[%s] |%s #D=[%s] ## end drain=[%s] popped=[%s] |\n"
            (String.concat " " (List.map !prio items)) (sorted_vals (!mpopped @ items)) (ledger !a) (join_n items)
            (String.concat " " (List.map !prio ideal_drain)) (sorted_vals !ipushed)
      | _, None -> print_string "skip\n"
      | "destroy_cb" :: _, Some s ->
          let (calls, a') = ok (pq_destroy_cb s !a) in
          a := a'; st := None;
          Printf.printf "destroy_cb OK n=%d sorted=[%s] |%s #CB=[%s] ## destroy_cb OK n=%d sorted=[%s] |\n"
            (List.length calls) (sorted_vals calls) (ledger !a) (join_n calls)
            (List.length !bag) (sorted_vals !bag)
      | op :: args, Some s ->
          let o = (match op, args with
            | "push", x :: _ -> PPush (n_of_string x)
            | "pop", _ -> PPop
            | "popn", _ -> PPopNull
            | "top", _ -> PTop
            | _ -> failwith ("bad op " ^ op)) in
          let a0 = !a in
          let ((POut (stt, v), s'), a') = ok (pq_step !cmp s o a0) in
          a := a'; st := Some s';
          (* ideal bag *)
          (* a buffer that cannot grow (grown capacity not larger - D11 - or byte size not representable): no
             allocator can provide it and, since the byte-size repair, the library does not even ask *)
          let cant_grow = N.eqb s.pq_size s.pq_cap &&
            (let p = N.div (N.mul s.pq_cap s.pq_num) s.pq_den in
             N.leb p s.pq_cap || N.ltb (N.div (n_of_string "0xffffffffffffffff") (n_of_int 8)) p) in
          let refused = ((a'.nreq <> a0.nreq) && (a'.next_id = a0.next_id)) || (cant_grow && (match o with PPush _ -> true | _ -> false)) in
          let (ist, ip) = (match o with
            | PPush x ->
                if refused then (CC_ERR_ALLOC, None) else (bag := x :: !bag; ipushed := x :: !ipushed; (CC_OK, None))
            | PTop -> (match bag_max !bag with Some x -> (CC_OK, Some (!prio x)) | None -> (CC_ERR_OUT_OF_RANGE, None))
            | PPop | PPopNull ->
                (match bag_max !bag with
                 | None -> (CC_ERR_OUT_OF_RANGE, None)
                 | Some x ->
                     (* among the maximal elements remove the one the model returned when that is a legal choice *)
                     let removed = (match v with Some _ -> v | None -> (match ok (pq_top s) with (CC_OK, t) -> t | _ -> None)) in
                     let chosen = (match removed with
                       | Some mv when List.exists (fun y -> ucmp y mv = 0) !bag && is_max mv !bag -> mv
                       | _ -> x) in
                     bag := remove1 chosen !bag;
                     (CC_OK, if o = PPop then Some (!prio chosen) else None))) in
          (* values popped in mid-trace are remembered for the END line (model side: what the model returned) *)
          (match o, stt, v with
           | PPop, CC_OK, Some mv -> mpopped := mv :: !mpopped
           | PPopNull, CC_OK, _ -> (match ok (pq_top s) with (CC_OK, Some t) -> mpopped := t :: !mpopped | _ -> ())
           | _ -> ());
          let pv = function Some x -> " p=" ^ !prio x | None -> "" in
          let ipv = function Some x -> " p=" ^ x | None -> "" in
          let dv = match v with Some x -> string_of_n x | None -> "-" in
          Printf.printf "%s %s%s%s #V=%s #B=%s ## %s %s%s%s\n" op (stat_name stt) (pv v) (obs s') dv (show_buf s')
            op (stat_name ist) (ipv ip) (ideal_obs !bag)) lines
