(* Model-side interpreter of treetable / treeset traces.
   Header:  T <id> treetable <table|set> <num|rev|q4> <conf|libc> <full|lite> <pool: k1,k2,..|-> [plan=0110]
   Per line:  <op> <STATUS> <outs> | <public obs> L=a,b,c #T=<shape> #K=<comparator calls>  ## <ideal line>
   The ideal part is produced by the sorted association list (Model.spec_step). *)
open Model
open Util

type st = Tab of ttable | Set of tset

let cmp_of = function
  | "num" -> (fun a b -> N.compare a b)
  | "rev" -> (fun a b -> N.compare b a)
  | "q4" -> (fun a b -> N.compare (N.div a (n_of_int 4)) (N.div b (n_of_int 4)))
  | s -> failwith ("bad cmp " ^ s)

let table = function Tab t -> t | Set s -> s.ts_tab

let rec shape = function
  | L -> "."
  | T (c, l, k, _, r) -> Printf.sprintf "(%s %s %s %s)" (match c with R -> "R" | B -> "B") (string_of_n k) (shape l) (shape r)

(* floor(log2 x) for x >= 1 *)
let rec log2 x = if x <= 1 then 0 else 1 + log2 (x / 2)
let bound n = 2 * log2 (n + 1) + 2

let opt_key = function Some k -> string_of_n k | None -> "-"

(* "huge" mode (10^5 keys): the extracted association-list ideal is quadratic, so the ideal object is OCaml's
   stdlib Map over the unsigned key order; the ledger token is the constant L=0,0,0 (real allocator in C). *)
module M = Map.Make (struct type t = int64 let compare = Int64.unsigned_compare end)

let run (lines : string list) =
  let st = ref None and a = ref (alloc_init [] limit) and spec = ref ([], None) in
  let cmp = ref (cmp_of "num") and full = ref true and pool = ref [] and isset = ref false in
  let huge = ref false and hm = ref M.empty and hn = ref 0 in
  let ledger a = if !huge then " L=0,0,0" else ledger a in
  let tstep t o = ok (tt_step !cmp t !a o) in
  (* observation through the model's public functions *)
  let obs_of ~size ~elems ~first ~last ~gt ~lt ~rb ~bal =
    if !full then begin
      let ks = join_n (List.map fst elems) in
      let fl = function Some (k, v) -> if !isset then string_of_n k else string_of_n k ^ ":" ^ string_of_n v | None -> "-" in
      let rel f = String.concat " " (List.map (fun k -> string_of_n k ^ ">" ^ opt_key (f k)) !pool) in
      Printf.sprintf " | size=%s keys=[%s]%s first=%s last=%s gt=[%s] lt=[%s] rb=%d bal=%d" size ks
        (if !isset then "" else Printf.sprintf " vals=[%s]" (join_n (List.map snd elems)))
        (fl first) (fl last) (rel gt) (rel lt) rb bal
    end else Printf.sprintf " | size=%s bal=%d" size bal in
  let model_obs s bal =
    let t = table s in
    let q mk k = match tstep t (mk k) with ((o, _), _) -> (match o.o_vals with [x] when o.o_st = CC_OK -> Some x | _ -> None) in
    obs_of ~size:(string_of_n t.tt_size) ~elems:(if !full then elems t.tt_tree else [])
      ~first:(min_binding t.tt_tree) ~last:(max_binding t.tt_tree)
      ~gt:(q (fun k -> OGreater k)) ~lt:(q (fun k -> OLesser k))
      ~rb:(if !full then (if rb_inv_b !cmp t.tt_tree then 1 else 0) else 1) ~bal in
  let ideal_obs () =
    if !huge then Printf.sprintf " | size=%d bal=1" !hn else
    let (l, _) = !spec in
    let q mk k = match spec_step !cmp !spec (mk k) with (((CC_OK, [x]), _)) -> Some x | _ -> None in
    obs_of ~size:(string_of_int (List.length l)) ~elems:(if !full then l else [])
      ~first:(match l with [] -> None | b :: _ -> Some b) ~last:(match List.rev l with [] -> None | b :: _ -> Some b)
      ~gt:(q (fun k -> OGreater k)) ~lt:(q (fun k -> OLesser k)) ~rb:1 ~bal:1 in
  let tail s k = Printf.sprintf "%s #T=%s #K=%s" (ledger !a) (if !full then shape (table s).tt_tree else "-") k in
  List.iteri (fun i line ->
    let tok = split_ws line in
    if i = 0 then begin
      match tok with
      | _ :: _ :: _ :: kind :: c :: mem :: mode :: pl :: rest ->
          cmp := cmp_of c; full := (mode = "full"); isset := (kind = "set"); huge := (mode = "huge"); hm := M.empty; hn := 0;
          pool := (if pl = "-" then [] else List.map n_of_string (String.split_on_char ',' pl));
          let plan = List.fold_left (fun acc w -> if String.length w > 5 && String.sub w 0 5 = "plan=" then String.sub w 5 (String.length w - 5) else acc) "" rest in
          let tg = if mem = "conf" then Conf else Libc in
          a := alloc_init (plan_of_string plan) limit; spec := ([], None);
          let (s, r, a') =
            if !isset then (match ok (ts_new tg !a) with ((s, r), a') -> (s, (match r with Some x -> Some (Set x) | None -> None), a'))
            else (match ok (tt_new tg !a) with ((s, r), a') -> (s, (match r with Some x -> Some (Tab x) | None -> None), a')) in
          a := a'; st := r;
          (match r with
           | Some x -> Printf.printf "new %s%s%s ## new OK%s\n" (stat_name s) (model_obs x 1) (tail x "0") (ideal_obs ())
           | None -> Printf.printf "new %s |%s ## new %s |\n" (stat_name s) (ledger !a) (stat_name s))   (* a refused constructor: the ideal agrees with the status; an abort here is a failing input *)
      | _ -> failwith "bad header"
    end else
      match tok, !st with
      | [], _ -> ()
      | "END" :: _, None -> Printf.printf "end |%s\n" (ledger !a)
      | "END" :: _, Some s ->
          let t = table s in
          let fin = Printf.sprintf "end size=%s rb=%d" (string_of_n t.tt_size) (if rb_inv_b !cmp t.tt_tree then 1 else 0) in
          if !huge then spec := (List.map (fun (k, v) -> (n_of_int64 k, v)) (M.bindings !hm), None);
          (match s with Tab t -> a := ok (tt_destroy t !a) | Set x -> a := ok (ts_destroy x !a));
          st := None;
          Printf.printf "%s |%s ## end size=%d rb=1 |\n" fin (ledger !a) (List.length (fst !spec))
      | _, None -> print_string "skip\n"
      | op :: args, Some s ->
          let arg n = n_of_string (List.nth args n) in
          let so = (if not !isset then None else Some (match op with
              | "add" -> SAdd (arg 0) | "rm" -> SRemove (arg 0) | "clear" -> SRemoveAll | "first" -> SFirst | "last" -> SLast
              | "gt" -> SGreater (arg 0) | "lt" -> SLesser (arg 0) | "has" -> SContains (arg 0) | "size" -> SSize
              | "each" -> SForeach | "it" -> SIterInit | "next" -> SIterNext | "irm" -> SIterRemove
              | _ -> failwith ("bad op " ^ op))) in
          let o = (match so with
            | Some so -> ts_to_tt so
            | None -> (match op with
              | "add" -> OAdd (arg 0, arg 1) | "get" -> OGet (arg 0) | "has" -> OContainsKey (arg 0) | "hasv" -> OContainsValue (arg 0)
              | "rm" -> ORemove (arg 0) | "rmf" -> ORemoveFirst | "rml" -> ORemoveLast | "clear" -> ORemoveAll
              | "fk" -> OFirstKey | "lk" -> OLastKey | "fv" -> OFirstValue | "lv" -> OLastValue
              | "gt" -> OGreater (arg 0) | "lt" -> OLesser (arg 0) | "size" -> OSize | "eachk" -> OForeachKey | "eachv" -> OForeachValue
              | "it" -> OIterInit | "next" -> OIterNext | "irm" -> OIterRemove
              | _ -> failwith ("bad op " ^ op))) in
          let is_iter = (match o with OIterNext | OIterRemove -> true | _ -> false) in
          if is_iter && (table s).tt_iter = None then print_string "skip\n" else begin
          let n_before = int_of_n (table s).tt_size in
          let (out, s') =
            (match s, so with
             | Set x, Some so -> let ((out, x'), a') = ok (ts_step !cmp x !a so) in a := a'; (out, Set x')
             | Tab t, _ -> let ((out, t'), a') = ok (tt_step !cmp t !a o) in a := a'; (out, Tab t')
             | _ -> failwith "kind") in
          (* the ideal map has no allocator: a refused allocation is reported as such and must leave it unchanged *)
          let huge_step o =
            let key k = int64_of_n k in
            (match o with
             | OAdd (k, v) -> if not (M.mem (key k) !hm) then incr hn; hm := M.add (key k) v !hm; (CC_OK, [])
             | OGet k -> (match M.find_opt (key k) !hm with Some v -> (CC_OK, [v]) | None -> (CC_ERR_KEY_NOT_FOUND, []))
             | OContainsKey k -> (CC_OK, [if M.mem (key k) !hm then n_of_int 1 else N0])
             | ORemove k -> (match M.find_opt (key k) !hm with
                             | Some v -> hm := M.remove (key k) !hm; decr hn; (CC_OK, [v]) | None -> (CC_ERR_KEY_NOT_FOUND, []))
             | ORemoveFirst -> (match M.min_binding_opt !hm with
                                | Some (k, v) -> hm := M.remove k !hm; decr hn; (CC_OK, [v]) | None -> (CC_ERR_KEY_NOT_FOUND, []))
             | ORemoveLast -> (match M.max_binding_opt !hm with
                               | Some (k, v) -> hm := M.remove k !hm; decr hn; (CC_OK, [v]) | None -> (CC_ERR_KEY_NOT_FOUND, []))
             | OSize -> (CC_OK, [n_of_int !hn])
             | _ -> failwith "operation not available in huge mode") in
          let ((s2, v2), sp') =
            if out.o_st = CC_ERR_ALLOC then ((CC_ERR_ALLOC, []), !spec)
            else if !huge then (huge_step o, !spec)
            else (match so with Some so -> ts_spec_step !cmp !spec so | None -> spec_step !cmp !spec o) in
          spec := sp';
          st := Some s';
          let pv l = String.concat "" (List.map (fun v -> " " ^ string_of_n v) l) in
          let bal = if int_of_n out.o_cmps <= bound n_before then 1 else 0 in
          Printf.printf "%s %s%s%s%s" op (stat_name out.o_st) (pv out.o_vals) (model_obs s' bal) (tail s' (string_of_n out.o_cmps));
          Printf.printf " ## %s %s%s%s\n" op (stat_name s2) (pv v2) (ideal_obs ())
          end) lines
