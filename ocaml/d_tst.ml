(* Model-side interpreter of tst traces (CC_TSTTable). Per line: the model observation and, after
   " ## ", what the ideal string-keyed map shows (the empty key is an ordinary key there). *)
open Model
open Util

(* keys are written as lowercase hex byte strings, "-" is the empty key *)
let key_of_string (s : string) : n list =
  if s = "-" then [] else
  List.init (String.length s / 2) (fun i -> n_of_int (int_of_string ("0x" ^ String.sub s (2 * i) 2)))
let string_of_key (k : n list) : string =
  if k = [] then "-" else String.concat "" (List.map (fun b -> Printf.sprintf "%02x" (int_of_n b)) k)

let kv (k, v) = string_of_key k ^ "=" ^ string_of_n v
let sorted l = List.sort compare l

let body size gets (es : (n list * n) list) =
  Printf.sprintf " | size=%s get[%s] it[%s] fk[%s] fv[%s]" size (String.concat "," gets)
    (String.concat " " (sorted (List.map kv es)))
    (String.concat " " (sorted (List.map (fun (k, _) -> string_of_key k) es)))
    (String.concat " " (sorted (List.map (fun (_, v) -> string_of_n v) es)))

let obs pool (s : table) a =
  let es = ok (tst_enum s.t_root) in
  let gets = List.map (fun k -> match tst_get s k with
    | (CC_OK, Some v) -> string_of_key k ^ "=" ^ string_of_n v
    | _ -> string_of_key k ^ "=-") pool in
  body (string_of_n s.t_size) gets es ^ ledger a ^ " #O=" ^ String.concat "," (List.map (fun (k, _) -> string_of_key k) es)

let ideal pool (m : (n list * n) list) =
  let gets = List.map (fun k -> match assoc m k with
    | Some v -> string_of_key k ^ "=" ^ string_of_n v
    | None -> string_of_key k ^ "=-") pool in
  body (string_of_int (List.length m)) gets m

(* iterator protocol state, identical in harness/tst.c:
   0 no (valid) iterator, 1 current is NULL (fresh or ended), 2 after a next that returned OK, 3 after an iter_remove *)
let run (lines : string list) =
  let st = ref None and a = ref (alloc_init [] limit) and spec = ref [] and pool = ref [] in
  let it = ref None and itst = ref 0 and remaining = ref [] and lastkey = ref [] in
  List.iteri (fun i line ->
    let tok = split_ws line in
    if i = 0 then begin
      match tok with
      | _ :: _ :: _ :: mem :: rest ->
          let tg = if mem = "conf" then Conf else Libc in
          let plan = ref "" in
          List.iter (fun w ->
            if String.length w > 5 && String.sub w 0 5 = "pool=" then
              pool := List.map key_of_string (String.split_on_char ',' (String.sub w 5 (String.length w - 5)))
            else if String.length w >= 5 && String.sub w 0 5 = "plan=" then
              plan := String.sub w 5 (String.length w - 5)) rest;
          a := alloc_init (plan_of_string !plan) limit;
          let ((s, r), a') = tst_new tg !a in
          a := a'; st := r; spec := [];
          (match r with
           | Some r -> Printf.printf "new %s%s ## new OK%s\n" (stat_name s) (obs !pool r !a) (ideal !pool [])
           | None -> Printf.printf "new %s |%s ## new %s |\n" (stat_name s) (ledger !a) (stat_name s))
      | _ -> failwith "bad header"
    end else
      match tok, !st with
      | [], _ -> ()
      | "END" :: _, None -> Printf.printf "end |%s\n" (ledger !a)
      | "END" :: _, Some r ->
          a := ok (tst_destroy r !a); st := None;
          Printf.printf "end |%s ## end |\n" (ledger !a)
      | _, None -> print_string "skip\n"
      | op :: args, Some r ->
          (* add0 v / get0 / has0 / rm0 = the same operations on the empty key *)
          let args = (match op with "add0" | "get0" | "has0" | "rm0" -> "-" :: args | _ -> args) in
          let key () = key_of_string (List.hd args) in
          let pv = function Some v -> " " ^ string_of_n v | None -> "" in
          let out_text = function
            | OStat s -> stat_name s
            | OVal (s, v) -> stat_name s ^ pv v
            | OBool b -> if b then "1" else "0"
            | ONum n -> string_of_n n
            | OUnit -> "OK" in
          let table_op o =
            let ((out, r'), a') = ok (tst_step r !a o) in
            (* a refused allocation: the ideal map answers ERR_ALLOC and keeps its content (C08 atomicity) *)
            let (out2, m') = if out = OStat CC_ERR_ALLOC then (out, !spec) else spec_step !spec o in
            st := Some r'; a := a'; spec := m';
            (match o with TAdd _ | TRemove _ | TRemoveAll -> it := None; itst := 0 | _ -> ());
            Printf.printf "%s %s%s ## %s %s%s\n" op (out_text out) (obs !pool r' !a) op (out_text out2) (ideal !pool m') in
          (match op with
           | "add" | "add0" -> table_op (TAdd (key (), n_of_string (List.nth args 1)))
           | "get" | "get0" -> table_op (TGet (key ()))
           | "has" | "has0" -> table_op (TContains (key ()))
           | "rm" | "rm0" -> table_op (TRemove (key ()))
           | "clear" -> table_op TRemoveAll
           | "size" -> table_op TSize
           | "iter" ->
               it := Some (iter_init r.t_root); itst := 1; remaining := !spec;
               Printf.printf "iter OK%s ## iter OK%s\n" (obs !pool r !a) (ideal !pool !spec)
           | "next" ->
               (match !it with
                | Some itr when !itst <> 0 ->
                    let ((s, out), itr') = ok (tst_iter_next r.t_root itr) in
                    it := Some itr';
                    let txt = (match s, out with
                      | CC_OK, Some e -> itst := 2; lastkey := fst e; "OK " ^ kv e
                      | CC_OK, None -> itst := 2; "OK NULL"
                      | _, _ -> itst := 1; stat_name s) in
                    (* the ideal cursor accepts any not yet yielded key with its current value *)
                    let itxt = (match !remaining, s, out with
                      | [], _, _ -> "ITER_END"
                      | _, CC_OK, Some (k, v) when List.mem_assoc k !remaining && assoc !spec k = Some v ->
                          remaining := List.remove_assoc k !remaining; "OK " ^ kv (k, v)
                      | _, _, _ -> "OK ?") in
                    Printf.printf "next %s%s ## next %s%s\n" txt (obs !pool r !a) itxt (ideal !pool !spec)
                | _ -> Printf.printf "next SKIP%s ## ~\n" (obs !pool r !a))
           | "irm" ->
               (match !it with
                | Some itr when !itst = 1 || !itst = 2 ->
                    let was = !itst in
                    let ((((s, v), r'), itr'), a') = ok (tst_iter_remove r itr !a) in
                    st := Some r'; it := Some itr'; a := a';
                    if s = CC_OK then itst := 3;
                    let itxt =
                      if was = 2 then begin
                        let v2 = assoc !spec !lastkey in
                        let (_, m') = spec_step !spec (TRemove !lastkey) in
                        spec := m';
                        (match v2 with Some v -> "OK " ^ string_of_n v | None -> "ERR_KEY_NOT_FOUND")
                      end else "ERR_KEY_NOT_FOUND" in
                    Printf.printf "irm %s%s%s ## irm %s%s\n" (stat_name s) (pv v) (obs !pool r' !a) itxt (ideal !pool !spec)
                | _ -> Printf.printf "irm SKIP%s ## ~\n" (obs !pool r !a))
           | _ -> failwith ("bad op " ^ op))) lines
