(* Model-side interpreter of array/stack traces, with an independent ideal-list oracle.
   The ideal part follows the documented contract: exact statuses for range errors, ERR_ALLOC exactly when
   the allocator refused a request during the operation (visible in the model's ledger), iterators as
   cursors over the ideal list. *)
open Model
open Util

let nh = 8
let kv s = match String.index_opt s '=' with
  | Some i -> (String.sub s 0 i, String.sub s (i + 1) (String.length s - i - 1))
  | None -> (s, "")

(* ---------- concrete callbacks, the same as in harness/array.c ---------- *)
let n16 = n_of_int 16
let pred_even (v : n) = N.eqb (N.modulo v (n_of_int 2)) N0
let cmp16 (a : n) (b : n) : z =
  let x = N.div a n16 and y = N.div b n16 in
  if N.ltb x y then Zneg XH else if N.ltb y x then Zpos XH else Z0
let w64 = n_of_string "0xffffffffffffffff"
let mask64 v = N.coq_land v w64
let cp1000 v = mask64 (N.add v (n_of_int 1000))
(* the fold function; for CC_ArraySized (header esz=k) results are k-byte numbers *)
let red_mask = ref w64
let red a b = N.coq_land (N.add (N.mul a (n_of_int 31)) b) !red_mask
let sorter (l : n list) = List.sort (fun a b -> if N.ltb a b then -1 else if N.ltb b a then 1 else 0) l

(* ---------- ideal world ---------- *)
type 'a ires = IOk of 'a | IErr of string
type ideal_it = { mutable pos : int; mutable last : int option; src : int; mutable removed : bool }
let ih : n list option array = Array.make nh None          (* ideal arrays *)
let is_ : n list option array = Array.make nh None         (* ideal stacks (bottom first) *)
let iit : ideal_it option array = Array.make nh None
let izip : (int * int * ideal_it) option array = Array.make nh None
let isit : ideal_it option array = Array.make nh None
let iszip : (int * int * ideal_it) option array = Array.make nh None

(* ---------- model world ---------- *)
let mh : arr option array = Array.make nh None
let ms : stack option array = Array.make nh None
let mit : (int * aiter) option array = Array.make nh None
let mzip : (int * int * aiter) option array = Array.make nh None
let msit : (int * aiter) option array = Array.make nh None
let mszip : (int * int * aiter) option array = Array.make nh None
let al = ref (alloc_init [] limit)

let reset () =
  for k = 0 to nh - 1 do
    ih.(k) <- None; is_.(k) <- None; iit.(k) <- None; izip.(k) <- None; isit.(k) <- None; iszip.(k) <- None;
    mh.(k) <- None; ms.(k) <- None; mit.(k) <- None; mzip.(k) <- None; msit.(k) <- None; mszip.(k) <- None
  done

let obs_model () =
  let b = Buffer.create 64 in
  Buffer.add_string b " |";
  Array.iteri (fun k -> function Some a -> Buffer.add_string b (Printf.sprintf " h%d:[%s;%s]" k (string_of_n a.a_cap) (join_n a.a_data)) | None -> ()) mh;
  Array.iteri (fun k -> function Some s -> Buffer.add_string b (Printf.sprintf " s%d:[%s]#%s" k (join_n s.s_arr.a_data) (string_of_n (a_size s.s_arr))) | None -> ()) ms;
  Buffer.add_string b (ledger !al); Buffer.contents b
(* the ideal has no capacity: it copies the model's capacity figure (capacity is C20's business, compared model-vs-code) *)
let obs_ideal () =
  let b = Buffer.create 64 in
  Buffer.add_string b " |";
  Array.iteri (fun k -> function
    | Some l -> let cap = (match mh.(k) with Some a -> string_of_n a.a_cap | None -> "?") in
                Buffer.add_string b (Printf.sprintf " h%d:[%s;%s]" k cap (join_n l))
    | None -> ()) ih;
  Array.iteri (fun k -> function Some l -> Buffer.add_string b (Printf.sprintf " s%d:[%s]#%d" k (join_n l) (List.length l)) | None -> ()) is_;
  Buffer.contents b

let pv = function Some v -> " " ^ string_of_n v | None -> ""
let pv2 = function Some (a, b) -> " " ^ string_of_n a ^ " " ^ string_of_n b | None -> ""

(* list helpers on OCaml ints *)
let rec take k l = if k <= 0 then [] else match l with [] -> [] | x :: t -> x :: take (k - 1) t
let rec drop k l = if k <= 0 then l else match l with [] -> [] | _ :: t -> drop (k - 1) t
let insert_at l i x = take i l @ (x :: drop i l)
let remove_at l i = take i l @ drop (i + 1) l
let set_at l i x = take i l @ (x :: drop (i + 1) l)
let small (v : n) = N.ltb v (n_of_int 1000000)          (* index representable as a small int *)
let idx (v : n) (len : int) : int option = if small v && int_of_n v < len then Some (int_of_n v) else None
let index_of l x = let rec go k = function [] -> None | y :: t -> if y = x then Some k else go (k + 1) t in go 0 l

let emit op mstat mouts istat iouts =
  Printf.printf "%s %s%s%s ## %s %s%s%s\n" op mstat mouts (obs_model ()) op istat iouts (obs_ideal ())

let refused_during (before : alloc_st) : bool =
  (* did the allocator refuse a request since [before]?  requests made - blocks granted *)
  let granted = int_of_n (N.sub !al.next_id before.next_id) and made = int_of_n (N.sub !al.nreq before.nreq) in
  made > granted

(* a buffer that cannot grow: the grown capacity is not larger (D11, the library then asks for CC_MAX_ELEMENTS
   slots) or its size in bytes is not representable; no allocator can provide it, and since the byte-size
   repair the library does not even ask.  The ideal accepts ERR_ALLOC there exactly as for a refused request. *)
let max8 = N.div w64 (n_of_int 8)
let cant_grow (a : arr) : bool =
  N.eqb (a_size a) a.a_cap &&
  (let p = N.div (N.mul a.a_cap a.a_num) a.a_den in N.leb p a.a_cap || N.ltb max8 p)

let header (tok : string list) =
  reset ();
  let cfg = List.map kv (List.tl (List.tl (List.tl tok))) in
  let get k d = try List.assoc k cfg with Not_found -> d in
  let dflt = List.mem_assoc "default" cfg in
  (* defaults are the source's own (cc_array_conf_init / cc_array_sized_conf_init), through the translated constants *)
  let sized = List.mem_assoc "esz" cfg in
  let dcap = if sized then sIZED_DEFAULT_CAPACITY else aRRAY_DEFAULT_CAPACITY in
  let dnum = if sized then sIZED_DEFAULT_EXPANSION_FACTOR_num else aRRAY_DEFAULT_EXPANSION_FACTOR_num in
  let dden = if sized then sIZED_DEFAULT_EXPANSION_FACTOR_den else aRRAY_DEFAULT_EXPANSION_FACTOR_den in
  let cap = if dflt || not (List.mem_assoc "cap" cfg) then dcap else n_of_string (get "cap" "8") in
  red_mask := (match int_of_string (get "esz" "8") with 8 -> w64 | k -> n_of_string ("0x" ^ String.make (2 * k) 'f'));
  let (num, den) = if dflt || not (List.mem_assoc "ef" cfg) then (dnum, dden) else
    (match String.split_on_char '/' (get "ef" "2/1") with [x; y] -> (n_of_string x, n_of_string y) | _ -> failwith "bad ef") in
  let tg = if get "mem" "libc" = "conf" && not dflt then Conf else Libc in
  let tg = if dflt then Libc else tg in
  al := alloc_init (plan_of_string (get "plan" "")) limit;
  let before = !al in
  if get "kind" "array" = "stack" then begin
    let ((s, r), a') = ok (stack_new tg cap num den !al) in
    al := a'; ms.(0) <- r;
    let ist = if s = CC_ERR_INVALID_CAPACITY then "ERR_INVALID_CAPACITY" else if refused_during before then "ERR_ALLOC" else "OK" in
    if ist = "OK" then is_.(0) <- Some [];
    emit "new" (stat_name s) "" ist ""
  end else begin
    let ((s, r), a') = arr_new tg cap num den !al in
    al := a'; mh.(0) <- r;
    let ist = if s = CC_ERR_INVALID_CAPACITY then "ERR_INVALID_CAPACITY" else if refused_during before then "ERR_ALLOC" else "OK" in
    if ist = "OK" then ih.(0) <- Some [];
    emit "new" (stat_name s) "" ist ""
  end

let hnum (t : string) (c : char) = if String.length t = 2 && t.[0] = c && t.[1] >= '0' && t.[1] < '8' then Some (Char.code t.[1] - 48) else None

let array_op h (op : string) (args : string list) =
  match mh.(h), ih.(h) with
  | None, _ | _, None -> Printf.printf "%s nohandle%s ## %s nohandle%s\n" op (obs_model ()) op (obs_ideal ())
  | Some a, Some l ->
    let len = List.length l in
    let a1 () = n_of_string (List.nth args 0) and a2 () = n_of_string (List.nth args 1) in
    let before = !al in
    let set a' = mh.(h) <- Some a' in
    let alloc_op r =     (* model result of an allocating op: res (stat * arr * alloc_st) *)
      let ((s, a'), al') = ok r in al := al'; set a'; s in
    (match op with
     | "add" ->
         let x = a1 () in let s = alloc_op (arr_add a x !al) in
         let ist = if refused_during before || cant_grow a then stat_name s else "OK" in
         if ist = "OK" then ih.(h) <- Some (l @ [x]);
         emit op (stat_name s) "" ist ""
     | "add_at" ->
         let x = a1 () and i = a2 () in let s = alloc_op (arr_add_at a x i !al) in
         let ist = if not (small i && int_of_n i <= len) then "ERR_OUT_OF_RANGE" else if refused_during before || cant_grow a then stat_name s else "OK" in
         if ist = "OK" then ih.(h) <- Some (insert_at l (int_of_n i) x);
         emit op (stat_name s) "" ist ""
     | "replace_at" ->
         let x = a1 () and i = a2 () in let ((s, v), a') = arr_replace_at a x i in set a';
         (match idx i len with
          | Some k -> ih.(h) <- Some (set_at l k x); emit op (stat_name s) (pv v) "OK" (pv (Some (List.nth l k)))
          | None -> emit op (stat_name s) (pv v) "ERR_OUT_OF_RANGE" "")
     | "swap_at" ->
         let i = a1 () and j = a2 () in let (s, a') = arr_swap_at a i j in set a';
         (match idx i len, idx j len with
          | Some p, Some q -> let x = List.nth l p and y = List.nth l q in ih.(h) <- Some (set_at (set_at l p y) q x); emit op (stat_name s) "" "OK" ""
          | _ -> emit op (stat_name s) "" "ERR_OUT_OF_RANGE" "")
     | "remove" ->
         let x = a1 () in let ((s, v), a') = arr_remove a x in set a';
         (match index_of l x with
          | Some k -> ih.(h) <- Some (remove_at l k); emit op (stat_name s) (pv v) "OK" (pv (Some x))
          | None -> emit op (stat_name s) (pv v) "ERR_VALUE_NOT_FOUND" "")
     | "remove_at" ->
         let i = a1 () in let ((s, v), a') = arr_remove_at a i in set a';
         (match idx i len with
          | Some k -> ih.(h) <- Some (remove_at l k); emit op (stat_name s) (pv v) "OK" (pv (Some (List.nth l k)))
          | None -> emit op (stat_name s) (pv v) "ERR_OUT_OF_RANGE" "")
     | "remove_last" ->
         let ((s, v), a') = arr_remove_last a in set a';
         if len > 0 then (ih.(h) <- Some (take (len - 1) l); emit op (stat_name s) (pv v) "OK" (pv (Some (List.nth l (len - 1)))))
         else emit op (stat_name s) (pv v) "ERR_OUT_OF_RANGE" ""
     | "remove_all" -> set (arr_remove_all a); ih.(h) <- Some []; emit op "OK" "" "OK" ""
     | "get_at" ->
         let i = a1 () in let (s, v) = arr_get_at a i in
         (match idx i len with
          | Some k -> emit op (stat_name s) (pv v) "OK" (pv (Some (List.nth l k)))
          | None -> emit op (stat_name s) (pv v) "ERR_OUT_OF_RANGE" "")
     | "get_last" ->
         let (s, v) = arr_get_last a in
         if len > 0 then emit op (stat_name s) (pv v) "OK" (pv (Some (List.nth l (len - 1)))) else emit op (stat_name s) (pv v) "ERR_VALUE_NOT_FOUND" ""
     | "index_of" ->
         let x = a1 () in let (s, v) = arr_index_of a x in
         (match index_of l x with
          | Some k -> emit op (stat_name s) (pv v) "OK" (" " ^ string_of_int k)
          | None -> emit op (stat_name s) (pv v) "ERR_OUT_OF_RANGE" "")
     | "contains" ->
         let x = a1 () in emit op "OK" (pv (Some (arr_contains a x))) "OK" (" " ^ string_of_int (List.length (List.filter (fun y -> y = x) l)))
     | "contains_value" ->
         let x = a1 () in emit op "OK" (pv (Some (arr_contains_value cmp16 a x))) "OK" (" " ^ string_of_int (List.length (List.filter (fun y -> N.div y n16 = N.div x n16) l)))
     | "reverse" -> set (ok (arr_reverse a)); ih.(h) <- Some (List.rev l); emit op "OK" "" "OK" ""
     | "filter_mut" ->
         let (s, a') = arr_filter_mut pred_even a in set a';
         if len = 0 then emit op (stat_name s) "" "ERR_OUT_OF_RANGE" ""
         else (ih.(h) <- Some (List.filter pred_even l); emit op (stat_name s) "" "OK" "")
     | "trim" ->
         let s = alloc_op (arr_trim a !al) in
         emit op (stat_name s) "" (if refused_during before then "ERR_ALLOC" else "OK") ""
     | "size" -> emit op "OK" (pv (Some (a_size a))) "OK" (" " ^ string_of_int len)
     | "map" -> emit op "OK" (" [" ^ join_n (arr_map_order a) ^ "]") "OK" (" [" ^ join_n l ^ "]")
     | "reduce" ->
         let r = arr_reduce red a (n_of_int 7) in
         let ir = (match l with [] -> n_of_int 7 | [x] -> red x N0 | x :: y :: rest -> List.fold_left red (red x y) rest) in
         emit op "OK" (pv (Some r)) "OK" (pv (Some ir))
     | "sort" -> set (arr_sort sorter a); ih.(h) <- Some (sorter l); emit op "OK" "" "OK" ""
     | "destroy" ->
         al := ok (arr_destroy a !al); mh.(h) <- None; ih.(h) <- None;
         Array.iteri (fun k -> function Some (hh, _) when hh = h -> mit.(k) <- None; iit.(k) <- None | _ -> ()) mit;
         emit op "OK" "" "OK" ""
     | "destroy_cb" ->
         al := ok (arr_destroy a !al); mh.(h) <- None; ih.(h) <- None;
         emit op "OK" (" [" ^ join_n a.a_data ^ "]") "OK" (" [" ^ join_n l ^ "]")
     | _ -> Printf.printf "%s badop%s ## %s badop%s\n" op (obs_model ()) op (obs_ideal ()))

let stack_op h (op : string) (args : string list) =
  match ms.(h), is_.(h) with
  | None, _ | _, None -> Printf.printf "%s nohandle%s ## %s nohandle%s\n" op (obs_model ()) op (obs_ideal ())
  | Some s, Some l ->
    let len = List.length l in
    let before = !al in
    (match op with
     | "push" ->
         let x = n_of_string (List.nth args 0) in
         let ((st, s'), al') = ok (stack_push s x !al) in al := al'; ms.(h) <- Some s';
         let ist = if refused_during before || cant_grow s.s_arr then stat_name st else "OK" in
         if ist = "OK" then is_.(h) <- Some (l @ [x]);
         emit op (stat_name st) "" ist ""
     | "pop" ->
         let ((st, v), s') = stack_pop s in ms.(h) <- Some s';
         if len > 0 then (is_.(h) <- Some (take (len - 1) l); emit op (stat_name st) (pv v) "OK" (pv (Some (List.nth l (len - 1)))))
         else emit op (stat_name st) (pv v) "ERR_OUT_OF_RANGE" ""
     | "peek" ->
         let (st, v) = stack_peek s in
         if len > 0 then emit op (stat_name st) (pv v) "OK" (pv (Some (List.nth l (len - 1)))) else emit op (stat_name st) (pv v) "ERR_VALUE_NOT_FOUND" ""
     | "size" -> emit op "OK" (pv (Some (a_size s.s_arr))) "OK" (" " ^ string_of_int len)
     | "map" -> emit op "OK" (" [" ^ join_n s.s_arr.a_data ^ "]") "OK" (" [" ^ join_n l ^ "]")
     | "filter_mut" ->
         let (st, a') = arr_filter_mut pred_even s.s_arr in ms.(h) <- Some (with_arr s a');
         if len = 0 then emit op (stat_name st) "" "ERR_OUT_OF_RANGE" ""
         else (is_.(h) <- Some (List.filter pred_even l); emit op (stat_name st) "" "OK" "")
     | "destroy" -> al := ok (stack_destroy s !al); ms.(h) <- None; is_.(h) <- None; emit op "OK" "" "OK" ""
     | "destroy_cb" -> al := ok (stack_destroy s !al); ms.(h) <- None; is_.(h) <- None; emit op "OK" (" [" ^ join_n s.s_arr.a_data ^ "]") "OK" (" [" ^ join_n l ^ "]")
     | _ -> Printf.printf "%s badop%s ## %s badop%s\n" op (obs_model ()) op (obs_ideal ()))

(* ideal cursor operations over ideal list number [src] in table [tbl] *)
let ideal_next (tbl : n list option array) (it : ideal_it) =
  match tbl.(it.src) with
  | Some l when it.pos < List.length l -> let v = List.nth l it.pos in it.last <- Some it.pos; it.pos <- it.pos + 1; it.removed <- false; Some v
  | _ -> it.last <- None; None

let skip () = Printf.printf "skip%s ## skip%s\n" (obs_model ()) (obs_ideal ())

let run (lines : string list) =
  List.iteri (fun i line ->
    let tok = split_ws line in
    if i = 0 then header tok else
    match tok with
    | [] -> ()
    | "END" :: _ ->
        Array.iteri (fun k -> function Some a -> al := ok (arr_destroy a !al); mh.(k) <- None | None -> ()) mh;
        Array.iteri (fun k -> function Some s -> al := ok (stack_destroy s !al); ms.(k) <- None | None -> ()) ms;
        Printf.printf "end |%s ## end |\n" (ledger !al)
    | d :: "=" :: src :: rest ->
        let before = !al in
        (match hnum d 'h', hnum src 'h', rest with
         | Some dd, Some hh, op :: args when mh.(hh) <> None && mh.(dd) = None && List.mem op ["subarray"; "copy_shallow"; "copy_deep"; "filter"] ->
             let a = (match mh.(hh) with Some a -> a | None -> assert false) and l = (match ih.(hh) with Some l -> l | None -> []) in
             let len = List.length l in
             let r = (match op, args with
               | "subarray", [b; e] -> arr_subarray a (n_of_string b) (n_of_string e) !al
               | "copy_shallow", _ -> arr_copy_shallow a !al
               | "copy_deep", _ -> arr_copy_deep cp1000 a !al
               | _ -> arr_filter pred_even a !al) in
             let ((s, na), al') = ok r in al := al'; mh.(dd) <- na;
             let ideal = (match op, args with
               | "subarray", [b; e] ->
                   let b = n_of_string b and e = n_of_string e in
                   (match idx b len, idx e len with
                    | Some bi, Some ei when bi <= ei -> IOk (take (ei - bi + 1) (drop bi l))
                    | _ -> IErr "ERR_INVALID_RANGE")
               | "copy_shallow", _ -> IOk l
               | "copy_deep", _ -> IOk (List.map cp1000 l)
               | _ -> if len = 0 then IErr "ERR_OUT_OF_RANGE" else IOk (List.filter pred_even l)) in
             (match ideal with
              | IErr e -> emit op (stat_name s) "" e ""
              | IOk nl -> if refused_during before then emit op (stat_name s) "" "ERR_ALLOC" "" else (ih.(dd) <- Some nl; emit op (stat_name s) "" "OK" ""))
         | _ ->
         (match hnum d 's', hnum src 's', rest with
          | Some dd, Some hh, ["filter"] when ms.(hh) <> None && ms.(dd) = None ->
              let s = (match ms.(hh) with Some s -> s | None -> assert false) and l = (match is_.(hh) with Some l -> l | None -> []) in
              let ((st, ns), al') = ok (stack_filter pred_even s !al) in al := al'; ms.(dd) <- ns;
              if l = [] then emit "filter" (stat_name st) "" "ERR_OUT_OF_RANGE" ""
              else if refused_during before then emit "filter" (stat_name st) "" (stat_name st) ""
              else (is_.(dd) <- Some (List.filter pred_even l); emit "filter" (stat_name st) "" "OK" "")
          | _ ->
          (match hnum d 'i', hnum src 'h', hnum src 's', rest with
           | Some dd, Some hh, _, ["iter"] when mh.(hh) <> None ->
               mit.(dd) <- Some (hh, it_init); msit.(dd) <- None;
               iit.(dd) <- Some { pos = 0; last = None; src = hh; removed = false }; isit.(dd) <- None; emit "iter" "OK" "" "OK" ""
           | Some dd, _, Some hh, ["iter"] when ms.(hh) <> None ->
               msit.(dd) <- Some (hh, it_init); mit.(dd) <- None;
               isit.(dd) <- Some { pos = 0; last = None; src = hh; removed = false }; iit.(dd) <- None; emit "iter" "OK" "" "OK" ""
           | _ ->
           (match hnum d 'z', rest with
            | Some dd, [s2; "zip"] ->
                (match hnum src 'h', hnum s2 'h', hnum src 's', hnum s2 's' with
                 | Some h1, Some h2, _, _ when mh.(h1) <> None && mh.(h2) <> None ->
                     mzip.(dd) <- Some (h1, h2, it_init); mszip.(dd) <- None;
                     izip.(dd) <- Some (h1, h2, { pos = 0; last = None; src = h1; removed = false }); iszip.(dd) <- None; emit "zip" "OK" "" "OK" ""
                 | _, _, Some h1, Some h2 when ms.(h1) <> None && ms.(h2) <> None ->
                     mszip.(dd) <- Some (h1, h2, it_init); mzip.(dd) <- None;
                     iszip.(dd) <- Some (h1, h2, { pos = 0; last = None; src = h1; removed = false }); izip.(dd) <- None; emit "zip" "OK" "" "OK" ""
                 | _ -> skip ())
            | _ -> skip ()))))
    | hd :: op :: args ->
        (match hnum hd 'h', hnum hd 's', hnum hd 'i', hnum hd 'z' with
         | Some h, _, _, _ -> array_op h op args
         | _, Some h, _, _ -> stack_op h op args
         | _, _, Some k, _ when mit.(k) <> None ->
             let (h, it) = (match mit.(k) with Some x -> x | None -> assert false) in
             let iti = (match iit.(k) with Some x -> x | None -> assert false) in
             let a = (match mh.(h) with Some a -> a | None -> raise (Crash Dangling)) in
             let l = (match ih.(h) with Some l -> l | None -> []) in
             let before = !al in
             (match op with
              | "next" ->
                  let ((s, v), it') = it_next a it in mit.(k) <- Some (h, it');
                  (match ideal_next ih iti with Some x -> emit op (stat_name s) (pv v) "OK" (pv (Some x)) | None -> emit op (stat_name s) (pv v) "ITER_END" "")
              | "remove" ->
                  let (((s, v), a'), it') = it_remove a it in mh.(h) <- Some a'; mit.(k) <- Some (h, it');
                  (match iti.last with
                   | Some p when not iti.removed && p < List.length l ->
                       ih.(h) <- Some (remove_at l p); iti.pos <- p; iti.removed <- true;
                       emit op (stat_name s) (pv v) "OK" (pv (Some (List.nth l p)))
                   | _ -> ih.(h) <- Some a'.a_data; iti.pos <- int_of_n it'.it_index; iti.removed <- true;
                          emit op (stat_name s) (pv v) (stat_name s) (pv v))        (* outside the iterator contract: no opinion, resynchronise *)
              | "add" ->
                  let x = n_of_string (List.nth args 0) in
                  let (((s, a'), it'), al') = ok (it_add a it x !al) in al := al'; mh.(h) <- Some a'; mit.(k) <- Some (h, it');
                  if refused_during before || cant_grow a then emit op (stat_name s) "" (stat_name s) ""
                  else (ih.(h) <- Some (insert_at l iti.pos x); iti.pos <- iti.pos + 1; emit op (stat_name s) "" "OK" "")
              | "replace" ->
                  let x = n_of_string (List.nth args 0) in
                  let ((s, v), a') = it_replace a it x in mh.(h) <- Some a';
                  (match iti.last with
                   | Some p when not iti.removed && p < List.length l -> ih.(h) <- Some (set_at l p x); emit op (stat_name s) (pv v) "OK" (pv (Some (List.nth l p)))
                   | _ -> (match mh.(h) with Some a' -> ih.(h) <- Some a'.a_data | None -> ()); emit op (stat_name s) (pv v) (stat_name s) (pv v))
              | "index" ->
                  let v = it_idx it in
                  (* position of the element just before the cursor: after a yield, the yielded element's position *)
                  if not iti.removed && iti.pos >= 1 then emit op "OK" (pv (Some v)) "OK" (" " ^ string_of_int (iti.pos - 1))
                  else emit op "OK" (pv (Some v)) "OK" (pv (Some v))
              | _ -> skip ())
         | _, _, Some k, _ when msit.(k) <> None ->
             let (h, it) = (match msit.(k) with Some x -> x | None -> assert false) in
             let iti = (match isit.(k) with Some x -> x | None -> assert false) in
             let s = (match ms.(h) with Some s -> s | None -> raise (Crash Dangling)) in
             let l = (match is_.(h) with Some l -> l | None -> []) in
             (match op with
              | "next" ->
                  let ((st, v), it') = it_next s.s_arr it in msit.(k) <- Some (h, it');
                  (match ideal_next is_ iti with Some x -> emit op (stat_name st) (pv v) "OK" (pv (Some x)) | None -> emit op (stat_name st) (pv v) "ITER_END" "")
              | "replace" ->
                  let x = n_of_string (List.nth args 0) in
                  let ((st, v), a') = it_replace s.s_arr it x in ms.(h) <- Some (with_arr s a');
                  (match iti.last with
                   | Some p when p < List.length l -> is_.(h) <- Some (set_at l p x); emit op (stat_name st) (pv v) "OK" (pv (Some (List.nth l p)))
                   | _ -> is_.(h) <- Some a'.a_data; emit op (stat_name st) (pv v) (stat_name st) (pv v))
              | _ -> skip ())
         | _, _, _, Some k when mzip.(k) <> None || mszip.(k) <> None ->
             let on_stack = mszip.(k) <> None in
             let (h1, h2, it) = (match (if on_stack then mszip.(k) else mzip.(k)) with Some x -> x | None -> assert false) in
             let (_, _, iti) = (match (if on_stack then iszip.(k) else izip.(k)) with Some x -> x | None -> assert false) in
             let geta h = if on_stack then (match ms.(h) with Some s -> s.s_arr | None -> raise (Crash Dangling)) else (match mh.(h) with Some a -> a | None -> raise (Crash Dangling)) in
             let seta h a' = if on_stack then (match ms.(h) with Some s -> ms.(h) <- Some (with_arr s a') | None -> ()) else mh.(h) <- Some a' in
             let tbl = if on_stack then is_ else ih in
             let setit it' = if on_stack then mszip.(k) <- Some (h1, h2, it') else mzip.(k) <- Some (h1, h2, it') in
             let a1 = geta h1 and a2 = geta h2 in
             let l1 = (match tbl.(h1) with Some l -> l | None -> []) and l2 = (match tbl.(h2) with Some l -> l | None -> []) in
             let before = !al in
             (match op with
              | "next" ->
                  let ((s, v), it') = zip_next a1 a2 it in setit it';
                  if iti.pos < List.length l1 && iti.pos < List.length l2 then begin
                    let r = (List.nth l1 iti.pos, List.nth l2 iti.pos) in iti.last <- Some iti.pos; iti.pos <- iti.pos + 1; iti.removed <- false;
                    emit op (stat_name s) (pv2 v) "OK" (pv2 (Some r)) end
                  else (iti.last <- None; emit op (stat_name s) (pv2 v) "ITER_END" "")
              | "remove" when not on_stack ->
                  let ((((s, v), b1), b2), it') = zip_remove a1 a2 it in seta h1 b1; seta h2 b2; setit it';
                  (match iti.last with
                   | Some p when not iti.removed && p < List.length l1 && p < List.length l2 ->
                       tbl.(h1) <- Some (remove_at l1 p); tbl.(h2) <- Some (remove_at l2 p); iti.pos <- p; iti.removed <- true;
                       emit op (stat_name s) (pv2 v) "OK" (pv2 (Some (List.nth l1 p, List.nth l2 p)))
                   | _ -> tbl.(h1) <- Some b1.a_data; tbl.(h2) <- Some b2.a_data; emit op (stat_name s) (pv2 v) (stat_name s) (pv2 v))
              | "add" when not on_stack ->
                  let x = n_of_string (List.nth args 0) and y = n_of_string (List.nth args 1) in
                  let (((((s, b1), b2), it'), al')) = ok (zip_add a1 a2 it x y !al) in al := al'; seta h1 b1; seta h2 b2; setit it';
                  if refused_during before || cant_grow a1 || cant_grow a2 then emit op (stat_name s) "" (stat_name s) ""
                  else if iti.pos <= List.length l1 && iti.pos <= List.length l2 then begin
                    tbl.(h1) <- Some (insert_at l1 iti.pos x); tbl.(h2) <- Some (insert_at l2 iti.pos y); iti.pos <- iti.pos + 1;
                    emit op (stat_name s) "" "OK" "" end
                  else (tbl.(h1) <- Some b1.a_data; tbl.(h2) <- Some b2.a_data; emit op (stat_name s) "" (stat_name s) "")
              | "replace" ->
                  let x = n_of_string (List.nth args 0) and y = n_of_string (List.nth args 1) in
                  let (((s, v), b1), b2) = zip_replace a1 a2 it x y in seta h1 b1; seta h2 b2;
                  (match iti.last with
                   | Some p when not iti.removed && p < List.length l1 && p < List.length l2 ->
                       tbl.(h1) <- Some (set_at l1 p x); tbl.(h2) <- Some (set_at l2 p y);
                       emit op (stat_name s) (pv2 v) "OK" (pv2 (Some (List.nth l1 p, List.nth l2 p)))
                   | _ -> tbl.(h1) <- Some b1.a_data; tbl.(h2) <- Some b2.a_data; emit op (stat_name s) (pv2 v) (stat_name s) (pv2 v))
              | "index" when not on_stack ->
                  let v = it_idx it in
                  (* position of the element just before the cursor: after a yield, the yielded element's position *)
                  if not iti.removed && iti.pos >= 1 then emit op "OK" (pv (Some v)) "OK" (" " ^ string_of_int (iti.pos - 1))
                  else emit op "OK" (pv (Some v)) "OK" (pv (Some v))
              | _ -> skip ())
         | _ -> skip ())
    | _ -> skip ()) lines
