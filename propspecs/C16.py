PID = "C16"
HEADER = """C16 - rejected operations are inert, for every argument value.
    Per engine: (a) any step whose status is not CC_OK returns the very same state (whole model state, not just
    the abstraction); (b) the range guards *as generated from the C source on this run* reject exactly the
    arguments outside the documented range, for all index and size values (the model's indices are unbounded N, the
    guards use 64-bit wrap-around arithmetic where the C does). Editing a comparison in the C source changes the
    generated definition and fails the corresponding guard theorem at build time."""
IMPORTS = """From Coq Require Import Permutation Sorted.
From CC Require Import Base.Prelude Base.Alloc Base.Ledger Generated.Status Generated.Guards.
From CC Require Import Array.ArrayModel Array.ArrayProofs Array.ArrayRefine Array.ArrayMore.
From CC Require Import Deque.DequeModel Deque.DequeProofs Deque.DequeProofs2 Deque.DequeProofs3 Deque.DequeProofs4 Deque.DequeProofs5.
From CC Require Import PQueue.PQueueModel PQueue.PQueueProofs PQueue.PQueueProofs2.
From CC Require Import Hash.HashModel Hash.HashProofsA Hash.HashProofsB Hash.HashProofsC Hash.HashProofsD Hash.HashProofsE.
From CC Require Import Tst.TstModel Tst.TstProofs1 Tst.TstProofs2 Tst.TstProofs3 Tst.TstProofs4.
From CC Require Import Rbuf.RbufModel Rbuf.RbufProofs List_.ListModel SList.SListModel.
@MODULES@
Local Open Scope N_scope."""
THEOREMS = [
  ("C16_array_inert", "CC.Array.ArrayMore.arr_err_inert", "CC_Array: a non-OK status returns the same array; the ledger is untouched unless the error is a refused allocation"),
  ("C16_array_guards", "CC.Array.ArrayMore.array_guards", "CC_Array: generated range guards of replace_at / remove_at / get_at / swap_at / subarray / iter_next"),
  ("C16_array_add_at_guard", "CC.Array.ArrayProofs.add_at_range_spec", "CC_Array: add_at accepts [0,size] (appending at size is documented) and nothing else, including on the empty array where size-1 wraps"),
  ("C16_deque_inert", "CC.Deque.DequeProofs5.deque_err_inert", "CC_Deque: a non-OK status returns the same deque"),
  ("C16_deque_add_at_guard", "CC.Deque.DequeProofs5.g_deque_add_at_range_spec", "CC_Deque: generated guards: positions [0,size) only"),
  ("C16_deque_replace_at_guard", "CC.Deque.DequeProofs5.g_deque_replace_at_range_spec", ""),
  ("C16_deque_remove_at_guard", "CC.Deque.DequeProofs5.g_deque_remove_at_range_spec", ""),
  ("C16_deque_get_at_guard", "CC.Deque.DequeProofs5.g_deque_get_at_range_spec", ""),
  ("C16_deque_empty_guards", "CC.Deque.DequeProofs5.g_deque_empty_guards", "CC_Deque: first/last access and removal on the empty deque"),
  ("C16_pqueue_inert", "CC.PQueue.PQueueProofs2.pqT_err_inert", "CC_PQueue: top/pop on empty and failed pushes leave the queue unchanged"),
  ("C16_pqueue_top_guard", "CC.PQueue.PQueueProofs2.pq_guard_top_empty", ""),
  ("C16_pqueue_pop_guard", "CC.PQueue.PQueueProofs2.pq_guard_pop_empty", ""),
  ("C16_hashtable_remove_missing", "CC.Hash.HashProofsE.ht_remove_missing_inert", "CC_HashTable: removing / getting a key that is not present"),
  ("C16_hashtable_get_missing", "CC.Hash.HashProofsE.ht_get_missing", ""),
  ("C16_tst_missing", "CC.Tst.TstProofs2.tst_remove_missing_inert", "CC_TSTTable: get/remove of a missing key"),
  ("C16_rbuf_dequeue_empty", "CC.Rbuf.RbufProofs.rb_dequeue_empty_inert", "CC_Rbuf: dequeue on empty"),
  ("C16_list_frame", "List_:step_frame", "CC_List: every non-OK status leaves both lists unchanged"),
  ("C16_slist_frame", "sstep_frame", "CC_SList"),
  ("C16_list_get_node_guard", "g_get_node_at_range_iff", "CC_List generated guards: get/replace/remove/add at index need [0,size); add_all_at / splice_at accept [0,size]"),
  ("C16_list_add_all_at_guard", "g_add_all_at_range_iff", ""),
  ("C16_list_splice_at_guard", "g_splice_at_range_iff", ""),
  ("C16_list_sublist_guard", "g_sublist_range_iff", ""),
  ("C16_slist_get_node_guard", "g_slist_get_node_at_range_iff", "CC_SList generated guards"),
  ("C16_slist_splice_at_guard", "g_slist_splice_at_range_iff", ""),
  ("C16_slist_sublist_guard", "g_slist_sublist_range_iff", ""),
]
FOOTER = ""
