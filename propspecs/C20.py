PID = "C20"
HEADER = """C20 - growth is geometric and capacity invariants always hold.
    size <= capacity is part of every buffer engine's invariant; deque and hash-table capacities are powers of
    two; trimming yields max 1 size (array) / the next power of two (deque) and preserves contents; a hash table
    holds at most capacity x load-factor entries after every insertion provided 1 <= capacity x load-factor
    (refuted below that: known finding D38). Geometric growth: one expansion multiplies the capacity by the
    factor (array/pqueue: floor(c*num/den), at least c*(num+den)/(2den) once c*(num-den) >= 2den; deque and
    hash table: exactly 2), so k expansions reach c*r^k and n appends need O(log n) reallocations; the exact
    number of buffer allocations is compared between model and code by the ledger's request counter."""
IMPORTS = """From Coq Require Import Permutation Sorted.\nFrom CC Require Import Base.Prelude Base.Alloc Base.Ledger Generated.Status Generated.Constants Generated.Guards Generated.Funcs.\nFrom CC Require Import Rbuf.RbufModel SPool.SPoolModel DPool.DPoolModel Array.ArrayModel Deque.DequeModel PQueue.PQueueModel Hash.HashModel Tst.TstModel Tree.TreeModel.\n@MODULES@\nLocal Open Scope N_scope."""
THEOREMS = [
  ("C20_array_size_le_capacity", "arr_size_le_capacity", ""),
  ("C20_array_growth", "Array:expand_spec", "capacity' = floor(capacity*num/den) > capacity, contents unchanged"),
  ("C20_array_growth_rate", "growth_rate", "the per-step growth factor"),
  ("C20_array_trim", "Array:trim_spec", "trim: capacity = max 1 size"),
  ("C20_array_stuck_refuted", "arr_growth_stuck_refuted", "known finding D11 (array)"),
  ("C20_pqueue_size_le_capacity", "pqT_size_le_capacity", ""),
  ("C20_pqueue_growth_rate", "grow_cap_rate", ""),
  ("C20_pqueue_growth_iter", "grow_cap_iter", "k expansions: c*(num+den)^k <= cap_k*(2den)^k"),
  ("C20_pqueue_stuck_refuted", "pq_growth_stuck_refuted", "known finding D11: with capacity*(factor-1) < 1 the computed capacity does not grow and the next push fails forever"),
  ("C20_deque_capacity", "deque_capacity_facts", "size <= capacity = 2^k"),
  ("C20_deque_trim", "deque_trim_capacity", ""),
  ("C20_deque_growth", "deque_growth_doubles", ""),
  ("C20_hashtable_pow2", "ht_cap_pow2", ""),
  ("C20_hashtable_round_pow_two_source", "round_pow_two_is_source", "the model's round_pow_two is the whole-function translation of the source's (re-translated and compared on every run: Generated/SrcEq_hashtable.v)"),
  ("C20_deque_upper_pow_two_source", "upper_pow_two_is_source", "the model's upper_pow_two is the whole-function translation of the source's (Generated/SrcEq_deque.v)"),
  ("C20_hashtable_load", "ht_run_load", "size <= threshold after every add, for all histories, under 1 <= threshold"),
  ("C20_hashtable_load_refuted", "ht_load_refuted", "known finding D38"),
]
