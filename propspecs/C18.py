PID = "C18"
HEADER = """C18 - sorting yields an ordered permutation; the in-place list sort is stable.
    cc_array_sort / cc_array_sized_sort / cc_list_sort / cc_slist_sort delegate to libc qsort, which is not
    verified: it is a function parameter [sorter] with the hypothesis that it returns a sorted permutation (T6).
    What is proved is the glue: the array hands exactly its live prefix to the sorter; the lists copy their
    elements to a temporary array, sort it, and write the values back through the nodes in order - so under the
    hypothesis the container holds a sorted permutation, its size / ends / links are unchanged, and the early exits
    (empty list: ERR_INVALID_RANGE for cc_list, single-element slist: OK) change nothing.
    cc_list_sort_in_place is the library's own merge sort (split on sizes n/2, n/2 + n%2; merge by moving
    right-partition nodes in front of the left cursor with link_behind): transcribed literally and proved equal
    to the stable insertion sort of the old sequence under a total-preorder comparator - hence sorted, a
    permutation, stable, and the list is well formed afterwards (size, head, tail, next and prev chains)."""
IMPORTS = """From Coq Require Import Permutation Sorted.\nFrom CC Require Import Base.Prelude Base.Alloc Base.Ledger Generated.Status Generated.Constants Generated.Guards.\nFrom CC Require Import Array.ArrayModel List_.ListModel SList.SListModel.\n@MODULES@\nLocal Open Scope N_scope."""
THEOREMS = [
  ("C18_array_sort", "arr_sort_spec", "CC_Array (and CC_ArraySized, replayed against the same model)"),
  ("C18_list_sort", "List_:sort_spec", "CC_List sort: to_array + sorter + write-back"),
  ("C18_list_sort_empty", "sort_empty", ""),
  ("C18_list_sort_sorted_perm", "sort_sorted_perm", ""),
  ("C18_list_sort_in_place", "sort_in_place_spec", "cc_list_sort_in_place = stable insertion sort of the old sequence, list well formed"),
  ("C18_list_sort_in_place_sorted_perm", "sort_in_place_sorted_perm", ""),
  ("C18_slist_sort", "ssort_spec", "CC_SList sort"),
  ("C18_slist_sort_single", "ssort_single", ""),
  ("C18_slist_sort_sorted_perm", "ssort_sorted_perm", ""),
]
