PID = "C14"
HEADER = """C14 - containers use only their configured allocators.
    Every block in the ledger carries the family (Conf = the triple passed in the *_conf struct, Libc = malloc /
    calloc / free named directly in the C text) through which it was requested, and a release through the other
    family is a model fault. Per engine: every block an operation adds carries the container's own tag, derived
    containers inherit it, and - since no step faults (C06) - every release went through the same family.
    The tag in the model is a transcription of which identifier the C text calls; what makes that transcription
    checked is the correspondence run, where the library's malloc/calloc/free are macro-redirected to a second
    ledger and every trace is run with a custom triple: any traffic on the wrong ledger is a mismatch."""
IMPORTS = """From Coq Require Import Permutation Sorted.\nFrom CC Require Import Base.Prelude Base.Alloc Base.Ledger Generated.Status Generated.Constants Generated.Guards.\nFrom CC Require Import Rbuf.RbufModel SPool.SPoolModel DPool.DPoolModel Array.ArrayModel Deque.DequeModel PQueue.PQueueModel Hash.HashModel Tst.TstModel Tree.TreeModel List_.ListModel SList.SListModel.\n@MODULES@\nLocal Open Scope N_scope."""
THEOREMS = [
  ("C14_array_step", "arr_step_tags", "CC_Array: one operation"),
  ("C14_array_run", "arr_run_tags", "CC_Array: all histories"),
  ("C14_array_derive", "derive_tags", "CC_Array: subarray / copies / filter allocate with the source's family and the result inherits it"),
  ("C14_deque_run", "deque_run_ledger", "CC_Deque"),
  ("C14_pqueue_run", "pqT_run_tags", "CC_PQueue"),
  ("C14_hashtable", "ht_tags", "CC_HashTable (incl. the arrays built by get_keys / get_values)"),
  ("C14_tst_step", "tst_step_tags", "CC_TSTTable"),
  ("C14_tst_new", "tst_new_tags", ""),
  ("C14_tst_destroy", "tst_destroy_tags", ""),
  ("C14_rbuf", "rb_new_destroy_balanced", "CC_Rbuf: both blocks requested and released with the configured family"),
  ("C14_dpool_malloc", "dp_malloc_spec", "CC_DynamicPool: new pages are requested from the pool's own family"),
  ("C14_list_copy", "List_:copy_with_spec", "CC_List: derived lists are built with the source's allocator family (contents, result well formed, tag)"),
  ("C14_list_filter", "List_:filter_spec", ""),
  ("C14_slist_copy", "scopy_with_spec", "CC_SList"),
  ("C14_slist_filter", "sfilter_spec", ""),
  ("C14_slist_sublist", "ssublist_spec", ""),
]
