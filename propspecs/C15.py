PID = "C15"
HEADER = """C15 - derived containers are exact and independent.
    Content: the result holds exactly the selected elements in source order (copy function images for deep
    copies). Source: unchanged and still satisfying its invariant. Usability: the result satisfies the engine
    invariant with the source's configuration (capacity, expansion factor, allocator family), so every later
    history on it is refined by the engine's refinement theorem - in particular it can grow. Independence of the
    two afterwards cannot be expressed in a functional model (no shared buffer exists there); it is tied by
    two-handle correspondence traces that mutate and destroy either side and re-observe the other."""
IMPORTS = """From Coq Require Import Permutation Sorted.\nFrom CC Require Import Base.Prelude Base.Alloc Base.Ledger Generated.Status Generated.Constants Generated.Guards.\nFrom CC Require Import Rbuf.RbufModel SPool.SPoolModel DPool.DPoolModel Array.ArrayModel Deque.DequeModel PQueue.PQueueModel Hash.HashModel Tst.TstModel Tree.TreeModel List_.ListModel SList.SListModel.\n@MODULES@\nLocal Open Scope N_scope."""
THEOREMS = [
  ("C15_array_subarray", "subarray_spec", "CC_Array subarray: all b, e below 2^64; invalid ranges rejected with nothing allocated"),
  ("C15_array_copy_shallow", "copy_shallow_spec", ""),
  ("C15_array_copy_deep", "copy_deep_spec", ""),
  ("C15_array_filter", "Array:filter_spec", ""),
  ("C15_stack_filter", "stack_filter_spec", "CC_Stack filter: a stack of its own (fresh header and array blocks from the source's allocator family, the source's capacity) holding exactly the kept elements in order; empty source rejected; a refused allocation leaves nothing behind"),
  ("C15_deque_copy", "Deque:copy_spec", "CC_Deque copy_shallow / copy_deep from every layout (linearised, order preserved)"),
  ("C15_deque_filter", "Deque:filter_spec", ""),
  ("C15_hashtable_keys_values", "ht_collect_content", "CC_HashTable get_keys / get_values: exactly the bindings, table unchanged"),
  ("C15_hashtable_collect", "ht_collect_spec", ""),
  ("C15_list_sublist", "List_:sublist_spec", "CC_List sublist / copy_shallow / copy_deep / filter"),
  ("C15_list_copy", "List_:copy_with_spec", ""),
  ("C15_list_filter", "List_:filter_spec", ""),
  ("C15_slist_sublist", "ssublist_spec", "CC_SList"),
  ("C15_slist_copy", "scopy_with_spec", ""),
  ("C15_slist_filter", "sfilter_spec", ""),
]
