PID = "C09"
HEADER = """C09 - CC_Stack is LIFO and CC_Queue is FIFO.
    Stack: the abstract stack is the array contents, bottom first; push appends, pop/peek take the last element,
    errors on empty leave the stack unchanged (pop returns the same stack). Queue: enqueue = add_first and
    poll = remove_last of the deque model, refined against the ideal list by the deque theorems (none of
    these operations touches the defective add_at branches), for all histories, growth steps and wrap-arounds."""
IMPORTS = """From Coq Require Import Permutation Sorted.
From CC Require Import Base.Prelude Base.Alloc Base.Ledger Generated.Status Generated.Guards.
From CC Require Import Array.ArrayModel Array.ArrayProofs Array.ArrayRefine Array.ArrayMore Array.ArrayStack.
From CC Require Import Deque.DequeModel Deque.DequeProofs Deque.DequeProofs2 Deque.DequeProofs3 Deque.DequeProofs4 Deque.DequeProofs5.
Local Open Scope N_scope."""
THEOREMS = [
  ("C09_stack_push", "stack_push_spec", "push: the new element becomes the top; a refused growth leaves the stack unchanged"),
  ("C09_stack_pop", "stack_pop_spec", "pop returns and removes the most recently pushed element not yet popped; empty: error, same stack"),
  ("C09_stack_peek", "stack_peek_spec", "peek returns that same element without change"),
  ("C09_stack_filter", "stack_filter_spec", "filter: the derived stack holds the kept elements bottom to top (so it pops them in the same relative order)"),
  ("C09_stack_iter", "it_fresh_complete", "iteration over the underlying array observes exactly the live elements, bottom to top"),
  ("C09_queue_step_refines", "queue_step_refines", "one queue operation refines the ideal FIFO list"),
  ("C09_queue_run_refines", "queue_run_refines", "all enqueue/poll/peek histories"),
  ("C09_queue_new", "q_new_conf_spec", "constructor, any capacity; a refusal leaves nothing behind"),
  ("C09_queue_destroy", "q_destroy_spec", "destroy releases the wrapper and the deque"),
]
FOOTER = ""
