PID = "C06"
HEADER = """C06 - memory safety and leak freedom on every contract-respecting history (the part a model can carry).
    Every engine model executes the C algorithm against explicit memory: checked buffer indices (an access at or
    beyond the allocated slot count, a read of a never-written slot, a NULL or dangling node) and a ledger of
    blocks (a release of a block that is not live, or through the other allocator family) make the step return
    [Fault]. The theorems say: from any state satisfying the invariant - hence after any history from the
    constructor - no operation faults, and destroy returns the ledger to its state before the constructor (each
    block released exactly once; a second release would be a fault). What ties this to the compiled code is the
    correspondence run under AddressSanitizer/UBSan, where a model [Fault] must coincide with a sanitizer abort."""
IMPORTS = """From Coq Require Import Permutation Sorted.\nFrom CC Require Import Base.Prelude Base.Alloc Base.Ledger Generated.Status Generated.Constants Generated.Guards.\nFrom CC Require Import Rbuf.RbufModel SPool.SPoolModel DPool.DPoolModel Array.ArrayModel Deque.DequeModel PQueue.PQueueModel Hash.HashModel Tst.TstModel Tree.TreeModel List_.ListModel SList.SListModel.\n@MODULES@\nLocal Open Scope N_scope."""
THEOREMS = [
  ("C06_rbuf_no_fault", "rb_run_no_fault", "CC_Rbuf: no history faults"),
  ("C06_rbuf_balanced", "rb_new_destroy_balanced", "CC_Rbuf: destroy releases exactly the two blocks of the constructor"),
  ("C06_array_run", "arr_run_refines", "CC_Array: every history returns Ok (no fault) and keeps the ownership invariant"),
  ("C06_array_new_total", "arr_new_total", "CC_Array: the constructor over EVERY machine-word capacity (since fix 9e3425e a capacity whose byte size overflows is refused; before, capacity 2^61 gave a 0-byte buffer)"),
  ("C06_array_destroy", "arr_destroy_spec", "CC_Array: destroy releases header and buffer, nothing else"),
  ("C06_array_derive", "derive_spec", "CC_Array: derived arrays own two fresh blocks; a refused request leaves the ledger as it was"),
  ("C06_deque_no_fault", "deque_step_no_fault", "CC_Deque: no step faults (add_at only in the branches the model classifies as sound)"),
  ("C06_deque_life", "deque_life_balanced", "CC_Deque: constructor, any history, destroy: the ledger is back where it started"),
  ("C06_deque_destroy_cb", "Deque:destroy_cb_spec", "CC_Deque: destroy_cb hands each held element to the callback once, in order"),
  ("C06_pqueue_no_fault", "pqT_fuel_suffices", "CC_PQueue: no fault of any kind (heapify's recursion included)"),
  ("C06_pqueue_new_no_fault", "pq_new_no_fault", "CC_PQueue: the constructor never faults, whatever the capacity and factor"),
  ("C06_pqueue_new_total", "pq_new_run_refines_total", "CC_PQueue: every history from the constructor, with no assumption on the capacity's byte size"),
  ("C06_pqueue_destroy", "pqT_run_destroy", "CC_PQueue: destroy after any history; destroy_cb calls the callback once per element"),
  ("C06_hashtable_no_fault", "ht_run_no_fault", "CC_HashTable: no history faults"),
  ("C06_hashtable_destroy", "ht_destroy_balanced", "CC_HashTable: destroy releases header, bucket array and every entry"),
  ("C06_tst_remove_all", "tst_remove_all_balanced", "CC_TSTTable: remove_all / destroy release every node and every entry"),
  ("C06_tst_destroy", "tst_new_destroy_balanced", ""),
  ("C06_treetable_run", "T_run_refines", "CC_TreeTable: every history returns Ok"),
  ("C06_dpool_run", "dp_run_ok", "CC_DynamicPool: every history keeps the invariant and the ownership of its pages"),
  ("C06_dpool_destroy", "dp_destroy_spec", "CC_DynamicPool: destroy releases the header and every page exactly once"),
  ("C06_dpool_reset", "dp_reset_spec", "CC_DynamicPool: reset releases every page but the oldest, exactly once"),
  ("C06_spool_run", "sp_run_inv", "CC_StaticPool: every history keeps blocks inside the caller's region"),
  ("C06_list_destroy", "List_:destroy_spec", "CC_List: destroy releases the header and every node exactly once"),
  ("C06_list_destroy_cb", "List_:destroy_cb_spec", "CC_List: destroy_cb / remove_all_cb call the callback once per element, in order"),
  ("C06_list_run", "list_run_refines", "CC_List: every two-list history returns Ok (no NULL / dangling node access in the explicit node heap)"),
  ("C06_slist_destroy", "sdestroy_spec", "CC_SList"),
  ("C06_slist_destroy_cb", "sdestroy_cb_spec", ""),
]
