PID = "C07"
HEADER = """C07 - iterators traverse completely and in order; one-step mutation is safe.
    Per engine, the concrete iterator (index cursor; bucket cursor; zipper position with arrival direction; key
    cursor) is related to an ideal cursor over the abstract object: next yields the element under the cursor or
    ITER_END; a fresh iterator yields exactly the abstraction (sequence order for array/deque/stack/queue,
    ascending key order for the tree, some permutation for hash table and TST) at every fill level including
    exactly full and wrapped; remove / replace / add directly after a yield affect exactly that position and
    the rest of the traversal is exactly the not-yet-visited original elements; the reported index is the yielded
    element's position; zip iterators advance in lockstep and stop at the shorter container.
    CC_Deque's iter_add / zip_iter_add inherit the known cc_deque_add_at defect (D17): their lemma carries the
    model's branch guard."""
IMPORTS = """From Coq Require Import Permutation Sorted.\nFrom CC Require Import Base.Prelude Base.Alloc Base.Ledger Generated.Status Generated.Constants Generated.Guards.\nFrom CC Require Import Rbuf.RbufModel SPool.SPoolModel DPool.DPoolModel Array.ArrayModel Deque.DequeModel PQueue.PQueueModel Hash.HashModel Tst.TstModel Tree.TreeModel List_.ListModel SList.SListModel.\n@MODULES@\nLocal Open Scope N_scope."""
THEOREMS = [
  ("C07_array_next", "it_next_spec", "CC_Array / CC_Stack (the stack iterator is the array iterator)"),
  ("C07_array_traversal", "it_collect_spec", "a traversal from cursor k yields exactly the elements from k on"),
  ("C07_array_fresh_complete", "it_fresh_complete", ""),
  ("C07_array_remove", "it_remove_spec", "remove after a yield: exactly that element; prefix and not-yet-visited suffix unchanged; cursor steps back"),
  ("C07_array_add", "it_add_spec", "add after a yield: inserted at the cursor, cursor steps over it, suffix unchanged; refused growth: nothing moves"),
  ("C07_array_replace_index", "it_replace_spec", "replace and index refer to the yielded element's position"),
  ("C07_array_zip_next", "zip_next_spec", "zip: lockstep, stops at the shorter array"),
  ("C07_array_zip_remove", "zip_remove_spec", "zip remove after a yield: exactly the yielded pair leaves both arrays, the traversal continues with the unvisited pairs"),
  ("C07_array_zip_remove_twice", "zip_remove_twice", "zip remove twice without a new yield is refused"),
  ("C07_array_zip_replace", "zip_replace_spec", "zip replace after a yield: the yielded pair is overwritten in place in both arrays, nothing else changes"),
  ("C07_array_zip_range", "zip_mutators_range", "zip remove/replace before any yield or beyond the shorter array are refused and change nothing"),
  ("C07_array_zip_add", "zip_add_spec", "zip add after a yield: both arrays receive their element at the cursor and the cursor steps over the pair; a refused allocation leaves both contents and the cursor unchanged"),
  ("C07_deque_next", "Deque:iter_next_refines", "CC_Deque / CC_Queue, every layout"),
  ("C07_deque_fresh_complete", "Deque:iter_fresh_complete", "including exactly full and wrapped deques"),
  ("C07_deque_remove", "Deque:iter_remove_refines", ""),
  ("C07_deque_replace", "Deque:iter_replace_refines", ""),
  ("C07_deque_add_partial", "Deque:iter_add_refines", "under the add_at branch guard (known finding D17 otherwise)"),
  ("C07_deque_index", "Deque:iter_index_spec", ""),
  ("C07_deque_zip_next", "Deque:zip_next_refines", ""),
  ("C07_deque_zip_remove", "Deque:zip_remove_refines", ""),
  ("C07_deque_zip_replace", "Deque:zip_replace_refines", ""),
  ("C07_hashtable_next", "Hash:iter_next_spec", "CC_HashTable / CC_HashSet: some order, each entry once"),
  ("C07_hashtable_remove", "Hash:iter_remove_spec", "removal through the iterator deletes exactly the yielded key; the rest of the traversal is unaffected"),
  ("C07_hashtable_traversal", "ht_iter_all_spec", ""),
  ("C07_tst_next", "Tst:iter_next_spec", "CC_TSTTable: pre-order automaton, each key once"),
  ("C07_tst_remove", "Tst:iter_remove_spec", ""),
  ("C07_tst_enumeration", "tst_enumeration", ""),
  ("C07_treetable_inorder", "T_inorder", "CC_TreeTable / CC_TreeSet: every key once, strictly ascending, then ITER_END"),
  ("C07_treetable_remove", "T_iter_remove", ""),
  ("C07_list_next_yield", "List_:iter_next_yield", "CC_List forward iterator"),
  ("C07_list_next_end", "List_:iter_next_end", ""),
  ("C07_list_fresh_complete", "List_:iter_fresh_complete", ""),
  ("C07_list_index", "List_:iter_index_spec", ""),
  ("C07_list_replace", "List_:iter_replace_spec", ""),
  ("C07_list_remove", "List_:iter_remove_spec", ""),
  ("C07_list_add", "List_:iter_add_spec", "add after a yield (any number of adds: the last added comes first), tail kept correct"),
  ("C07_list_diter_fresh_complete", "diter_fresh_complete", "CC_List descending iterator: the exact reverse"),
  ("C07_list_diter_index", "diter_index_spec", ""),
  ("C07_list_diter_remove", "diter_remove_spec", ""),
  ("C07_list_diter_add", "diter_add_spec", ""),
  ("C07_list_zip_next_yield", "List_:zip_next_yield", "CC_List zip iterator: lockstep"),
  ("C07_list_zip_fresh_complete", "List_:zip_fresh_complete", "stops at the shorter list"),
  ("C07_slist_next_yield", "siter_next_yield", "CC_SList forward iterator"),
  ("C07_slist_fresh_complete", "siter_fresh_complete", ""),
  ("C07_slist_index", "siter_index_spec", ""),
  ("C07_slist_replace", "siter_replace_spec", ""),
  ("C07_slist_remove", "siter_remove_spec", ""),
  ("C07_slist_add", "siter_add_spec", ""),
  ("C07_slist_zip_fresh_complete", "szip_fresh_complete", ""),
]
