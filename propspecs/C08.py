PID = "C08"
HEADER = """C08 - a failed allocation is atomic: error status, nothing changed, nothing leaked.
    The allocator of every model is a ledger with a fault plan: any request can be refused, for every plan (a
    universally quantified list of answers, so 'the k-th allocation fails for every k' and every combination of
    failures is covered by the quantifier). Per engine: when the operation reports the allocation error, the
    whole model state is the state before the call (not merely the abstraction), the live blocks are the same,
    and the invariant still holds - so by the refinement theorems every later operation behaves as if the failed
    call had never happened. Constructors and derived-container builders return no object and leave the ledger
    as it was."""
IMPORTS = """From Coq Require Import Permutation Sorted.\nFrom CC Require Import Base.Prelude Base.Alloc Base.Ledger Generated.Status Generated.Constants Generated.Guards.\nFrom CC Require Import Rbuf.RbufModel SPool.SPoolModel DPool.DPoolModel Array.ArrayModel Deque.DequeModel PQueue.PQueueModel Hash.HashModel Tst.TstModel Tree.TreeModel List_.ListModel SList.SListModel.\n@MODULES@\nLocal Open Scope N_scope."""
THEOREMS = [
  ("C08_array_growth", "Array:expand_spec", "CC_Array growth: new buffer first, commit after; refusal = same array, one refused request"),
  ("C08_array_add", "Array:add_spec", "CC_Array add / add_at / trim / iterator add: the same"),
  ("C08_array_add_at", "Array:add_at_spec", ""),
  ("C08_array_trim", "Array:trim_spec", ""),
  ("C08_array_iter_add", "it_add_spec", "the iterator's cursor is not advanced when the insertion is refused"),
  ("C08_array_new", "arr_new_spec", "constructor: no object, ledger unchanged"),
  ("C08_array_derive", "derive_spec", "subarray / copy_shallow / copy_deep / filter: no object, ledger unchanged, source invariant kept"),
  ("C08_stack_push", "stack_push_spec", "CC_Stack push"),
  ("C08_deque", "deque_alloc_atomic", "CC_Deque: every allocating operation"),
  ("C08_deque_new", "Deque:new_conf_spec", "CC_Deque constructor"),
  ("C08_deque_copy", "Deque:copy_spec", "CC_Deque copies and filter"),
  ("C08_deque_filter", "Deque:filter_spec", ""),
  ("C08_queue_new", "q_new_conf_spec", "CC_Queue constructor (wrapper released when the inner deque cannot be built)"),
  ("C08_pqueue", "pqT_alloc_atomic", "CC_PQueue push"),
  ("C08_pqueue_new", "pq_new_refused_clean", ""),
  ("C08_hashtable_add", "ht_add_alloc_atomic", "CC_HashTable add: the entry allocation may fail after a successful resize - the abstract map, every lookup and the invariant are preserved"),
  ("C08_hashtable_collect", "ht_collect_alloc_atomic", "CC_HashTable get_keys / get_values"),
  ("C08_tst_add", "tst_add_alloc_atomic", "CC_TSTTable add: the partially built chain is released"),
  ("C08_treetable", "T_step_refines", "CC_TreeTable: ERR_ALLOC only from add, state unchanged (part of the step theorem)"),
  ("C08_rbuf_new", "rb_new_refused_clean", "CC_Rbuf constructor"),
  ("C08_dpool_new", "dp_new_spec", "CC_DynamicPool constructor; a refused page request makes malloc return NULL with the pool unchanged (C13_malloc)"),
  ("C08_list_frame", "List_:step_frame", "CC_List: any step with a non-OK status (incl. ERR_ALLOC in add, add_at, add_all's external chain, iterator add) leaves both lists and the live blocks equal"),
  ("C08_slist_frame", "sstep_frame", "CC_SList"),
  ("C08_list_copy", "List_:copy_with_spec", "CC_List copies / filter / sublist: a refusal part-way releases the partial result"),
  ("C08_list_sublist", "List_:sublist_spec", ""),
]
