#!/bin/sh
# usage: tools/seedtest.sh <seed dir with patch.diff demo.c meta.json> [check ids...]
# Confirms a seeded change: (1) applies to a scratch copy of /repo, (2) the 16 unit tests still pass,
# (3) demo.c passes on /repo and fails on the changed copy, (4) runs the listed checks (default: the
# property in meta.json) against the changed copy and reports whether each raised VIOLATION.
D=$(realpath $1); shift
PID=$(python3 -c "import json,sys; print(json.load(open('$D/meta.json'))['property'])")
CHECKS=${*:-$PID}
S=$(mktemp -d /tmp/seedchk.XXXXXX)
trap 'rm -rf "$S"' EXIT
rsync -a --exclude _build --exclude .git /repo/ "$S/repo/"
( cd "$S/repo" && patch -p1 -s < "$(realpath $D/patch.diff)" ) || { echo "RESULT patch=FAILED"; exit 2; }
if /verif/tools/baseline.sh "$S/repo" > "$S/tests.log" 2>&1; then T=pass; else T=FAIL; fi
cc() { gcc -O1 -g -fsanitize=address,undefined -fno-sanitize-recover=all -w -I$1/src/include -o $2 $D/demo.c $1/src/*.c $1/src/sized/*.c $1/src/memory/*.c 2> "$S/cc.log"; }
cc /repo "$S/demo_orig" && (cd "$S" && ASAN_OPTIONS=detect_leaks=0 timeout 60 ./demo_orig >/dev/null 2>&1; echo $? > "$S/rc_orig") || echo 99 > "$S/rc_orig"
cc "$S/repo" "$S/demo_mut" && (cd "$S" && ASAN_OPTIONS=detect_leaks=0 timeout 60 ./demo_mut >/dev/null 2>&1; echo $? > "$S/rc_mut") || echo 99 > "$S/rc_mut"
echo "RESULT property=$PID tests=$T demo_on_original=$(cat $S/rc_orig) demo_on_changed=$(cat $S/rc_mut)"
cd /verif
for c in $CHECKS; do
  out=$(VERIF_REPO="$S/repo" timeout 1500 ./check $c 2>&1 | grep -c "^VIOLATION")
  first=$(ls replays/$c-*.trace 2>/dev/null | head -1)
  echo "CHECK $c violations=$out $( [ -n "$first" ] && sed -n '1,4p' $first | tr '\n' ' ' | cut -c1-400 )"
done
