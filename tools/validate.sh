#!/bin/sh
# validate MANIFEST.json and every evidence file against the schemas
cd /verif && python3-vt - <<'PY'
import json, jsonschema, glob
jsonschema.validate(json.load(open('MANIFEST.json')), json.load(open('/root/.vp/MANIFEST.schema.json')))
s = json.load(open('/root/.vp/EVIDENCE.schema.json'))
m = json.load(open('MANIFEST.json'))
n = 0
for c in m['checks']:
    jsonschema.validate(json.load(open(c['evidence_file'])), s); n += 1
print('manifest + %d evidence files valid' % n)
PY
