#!/bin/sh
# validate MANIFEST.json and every evidence file against the schemas
cd /verif && python3-vt - <<'PY'
import json, jsonschema, glob
jsonschema.validate(json.load(open('MANIFEST.json')), json.load(open('/root/.vp/MANIFEST.schema.json')))
s = json.load(open('/root/.vp/EVIDENCE.schema.json'))
for f in sorted(glob.glob('evidence/*.json')):
    jsonschema.validate(json.load(open(f)), s)
print('manifest + %d evidence files valid' % len(glob.glob('evidence/*.json')))
PY
