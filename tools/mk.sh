#!/bin/sh
# usage: tools/mk.sh <E>/<E>Proofs.vo [more .vo targets]   -- under the shared build lock:
# regenerate coq/Generated from /repo, then `make` exactly these targets (and what they depend on).
cd /verif && exec python3 - "$@" <<'PY'
import sys
sys.path.insert(0, "lib")
import core
with core.Lock("build.lock"):
    rep = core.regenerate()
    if rep.get("fallback"): print("translator fallbacks:", rep["fallback"])
    ok, out = core.coq_make(sys.argv[1:], keep_going=False)
print(out[-6000:])
sys.exit(0 if ok else 1)
PY
