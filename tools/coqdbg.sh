#!/bin/sh
# usage: coqdbg.sh File.v LINE [maxlines] -- compile a copy truncated at LINE where that line is replaced by "Show."
# prints the first goal (with hypotheses) at that point
cd /verif/coq; f=$1; n=$2
d=$(dirname $f); b=$(basename $f .v)
sed "${n}s/.*/ Show. /" $f | awk -v n=$n 'NR<=n{print} NR==n{print "Abort All."; exit}' > $d/Dbg_$b.v
timeout 300 coqc -Q . CC $d/Dbg_$b.v 2>&1 | awk '/^goal 2 is:/{exit} {print}' | grep -v "^Warning:\|^Command Abort\|undo-batch\|^File.*Dbg_" | tail -${3:-45}
rm -f $d/Dbg_$b.v $d/Dbg_$b.vo $d/Dbg_$b.glob $d/.Dbg_$b.aux $d/Dbg_$b.vok $d/Dbg_$b.vos
