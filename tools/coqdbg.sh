#!/bin/sh
# usage: coqdbg.sh File.v LINE  -- replace line LINE by "Show. Abort All." (prints the goal there), compile copy
cd /verif/coq; f=$1; n=$2
d=$(dirname $f); b=$(basename $f .v)
sed "${n}s/.*/ Show. /" $f | awk -v n=$n 'NR<=n{print} NR==n{print "Abort All."; exit}' > $d/Dbg_$b.v
cd /verif/coq && timeout 300 coqc -Q . CC $d/Dbg_$b.v 2>&1 | tail -${3:-40}
rm -f $d/Dbg_$b.v $d/Dbg_$b.vo $d/Dbg_$b.glob $d/.Dbg_$b.aux $d/Dbg_$b.vok $d/Dbg_$b.vos
