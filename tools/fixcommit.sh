#!/bin/sh
# usage: fixcommit.sh "<message>"   -- run the unedited test-suite on /repo's working tree, commit if green
cd /repo || exit 2
if /verif/tools/baseline.sh /repo > /tmp/fix_baseline.log 2>&1; then
  git commit -qam "$1" && git log --oneline | head -1
else
  cat /tmp/fix_baseline.log; echo "TESTS FAILED - not committed"; exit 1
fi
