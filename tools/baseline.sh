#!/bin/sh
# Configure, build and run the 16 ctest targets of /repo (or $1) in a fresh temporary directory.
# The guard CC_VERIF is OFF (no hooks exist). Exit 0 iff all tests pass.
SRC=${1:-/repo}
B=$(mktemp -d /tmp/ccbase.XXXXXX)
trap 'rm -rf "$B"' EXIT
cmake -G Ninja -S "$SRC" -B "$B" >"$B/cfg.log" 2>&1 || { cat "$B/cfg.log"; exit 2; }
cmake --build "$B" >"$B/build.log" 2>&1 || { grep -B2 -A6 "error" "$B/build.log" | head -30; exit 2; }
ctest --test-dir "$B" -j8 --timeout 900 >"$B/ctest.log" 2>&1
rc=$?
tail -4 "$B/ctest.log"
grep -E "Failed|\*\*\*" "$B/ctest.log"
exit $rc
