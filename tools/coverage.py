#!/usr/bin/env python3
"""Which lines, branches and functions of /repo/src do the correspondence traces execute?
usage: tools/coverage.py [quick|thorough] [engine ...]      (diagnostic for the generators; not a check)
Builds each harness with gcc --coverage (no sanitizers), runs the engine's generated traces of the tier and
reports, per source file, line / branch coverage and the functions that were never entered."""
import sys, os, random, subprocess, tempfile, shutil, re, json
sys.path.insert(0, os.path.join(os.path.dirname(os.path.dirname(os.path.abspath(__file__))), "lib"))
import core, engines
tier = sys.argv[1] if len(sys.argv) > 1 and sys.argv[1] in ("quick", "thorough") else "quick"
names = [a for a in sys.argv[1:] if a not in ("quick", "thorough")] or sorted(engines.ENGINES)
total = {}
for e in names:
    w = tempfile.mkdtemp(prefix="cccov.")
    try:
        tr = engines.generate(e, random.Random(1), tier, "default")
        src = os.path.join(core.VERIF, "harness", e + ".c")
        cmd = ["gcc", "-O0", "-g", "--coverage", "-DVF_COVERAGE", "-w", "-I" + os.path.join(core.VERIF, "harness"),
               "-I" + os.path.join(core.REPO, "src", "include"), "-I" + os.path.join(core.REPO, "src"),
               "-I" + os.path.join(core.REPO, "src", "sized"), "-I" + os.path.join(core.REPO, "src", "memory"), "-o", os.path.join(w, "h"), src, "-lm"]
        r = subprocess.run(cmd, capture_output=True, text=True, cwd=w)
        if r.returncode: print(e, "build failed", r.stderr[-300:]); continue
        # chunks in sequence: the children of one process merge into one .gcda
        for part in core.chunked(tr, 8):
            text = "".join("\n".join(ls) + "\n" for _, ls in part)
            subprocess.run([os.path.join(w, "h")], input=text, capture_output=True, text=True, cwd=w)
        g = subprocess.run(["gcov", "-b", "-f", "-o", w, os.path.join(w, "h-" + e + ".gcno")], capture_output=True, text=True, cwd=w).stdout
        print("== %s (%s tier, %d traces)" % (e, tier, len(tr)))
        cur = None; never = {}; skipped = set(); fun_file = {}
        for m in re.finditer(r"(Function|File) '([^']+)'\nLines executed:([\d.]+)% of (\d+)(?:\nBranches executed:([\d.]+)% of (\d+)\nTaken at least once:([\d.]+)% of (\d+))?", g):
            kind, name, lp, ln = m.group(1), m.group(2), float(m.group(3)), int(m.group(4))
            if kind == "File" and "/src/" in name and name.endswith(".c"):
                f = name.split("/src/")[1]
                if lp == 0.0: skipped.add(f); continue        # a file this engine's harness includes but does not drive (pool backing)
                print("   %-28s lines %5.1f%% of %4d   branches taken %5s%% of %s" % (f, lp, ln, m.group(7) or "-", m.group(8) or "-"))
                total[f] = max(total.get(f, (0, 0)), (lp, ln))
            elif kind == "Function" and name.startswith("cc_") or (kind == "Function" and lp == 0.0 and not name.startswith(("vf_", "main", "do_", "run_", "h_", "obs", "print", "cmp", "pred", "enc", "dec", "visit", "red", "cp"))):
                if lp == 0.0: never[name] = ln
        never = {k: v for k, v in never.items() if not k.startswith(("cc_dynamic_pool", "cc_static_pool")) or e in ("dpool", "spool")}
        if never: print("   never entered: " + ", ".join(sorted(never)))
        if os.environ.get("COV_LINES"):
            for gf in sorted(os.listdir(w)):
                if gf.endswith(".c.gcov") and not gf.startswith(("h", e + ".c")):
                    miss = [l.split(":", 2) for l in open(os.path.join(w, gf)) if l.lstrip().startswith("#####")]
                    if miss and len(miss) < 80: print("   not executed in %s: %s" % (gf[:-5], " ".join(m[1].strip() for m in miss)))
    finally:
        shutil.rmtree(w, ignore_errors=True)
