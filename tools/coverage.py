#!/usr/bin/env python3
"""Which lines, branches and functions of /repo/src do the correspondence traces execute?
usage: tools/coverage.py [quick|thorough] [engine ...]      (diagnostic for the generators; not a check)
Builds each harness with gcc --coverage (no sanitizers), runs the engine's generated traces of the tier and
reports, per source file, line / branch coverage and the functions that were never entered."""
import sys, os, random, subprocess, tempfile, shutil, re, json
sys.path.insert(0, os.path.join(os.path.dirname(os.path.dirname(os.path.abspath(__file__))), "lib"))
import core, engines
tier = sys.argv[1] if len(sys.argv) > 1 and sys.argv[1] in ("quick", "thorough") else "quick"
names = [a for a in sys.argv[1:] if a not in ("quick", "thorough") and not a.startswith("--prop=")] or sorted(engines.ENGINES)
# --prop=Cnn: measure exactly the traces that property's check runs (its engines, modes, stratified sampling caps)
prop = next((a.split("=", 1)[1] for a in sys.argv[1:] if a.startswith("--prop=")), None)
plan = [(e, "default", None) for e in names]
if prop:
    import props, importlib.machinery, importlib.util
    loader = importlib.machinery.SourceFileLoader("chk", os.path.join(core.VERIF, "check")); spec_ = importlib.util.spec_from_loader("chk", loader)
    chk = importlib.util.module_from_spec(spec_); av = sys.argv; sys.argv = ["check"]
    try: loader.exec_module(chk)
    except SystemExit: pass
    sys.argv = av
    plan = [(ent[0], ent[1], ent[2] if len(ent) > 2 else None) for ent in props.PROPS[prop]["engines"] if not ent[1].startswith("pool-")]
total = {}
entered_all = set(); funcs_all = set()
rng0 = random.Random(1)
for e, mode, cap in plan:
    w = tempfile.mkdtemp(prefix="cccov.")
    try:
        tr = engines.generate(e, rng0 if prop else random.Random(1), tier, mode)
        if prop and cap and len(tr) > cap * (8 if tier != "quick" else 1): tr = chk.stratified(tr, cap * (8 if tier != "quick" else 1), rng0)
        src = os.path.join(core.VERIF, "harness", e + ".c")
        cmd = ["gcc", "-O0", "-g", "--coverage", "-DVF_COVERAGE", "-w", "-I" + os.path.join(core.VERIF, "harness"),
               "-I" + os.path.join(core.REPO, "src", "include"), "-I" + os.path.join(core.REPO, "src"),
               "-I" + os.path.join(core.REPO, "src", "sized"), "-I" + os.path.join(core.REPO, "src", "memory"), "-o", os.path.join(w, "h"), src, "-lm"]
        r = subprocess.run(cmd, capture_output=True, text=True, cwd=w)
        if r.returncode: print(e, "build failed", r.stderr[-300:]); continue
        # chunks in sequence: the children of one process merge into one .gcda
        for part in core.chunked(tr, 8):
            text = "".join("\n".join(ls) + "\n" for _, ls in part)
            subprocess.run([os.path.join(w, "h")], input=text, capture_output=True, text=True, cwd=w)
        g = subprocess.run(["gcov", "-b", "-f", "-o", w, os.path.join(w, "h-" + e + ".gcno")], capture_output=True, text=True, cwd=w).stdout
        print("== %s%s (%s tier, %d traces)" % (e, " mode=" + mode if prop else "", tier, len(tr)))
        cur = None; never = {}; skipped = set(); fun_file = {}
        for m in re.finditer(r"(Function|File) '([^']+)'\nLines executed:([\d.]+)% of (\d+)(?:\nBranches executed:([\d.]+)% of (\d+)\nTaken at least once:([\d.]+)% of (\d+))?", g):
            kind, name, lp, ln = m.group(1), m.group(2), float(m.group(3)), int(m.group(4))
            if kind == "File" and "/src/" in name and name.endswith(".c"):
                f = name.split("/src/")[1]
                if lp == 0.0: skipped.add(f); continue        # a file this engine's harness includes but does not drive (pool backing)
                print("   %-28s lines %5.1f%% of %4d   branches taken %5s%% of %s" % (f, lp, ln, m.group(7) or "-", m.group(8) or "-"))
                total[f] = max(total.get(f, (0, 0)), (lp, ln))
            if kind == "Function":
                funcs_all.add(name)
                if lp > 0.0: entered_all.add(name)
            if kind == "File": pass
            elif kind == "Function" and name.startswith("cc_") or (kind == "Function" and lp == 0.0 and not name.startswith(("vf_", "main", "do_", "run_", "h_", "obs", "print", "cmp", "pred", "enc", "dec", "visit", "red", "cp"))):
                if lp == 0.0: never[name] = ln
        never = {k: v for k, v in never.items() if not k.startswith(("cc_dynamic_pool", "cc_static_pool")) or e in ("dpool", "spool")}
        if never: print("   never entered: " + ", ".join(sorted(never)))
        if os.environ.get("COV_LINES"):
            for gf in sorted(os.listdir(w)):
                if gf.endswith(".c.gcov") and not gf.startswith(("h", e + ".c")):
                    miss = [l.split(":", 2) for l in open(os.path.join(w, gf)) if l.lstrip().startswith("#####")]
                    if miss and len(miss) < 80: print("   not executed in %s: %s" % (gf[:-5], " ".join(m[1].strip() for m in miss)))
    finally:
        shutil.rmtree(w, ignore_errors=True)

if prop:
    miss = sorted(f for f in funcs_all - entered_all if f.startswith("cc_") and not f.endswith(("struct_size", "get_buffer")))
    print("## %s: library functions entered by none of its engine runs: %s" % (prop, ", ".join(miss) or "-"))
