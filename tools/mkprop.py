#!/usr/bin/env python3
"""Generate coq/Properties/<Cnn>.v from a spec: the statement of every listed lemma is printed by Coq
(`Check`), pasted as `Theorem <name> : <statement>. Proof. exact <lemma>. Qed. Print Assumptions <name>.`
so that the property file shows the full statement and is re-checked by coqc like any hand-written file.
usage: mkprop.py <spec.py>     (spec defines HEADER (comment text), IMPORTS (Coq lines), THEOREMS = [(name, lemma, comment)], FOOTER)
"""
import sys, os, re, subprocess, importlib.util
V = os.path.dirname(os.path.dirname(os.path.abspath(__file__)))
spec_path = sys.argv[1]
sp = importlib.util.spec_from_file_location("spec", spec_path); m = importlib.util.module_from_spec(sp); sp.loader.exec_module(m)
pid = m.PID
# resolve bare lemma names ("name" or "Dir:name") to fully qualified ones by scanning the development
import glob
index = {}
for f in glob.glob(os.path.join(V, "coq", "*", "*.v")):
    d, b = f.split(os.sep)[-2], os.path.basename(f)[:-2]
    if d in ("Properties", "Generated") or b == "Extract" or b.startswith("Dbg_") or b.startswith("Probe_"): continue
    for mm in re.finditer(r"^\s*(?:Theorem|Lemma|Corollary|Fact)\s+([\w']+)", open(f).read(), re.M):
        index.setdefault(mm.group(1), []).append("CC.%s.%s" % (d, b))
def qualify(name):
    if name.startswith("CC."): return name
    hint = None
    if ":" in name: hint, name = name.split(":")
    cands = [c for c in index.get(name, []) if hint is None or ("." + hint + ".") in c + "."]
    if len(cands) != 1:
        print("cannot resolve lemma %r: candidates %s" % (name, index.get(name))); sys.exit(1)
    return cands[0] + "." + name
m.THEOREMS = [(n, qualify(l), c) for n, l, c in m.THEOREMS]
mods = sorted({l.rsplit(".", 1)[0] for _, l, _ in m.THEOREMS})
m.IMPORTS = m.IMPORTS.replace("@MODULES@", "From CC Require Import " + " ".join(x[3:] for x in mods) + ".")
# build everything the probe imports (under the shared lock)
targets = sorted(set(re.findall(r"\b((?:Base|Generated|Rbuf|SPool|DPool|Array|Deque|PQueue|Hash|Tst|Tree|List_|SList)\.\w+)", m.IMPORTS)))
r = subprocess.run([os.path.join(V, "tools", "mk.sh")] + [t.replace(".", "/") + ".vo" for t in targets], capture_output=True, text=True)
if r.returncode != 0:
    print(r.stdout[-3000:]); sys.exit(1)
probe = os.path.join(V, "coq", "Properties", "Probe_%s.v" % pid)
with open(probe, "w") as f:
    f.write(m.IMPORTS + "\nSet Printing Depth 100000.\nSet Printing Width 110.\n")
    for name, lemma, _ in m.THEOREMS:
        f.write('Check %s.\n' % lemma)
out = subprocess.run(["coqc", "-Q", ".", "CC", "Properties/Probe_%s.v" % pid], cwd=os.path.join(V, "coq"), capture_output=True, text=True)
for ext in (".v", ".vo", ".glob", ".vok", ".vos"):
    try: os.unlink(probe[:-2] + ext)
    except OSError: pass
try: os.unlink(os.path.join(V, "coq", "Properties", ".Probe_%s.aux" % pid))
except OSError: pass
if out.returncode != 0:
    print(out.stdout, out.stderr); sys.exit(1)
# split the output into one block per Check: each starts at column 0 with the (possibly qualified) lemma
# name, followed by ": " on the same or the next line
text = out.stdout
blocks = list(re.finditer(r"^[A-Za-z_][\w.']*[ \t]*\n?[ \t]+: ", text, re.M))
if len(blocks) != len(m.THEOREMS):
    print("expected %d Check outputs, found %d" % (len(m.THEOREMS), len(blocks))); print(text[:3000]); sys.exit(1)
stmts = []
for i, mm in enumerate(blocks):
    end = blocks[i + 1].start() if i + 1 < len(blocks) else len(text)
    stmts.append(text[mm.end():end].rstrip())
with open(os.path.join(V, "coq", "Properties", pid + ".v"), "w") as f:
    f.write("(** %s\n    (statements printed by Coq from the lemmas they are proved by - tools/mkprop.py; statements only) *)\n" % m.HEADER.strip())
    f.write(m.IMPORTS + "\n\n")
    for (name, lemma, comment), st in zip(m.THEOREMS, stmts):
        if comment: f.write("(** %s *)\n" % comment)
        f.write("Theorem %s :\n  %s.\nProof. exact %s. Qed.\nPrint Assumptions %s.\n\n" % (name, st.replace("\n", "\n  "), lemma, name))
    f.write(getattr(m, "FOOTER", ""))
print("wrote Properties/%s.v with %d theorems" % (pid, len(stmts)))
