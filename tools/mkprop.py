#!/usr/bin/env python3
"""Generate coq/Properties/<Cnn>.v from a spec: the statement of every listed lemma is printed by Coq
(`Check`), pasted as `Theorem <name> : <statement>. Proof. exact <lemma>. Qed. Print Assumptions <name>.`
so that the property file shows the full statement and is re-checked by coqc like any hand-written file.
usage: mkprop.py <spec.py>     (spec defines HEADER (comment text), IMPORTS (Coq lines), THEOREMS = [(name, lemma, comment)], FOOTER)
"""
import sys, os, re, subprocess, importlib.util
V = os.path.dirname(os.path.dirname(os.path.abspath(__file__)))
spec_path = sys.argv[1]
sp = importlib.util.spec_from_file_location("spec", spec_path); m = importlib.util.module_from_spec(sp); sp.loader.exec_module(m)
pid = m.PID
probe = os.path.join(V, "coq", "Properties", "Probe_%s.v" % pid)
with open(probe, "w") as f:
    f.write(m.IMPORTS + "\nSet Printing Depth 100000.\nSet Printing Width 110.\n")
    for name, lemma, _ in m.THEOREMS:
        f.write('Check %s.\n' % lemma)
out = subprocess.run(["coqc", "-Q", ".", "CC", "Properties/Probe_%s.v" % pid], cwd=os.path.join(V, "coq"), capture_output=True, text=True)
for ext in (".v", ".vo", ".glob", ".vok", ".vos"):
    try: os.unlink(probe[:-2] + ext)
    except OSError: pass
try: os.unlink(os.path.join(V, "coq", "Properties", ".Probe_%s.aux" % pid))
except OSError: pass
if out.returncode != 0:
    print(out.stdout, out.stderr); sys.exit(1)
# split the output into one block per Check: each starts with "<lemma>\n     : " 
text = out.stdout
blocks = []
pos = 0
for name, lemma, _ in m.THEOREMS:
    short = lemma.split(".")[-1]
    mm = re.compile(r"^%s\s*\n?\s*: " % re.escape(short), re.M).search(text, pos)
    if not mm:
        print("cannot find Check output for", lemma); print(text[pos:pos+500]); sys.exit(1)
    blocks.append(mm)
stmts = []
for i, mm in enumerate(blocks):
    end = blocks[i + 1].start() if i + 1 < len(blocks) else len(text)
    stmts.append(text[mm.end():end].rstrip())
with open(os.path.join(V, "coq", "Properties", pid + ".v"), "w") as f:
    f.write("(** %s\n    (statements printed by Coq from the lemmas they are proved by - tools/mkprop.py; statements only) *)\n" % m.HEADER.strip())
    f.write(m.IMPORTS + "\n\n")
    for (name, lemma, comment), st in zip(m.THEOREMS, stmts):
        if comment: f.write("(** %s *)\n" % comment)
        f.write("Theorem %s :\n  %s.\nProof. exact %s. Qed.\nPrint Assumptions %s.\n\n" % (name, st.replace("\n", "\n  "), lemma, name))
    f.write(getattr(m, "FOOTER", ""))
print("wrote Properties/%s.v with %d theorems" % (pid, len(stmts)))
