#!/usr/bin/env python3
"""Writes MANIFEST.json from lib/props.py (claimed properties) and the table below."""
import json, os, sys
V = os.path.dirname(os.path.dirname(os.path.abspath(__file__)))
sys.path.insert(0, os.path.join(V, "lib"))
import props, engines
ALL = ["C%02d" % i for i in range(1, 21)]
READY = set(open(os.path.join(V, "lib", "ready.txt")).read().split())
TRUST = ("Coq 8.16.1 kernel; hand-written Gallina model tied to /repo by (a) a differential correspondence check on exhaustive small scopes "
         "and seeded random traces (harness compiled from /repo's working tree with ASan/UBSan) and (b) constants/macros regenerated, and guard conditions / leaf functions re-translated and machine-proved equal to the model's terms (Generated/SrcEq_<engine>.v), from the C source "
         "by gen/extract.py on every run; extraction with ExtrOcamlBasic only; see DESIGN.md section 5")
checks = []
for pid in ALL:
    if pid not in props.PROPS or pid not in READY: continue
    p = props.PROPS[pid]
    checks.append({
        "property_id": pid,
        "quick_cmd": "./check %s --tier quick" % pid,
        "thorough_cmd": "./check %s --tier thorough" % pid,
        "evidence_file": "evidence/%s.json" % pid,
        "replay_cmd_template": "./check replay {path}",
        "engine": "+".join(dict.fromkeys(e[0] for e in p["engines"])),
        "level_claimed": {"category": "proof", "text": p["level_text"], "design_ref": "DESIGN.md section 4, " + pid},
        "level_note": p.get("level_note", TRUST),
        "technique": p.get("technique", "machine-checked Coq proof about an executable model + model/implementation correspondence check"),
    })
na = [{"property_id": pid, "reason": props.NOT_CLAIMED.get(pid, "no check registered yet: the engine model for this property has not been built in this revision")}
      for pid in ALL if pid not in props.PROPS or pid not in READY]
m = {"version": 1,
     "setup_cmd": "./check setup",
     "hooks": {"guard": "CC_VERIF", "enable": "no hooks are needed: harnesses #include the library .c files (white box) and redirect malloc/calloc/free by macro; -DCC_VERIF is reserved and unused",
               "baseline_off_cmd": "tools/baseline.sh", "source_commits": [], "add_only": True},
     "engines": [{"name": n, "path": "coq/%s" % d, "serves_properties": sorted(pid for pid, p in props.PROPS.items() if any(e[0] == n for e in p["engines"])),
                  "kind_free_text": "Gallina model + proofs, extracted OCaml interpreter, C harness harness/%s.c" % n} for n, d in sorted((n, m.DIR) for n, m in engines.ENGINES.items())],
     "checks": checks,
     "notes": "Known findings are listed in known_findings.txt; see DESIGN.md.",
     "not_applicable": na}
json.dump(m, open(os.path.join(V, "MANIFEST.json"), "w"), indent=1)
print("MANIFEST.json: %d checks, %d not claimed" % (len(checks), len(na)))
