#!/bin/sh
# usage: tools/seedall.sh [seed dirs...]   -- re-confirm every kept seeded change (default: all of seeded/C*) against
# the current machinery; one line per seed: caught / MISSED.  Overwrites evidence/ (re-run the checks on /repo afterwards).
cd /verif
[ $# -eq 0 ] && set -- seeded/C*
for d in "$@"; do
  r=$(tools/seedtest.sh $d 2>&1)
  v=$(echo "$r" | sed -n 's/^CHECK [A-Z0-9]* violations=\([0-9]*\).*/\1/p' | head -1)
  nf=$(echo "$r" | grep -c "no failing input found")
  t=$(echo "$r" | sed -n 's/^RESULT.*tests=\([a-zA-Z]*\).*/\1/p')
  if [ "${v:-0}" -gt 0 ]; then echo "$(basename $d) caught tests=$t $( [ $nf -gt 0 ] && echo '(no-failing-input-found)')"; else echo "$(basename $d) MISSED tests=$t :: $(echo "$r" | tail -1 | cut -c1-200)"; fi
done
echo SEEDALL-DONE
