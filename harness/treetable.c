/* Harness for CC_TreeTable / CC_TreeSet.
 * Header:  T <id> treetable <table|set> <num|rev|q4> <conf|libc> <full|lite> <pool: k1,k2,..|-> [plan=0110]
 * Line:    <op> <STATUS> <outs> | <public obs> L=a,b,c #T=<pre-order shape with colours> #K=<comparator calls>
 * The public observation goes through the API only; the shape dump and the red-black validation read the
 * public RBNode struct starting from the (white-box) root field of the table header. */
#include "common.h"
#include "cc_treetable.c"
#include "cc_treeset.c"

static CC_TreeTable *tab = NULL;
static CC_TreeSet *set = NULL;
static int isset = 0, full = 1 /* 0 lite, 1 full, 2 huge */, cmpmode = 0;
static unsigned long long ncmp = 0;
static uintptr_t pool[64]; static int npool = 0;
static CC_TreeTableIter iter; static CC_TreeSetIter siter; static int iter_ok = 0;

static int raw_cmp(const void *a, const void *b) {
    uintptr_t x = (uintptr_t)a, y = (uintptr_t)b;
    if (cmpmode == 2) { x /= 4; y /= 4; }
    if (cmpmode == 1) { uintptr_t t = x; x = y; y = t; }
    return x < y ? -3 : (x > y ? 5 : 0);   /* legal comparators need not return -1/0/1 */
}
static int counting_cmp(const void *a, const void *b) { ncmp++; return raw_cmp(a, b); }
/* "huge" observation mode: 10^5-key histories exceed the ledger's capacity, so the table gets the real allocator
   and the ledger token is the constant L=0,0,0 on both sides */
#pragma push_macro("malloc")
#pragma push_macro("calloc")
#pragma push_macro("free")
#undef malloc
#undef calloc
#undef free
static void *raw_malloc(size_t n) { return malloc(n); }
static void *raw_calloc(size_t a, size_t b) { return calloc(a, b); }
static void raw_free(void *p) { free(p); }
#pragma pop_macro("malloc")
#pragma pop_macro("calloc")
#pragma pop_macro("free")
static void ledger(void) { if (full == 2) printf(" L=0,0,0"); else vf_ledger(); }

static CC_TreeTable *T_(void) { return isset ? set->t : tab; }

static void shape(RBNode *n, RBNode *s) {
    if (n == s) { printf("."); return; }
    printf("(%c %llu ", n->color == RB_RED ? 'R' : 'B', (unsigned long long)(uintptr_t)n->key);
    shape(n->left, s); printf(" "); shape(n->right, s); printf(")");
}
/* red-black rules on the real tree: returns black height or -1 */
static int rb_rules(RBNode *n, RBNode *s) {
    if (n == s) return 0;
    int l = rb_rules(n->left, s), r = rb_rules(n->right, s);
    if (l < 0 || r < 0 || l != r) return -1;
    if (n->color == RB_RED && (n->left->color == RB_RED || n->right->color == RB_RED)) return -1;
    return l + (n->color == RB_RED ? 0 : 1);
}
static RBNode *prev_node; static int order_ok;
static void order(RBNode *n, RBNode *s) {
    if (n == s) return;
    order(n->left, s);
    if (prev_node && raw_cmp(prev_node->key, n->key) >= 0) order_ok = 0;
    prev_node = n;
    order(n->right, s);
}
static int rb_ok(void) {
    CC_TreeTable *t = T_();
    if (t->root != t->sentinel && t->root->color == RB_RED) return 0;
    if (t->sentinel->color != RB_BLACK) return 0;
    if (rb_rules(t->root, t->sentinel) < 0) return 0;
    prev_node = NULL; order_ok = 1; order(t->root, t->sentinel);
    return order_ok;
}
static int ilog2(unsigned long long x) { int r = 0; while (x > 1) { x >>= 1; r++; } return r; }

static void obs(unsigned long long k, size_t n_before) {
    CC_TreeTable *t = T_();
    int bal = k <= (unsigned long long)(2 * ilog2((unsigned long long)n_before + 1) + 2);
    size_t size = isset ? cc_treeset_size(set) : cc_treetable_size(tab);
    if (full != 1) { printf(" | size=%zu bal=%d", size, bal); ledger(); printf(" #T=- #K=%llu", k); return; }
    printf(" | size=%zu keys=[", size);
    static uintptr_t vals[4096]; size_t nv = 0; int first = 1;
    if (isset) {
        CC_TreeSetIter it; void *e; cc_treeset_iter_init(&it, set);
        while (cc_treeset_iter_next(&it, &e) != CC_ITER_END) { printf("%s%llu", first ? "" : " ", (unsigned long long)(uintptr_t)e); first = 0; }
        printf("]");
    } else {
        CC_TreeTableIter it; CC_TreeTableEntry e; cc_treetable_iter_init(&it, tab);
        while (cc_treetable_iter_next(&it, &e) != CC_ITER_END) {
            printf("%s%llu", first ? "" : " ", (unsigned long long)(uintptr_t)e.key); first = 0;
            if (nv < 4096) vals[nv++] = (uintptr_t)e.value;
        }
        printf("] vals=[");
        for (size_t i = 0; i < nv; i++) printf("%s%llu", i ? " " : "", (unsigned long long)vals[i]);
        printf("]");
    }
    void *fk = NULL, *fv = NULL;
    if (isset) {
        if (cc_treeset_get_first(set, &fk) == CC_OK) printf(" first=%llu", (unsigned long long)(uintptr_t)fk); else printf(" first=-");
        if (cc_treeset_get_last(set, &fk) == CC_OK) printf(" last=%llu", (unsigned long long)(uintptr_t)fk); else printf(" last=-");
    } else {
        if (cc_treetable_get_first_key(tab, &fk) == CC_OK && cc_treetable_get_first_value(tab, &fv) == CC_OK)
            printf(" first=%llu:%llu", (unsigned long long)(uintptr_t)fk, (unsigned long long)(uintptr_t)fv); else printf(" first=-");
        if (cc_treetable_get_last_key(tab, &fk) == CC_OK && cc_treetable_get_last_value(tab, &fv) == CC_OK)
            printf(" last=%llu:%llu", (unsigned long long)(uintptr_t)fk, (unsigned long long)(uintptr_t)fv); else printf(" last=-");
    }
    for (int d = 0; d < 2; d++) {
        printf(d ? " lt=[" : " gt=[");
        for (int i = 0; i < npool; i++) {
            void *o = NULL; enum cc_stat s;
            if (isset) s = d ? cc_treeset_get_lesser_than(set, (void *)pool[i], &o) : cc_treeset_get_greater_than(set, (void *)pool[i], &o);
            else s = d ? cc_treetable_get_lesser_than(tab, (void *)pool[i], &o) : cc_treetable_get_greater_than(tab, (void *)pool[i], &o);
            printf("%s%llu>", i ? " " : "", (unsigned long long)pool[i]);
            if (s == CC_OK) printf("%llu", (unsigned long long)(uintptr_t)o); else printf("-");
        }
        printf("]");
    }
    printf(" rb=%d bal=%d", rb_ok(), bal);
    ledger();
    printf(" #T="); shape(t->root, t->sentinel);
    printf(" #K=%llu", k);
}

static void run_trace_header(int argc, char **argv) {
    CC_TreeTableConf conf;
    cc_treetable_conf_init(&conf);
    isset = !strcmp(argv[3], "set");
    cmpmode = !strcmp(argv[4], "rev") ? 1 : !strcmp(argv[4], "q4") ? 2 : 0;
    int useconf = !strcmp(argv[5], "conf");
    full = !strcmp(argv[6], "full") ? 1 : !strcmp(argv[6], "huge") ? 2 : 0;
    npool = 0;
    if (strcmp(argv[7], "-")) { char *save = NULL; for (char *t = strtok_r(argv[7], ",", &save); t && npool < 64; t = strtok_r(NULL, ",", &save)) pool[npool++] = (uintptr_t)vf_num(t); }
    const char *plan = "";
    for (int i = 8; i < argc; i++) if (!strncmp(argv[i], "plan=", 5)) plan = argv[i] + 5;
    if (useconf) { conf.mem_alloc = vf_conf_malloc; conf.mem_calloc = vf_conf_calloc; conf.mem_free = vf_conf_free; }
    if (full == 2) { useconf = 1; conf.mem_alloc = raw_malloc; conf.mem_calloc = raw_calloc; conf.mem_free = raw_free; }
    conf.cmp = counting_cmp;
    vf_set_plan(plan);
    enum cc_stat s;
    if (isset) s = VF_OUT(set, useconf ? cc_treeset_new_conf(&conf, &set) : cc_treeset_new(counting_cmp, &set));
    else s = VF_OUT(tab, useconf ? cc_treetable_new_conf(&conf, &tab) : cc_treetable_new(counting_cmp, &tab));
    printf("new %s", vf_stat(s));
    iter_ok = 0;
    if (s == CC_OK) obs(0, 0); else { tab = NULL; set = NULL; printf(" |"); ledger(); }
}

static uintptr_t each_buf[4096]; static size_t each_n;
static void each_key(const void *k) { if (each_n < 4096) each_buf[each_n++] = (uintptr_t)k; }
static void each_val(void *v) { if (each_n < 4096) each_buf[each_n++] = (uintptr_t)v; }

#define P1(x) printf(" %llu", (unsigned long long)(uintptr_t)(x))

static void run_op(int argc, char **argv) {
    (void)argc;
    if (!tab && !set) { printf("skip"); return; }
    const char *op = argv[0];
    void *k = argc > 1 ? (void *)(uintptr_t)vf_num(argv[1]) : NULL;
    void *v = argc > 2 ? (void *)(uintptr_t)vf_num(argv[2]) : NULL;
    void *out = (void *)(uintptr_t)0xDEAD;
    enum cc_stat s = CC_OK;
    if ((!strcmp(op, "next") || !strcmp(op, "irm")) && !iter_ok) { printf("skip"); return; }
    size_t n_before = T_()->size;
    ncmp = 0;
    if (isset) {
        if (!strcmp(op, "add")) { s = cc_treeset_add(set, k); printf("add %s", vf_stat(s)); }
        else if (!strcmp(op, "rm")) { s = cc_treeset_remove(set, k, &out); printf("rm %s", vf_stat(s)); if (s == CC_OK) iter_ok = 0; }
        else if (!strcmp(op, "clear")) { cc_treeset_remove_all(set); printf("clear OK"); iter_ok = 0; }
        else if (!strcmp(op, "first")) { s = cc_treeset_get_first(set, &out); printf("first %s", vf_stat(s)); if (s == CC_OK) P1(out); }
        else if (!strcmp(op, "last")) { s = cc_treeset_get_last(set, &out); printf("last %s", vf_stat(s)); if (s == CC_OK) P1(out); }
        else if (!strcmp(op, "gt")) { s = cc_treeset_get_greater_than(set, k, &out); printf("gt %s", vf_stat(s)); if (s == CC_OK) P1(out); }
        else if (!strcmp(op, "lt")) { s = cc_treeset_get_lesser_than(set, k, &out); printf("lt %s", vf_stat(s)); if (s == CC_OK) P1(out); }
        else if (!strcmp(op, "has")) { printf("has OK %d", (int)cc_treeset_contains(set, k)); }
        else if (!strcmp(op, "size")) { printf("size OK %zu", cc_treeset_size(set)); }
        else if (!strcmp(op, "each")) { each_n = 0; cc_treeset_foreach(set, each_key); printf("each OK"); for (size_t i = 0; i < each_n; i++) P1(each_buf[i]); }
        else if (!strcmp(op, "it")) { cc_treeset_iter_init(&siter, set); iter_ok = 1; printf("it OK"); }
        else if (!strcmp(op, "next")) { s = cc_treeset_iter_next(&siter, &out); printf("next %s", vf_stat(s)); if (s == CC_OK) P1(out); }
        else if (!strcmp(op, "irm")) { s = cc_treeset_iter_remove(&siter, &out); printf("irm %s", vf_stat(s)); }
        else { printf("badop"); return; }
    } else {
        if (!strcmp(op, "add")) { s = cc_treetable_add(tab, k, v); printf("add %s", vf_stat(s)); }
        else if (!strcmp(op, "get")) { s = cc_treetable_get(tab, k, &out); printf("get %s", vf_stat(s)); if (s == CC_OK) P1(out); }
        else if (!strcmp(op, "has")) { printf("has OK %d", (int)cc_treetable_contains_key(tab, k)); }
        else if (!strcmp(op, "hasv")) { printf("hasv OK %zu", cc_treetable_contains_value(tab, k)); }
        else if (!strcmp(op, "rm")) { s = cc_treetable_remove(tab, k, &out); printf("rm %s", vf_stat(s)); if (s == CC_OK) { P1(out); iter_ok = 0; } }
        else if (!strcmp(op, "rmf")) { s = cc_treetable_remove_first(tab, &out); printf("rmf %s", vf_stat(s)); if (s == CC_OK) { P1(out); iter_ok = 0; } }
        else if (!strcmp(op, "rml")) { s = cc_treetable_remove_last(tab, &out); printf("rml %s", vf_stat(s)); if (s == CC_OK) { P1(out); iter_ok = 0; } }
        else if (!strcmp(op, "clear")) { cc_treetable_remove_all(tab); printf("clear OK"); iter_ok = 0; }
        else if (!strcmp(op, "fk")) { s = cc_treetable_get_first_key(tab, &out); printf("fk %s", vf_stat(s)); if (s == CC_OK) P1(out); }
        else if (!strcmp(op, "lk")) { s = cc_treetable_get_last_key(tab, &out); printf("lk %s", vf_stat(s)); if (s == CC_OK) P1(out); }
        else if (!strcmp(op, "fv")) { s = cc_treetable_get_first_value(tab, &out); printf("fv %s", vf_stat(s)); if (s == CC_OK) P1(out); }
        else if (!strcmp(op, "lv")) { s = cc_treetable_get_last_value(tab, &out); printf("lv %s", vf_stat(s)); if (s == CC_OK) P1(out); }
        else if (!strcmp(op, "gt")) { s = cc_treetable_get_greater_than(tab, k, &out); printf("gt %s", vf_stat(s)); if (s == CC_OK) P1(out); }
        else if (!strcmp(op, "lt")) { s = cc_treetable_get_lesser_than(tab, k, &out); printf("lt %s", vf_stat(s)); if (s == CC_OK) P1(out); }
        else if (!strcmp(op, "size")) { printf("size OK %zu", cc_treetable_size(tab)); }
        else if (!strcmp(op, "eachk")) { each_n = 0; cc_treetable_foreach_key(tab, each_key); printf("eachk OK"); for (size_t i = 0; i < each_n; i++) P1(each_buf[i]); }
        else if (!strcmp(op, "eachv")) { each_n = 0; cc_treetable_foreach_value(tab, each_val); printf("eachv OK"); for (size_t i = 0; i < each_n; i++) P1(each_buf[i]); }
        else if (!strcmp(op, "it")) { cc_treetable_iter_init(&iter, tab); iter_ok = 1; printf("it OK"); }
        else if (!strcmp(op, "next")) { CC_TreeTableEntry e; s = cc_treetable_iter_next(&iter, &e); printf("next %s", vf_stat(s)); if (s == CC_OK) { P1(e.key); P1(e.value); } }
        else if (!strcmp(op, "irm")) { s = cc_treetable_iter_remove(&iter, &out); printf("irm %s", vf_stat(s)); if (s == CC_OK) P1(out); }
        else { printf("badop"); return; }
    }
    obs(ncmp, n_before);
}

static void run_trace_end(void) {
    if (!tab && !set) { printf("end |"); ledger(); return; }
    printf("end size=%zu rb=%d |", T_()->size, rb_ok());
    if (isset) cc_treeset_destroy(set); else cc_treetable_destroy(tab);
    tab = NULL; set = NULL;
    ledger();
}
