/* Harness for CC_DynamicPool. Pointers are printed as p<page index from the oldest>+<offset in payload>.
 * Independent monitors (ok flag): block inside a page the pool owns, disjoint from every live block,
 * aligned (padded mode), accounting identities, page count after reset. */
#define VF_NO_POOL 1   /* this harness includes the pool sources itself */
#include "common.h"
#include "memory/cc_dynamic_pool.c"

static CC_DynamicPool *pool;
static int ok = 1, packed = 1; static size_t boundary = 1, init_size; static int is_fixed = 1;
static struct { uint8_t *p; size_t len; } blk[8192]; static size_t nblk; static uint8_t *last_ptr;
static size_t handed = 0;

static size_t npages(void) { size_t n = 0; for (PageInfo *pi = (PageInfo*)pool->page; pi; pi = pi->previous) n++; return n; }
static PageInfo *page_at(size_t k) { /* k counted from the oldest */
    size_t n = npages(); if (k >= n) return NULL;
    PageInfo *pi = (PageInfo*)pool->page; for (size_t i = n - 1; i > k; i--) pi = pi->previous; return pi; }
static int locate(uint8_t *p, size_t *k, size_t *off) {
    size_t n = npages(), i = n; 
    for (PageInfo *pi = (PageInfo*)pool->page; pi; pi = pi->previous) { i--;
        uint8_t *lo = (uint8_t*)pi + sizeof(PageInfo);
        if (p >= lo && (size_t)(p - lo) <= pi->size) { *k = i; *off = (size_t)(p - lo); return 1; } }
    return 0; }
static void obs(void) {
    size_t sum_top = 0; uint8_t *lo = pool->page + sizeof(PageInfo);
    for (size_t i = 0; i < nblk; i++) if (blk[i].p >= lo && blk[i].p <= lo + pool->top_page_size) sum_top += blk[i].len;
    size_t used = cc_dynamic_pool_used_bytes(pool), fr = cc_dynamic_pool_free_bytes(pool);
    size_t older = 0; for (PageInfo *pi = ((PageInfo*)pool->page)->previous; pi; pi = pi->previous) older += pi->size;
    if (used - older + fr != pool->top_page_size) ok = 0;          /* used(top) + free = top page size */
    if (packed && used - older != sum_top) ok = 0;                 /* packed: used in top page = sum of live block lengths there */
    if (!packed && used - older < sum_top) ok = 0;
    if (is_fixed && npages() != 1) ok = 0;
    printf(" | used=%zu free=%zu pages=%zu ok=%d", used, fr, npages(), ok);
    vf_ledger();
}
static void record(uint8_t *p, size_t n) {
    size_t k, off;
    if (!locate(p, &k, &off)) { ok = 0; printf(" #P=outside"); return; }
    PageInfo *pi = page_at(k);
    if (n > pi->size - off) ok = 0;                                              /* inside the page */
    if (!vf_is_live(pi)) ok = 0;                                                 /* page still owned */
    for (size_t i = 0; i < nblk; i++)
        if (n && blk[i].len && p < blk[i].p + blk[i].len && blk[i].p < p + n) ok = 0;   /* disjoint */
    if (!packed && n && boundary && off % boundary) ok = 0;                      /* aligned relative to the payload */
    blk[nblk].p = p; blk[nblk].len = n; nblk++; last_ptr = p;
}
static void run_trace_header(int argc, char **argv) {
    CC_DynamicPoolConf conf; cc_dynamic_pool_conf_init(&conf);
    size_t size = 16; int conf_mem = 0, dflt = 0; unsigned long long num = 1, den = 1;
    for (int i = 3; i < argc; i++) {
        if (!strncmp(argv[i], "size=", 5)) size = vf_num(argv[i] + 5);
        else if (!strncmp(argv[i], "fixed=", 6)) conf.is_fixed = vf_num(argv[i] + 6) != 0;
        else if (!strncmp(argv[i], "packed=", 7)) conf.is_packed = vf_num(argv[i] + 7) != 0;
        else if (!strncmp(argv[i], "ef=", 3)) { sscanf(argv[i] + 3, "%llu/%llu", &num, &den); conf.exp_factor = (float)num / (float)den; }
        else if (!strncmp(argv[i], "boundary=", 9)) conf.alignment_boundary = vf_num(argv[i] + 9);
        else if (!strcmp(argv[i], "mem=conf")) conf_mem = 1;
        else if (!strcmp(argv[i], "default")) dflt = 1;
        else if (!strncmp(argv[i], "plan=", 5)) vf_set_plan(argv[i] + 5);
    }
    if (conf_mem) { conf.mem_alloc = vf_conf_malloc; conf.mem_calloc = vf_conf_calloc; conf.mem_free = vf_conf_free; }
    packed = conf.is_packed; boundary = conf.alignment_boundary; init_size = size; is_fixed = conf.is_fixed;
    enum cc_stat s = VF_OUT(pool, dflt ? cc_dynamic_pool_new(size, &pool) : cc_dynamic_pool_new_conf(size, &conf, &pool));
    printf("new %s", vf_stat(s));
    if (s == CC_OK) obs(); else { pool = NULL; printf(" |"); vf_ledger(); }
}
static void print_ptr(uint8_t *p) { size_t k, off; if (locate(p, &k, &off)) printf(" #P=p%zu+%zu", k, off); else printf(" #P=outside"); }
static void run_op(int argc, char **argv) {
    if (!pool) { printf("skip"); return; }
    if (!strcmp(argv[0], "malloc") && argc > 1) {
        size_t n = vf_num(argv[1]);
        uint8_t *p = cc_dynamic_pool_malloc(n, pool);
        printf("malloc %s", p ? "OK" : "NULL");
        if (p) { record(p, n); handed += n; }
        obs(); if (p) print_ptr(p);
    } else if (!strcmp(argv[0], "calloc") && argc > 2) {
        size_t c = vf_num(argv[1]), n = vf_num(argv[2]);
        uint8_t *p = cc_dynamic_pool_calloc(c, n, pool);
        if (p) { size_t tot = c * n, k, off; int z = 1;
            if (locate(p, &k, &off) && tot <= page_at(k)->size - off) for (size_t i = 0; i < tot; i++) if (p[i]) z = 0;
            printf("calloc OK zero=%d", z); record(p, tot); handed += tot;
        } else printf("calloc NULL");
        obs(); if (p) print_ptr(p);
    } else if (!strcmp(argv[0], "free") && argc > 2) {
        size_t k = vf_num(argv[1]), off = vf_num(argv[2]);
        PageInfo *pi = page_at(k);
        if (!pi || off > pi->size) { printf("free skip"); obs(); return; }
        uint8_t *p = (uint8_t*)pi + sizeof(PageInfo) + off;
        cc_dynamic_pool_free(p, pool);
        if (p == last_ptr && nblk && blk[nblk - 1].p == p) nblk--;
        printf("free"); obs();
    } else if (!strcmp(argv[0], "fill") && argc > 1) {     /* dirty every live block */
        for (size_t i = 0; i < nblk; i++) memset(blk[i].p, (int)vf_num(argv[1]), blk[i].len);
        printf("fill"); obs();
    } else if (!strcmp(argv[0], "reset")) {
        cc_dynamic_pool_reset(pool); nblk = 0; last_ptr = pool->page + sizeof(PageInfo); handed = 0;
        if (npages() != 1 || pool->top_page_size != init_size) ok = 0;
        printf("reset"); obs();
    } else printf("badop");
}
static void run_trace_end(void) {
    if (!pool) { printf("end |"); vf_ledger(); return; }
    cc_dynamic_pool_destroy(pool); pool = NULL;
    printf("end |"); vf_ledger();
}
